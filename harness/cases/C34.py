"""C34 Telegram callbacks see exactly the telegrams they subscribed to."""
import asyncio

from xknx import XKNX
from xknx.devices import Devices
from xknx.dpt import DPTBinary
from xknx.telegram import AddressFilter, GroupAddress, IndividualAddress, Telegram, TelegramDirection
from xknx.telegram.address import GroupAddressType, InternalGroupAddress
from xknx.telegram.apci import GroupValueWrite

PROPERTY = "C34"
RULE = ("generated registration sets (0-6 callbacks; filters from the documented grammar in the configured notation incl. internal-address "
        "globs; address lists with group and internal addresses; None vs empty-list arguments; outgoing flag; raising callbacks; callbacks that "
        "unregister themselves or others while running) x telegram streams (incoming/outgoing; group, internal and individual destinations; "
        "addresses chosen on range boundaries of the filters; in a third of the cases a registration's filter / address lists are replaced in place and the same telegrams are sent again) through TelegramQueue.process_telegram_incoming/outgoing with a stub interface; "
        "observation per telegram = ordered callback ids called and whether devices.process ran. non-trivial = cases in which at least one "
        "callback was called and at least one was not")
TRUSTED = ["model XknxVerif.Model.Callbacks hand-written on top of the C02 address-filter model; "
           "cemi_handler.send_telegram and Devices.process are stubbed at class level (C33 covers the queue around them)"]
CASE_TIMEOUT = 3.0

FMTS = {"LONG": GroupAddressType.LONG, "SHORT": GroupAddressType.SHORT, "FREE": GroupAddressType.FREE}
_loop = None
_real_process = None


def setup():
    global _loop, _real_process
    _loop = asyncio.new_event_loop()
    asyncio.set_event_loop(_loop)
    _real_process = Devices.process


def teardown():
    Devices.process = _real_process
    GroupAddress.address_format = GroupAddressType.LONG
    asyncio.set_event_loop(None)
    _loop.close()


def dotted(s):
    return ".".join(str(ord(c)) for c in s) or "-"


def gen_value(rng, mx):
    k = rng.random()
    v = rng.choice([0, 1, mx, rng.randrange(mx + 1)])
    w = rng.choice([0, 1, mx, rng.randrange(mx + 1)])
    if k < 0.3:
        return "*"
    if k < 0.55:
        return str(v)
    if k < 0.8:
        return f"{v}-{w}"
    if k < 0.9:
        return f"-{w}"
    return f"{v}-"


def gen_pattern(rng, fmt):
    maxes = {"LONG": [31, 7, 255], "SHORT": [31, 2047], "FREE": [65535]}[fmt]
    return "/".join(",".join(gen_value(rng, m) for _ in range(rng.choice([1, 1, 2]))) for m in maxes)


INTERNALS = ["i-a", "i-ab", "i-b1", "i-light", "i-x"]
IGLOBS = ["i-*", "i-a*", "i-?", "i-[ab]*", "i-light", "i-b?"]


def gen_addr(rng):
    if rng.random() < 0.25:
        return "i" + dotted(rng.choice(INTERNALS))
    return "g" + str(rng.choice([1, 2, 0x0901, 0x0902, 2047, 2048, 65535, rng.randrange(1, 65536)]))


def generate(rng, tier):
    n = 1500 if tier == "quick" else 20000
    for _ in range(n):
        fmt = rng.choice(["LONG", "LONG", "SHORT", "FREE"])
        nreg = rng.choice([0, 1, 2, 3, 3, 4, 5, 6])
        regs = []
        for i in range(nreg):
            k = rng.random()
            if k < 0.2:
                ao, fs, ads = "A", [], []            # both arguments None
            else:
                ao = "-"
                fs = [gen_pattern(rng, fmt) if rng.random() < 0.8 else rng.choice(IGLOBS) for _ in range(rng.choice([0, 1, 1, 2]))]
                ads = [gen_addr(rng) for _ in range(rng.choice([0, 0, 1, 2]))]
            ao += "O" if rng.random() < 0.4 else "-"
            b = rng.random()
            if b < 0.65:
                beh = "n"
            elif b < 0.8:
                beh = "r"
            else:
                targets = sorted({rng.randrange(nreg) for _ in range(rng.choice([1, 1, 2]))} | ({i} if rng.random() < 0.6 else set()))
                beh = ("r" if rng.random() < 0.3 else "") + "u" + "+".join(map(str, targets))
            regs.append(f"{i}:{ao}:{'|'.join(dotted(f) for f in fs) or '-'}:{','.join(ads) or '-'}:{beh}")
        tgs = []
        for _ in range(rng.choice([1, 2, 4, 8])):
            d = "O" if rng.random() < 0.4 else "I"
            k = rng.random()
            if k < 0.1:
                a = "p" + str(rng.randrange(65536))
            else:
                a = gen_addr(rng)
            tgs.append(f"{d}:{a}")
        if nreg and rng.random() < 0.35:
            # a history: the same telegrams again after a registration's lists were replaced in place (what a callback is
            # called for is decided by its lists as they are NOW, nothing remembered from earlier telegrams)
            first = list(tgs)
            for _ in range(rng.choice([1, 1, 2])):
                k = rng.randrange(nreg)
                fs = [gen_pattern(rng, fmt) if rng.random() < 0.8 else rng.choice(IGLOBS) for _ in range(rng.choice([0, 1, 1, 2]))]
                ads = [gen_addr(rng) for _ in range(rng.choice([0, 0, 1, 2]))]
                if rng.random() < 0.5 and first:
                    ads.append(rng.choice(first).split(":")[1]) if first[0].split(":")[1][0] != "p" else None
                tgs.append(f"E:{k}:{'|'.join(dotted(f) for f in fs) or '-'}:{','.join(a for a in ads if a[0] != 'p') or '-'}")
                tgs += first if rng.random() < 0.7 else [rng.choice(first)]
        yield {"op": f"c34 run {fmt} {';'.join(regs) or '-'} {';'.join(tgs)}"}


def undot(s):
    return "" if s in ("", "-") else "".join(chr(int(c)) for c in s.split("."))


def mk_addr(tok):
    if tok[0] == "g":
        return GroupAddress(int(tok[1:]))
    if tok[0] == "i":
        return InternalGroupAddress(undot(tok[1:]))
    return IndividualAddress(int(tok[1:]))


async def _send_stub(self, telegram):
    return None


def run_impl(case):
    from xknx.cemi.cemi_handler import CEMIHandler

    _, _, fmt, rs, ts = case["op"].split(" ")
    x = XKNX(address_format=FMTS[fmt])   # the constructor (re)sets the process-global GroupAddress.address_format
    tq = x.telegram_queue
    events = []
    handles = {}

    def mk_cb(i, beh):
        raises = beh.startswith("r")
        rest = beh[1:] if raises else beh
        un = [int(k) for k in rest[1:].split("+")] if rest.startswith("u") else []

        def cb(telegram):
            events.append(str(i))
            for k in un:
                h = handles.get(k)
                if h is not None and h in tq.telegram_received_cbs:
                    tq.unregister_telegram_received_cb(h)
            if raises:
                raise RuntimeError("scripted")
        return cb

    for r in ([] if rs == "-" else rs.split(";")):
        i, ao, fs, ads, beh = r.split(":")
        if "A" in ao:
            filters, addrs = None, None
        else:
            filters = [AddressFilter(undot(f)) for f in fs.split("|")] if fs != "-" else []
            addrs = [mk_addr(a) for a in ads.split(",")] if ads != "-" else []
        handles[int(i)] = tq.register_telegram_received_cb(mk_cb(int(i), beh), address_filters=filters, group_addresses=addrs,
                                                          match_for_outgoing="O" in ao)
    real_send = CEMIHandler.send_telegram
    CEMIHandler.send_telegram = _send_stub
    Devices.process = lambda self, telegram: events.append("D")
    out = []
    try:
        for t in ts.split(";"):
            if t.startswith("E:"):
                _, k, fs, ads = t.split(":")
                h = handles[int(k)]
                h.address_filters[:] = [AddressFilter(undot(f)) for f in fs.split("|")] if fs != "-" else []
                h.group_addresses[:] = [mk_addr(a) for a in ads.split(",")] if ads != "-" else []
                out.append("E")
                continue
            d, a = t.split(":")
            tg = Telegram(destination_address=mk_addr(a), payload=GroupValueWrite(DPTBinary(1)),
                          direction=TelegramDirection.OUTGOING if d == "O" else TelegramDirection.INCOMING)
            events.clear()
            try:
                if d == "O":
                    _loop.run_until_complete(tq.process_telegram_outgoing(tg))
                else:
                    _loop.run_until_complete(tq.process_telegram_incoming(tg))
            except Exception as e:  # noqa: BLE001
                events.append(f"!{type(e).__name__}")
            out.append(",".join(events))
    finally:
        CEMIHandler.send_telegram = real_send
        Devices.process = _real_process
    return ";".join(out)


def spec_called(fmt, reg, tg):
    """The property, restated independently: uses AddressFilter only through plain range arithmetic."""
    i, ao, fs, ads, beh = reg
    d, a = tg.split(":")
    if d == "O" and "O" not in ao:
        return False
    if "A" in ao:
        return True
    if a[0] == "p":
        return False
    if ads != "-" and a in ads.split(","):
        return True
    if fs == "-":
        return False
    for f in fs.split("|"):
        pat = undot(f)
        if pat.startswith("i"):
            if a[0] == "i":
                import fnmatch
                name = undot(a[1:])
                if fnmatch.fnmatchcase(InternalGroupAddress(name).raw, InternalGroupAddress(pat).raw):
                    return True
            continue
        if a[0] != "g":
            continue
        raw = int(a[1:])
        vals = {"LONG": [raw >> 11, (raw >> 8) & 7, raw & 255], "SHORT": [raw >> 11, raw & 2047], "FREE": [raw]}[fmt]
        ok = True
        for level, v in zip(pat.split("/"), vals):
            hit = False
            for item in level.split(","):
                if item == "*":
                    lo, hi = 0, 65535
                elif "-" in item:
                    lo_s, hi_s = item.split("-")
                    lo, hi = int(lo_s or 0), int(hi_s) if hi_s else 65535
                    lo, hi = min(lo, hi), max(lo, hi)
                else:
                    lo = hi = int(item)
                hit = hit or lo <= v <= hi
            ok = ok and hit
        if ok:
            return True
    return False


def oracle(case, out):
    _, _, fmt, rs, ts = case["op"].split(" ")
    regs = [r.split(":") for r in ([] if rs == "-" else rs.split(";"))]
    alive = [r[0] for r in regs]
    for tg, ev in zip(ts.split(";"), out.split(";")):
        if tg.startswith("E:"):
            _, k, fs, ads = tg.split(":")
            for r in regs:
                if r[0] == k:
                    r[2], r[3] = fs, ads
            continue
        evs = ev.split(",") if ev else []
        if any(e.startswith("!") for e in evs):
            return f"telegram {tg}: processing raised {evs}"
        if evs.count("D") != 1:
            return f"telegram {tg}: device processing ran {evs.count('D')} times ({ev})"
        calls = [e for e in evs if e != "D"]
        at_start = list(alive)
        removed_during = set()
        for r in regs:
            if r[0] not in at_start:
                if r[0] in calls:
                    return f"telegram {tg}: callback {r[0]} was called although it had been unregistered before this telegram"
                continue
            want = spec_called(fmt, r, tg)
            n = calls.count(r[0])
            if r[0] in removed_during and want:
                ok = n in (0, 1)       # unregistered by an earlier callback of the same dispatch: either is acceptable
            else:
                ok = n == (1 if want else 0)
            if not ok:
                return (f"telegram {tg}: callback {r[0]} ({':'.join(r[1:4])}) was called {n} time(s), "
                        f"the property says {1 if want else 0} (calls: {ev})")
            if n:
                beh = r[4][1:] if r[4].startswith("r") else r[4]
                if beh.startswith("u"):
                    for k in beh[1:].split("+"):
                        if k in alive:
                            alive.remove(k)
                            removed_during.add(k)
        order = [c for c in calls]
        if order != sorted(order, key=lambda c: [r[0] for r in regs].index(c)):
            return f"telegram {tg}: callbacks not in registration order: {ev}"
    return None


def nontrivial(case, out):
    toks = [e for e in out.replace(";", ",").split(",") if e and e != "D"]
    return bool(toks) and case["op"].count(":") > 4
