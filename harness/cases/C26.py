"""C26 Heartbeat gives up exactly after four consecutive failures (mode R on the virtual-time loop)."""
from __future__ import annotations

import asyncio
import itertools
import logging

from harness import vloop

from xknx.exceptions import CommunicationError, RequestResponseError
from xknx.io import const
from xknx.io.data_connection import ConnectionHeartbeat

PROPERTY = "C26"
RULE = ("outcome scripts over {ok, fail(no response), fail(status), none, raise} fed to the real ConnectionHeartbeat on the "
        "virtual-time loop with the request stubbed (request durations 0 / 50 ms / CONNECTIONSTATE_REQUEST_TIMEOUT); all "
        "4^1+..+4^8 = 87 380 scripts over {ok, fail, none, raise} in thorough, in quick all up to length 7 and those of "
        "length 8 whose unconsumed tail is at most two outcomes (the two kinds of fail alternate by position) "
        "+ random scripts up to length 12 with all duration modes and owner-callback variants (stop from inside, slow, "
        "restart, raises CommunicationError / a subclass / RuntimeError at once, after 1 s, after stopping the heartbeat - "
        "crossed with every script up to length 6 (7 thorough) that gives up); the same heartbeat inside a real UDPTunnel and UDPDeviceManagementConnection (real ConnectionState "
        "exchange over the stub socket, gateway scripted ok / silent / error status / channel gone) for all live scripts "
        "up to length 4 (5 thorough); thorough adds scripts of length 9..12 stratified by the lengths of the failure "
        "runs; non-trivial = "
        "distinct script in which at least one request failed")
TRUSTED = ["model XknxVerif.Model.Heartbeat is hand-written; tied by replaying the recorded traces through its monitor",
           "harness/vloop.py virtual clock; the stubbed send_connectionstate/on_failure callables of this file"]
CASE_TIMEOUT = 10.0
ASSUMPTIONS = ["'the request raises' means CommunicationError (or a subclass), as the class documents; other exception "
               "types escaping the callable are outside the statement"]

RATE = const.HEARTBEAT_RATE
SYMS = ["ok", "f0", "none", "raise"]
DURS = {"zero": lambda o: 0.0,
        "fast": lambda o: 0.05,
        "real": lambda o: 0.05 if o == "ok" else (float(const.CONNECTIONSTATE_REQUEST_TIMEOUT) if o == "f0" else 0.0)}


class _Sub(RequestResponseError):
    pass


# what `on_failure` may do besides returning (round 3): raise - at once, after taking time, after stopping the heartbeat
FAIL_RAISES = {"raise-comm": lambda: CommunicationError("Transport not connected"),
               "raise-sub": lambda: _Sub("disconnect failed"),
               "raise-other": lambda: RuntimeError("boom"),
               "slow-raise-comm": lambda: CommunicationError("late"),
               "stop-raise-comm": lambda: CommunicationError("stopped, then failed")}


async def _run(loop, script, dur, variant):
    t0 = loop.time()
    tr = []
    pos = [0]
    exhausted = loop.create_future()

    def now():
        return vloop.q(loop.time() - t0)

    async def send():
        tr.append(f"Q{now()}")
        if pos[0] >= len(script):
            if not exhausted.done():
                exhausted.set_result(None)
            await asyncio.Event().wait()  # never answered: the harness cuts the heartbeat
        o = script[pos[0]]
        pos[0] += 1
        d = DURS[dur](o if not o.startswith("f") else "f0")
        if d:
            await asyncio.sleep(d)
        tr.append(f"R{o}@{now()}")
        if o == "ok":
            return True, None
        if o == "none":
            return None
        if o == "raise":
            raise (CommunicationError("x") if pos[0] % 2 else _Sub("y"))
        st = int(o[1:])
        return False, (None if st == 0 else f"E_{st}")

    raised = []

    async def on_failure():   # recorded when STARTED; what it does afterwards is the scripted axis `variant`
        tr.append(f"F{now()}")
        if variant == "stop-inside":
            hb.stop()  # the owner's callback may stop the heartbeat from within its task
        elif variant == "slow":
            await asyncio.sleep(1.0)
        elif variant in FAIL_RAISES:
            if variant.startswith("slow-"):
                await asyncio.sleep(1.0)
            if variant.startswith("stop-"):
                hb.stop()
            raised.append(FAIL_RAISES[variant]())
            raise raised[-1]

    hb = ConnectionHeartbeat("verif", send, on_failure)
    hb.start()
    tr.append(f"S{now()}")
    if variant == "restart":  # start() twice: the first task must be gone without a trace
        await asyncio.sleep(RATE / 2)
        hb.stop()
        hb.start()
        tr[:] = [f"S{now()}"]
    task = hb._task
    await asyncio.wait([task, exhausted], return_when=asyncio.FIRST_COMPLETED)
    if task.done():
        exc = None if task.cancelled() else task.exception()
        if exc is None:
            tr.append(f"E{now()}")
        elif raised and exc is raised[-1]:
            tr.append(f"Z{now()}")     # the exception of on_failure ended the task (it propagates on the unchanged tree)
        else:
            tr.append(f"!{type(exc).__name__}")
        # nothing may happen afterwards either
        n = len(tr)
        await asyncio.sleep(3 * RATE)
        if len(tr) != n:
            tr.append("!late-activity")
    else:
        await loop.settle()
        hb.stop()
        tr.append(f"X{now()}")
        await loop.settle()
        if not task.done():
            tr.append("!stop-did-not-stop")
    if not exhausted.done():
        exhausted.cancel()
    return tr


# --- the same heartbeat inside its owners: real UDPTunnel / UDPDeviceManagementConnection, real ConnectionState
#     requests over the stub socket, a gateway scripted per request --------------------------------------------------

def _owner_classes():
    from harness.tstub import StubUDP
    from xknx.io.device_management_connection import UDPDeviceManagementConnection
    from xknx.io.tunnel import UDPTunnel

    class Tun(UDPTunnel):
        __slots__ = ("hook",)

        def _init_transport(self):
            self.transport = StubUDP()

        def _tunnel_established(self):
            super()._tunnel_established()
            self.hook("S", None)

        async def _connectionstate_request(self):
            await self.hook("Q", None)
            r = await super()._connectionstate_request()
            self.hook("R", r)
            return r

        async def _heartbeat_failed(self):
            self.hook("F", None)
            await super()._heartbeat_failed()

    class Dm(UDPDeviceManagementConnection):
        __slots__ = ("hook",)

        def _init_transport(self):
            self.transport = StubUDP()

        async def _connectionstate_request(self):
            await self.hook("Q", None)
            r = await super()._connectionstate_request()
            self.hook("R", r)
            return r

        async def disconnect(self):   # on_failure of the device management connection
            self.hook("F", None)
            await super().disconnect()

    return Tun, Dm


async def _run_owner(loop, script, owner, dead=False):
    from harness.tstub import GW, Gateway
    from xknx import XKNX
    from xknx.knxip import ConnectionStateRequest, ConnectionStateResponse, ErrorCode
    Tun, Dm = _owner_classes()
    t0 = loop.time()
    tr = []
    pos = [0]
    exhausted = loop.create_future()
    cur = [None]

    def now():
        return vloop.q(loop.time() - t0)

    if owner == "tunnel":
        o = Tun(XKNX(), cemi_received_callback=lambda raw: None, gateway_ip=GW[0], gateway_port=GW[1],
                local_ip="192.168.1.1", auto_reconnect=False)
    else:
        o = Dm(gateway_ip=GW[0], gateway_port=GW[1], local_ip="192.168.1.1")

    def hook(kind, val):
        if kind == "S":
            tr.append(f"S{now()}")
        elif kind == "F":
            tr.append(f"F{now()}")
        elif kind == "R":
            got = ("none" if val is None else "ok" if val[0] else "f0" if val[1] is None
                   else f"f{ErrorCode[val[1]].value}")
            tr.append(f"R{got}@{now()}")
            if got != cur[0]:
                tr.append(f"!outcome-{got}-for-gateway-behaviour-{cur[0]}")
        else:
            async def q():
                tr.append(f"Q{now()}")
                if pos[0] >= len(script):
                    if not exhausted.done():
                        exhausted.set_result(None)
                    await asyncio.Event().wait()
                cur[0] = script[pos[0]]
                pos[0] += 1
                if cur[0] == "none":
                    o.communication_channel = None   # the connection is already gone when the heartbeat looks
            return q()
    o.hook = hook

    def on_data(fr, addr):
        pass
    gw = Gateway(o.transport, on_data=on_data)
    gw.answer_state = False
    base = gw.handle

    def handle(fr, addr):
        b = fr.body
        if isinstance(b, ConnectionStateRequest):
            if cur[0] == "ok":
                loop.call_later(0.05, o.transport.inject, ConnectionStateResponse(communication_channel_id=b.communication_channel_id))
            elif cur[0] not in ("f0", "none"):
                loop.call_later(0.05, o.transport.inject, ConnectionStateResponse(
                    communication_channel_id=b.communication_channel_id, status_code=ErrorCode(int(cur[0][1:]))))
            return
        base(fr, addr)
    o.transport.gateway = handle
    await o.connect()
    if dead:   # the socket dies before the first heartbeat: requests fail at once, on_failure runs over a dead transport
        loop.call_later(RATE - 1, o.transport.stop)
    if owner != "tunnel":
        tr.append(f"S{now()}")
    task = o._heartbeat._task
    await asyncio.wait([task, exhausted], return_when=asyncio.FIRST_COMPLETED)
    if task.done():
        exc = None if task.cancelled() else task.exception()
        tr.append(f"E{now()}" if exc is None else f"!{type(exc).__name__}")
        n = len(tr)
        await asyncio.sleep(3 * RATE)
        if len(tr) != n:
            tr.append("!late-activity")
    else:
        await loop.settle()
        o._heartbeat.stop()
        tr.append(f"X{now()}")
        await loop.settle()
        if not task.done():
            tr.append("!stop-did-not-stop")
    if not exhausted.done():
        exhausted.cancel()
    o.hook = lambda k, v: (asyncio.sleep(0) if k == "Q" else None)
    await o.disconnect()
    return tr


def run_impl(case):
    script = case["script"].split(",")
    if case.get("owner"):
        tr = vloop.run(_run_owner, script, case["owner"], bool(case.get("dead")))
        s = ",".join(tr)
        return {"out": s, "line": f"hb monitor {s}", "expect": "accept"}
    tr = vloop.run(_run, script, case.get("dur", "zero"), case.get("variant", "plain"))
    s = ",".join(tr)
    return {"out": s, "line": f"hb monitor {s}", "expect": "accept"}


# ---------------------------------------------------------------------------
# oracle: the property text on the recorded trace, independent of the Lean model
# ---------------------------------------------------------------------------

def oracle(case, out):
    script = case["script"].split(",")
    rate = vloop.q(RATE)
    obs = out.split(",")
    fails = 0          # consecutive failed requests
    last = None        # time of start / last response
    waiting = False
    over = None        # "lost" / "gone"
    n_fail_cb = 0
    consumed = 0
    for i, o in enumerate(obs):
        k = o[0]
        if k == "!":
            return f"obs {i}: {o[1:]} (heartbeat task died or misbehaved)"
        if k == "S":
            last = int(o[1:])
        elif k == "Q":
            t = int(o[1:])
            if over:
                return f"obs {i}: a request was sent after the heartbeat was over ({over})"
            if waiting:
                return f"obs {i}: a request was sent while another one is outstanding"
            if fails == 0 and t != last + rate:
                return f"obs {i}: request at {t}us, but the period after start/last response ({last}us) ends at {last + rate}us"
            if fails and t < last:
                return f"obs {i}: repetition before the failed response"
            waiting = True
        elif k == "R":
            oc, t = o[1:].split("@")
            if script[consumed] != oc:
                if case.get("owner"):
                    return (f"obs {i}: the {case['owner']}'s ConnectionState request reported '{oc}' although the gateway "
                            f"behaved '{script[consumed]}' (ok / f0 = silent / f<status> / none = channel already gone)")
                return f"obs {i}: harness error, outcome {oc} is not script[{consumed}]"
            consumed += 1
            waiting, last = False, int(t)
            if oc == "ok":
                fails = 0
            elif oc == "none":
                over = "gone"
            elif oc == "raise":
                over = "lost"
            else:
                fails += 1
                if fails == 4:
                    over = "lost"
        elif k == "F":
            n_fail_cb += 1
            if over != "lost":
                return (f"obs {i}: on_failure awaited although the outcomes so far ({','.join(script[:consumed])}) "
                        f"contain neither a raise nor four consecutive failures" + (" (connection was gone: must stop quietly)" if over == "gone" else ""))
            if n_fail_cb > 1:
                return (f"obs {i}: on_failure started {n_fail_cb} times - the connection is declared lost once, whatever "
                        f"on_failure does (variant {case.get('variant', 'plain')})")
        elif k == "E":
            if over is None:
                return f"obs {i}: heartbeat task ended although it should still be running (after {','.join(script[:consumed])})"
            if over == "lost" and n_fail_cb != 1:
                return f"obs {i}: heartbeat ended after {','.join(script[:consumed])} without awaiting on_failure"
        elif k == "Z":   # the task ended with the exception its on_failure raised
            if over != "lost" or n_fail_cb != 1:
                return f"obs {i}: heartbeat task ended with on_failure's exception, but on_failure was started {n_fail_cb} times (phase {over})"
        elif k == "X":
            if over is not None:
                return f"obs {i}: heartbeat still alive after it should have been {over}"
    if obs[-1][0] not in "EXZ":
        return "trace does not end with the task ending or being cut"
    return None


def nontrivial(case, out):
    return "Rf" in out or "Rraise" in out


def finding_key(case, msg):
    return f"{case['script']}|{case.get('dur', 'zero')}|{case.get('variant', 'plain')}|{case.get('owner', '')}|{case.get('dead', '')}"


def outcome_class(out):
    return ("lost" if ",F" in out else "gone" if "Rnone" in out else "cut") + f"/{out.count('Q')}req"


def shrink(case, msg):
    s = case["script"].split(",")

    def fails(x):
        c = dict(case, script=",".join(x))
        try:
            return bool(x) and oracle(c, run_impl(c)["out"]) is not None
        except Exception:  # noqa: BLE001
            return False
    i = 0
    while i < len(s) and len(s) > 1:
        cand = s[:i] + s[i + 1:]
        if fails(cand):
            s = cand
        else:
            i += 1
    c = dict(case, script=",".join(s))
    c["violation_on_shrunk_input"] = oracle(c, run_impl(c)["out"])
    return c


# ---------------------------------------------------------------------------
# generators
# ---------------------------------------------------------------------------

def _terminal_at(seq):
    """index of the first outcome that ends the heartbeat, or None"""
    f = 0
    for i, o in enumerate(seq):
        if o in ("none", "raise"):
            return i
        f = f + 1 if o.startswith("f") else 0
        if f == 4:
            return i
    return None


def _status_variant(seq, salt):
    # alternate "no response" and an error status so that both kinds of failure occur
    return [("f0" if (i + salt) % 3 else "f34") if o == "f0" else o for i, o in enumerate(seq)]


def generate(rng, tier):
    thorough = tier == "thorough"
    variants = ["plain", "stop-inside", "slow", "restart"] + list(FAIL_RAISES)
    n = 0
    for length in range(1, 9):
        for seq in itertools.product(SYMS, repeat=length):
            t = _terminal_at(seq)
            pruned = t is not None and t < length - 2
            if pruned and length == 8 and not thorough:
                continue   # quick: length 8 only up to an unconsumed tail of two outcomes (thorough runs all 4^8)
            n += 1
            yield {"script": ",".join(_status_variant(seq, n)),
                   "dur": "zero" if pruned else ("zero", "fast", "real")[n % 3],
                   "variant": "plain" if pruned else variants[(n // 3) % 4 if n % 5 == 0 else 0]}
            # on_failure behaviour x every script that gives up (t is the index of the raise / 4th failure), length <= 6
            if t is not None and t >= length - 2 and seq[t] != "none" and length <= (7 if thorough else 6):
                for v in FAIL_RAISES:
                    yield {"script": ",".join(_status_variant(seq, n)), "dur": ("zero", "real")[n % 2], "variant": v}
    # the heartbeat inside its owners (real ConnectionState exchange; `raise` cannot be produced there)
    osyms = ["ok", "f0", "f33", "none"]
    for length in range(1, 6 if thorough else 5):
        for seq in itertools.product(osyms, repeat=length):
            t = _terminal_at(seq)
            if t is not None and t < length - 1:
                continue
            for owner in ("tunnel", "dmconn"):
                yield {"script": ",".join(seq), "owner": owner}
    for owner in ("tunnel", "dmconn"):   # dead socket: four immediate failures, then on_failure over a dead transport
        yield {"script": "f0,f0,f0,f0,ok", "owner": owner, "dead": 1}
    # random full-length scripts (unpruned), all durations and variants
    for j in range(4000 if thorough else 400):
        length = rng.choice([3, 5, 8, 9, 10, 11, 12]) if thorough else rng.choice([2, 4, 6, 8, 12])
        p_ok = rng.choice([0.2, 0.5, 0.8])
        seq = []
        for _ in range(length):
            r = rng.random()
            seq.append("ok" if r < p_ok else "f0" if r < 0.93 else "none" if r < 0.96 else "raise")
        yield {"script": ",".join(_status_variant(seq, j)), "dur": rng.choice(list(DURS)), "variant": rng.choice(variants)}
    # stratified 9..12: every pattern of fail-run lengths (0..4) separated by successes, then each ending
    if thorough:
        for length in range(9, 13):
            for runs in itertools.product(range(0, 4), repeat=4):
                seq = []
                for r in runs:
                    seq += ["f0"] * r + ["ok"]
                seq = seq[:length - 1]
                for end in (["f0"] * 4, ["none"], ["raise"], ["ok"]):
                    full = (seq + end + ["ok"])[:length + 3]
                    yield {"script": ",".join(_status_variant(full, length)), "dur": ("zero", "real")[len(runs) % 2],
                           "variant": "plain"}


_old_disable = None


def setup():
    global _old_disable
    _old_disable = logging.root.manager.disable
    logging.disable(logging.CRITICAL)


def teardown():
    logging.disable(_old_disable or 0)
