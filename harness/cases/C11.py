"""C11 Any value accepted for sending becomes a wire-valid telegram.

Every RemoteValue* class (discovered by introspection), the group_value_write / group_value_response helpers and the MCP
write tool are driven with values across and beyond each type's range.  Whenever a setter returns, the queued telegram
must serialise (CEMILData.init_from_telegram(...).to_knx()); whenever it refuses, it must be a ConversionError and the
queue must be unchanged.  The Lean model (Model/Send.lean) mirrors DPTArray/DPTBinary construction, _parse_payload,
RemoteValueRaw / Scaling / Switch / Step / UpDown and the delegation to a DPT transcoder (whose result is supplied).
"""
from __future__ import annotations

import asyncio
import datetime
from fractions import Fraction
import importlib
import inspect
import json
import logging
import math
import pkgutil

from xknx import XKNX
from xknx.cemi import CEMILData
from xknx.dpt import DPTArray, DPTBase, DPTBinary
from xknx.exceptions import ConversionError
from xknx.mcp import tools as mcp_tools
from xknx.mcp.types import GroupValueWriteInput
import xknx.remote_value as rvpkg
from xknx.remote_value import RemoteValue
from xknx.telegram import IndividualAddress
from xknx.telegram.apci import GroupValueResponse, GroupValueWrite
from xknx.tools import group_value_response, group_value_write

PROPERTY = "C11"
RULE = ("every RemoteValue* class found by introspection (each with its configurations), group_value_write/response with and "
        "without value_type, and the MCP write tool x a value pool spanning ranges and types (None, bools, ints around 0/63/64/"
        "255/256/2^n, floats incl. nan/inf/ties, strings, bytes, lists/tuples with out-of-range / non-int items and lengths "
        "around 253/254, dicts, enums, date/time objects, payload objects) plus random values near each DPT's declared range, plus every numeric DPT class through RemoteValueSensor with fractional values on "
        "both sides of both range bounds (bound + f x {resolution, 1}, f in +-{0, 1e-9, .3, .5, .7, .999, 1, 1.5}); "
        "non-trivial = distinct (target, configuration, value) triples")
TRUSTED = [
    "DPT transcoders are a black box here: the model is given what DPT.to_knx returned/raised for the value (C07-C10 cover the codecs)",
    "float arithmetic of RemoteValueScaling is modelled over exact rationals; cases where the float pipeline differs from the exact "
    "value are compared on acceptance and wire validity only (counted as float-gap in the evidence)",
    "serialisation = CEMILData.init_from_telegram(telegram).to_knx() of the real code",
]
CASE_TIMEOUT = 5.0

# --------------------------------------------------------------------------
# discovery of the remote value classes
# --------------------------------------------------------------------------

BASE_PARAMS = {"self", "xknx", "group_address", "group_address_state", "sync_state", "device_name", "feature_name", "after_update_cb"}


def discover():
    classes = {}
    for m in pkgutil.iter_modules(rvpkg.__path__):
        mod = importlib.import_module(f"xknx.remote_value.{m.name}")
        for n, o in vars(mod).items():
            if (inspect.isclass(o) and issubclass(o, RemoteValue) and o.__module__ == mod.__name__
                    and not inspect.isabstract(o) and not n.startswith("_") and o is not RemoteValue):
                classes[n] = o
    return classes


CLASSES = discover()

# configurations for constructor parameters beyond the common ones (JSON-able descriptions)
CONFIGS = {
    "RemoteValueByLength": [{"dpt_classes": ["DPTValue1Count", "DPT2ByteUnsigned"], "internal": "DPTValue1Count"},
                            {"dpt_classes": ["DPTValue1Count", "DPT2ByteUnsigned"], "internal": "DPT2ByteUnsigned"},
                            {"dpt_classes": ["DPTValue1Count", "DPT2ByteFloat"], "internal": None}],
    "RemoteValueRaw": [{"payload_length": n} for n in (0, 1, 2, 3, 4, 8, 14)],
    "RemoteValueScaling": [{}, {"range_from": 100, "range_to": 0}, {"range_from": 0, "range_to": 255},
                           {"range_from": -50, "range_to": 50}, {"range_from": 0, "range_to": 1}, {"range_from": 0, "range_to": 3},
                           {"range_from": 5, "range_to": 5}],
    "RemoteValueSetpointShift": [{}, {"setpoint_shift_mode": "DPT6010"}, {"setpoint_shift_mode": "DPT9002"},
                                 {"setpoint_shift_mode": "DPT6010", "setpoint_shift_step": 0.5}],
    "RemoteValueSensor": [{"value_type": v} for v in ("temperature", "percent", "string", 1, "pulse_2byte_signed", "latin_1",
                                                      "percentV16", "4byte_float", "angle", "time", "color_rgb", "9.001", "20.102")],
    "RemoteValueNumeric": [{"value_type": v} for v in ("temperature", "percentV8", "4byte_float", "pulse_4_ucount", "active_energy_kwh")],
    "RemoteValueString": [{}, {"value_type": "latin_1"}],
    "RemoteValueBinaryOperationMode": [{"operation_mode": "COMFORT"}, {"operation_mode": "ECONOMY"}],
    "RemoteValueBinaryHeatCool": [{"controller_mode": "HEAT"}, {"controller_mode": "COOL"}],
    "RemoteValueSwitch": [{}, {"invert": True}],
    "RemoteValueStep": [{}, {"invert": True}],
    "RemoteValueUpDown": [{}, {"invert": True}],
}


def uncovered_classes():
    out = []
    for n, c in CLASSES.items():
        sig = inspect.signature(c.__init__)
        extra = [p.name for p in sig.parameters.values() if p.name not in BASE_PARAMS
                 and p.kind not in (p.VAR_KEYWORD, p.VAR_POSITIONAL)]
        required = [p.name for p in sig.parameters.values() if p.name in extra and p.default is inspect.Parameter.empty]
        if required and n not in CONFIGS:
            out.append(n)
    return out


def build_kwargs(cls_name, cfg):
    from xknx.dpt.dpt_20 import HVACControllerMode, HVACOperationMode
    from xknx.remote_value.remote_value_setpoint_shift import SetpointShiftMode
    import xknx.dpt as D

    kw = {}
    for k, v in cfg.items():
        if k == "internal":
            continue
        if k == "dpt_classes":
            kw[k] = tuple(getattr(D, n) for n in v)
        elif k == "setpoint_shift_mode":
            kw[k] = SetpointShiftMode[v]
        elif k == "operation_mode":
            kw[k] = HVACOperationMode[v]
        elif k == "controller_mode":
            kw[k] = HVACControllerMode[v]
        else:
            kw[k] = v
    return kw


# --------------------------------------------------------------------------
# values (JSON-able tagged encoding, deterministic)
# --------------------------------------------------------------------------


def V(t, v=None, **kw):
    d = {"t": t}
    if v is not None:
        d["v"] = v
    d.update(kw)
    return d


def enc_float(f):
    if math.isnan(f):
        return V("float", "nan")
    if math.isinf(f):
        return V("float", "inf" if f > 0 else "-inf")
    return V("float", f.hex())


def dec_value(d):
    from xknx.dpt.dpt_20 import HVACControllerMode, HVACOperationMode, HVACStatus
    from xknx.remote_value.remote_value_step import RemoteValueStep
    from xknx.remote_value.remote_value_updown import RemoteValueUpDown

    t = d["t"]
    if t == "none":
        return None
    if t == "bool":
        return bool(d["v"])
    if t == "int":
        return int(d["v"])
    if t == "float":
        return float(d["v"]) if d["v"] in ("nan", "inf", "-inf") else float.fromhex(d["v"])
    if t == "str":
        return d["v"]
    if t == "bytes":
        return bytes.fromhex(d["v"])
    if t == "list":
        return [dec_value(x) for x in d["v"]]
    if t == "tuple":
        return tuple(dec_value(x) for x in d["v"])
    if t == "dict":
        return {k: dec_value(x) for k, x in d["v"]}
    if t == "obj":
        return object()
    if t == "enum":
        cls = {"HVACOperationMode": HVACOperationMode, "HVACControllerMode": HVACControllerMode, "HVACStatus": None,
               "Step": RemoteValueStep.Direction, "UpDown": RemoteValueUpDown.Direction}[d["cls"]]
        return cls[d["v"]]
    if t == "time":
        return datetime.time(*d["v"])
    if t == "date":
        return datetime.date(*d["v"])
    if t == "datetime":
        return datetime.datetime(*d["v"])
    if t == "dptarray":
        return DPTArray(tuple(d["v"]))
    if t == "dptbinary":
        return DPTBinary(d["v"])
    if t == "dc":
        import importlib
        mod = {"KNXDateTime": "xknx.dpt.dpt_19", "KNXTime": "xknx.dpt.dpt_10", "KNXDate": "xknx.dpt.dpt_11"}[d["cls"]]
        return getattr(importlib.import_module(mod), d["cls"])(**{k: v for k, v in d["v"]})
    raise ValueError(t)


def ints(*xs):
    return [V("int", str(x)) for x in xs]


BASE_VALUES = (
    [V("none"), V("bool", True), V("bool", False), V("obj")]
    + ints(0, 1, 2, -1, 3, 50, 62, 63, 64, 65, 99, 100, 101, 127, 128, 150, 254, 255, 256, 257, -10, -128, -129, 32767, 32768, 65535, 65536,
           2**31 - 1, 2**31, -2**31, -2**31 - 1, 2**32 - 1, 2**32, 2**63, 2**64, -2**63 - 1, 670760, 670761, -671089)
    + [enc_float(f) for f in (0.0, -0.0, 0.5, 1.5, 2.5, -0.5, 0.29, 100.4, 99.99, 100.0, 100.2, 25.5, 127.5, 254.5, 255.5, 1e-320, 1e300, -1e300,
                              3.4028235e38, 3.5e38, 670760.96, 670433.28, -273.0, -273.1, float("nan"), float("inf"), float("-inf"))]
    + [V("str", s) for s in ("", "x", "1", "1.5", "on", "comfort", "Heat", "auto", "ä" * 14, "a" * 14, "a" * 15, "€", "\x00", "12:30:00")]
    + [V("bytes", ""), V("bytes", "01"), V("bytes", "0102"), V("bytes", "ff" * 14), V("bytes", "00" * 253), V("bytes", "00" * 254)]
    + [V("list", ints(1, 2, 3)), V("list", ints(1, 2, 300)), V("list", []), V("list", ints(-1)), V("list", ints(255)), V("list", ints(256)),
       V("list", [enc_float(1.5)]), V("list", [V("str", "a")]), V("list", [V("none")]), V("list", [V("bool", True)]),
       V("list", [V("list", ints(1))]), V("list", ints(*([0] * 253))), V("list", ints(*([0] * 254))), V("list", ints(*([7] * 300))),
       V("tuple", ints(1, 2, 3)), V("tuple", ints(300)), V("tuple", [enc_float(1.5)]), V("tuple", []), V("tuple", ints(255, 255, 255)),
       V("tuple", ints(255, 255, 256)), V("tuple", ints(0, 0, 0, 0)), V("tuple", ints(1, 2, 3) + [V("none")]), V("tuple", ints(*([1] * 254)))]
    + [V("dict", []), V("dict", [["a", V("int", "1")]]), V("dict", [["red", V("int", "1")], ["green", V("int", "2")], ["blue", V("int", "300")]]),
       V("dict", [["red", V("int", "1")], ["green", V("int", "2")], ["blue", V("int", "3")]]),
       V("dict", [["red", V("none")]]), V("dict", [["hour", V("int", "25")], ["minutes", V("int", "0")], ["seconds", V("int", "0")]])]
    + [V("enum", "COMFORT", cls="HVACOperationMode"), V("enum", "ECONOMY", cls="HVACOperationMode"), V("enum", "HEAT", cls="HVACControllerMode"),
       V("enum", "COOL", cls="HVACControllerMode"), V("enum", "INCREASE", cls="Step"), V("enum", "DECREASE", cls="Step"),
       V("enum", "UP", cls="UpDown"), V("enum", "DOWN", cls="UpDown")]
    + [V("time", [1, 2, 3]), V("date", [2020, 1, 1]), V("date", [1989, 12, 31]), V("date", [2090, 1, 1]), V("datetime", [2020, 1, 1, 0, 0, 0])]
    + [V("dptarray", [1]), V("dptarray", [1, 2]), V("dptarray", []), V("dptarray", [300]), V("dptarray", [-1]), V("dptarray", [0] * 253),
       V("dptarray", [0] * 254), V("dptbinary", 1), V("dptbinary", 63)]
)


def random_value(rng, dpt=None):
    c = rng.randrange(12)
    if dpt is not None and c < 6:
        lo, hi = getattr(dpt, "value_min", None), getattr(dpt, "value_max", None)
        res = getattr(dpt, "resolution", 1) or 1
        if isinstance(lo, (int, float)) and isinstance(hi, (int, float)):
            base = rng.choice([lo, hi, 0, (lo + hi) / 2])
            delta = rng.choice([0, res, -res, res / 2, -res / 2, 0.7 * res, -0.7 * res, 0.3, -0.3, 0.7, -0.7, 1, -1, res * 1.0000001, 1e-9, -1e-9, abs(hi - lo) or 1])
            x = base + delta
            if rng.random() < 0.5 and float(x).is_integer() and abs(x) < 2**62:
                return V("int", str(int(x)))
            return enc_float(float(x))
    if c < 8:
        return V("int", str(rng.choice([rng.randrange(-300, 600), rng.randrange(-2**33, 2**33), rng.randrange(0, 256)])))
    if c == 8:
        return enc_float(rng.choice([rng.uniform(-1, 300), rng.uniform(-1e6, 1e6), rng.randrange(0, 512) / 2, rng.randrange(0, 1000) / 10]))
    if c == 9:
        n = rng.choice([0, 1, 2, 3, 14, 15, 253, 254])
        items = [V("int", str(rng.choice([0, 1, 255, 256, -1, rng.randrange(256)]) if rng.random() < 0.2 else rng.randrange(256))) for _ in range(n)]
        if rng.random() < 0.15 and items:
            items[rng.randrange(len(items))] = rng.choice([enc_float(1.5), V("str", "a"), V("none"), V("bool", True)])
        return V(rng.choice(["list", "tuple"]), items)
    if c == 10:
        return V("bytes", bytes(rng.getrandbits(8) for _ in range(rng.choice([0, 1, 2, 14, 15, 253, 254]))).hex())
    return rng.choice(BASE_VALUES)


BOUND_FRACS = [-1.5, -1, -0.999, -0.7, -0.5, -0.3, -1e-9, 0, 1e-9, 0.3, 0.5, 0.7, 0.999, 1, 1.5]

FULL_POOL = {"RemoteValueScaling", "RemoteValueRaw", "RemoteValueSwitch", "RemoteValueStep", "RemoteValueUpDown", "RemoteValueSetpointShift"}


def pool(rng, thorough, full):
    return BASE_VALUES


def generate(rng, tier):
    thorough = tier != "quick"
    for name in sorted(CLASSES):
        for cfg in CONFIGS.get(name, [{}]):
            for v in pool(rng, thorough, name in FULL_POOL):
                yield {"target": "rv", "cls": name, "cfg": cfg, "value": v, "response": False}
            dpt = dpt_of(name, cfg)
            for _ in range(40 if not thorough else 1500):
                yield {"target": "rv", "cls": name, "cfg": cfg, "value": random_value(rng, dpt), "response": rng.random() < 0.2}
    # every numeric DPT class through a remote value, with fractional values on both sides of both range bounds (a range test on
    # int(value) and an encoder that rounds - or the other way round - disagree only there)
    for d in DPTBase.dpt_class_tree():
        if inspect.isabstract(d) or d.dpt_main_number is None:
            continue
        lo, hi = getattr(d, "value_min", None), getattr(d, "value_max", None)
        if not (isinstance(lo, (int, float)) and isinstance(hi, (int, float))) or isinstance(lo, bool):
            continue
        res = getattr(d, "resolution", 1) or 1
        seen = set()
        for base in (lo, hi):
            for unit in {res, 1}:
                for f in BOUND_FRACS:
                    x = base + f * unit
                    if x in seen or not math.isfinite(x):
                        continue
                    seen.add(x)
                    v = V("int", str(int(x))) if float(x).is_integer() and abs(x) < 2**62 and rng.random() < 0.5 else enc_float(float(x))
                    yield {"target": "rv", "cls": "RemoteValueSensor", "cfg": {"value_type": d.dpt_number_str()}, "value": v,
                           "response": False}
    # date/time dataclass instances through their remote values: every field alone (and pairs) at None / bounds / beyond one
    # octet, the rest of the value well-formed - a validator that looks at a group of fields only when the whole group is given
    # and a serialiser that copies each field on its own disagree on half-given groups
    dt_ok = [("year", 2024), ("month", 6), ("day", 15), ("hour", 12), ("minutes", 30), ("seconds", 0)]
    pools = {"year": [None, 1899, 1900, 2155, 2156, 0, 70000], "month": [None, 0, 1, 12, 13, 255, 256, 300, -1],
             "day": [None, 0, 1, 31, 32, 255, 256, 300, -1], "hour": [None, 0, 23, 24, 25, 255, 256, -1],
             "minutes": [None, 0, 59, 60, 255, 256, 300, -1], "seconds": [None, 0, 59, 60, 255, 256, 300, -1]}
    def _dc(cls, fields):
        return V("dc", [[k, v] for k, v in fields], cls=cls)
    for f1, vals1 in pools.items():
        for v1 in vals1:
            yield {"target": "rv", "cls": "RemoteValueDateTime", "cfg": {}, "response": False,
                   "value": _dc("KNXDateTime", [(k, v1 if k == f1 else v) for k, v in dt_ok])}
            for f2 in pools:
                if f2 == f1:
                    continue
                yield {"target": "rv", "cls": "RemoteValueDateTime", "cfg": {}, "response": bool(v1),
                       "value": _dc("KNXDateTime", [(k, v1 if k == f1 else (None if k == f2 else v)) for k, v in dt_ok])}
    for f1 in ("hour", "minutes", "seconds"):
        for v1 in pools[f1][1:]:
            yield {"target": "rv", "cls": "RemoteValueTime", "cfg": {}, "response": False,
                   "value": _dc("KNXTime", [(k, v1 if k == f1 else v) for k, v in dt_ok[3:]])}
    for f1 in ("year", "month", "day"):
        for v1 in pools[f1][1:]:
            yield {"target": "rv", "cls": "RemoteValueDate", "cfg": {}, "response": False,
                   "value": _dc("KNXDate", [(k, v1 if k == f1 else v) for k, v in dt_ok[:3]])}
    vts = [None, "temperature", "percent", "string", "1.001", 5, "9.001", "time", "date", "color_rgb", "20.102", "percentV16", "angle",
           "4byte_float", "scene_number", "pulse_2byte", "14.019", "unknown-type", 99999]
    for target in ("gvw", "gvr", "mcp"):
        for vt in vts:
            if target == "mcp" and vt is not None and not isinstance(vt, str):
                continue
            for v in pool(rng, thorough, vt is None and target != "gvr"):
                if target == "mcp" and not json_native(v):
                    continue
                yield {"target": target, "value_type": vt, "value": v}
            dpt = None
            try:
                dpt = DPTBase.parse_transcoder(vt) if vt is not None else None
            except Exception:  # noqa: BLE001
                pass
            for _ in range(30 if not thorough else 1000):
                v = random_value(rng, dpt)
                if target == "mcp" and not json_native(v):
                    continue
                yield {"target": target, "value_type": vt, "value": v}
    # every DPT class through the raw helper with boundary values (wire validity of whatever the transcoder returns)
    for d in DPTBase.dpt_class_tree():
        if inspect.isabstract(d) or d.dpt_main_number is None:
            continue
        for _ in range(8 if not thorough else 80):
            yield {"target": "gvw", "value_type": d.dpt_number_str(), "value": random_value(rng, d)}


def json_native(v):
    t = v["t"]
    if t in ("none", "bool", "int", "float", "str"):
        return True
    if t == "list":
        return all(json_native(x) for x in v["v"])
    if t == "dict":
        return all(json_native(x) for _, x in v["v"])
    return False


def dpt_of(name, cfg):
    c = CLASSES[name]
    if isinstance(getattr(c, "dpt_class", None), type):
        return c.dpt_class
    vt = cfg.get("value_type")
    if vt is not None:
        try:
            return DPTBase.parse_transcoder(vt)
        except Exception:  # noqa: BLE001
            return None
    return None


# --------------------------------------------------------------------------
# implementation runner
# --------------------------------------------------------------------------

_loop = None
_xknx = None
GAPS = [0]


def setup():
    global _loop, _xknx
    _loop = asyncio.new_event_loop()
    asyncio.set_event_loop(_loop)
    _xknx = XKNX()
    logging.getLogger("xknx").setLevel(logging.CRITICAL + 1)


def teardown():
    logging.getLogger("xknx").setLevel(logging.NOTSET)
    asyncio.set_event_loop(None)
    _loop.close()


def drain():
    out = []
    q = _xknx.telegrams
    while not q.empty():
        out.append(q.get_nowait())
        q.task_done()
    return out


def render_payload(p):
    if isinstance(p, DPTBinary):
        return f"B:{int(p.value) if isinstance(p.value, int) else repr(p.value)}"
    if isinstance(p, DPTArray):
        try:
            return "A:" + (bytes(p.value).hex() or "-")
        except Exception:  # noqa: BLE001
            return "A!:" + ",".join(str(x)[:12] for x in p.value[:8])
    return f"?{type(p).__name__}"


def observe(fn):
    """Run a setter; canonical outcome."""
    drain()
    try:
        fn()
    except ConversionError:
        q = drain()
        return "conv" + ("+queued" if q else "")
    except Exception as e:  # noqa: BLE001
        q = drain()
        return f"exc:{type(e).__name__}" + ("+queued" if q else "")
    q = drain()
    if not q:
        return "noqueue"
    outs = []
    for t in q:
        apci = t.payload
        if not isinstance(apci, (GroupValueWrite, GroupValueResponse)):
            outs.append(f"?{type(apci).__name__}")
            continue
        pr = render_payload(apci.value)
        try:
            raw = CEMILData.init_from_telegram(t, src_addr=IndividualAddress(1)).to_knx()
            ap = bytes(apci.to_knx()).hex()
        except Exception as e:  # noqa: BLE001
            return f"unser:{type(e).__name__} {pr[:60]}"
        # what is on the wire must read back as what was accepted
        back = CEMILData.from_knx(raw).payload
        if type(back) is not type(apci) or back.value != apci.value:
            return f"unfaithful {pr[:60]} -> {render_payload(back.value)[:60]}"
        outs.append(f"{pr} {ap}")
    return "ok " + " ".join(outs)


def transcoder_result(fn):
    """what a DPT transcoder returned / raised for the value -> model token"""
    try:
        p = fn()
    except ConversionError:
        return "conv"
    except Exception as e:  # noqa: BLE001
        return "other"
    if isinstance(p, DPTBinary):
        return f"B:{item_tok(p.value)}"
    if isinstance(p, DPTArray):
        return "A:" + ",".join(item_tok(x) for x in p.value)
    return "other"


def item_tok(x):
    if type(x) is bool:
        return str(int(x))
    if type(x) is int:
        return str(x)
    return "x"


def val_tok(v):
    """model token of a tagged value (None when the model does not cover this kind of value)"""
    t = v["t"]
    if t == "none":
        return "N"
    if t == "bool":
        return "T" if v["v"] else "F"
    if t == "int":
        return f"I{v['v']}"
    if t == "float":
        if v["v"] in ("nan", "inf", "-inf"):
            return {"nan": "Xnan", "inf": "Xinf", "-inf": "Xninf"}[v["v"]]
        fr = Fraction(float.fromhex(v["v"]))
        return f"Q{fr.numerator}/{fr.denominator}"
    if t == "str":
        return "S" + (v["v"].encode().hex() or "-")
    if t == "bytes":
        return "Y:" + ",".join(str(b) for b in bytes.fromhex(v["v"]))
    if t in ("list", "tuple"):
        items = []
        for x in v["v"]:
            if x["t"] == "int":
                items.append(x["v"])
            elif x["t"] == "bool":
                items.append("1" if x["v"] else "0")
            else:
                items.append("x")
        return ("L:" if t == "list" else "U:") + ",".join(items)
    if t == "dptarray":
        return "PA:" + ",".join(str(x) for x in v["v"])
    if t == "dptbinary":
        return f"PB:{v['v']}"
    if t == "enum" and v["cls"] in ("Step", "UpDown"):
        return f"E{v['cls']}.{v['v']}"
    return "O"  # any other object


def run_impl(case):
    value = dec_value(case["value"])
    target = case["target"]
    line = None
    gap = False
    if target == "rv":
        cls = CLASSES[case["cls"]]
        cfg = case["cfg"]
        try:
            rv = cls(_xknx, group_address="1/2/3", **build_kwargs(case["cls"], cfg))
        except ConversionError:
            return {"out": "skip config-rejected", "line": None}
        if case["cls"] == "RemoteValueByLength" and cfg.get("internal"):
            import xknx.dpt as D
            rv._internal_dpt_class = getattr(D, cfg["internal"])
        out = observe(lambda: rv.set(value, response=case.get("response", False)))
        vt = val_tok(case["value"])
        name = case["cls"]
        k = "r" if case.get("response") else "w"
        if name == "RemoteValueScaling":
            line = f"c11 {k} scaling {cfg.get('range_from', 0)} {cfg.get('range_to', 100)} {vt}"
            gap = scaling_float_gap(cfg.get("range_from", 0), cfg.get("range_to", 100), value)
        elif name == "RemoteValueRaw":
            line = f"c11 {k} raw {cfg['payload_length']} {vt}"
        elif name == "RemoteValueSwitch":
            line = f"c11 {k} switch {int(bool(cfg.get('invert')))} {vt}"
        elif name == "RemoteValueStep":
            line = f"c11 {k} step {int(bool(cfg.get('invert')))} {vt}"
        elif name == "RemoteValueUpDown":
            line = f"c11 {k} updown {int(bool(cfg.get('invert')))} {vt}"
        else:
            d = dpt_of(name, cfg)
            if d is not None and type(rv).to_knx is RemoteValue.to_knx:
                # plain delegation to the transcoder: the model is given the transcoder's result
                line = f"c11 {k} dpt {transcoder_result(lambda: d.to_knx(dec_value(case['value'])))}"
    elif target in ("gvw", "gvr"):
        f = group_value_write if target == "gvw" else group_value_response
        out = observe(lambda: f(_xknx, "1/2/3", value, case["value_type"]))
        line = parse_payload_line(case, "w" if target == "gvw" else "r")
    elif target == "mcp":
        req = GroupValueWriteInput(group_address="1/2/3", value=value, value_type=case["value_type"])
        out = observe(lambda: _loop.run_until_complete(mcp_tools.send_group_value_write(_xknx, req)))
        line = parse_payload_line(case, "w")
    else:
        raise ValueError(target)
    if gap:
        # float pipeline differs from exact rational arithmetic: outside the model (oracle still applies)
        GAPS[0] += 1
        line = None
    return {"out": out, "line": line}


def parse_payload_line(case, k):
    vt = case["value_type"]
    v = case["value"]
    if v["t"] in ("dptarray", "dptbinary") or vt is None:
        return f"c11 {k} parse none {val_tok(v)}"
    try:
        d = DPTBase.get_dpt(vt)
    except Exception:  # noqa: BLE001
        return None  # unknown value type: refused before any value is looked at (not a value conversion)
    return f"c11 {k} parse dpt:{transcoder_result(lambda: d.to_knx(dec_value(v)))} {val_tok(v)}"


def scaling_float_gap(rf, rt, value):
    """True when float evaluation of round((v-rf)/delta*255) differs from exact rational evaluation."""
    if type(value) not in (int, float, bool) or rf == rt:
        return False
    if isinstance(value, float) and not math.isfinite(value):
        return False
    try:
        fl = round((value - rf) / (rt - rf) * 255)
    except OverflowError:
        return True
    ex = Fraction(value) - rf
    ex = ex / (rt - rf) * 255
    return fl != round(ex)


# --------------------------------------------------------------------------
# oracle
# --------------------------------------------------------------------------


def oracle(case, out):
    if out.startswith("skip"):
        return None
    what = describe(case)
    if out.startswith("ok "):
        return None
    if out == "conv":
        return None
    if out.startswith("unfaithful"):
        return f"{what}: accepted, but the telegram on the wire carries a different payload ({out})"
    if out.startswith("unser:"):
        return f"{what}: accepted and queued, but the telegram cannot be serialised ({out})"
    if out.startswith("conv+queued") or out.endswith("+queued"):
        return f"{what}: refused ({out.split('+')[0]}) but a telegram was queued"
    if out.startswith("exc:"):
        if case["target"] != "rv" and out == "exc:ValueError" and unknown_value_type(case):
            return None  # unknown value_type: the request is refused before the value is considered
        return f"{what}: refused with {out[4:]} instead of a conversion error"
    if out == "noqueue":
        return f"{what}: returned without queueing and without an error"
    return f"{what}: unexpected outcome {out}"


def unknown_value_type(case):
    try:
        DPTBase.get_dpt(case["value_type"])
    except Exception:  # noqa: BLE001
        return True
    return False


def describe(case):
    v = json.dumps(case["value"])[:80]
    if case["target"] == "rv":
        return f"{case['cls']}({json.dumps(case['cfg'])}).set({v})"
    return f"{case['target']}(value_type={case['value_type']!r}, {v})"


def nontrivial(case, out):
    return not out.startswith("skip")


def outcome_class(out):
    return out.split(" ")[0].split("+")[0]


def finding_key(case, msg):
    if case["target"] == "rv":
        return f"rv:{case['cls']}:{json.dumps(case['cfg'], sort_keys=True)}:{json.dumps(case['value'], sort_keys=True)}"
    return f"{case['target']}:{case['value_type']}:{json.dumps(case['value'], sort_keys=True)}"


def shrink(case, msg):
    """shorten list/tuple/bytes values while the oracle still complains"""
    v = case["value"]
    if v["t"] not in ("list", "tuple"):
        return case
    import copy
    best = copy.deepcopy(case)
    i = 0
    while i < len(best["value"]["v"]):
        c = copy.deepcopy(best)
        del c["value"]["v"][i]
        r = run_impl(c)
        if oracle(c, r["out"]):
            best = c
        else:
            i += 1
    return best


def evidence_extra():
    return {"remote_value_classes": sorted(CLASSES), "uncovered_classes": uncovered_classes(), "scaling_float_gap_cases": GAPS[0]}
