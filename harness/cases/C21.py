"""C21 KNX/IP bodies round-trip exactly (mode F: the model parses what the implementation serialised and re-serialises it)."""
import copy
import json
import os
import re
from pathlib import Path

from xknx.knxip import KNXIPFrame

from harness import knxip_lib as L

from harness.lib.poison import poison
PROPERTY = "C21"
CASE_TIMEOUT = 2.0
HANG_IS_VIOLATION = True
EXHAUSTIVE = False
RULE = ("spec: structure-aware random instances of all 29 body classes (HPAIs, CRI/CRD variants, DIB lists of all five DIB "
        "classes, SRP lists, status / feature / return codes drawn from the repo's enums, boundary values 0/1/255/65535, "
        "name lengths 0/29/30, 0/126 families, 0/62 slots) -> init_from_body().to_knx() -> from_knx(); neg: the same with one "
        "field pushed outside the well-formedness predicate; frame: every frame literal found in the repo's knxip tests, "
        "parsed and then treated as a body. The oracle applies the property whenever the Python mirror of WFBody holds; "
        "the model must agree on wf, on the parsed fields, and re-serialise to the same octets. "
        "non-trivial = distinct well-formed bodies that were serialised and parsed back")
TRUSTED = ["models XknxVerif.Model.KNXIP.* hand-written; enum tables and structure lengths regenerated each run",
           "harness/knxip_lib.py: py_wf (Python mirror of Body.wf, compared with the model's verdict on every case), "
           "struct_eq (recursive field equality), render",
           "representation-level well-formedness that the model abstracts from: IPv4 strings are canonical dotted quads, "
           "serial/MAC strings are lower-case colon hex (what the parser produces)"]

REPO = Path(os.environ.get("XKNX_REPO", "/repo"))
STATS = {"neg": 0, "neg_not_roundtrip": 0, "frames": 0, "frames_wf": 0}


def spec_case(spec, kind="spec"):
    return {"op": f"c21 {kind} " + json.dumps(spec, sort_keys=True, separators=(",", ":")), "spec": spec, "kind": kind}


def test_literals():
    """hex literals of the repo's knxip tests (and a few of the io tests) that look like KNX/IP frames"""
    out = []
    for d in ("test/knxip_tests", "test/io_tests"):
        for f in sorted((REPO / d).glob("*.py")):
            txt = f.read_text()
            for m in re.finditer(r'fromhex\(\s*((?:"[0-9A-Fa-f \n]*"\s*)+)\)', txt):
                h = "".join(re.findall(r'"([^"]*)"', m.group(1))).replace(" ", "").replace("\n", "").lower()
                if len(h) >= 12 and len(h) % 2 == 0 and h.startswith("0610") and h not in out:
                    out.append(h)
    return out


def negatives(rng):
    """well-formed spec with one field pushed outside the guard: (spec, patch applied to the built object)"""
    yield {"cls": "ConnectResponse", "ch": 1, "status": 0x24}, None          # default CRD: tunnel without address
    yield {"cls": "ConnectResponse", "ch": 256, "status": 0, "ep": L.g_hpai(rng), "crd": {"type": 4, "ia": 1}}, None
    yield {"cls": "SearchRequest", "ep": {"proto": 1, "ip": "1.2.3.4", "port": 65536}}, None
    yield {"cls": "SearchRequest", "ep": {"proto": 1, "ip": "1.2.3", "port": 1}}, None
    yield {"cls": "ConnectRequest", "ctrl": L.g_hpai(rng), "data": L.g_hpai(rng), "cri": {"type": 3, "layer": 4}}, None
    yield {"cls": "ConnectRequest", "ctrl": L.g_hpai(rng), "data": L.g_hpai(rng), "cri": {"type": 3, "ia": 7}}, None
    yield {"cls": "DescriptionResponse", "dibs": [{"k": "G", "dtc": 3, "data": "07"}]}, None
    yield {"cls": "DescriptionResponse", "dibs": [{"k": "G", "dtc": 2, "data": "0401"}]}, None
    yield {"cls": "DescriptionResponse", "dibs": [{"k": "G", "dtc": 0x55, "data": "0401", "enum": False}]}, None
    base = {"k": "I", "medium": 2, "prog": False, "ia": 1, "project": 1, "inst": 1, "serial": "000102030405",
            "mcast": "224.0.23.12", "mac": "0a0b0c0d0e0f", "name": "x"}
    for k, v in (("name", "y" * 31), ("name", "z\0"), ("name", "Δ"), ("project", 4096), ("inst", 16),
                 ("serial", "0001020304"), ("serial", "00:01:02:03:04:AA"), ("mac", "0a0b0c0d0e0f10")):
        d = dict(base)
        d[k] = v
        yield {"cls": "SearchResponse", "ep": L.g_hpai(rng), "dibs": [d]}, None
    yield {"cls": "SearchResponseExtended", "ep": L.g_hpai(rng), "dibs": [{"k": "S", "fams": [[2, 1]] * 127}]}, None
    yield {"cls": "SearchResponseExtended", "ep": L.g_hpai(rng), "dibs": [{"k": "S", "fams": [[2, 256]]}]}, None
    yield {"cls": "SearchResponseExtended", "ep": L.g_hpai(rng), "dibs": [{"k": "T", "apdu": 65536, "slots": []}]}, None
    yield {"cls": "SearchResponseExtended", "ep": L.g_hpai(rng),
           "dibs": [{"k": "T", "apdu": 1, "slots": [[i, 1] for i in range(63)]}]}, None
    yield {"cls": "SearchRequestExtended", "ep": L.g_hpai(rng), "srps": [{"type": 1, "mandatory": True, "data": "0909"}]}, None
    yield {"cls": "SearchRequestExtended", "ep": L.g_hpai(rng), "srps": [{"type": 0, "mandatory": False, "data": "01"}]}, None
    yield {"cls": "TunnellingFeatureSet", "ch": 1, "seq": 0, "ft": 1, "data": "05"}, None
    yield {"cls": "TunnellingFeatureSet", "ch": 1, "seq": 0, "ft": 1, "data": ""}, None
    yield {"cls": "TunnellingFeatureGet", "ch": 1, "seq": 0, "ft": 1, "data": "0506"}, None
    yield {"cls": "TunnellingFeatureResponse", "ch": 1, "seq": 0, "ft": 1, "rc": 0, "data": ""}, None
    yield {"cls": "TunnellingFeatureResponse", "ch": 1, "seq": 0, "ft": 1, "rc": 0xF1, "data": "01"}, None
    yield {"cls": "TunnellingRequest", "ch": 1, "seq": 256, "cemi": "1100"}, None
    yield {"cls": "RoutingBusy", "state": 0, "wait": 65536, "ctrl": 0}, None
    yield {"cls": "RoutingLostMessage", "state": 256, "lost": 1}, None
    yield {"cls": "RoutingIndication", "cemi": "00" * 65530}, None
    sw = {"cls": "SecureWrapper", "sid": 1, "seqinfo": "00" * 6, "serial": "00" * 6, "tag": "0000", "enc": "0102", "mac": "00" * 16}
    for k, v in (("enc", "01"), ("mac", "00" * 15), ("seqinfo", "00" * 5), ("tag", "00"), ("sid", 65536)):
        d = dict(sw)
        d[k] = v
        yield d, None
    yield {"cls": "SessionRequest", "ep": L.g_hpai(rng), "key": "00" * 31}, None
    yield {"cls": "SessionResponse", "sid": 1, "key": "00" * 32, "mac": "00" * 17}, None
    yield {"cls": "SessionAuthenticate", "uid": 256, "mac": "00" * 16}, None
    yield {"cls": "TimerNotify", "timer": 2 ** 48, "serial": "00" * 6, "tag": "0000", "mac": "00" * 16}, None
    yield {"cls": "TimerNotify", "timer": 1, "serial": "00" * 6, "tag": "0000", "mac": "00" * 15}, None


def generate(rng, tier):
    quick = tier == "quick"
    for h in test_literals():
        yield {"op": "c21 frame " + h, "kind": "frame"}
    for spec, _ in negatives(rng):
        yield spec_case(spec, "neg")
    reps = 25 if quick else 2500
    for cls in L.BODY_CLASSES:
        for _ in range(reps):
            yield spec_case(L.gen_spec(rng, cls))
    # ConnectResponse: every status code x CRD variant
    from xknx.knxip.error_code import ErrorCode
    for st in ErrorCode:
        for crd in ({"type": 4, "ia": 0}, {"type": 4, "ia": 0xFFFF}, {"type": 3}, {"type": 6}, {"type": 7}, {"type": 8}):
            yield spec_case({"cls": "ConnectResponse", "ch": rng.randrange(256), "status": st.value, "ep": L.g_hpai(rng), "crd": crd})


def roundtrip(b):
    """(out-string) for a body object b"""
    b0 = copy.deepcopy(b)
    wf = L.py_wf(b)

    def ser():
        f = KNXIPFrame.init_from_body(b)
        return f, f.to_knx()
    r, err = L.guarded(ser)
    if err:
        return None, f"{err.replace('err ', 'err ser:')} |wf={int(wf)}", wf
    frame, raw = r
    calc = b.calculated_length()
    p, err = L.guarded(lambda: KNXIPFrame.from_knx(raw))
    if err:
        return raw, f"{err} |wf={int(wf)} len={len(raw)} calc={calc}", wf
    # history independence (harness/lib/poison.py): the first parse result is modified, the octets are parsed again
    first = L.render(p[0].body)
    poison(p[0])
    p, err = L.guarded(lambda: KNXIPFrame.from_knx(raw))
    if err or L.render(p[0].body) != first:
        return raw, f"err other:SharedMutableState |wf={int(wf)} len={len(raw)} calc={calc}", wf
    parsed, rest = p
    reser, err2 = L.guarded(lambda: KNXIPFrame.init_from_body(parsed.body).to_knx())
    eq = L.struct_eq(parsed.body, b) and L.struct_eq(parsed.body, b0)
    head = (f"ok {L.render(parsed.body)} rest={len(rest)} calc={parsed.body.calculated_length()} "
            f"wf={int(L.py_wf(parsed.body))} ser={reser.hex() if reser is not None else err2.replace('err ', 'err:')}")
    tail = (f"wf={int(wf)} len={len(raw)} calc={calc} hdr={frame.header.total_length} field={raw[4] * 256 + raw[5]} "
            f"eq={int(eq)} same_render={int(L.render(parsed.body) == L.render(b0))} hdr_eq={int(parsed.header == frame.header)}")
    return raw, head + " |" + tail, wf


def run_impl(case):
    t = case["op"].split(" ", 2)
    if case["kind"] == "frame":
        d = bytes.fromhex(t[2])
        p, err = L.guarded(lambda: KNXIPFrame.from_knx(d))
        STATS["frames"] += 1
        if err:
            return {"out": "unparsed " + err, "line": "c20 parse " + t[2], "expect": err}
        body = p[0].body
        raw, out, wf = roundtrip(body)
        STATS["frames_wf"] += int(wf)
        if raw is None:
            return {"out": "frame " + out, "line": None}
        return {"out": "frame " + out, "line": "c21 rt " + raw.hex(), "expect": out.split(" |")[0]}
    b, err = L.guarded(lambda: L.build(case["spec"]))
    if err:
        return {"out": "unbuildable " + err, "line": None}
    raw, out, wf = roundtrip(b)
    if case["kind"] == "neg":
        STATS["neg"] += 1
        STATS["neg_not_roundtrip"] += int(not (out.startswith("ok") and " eq=1" in out))
    if raw is None:
        return {"out": case["kind"] + " " + out, "line": None}
    return {"out": case["kind"] + " " + out, "line": "c21 rt " + raw.hex(), "expect": out.split(" |")[0]}


def oracle(case, out):
    kind, rest = out.split(" ", 1)
    if kind in ("unparsed", "unbuildable"):
        return None if kind == "unparsed" or case["kind"] == "neg" else "generator built no object: " + rest
    if " |" not in rest:
        return None
    head, tail = rest.split(" |")
    kv = dict(x.split("=") for x in tail.split(" "))
    if kv["wf"] != "1":
        if case["kind"] == "spec":
            return "harness: generator produced a body outside py_wf: " + case["op"][:200]
        return None     # outside "field values the specification allows on the wire"
    # --- the property, for a well-formed body ---
    if head.startswith("err ser:"):
        return f"a well-formed body cannot be serialised: {head}"
    if head.startswith("err other:SharedMutableState"):
        return ("parsing the serialised octets again after the first result was modified gives a different body "
                "(parsed frames share mutable state)")
    if head.startswith("err"):
        return f"the frame serialised from a well-formed body does not parse back: {head}"
    if not (int(kv["len"]) == int(kv["calc"]) + 6 == int(kv["hdr"]) == int(kv["field"])):
        return (f"serialised length {kv['len']}, calculated_length()+6 = {int(kv['calc']) + 6}, header total_length "
                f"{kv['hdr']}, length field on the wire {kv['field']}")
    if " rest=0 " not in head:
        return "parsing the serialised frame leaves bytes over"
    if kv["eq"] != "1" or kv["same_render"] != "1":
        return "the parsed body is not (structurally) equal to the serialised one: " + head[:200]
    if kv["hdr_eq"] != "1":
        return "the parsed header differs from the one init_from_body() produced"
    return None


def nontrivial(case, out):
    return out.startswith(("spec ok", "frame ok"))


def outcome_class(out):
    p = out.split(" ")
    if p[1] == "ok":
        return f"{p[0]} ok {p[2].split(':')[0]}"
    return " ".join(p[:3])[:40]


def finding_key(case, msg):
    return case["op"][:300]


def evidence_extra():
    return {"negative_witnesses_run": STATS["neg"], "negative_witnesses_not_roundtripping": STATS["neg_not_roundtrip"],
            "test_suite_frame_literals": STATS["frames"], "of_which_wellformed_bodies": STATS["frames_wf"]}
