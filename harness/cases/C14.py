"""C14 Received link frames reach exactly the right consumer, once; send completes only after a confirmation.

Two parts:
* `c14 route <code> <dst> <tpdu0> <pay>` (mode F): one raw cEMI frame through the real `CEMIHandler.handle_raw_cemi`
  of a fresh XKNX; outcome = what reached the telegram queue / Management.process / the key-issue hook / the
  confirmation event and the counters; must equal the model's decision table.
* `c14 sched <mode0> <mode1> <b:action,...>` (mode R): senders (`CEMIHandler.send_telegram`) and received frames
  scheduled at loop-iteration boundaries of the virtual-time loop, interface stubbed; the trace is replayed by the
  Lean monitor `XknxVerif.CEMIHandler.step?`.
"""
from __future__ import annotations

import asyncio
import itertools
import logging

PROPERTY = "C14"
RULE = ("route: the three L_Data codes x {group, broadcast, own individual, foreign individual, individual 0.0.0 (interface elsewhere), group address with the raw value of the own address, individual 0.0.0 and foreign individual with the interface at its default 0.0.0} x all 256 first TPDU octets x "
        "{plain APDU, Data Secure APDU, no APDU} and all 256 message codes x a TPCI dictionary (the outcome of the other 253 codes does not "
        "depend on the TPDU) - exhaustive in thorough; all codes x 4 frames + L_Data codes x dictionary + random in quick; "
        "sched: 1-3+ concurrent senders x interface behaviours {immediate, delayed 0.1 s, slow 2.5 s, error, local confirmation} with "
        "confirmations / other frames (incl. T_Data_Connected to this interface, which makes Management send a T_ACK concurrently) injected at "
        "every loop-iteration boundary: every single action (12 kinds) exhaustively, every pair over the core alphabet {con, sender, tdc"
        "[, tcon, grp, conp]} at the first 14 (quick) / 40 (thorough) boundaries, 3-6 actions sampled. non-trivial = distinct op lines")
TRUSTED = [
    "model XknxVerif.Model.CEMIHandler hand-written (route reuses the TPCI model of C03); message codes and REQUEST_TO_CONFIRMATION_TIMEOUT regenerated",
    "the KNX/IP interface is replaced by a stub whose send_cemi() is the hand-over point; Management/TelegramQueue/DataSecure hooks observed by subclass / callback",
    "asyncio.Event / asyncio.timeout semantics of CPython 3.12 on harness/vloop.py",
]
ASSUMPTIONS = [
    "'handed to the interface' = the call of knxip_interface.send_cemi (the confirmation event is cleared in the same synchronous segment)",
    "Data Secure: only the no-keyring configuration is routed here (a secure APDU is a key issue); decryption paths belong to C15-C18",
]
CASE_TIMEOUT = 10.0
EXHAUSTIVE_THOROUGH = True

for _n in ("xknx.log", "xknx.knx", "xknx.cemi", "xknx.data_secure", "xknx.telegram", "xknx.management", "xknx.raw_socket"):
    logging.getLogger(_n).disabled = True

OWN = 0x11FA      # 1.1.250
FOREIGN = 0x1105
SRC = 0x1101
GROUP = 0x0901
# destination kind -> (address-type bit, raw destination, the interface's own individual address)
#   g group, b broadcast, o own individual, f foreign individual (interface at 1.1.250)
#   z individual 0.0.0 (not a broadcast: the address-type bit is clear), G a group address whose raw value equals the own address
#   Z individual 0.0.0 and Y foreign individual while the interface still has the default address 0.0.0
DST = {"g": (True, GROUP, OWN), "b": (True, 0, OWN), "o": (False, OWN, OWN), "f": (False, FOREIGN, OWN),
       "z": (False, 0, OWN), "G": (True, OWN, OWN), "Z": (False, 0, 0), "Y": (False, FOREIGN, 0)}
DSTS = "gbofzGZY"
IS_OWN = {k: (not v[0]) and v[1] == v[2] for k, v in DST.items()}

_SECURE_APDU = None


def secure_apdu():
    global _SECURE_APDU
    if _SECURE_APDU is None:
        from xknx.telegram.apci import SecureAPDU
        from xknx.telegram import apci as _a

        scf = _a.SecurityControlField.from_knx(0x10)
        sd = _a.SecureData(sequence_number_bytes=bytes(6), secured_apdu=bytes(2), message_authentication_code=bytes(4))
        _SECURE_APDU = bytes(SecureAPDU(scf=scf, secured_data=sd).to_knx())
    return _SECURE_APDU


MPROP = {0xFC: [], 0xFB: [0x12, 0x03], 0xF6: [0x12, 0x03], 0xF5: [], 0xF7: [0x12, 0x03]}


def build_raw(code, dst, tpdu0, pay):
    if code in MPROP:
        # a well-formed M_Prop* frame (object type 0x000B, instance 1, property 52, 1 element from index 1)
        return bytes([code, 0x00, 0x0B, 0x01, 52, 0x10, 0x01, *MPROP[code]])
    grp, addr, _own = DST[dst]
    if pay == "n":
        tpdu = bytes([tpdu0])
    elif pay == "p":
        tpdu = bytes([tpdu0, 0x81])           # GroupValueWrite(1) in the low bits
    else:
        tpdu = bytes([tpdu0]) + secure_apdu()[1:]
    ctrl = bytes([0xBC, 0xE0 if grp else 0x60])
    return bytes([code, 0x00]) + ctrl + SRC.to_bytes(2, "big") + addr.to_bytes(2, "big") + bytes([len(tpdu) - 1]) + tpdu


def tpdu0_for(tpci, pay):
    """first TPDU octet: transport bits + the APCI high bits of the payload."""
    if pay == "p":
        return (tpci & 0xFC) | 0x00
    if pay == "s":
        return (tpci & 0xFC) | (secure_apdu()[0] & 0x03)
    return tpci


class _Probe:
    def __init__(self, own=OWN):
        from xknx import XKNX
        from xknx.management.management import Management
        from xknx.telegram import IndividualAddress

        probe = self
        self.mgmt = 0
        self.key = 0

        class M(Management):
            def process(self, telegram):
                probe.mgmt += 1
                if probe.log is not None:
                    probe.log("out:m")
                if probe.real_mgmt:
                    super().process(telegram)

        self.log = None
        self.real_mgmt = False
        self.xknx = XKNX()
        if own:
            self.xknx.current_address = IndividualAddress(own)   # own == 0: the constructor default is kept
        self.xknx.management = M(self.xknx)
        self.xknx.telegram_queue.register_data_secure_group_key_issue_cb(self._key)

    def _key(self, _t):
        self.key += 1
        if self.log is not None:
            self.log("out:k")


_loop = None


def setup():
    global _loop
    _loop = asyncio.new_event_loop()
    asyncio.set_event_loop(_loop)


def teardown():
    asyncio.set_event_loop(None)
    if _loop is not None:
        _loop.close()


def run_route(op):
    t = op.split()
    code, dst, tpdu0, pay = int(t[2]), t[3], int(t[4]), t[5]
    raw = build_raw(code, dst, tpdu0, pay)
    if asyncio._get_running_loop() is None:  # noqa: SLF001
        try:
            asyncio.get_event_loop()
        except RuntimeError:
            setup()
    p = _Probe(DST[dst][2])
    x = p.xknx
    ev = x.cemi_handler._l_data_confirmation_event  # noqa: SLF001
    try:
        x.cemi_handler.handle_raw_cemi(raw)
    except Exception as e:  # noqa: BLE001
        return f"exc:{type(e).__name__}"
    cm = x.connection_manager
    return (f"q{x.telegrams.qsize()} m{p.mgmt} k{p.key} e{int(ev.is_set())} i{cm.cemi_count_incoming} "
            f"x{cm.cemi_count_incoming_error} u{cm.undecoded_data_secure}")


def route_oracle(op, out):
    """The property's routing sentences restated on the outcome, from the frame as built (independent classification)."""
    t = op.split()
    code, dst, tpdu0, pay = int(t[2]), t[3], int(t[4]), t[5]
    if out.startswith("exc"):
        return f"handle_raw_cemi raised {out}"
    f = {k[0]: int(k[1:]) for k in out.split()}
    from xknx.cemi.const import CEMIMessageCode as C
    if f["q"] > 1 or f["m"] > 1 or f["k"] > 1:
        return f"frame delivered more than once: {out}"
    if code in (C.L_DATA_CON.value, C.L_DATA_REQ.value) and (f["q"] or f["m"] or f["k"]):
        return f"confirmation/request frame (code {code:#x}) became a telegram: {out}"
    if code != C.L_DATA_IND.value:
        if f["q"] or f["m"] or f["k"]:
            return f"frame with message code {code:#x} was delivered upward: {out}"
        return None
    grp = DST[dst][0]
    own = IS_OWN[dst]
    octet = tpdu0
    is_group_data = grp and dst in "gG" and (octet & 0xFC) == 0x00 and pay == "p"
    if is_group_data and (f["q"] != 1 or f["m"]):
        return f"group-addressed data frame not delivered to the telegram queue exactly once: {out}"
    if f["q"] and not is_group_data:
        return f"a frame that is not plain group data reached the telegram queue: {out}"
    if f["m"] and not grp and not own:
        return f"point-to-point frame for a foreign address reached management: {out}"
    if dst == "b" and pay == "p" and (octet & 0xFC) == 0x00 and f["m"] != 1:
        return f"broadcast frame not delivered to management: {out}"
    if own and f["m"] != 1:
        # every parseable, plain point-to-point frame for this interface goes to management
        ctrl, numbered = octet & 0x80, octet & 0x40
        seq, flags = (octet >> 2) & 0xF, octet & 3
        ok_ctrl = pay == "n" and ctrl and ((not numbered and seq == 0 and flags in (0, 1)) or (numbered and flags in (2, 3)))
        ok_data = pay == "p" and not ctrl and (numbered or seq == 0)
        if ok_ctrl or ok_data:
            return f"point-to-point frame for this interface not delivered to management: {out}"
    return None


# ------------------------------------------------------------------------------------------------
# mode R: senders and received frames on the virtual loop
# ------------------------------------------------------------------------------------------------

FRAMES = {  # name -> (code, dst, tpci, pay)
    "con": (0x2E, "g", 0x00, "p"),
    "conp": (0x2E, "o", 0x80, "n"),       # confirmation of a T_Connect
    "req": (0x11, "g", 0x00, "p"),
    "grp": (0x29, "g", 0x00, "p"),
    "bc": (0x29, "b", 0x00, "p"),
    "own": (0x29, "o", 0x00, "p"),
    "frn": (0x29, "f", 0x00, "p"),
    "tdc": (0x29, "o", 0x44, "p"),        # T_Data_Connected seq 1 to this interface -> Management sends T_ACK
    "tcon": (0x29, "o", 0x80, "n"),       # T_Connect to this interface -> Management answers T_Disconnect
    "sec": (0x29, "g", 0x00, "s"),
    "bad": (0x2B, "g", 0x00, "p"),        # L_BUSMON_IND: unsupported
}
MODES = ("now", "dly", "err", "loc", "slow")   # interface behaviour per send_cemi call (cycled)


def run_sched(op):
    from harness import vloop
    from xknx.cemi.cemi_handler import CEMIHandler
    from xknx.exceptions import CommunicationError, ConfirmationError
    from xknx.telegram import GroupAddress, Telegram
    from xknx.telegram.apci import GroupValueWrite
    from xknx.dpt import DPTBinary

    t = op.split()
    modes = t[2].split(".")
    sched = {}
    if t[3] != "-":
        for item in t[3].split(","):
            b, a = item.split(":")
            sched.setdefault(int(b), []).append(a)
    trace = []
    state = {"n": 0, "b": 0, "active": True, "calls": 0, "tasks": []}

    async def main(loop):
        loop.max_iterations = 20000
        loop.set_exception_handler(lambda _l, _c: None)
        t0 = loop.time()
        p = _Probe()
        p.real_mgmt = True
        x = p.xknx

        def now():
            return vloop.q(loop.time() - t0)

        p.log = trace.append

        class H(CEMIHandler):
            __slots__ = ()

            async def send_telegram(self, telegram):
                n = state["n"]
                state["n"] += 1
                state["cur"] = n
                try:
                    await super().send_telegram(telegram)
                    trace.append(f"res:{n}:ok:{now()}")
                except ConfirmationError:
                    trace.append(f"res:{n}:conf:{now()}")
                    raise
                except CommunicationError:
                    trace.append(f"res:{n}:comm:{now()}")
                    raise

        h = H(x)
        x.cemi_handler = h

        class Iface:
            async def send_cemi(self, cemi):
                n = state["cur"]
                mode = modes[state["calls"] % len(modes)]
                state["calls"] += 1
                trace.append(f"hand:{n}")
                if mode == "dly":
                    await asyncio.sleep(0.1)
                elif mode == "slow":
                    await asyncio.sleep(2.5)
                elif mode == "err":
                    await asyncio.sleep(0)
                    trace.append(f"sent:{n}:err:{now()}")
                    raise CommunicationError("scripted")
                elif mode == "loc":
                    # routing: local confirmation from within send_cemi
                    await asyncio.sleep(0)
                    inject("con")
                trace.append(f"sent:{n}:ok:{now()}")

            async def stop(self):
                return None

        x.knxip_interface = Iface()
        qseen = [0]

        def inject(name):
            code, dst, tpci, pay = FRAMES[name]
            tp0 = tpdu0_for(tpci, pay)
            trace.append(f"rx:{code}:{dst}:{tp0}:{pay}:{now()}")
            h.handle_raw_cemi(build_raw(code, dst, tp0, pay))
            while x.telegrams.qsize() > qseen[0]:
                qseen[0] += 1
                trace.append("out:q")

        async def sender():
            tg = Telegram(destination_address=GroupAddress("1/2/3"), payload=GroupValueWrite(DPTBinary(1)))
            try:
                await h.send_telegram(tg)
            except CommunicationError:
                pass

        def act(a):
            if a == "S":
                state["tasks"].append(loop.create_task(sender()))
            else:
                inject(a)

        def on_boundary(lp):
            if not state["active"]:
                return
            b = state["b"]
            state["b"] += 1
            for a in sched.get(b, ()):
                lp.call_soon(act, a)

        loop.on_boundary = on_boundary
        for tick in (0.05, 1.0, 2.55, 2.999999, 3.05, 3.5, 4.2):   # extra iteration boundaries inside the waiting periods
            loop.call_later(tick, lambda: None)
        state["tasks"].append(loop.create_task(sender()))
        await asyncio.sleep(5.0)
        state["active"] = False     # no new senders / frames after 5 s; everything started has to finish
        await asyncio.sleep(9.0)
        await loop.settle()
        x.task_registry.stop()
        pending = [tt for tt in asyncio.all_tasks(loop) if tt is not asyncio.current_task() and not tt.done()]
        trace.append(f"end:{len(pending)}")
        return None

    try:
        vloop.run(main)
    except Exception as e:  # noqa: BLE001
        return f"EXC {type(e).__name__} {str(e)[:100]}", state["b"]
    return " ".join(trace), state["b"]


def sched_oracle(op, out):
    """send ok => a confirmation arrived after the hand-over; no confirmation => ConfirmationError exactly at the
    timeout; every received frame reached the right consumer once."""
    from xknx.cemi.cemi_handler import REQUEST_TO_CONFIRMATION_TIMEOUT as T

    toks = [x.split(":") for x in out.split()]
    con_since, sent_at = {}, {}
    woken = {}      # sender -> time of the first confirmation that arrived while it was already waiting (hand-over finished)
    i = 0
    while i < len(toks):
        p = toks[i]
        if p[0] == "hand":
            con_since[p[1]] = False
        elif p[0] == "sent" and p[2] == "ok":
            sent_at[p[1]] = int(p[3])
        elif p[0] == "rx":
            code, dst, tp0, pay = int(p[1]), p[2], int(p[3]), p[4]
            outs = []
            j = i + 1
            while j < len(toks) and toks[j][0] == "out":
                outs.append(toks[j][1])
                j += 1
            if code == 0x2E:
                for k in con_since:
                    con_since[k] = True
                for k in sent_at:
                    woken.setdefault(k, int(p[5]))
            msg = route_oracle(f"c14 route {code} {dst} {tp0} {pay}",
                               f"q{outs.count('q')} m{outs.count('m')} k{outs.count('k')} e0 i0 x0 u0")
            if msg:
                return msg
        elif p[0] == "res":
            n, r, at = p[1], p[2], int(p[3])
            if r == "ok":
                if not con_since.get(n, False):
                    return f"send {n} completed without a confirmation after its hand-over"
                if n in sent_at and at > sent_at[n] + T * 1_000_000:
                    return f"send {n} completed after the confirmation timeout"
            elif r == "conf":
                if n not in sent_at or at != sent_at[n] + T * 1_000_000:
                    return f"send {n}: ConfirmationError at {at}, hand-over finished at {sent_at.get(n)}, timeout {T}s"
                if n in woken and woken[n] < at:
                    # "... and OTHERWISE fails": a waiting send that was given its confirmation must not fail (a confirmation in the
                    # very instant of the timeout may lose against the timer)
                    return (f"send {n} failed with a confirmation error at {at} although a confirmation frame arrived at {woken[n]}, "
                            f"while it was waiting (hand-over finished at {sent_at[n]})")
        elif p[0] == "end" and p[1] != "0":
            return f"{p[1]} task(s) still pending at the end"
        i += 1
    # every sender that finished its hand-over got a result
    results = {p[1] for p in toks if p[0] == "res"}
    for n in sent_at:
        if n not in results:
            return f"send {n} never completed"
    return None


# ------------------------------------------------------------------------------------------------

def run_impl(case):
    op = case["op"]
    kind = op.split()[1]
    if kind == "route":
        out = run_route(op)
        return {"out": out, "line": op, "expect": out}
    trace, nb = run_sched(op)
    if trace.startswith("EXC"):
        return {"out": "harness-exc " + trace}
    return {"out": trace, "line": f"c14 monitor {trace}", "expect": "accept", "nb": nb}


def oracle(case, out):
    op = case["op"]
    if op.split()[1] == "route":
        return route_oracle(op, out)
    return sched_oracle(op, out)


def outcome_class(out):
    if out.startswith("q"):
        return out[:8]
    return "sched"


TPCI_DICT = [0x00, 0x04, 0x08, 0x3C, 0x40, 0x44, 0x7C, 0x80, 0x81, 0x82, 0x83, 0x84, 0xBC, 0xC0, 0xC2, 0xC3, 0xC6, 0xFE, 0xFF]


def sched_op(modes, sched):
    return f"c14 sched {'.'.join(modes)} " + (",".join(f"{b}:{a}" for b, a in sched) if sched else "-")


def generate(rng, tier):
    from xknx.cemi.const import CEMIMessageCode
    codes_known = sorted({m.value for m in CEMIMessageCode})
    if tier == "thorough":
        for code in (0x29, 0x11, 0x2E):
            for dst in DSTS:
                for tp in range(256):
                    for pay in "psn":
                        if tpdu0_for(tp, pay) == tp:
                            yield {"op": f"c14 route {code} {dst} {tp} {pay}"}
        for code in range(256):
            for dst in DSTS:
                for tp in TPCI_DICT:
                    for pay in "psn":
                        yield {"op": f"c14 route {code} {dst} {tpdu0_for(tp, pay)} {pay}"}
    else:
        for code in range(256):
            for dst, tp, pay in (("g", 0, "p"), ("o", 0x80, "n"), ("o", 0x44, "p"), ("g", 3, "s"), ("z", 0x80, "n"), ("Z", 0x44, "p")):
                yield {"op": f"c14 route {code} {dst} {tp} {pay}"}
        for code in (0x29, 0x11, 0x2E):
            for dst in DSTS:
                for tp in TPCI_DICT:
                    for pay in "psn":
                        yield {"op": f"c14 route {code} {dst} {tpdu0_for(tp, pay)} {pay}"}
        for _ in range(1500):
            code = rng.choice(codes_known) if rng.random() < 0.8 else rng.randrange(256)
            pay = rng.choice("ppsn")
            yield {"op": f"c14 route {code} {rng.choice(DSTS)} {tpdu0_for(rng.randrange(256), pay)} {pay}"}
    # schedules
    acts = ["con", "S", "grp", "tdc", "own", "req", "conp", "bc", "frn", "tcon", "sec", "bad"]
    mode_sets = [("now",), ("dly",), ("err",), ("loc",), ("slow",), ("dly", "now"), ("slow", "dly"), ("err", "now"), ("now", "err", "dly")]
    for modes in mode_sets:
        nb = run_sched(sched_op(modes, []))[1]
        yield {"op": sched_op(modes, [])}
        for b in range(nb + 1):
            for a in acts:
                yield {"op": sched_op(modes, [(b, a)])}
        # depth 2 exhaustive over the core alphabet
        core = ["con", "S", "tdc"] if tier == "quick" else ["con", "S", "tdc", "tcon", "grp", "conp"]
        lim = min(nb + 1, 14 if tier == "quick" else 40)
        for b1 in range(lim):
            for b2 in range(b1, lim):
                for a1 in core:
                    for a2 in core:
                        yield {"op": sched_op(modes, [(b1, a1), (b2, a2)])}
    for _ in range(1500 if tier == "quick" else 40000):
        modes = tuple(rng.choice(MODES) for _ in range(rng.randint(1, 3)))
        d = rng.randint(3, 6)
        sched = sorted((rng.randrange(24), rng.choice(acts[:6] if rng.random() < 0.7 else acts)) for _ in range(d))
        yield {"op": sched_op(modes, sched)}
