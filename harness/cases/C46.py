"""C46 Automatic connection never downgrades a secured gateway (finite decision logic; mostly exhaustive)."""
import asyncio
import itertools
from types import SimpleNamespace

from xknx import XKNX
from xknx.exceptions import CommunicationError, InvalidSecureConfiguration
from xknx.io import knxip_interface as kif
from xknx.io.connection import ConnectionConfig
from xknx.io.gateway_scanner import GatewayDescriptor, GatewayScanFilter
from xknx.knxip import DIBServiceFamily
from xknx.knxip.dib import DIBDeviceInformation, DIBSecuredServiceFamilies, DIBSuppSVCFamilies
from xknx.secure.keyring import InterfaceType
from xknx.telegram import IndividualAddress

PROPERTY = "C46"
EXHAUSTIVE_THOROUGH = False
RULE = ("choose: all 72 capability-flag combinations (exhaustive); match: 72 flags x 3^5 filter flag values (None/False/True) x "
        "{no name, matching name, other name} (exhaustive, 52,488); parse: supported/secured service-family DIBs over family "
        "presence/version combinations and DIB orders; auto: every single-gateway scan x 3 outcomes x host filters (exhaustive) plus "
        "random scans of 2-4 gateways with the real _start_automatic loop and stubbed _start_* methods. "
        "non-trivial = distinct op lines (all are)")
TRUSTED = ["model XknxVerif.Model.AutoConnect hand-written; family codes regenerated from DIBServiceFamily each run",
           "the GatewayScanner network I/O is replaced by a stub yielding the scripted descriptors; _start_* are stubs recording the call"]

B = "01"
O3 = "NFT"
O3V = {"N": None, "F": False, "T": True}
FLAGS = ["".join(p) for p in itertools.product(B, B, B, O3, O3)]
IAS = [0x1101, 0x1102]


def mk_gw(flags, ia=0x1101, name="gw"):
    g = GatewayDescriptor(ip_addr="10.1.1.1", port=3671, name=name, individual_address=IndividualAddress(ia))
    g.supports_tunnelling = flags[0] == "1"
    g.supports_tunnelling_tcp = flags[1] == "1"
    g.supports_routing = flags[2] == "1"
    g.tunnelling_requires_secure = O3V[flags[3]]
    g.routing_requires_secure = O3V[flags[4]]
    return g


def gw_flags(g):
    def o(v):
        return "N" if v is None else ("T" if v else "F")
    return (f"{int(bool(g.supports_tunnelling))}{int(bool(g.supports_tunnelling_tcp))}{int(bool(g.supports_routing))}"
            f"{o(g.tunnelling_requires_secure)}{o(g.routing_requires_secure)}")


def generate(rng, tier):
    for f in FLAGS:
        yield {"op": f"c46 choose {f}"}
    # match: exhaustive
    for f in FLAGS:
        for filt in itertools.product("NFT", repeat=5):
            for name in ("none", "same", "other"):
                yield {"op": f"c46 match {''.join('1' if c == 'T' else '0' for c in filt)} {0 if name == 'other' else 1} {f}",
                       "filter": "".join(filt), "name": name}
    # parse
    fam = DIBServiceFamily
    core_o = [None, 1, 2]
    tun_o = [None, 0, 1, 2, 3]
    rout_o = [None, 1]
    sec_o = [None, 0, 1]
    secured_o = [None, [], [fam.TUNNELING], [fam.ROUTING], [fam.TUNNELING, fam.ROUTING], [fam.ROUTING, fam.TUNNELING, fam.CORE]]
    for c, t, r, s, x in itertools.product(core_o, tun_o, rout_o, sec_o, secured_o):
        supp = [(f.value, v) for f, v in ((fam.CORE, c), (fam.DEVICE_MANAGEMENT, 1), (fam.TUNNELING, t), (fam.ROUTING, r), (fam.SECURITY, s)) if v is not None]
        dibs = ["O", "S:" + ",".join(f"{a}.{b}" for a, b in supp)]
        if x is not None:
            dibs.append("X:" + ",".join(f"{f.value}.1" for f in x))
        yield {"op": "c46 parse " + ";".join(dibs)}
    for _ in range(600 if tier == "quick" else 6000):
        n = rng.randint(0, 4)
        dibs = []
        for _ in range(n):
            k = rng.choice("SSXXO")
            if k == "O":
                dibs.append("O")
            else:
                fams = [(rng.choice(list(fam)).value, rng.choice([0, 1, 2, 3])) for _ in range(rng.randint(0, 4))]
                dibs.append(f"{k}:" + ",".join(f"{a}.{b}" for a, b in fams))
        yield {"op": "c46 parse " + (";".join(dibs) if dibs else "-")}
    # scan: the real GatewayScanner response callback fed with plain and extended answers of the same device(s), in both orders,
    # over the core version (absent, 1, 2, 3, 4) and secured-families combinations
    tcp = f"{fam.TUNNELING.value}.2"
    for core in (None, 1, 2, 3, 4, 255):
        for sec in (None, [fam.TUNNELING], [fam.ROUTING], [fam.TUNNELING, fam.ROUTING]):
            for filt in ("11100", "00011", "11111", "01000"):
                supp = ([f"{fam.CORE.value}.{core}"] if core is not None else []) + [f"{fam.DEVICE_MANAGEMENT.value}.1", tcp, f"{fam.ROUTING.value}.1"]
                plain = "P@1=O;S:" + ",".join(supp)
                ext = "E@1=O;S:" + ",".join(supp) + (";X:" + ",".join(f"{f.value}.1" for f in sec) if sec is not None else "")
                for order in ([plain, ext], [ext, plain], [plain], [ext], [plain, ext, plain], [plain.replace("@1", "@2"), ext]):
                    yield {"op": f"c46 scan {filt} " + "|".join(order)}
    for _ in range(300 if tier == "quick" else 6000):
        rs = []
        for _ in range(rng.randint(1, 4)):
            k, ep = rng.choice("PE"), rng.choice([1, 1, 2])
            dibs = ["O"] if rng.random() < 0.7 else []
            if rng.random() < 0.9:
                fams = [(rng.choice([fam.CORE, fam.CORE, fam.TUNNELING, fam.ROUTING, fam.SECURITY, fam.DEVICE_MANAGEMENT]).value, rng.choice([0, 1, 2, 3]))
                        for _ in range(rng.randint(0, 4))]
                dibs.append("S:" + ",".join(f"{a}.{b}" for a, b in fams))
            if k == "E" and rng.random() < 0.6:
                dibs.insert(rng.randrange(len(dibs) + 1), "X:" + ",".join(f"{f.value}.1" for f in rng.sample([fam.TUNNELING, fam.ROUTING, fam.CORE], rng.randint(0, 2))))
            rs.append(f"{k}@{ep}=" + (";".join(dibs) or "-"))
        yield {"op": f"c46 scan {''.join(rng.choice('01') for _ in range(5))} " + "|".join(rs)}
    # auto: single gateway exhaustive
    hfs = ["-", "4353", "4354", "req:4353", "req:4354"]
    for f in FLAGS:
        for o in ("ok", "comm", "sec"):
            for ia in IAS:
                for hf in hfs:
                    yield auto_case(hf, [(f, ia, o)])
    for _ in range(3000 if tier == "quick" else 60000):
        n = rng.randint(2, 4)
        yield auto_case(rng.choice(hfs), [(rng.choice(FLAGS), rng.choice(IAS), rng.choice(["ok", "comm", "comm", "sec"])) for _ in range(n)])


def auto_case(hf, cands):
    model_hf = hf.replace("req:", "")
    return {"op": f"c46 auto {model_hf} " + ";".join(f"{f}:{ia}:{o}" for f, ia, o in cands), "hf": hf}


class _Iface(kif.KNXIPInterface):
    __slots__ = ("calls", "script", "current")

    async def _rec(self, method):
        idx = self.current[0]
        self.calls.append((idx, method))
        o = self.script[idx]
        if o == "comm":
            raise CommunicationError("scripted")
        if o == "sec":
            raise InvalidSecureConfiguration("scripted")

    async def _start_tunnelling_tcp(self, *a, **k):
        await self._rec("tunnelling_tcp")

    async def _start_secure_tunnelling_tcp(self, *a, **k):
        await self._rec("secure_tunnelling_tcp")

    async def _start_tunnelling_udp(self, *a, **k):
        await self._rec("tunnelling_udp")

    async def _start_routing(self, *a, **k):
        await self._rec("routing")

    async def _start_secure_routing(self, *a, **k):
        await self._rec("secure_routing")


_loop = None
_xknx = None


def setup():
    global _loop, _xknx
    _loop = asyncio.new_event_loop()
    asyncio.set_event_loop(_loop)
    _xknx = XKNX()


def teardown():
    asyncio.set_event_loop(None)
    _loop.close()


def run_auto(case):
    toks = case["op"].split()
    cands = [c.split(":") for c in toks[3].split(";")] if toks[3] != "-" else []
    gws = [mk_gw(f, int(ia)) for f, ia, _ in cands]
    hf = case["hf"]
    cfg = ConnectionConfig()
    keyring = None
    if hf != "-":
        host = IndividualAddress(int(hf.replace("req:", "")))
        if hf.startswith("req:"):
            cfg.individual_address = IndividualAddress("1.1.250")
            keyring = SimpleNamespace(get_tunnel_host_by_interface=lambda tunnelling_slot: host, interfaces=[])
        else:
            keyring = SimpleNamespace(interfaces=[
                SimpleNamespace(host=host, type=InterfaceType.TUNNELING),
                SimpleNamespace(host=None, type=InterfaceType.TUNNELING),
                SimpleNamespace(host=IndividualAddress(0x1FFF), type=InterfaceType.USB)])
    iface = _Iface(_xknx, cfg)
    iface.calls = []
    iface.script = [o for _, _, o in cands]
    iface.current = [None]

    class Scanner:
        def __init__(self, *a, **k):
            pass

        def async_scan(self):
            return self

        def __aiter__(self):
            self.i = -1
            return self

        async def __anext__(self):
            self.i += 1
            if self.i >= len(gws):
                raise StopAsyncIteration
            iface.current[0] = self.i
            return gws[self.i]

    real = kif.GatewayScanner
    kif.GatewayScanner = Scanner
    try:
        try:
            _loop.run_until_complete(iface._start_automatic(local_ip=None, keyring=keyring))
            res = str(next(i for i, g in enumerate(gws) if g is iface._gateway_info))
        except CommunicationError:
            res = "fail"
    finally:
        kif.GatewayScanner = real
    a = ",".join(f"{i}:{m}" for i, m in iface.calls)
    return f"{a or '-'} -> {res}"


def run_impl(case):
    t = case["op"].split()
    if t[1] == "choose":
        c = dict(case)
        c["op"] = f"c46 auto - {t[2]}:4353:ok"
        c["hf"] = "-"
        out = run_auto(c)
        calls = out.split(" -> ")[0]
        return calls.split(":")[1] if calls != "-" else "none"
    if t[1] == "match":
        gw = mk_gw(t[4], name="gw")
        name = {"none": None, "same": "gw", "other": "xx"}[case["name"]]
        f = GatewayScanFilter(name, *[O3V[c] for c in case["filter"]])
        return str(int(f.match(gw)))
    if t[1] == "scan":
        return run_scan(t[2], t[3])
    if t[1] == "parse":
        dibs = []
        for d in ([] if t[2] == "-" else t[2].split(";")):
            if d == "O":
                dibs.append(DIBDeviceInformation())
                continue
            dib = DIBSuppSVCFamilies() if d[0] == "S" else DIBSecuredServiceFamilies()
            for f in filter(None, d[2:].split(",")):
                a, b = f.split(".")
                dib.families.append(DIBSuppSVCFamilies.Family(DIBServiceFamily(int(a)), int(b)))
            dibs.append(dib)
        g = GatewayDescriptor(ip_addr="10.1.1.1", port=3671)
        g.parse_dibs(dibs)
        return f"{gw_flags(g)} {g.core_version} {int(bool(g.supports_secure))}"
    return run_auto(case)


def mk_dibs(spec):
    dibs = []
    for d in ([] if spec == "-" else spec.split(";")):
        if d == "O":
            dibs.append(DIBDeviceInformation())
            continue
        dib = DIBSuppSVCFamilies() if d[0] == "S" else DIBSecuredServiceFamilies()
        for f in filter(None, d[2:].split(",")):
            a, b = f.split(".")
            dib.families.append(DIBSuppSVCFamilies.Family(DIBServiceFamily(int(a)), int(b)))
        dibs.append(dib)
    return dibs


def run_scan(filt, rs):
    """The real `GatewayScanner._response_rec_callback` on SearchResponse / SearchResponseExtended frames (built with the
    library's classes and passed through to_knx/from_knx); outcome = descriptors put on the queue, then the final table."""
    from xknx.io.gateway_scanner import GatewayScanner
    from xknx.knxip import HPAI, KNXIPFrame, SearchResponse, SearchResponseExtended

    flags = [c == "1" for c in filt]
    sc = GatewayScanner(_xknx, scan_filter=GatewayScanFilter(None, *flags))
    q = asyncio.Queue()
    tr = SimpleNamespace(local_addr=("10.1.1.9", 0))
    eps = {}
    for r in ([] if rs == "-" else rs.split("|")):
        k, rest = r.split("@")
        ep, ds = rest.split("=")
        hpai = HPAI(ip_addr=f"10.1.1.{int(ep)}", port=3671)
        eps[(hpai.ip_addr, hpai.port)] = ep
        body = (SearchResponse if k == "P" else SearchResponseExtended)(control_endpoint=hpai)
        body.dibs = mk_dibs(ds)
        frame = KNXIPFrame.init_from_body(body)
        sc._response_rec_callback(frame, hpai, tr, interface="eth", queue=q)  # noqa: SLF001
    ys = []
    while not q.empty():
        g = q.get_nowait()
        ys.append(f"{eps[(g.ip_addr, g.port)]}:{gw_flags(g)}")
    fin = [f"{eps[(h.ip_addr, h.port)]}:{gw_flags(g)}" for h, g in sc.found_gateways.items()]
    return f"{','.join(ys) or '-'} => {','.join(fin) or '-'}"


PLAIN_TUNNEL = {"tunnelling_tcp", "tunnelling_udp"}


def oracle(case, out):
    t = case["op"].split()
    if t[1] == "choose":
        f = t[2]
        if out in PLAIN_TUNNEL and f[3] == "T":
            return f"plain {out} chosen for gateway {f} announcing tunnelling as secured"
        if out == "routing" and f[4] == "T":
            return f"plain routing chosen for gateway {f} announcing routing as secured"
        return None
    if t[1] == "auto":
        cands = [c.split(":") for c in t[3].split(";")]
        calls = out.split(" -> ")[0]
        for c in ([] if calls == "-" else calls.split(",")):
            i, m = c.split(":")
            f = cands[int(i)][0]
            if m in PLAIN_TUNNEL and f[3] == "T":
                return f"plain {m} opened to gateway #{i} {f} announcing tunnelling as secured"
            if m in ("routing",) and f[4] == "T":
                return f"plain routing opened to gateway #{i} {f} announcing routing as secured"
            if m == "secure_tunnelling_tcp" and f[3] != "T":
                pass  # upgrade, not a downgrade: allowed by the property
        return None
    if t[1] == "scan":
        # what each endpoint announced in a secured-families DIB of an extended answer (the only place it can say so)
        announced, inconsistent = {}, set()
        for r in ([] if t[3] == "-" else t[3].split("|")):
            k, rest = r.split("@")
            ep, ds = rest.split("=")
            if k != "E":
                continue
            a = set()
            for d in ([] if ds == "-" else ds.split(";")):
                if d.startswith("X:"):
                    fams = {int(x.split(".")[0]) for x in filter(None, d[2:].split(","))}
                    a = ({"T"} if DIBServiceFamily.TUNNELING.value in fams else set()) | ({"R"} if DIBServiceFamily.ROUTING.value in fams else set())
            if ep in announced and announced[ep] != a:
                inconsistent.add(ep)     # a device contradicting itself between answers: the latest answer counts, model only
            announced[ep] = a
        for ep in inconsistent:
            announced.pop(ep, None)
        core2, supp_seen = set(), {}
        for r in ([] if t[3] == "-" else t[3].split("|")):
            k, rest = r.split("@")
            ep, ds = rest.split("=")
            first = next((d for d in ([] if ds == "-" else ds.split(";")) if d.startswith("S:")), None)
            supp_seen.setdefault(ep, set()).add(first)
            if first is not None and any(int(x.split(".")[0]) == DIBServiceFamily.CORE.value and int(x.split(".")[1]) >= 2
                                         for x in filter(None, first[2:].split(","))):
                core2.add(ep)
        # the clause is about a device that describes itself the same way in every answer; one that contradicts itself between
        # its plain and its extended answer is compared with the model only
        core2 = {ep for ep in core2 if len(supp_seen[ep]) == 1}
        for part in out.split(" => "):
            for e in ([] if part == "-" else part.split(",")):
                ep, f = e.split(":")
                # a device of core version 2 or later that announces a service as secured must never be reported (queued or
                # kept in the table) as a gateway offering that service without security
                if ep in core2 and "T" in announced.get(ep, ()) and (f[0] == "1" or f[1] == "1") and f[3] != "T":
                    return f"endpoint {ep} announces tunnelling as secured but is reported as {f} (plain tunnelling would be chosen)"
                if ep in core2 and "R" in announced.get(ep, ()) and f[2] == "1" and f[4] != "T":
                    return f"endpoint {ep} announces routing as secured but is reported as {f} (plain routing would be chosen)"
        return None
    if t[1] == "match":
        f, filt, name = t[4], case["filter"], case["name"]
        en = [c == "T" for c in filt]
        sup = [f[0] == "1", f[1] == "1", f[2] == "1", f[1] == "1", f[2] == "1"]
        agree = [f[3] != "T", f[3] != "T", f[4] != "T", f[3] == "T", f[4] == "T"]
        want = name != "other" and any(e and s and a for e, s, a in zip(en, sup, agree))
        if bool(int(out)) != want:
            return f"filter {filt}/{name} on gateway {f}: match={out}, property says {int(want)}"
        return None
    if t[1] == "parse":
        # last secured DIB decides the announcement
        last = None
        for d in ([] if t[2] == "-" else t[2].split(";")):
            if d.startswith("X:"):
                last = [int(x.split(".")[0]) for x in filter(None, d[2:].split(","))]
        flags = out.split()[0]
        want_t = "N" if last is None else ("T" if DIBServiceFamily.TUNNELING.value in last else "F")
        want_r = "N" if last is None else ("T" if DIBServiceFamily.ROUTING.value in last else "F")
        if flags[3] != want_t or flags[4] != want_r:
            return f"secured families {last} parsed as tunnelling={flags[3]} routing={flags[4]}"
    return None
