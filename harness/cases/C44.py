"""C44 Address programming never creates an address conflict (mode F: deterministic procedures over a scripted bus).

The bus is a list of devices.  For the address procedures a device is `<addr><prog><beh>`:
addr t (the target address 1.1.1) | o (another address 1.1.2); prog 1|0 (programming mode);
beh A (answers point-to-point requests) | S (silent) | R (refuses: T_Disconnect on T_Connect).
For the serial-number procedures a device is `<addr><serial><c|q><w|x>`: serial 1|2, c = "chatty" (answers every
serial read with its own serial, e.g. answers meant for another tool), q = answers only its own serial;
w = takes an address written to its serial, x = ignores the write.
Reactions of the devices are delivered one loop iteration after the telegram that causes them was sent
(`loop.call_soon`), in bus order; timeouts run on the virtual-time loop.
"""
from __future__ import annotations

import asyncio
import itertools
import logging

from harness import vloop

from xknx import XKNX
from xknx.exceptions import (
    ManagementConnectionError,
    ManagementConnectionRefused,
    ManagementConnectionTimeout,
)
from xknx.management import procedures
from xknx.management.procedures.device import FREE_ACCESS_KEY, dm_restart, dmp_authorize2_r_co
from xknx.management.procedures.network.nm_individual_address_check import nm_individual_address_check
from xknx.management.procedures.network.nm_individual_address_read import nm_individual_address_read
from xknx.management.procedures.network.nm_individual_address_serial_number_read import (
    nm_individual_address_serial_number_read,
)
from xknx.management.procedures.network.nm_individual_address_serial_number_write import (
    nm_individual_address_serial_number_write,
)
from xknx.management.procedures.network.nm_individual_address_write import nm_individual_address_write
from xknx.telegram import GroupAddress, IndividualAddress, Telegram, TelegramDirection, apci, tpci

PROPERTY = "C44"
EXHAUSTIVE = True
CASE_TIMEOUT = 10.0
RULE = ("exhaustive: every ordered bus population of 0..3 devices over {target address, other address} x programming mode x "
        "{answers, silent, refuses} (1885 populations) through nm_individual_address_write, nm_individual_address_check, "
        "nm_individual_address_read (raise_if_multiple on/off) and dm_restart, histories of 2-4 procedures on ONE XKNX object (an earlier check / restart / read / write at either address, then the address write), write and check additionally with the reactions delivered inside the causing send; every population of 0..3 devices over "
        "{2 addresses} x {2 serials} x {chatty, quiet} x {takes, ignores the write} through the serial-number read (both serials) and write (both serials x "
        "both addresses) procedures; dmp_authorize2_r_co over all 16x16 (free level, key level) pairs and all 16^3 answer triples "
        "of levels {0,1,2,3,7,15}; non-trivial = every case (all distinct)")
TRUSTED = ["model XknxVerif.Model.Procedures hand-written (bus primitives + procedures as decision functions)",
           "the simulated bus in harness/cases/C44.py: devices react to the telegrams recorded by a stub cEMI handler, "
           "reactions delivered by loop.call_soon in bus order; timeouts on harness/vloop.py",
           "the point-to-point layer below the procedures is the real xknx.management.management (C43) including its fix: commits"]
ASSUMPTIONS = ["a device's reaction is processed either one loop iteration after the causing send returned or (write/check) inside it; "
               "other interleavings of reactions with the procedure are not enumerated",
               "devices are deterministic: same request, same answer"]

T_ADDR = IndividualAddress("1.1.1")
O_ADDR = IndividualAddress("1.1.2")
ADDR = {"t": T_ADDR, "o": O_ADDR}
RADDR = {T_ADDR: "t", O_ADDR: "o"}
SERIAL = {"1": bytes.fromhex("00fa00000001"), "2": bytes.fromhex("00fa00000002")}
RSERIAL = {v: k for k, v in SERIAL.items()}
CLIENT_KEY = 0x11223344


class Dev:
    def __init__(self, spec, kind):
        self.addr = spec[0]
        if kind == "addr":
            self.prog = spec[1] == "1"
            self.beh = spec[2]
            self.serial, self.chatty = None, False
        else:
            self.prog, self.beh = False, "S"
            self.serial = spec[1]
            self.chatty = spec[2] == "c"
            self.obeys = spec[3] == "w"
        self.conn = False
        self.seq = 0
        self.levels = None
        self.answers = None

    def render(self, kind):
        if kind == "addr":
            return f"{self.addr}{int(self.prog)}{self.beh}"
        return f"{self.addr}{self.serial}{'c' if self.chatty else 'q'}{'w' if self.obeys else 'x'}"


class Bus:
    """Stub for xknx.cemi_handler + the devices behind it."""

    def __init__(self, xknx, loop, devs, sync=False):
        self.xknx, self.loop, self.devs, self.sync = xknx, loop, devs, sync
        self.sent = []
        self.raised = []

    def deliver(self, src, t, payload=None, broadcast=False):
        tg = Telegram(destination_address=GroupAddress("0/0/0") if broadcast else IndividualAddress(0),
                      source_address=ADDR[src], direction=TelegramDirection.INCOMING, tpci=t, payload=payload)

        def run():
            try:
                self.xknx.management.process(tg)
            except Exception as e:  # noqa: BLE001
                self.raised.append(type(e).__name__)
        if self.sync:
            run()       # processed while the causing send is still awaited
        else:
            self.loop.call_soon(run)

    async def send_telegram(self, tg):
        t, p = tg.tpci, tg.payload
        if isinstance(tg.destination_address, GroupAddress):
            if isinstance(p, apci.IndividualAddressRead):
                self.sent.append("B:read")
                for d in self.devs:
                    if d.prog:
                        self.deliver(d.addr, tpci.TDataBroadcast(), apci.IndividualAddressResponse(), True)
            elif isinstance(p, apci.IndividualAddressWrite):
                self.sent.append(f"B:write:{RADDR.get(p.address, '?')}")
                for d in self.devs:
                    if d.prog:
                        d.addr = RADDR[p.address]
            elif isinstance(p, apci.IndividualAddressSerialRead):
                self.sent.append(f"B:sread:{RSERIAL.get(p.serial, '?')}")
                for d in self.devs:
                    if d.serial is not None and (SERIAL[d.serial] == p.serial or d.chatty):
                        self.deliver(d.addr, tpci.TDataBroadcast(),
                                     apci.IndividualAddressSerialResponse(serial=SERIAL[d.serial], address=ADDR[d.addr]), True)
            elif isinstance(p, apci.IndividualAddressSerialWrite):
                self.sent.append(f"B:swrite:{RSERIAL.get(p.serial, '?')}:{RADDR.get(p.address, '?')}")
                for d in self.devs:
                    if d.serial is not None and SERIAL[d.serial] == p.serial and d.obeys:
                        d.addr = RADDR[p.address]
            else:
                self.sent.append(f"B:?{type(p).__name__}")
            return
        x = RADDR.get(tg.destination_address, "?")
        here = [d for d in self.devs if d.addr == x]
        if isinstance(t, tpci.TConnect):
            self.sent.append(f"C:{x}")
            for d in here:
                if d.beh == "R":
                    self.deliver(x, tpci.TDisconnect())
                elif d.beh == "A":
                    d.conn, d.seq = True, 0
        elif isinstance(t, tpci.TDisconnect):
            self.sent.append(f"X:{x}")
            for d in here:
                d.conn = False
        elif isinstance(t, tpci.TAck):
            self.sent.append(f"A:{x}:{t.sequence_number}")
        elif isinstance(t, tpci.TDataConnected):
            n = t.sequence_number
            kind = {apci.DeviceDescriptorRead: "ddr", apci.Restart: "restart", apci.AuthorizeRequest: "auth"}.get(type(p), "?")
            self.sent.append(f"D:{x}:{n}:{kind}" + (f":{'free' if p.key == FREE_ACCESS_KEY else 'key'}" if kind == "auth" else ""))
            for d in here:
                if d.beh != "A" or not d.conn:
                    continue
                self.deliver(x, tpci.TAck(n))
                if kind == "ddr":
                    self.deliver(x, tpci.TDataConnected(d.seq), apci.DeviceDescriptorResponse())
                    d.seq = (d.seq + 1) % 16
                elif kind == "restart":
                    d.prog = False
                    d.conn = False
                elif kind == "auth":
                    if d.answers is not None:
                        lvl = d.answers.pop(0)
                    else:
                        lvl = d.levels[0] if p.key == FREE_ACCESS_KEY else d.levels[1]
                    self.deliver(x, tpci.TDataConnected(d.seq), apci.AuthorizeResponse(level=lvl))
                    d.seq = (d.seq + 1) % 16
        else:
            self.sent.append(f"?:{type(t).__name__}")


def parse_pop(s, kind):
    return [] if s == "-" else [Dev(x, kind) for x in s.split(";")]


def classify(e):
    if isinstance(e, ManagementConnectionRefused):
        return "refused"
    if isinstance(e, ManagementConnectionTimeout):
        return "timeout"
    if isinstance(e, ManagementConnectionError):
        return "err"
    return "other:" + type(e).__name__


async def run_step(xknx, bus, proc, t, addr=None):
    """One procedure on the given XKNX object; returns the canonical result."""
    target = ADDR[addr] if addr else T_ADDR
    try:
        if proc == "write":
            await nm_individual_address_write(xknx, target)
            return "ok"
        if proc == "check":
            return "ok:" + str(int(await nm_individual_address_check(xknx, target)))
        if proc == "read":
            r = await nm_individual_address_read(xknx, raise_if_multiple=t[2] == "1")
            return "ok:" + "".join(RADDR[a] for a in r)
        if proc == "restart":
            await dm_restart(xknx, target)
            return "ok"
        if proc == "sread":
            r = await nm_individual_address_serial_number_read(xknx, SERIAL[t[2]])
            return "ok:" + ("none" if r is None else RADDR[r])
        if proc == "swrite":
            await nm_individual_address_serial_number_write(xknx, SERIAL[t[2]], ADDR[t[3]])
            return "ok"
        if proc in ("auth2", "auth2seq"):
            async with xknx.management.connection(T_ADDR) as conn:
                return "ok:" + str(await dmp_authorize2_r_co(conn, CLIENT_KEY))
        raise ValueError(proc)
    except Exception as e:  # noqa: BLE001
        return classify(e)


def render_step(bus, res, devs, kind):
    pop = ";".join(d.render(kind) for d in devs) or "-"
    raised = ("!" + ",".join(bus.raised)) if bus.raised else ""
    # T_ACKs are sent by background tasks: their position among the other telegrams is asyncio scheduling, not procedure logic
    acks = sorted(x for x in bus.sent if x.startswith("A:"))
    tels = [x for x in bus.sent if not x.startswith("A:")]
    return f"{','.join(tels) or '-'} +{','.join(acks) or '-'} -> {res} | {pop}{raised}"


def seq_steps(ops):
    """`check:o,read1:-,write:t` -> [(proc, pseudo-op tokens, addr)]"""
    out = []
    for tok in ops.split(","):
        name, a = tok.split(":")
        if name in ("read0", "read1"):
            out.append(("read", ["proc", "read", name[-1]], None))
        else:
            out.append((name, ["proc", name], a))
    return out


async def scenario(loop, case):
    t = case["op"].split()
    proc = t[1]
    sync = proc in ("writes", "checks", "seqs")
    proc = {"writes": "write", "checks": "check", "seqs": "seq"}.get(proc, proc)
    kind = "serial" if proc in ("sread", "swrite") else "addr"
    xknx = XKNX()
    if proc in ("auth2", "auth2seq"):
        devs = [Dev("t0A", "addr")]
        if proc == "auth2":
            devs[0].levels = (int(t[2]), int(t[3]))
        else:
            devs[0].answers = [int(t[2]), int(t[3]), int(t[4])]
    else:
        devs = parse_pop(t[-1], kind)
    bus = Bus(xknx, loop, devs, sync)
    xknx.cemi_handler = bus
    if proc == "seq":
        # several procedures one after the other on the SAME XKNX object and bus
        parts = []
        for name, toks, addr in seq_steps(t[2]):
            bus.sent, bus.raised = [], []
            res = await run_step(xknx, bus, name, toks, addr)
            await loop.settle()
            parts.append(render_step(bus, res, devs, kind))
        return " // ".join(parts)
    res = await run_step(xknx, bus, proc, t)
    await loop.settle()
    return render_step(bus, res, devs, kind)


def run_impl(case):
    logging.getLogger("xknx").setLevel(logging.CRITICAL)
    logging.getLogger("asyncio").setLevel(logging.CRITICAL)
    return vloop.run(scenario, case, patch_clock=True, epoch=0.0)


# --------------------------------------------------------------------------------------------------


def oracle(case, out):
    t = case["op"].split()
    if t[1] in ("seq", "seqs"):
        pop = t[-1]
        for n, ((name, toks, addr), part) in enumerate(zip(seq_steps(t[2]), out.split(" // "))):
            msg = oracle_one(toks + [pop], part, addr or "t")
            if msg:
                return f"step {n} ({name}:{addr}) of the history: {msg}"
            pop = part.split(" | ")[1].split("!")[0]
        return None
    return oracle_one(t, out, "t")


def oracle_one(t, out, tgt):
    proc = {"writes": "write", "checks": "check"}.get(t[1], t[1])
    tels, rest = out.split(" -> ")
    tels, acks = tels.split(" +")
    res, pop_after = rest.split(" | ")
    tels = ([] if tels == "-" else tels.split(",")) + ([] if acks == "-" else acks.split(","))
    if "!" in pop_after:
        return "receive path raised " + pop_after.split("!")[1]
    if res.startswith("other:"):
        return f"procedure failed with {res[6:]}, not a management error"
    if proc in ("write", "check", "read", "restart"):
        before = [(x[0], x[1] == "1", x[2]) for x in ([] if t[-1] == "-" else t[-1].split(";"))]
        after = [(x[0], x[1] == "1", x[2]) for x in ([] if pop_after == "-" else pop_after.split(";"))]
        prog = [d for d in before if d[1]]
        answering_at_t = [d for d in before if d[0] == tgt and d[2] != "S"]
        for tel in tels:
            f = tel.split(":")
            if f[0] in "CXDA" and f[1] != tgt:
                return f"point-to-point telegram {tel} to an address that is not the target"
        wrote = [x for x in tels if x.startswith("B:write")]
        if proc != "write" and wrote:
            return "address written by a procedure that only reads"
        if proc == "write":
            if wrote:
                if wrote != ["B:write:" + tgt]:
                    return f"wrote {wrote}"
                if len(prog) != 1:
                    return f"address written with {len(prog)} devices in programming mode"
                if answering_at_t:
                    return "address written although a device already answers at the target address"
            # no new conflict among devices that answer
            for i, j in itertools.combinations(range(len(after)), 2):
                if after[i][0] == after[j][0] and before[i][0] != before[j][0] and after[i][2] != "S" and after[j][2] != "S":
                    return f"devices {i} and {j} now share address {after[i][0]}"
            if len(prog) == 1 and prog[0][0] == tgt and prog[0][2] != "S":
                if wrote:
                    return "target already held by the device in programming mode, but the address was written"
            if res == "ok" and not any(x.endswith(":restart") for x in tels):
                return "procedure succeeded without restarting the device"
            if (len(prog) == 1 and prog[0][0] == tgt and any(d[2] == "A" for d in before if d[0] == tgt)
                    and not any(d[2] == "R" for d in before if d[0] == tgt)):
                if res != "ok" or not any(x.endswith(":restart") for x in tels):
                    return f"target already held by the answering device in programming mode: result {res}, restart not sent"
        restarted = [i for i in range(len(after)) if before[i][1] and not after[i][1]]
        for i in restarted:
            if after[i][0] != tgt:
                return f"device {i} at address {after[i][0]} was restarted"
        if proc == "read":
            want = "".join(d[0] for d in prog)
            if t[2] == "1" and len(prog) > 1:
                if res != "err":
                    return f"{len(prog)} devices in programming mode but result {res}"
            elif res != "ok:" + want:
                return f"programming-mode devices at '{want}', result {res}"
        if proc == "check":
            if res != f"ok:{int(bool(answering_at_t))}":
                return f"devices answering at the target: {len(answering_at_t)}, result {res}"
        return None
    if proc in ("sread", "swrite"):
        serial = t[2]
        before = [(x[0], x[1], x[2] == "c", x[3] == "w") for x in ([] if t[-1] == "-" else t[-1].split(";"))]
        after = [(x[0], x[1], x[2] == "c", x[3] == "w") for x in ([] if pop_after == "-" else pop_after.split(";"))]
        if proc == "sread":
            match = [d[0] for d in before if d[1] == serial]
            want = "ok:" + (match[0] if match else "none")
            if res != want:
                return f"serial {serial}: devices with that serial at {match}, result {res}"
        else:
            new = t[3]
            for i, (b, a) in enumerate(zip(before, after)):
                if b[0] != a[0] and b[1] != serial:
                    return f"device {i} with serial {b[1]} changed address"
            match = [d for d in after if d[1] == serial]
            if res == "ok" and not (match and match[0][0] == new):
                return "write reported success but the device answering for that serial is not at the new address"
            if res != "ok" and match and all(d[0] == new for d in match):
                return f"device with serial {serial} took the address but the procedure reported {res}"
        return None
    if proc == "auth2":
        want = min(int(t[2]), int(t[3]))
        if res != f"ok:{want}":
            return f"levels free={t[2]} key={t[3]}: result {res}, better level is {want}"
        return None
    if proc == "auth2seq":
        l1, l2, l3 = int(t[2]), int(t[3]), int(t[4])
        want = 0 if l1 == 0 else (l3 if l2 > l1 else l2)
        # the level in force on the device after the procedure
        if res != f"ok:{want}":
            return f"answers {l1},{l2},{l3}: result {res}, level in force {want}"
        return None
    return None


def outcome_class(out):
    res = out.split(" -> ")[1].split(" | ")[0]
    return ("write+" if "B:write" in out else "") + res.split(":")[0]


KINDS = [a + p + b for a in "to" for p in "01" for b in "ASR"]
SKINDS = [a + s + c + w for a in "to" for s in "12" for c in "cq" for w in "wx"]


def pops(kinds, nmax=3):
    yield "-"
    for n in range(1, nmax + 1):
        for p in itertools.product(kinds, repeat=n):
            yield ";".join(p)


def generate(rng, tier):
    for p in pops(KINDS):
        yield {"op": f"proc write {p}"}
    for p in pops(KINDS):
        yield {"op": f"proc check {p}"}
        yield {"op": f"proc read 0 {p}"}
        yield {"op": f"proc read 1 {p}"}
    for p in pops(KINDS, 2):
        yield {"op": f"proc restart {p}"}
    # the same with the devices' reactions processed while the causing send is still awaited
    for p in pops(KINDS):
        yield {"op": f"proc writes {p}"}
        yield {"op": f"proc checks {p}"}
    # histories: an earlier procedure (ending in each way against each device), then the address write, on ONE XKNX object
    pre = ["check:t", "check:o", "restart:t", "restart:o", "read0:-", "read1:-", "write:t"]
    for p in pops(KINDS, 2 if tier == "quick" else 3):
        if p == "-":
            continue
        for a in pre:
            yield {"op": f"proc seq {a},write:t {p}"}
            yield {"op": f"proc seqs {a},write:t {p}"}
    for p in pops(KINDS, 2):
        if p == "-":
            continue
        for a in pre:
            for b in (pre if tier != "quick" else ["check:o", "check:t"]):
                yield {"op": f"proc seq {a},{b},write:t,check:t {p}"}
    for p in pops(SKINDS, 3 if tier != "quick" else 2):
        for s in "12":
            yield {"op": f"proc sread {s} {p}"}
            for a in "to":
                yield {"op": f"proc swrite {s} {a} {p}"}
    for a in range(16):
        for b in range(16):
            yield {"op": f"proc auth2 {a} {b}"}
    lv = [0, 1, 2, 3, 7, 15]
    for a, b, c in itertools.product(lv, repeat=3):
        yield {"op": f"proc auth2seq {a} {b} {c}"}
