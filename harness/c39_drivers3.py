"""C39 drivers, part 3: devices that are plumbing over one datapoint codec (NumericValue, RawValue, ExposeSensor,
Notification, Date/Time/DateTime).  The datapoint family is found by introspection of the DPT class the device resolved
from its `value_type`; the reference uses the range/resolution that class declares."""
from __future__ import annotations

import datetime
from fractions import Fraction

from harness import c39_lib as L
from harness.c39_base import BoolRef, Driver, RawRef, fr, multi, noop, num_pool, register
from harness.c39_lib import B, F, I, N, dec

NUM_TYPES = ["percent", "angle", "percentU8", "pulse", "1byte_unsigned", "1byte_signed", "2byte_unsigned", "2byte_signed",
             "4byte_unsigned", "4byte_signed", "temperature", "2byte_float", "illuminance", "humidity", "4byte_float",
             "color_temperature", "temperature_difference_2byte", "power", "decimal_factor"]


def dpt_family(value_type):
    """(family, lo, hi) from the DPT class xknx resolves for value_type; None if not one of the modelled families"""
    import xknx.dpt as D
    from xknx.dpt import DPTBase

    c = DPTBase.parse_transcoder(value_type)
    if c is None:
        return None
    lo, hi = getattr(c, "value_min", None), getattr(c, "value_max", None)
    if issubclass(c, D.DPTScaling):
        return "scaling", lo, hi
    if issubclass(c, D.DPT2ByteFloat):
        return "dpt9", lo, hi
    if issubclass(c, D.DPT4ByteFloat):
        return "f32", lo, hi
    if getattr(c, "resolution", None) == 1 and getattr(c, "payload_length", 0) in (1, 2, 4, 8) and isinstance(lo, int) and isinstance(hi, int):
        return "int", lo, hi
    return None


def num_ref(value_type, v):
    fam = dpt_family(value_type)
    if fam is None:
        return None
    f, lo, hi = fam
    if f == "scaling":
        if v is not None and not lo <= v <= hi:
            return L.Ref(True, True, None, "outside the declared range")
        return L.scaling_ref(lo, hi, v)
    if f == "dpt9":
        return L.dpt9_ref(Fraction(lo), Fraction(hi), v)
    if f == "f32":
        return L.f32_ref(v)
    return L.int_ref(lo, hi, v)


def num_value(rng, value_type):
    fam = dpt_family(value_type)
    f, lo, hi = fam
    if f == "scaling":
        return num_pool(rng, lo, hi, (hi - lo) / 255)
    if f == "dpt9":
        c = rng.randrange(6)
        if c < 3:
            return num_pool(rng, max(lo, -50), min(hi, 150), 0.01)
        if c == 3:
            return num_pool(rng, max(lo, -1000), min(hi, 5000), 0.08)
        if c == 4:
            return F(rng.choice([20.47, 20.475, 20.48, 20.485, -20.48, -20.485, -20.49, 0.004, 0.005, 0.006, -0.004, -0.005, -0.006, 40.95, 40.96]))
        return F(rng.choice([lo, hi, float(lo) - 1, float(hi) + 1, rng.uniform(max(lo, -30000), min(hi, 60000))]))
    if f == "f32":
        return rng.choice([F(rng.uniform(-1e6, 1e6)), I(rng.randint(-1000, 1000)), F(rng.choice([0.1, 1e-40, 3.4e38, 3.5e38, -3.5e38, 16777217.0]))])
    c = rng.randrange(10)
    if c < 6:
        return I(rng.randint(lo, hi))
    if c < 8:
        return I(rng.choice([lo, hi, lo - 1, hi + 1, lo + 1, hi - 1]))
    return F(rng.choice([lo + 0.5, hi - 0.5, hi + 0.5, lo - 0.5, rng.uniform(lo, hi), float(rng.randint(lo, hi)), 2.9, 1.5]))


class NumericValueDrv(Driver):
    cls_name = "NumericValue"
    methods = ("set",)
    weight = 4

    def gen_cfg(self, rng):
        gas = ["group_address"] if rng.random() < 0.93 else []
        if rng.random() < 0.3 or not gas:
            gas.append("group_address_state")
        return {"kw": {"value_type": rng.choice(NUM_TYPES)}, "ga": gas}

    def gen_call(self, rng, cfg):
        return ["set", [num_value(rng, cfg["kw"]["value_type"])]]

    def boundary_cases(self):
        for vt in NUM_TYPES:
            f, lo, hi = dpt_family(vt)
            for v in (lo, hi, 0, 1, 50):
                yield {"cls": self.cls_name, "cfg": {"kw": {"value_type": vt}, "ga": ["group_address"]}, "pre": [], "calls": [["set", [L.num(v)]]]}
        # 2-octet floats whose mantissa lies between the largest one (2047) and the next exponent's step, both signs
        for e in range(0, 15):
            for m in (2047.25, 2047.4, 2047.6, -2048.25, -2048.6, 2046.5, 1023.5):
                v = m * 2**e / 100
                yield {"cls": self.cls_name, "cfg": {"kw": {"value_type": "2byte_float"}, "ga": ["group_address"]}, "pre": [], "calls": [["set", [F(v)]]]}

    def observe(self, dev, clock):
        return {"value": dev.resolve_state()}

    def check(self, case, prev, m, args, rec):
        cfg = case["cfg"]
        if "group_address" not in cfg["ga"]:
            return noop(rec, prev)
        ref = num_ref(cfg["kw"]["value_type"], fr(args[0]))
        if ref is None:
            return None
        return multi(rec, [("group_address", ref, rec["obs"]["value"])])


register(NumericValueDrv())


class RawValueDrv(Driver):
    cls_name = "RawValue"
    methods = ("set",)

    def gen_cfg(self, rng):
        return {"kw": {"payload_length": rng.choice([0, 1, 1, 2, 3, 4, 8, 14])}, "ga": ["group_address"] + (["group_address_state"] if rng.random() < 0.3 else [])}

    def gen_call(self, rng, cfg):
        n = cfg["kw"]["payload_length"]
        top = 63 if n == 0 else 256**n - 1
        return ["set", [I(rng.choice([0, 1, top, top + 1, -1, rng.randint(0, top), rng.randint(0, top), 255, 256]))]]

    def observe(self, dev, clock):
        return {"value": dev.resolve_state()}

    def check(self, case, prev, m, args, rec):
        n = case["cfg"]["kw"]["payload_length"]
        v = dec(args[0])
        top = 63 if n == 0 else 256**n - 1
        if not 0 <= v <= top:
            return None if rec["r"] == "conv" and not rec["sent"] else f"value outside 0..{top}: outcome {rec['r']}, sent {rec['sent']}"
        payload = ("B", v) if n == 0 else ("A", list(v.to_bytes(n, "big")))
        return multi(rec, [("group_address", RawRef(payload, v), rec["obs"]["value"])])


register(RawValueDrv())


EXPOSE_TYPES = ["binary", "temperature", "percent", "string", "latin_1", "pulse", "2byte_unsigned", "4byte_float", "angle", "humidity"]
CHARS = "abcXYZ 019-_.:äöüÄß€ñé中"


def text_value(rng):
    n = rng.choice([0, 1, 5, 13, 14, 15, 20, rng.randint(0, 30)])
    return {"t": "str", "v": "".join(rng.choice(CHARS if rng.random() < 0.3 else "abcdefghijklmnop XYZ0123") for _ in range(n))}


def text_ref(value_type, s, crop):
    """14-octet string datapoint: characters outside the charset go out as '?'; longer strings are refused (or cropped by the device)"""
    enc = "latin_1" if value_type == "latin_1" else "ascii"
    if crop:
        s = s[:14]
    if len(s) > 14:
        return L.Ref(True, True, None, "longer than 14 characters")
    want = s.encode(enc, errors="replace").decode(enc)
    want = want.replace("\x00", "")
    raw = list(s.encode(enc, errors="replace")) + [0] * (14 - len(s))
    return RawRef(("A", raw), want)


class ExposeSensorDrv(Driver):
    cls_name = "ExposeSensor"
    methods = ("set",)
    weight = 3

    def gen_cfg(self, rng):
        return {"kw": {"value_type": rng.choice(EXPOSE_TYPES)}, "ga": ["group_address"] if rng.random() < 0.95 else []}

    def gen_call(self, rng, cfg):
        vt = cfg["kw"]["value_type"]
        if vt == "binary":
            return ["set", [B(rng.random() < 0.5)]]
        if vt in ("string", "latin_1"):
            return ["set", [text_value(rng)]]
        return ["set", [num_value(rng, vt)]]

    def observe(self, dev, clock):
        return {"value": dev.resolve_state()}

    def check(self, case, prev, m, args, rec):
        cfg = case["cfg"]
        vt = cfg["kw"]["value_type"]
        if "group_address" not in cfg["ga"]:
            return noop(rec, prev)
        if vt == "binary":
            ref = BoolRef(dec(args[0]))
        elif vt in ("string", "latin_1"):
            ref = text_ref(vt, args[0]["v"], crop=False)
        else:
            ref = num_ref(vt, fr(args[0]))
        return multi(rec, [("group_address", ref, rec["obs"]["value"])])


register(ExposeSensorDrv())


class NotificationDrv(Driver):
    cls_name = "Notification"
    methods = ("set",)

    def gen_cfg(self, rng):
        kw = {}
        if rng.random() < 0.5:
            kw["value_type"] = rng.choice(["latin_1", "string"])
        return {"kw": kw, "ga": ["group_address"] + (["group_address_state"] if rng.random() < 0.3 else [])}

    def gen_call(self, rng, cfg):
        return ["set", [text_value(rng)]]

    def observe(self, dev, clock):
        return {"message": dev.message}

    def check(self, case, prev, m, args, rec):
        vt = case["cfg"]["kw"].get("value_type", "string")
        return multi(rec, [("group_address", text_ref(vt, args[0]["v"], crop=True), rec["obs"]["message"])])


register(NotificationDrv())


class _DateTimeDrv(Driver):
    methods = ("set",)
    kind = ""

    def gen_cfg(self, rng):
        return {"kw": {"localtime": False}, "ga": ["group_address"] + (["group_address_state"] if rng.random() < 0.3 else [])}

    def observe(self, dev, clock):
        v = dev.value
        return {"value": None if v is None else v.isoformat()}

    def check(self, case, prev, m, args, rec):
        v = dec(args[0])
        ok, want = self.want(v)
        if not ok:
            return None if rec["r"] == "conv" else f"a {self.kind} the datapoint cannot represent was not refused ({rec['r']})"
        if rec["r"] != "ok":
            return f"refused a representable {self.kind}"
        if len(rec["sent"]) != 1 or rec["sent"][0][0] != "group_address":
            return f"queued {[(s[0], s[2]) for s in rec['sent']]}"
        if rec["obs"]["value"] != want.isoformat():
            return f"reports {rec['obs']['value']} for {v.isoformat()}"
        return None


class TimeDrv(_DateTimeDrv):
    cls_name = "TimeDevice"
    kind = "time"

    def gen_call(self, rng, cfg):
        h, mi, s = rng.choice([(0, 0, 0), (23, 59, 59), (12, 0, 0), (rng.randrange(24), rng.randrange(60), rng.randrange(60))])
        us = rng.choice([0, 0, 0, 1, 499999, 500000, 999999])
        return ["set", [{"t": "time", "v": [h, mi, s, us]}]]

    def want(self, v):
        # sub-second parts cannot be represented; the clock convention is to drop them (see notes)
        return True, v.replace(microsecond=0)


class DateDrv(_DateTimeDrv):
    cls_name = "DateDevice"
    kind = "date"

    def gen_call(self, rng, cfg):
        y = rng.choice([1990, 2089, 2000, 2024, 1989, 2090, rng.randint(1990, 2089), rng.randint(1900, 2150)])
        mo = rng.randint(1, 12)
        d = rng.randint(1, 28) if rng.random() < 0.8 else rng.choice([29, 30, 31])
        try:
            datetime.date(y, mo, d)
        except ValueError:
            d = 28
        return ["set", [{"t": "date", "v": [y, mo, d]}]]

    def want(self, v):
        return 1990 <= v.year <= 2089, v


class DateTimeDrv(_DateTimeDrv):
    cls_name = "DateTimeDevice"
    kind = "date-time"

    def gen_call(self, rng, cfg):
        y = rng.choice([1900, 2155, 2000, 2024, rng.randint(1900, 2155), 1899, 2156])
        mo, d = rng.randint(1, 12), rng.randint(1, 28)
        h, mi, s = rng.choice([(0, 0, 0), (23, 59, 59), (rng.randrange(24), rng.randrange(60), rng.randrange(60))])
        us = rng.choice([0, 0, 0, 999999])
        return ["set", [{"t": "datetime", "v": [y, mo, d, h, mi, s, us]}]]

    def want(self, v):
        return 1900 <= v.year <= 2155, v.replace(microsecond=0)


register(TimeDrv())
register(DateDrv())
register(DateTimeDrv())
