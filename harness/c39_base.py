"""C39 driver base: building a device from a JSON configuration, address naming, the generic telegram/state checks."""
from __future__ import annotations

from fractions import Fraction

from harness import devpool
from harness import c39_lib as L

DRIVERS = {}


def register(drv):
    DRIVERS[drv.cls_name] = drv
    return drv


def params_of(drv):
    if drv._params is None:
        drv._params = devpool.ga_params(devpool.device_classes()[drv.cls_name])
    return drv._params


def ga_str(drv, param):
    return f"1/0/{params_of(drv).index(param) + 1}"


def ga(drv, param):
    from xknx.telegram import GroupAddress

    return GroupAddress(ga_str(drv, param))


def ga_name(drv, addr):
    try:
        raw = addr.raw
    except AttributeError:
        return str(addr)
    i = raw - 0x0800 - 1  # 1/0/x
    ps = params_of(drv)
    return ps[i] if 0 <= i < len(ps) else str(addr)


def payload_obj(s):
    from xknx.dpt import DPTArray, DPTBinary

    if s.startswith("B:"):
        return DPTBinary(int(s[2:]))
    return DPTArray(tuple(bytes.fromhex(s[2:])))


def parse_payload(s):
    """'B:n' -> ('B', n) ; 'A:hex' -> ('A', [octets]) ; anything else -> ('?', s)"""
    if s.startswith("B:"):
        return "B", int(s[2:])
    if s.startswith("A:"):
        return "A", list(bytes.fromhex(s[2:]))
    return "?", s


def show_cfg(case):
    cfg = case["cfg"]
    kw = ", ".join(f"{k}={v}" for k, v in sorted(cfg.get("kw", {}).items()))
    gas = ",".join(p.replace("group_address_", "").replace("group_address", "ga") for p in cfg.get("ga", []))
    pre = "; pre " + ",".join(f"{p.replace('group_address_', '')}={v}" for p, v in case.get("pre", [])) if case.get("pre") else ""
    return f"{kw}{'; ' if kw else ''}addresses {gas}{pre}"


class BoolRef:
    """1-bit datapoint: `want` goes out as want xor invert and must be reported as want"""

    def __init__(self, want, invert=False):
        self.want, self.invert = bool(want), bool(invert)
        self.may_refuse = self.must_refuse = False

    def accept(self, reported, payload):
        bit = int(self.want != self.invert)
        if payload != ("B", bit):
            return f"sent {payload}, expected bit {bit} ({'inverted ' if self.invert else ''}{self.want})"
        if reported is not self.want:
            return f"device reports {reported!r} after commanding {self.want}"
        return None


class RawRef:
    """payload must be exactly these octets / this bit; reported must equal `want`"""

    def __init__(self, payload, want):
        self.payload, self.want = payload, want
        self.may_refuse = self.must_refuse = False

    def accept(self, reported, payload):
        if payload != self.payload:
            return f"sent {payload}, expected {self.payload}"
        if reported != self.want:
            return f"device reports {reported!r}, expected {self.want!r}"
        return None


def accept_of(ref, reported, payload):
    """adapts c39_lib.Ref (payload = octet list or None) and BoolRef/RawRef (payload = parsed tuple)"""
    if isinstance(ref, (BoolRef, RawRef)):
        return ref.accept(reported, payload)
    if ref.accept is None:
        return f"accepted although nothing the datapoint represents is near ({ref.why})"
    return ref.accept(reported, payload[1] if payload[0] == "A" else None)


def multi(rec, items):
    """items: [(param, ref, reported)] in the order the telegrams must be queued.
    Returns None or a problem string."""
    items = list(items)
    if rec["r"] in ("conv", "illegal"):
        if any(ref.may_refuse or ref.must_refuse for _, ref, _ in items):
            return None
        return "refused a value the datapoint represents"
    sent = rec["sent"]
    if len(sent) != len(items):
        return f"queued {[(s[0], s[2]) for s in sent]}, expected telegrams on {[p for p, _, _ in items]}"
    for (param, ref, reported), s in zip(items, sent):
        if s[0] != param or s[1] != "w":
            return f"telegram {s[:3]} where one on {param} was expected"
        msg = accept_of(ref, reported, parse_payload(s[2]))
        if msg:
            return f"{param.replace('group_address_', '')}: {msg}"
    return None


def noop(rec, prev, what="the configuration does not support this command", ignore=()):
    """nothing may be sent and nothing may change (`ignore`: observations that move with the clock)"""
    L_STATS["unsupported_noop"] = L_STATS.get("unsupported_noop", 0) + 1
    if rec["r"] != "ok":
        return None  # a refusal is fine too
    if rec["sent"]:
        return f"{what}, but telegrams {[(s[0], s[2]) for s in rec['sent']]} were queued"
    if {k: v for k, v in rec["obs"].items() if k not in ignore} != {k: v for k, v in prev.items() if k not in ignore}:
        return f"{what} and nothing was sent, but the reported state changed from {prev} to {rec['obs']}"
    return None


L_STATS = {}


def fr(tagged):
    """Fraction of a tagged number, None when not finite"""
    return L.frac(tagged) if L.finite(tagged) else None


class Driver:
    cls_name = ""
    methods = ()
    weight = 1
    dt = 16.0
    _params = None

    def build(self, xknx, cfg):
        cls = devpool.device_classes()[self.cls_name]
        kw = self.convert_kw(dict(cfg.get("kw", {})))
        for p in cfg.get("ga", []):
            kw[p] = ga_str(self, p)
        return cls(xknx, name="dev", **kw)

    def convert_kw(self, kw):
        return kw

    def gen_cfg(self, rng):
        return {"kw": {}, "ga": []}

    def gen_pre(self, rng, cfg):
        return []

    def gen_call(self, rng, cfg):
        raise NotImplementedError

    def boundary_cases(self):
        return []

    def observe(self, dev, clock):
        return {}

    def check(self, case, prev, m, args, rec):
        return None

    def model_line(self, case, recs):
        return None, None


def pick_subset(rng, names, p=0.5):
    return [n for n in names if rng.random() < p]


# numbers around a range: integers, ends, just outside, fractions, k*res +- ulp
def num_pool(rng, lo, hi, res=1.0):
    import math

    c = rng.randrange(12)
    if c < 4:
        return L.I(rng.randint(int(math.ceil(lo)), int(math.floor(hi))))
    if c == 4:
        return L.num(rng.choice([lo, hi, lo + res, hi - res]))
    if c == 5:
        return L.num(rng.choice([lo - res, hi + res, lo - res / 2, hi + res / 2, lo - 0.004, hi + 0.004, hi + 1000 * res, lo - 1000 * res]))
    if c == 6:
        k = rng.randint(int(lo / res), int(hi / res))
        x = k * res
        return L.F(rng.choice([x, math.nextafter(x, math.inf), math.nextafter(x, -math.inf)]))
    if c == 7:
        k = rng.randint(int(lo / res), int(hi / res))
        return L.F((k + 0.5) * res)
    if c == 8:
        k = rng.randint(int(lo / res), int(hi / res))
        return L.F(k * res + rng.choice([0.1, 0.3, 0.49, 0.51, 0.7, 0.9]) * res)
    if c == 9:
        return L.F(float(rng.randint(int(math.ceil(lo)), int(math.floor(hi)))))
    if c == 10:
        return L.F(rng.uniform(lo, hi))
    return L.F(round(rng.uniform(lo, hi), rng.choice([1, 2])))
