"""
Shared glue for the APCI properties C04-C06: class discovery by introspection,
canonical (field-wise, structural) rendering of service objects, construction of
objects from canonical tokens, outcome strings, value generators.

Canonical tokens:  i<int>  bT|bF  x<hex>   (None-valued attributes are omitted)
Canonical object:  "<Class> name=token ..." with names sorted; nested objects are
flattened (scf.tool_access, secured_data.secured_apdu, ...), addresses and DPTBinary
are their integer value, DPTArray / address lists their octets, enums their value.
"""
from __future__ import annotations

import dataclasses
import zlib

from xknx.dpt import DPTArray, DPTBinary
from xknx.exceptions import ConversionError, UnsupportedAPCIService
from xknx.secure.data_secure_asdu import (
    SecureData,
    SecurityAlgorithmIdentifier,
    SecurityALService,
    SecurityControlField,
)
from xknx.telegram import apci
from xknx.telegram.address import GroupAddress, IndividualAddress

from harness.gen.apci import concrete_classes

CLASSES = dict(concrete_classes())

# field type annotation -> kind understood by this harness
KNOWN_TYPES = {
    "int": "int", "bool": "bool", "bytes": "bytes", "int | None": "int?", "bytes | None": "bytes?",
    "IndividualAddress": "ia", "GroupAddress": "ga", "DPTBinary | DPTArray": "dpt",
    "ReturnCode": "returncode", "list[GroupAddress]": "galist",
    "SecurityControlField": "scf", "SecureData": "securedata",
}


_FK = {}


def field_kinds(cls):
    """[(attribute name, kind)]; kind None = a type this harness does not understand."""
    if cls not in _FK:
        _FK[cls] = _field_kinds(cls)
    return _FK[cls]


def _field_kinds(cls):
    return [(f.name, KNOWN_TYPES.get(f.type if isinstance(f.type, str) else getattr(f.type, "__name__", str(f.type))))
            for f in dataclasses.fields(cls)]


_UM = []


def unmodelled_classes():
    if not _UM:
        _UM.append(_unmodelled_classes())
    return _UM[0]


def _unmodelled_classes():
    return sorted(n for n, c in CLASSES.items() if any(k is None for _, k in field_kinds(c)))


def tok_int(v):
    return f"i{int(v)}"


def tok_bytes(b):
    return "x" + bytes(b).hex()


def tok_bool(b):
    return "bT" if b else "bF"


def canon_fields(obj):
    """dict name -> token for a service object (structural, no __eq__ / repr involved)."""
    out = {}
    for name, kind in field_kinds(type(obj)):
        v = getattr(obj, name)
        if v is None:
            continue
        if kind in ("int", "int?"):
            out[name] = tok_int(v)
        elif kind == "bool":
            out[name] = tok_bool(v)
        elif kind in ("bytes", "bytes?"):
            out[name] = tok_bytes(v)
        elif kind in ("ia", "ga"):
            out[name] = tok_int(v.raw)
        elif kind == "dpt":
            out[name] = tok_int(v.value) if isinstance(v, DPTBinary) else tok_bytes(bytes(v.value))
        elif kind == "returncode":
            out[name] = tok_int(v.value)
        elif kind == "galist":
            out[name] = tok_bytes(b"".join(int(g.raw).to_bytes(2, "big") for g in v))
        elif kind == "scf":
            out[name + ".tool_access"] = tok_bool(v.tool_access)
            out[name + ".algorithm"] = tok_int(int(v.algorithm))
            out[name + ".system_broadcast"] = tok_bool(v.system_broadcast)
            out[name + ".service"] = tok_int(int(v.service))
        elif kind == "securedata":
            out[name + ".sequence_number_bytes"] = tok_bytes(v.sequence_number_bytes)
            out[name + ".secured_apdu"] = tok_bytes(v.secured_apdu)
            out[name + ".message_authentication_code"] = tok_bytes(v.message_authentication_code)
        else:
            raise TypeError(f"unmodelled field type of {type(obj).__name__}.{name}")
    return out


def canon_obj(obj):
    f = canon_fields(obj)
    name = type(obj).__name__
    return name if not f else name + " " + " ".join(f"{k}={f[k]}" for k in sorted(f))


def canon_tokens(cls_name, toks):
    return cls_name if not toks else cls_name + " " + " ".join(f"{k}={toks[k]}" for k in sorted(toks))


def parse_tok(t):
    if t[0] == "i":
        return int(t[1:])
    if t[0] == "b":
        return t[1] == "T"
    if t[0] == "x":
        return bytes.fromhex(t[1:])
    raise ValueError(t)


def build(cls_name, toks):
    """Construct the service object from canonical tokens (may raise: construction refused)."""
    cls = CLASSES[cls_name]
    kw = {}
    for name, kind in field_kinds(cls):
        if kind == "scf":
            kw[name] = SecurityControlField(
                tool_access=parse_tok(toks[name + ".tool_access"]),
                algorithm=SecurityAlgorithmIdentifier(parse_tok(toks[name + ".algorithm"])),
                system_broadcast=parse_tok(toks[name + ".system_broadcast"]),
                service=SecurityALService(parse_tok(toks[name + ".service"])))
            continue
        if kind == "securedata":
            kw[name] = SecureData(
                sequence_number_bytes=parse_tok(toks[name + ".sequence_number_bytes"]),
                secured_apdu=parse_tok(toks[name + ".secured_apdu"]),
                message_authentication_code=parse_tok(toks[name + ".message_authentication_code"]))
            continue
        if name not in toks:
            if kind in ("int?", "bytes?"):
                kw[name] = None
                continue
            raise KeyError(name)
        v = parse_tok(toks[name])
        if kind == "ia":
            v = IndividualAddress(v)
        elif kind == "ga":
            v = GroupAddress(v)
        elif kind == "dpt":
            v = DPTBinary(v) if isinstance(v, int) else DPTArray(v)
        elif kind == "returncode":
            v = apci.ReturnCode(v)
        elif kind == "galist":
            v = [GroupAddress(int.from_bytes(v[i:i + 2], "big")) for i in range(0, len(v), 2)]
        kw[name] = v
    return cls(**kw)


def exc_class(e):
    if isinstance(e, UnsupportedAPCIService):
        return "unsupported"
    if isinstance(e, ConversionError):
        return "conv"
    return "other:" + type(e).__name__


# C05/C06 decode twice (history independence); C04 (totality with declared errors only) judges the single decode
POISON = True


def dec_outcome(raw: bytes) -> str:
    """`APCI.from_knx(raw)` → canonical outcome incl. re-encoding and calculated_length.

    History independence (harness/lib/poison.py): the octets are decoded twice, the first result's attributes are overwritten in
    between; a decoder handing out shared mutable objects shows up as `other:SharedMutableState`."""
    if not POISON:
        return _dec_once(raw, False)
    first = _dec_once(raw, True)
    out = _dec_once(raw, False)
    return out if out == first else "other:SharedMutableState"


def _dec_once(raw: bytes, spoil: bool) -> str:
    from harness.lib.poison import poison
    try:
        obj = apci.APCI.from_knx(raw)
    except Exception as e:  # noqa: BLE001
        return exc_class(e)
    try:
        return _render_dec(obj)
    finally:
        if spoil:
            poison(obj)


def _render_dec(obj) -> str:
    try:
        enc = "x" + bytes(obj.to_knx()).hex()
    except Exception:  # noqa: BLE001  any refusal
        enc = "refused"
    try:
        cl = str(int(obj.calculated_length()))
    except Exception:  # noqa: BLE001
        cl = "-"
    return f"ok {canon_obj(obj)} => {enc} {cl}"


def split_dec(out):
    """'ok <obj> => <enc> <cl>' -> (obj canon, class name, enc token, cl)"""
    body, tail = out[3:].rsplit(" => ", 1)
    enc, cl = tail.split(" ")
    return body, body.split(" ", 1)[0], enc, cl


def code_of(raw: bytes) -> int:
    return ((raw[0] << 8) | raw[1]) & 0x3FF


# ---- the specification-side tables used by the oracles (written by hand, NOT derived from the Lean model) ----

# 4 bit services: the low 6 bits of the APCI belong to the payload
SHORT = {"GroupValueRead", "GroupValueResponse", "GroupValueWrite", "IndividualAddressWrite",
         "IndividualAddressRead", "IndividualAddressResponse", "ADCRead", "ADCResponse", "MemoryRead",
         "MemoryResponse", "MemoryWrite", "DeviceDescriptorRead", "DeviceDescriptorResponse", "Restart"}
# legacy coupler services xknx deliberately reports as unsupported
UNSUPPORTED_BY_DESIGN = {"RouterStatusRead", "RouterStatusResponse", "RouterStatusWrite"}


def recognised_codes():
    """10 bit APCI codes that belong to a service class xknx implements."""
    long_codes = {c.CODE.value: n for n, c in CLASSES.items() if n not in SHORT}
    rec = {}
    for code in range(1024):
        if code in long_codes:
            if long_codes[code] not in UNSUPPORTED_BY_DESIGN:
                rec[code] = long_codes[code]
            continue
        for n in SHORT:
            if CLASSES[n].CODE.value == code & 0x3C0:
                rec[code] = n
    return rec


# reserved bits per service, (octet offset, bit mask), from KNX 03_03_07 Application Layer / 10_01 Logical Tag Extended;
# octet 0 bits 7..2 are transport layer bits for every service.
_NOPAYLOAD6 = [(1, 0x3F)]
SPEC_RESERVED = {
    "GroupValueRead": _NOPAYLOAD6, "IndividualAddressRead": _NOPAYLOAD6, "IndividualAddressResponse": _NOPAYLOAD6,
    "Restart": _NOPAYLOAD6,
    "IndividualAddressWrite": _NOPAYLOAD6,            # 6 bit field unused, address follows in octets 2..3
    "SystemNetworkParameterRead": [(5, 0x0F)], "SystemNetworkParameterResponse": [(5, 0x0F)],
    "SystemNetworkParameterWrite": [(5, 0x0F)],
    "PropertyExtDescriptionResponse": [(13, 0x40)],
    "AuthorizeRequest": [(2, 0xFF)],
    "PropertyDescriptionResponse": [(6, 0xF0)],
    "IndividualAddressSerialResponse": [(10, 0xFF), (11, 0xFF)],
    "IndividualAddressSerialWrite": [(10, 0xFF), (11, 0xFF), (12, 0xFF), (13, 0xFF)],
    "LinkRead": [(3, 0xF0)],
    "LinkWrite": [(3, 0xFC)],
}


def spec_mask(cls_name: str, raw: bytes) -> bytes:
    m = bytearray(len(raw))
    m[0] = 0xFC
    res = SPEC_RESERVED.get(cls_name, [])
    if cls_name in ("GroupValueWrite", "GroupValueResponse") and len(raw) > 2:
        res = _NOPAYLOAD6  # value travels in the following octets, the 6 bit field is unused
    for off, bits in res:
        if off < len(raw):
            m[off] |= bits
    return bytes(m)


def adler(s: str) -> int:
    return zlib.adler32(s.encode())


# ---- generators ---------------------------------------------------------------------------------

INT_POOL = sorted({0, 1, 2, 3, -1, -2, 2 ** 32, 2 ** 32 - 1, 2 ** 33, -(2 ** 32), 2 ** 31}
                  | {2 ** k + d for k in range(1, 33) for d in (-1, 0, 1)})


def rand_bytes(rng, n):
    return bytes(rng.randrange(256) for _ in range(n))


def rand_token(rng, kind, wild):
    """A token for one field kind; `wild` = also out-of-range / odd lengths."""
    if kind in ("int", "int?"):
        if wild and rng.random() < 0.5:
            return tok_int(rng.choice(INT_POOL))
        return tok_int(rng.choice([0, 1, rng.randrange(16), rng.randrange(64), rng.randrange(256), rng.randrange(4096),
                                   rng.randrange(65536)]))
    if kind == "bool":
        return tok_bool(rng.random() < 0.5)
    if kind in ("bytes", "bytes?"):
        n = rng.randrange(21) if wild else rng.choice([0, 1, 2, 4, 6, 6, 6, 16, rng.randrange(21)])
        return tok_bytes(rand_bytes(rng, n))
    if kind in ("ia", "ga"):
        return tok_int(rng.choice([0, 1, 0xFFFF, rng.randrange(65536)]) if not wild or rng.random() < 0.7
                       else rng.choice([-1, 65536, 2 ** 32]))
    if kind == "dpt":
        if rng.random() < 0.5:
            return tok_int(rng.randrange(64) if not wild or rng.random() < 0.7 else rng.choice([64, -1, 255, 2 ** 32]))
        return tok_bytes(rand_bytes(rng, rng.randrange(15) if wild else rng.randrange(1, 15)))
    if kind == "returncode":
        return tok_int(rng.choice([m.value for m in apci.ReturnCode]))
    if kind == "galist":
        return tok_bytes(rand_bytes(rng, 2 * rng.randrange(9 if wild else 7)))
    raise TypeError(kind)


def rand_tokens(rng, cls_name, wild=False, sweep=None):
    """Canonical tokens of a random object of the class. `sweep=(attr, token)` pins one attribute."""
    toks = {}
    cls = CLASSES[cls_name]
    for name, kind in field_kinds(cls):
        if kind == "scf":
            toks[name + ".tool_access"] = tok_bool(rng.random() < 0.5)
            toks[name + ".algorithm"] = tok_int(rng.choice(list(SecurityAlgorithmIdentifier)))
            toks[name + ".system_broadcast"] = tok_bool(rng.random() < 0.5)
            toks[name + ".service"] = tok_int(rng.choice(list(SecurityALService)))
        elif kind == "securedata":
            toks[name + ".sequence_number_bytes"] = tok_bytes(rand_bytes(rng, 6 if not wild or rng.random() < 0.6 else rng.randrange(21)))
            toks[name + ".secured_apdu"] = tok_bytes(rand_bytes(rng, rng.randrange(21)))
            toks[name + ".message_authentication_code"] = tok_bytes(rand_bytes(rng, 4 if not wild or rng.random() < 0.6 else rng.randrange(21)))
        elif kind in ("int?", "bytes?"):
            if rng.random() < 0.5:
                toks[name] = rand_token(rng, kind, wild)
        else:
            toks[name] = rand_token(rng, kind, wild)
    if sweep:
        toks[sweep[0]] = sweep[1]
    return toks


# well-formed values per class to raise the share of objects the encoder accepts
def tidy_tokens(rng, cls_name, toks):
    """Nudge random tokens towards an encodable object (ranges/lengths the class documents)."""
    t = dict(toks)

    def setb(k, n):
        if k in t:
            t[k] = tok_bytes(rand_bytes(rng, n))

    def clamp(k, lo, hi):
        if k in t and t[k][0] == "i":
            t[k] = tok_int(lo + (int(t[k][1:]) - lo) % (hi - lo + 1))
    for k in ("serial",):
        setb(k, 6)
    if "domain_address" in t:
        setb("domain_address", rng.choice([2, 6] if cls_name != "DomainAddressSerialNumberWrite" else [2, 4, 6]))
    if cls_name == "DomainAddressSerialNumberWrite":
        if rng.random() < 0.4:
            setb("domain_address", 4)
            t["routing_security_version"] = tok_int(rng.randrange(256))
            t["backbone_key"] = tok_bytes(rand_bytes(rng, 16))
        else:
            t.pop("routing_security_version", None)
            t.pop("backbone_key", None)
    if cls_name == "UserManufacturerInfoResponse":
        setb("data", 2)
    if cls_name in ("MemoryBitWrite", "UserMemoryBitWrite"):
        n = rng.randrange(1, 8)
        setb("and_data", n)
        setb("xor_data", n)
    if cls_name == "DomainAddressSelectiveRead" and t["asdu"] == "x":
        setb("asdu", 3)
    if cls_name in ("FilterTableWrite", "RouterMemoryWrite") and t["data"] == "x":
        setb("data", 2)
    widths = {"channel": 63, "count": 15 if "UserMemory" in cls_name or "PropertyValue" in cls_name else 63, "descriptor": 63,
              "number": 254, "level": 255, "object_index": 255, "property_index": 255 if "Ext" not in cls_name else 4095,
              "type_": 255, "access": 255, "manufacturer_id": 255, "return_code": 255, "erase_code": 255,
              "channel_number": 255, "error_code": 255, "nr_of_elem": 255, "description_type": 15, "pdt": 63,
              "read_level": 15, "write_level": 15, "max_count": 4095, "object_instance": 255 if "GroupProp" in cls_name else 4095,
              "group_object_number": 255, "sending_address": 15, "file_handle": 15, "file_block_seq_number": 15,
              "routing_security_version": 255, "property_id": 255 if "Ext" not in cls_name and "SystemNetwork" not in cls_name else 4095,
              "start_index": 15 if "Link" in cls_name else (4095 if "Ext" not in cls_name else 65535)}
    for k, hi in widths.items():
        if cls_name in ("FilterTableRead", "FilterTableWrite", "RouterMemoryRead", "RouterMemoryWrite") and k == "number":
            clamp(k, 1, 254)
        elif cls_name in ("MemoryExtendedRead", "MemoryExtendedWrite") and k == "count":
            clamp(k, 0, 250)
        elif cls_name in ("MemoryExtendedReadResponse", "MemoryExtendedWriteResponse") and k == "return_code":
            clamp(k, 0, 255)
        elif k == "return_code" and t.get(k, "")[:1] == "i" and "FunctionPropertyState" not in cls_name:
            continue
        else:
            clamp(k, 0, hi)
    for k in ("secured_data.sequence_number_bytes",):
        setb(k, 6)
    for k in ("secured_data.message_authentication_code",):
        setb(k, 4)
    return t


def valid_apdu(rng, cls_name):
    """bytes of a random well-formed frame of the class, or None."""
    for _ in range(6):
        toks = tidy_tokens(rng, cls_name, rand_tokens(rng, cls_name))
        try:
            return bytes(build(cls_name, toks).to_knx())
        except Exception:  # noqa: BLE001
            continue
    return None
