"""
Virtual-time asyncio event loop for mode-R correspondence (DESIGN.md §1.1a).

* `time()` is a virtual clock; whenever nothing is ready the clock jumps to
  the next scheduled timer, so hours of protocol time run in milliseconds and
  every run is deterministic.
* `settle()` yields until no other callback is runnable at the current instant.
* A run with nothing ready and nothing scheduled raises `VDeadlock` instead of
  blocking in select().
* `patch_time()` points time.time / time.monotonic at the virtual clock.
"""
from __future__ import annotations

import asyncio
import heapq
import time as _time
from contextlib import contextmanager


class VDeadlock(RuntimeError):
    pass


class VLoop(asyncio.SelectorEventLoop):
    def __init__(self, start: float = 1000.0):
        super().__init__()
        self._vtime = float(start)
        self.max_iterations = 2_000_000
        self._iters = 0
        # optional schedule hook: called with the loop at every iteration boundary -- once before the
        # clock may jump to the next timer ("event arrives right after the previous activity") and, if the
        # clock did jump, once more at the new instant ("event arrives together with the timer").
        # Whatever the hook schedules with call_soon runs in this iteration after the already-ready
        # handles, exactly where the selector would put an I/O event.
        self.on_boundary = None

    def time(self) -> float:
        return self._vtime

    def _run_once(self):
        self._iters += 1
        if self._iters > self.max_iterations:
            raise VDeadlock("iteration budget exhausted")
        sched = self._scheduled
        while sched and sched[0]._cancelled:
            self._timer_cancelled_count -= 1
            h = heapq.heappop(sched)
            h._scheduled = False
        if self.on_boundary is not None:
            self.on_boundary(self)
        if not self._ready:
            if sched:
                when = sched[0]._when
                if when > self._vtime:
                    self._vtime = when
                    if self.on_boundary is not None:
                        self.on_boundary(self)
            elif not self._stopping:
                raise VDeadlock("nothing ready and nothing scheduled")
        super()._run_once()

    async def settle(self, limit: int = 10_000):
        """Yield until no other callback is runnable at the current virtual instant."""
        for _ in range(limit):
            await asyncio.sleep(0)
            sched = self._scheduled
            due = any((not h._cancelled) and h._when <= self._vtime for h in sched[:8]) if sched else False
            if not self._ready and not due:
                return
        raise VDeadlock("settle() did not quiesce")


@contextmanager
def patch_time(loop: VLoop, epoch: float = 1_700_000_000.0):
    """time.time()/monotonic() follow the virtual clock while active."""
    real = (_time.time, _time.monotonic)
    _time.time = lambda: epoch + loop.time()
    _time.monotonic = lambda: loop.time()
    try:
        yield
    finally:
        _time.time, _time.monotonic = real


def run(coro_fn, *args, start: float = 1000.0, patch_clock: bool = False, epoch: float = 1_700_000_000.0):
    """Run `await coro_fn(loop, *args)` on a fresh VLoop and close it.

    `epoch` is the offset of the patched time.time() (use 0.0 with dyadic delays when the code under
    test subtracts wall-clock readings and exact virtual instants matter)."""
    loop = VLoop(start)
    asyncio.set_event_loop(loop)
    try:
        if patch_clock:
            with patch_time(loop, epoch):
                return loop.run_until_complete(coro_fn(loop, *args))
        return loop.run_until_complete(coro_fn(loop, *args))
    finally:
        try:
            pending = [t for t in asyncio.all_tasks(loop) if not t.done()]
            for t in pending:
                t.cancel()
            if pending:
                loop.run_until_complete(asyncio.gather(*pending, return_exceptions=True))
        except Exception:  # noqa: BLE001
            pass
        asyncio.set_event_loop(None)
        loop.close()


def q(t: float) -> int:
    """Quantise a virtual time to integer microseconds for comparison."""
    return int(round(t * 1_000_000))


def _selftest():
    log = []

    async def worker(name, d):
        await asyncio.sleep(d)
        log.append((name, q(asyncio.get_running_loop().time())))

    async def main(loop):
        t0 = loop.time()
        ts = [asyncio.create_task(worker("a", 3600.0)), asyncio.create_task(worker("b", 0.02)),
              asyncio.create_task(worker("c", 0.02))]
        await loop.settle()
        assert log == []
        await asyncio.sleep(0.01)
        assert log == []
        await asyncio.gather(*ts)
        assert sorted(n for n, _ in log[:2]) == ["b", "c"] and log[2][0] == "a", log  # equal-time order is asyncio's heap order
        assert log[0][1] == q(t0 + 0.02) and log[2][1] == q(t0 + 3600.0), log
        try:
            async with asyncio.timeout(5):
                await asyncio.Event().wait()
        except TimeoutError:
            log.append(("to", q(loop.time() - t0)))
        return log

    w0 = _time.time()
    out = run(main)
    assert out[-1] == ("to", q(3605.0)), out
    assert _time.time() - w0 < 1.0
    try:
        run(lambda loop: asyncio.Event().wait())
    except VDeadlock:
        pass
    else:
        raise AssertionError("deadlock not detected")
    print("vloop selftest ok")


if __name__ == "__main__":
    _selftest()
