"""Shared helpers for the cEMI properties (C12, C13): canonical rendering and APCI instrumentation."""
from xknx.cemi import CEMIFrame
from xknx.cemi.cemi_frame import (
    CEMILData,
    CEMIMPropReadRequest,
    CEMIMPropReadResponse,
    CEMIMPropWriteRequest,
    CEMIMPropWriteResponse,
)
from xknx.exceptions import ConversionError, CouldNotParseCEMI, UnsupportedAPCIService, UnsupportedCEMIMessage
from xknx.telegram import GroupAddress
from xknx.telegram.apci import APCI

NUMBERED = {"TDataConnected", "TAck", "TNak"}

_real_from_knx = None
_calls = []


def hx(b):
    b = bytes(b)
    return b.hex() if b else "-"


def instrument():
    """Class-level wrapper around APCI.from_knx recording (apdu, outcome class)."""
    global _real_from_knx
    _real_from_knx = APCI.__dict__["from_knx"]
    real = APCI.from_knx

    def wrapper(raw):
        try:
            r = real(raw)
        except UnsupportedAPCIService:
            _calls.append((bytes(raw), "unsup"))
            raise
        except ConversionError:
            _calls.append((bytes(raw), "conv"))
            raise
        _calls.append((bytes(raw), "ok"))
        return r

    APCI.from_knx = staticmethod(wrapper)


def restore():
    APCI.from_knx = _real_from_knx


def take_calls():
    c = list(_calls)
    _calls.clear()
    return c


def render_tpci(t):
    n = type(t).__name__
    return f"{n}:{t.sequence_number}" if n in NUMBERED else n


def render_flags(f):
    return (f"p{int(f.priority)} r{int(f.repeat_on_error)} s{int(f.system_broadcast)} a{int(f.acknowledge_request)} "
            f"c{int(f.confirm_error)} h{f.hop_count} t{int(f.frame_type)} e{int(f.frame_format)}")


def render_info(i):
    return f"{int(i.object_type)} {i.object_instance} {i.property_id} {i.number_of_elements} {i.start_index}"


def render_frame(fr, apdu=None):
    """Canonical rendering, same grammar as XknxVerif.CEMI.Frame.render. `apdu` = the APDU handed to APCI.from_knx."""
    head = f"ok {fr.code.value} {hx(fr.info.raw)}"
    d = fr.data
    if isinstance(d, CEMILData):
        g = "g" if isinstance(d.dst_addr, GroupAddress) else "i"
        pay = "none" if d.payload is None else hx(apdu if apdu is not None else d.payload.to_knx())
        return f"{head} L {render_flags(d.flags)} {d.src_addr.raw} {g} {d.dst_addr.raw} {render_tpci(d.tpci)} {pay}"
    if isinstance(d, CEMIMPropReadRequest):
        return f"{head} R {render_info(d.property_info)}"
    if isinstance(d, CEMIMPropReadResponse):
        return f"{head} RC {render_info(d.property_info)} {hx(d.data)}"
    if isinstance(d, CEMIMPropWriteRequest):
        return f"{head} W {render_info(d.property_info)} {hx(d.data)}"
    if isinstance(d, CEMIMPropWriteResponse):
        e = d.error_code
        return f"{head} WC {render_info(d.property_info)} {'none' if e is None else int(e)}"
    return f"{head} ?{type(d).__name__}"


def parse(raw):
    """Run CEMIFrame.from_knx; returns (outcome string, frame|None, tag)."""
    take_calls()
    try:
        fr = CEMIFrame.from_knx(raw)
    except CouldNotParseCEMI:
        out, fr = "parse", None
    except UnsupportedCEMIMessage:
        out, fr = "unsupported", None
    except Exception as e:  # noqa: BLE001
        out, fr = f"other:{type(e).__name__}", None
    calls = take_calls()
    tag = calls[-1][1] if calls else "na"
    if fr is not None:
        out = render_frame(fr, calls[-1][0] if calls else None)
    return out, fr, tag
