"""History independence of parsers: a decoded object must not share mutable state with a later decode.

The properties quantify over every input *and every history*: `X.from_knx(octets)` has to denote a function of the octets. A
parser that memoises a mutable result (an `lru_cache` on a `from_knx` returning a non-frozen dataclass) still passes every
single-shot round trip, but the second frame parsed from the same octets is the *same object* as the first, and a caller that
lowers the hop count of one frame changes what the other "parsed" to.  The harnesses therefore decode twice: the first result is
rendered and then *poisoned* (every assignable attribute reachable from it is overwritten with a different value), the octets are
decoded again and the second rendering must equal the first.  Immutable sharing (enum members, frozen dataclasses, ints) is
unaffected: poisoning only assigns attributes, it never mutates a value in place.
"""
from __future__ import annotations

from enum import Enum

_KEEP = object()
_ATOMS = (int, float, str, bytes, tuple, frozenset, type, type(None))


def _scramble(v):
    if isinstance(v, bool):
        return not v
    if isinstance(v, Enum):
        members = list(type(v))
        return members[(members.index(v) + 1) % len(members)] if len(members) > 1 else _KEEP
    if isinstance(v, int):
        return v ^ 1
    if isinstance(v, float):
        return v + 1.0
    if isinstance(v, bytes):
        return v + b"\xee"
    if isinstance(v, str):
        return v + "~"
    if isinstance(v, tuple):
        return (*v, 0xEE) if all(isinstance(x, int) for x in v) else _KEEP
    return _KEEP


def _attr_names(o):
    names = []
    for klass in type(o).__mro__:
        s = getattr(klass, "__slots__", ())
        names += [s] if isinstance(s, str) else list(s)
    names += list(getattr(o, "__dict__", {}))
    return [n for n in dict.fromkeys(names) if not n.startswith("__")]


def poison(o, depth=0, _seen=None):
    """Overwrite every assignable attribute reachable from `o` (children first); returns the number of assignments made."""
    if _seen is None:
        _seen = set()
    if o is None or isinstance(o, (*_ATOMS, Enum)) or depth > 5 or id(o) in _seen:
        return 0
    _seen.add(id(o))
    n = 0
    if isinstance(o, list):
        for x in o:
            n += poison(x, depth + 1, _seen)
        if o:
            o.append(o[0])
            n += 1
        return n
    if isinstance(o, dict):
        for x in o.values():
            n += poison(x, depth + 1, _seen)
        return n
    for name in _attr_names(o):
        try:
            v = getattr(o, name)
        except AttributeError:
            continue
        if callable(v) and not isinstance(v, Enum):
            continue
        n += poison(v, depth + 1, _seen)
        nv = _scramble(v)
        if nv is _KEEP:
            continue
        try:
            setattr(o, name, nv)
            n += 1
        except Exception:  # noqa: BLE001  frozen dataclass, read-only property
            pass
    return n
