"""
Shared introspection / canonicalisation for the DPT properties C07-C10.

Everything here is derived from the *imported* xknx modules: the class list
(`DPTBase.dpt_class_tree()`), the codec family of a class (the class in the MRO
that defines `from_knx` / `to_knx`), the declared ranges.  Nothing is a
hand-copied table.
"""
from __future__ import annotations

import dataclasses
import enum
import math
import struct
from fractions import Fraction

import xknx.dpt  # noqa: F401  (registers every DPT class)
from xknx.dpt.dpt import DPTBase, DPTComplex, DPTEnum, DPTNumeric
from xknx.dpt.payload import DPTArray, DPTBinary
from xknx.exceptions import ConversionError, CouldNotParseTelegram

# ---------------------------------------------------------------------------
# classes and families
# ---------------------------------------------------------------------------

# family name in the Lean model  <-  class that defines from_knx
FAMILY_BY_OWNER = {
    "DPTEnum": "enum",
    "_DPTBinaryControlBase": "binctl",
    "DPTStructIntMixin": "structint",
    "DPT2ByteUnsigned": "u16",
    "DPT2ByteSigned": "s16",
    "DPT2ByteFloat": "f16",
    "DPT4ByteFloat": "f32",
    "DPTValue1ByteUnsigned": "u8",
    "DPTScaling": "scaling",
    "DPTSignedRelativeValue": "s8",
    "DPTString": "string",
    "DPTSceneNumber": "scenenum",
    "DPTSceneControl": "scenectl",
    "DPTControlDimming": "ctldim",
    "DPTControlBlinds": "ctlblinds",
    "DPTTime": "time",
    "DPTDate": "date",
    "DPTDateTime": "datetime",
    "DPTHVACStatus": "hvacstatus",
    "DPTColorRGB": "rgb",
    "DPTColorRGBW": "rgbw",
    "DPTColorXYY": "xyy",
    "DPTColorXYYTransition": "xyytrans",
    "DPTColorTemperatureTransition": "cttrans",
    "DPTColorTemperatureControl": "ctctl",
    "DPTRelativeControlRGB": "relrgb",
    "DPTRelativeControlRGBW": "relrgbw",
    "DPTRelativeControlXYY": "relxyy",
    "DPTTariffActiveEnergy": "tariffenergy",
}
# the encoder owner each family is modelled with; anything else => unmodelled
ENC_OWNER_OK = {
    "enum": {"DPTEnum"},
}


def owner(cls, name):
    for k in cls.__mro__:
        if name in k.__dict__:
            return k.__name__
    return None


def all_classes():
    """Concrete DPT classes, deterministic order (by name)."""
    seen = {}
    for c in DPTBase.dpt_class_tree():
        seen.setdefault(c.__name__, c)
    return [seen[n] for n in sorted(seen)]


def family(cls):
    """Family tag of the Lean model, or 'unmodelled:<owner>'."""
    dec = owner(cls, "from_knx")
    enc = owner(cls, "to_knx")
    fam = FAMILY_BY_OWNER.get(dec)
    if fam is None:
        return f"unmodelled:{dec}"
    if owner(cls, "validate_payload") != "DPTBase":
        return f"unmodelled:validate_payload@{owner(cls, 'validate_payload')}"
    if issubclass(cls, DPTComplex):
        if enc != "DPTComplex" or owner(cls, "_to_knx") not in (cls.__name__, dec):
            return f"unmodelled:{enc}/{owner(cls, '_to_knx')}"
        dt = cls.data_type
        # dict form must come from the class we modelled
        exp_owner = {"binctl": "_BinaryControlDataMixin",
                     "ctctl": "_RelativeControlDimming", "relrgb": "_RelativeControlDimming",
                     "relrgbw": "_RelativeControlDimming", "relxyy": "_RelativeControlDimming"}.get(fam, dt.__name__)
        if owner(dt, "as_dict") != exp_owner or owner(dt, "from_dict") != exp_owner:
            return f"unmodelled:dict@{owner(dt, 'as_dict')}/{owner(dt, 'from_dict')}"
    elif issubclass(cls, DPTEnum):
        if enc != "DPTEnum" or owner(cls.data_type, "parse") != "DPTEnumData":
            return f"unmodelled:{enc}"
    elif fam == "scenenum":
        if enc != "DPTSceneNumber":
            return f"unmodelled:{enc}"
    elif enc != dec:
        return f"unmodelled:{dec}/{enc}"
    return fam


def kind(cls):
    return "b" if cls.payload_type is DPTBinary else "a"


def is_numeric(cls):
    return issubclass(cls, DPTNumeric)


def is_json_kind(cls):
    return issubclass(cls, DPTComplex | DPTEnum)


CLASSES = all_classes()
BY_NAME = {c.__name__: c for c in CLASSES}
FAM = {c.__name__: family(c) for c in CLASSES}

# ---------------------------------------------------------------------------
# canonical values
# ---------------------------------------------------------------------------


def fbits(x: float) -> str:
    if x != x:
        return "fnan"
    return "f" + struct.pack(">d", x).hex()


def unfbits(s: str) -> float:
    if s == "fnan":
        return math.nan
    return struct.unpack(">d", bytes.fromhex(s[1:]))[0]


def canon(v) -> str:
    """Canonical, space-free rendering of a decoded value / JSON-native value."""
    if v is None:
        return "n"
    if isinstance(v, enum.Enum):
        return "e" + v.name
    if isinstance(v, bool):
        return "b1" if v else "b0"
    if isinstance(v, int):
        return f"i{v}"
    if isinstance(v, float):
        return fbits(v)
    if isinstance(v, str):
        return "s" + (v.encode("utf-8").hex() or "-")
    if isinstance(v, (tuple, list)):
        return "[" + ",".join(canon(x) for x in v) + "]"
    if isinstance(v, dict):
        return "{" + ",".join(f"{k}={canon(x)}" for k, x in v.items()) + "}"
    if dataclasses.is_dataclass(v):
        return "{" + ",".join(f"{f.name}={canon(getattr(v, f.name))}" for f in dataclasses.fields(v)) + "}"
    return "?" + type(v).__name__


def same_value(a, b) -> bool:
    """Python equality, with NaN equal to NaN (recursively through canon)."""
    try:
        if a == b and type(a) is type(b):
            return True
    except Exception:  # noqa: BLE001
        pass
    return canon(a) == canon(b)


def exc_class(e: BaseException) -> str:
    if isinstance(e, CouldNotParseTelegram):
        return "parse"
    if isinstance(e, ConversionError):
        return "conv"
    return "other:" + type(e).__name__


def mk_payload(k: str, data):
    """k = 'b' -> DPTBinary(int), 'a' -> DPTArray(tuple)."""
    if k == "b":
        return DPTBinary(data)
    return DPTArray(tuple(data))


def payload_canon(p, nan32=False) -> str:
    """nan32: payload of an IEEE binary32 codec - every NaN bit pattern is rendered as the canonical quiet NaN
    (NaN payload bits are not modelled; their propagation is platform specific)."""
    if isinstance(p, DPTBinary):
        return f"b{int(p.value)}"
    if isinstance(p, DPTArray):
        v = p.value
        if not v:
            return "a-"
        if not all(isinstance(x, int) and 0 <= x < 256 for x in v):
            return "a!" + ".".join(str(x) for x in v)
        if nan32 and len(v) == 4 and (v[0] & 0x7F) == 0x7F and (v[1] & 0x80) and (((v[1] & 0x7F) << 16) | (v[2] << 8) | v[3]):
            return "a7fc00000"
        return "a" + bytes(v).hex()
    return "?" + type(p).__name__


def decode(cls, p):
    """-> ('ok', value) | (exc_class, None)"""
    try:
        return "ok", cls.from_knx(p)
    except Exception as e:  # noqa: BLE001
        return exc_class(e), None


def encode(cls, v):
    try:
        return "ok", cls.to_knx(v)
    except Exception as e:  # noqa: BLE001
        return exc_class(e), None


# ---------------------------------------------------------------------------
# payload descriptions inside a case: "b<lo>-<hi>" | "a<len>:<lo>-<hi>" (big-endian counter) | "x<hex>,<hex>,..."
# ---------------------------------------------------------------------------


def expand(spec: str):
    """Yield (kind, data) for a payload spec."""
    if spec[0] == "b":
        lo, hi = spec[1:].split("-")
        for v in range(int(lo), int(hi) + 1):
            yield "b", v
    elif spec[0] == "a":
        ln, rng = spec[1:].split(":")
        ln = int(ln)
        lo, hi = rng.split("-")
        for v in range(int(lo), int(hi) + 1):
            yield "a", tuple(v.to_bytes(ln, "big")) if ln else ()
    elif spec[0] == "x":
        for h in spec[1:].split(","):
            yield "a", tuple(bytes.fromhex(h)) if h != "-" else ()
    else:
        raise ValueError(spec)


def spec_single(k, data) -> str:
    if k == "b":
        return f"b{data}-{data}"
    return "x" + (bytes(data).hex() or "-")


def rle(items):
    out, prev, n = [], None, 0
    for it in items:
        if it == prev:
            n += 1
        else:
            if prev is not None:
                out.append(f"{prev}*{n}")
            prev, n = it, 1
    if prev is not None:
        out.append(f"{prev}*{n}")
    return ",".join(out) or "-"


# ---------------------------------------------------------------------------
# numeric helpers for the C09 oracle (exact rational arithmetic)
# ---------------------------------------------------------------------------


def frac(x):
    return Fraction(x)


def f16_step(v: Fraction) -> Fraction:
    """Resolution step of DPT 9 at the representable value nearest to v: 0.01 * 2^e with the smallest e such
    that v*100 / 2^e fits the 12-bit two's complement mantissa."""
    x = v * 100
    e = 0
    while not (-2048 <= x / (1 << e) <= 2047) and e < 15:
        e += 1
    return Fraction(1 << e, 100)


def f32_step(v: Fraction) -> Fraction:
    """ulp of IEEE binary32 at v (subnormal spacing below 2^-126)."""
    a = abs(v)
    if a == 0:
        return Fraction(1, 1 << 149)
    e = math.floor(math.log2(a)) if a < Fraction(2) ** 1000 else 1000
    # correct possible off-by-one of log2 on exact powers
    while Fraction(2) ** e > a:
        e -= 1
    while Fraction(2) ** (e + 1) <= a:
        e += 1
    e = max(e, -126)
    return Fraction(2) ** (e - 23)
