"""Shared helpers for the KNX Data Secure checks (C15-C19): real-code drivers and canonicalisation."""
from __future__ import annotations

import asyncio
import logging

from xknx import XKNX
from xknx.cemi import CEMIFrame, CEMILData, CEMIMessageCode
from xknx.cemi.cemi_handler import CEMIHandler
from xknx.cemi.flags import CEMIAddressType, CEMIFlags, CEMIFrameFormat
from xknx.dpt import DPTArray, DPTBinary
from xknx.exceptions import ConversionError, DataSecureError
from xknx.secure.data_secure import DataSecure
from xknx.secure.data_secure_asdu import (
    SecureData,
    SecurityAlgorithmIdentifier,
    SecurityALService,
    SecurityControlField,
)
from xknx.telegram import GroupAddress, IndividualAddress, Telegram, apci, tpci

logging.getLogger("xknx").setLevel(logging.CRITICAL)
logging.getLogger("xknx.data_secure").setLevel(logging.CRITICAL)
logging.getLogger("xknx.cemi").setLevel(logging.CRITICAL)

SEQ_MAX = 0xFFFFFFFFFFFF
ALG_AUTH = int(SecurityAlgorithmIdentifier.CCM_AUTHENTICATION)
ALG_ENC = int(SecurityAlgorithmIdentifier.CCM_ENCRYPTION)
SERVICES = [int(s) for s in SecurityALService]
FORMATS = [int(f) for f in CEMIFrameFormat]

_LOOP = None


def loop():
    global _LOOP
    if _LOOP is None or _LOOP.is_closed():
        _LOOP = asyncio.new_event_loop()
    return _LOOP


def close_loop():
    global _LOOP
    if _LOOP is not None and not _LOOP.is_closed():
        _LOOP.close()
    _LOOP = None


def hx(b) -> str:
    b = bytes(b)
    return b.hex() if b else "-"


def unhx(s: str) -> bytes:
    return b"" if s == "-" else bytes.fromhex(s)


def exc_class(e: BaseException) -> str:
    """Exception class -> small enum."""
    if isinstance(e, DataSecureError):
        return "dsec"
    if isinstance(e, ConversionError):
        return "conversion"
    if isinstance(e, OverflowError):
        return "overflow"
    if isinstance(e, ValueError):
        return "value"
    return f"other:{type(e).__name__}"


def mk_scf(raw: int) -> SecurityControlField:
    """Build the object directly from the bit fields (only enum members are representable)."""
    return SecurityControlField(
        tool_access=bool(raw & 0x80),
        algorithm=SecurityAlgorithmIdentifier(raw >> 4 & 7),
        system_broadcast=bool(raw & 8),
        service=SecurityALService(raw & 7),
    )


def scf_raw(alg: int, service: int = 0, tool: bool = False, sb: bool = False) -> int:
    return (tool << 7) | (alg << 4) | (sb << 3) | service


def mk_tpci(spec):
    """spec = [class name, sequence number]."""
    cls = getattr(tpci, spec[0])
    return cls(sequence_number=spec[1]) if spec[0] in ("TDataConnected", "TAck", "TNak") else cls()


def addr_fields(src: int, dst: int) -> bytes:
    return src.to_bytes(2, "big") + dst.to_bytes(2, "big")


def real_secure(key, scf, seq, src, dst, group, eff, tp, apdu) -> str:
    """`SecureData.init_from_plain_apdu(...).to_knx()` -> canonical outcome."""
    try:
        sd = SecureData.init_from_plain_apdu(
            key=key, apdu=apdu, scf=mk_scf(scf), sequence_number=seq,
            address_fields_raw=addr_fields(src, dst),
            address_type=CEMIAddressType.GROUP if group else CEMIAddressType.INDIVIDUAL,
            frame_format=CEMIFrameFormat(eff), tpci=mk_tpci(tp))
        return "ok " + hx(sd.to_knx())
    except DataSecureError:
        return "err unknownAlg"
    except OverflowError:
        return "err overflow"
    except ValueError:
        return "err value"


def real_plain(key, scf, src, dst, group, eff, tp, asdu: bytes) -> str:
    """`SecureData.from_knx(asdu).get_plain_apdu(...)` -> canonical outcome."""
    try:
        p = SecureData.from_knx(asdu).get_plain_apdu(
            key=key, scf=mk_scf(scf), address_fields_raw=addr_fields(src, dst),
            address_type=CEMIAddressType.GROUP if group else CEMIAddressType.INDIVIDUAL,
            frame_format=CEMIFrameFormat(eff), tpci=mk_tpci(tp))
        return "ok " + hx(p)
    except DataSecureError:
        return "err mac"  # the only DataSecureError get_plain_apdu raises for the two enum members
    except OverflowError:
        return "err overflow"
    except ValueError:
        return "err value"


class Rec(CEMIHandler):
    """CEMIHandler that records what reaches `telegram_received` (the gate to devices, callbacks, management)."""

    __slots__ = ("seen",)

    def __init__(self, xknx):
        super().__init__(xknx)
        self.seen = []

    def telegram_received(self, telegram):
        self.seen.append(telegram)
        if isinstance(telegram.tpci, tpci.TDataGroup):
            super().telegram_received(telegram)  # into xknx.telegrams


class Iface:
    """Stand-in for KNXIPInterface: records outgoing cEMI and confirms at once."""

    def __init__(self, xknx):
        self.xknx = xknx
        self.sent = []

    async def send_cemi(self, cemi):
        self.sent.append(cemi)
        self.xknx.cemi_handler._l_data_confirmation_event.set()


def mk_xknx(own: int, keys, senders, send_seq):
    """Real XKNX instance with a real DataSecure object (keys=None: no Data Secure at all)."""
    x = XKNX()
    x.current_address = IndividualAddress(own)
    x.cemi_handler = Rec(x)
    x.knxip_interface = Iface(x)
    issues = []
    x.telegram_queue.register_data_secure_group_key_issue_cb(issues.append)
    if keys is not None:
        x.cemi_handler.data_secure = DataSecure(
            group_key_table={GroupAddress(g): bytes(k) for g, k in keys.items()},
            individual_address_table={IndividualAddress(i): s for i, s in senders.items()},
            last_sequence_number_sending=send_seq,
        )
    return x, issues


def table_of(x) -> str:
    ds = x.cemi_handler.data_secure
    if ds is None or not ds._individual_address_table:
        return "-"
    return ",".join(f"{ia.raw}:{s}" for ia, s in sorted(ds._individual_address_table.items(), key=lambda kv: kv[0].raw))


def fmt_keys(keys) -> str:
    if keys is None:
        return "none"
    return ",".join(f"{g}:{bytes(k).hex()}" for g, k in sorted(keys.items())) or "-"


def fmt_table(t) -> str:
    return ",".join(f"{i}:{s}" for i, s in sorted(t.items())) or "-"


def drain(q):
    out = []
    while True:
        try:
            out.append(q.get_nowait())
        except asyncio.QueueEmpty:
            return out


def receive_raw(x, issues, raw: bytes) -> dict:
    """Feed one raw cEMI frame to `handle_raw_cemi`; report where it went."""
    h = x.cemi_handler
    h.seen.clear()
    issues.clear()
    drain(x.telegrams)
    cm = x.connection_manager
    before = (cm.undecoded_data_secure, cm.cemi_count_incoming, cm.cemi_count_incoming_error)
    raised = None
    try:
        h.handle_raw_cemi(raw)
    except Exception as e:  # noqa: BLE001  - escaping is what C18 forbids; reported by the oracle
        raised = exc_class(e)
    return {
        "raised": raised,
        "seen": list(h.seen),
        "queued": drain(x.telegrams),
        "issues": list(issues),
        "undecoded": cm.undecoded_data_secure - before[0],
        "incoming": cm.cemi_count_incoming - before[1],
        "incoming_error": cm.cemi_count_incoming_error - before[2],
        "table": table_of(x),
    }


def route_of(obs: dict) -> str:
    """Canonical route string (same shape as the model's `showRoute` + table)."""
    if obs["raised"]:
        return f"raised {obs['raised']} {obs['table']}"
    if obs["seen"]:
        t = obs["seen"][0]
        body = hx(t.payload.to_knx()) if t.payload is not None else "-"
        return f"telegram {body} {1 if t.data_secure else 0} {obs['table']}"
    if obs["undecoded"]:
        return f"keyissue {1 if obs['issues'] else 0} {obs['table']}"
    return f"dropped {obs['table']}"


def build_ldata(code, ctrl: int, src: int, dst: int, tpdu: bytes) -> bytes:
    """Raw cEMI L_Data frame from its fields (no additional info)."""
    return bytes([code, 0]) + ctrl.to_bytes(2, "big") + src.to_bytes(2, "big") + dst.to_bytes(2, "big") \
        + bytes([len(tpdu) - 1]) + tpdu


def send(x, telegram):
    """Run `CEMIHandler.send_telegram`; returns (cemi frame or None, exception class or None)."""
    x.knxip_interface.sent.clear()
    try:
        loop().run_until_complete(x.cemi_handler.send_telegram(telegram))
    except Exception as e:  # noqa: BLE001
        return None, exc_class(e)
    return x.knxip_interface.sent[0], None


__all__ = [n for n in dir() if not n.startswith("__")]
