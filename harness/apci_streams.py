"""
Input streams shared by C04 and C05 (same input space: byte strings offered to
APCI.from_knx) and the block-wise exhaustive sweep of all 3-octet APDUs.
"""
from __future__ import annotations

import importlib
import multiprocessing
import os
import signal

from harness import apci_lib as L

LENGTHS = list(range(2, 31)) + [40, 60, 100, 200, 254, 255]
POOL = None
PENDING = {}
SWEEP_ORACLE = {}
STATS = {"sweep_blocks": 0, "classes_seen": set(), "valid_frames": 0, "mutants": 0, "structured": 0}


def hx(raw: bytes) -> str:
    return raw.hex() or "-"


def dec(raw: bytes):
    return {"op": f"apci dec {hx(raw)}"}


def setup():
    STATS.update({"sweep_blocks": 0, "classes_seen": set(), "valid_frames": 0, "mutants": 0, "structured": 0})


def teardown():
    global POOL
    if POOL is not None:
        POOL.terminate()
        POOL = None
    PENDING.clear()


def mutants(rng, raw: bytes):
    out = [raw[:-1], raw + bytes([rng.randrange(256)])]
    i = rng.randrange(len(raw) * 8)
    b = bytearray(raw)
    b[i // 8] ^= 1 << (i % 8)
    out.append(bytes(b))
    out.append(bytes([raw[0] | rng.choice([0x04, 0x40, 0x80, 0xFC])]) + raw[1:])
    if len(raw) > 2:
        out.append(raw[: rng.randrange(2, len(raw))])
    return out


def decode_stream(rng, tier, prop):
    # (1) every byte string of length 0..2
    yield dec(b"")
    for a in range(256):
        yield dec(bytes([a]))
    for a in range(256):
        for b in range(256):
            yield dec(bytes([a, b]))
    # (2) every 10 bit code x lengths x fillers
    for code in range(1024):
        head = bytes([code >> 8, code & 0xFF])
        for n in LENGTHS:
            if n == 2:
                continue
            for pat in (0, 1, 2):
                if tier == "quick" and pat == 2 and n > 30:
                    continue
                fill = bytes(n - 2) if pat == 0 else (b"\xff" * (n - 2) if pat == 1 else L.rand_bytes(rng, n - 2))
                STATS["structured"] += 1
                yield dec(head + fill)
    # (3) well-formed frames of every class + mutations (+ the model's reserved-bit mask for C05)
    per_class = 100 if tier == "quick" else 600
    for name in sorted(L.CLASSES):
        for _ in range(per_class):
            raw = L.valid_apdu(rng, name)
            if raw is None:
                break
            STATS["valid_frames"] += 1
            yield dec(raw)
            if prop == "C05":
                yield {"op": f"apci mask {hx(raw)}"}
            # the same frame with every reserved / transport bit set
            m = L.spec_mask(name, raw)
            yield dec(bytes(a | b for a, b in zip(raw, m)))
            for mu in mutants(rng, raw):
                STATS["mutants"] += 1
                yield dec(mu)
                if prop == "C05" and rng.random() < 0.3:
                    yield {"op": f"apci mask {hx(mu)}"}
    # (4) thorough: all 2^24 APDUs of length 3, in blocks of 256, on all cores
    if tier == "thorough":
        global POOL
        POOL = multiprocessing.Pool(min(16, os.cpu_count() or 1))
        ops = [f"apci sweep {a:02x}{b:02x}" for a in range(256) for b in range(256)]
        for op in ops:
            PENDING[op] = POOL.apply_async(sweep_block, (op, prop))
        for op in ops:
            STATS["sweep_blocks"] += 1
            yield {"op": op}


def _alarm(_s, _f):
    raise TimeoutError()


def sweep_block(op, prop):
    """All 256 one-octet extensions of a 2-octet prefix: digest of outcomes + first oracle hit."""
    pre = bytes.fromhex(op.split()[2])
    mod = importlib.import_module(f"harness.cases.{prop}")
    if getattr(mod, "RECOGNISED", None) is None:
        mod.RECOGNISED = L.recognised_codes()
    lines, msg = [], None
    old = signal.signal(signal.SIGALRM, _alarm)
    try:
        for b in range(256):
            raw = pre + bytes([b])
            signal.setitimer(signal.ITIMER_REAL, 5.0)
            try:
                out = L.dec_outcome(raw)
                m = mod.oracle_one(raw, out)
            except TimeoutError:
                out, m = "timeout", f"APCI.from_knx({raw.hex()}) did not return within 5 s"
            finally:
                signal.setitimer(signal.ITIMER_REAL, 0)
            lines.append(out)
            if m and not msg:
                msg = m
    finally:
        signal.signal(signal.SIGALRM, old)
    n_ok = sum(1 for x in lines if x.startswith("ok"))
    n_conv = sum(1 for x in lines if x == "conv")
    return f"{L.adler(chr(10).join(lines))} {n_ok} {n_conv} {256 - n_ok - n_conv}", msg


def run_decode_case(case, prop):
    t = case["op"].split()
    if t[1] == "sweep":
        fut = PENDING.pop(case["op"], None)
        # the per-APDU watchdog lives in sweep_block (5 s each); waiting for a busy pool is not a hang of xknx
        signal.setitimer(signal.ITIMER_REAL, 0)
        out, msg = fut.get(timeout=900) if fut is not None else sweep_block(case["op"], prop)
        if msg:
            SWEEP_ORACLE[case["op"]] = msg
        return out
    raw = bytes.fromhex(t[2].replace("-", ""))
    if t[1] == "mask":
        out = L.dec_outcome(raw)
        if not out.startswith("ok "):
            return "-"
        return "x" + L.spec_mask(L.split_dec(out)[1], raw).hex()
    out = L.dec_outcome(raw)
    if out.startswith("ok "):
        STATS["classes_seen"].add(out.split(" ")[1])
    return out


def shrink_decode(case, msg, oracle_one):
    """Shorten / zero the failing APDU while the oracle keeps failing (sweep block -> single APDU)."""
    from harness.framework import with_timeout

    def fails(raw):
        try:
            return bool(oracle_one(raw, with_timeout(lambda: L.dec_outcome(raw), 5.0)))
        except Exception:  # noqa: BLE001
            return True
    t = case["op"].split()
    if t[1] == "sweep":
        pre = bytes.fromhex(t[2])
        for b in range(256):
            if fails(pre + bytes([b])):
                return {"op": f"apci dec {hx(pre + bytes([b]))}"}
        return case
    if t[1] != "dec":
        return case
    raw = bytes.fromhex(t[2].replace("-", ""))
    changed = True
    while changed:
        changed = False
        if len(raw) > 0 and fails(raw[:-1]):
            raw, changed = raw[:-1], True
            continue
        for i in range(len(raw)):
            if raw[i] and fails(raw[:i] + b"\0" + raw[i + 1:]):
                raw, changed = raw[:i] + b"\0" + raw[i + 1:], True
                break
    return {"op": f"apci dec {hx(raw)}"}


def evidence_extra():
    return {"service_classes_discovered": len(L.CLASSES), "service_classes_decoded": len(STATS["classes_seen"]),
            "classes_never_decoded": sorted(set(L.CLASSES) - STATS["classes_seen"] - L.UNSUPPORTED_BY_DESIGN),
            "wellformed_frames": STATS["valid_frames"], "mutants": STATS["mutants"],
            "structured_per_code": STATS["structured"], "sweep_blocks_of_256": STATS["sweep_blocks"],
            "unmodelled_classes": L.unmodelled_classes()}
