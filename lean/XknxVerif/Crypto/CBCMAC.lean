/-
CBC mode / CBC-MAC over an arbitrary block cipher `E : key → block → block`
with 16-octet blocks.  Core Lean only, executable, generic: nothing here
depends on AES.  Used by KNX Data Secure (C15–C19), KNX IP Secure and the
keyring models.

Two formulations are given and proved equal:
  * `cbcEncrypt` / `cbcLast` – shaped like the `cryptography` package use in
    xknx: encrypt the zero-padded message in CBC mode with a zero IV, keep the
    last 16 octets of the ciphertext (`y_blocks[-16:]`);
  * `cbcMac` – the textbook recurrence `Y₀ = E(B₀ ⊕ 0)`, `Yᵢ = E(Bᵢ ⊕ Yᵢ₋₁)`,
    result `Yₙ`.
-/
import XknxVerif.Py.Bytes

namespace XknxVerif.Crypto

/-- A block cipher in one direction: `E key block`. -/
abbrev BlockFn := Bytes → Bytes → Bytes

/-- Every output is one 16-octet block (true of AES: `AES128.encrypt_length`). -/
def BlockFn.Len16 (E : BlockFn) : Prop := ∀ k b, (E k b).length = 16

/-- Octet-wise XOR; the result has the length of the shorter operand. -/
def xorBytes (a b : Bytes) : Bytes := List.zipWith (· ^^^ ·) a b

def zero16 : Bytes := List.replicate 16 0

/-- Number of 16-octet blocks needed for `n` octets. -/
def nblocks (n : Nat) : Nat := (n + 15) / 16

/-- `xknx.secure.util.byte_pad(data, 16)`: zero-pad to a multiple of 16. -/
def pad16 (d : Bytes) : Bytes :=
  if d.length % 16 = 0 then d else d ++ List.replicate (16 - d.length % 16) 0

/-- Split into consecutive 16-octet blocks (the last one may be short). -/
def blocks16 (d : Bytes) : List Bytes :=
  (List.range (nblocks d.length)).map fun i => (d.drop (16 * i)).take 16

/-- CBC encryption, block list in, ciphertext block list out. -/
def cbcEncrypt (E : BlockFn) (key : Bytes) : Bytes → List Bytes → List Bytes
  | _, [] => []
  | iv, b :: bs =>
    let y := E key (xorBytes b iv)
    y :: cbcEncrypt E key y bs

/-- Python `x[-n:]`. -/
def lastN (n : Nat) (l : Bytes) : Bytes := l.drop (l.length - n)

/-- `(encryptor.update(data) + encryptor.finalize())[-16:]` for CBC with zero IV over already padded data. -/
def cbcLast (E : BlockFn) (key : Bytes) (padded : Bytes) : Bytes :=
  lastN 16 (cbcEncrypt E key zero16 (blocks16 padded)).flatten

/-- Textbook CBC-MAC over a block list. -/
def cbcMac (E : BlockFn) (key : Bytes) (blocks : List Bytes) : Bytes :=
  blocks.foldl (fun y b => E key (xorBytes b y)) zero16

/-! ### Lemmas -/

theorem xorBytes_length (a b : Bytes) : (xorBytes a b).length = min a.length b.length := by
  simp [xorBytes]

/-- XOR with the same pad twice is the identity when the pad is long enough. -/
theorem xorBytes_cancel : ∀ (d ks : Bytes), d.length ≤ ks.length → xorBytes (xorBytes d ks) ks = d
  | [], _, _ => by simp [xorBytes]
  | _ :: _, [], h => by simp at h
  | x :: d, k :: ks, h => by
    have ih := xorBytes_cancel d ks (by simpa using h)
    simp only [xorBytes, List.zipWith_cons_cons] at ih ⊢
    rw [ih, Nat.xor_assoc, Nat.xor_self, Nat.xor_zero]

theorem xorBytes_take (a b : Bytes) (n : Nat) :
    (xorBytes a b).take n = xorBytes (a.take n) (b.take n) := by
  simp [xorBytes, List.take_zipWith]

theorem xorBytes_drop (a b : Bytes) (n : Nat) :
    (xorBytes a b).drop n = xorBytes (a.drop n) (b.drop n) := by
  simp [xorBytes, List.drop_zipWith]

theorem xorBytes_append (a₁ a₂ b₁ b₂ : Bytes) (h : a₁.length = b₁.length) :
    xorBytes (a₁ ++ a₂) (b₁ ++ b₂) = xorBytes a₁ b₁ ++ xorBytes a₂ b₂ := by
  simp [xorBytes, List.zipWith_append h]

theorem pad16_length_mod (d : Bytes) : (pad16 d).length % 16 = 0 := by
  unfold pad16
  split
  · assumption
  · simp; omega

theorem pad16_prefix (d : Bytes) : ∃ z, pad16 d = d ++ z ∧ ∀ x ∈ z, x = 0 := by
  unfold pad16
  split
  · exact ⟨[], by simp, by simp⟩
  · exact ⟨_, rfl, fun x hx => (List.mem_replicate.mp hx).2⟩

theorem cbcEncrypt_length (E : BlockFn) (key : Bytes) :
    ∀ (bs : List Bytes) (iv : Bytes), (cbcEncrypt E key iv bs).length = bs.length
  | [], _ => rfl
  | _ :: bs, _ => by simp [cbcEncrypt, cbcEncrypt_length E key bs]

/-- The last ciphertext block of CBC is the CBC-MAC recurrence value (general IV). -/
theorem cbcEncrypt_getLast (E : BlockFn) (key : Bytes) :
    ∀ (bs : List Bytes) (iv : Bytes) (h : cbcEncrypt E key iv bs ≠ []),
      (cbcEncrypt E key iv bs).getLast h = bs.foldl (fun y b => E key (xorBytes b y)) iv
  | [], _, h => by simp [cbcEncrypt] at h
  | [b], iv, _ => by simp [cbcEncrypt]
  | b :: b' :: bs, iv, _ => by
    have ih := cbcEncrypt_getLast E key (b' :: bs) (E key (xorBytes b iv)) (by simp [cbcEncrypt])
    simp only [cbcEncrypt, List.foldl_cons] at ih ⊢
    rw [List.getLast_cons (by simp)]
    exact ih

theorem lastN_flatten_getLast (l : List Bytes) (h : l ≠ []) (hl : ∀ b ∈ l, b.length = 16) :
    lastN 16 l.flatten = l.getLast h := by
  induction l with
  | nil => contradiction
  | cons a t ih =>
    cases t with
    | nil =>
      have : a.length = 16 := hl a (by simp)
      simp [lastN, this]
    | cons b t' =>
      have hb : ∀ x ∈ b :: t', x.length = 16 := fun x hx => hl x (List.mem_cons_of_mem _ hx)
      have ih' := ih (by simp) hb
      rw [List.getLast_cons (by simp), ← ih']
      have ha : a.length = 16 := hl a (by simp)
      have hge : 16 ≤ (b :: t').flatten.length := by
        have : b.length = 16 := hb b (by simp)
        simp [List.flatten_cons, this]
      simp only [lastN, List.flatten_cons, List.length_append] at hge ⊢
      rw [List.drop_append]
      have h1 : a.length + (b.length + t'.flatten.length) - 16 - a.length = b.length + t'.flatten.length - 16 := by omega
      have h2 : List.drop (a.length + (b.length + t'.flatten.length) - 16) a = [] := by
        apply List.drop_eq_nil_of_le; omega
      rw [h1, h2]; simp

/-- Code-shaped = spec-shaped CBC-MAC, for a non-empty message. -/
theorem cbcLast_eq_cbcMac (E : BlockFn) (hE : E.Len16) (key padded : Bytes) (hne : padded ≠ []) :
    cbcLast E key padded = cbcMac E key (blocks16 padded) := by
  have hb : blocks16 padded ≠ [] := by
    have : 0 < padded.length := List.length_pos_iff.mpr hne
    simp [blocks16, nblocks]; omega
  have hc : cbcEncrypt E key zero16 (blocks16 padded) ≠ [] := by
    intro h
    have := cbcEncrypt_length E key (blocks16 padded) zero16
    rw [h] at this
    exact hb (List.length_eq_zero_iff.mp this.symm)
  have hall : ∀ b ∈ cbcEncrypt E key zero16 (blocks16 padded), b.length = 16 := by
    generalize blocks16 padded = bs
    generalize zero16 = iv
    induction bs generalizing iv with
    | nil => simp [cbcEncrypt]
    | cons b bs ih =>
      intro x hx
      simp only [cbcEncrypt, List.mem_cons] at hx
      rcases hx with rfl | hx
      · exact hE _ _
      · exact ih _ x hx
  unfold cbcLast cbcMac
  rw [lastN_flatten_getLast _ hc hall, cbcEncrypt_getLast]

/-- The CBC-MAC of a non-empty block list is one block. -/
theorem cbcMac_length (E : BlockFn) (hE : E.Len16) (key : Bytes) (b : Bytes) (bs : List Bytes) :
    (cbcMac E key (b :: bs)).length = 16 := by
  unfold cbcMac
  generalize zero16 = iv
  induction bs generalizing b iv with
  | nil => simpa using hE key _
  | cons b' bs ih =>
    rw [List.foldl_cons]
    exact ih b' _

end XknxVerif.Crypto
