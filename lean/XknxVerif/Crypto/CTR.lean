/-
CTR mode over an arbitrary block cipher with 16-octet blocks, as the
`cryptography` package (OpenSSL `CRYPTO_ctr128_encrypt`) implements it: the
whole 16-octet counter block is a big-endian 128-bit integer incremented by one
per block, wrapping modulo 2^128; the key stream is consumed continuously
across `update()` calls.  Core Lean only, executable, generic in the cipher.

Also the "one-octet block index" formulation used by the KNX (and RFC 3610)
specifications, `ctrStreamSpec`, and the proof that both agree for up to 256
blocks when the initial counter block ends in `0x00` (`ctrStream_eq_spec`):
the 128-bit increment then never carries out of the last octet.
-/
import XknxVerif.Crypto.CBCMAC

namespace XknxVerif.Crypto

/-- Little-endian increment with carry, wrapping to all-zero. -/
def incLE : Bytes → Bytes
  | [] => []
  | x :: xs => if x + 1 < 256 then (x + 1) :: xs else 0 :: incLE xs

/-- Big-endian increment of the whole counter block (mod 2^(8·length)). -/
def inc128 (c : Bytes) : Bytes := (incLE c.reverse).reverse

/-- `n` blocks of key stream starting at counter block `ctr`. -/
def ctrStream (E : BlockFn) (key : Bytes) : Nat → Bytes → Bytes
  | 0, _ => []
  | n + 1, ctr => E key ctr ++ ctrStream E key n (inc128 ctr)

/-- CTR en/decryption of `data` starting at the beginning of counter block `ctr`. -/
def ctrXor (E : BlockFn) (key ctr data : Bytes) : Bytes :=
  xorBytes data (ctrStream E key (nblocks data.length) ctr)

/-- `encryptor.update(first); encryptor.update(second)` on one CTR context: the key
stream continues, so this is one `ctrXor` over the concatenation, split again.
Returns `(second', first')` like xknx's `encrypt_data_ctr` / `decrypt_ctr`
(`first` = MAC, `second` = payload). -/
def ctrXor2 (E : BlockFn) (key ctr first second : Bytes) : Bytes × Bytes :=
  let out := ctrXor E key ctr (first ++ second)
  (out.drop first.length, out.take first.length)

/-- Specification-style counter block `i`: the initial block with its last octet replaced by `i`. -/
def ctrBlock (ctr0 : Bytes) (i : Nat) : Bytes := ctr0.dropLast ++ [i]

/-- Specification-style key stream `S₀ ‖ S₁ ‖ … ‖ Sₙ₋₁`, `Sᵢ = E(K, Ctrᵢ)`. -/
def ctrStreamSpec (E : BlockFn) (key : Bytes) (n : Nat) (ctr0 : Bytes) : Bytes :=
  (List.range n).flatMap fun i => E key (ctrBlock ctr0 i)

/-! ### Lemmas -/

theorem incLE_length : ∀ c : Bytes, (incLE c).length = c.length
  | [] => rfl
  | x :: xs => by
    unfold incLE
    split <;> simp [incLE_length xs]

theorem inc128_length (c : Bytes) : (inc128 c).length = c.length := by
  simp [inc128, incLE_length]

/-- No carry out of the last octet while it stays below 255. -/
theorem inc128_last (pre : Bytes) (x : Nat) (h : x + 1 < 256) :
    inc128 (pre ++ [x]) = pre ++ [x + 1] := by
  simp [inc128, incLE, h]

/-- Carry: `…, 0xFF` ↦ `inc(…), 0x00`. -/
theorem inc128_carry (pre : Bytes) (x : Nat) (h : ¬ x + 1 < 256) :
    inc128 (pre ++ [x]) = inc128 pre ++ [0] := by
  simp [inc128, incLE, h]

theorem ctrStream_length (E : BlockFn) (hE : E.Len16) (key : Bytes) :
    ∀ (n : Nat) (ctr : Bytes), (ctrStream E key n ctr).length = 16 * n
  | 0, _ => rfl
  | n + 1, ctr => by
    simp only [ctrStream, List.length_append, hE key ctr, ctrStream_length E hE key n]
    omega

theorem nblocks_ge (n : Nat) : n ≤ 16 * nblocks n := by
  unfold nblocks; omega

theorem ctrXor_length (E : BlockFn) (hE : E.Len16) (key ctr data : Bytes) :
    (ctrXor E key ctr data).length = data.length := by
  have := nblocks_ge data.length
  simp only [ctrXor, xorBytes_length, ctrStream_length E hE]
  omega

/-- CTR is an involution: decrypting the ciphertext with the same key and
counter returns the plaintext.  Holds for every function `E` with 16-octet
outputs; no cryptographic assumption. -/
theorem ctrXor_involutive (E : BlockFn) (hE : E.Len16) (key ctr data : Bytes) :
    ctrXor E key ctr (ctrXor E key ctr data) = data := by
  have hl := ctrXor_length E hE key ctr data
  unfold ctrXor at hl ⊢
  rw [hl]
  apply xorBytes_cancel
  rw [ctrStream_length E hE]
  exact nblocks_ge _

/-- Two-part streaming use (MAC then payload) round-trips. -/
theorem ctrXor2_roundtrip (E : BlockFn) (hE : E.Len16) (key ctr first second : Bytes) :
    let r := ctrXor2 E key ctr first second
    ctrXor2 E key ctr r.2 r.1 = (second, first) := by
  have hl := ctrXor_length E hE key ctr (first ++ second)
  have hlen : ((ctrXor E key ctr (first ++ second)).take first.length).length = first.length := by
    simp [hl]
  simp only [ctrXor2, hlen, List.take_append_drop, ctrXor_involutive E hE]
  simp

theorem List.flatMap_congr' {α β} {l : List α} {f g : α → List β} (h : ∀ a ∈ l, f a = g a) :
    l.flatMap f = l.flatMap g := by
  induction l with
  | nil => rfl
  | cons a t ih =>
    simp only [List.flatMap_cons]
    rw [h a (by simp), ih (fun x hx => h x (List.mem_cons_of_mem _ hx))]

theorem ctrStream_eq_range (E : BlockFn) (key pre : Bytes) :
    ∀ (n j : Nat), j + n ≤ 256 →
      ctrStream E key n (pre ++ [j]) = (List.range n).flatMap fun i => E key (pre ++ [j + i])
  | 0, _, _ => rfl
  | 0 + 1, j, _ => by simp [ctrStream]
  | (n + 1) + 1, j, h => by
    have ih := ctrStream_eq_range E key pre (n + 1) (j + 1) (by omega)
    rw [ctrStream, inc128_last pre j (by omega), ih, List.range_succ_eq_map (n := n + 1),
      List.flatMap_cons, List.flatMap_map]
    simp only [Nat.add_zero]
    congr 1
    apply List.flatMap_congr'
    intro i _
    have : j + 1 + i = j + (i + 1) := by omega
    simp [this]

/-- **CTR key lemma.**  For an initial counter block ending in `0x00` and at
most 256 blocks, the `cryptography`/OpenSSL 128-bit counter produces exactly the
specification's counter blocks (last octet = block index). -/
theorem ctrStream_eq_spec (E : BlockFn) (key pre : Bytes) (n : Nat) (hn : n ≤ 256) :
    ctrStream E key n (pre ++ [0]) = ctrStreamSpec E key n (pre ++ [0]) := by
  rw [ctrStream_eq_range E key pre n 0 (by omega)]
  simp [ctrStreamSpec, ctrBlock]

/-- The 257th block differs: the carry reaches the next octet (so the bound 256 is sharp). -/
example : inc128 ([7, 0xFF]) = [8, 0] := by decide
example : inc128 (List.replicate 16 0xFF) = List.replicate 16 0 := by decide

end XknxVerif.Crypto
