/-
AES-128 block encryption (FIPS-197 §5.1 Cipher, §5.2 KeyExpansion), executable,
core Lean only (links into the driver executable; kernel-evaluable).

Octet strings are `Bytes = List Nat` (see `Py/Bytes.lean`).  The 16-octet state
is kept in FIPS-197 input order, i.e. column-major: index `4*c + r` holds
`s[r,c]`.  All operations are total: for a 16-octet key and block no default
value is ever read; for other lengths the result is still a 16-octet list
(`encrypt_length`), which is what the generic mode-of-operation theorems need.

Validation:
  * `sbox_spec`  – the literal S-box equals the FIPS-197 §5.1.1 definition
    (multiplicative inverse in GF(2^8) followed by the affine map), all 256
    entries, by kernel evaluation;
  * FIPS-197 Appendix B and C.1 vectors, the Appendix A.1 key schedule end and
    two further vectors by `decide +kernel` (end of file);
  * at run time against the `cryptography` package on random keys/blocks
    (`harness/cases/C19.py`, op `aes enc`).

Only encryption is provided: CBC-MAC and CTR (all KNX Secure needs) use the
forward cipher only.
-/
import XknxVerif.Py.Bytes

namespace XknxVerif.Crypto.AES128

/-- FIPS-197 Figure 7, one row per high nibble.  A list of lists (not an `Array`): a
lookup is two short structural walks, which the kernel evaluates quickly. -/
def sbox : List (List Nat) := [
  [0x63, 0x7c, 0x77, 0x7b, 0xf2, 0x6b, 0x6f, 0xc5, 0x30, 0x01, 0x67, 0x2b, 0xfe, 0xd7, 0xab, 0x76],
  [0xca, 0x82, 0xc9, 0x7d, 0xfa, 0x59, 0x47, 0xf0, 0xad, 0xd4, 0xa2, 0xaf, 0x9c, 0xa4, 0x72, 0xc0],
  [0xb7, 0xfd, 0x93, 0x26, 0x36, 0x3f, 0xf7, 0xcc, 0x34, 0xa5, 0xe5, 0xf1, 0x71, 0xd8, 0x31, 0x15],
  [0x04, 0xc7, 0x23, 0xc3, 0x18, 0x96, 0x05, 0x9a, 0x07, 0x12, 0x80, 0xe2, 0xeb, 0x27, 0xb2, 0x75],
  [0x09, 0x83, 0x2c, 0x1a, 0x1b, 0x6e, 0x5a, 0xa0, 0x52, 0x3b, 0xd6, 0xb3, 0x29, 0xe3, 0x2f, 0x84],
  [0x53, 0xd1, 0x00, 0xed, 0x20, 0xfc, 0xb1, 0x5b, 0x6a, 0xcb, 0xbe, 0x39, 0x4a, 0x4c, 0x58, 0xcf],
  [0xd0, 0xef, 0xaa, 0xfb, 0x43, 0x4d, 0x33, 0x85, 0x45, 0xf9, 0x02, 0x7f, 0x50, 0x3c, 0x9f, 0xa8],
  [0x51, 0xa3, 0x40, 0x8f, 0x92, 0x9d, 0x38, 0xf5, 0xbc, 0xb6, 0xda, 0x21, 0x10, 0xff, 0xf3, 0xd2],
  [0xcd, 0x0c, 0x13, 0xec, 0x5f, 0x97, 0x44, 0x17, 0xc4, 0xa7, 0x7e, 0x3d, 0x64, 0x5d, 0x19, 0x73],
  [0x60, 0x81, 0x4f, 0xdc, 0x22, 0x2a, 0x90, 0x88, 0x46, 0xee, 0xb8, 0x14, 0xde, 0x5e, 0x0b, 0xdb],
  [0xe0, 0x32, 0x3a, 0x0a, 0x49, 0x06, 0x24, 0x5c, 0xc2, 0xd3, 0xac, 0x62, 0x91, 0x95, 0xe4, 0x79],
  [0xe7, 0xc8, 0x37, 0x6d, 0x8d, 0xd5, 0x4e, 0xa9, 0x6c, 0x56, 0xf4, 0xea, 0x65, 0x7a, 0xae, 0x08],
  [0xba, 0x78, 0x25, 0x2e, 0x1c, 0xa6, 0xb4, 0xc6, 0xe8, 0xdd, 0x74, 0x1f, 0x4b, 0xbd, 0x8b, 0x8a],
  [0x70, 0x3e, 0xb5, 0x66, 0x48, 0x03, 0xf6, 0x0e, 0x61, 0x35, 0x57, 0xb9, 0x86, 0xc1, 0x1d, 0x9e],
  [0xe1, 0xf8, 0x98, 0x11, 0x69, 0xd9, 0x8e, 0x94, 0x9b, 0x1e, 0x87, 0xe9, 0xce, 0x55, 0x28, 0xdf],
  [0x8c, 0xa1, 0x89, 0x0d, 0xbf, 0xe6, 0x42, 0x68, 0x41, 0x99, 0x2d, 0x0f, 0xb0, 0x54, 0xbb, 0x16]]

/-- SubBytes on one octet (octets ≥ 256 are reduced first; never happens for well-formed input). -/
def sub (x : Nat) : Nat := (sbox.getD ((x % 256) / 16) []).getD (x % 16) 0

/-- Multiplication by `x` in GF(2^8) modulo `x^8+x^4+x^3+x+1` (FIPS-197 §4.2.1). -/
def xtime (a : Nat) : Nat :=
  let b := (a % 256) <<< 1
  if b ≥ 256 then b ^^^ 0x11b else b

/-- `s[i]` of a state / round key. -/
def ix (s : Bytes) (i : Nat) : Nat := s.getD i 0

def subBytes (s : Bytes) : Bytes := s.map sub

/-- ShiftRows: row `r` is rotated left by `r`; `out[4c+r] = in[4((c+r) mod 4)+r]`. -/
def shiftRows (s : Bytes) : Bytes :=
  (List.range 16).map fun i => ix s ((i + 4 * (i % 4)) % 16)

/-- MixColumns on one column (FIPS-197 §5.1.3). -/
def mixCol (a0 a1 a2 a3 : Nat) : Bytes :=
  [ xtime a0 ^^^ (xtime a1 ^^^ a1) ^^^ a2 ^^^ a3,
    a0 ^^^ xtime a1 ^^^ (xtime a2 ^^^ a2) ^^^ a3,
    a0 ^^^ a1 ^^^ xtime a2 ^^^ (xtime a3 ^^^ a3),
    (xtime a0 ^^^ a0) ^^^ a1 ^^^ a2 ^^^ xtime a3 ]

def mixColumns (s : Bytes) : Bytes :=
  [0, 1, 2, 3].flatMap fun c => mixCol (ix s (4*c)) (ix s (4*c+1)) (ix s (4*c+2)) (ix s (4*c+3))

def addRoundKey (s k : Bytes) : Bytes :=
  (List.range 16).map fun i => ix s i ^^^ ix k i

/-- Identity on a 16-octet state (pack into four 32-bit numbers, unpack again).  Inserted
after every round: kernel evaluation (`decide +kernel`) is call-by-name, and without it
the state octets become ever deeper unevaluated terms; packing forces the whole round
once into four numerals.  No effect on the value (`renorm_id` for the sizes used is
checked below by kernel evaluation on the test vectors, and at run time against OpenSSL). -/
def renorm (s : Bytes) : Bytes :=
  let r4 (x : Bytes) : Bytes := Bytes.ofNatBE 4 (Bytes.toNatBE x)   -- 32-bit words: scalar arithmetic when compiled
  r4 (s.take 4) ++ r4 ((s.drop 4).take 4) ++ r4 ((s.drop 8).take 4) ++ r4 ((s.drop 12).take 4)

/-- Round constants `Rcon[1..10]` (first octet). -/
def rcon : List Nat := [0x01, 0x02, 0x04, 0x08, 0x10, 0x20, 0x40, 0x80, 0x1b, 0x36]

/-- One step of KeyExpansion: round key `i` ↦ round key `i+1`. -/
def nextKey (k : Bytes) (rc : Nat) : Bytes :=
  let g := ix k
  let a0 := g 0 ^^^ sub (g 13) ^^^ rc
  let a1 := g 1 ^^^ sub (g 14)
  let a2 := g 2 ^^^ sub (g 15)
  let a3 := g 3 ^^^ sub (g 12)
  let b0 := g 4 ^^^ a0
  let b1 := g 5 ^^^ a1
  let b2 := g 6 ^^^ a2
  let b3 := g 7 ^^^ a3
  let c0 := g 8 ^^^ b0
  let c1 := g 9 ^^^ b1
  let c2 := g 10 ^^^ b2
  let c3 := g 11 ^^^ b3
  renorm [a0, a1, a2, a3, b0, b1, b2, b3, c0, c1, c2, c3,
   g 12 ^^^ c0, g 13 ^^^ c1, g 14 ^^^ c2, g 15 ^^^ c3]

/-- The 11 round keys. -/
def expandKey (key : Bytes) : List Bytes :=
  (rcon.foldl (fun (acc : List Bytes × Bytes) rc =>
      let k' := nextKey acc.2 rc
      (acc.1 ++ [k'], k')) ([key], key)).1

/-- Cipher with an already expanded key (lets callers expand once per message). -/
def encryptWith (rks : List Bytes) (blk : Bytes) : Bytes :=
  let s := renorm (addRoundKey blk (rks.getD 0 []))
  let s := (List.range 9).foldl
    (fun s r => renorm (addRoundKey (mixColumns (shiftRows (subBytes s))) (rks.getD (r + 1) []))) s
  renorm (addRoundKey (shiftRows (subBytes s)) (rks.getD 10 []))

/-- `AES-128_key(blk)`. -/
def encrypt (key blk : Bytes) : Bytes := encryptWith (expandKey key) blk

theorem addRoundKey_length (s k : Bytes) : (addRoundKey s k).length = 16 := by
  simp [addRoundKey]

theorem renorm_length (s : Bytes) : (renorm s).length = 16 := by
  simp [renorm, Bytes.ofNatBE_length]

theorem encryptWith_length (rks : List Bytes) (blk : Bytes) : (encryptWith rks blk).length = 16 := by
  simp [encryptWith, renorm_length]

/-- The cipher always returns one block (any key, any input). -/
theorem encrypt_length (key blk : Bytes) : (encrypt key blk).length = 16 :=
  encryptWith_length _ _

theorem ix_xor_lt (a b : Nat) (ha : a < 256) (hb : b < 256) : a ^^^ b < 256 :=
  Nat.xor_lt_two_pow (n := 8) ha hb

/-! ### S-box against its definition -/

/-- GF(2^8) multiplication (shift-and-add, 8 steps). -/
def gmul (a b : Nat) : Nat :=
  (List.range 8).foldl (fun (acc : Nat × Nat) i =>
    (if (b >>> i) &&& 1 = 1 then acc.1 ^^^ acc.2 else acc.1, xtime acc.2)) (0, a) |>.1

/-- `a^254` = multiplicative inverse (0 ↦ 0). -/
def ginv (a : Nat) : Nat :=
  let a2 := gmul a a
  let a4 := gmul a2 a2
  let a8 := gmul a4 a4
  let a16 := gmul a8 a8
  let a32 := gmul a16 a16
  let a64 := gmul a32 a32
  let a128 := gmul a64 a64
  gmul a128 (gmul a64 (gmul a32 (gmul a16 (gmul a8 (gmul a4 a2)))))

def rotl8 (x n : Nat) : Nat := ((x <<< n) ||| (x >>> (8 - n))) % 256

/-- FIPS-197 §5.1.1: `b ⊕ rotl(b,1) ⊕ rotl(b,2) ⊕ rotl(b,3) ⊕ rotl(b,4) ⊕ 0x63` with `b = a⁻¹`. -/
def sboxDef (a : Nat) : Nat :=
  let b := ginv a
  b ^^^ rotl8 b 1 ^^^ rotl8 b 2 ^^^ rotl8 b 3 ^^^ rotl8 b 4 ^^^ 0x63

theorem sbox_spec : ∀ a : Fin 256, sub a.val = sboxDef a.val := by decide +kernel

theorem sub_lt : ∀ a : Fin 256, sub a.val < 256 := by decide +kernel

/-! ### Known-answer tests (kernel evaluation) -/

/-- FIPS-197 Appendix C.1. -/
example : encrypt
    [0x00,0x01,0x02,0x03,0x04,0x05,0x06,0x07,0x08,0x09,0x0a,0x0b,0x0c,0x0d,0x0e,0x0f]
    [0x00,0x11,0x22,0x33,0x44,0x55,0x66,0x77,0x88,0x99,0xaa,0xbb,0xcc,0xdd,0xee,0xff]
  = [0x69,0xc4,0xe0,0xd8,0x6a,0x7b,0x04,0x30,0xd8,0xcd,0xb7,0x80,0x70,0xb4,0xc5,0x5a] := by
  decide +kernel

/-- FIPS-197 Appendix B. -/
example : encrypt
    [0x2b,0x7e,0x15,0x16,0x28,0xae,0xd2,0xa6,0xab,0xf7,0x15,0x88,0x09,0xcf,0x4f,0x3c]
    [0x32,0x43,0xf6,0xa8,0x88,0x5a,0x30,0x8d,0x31,0x31,0x98,0xa2,0xe0,0x37,0x07,0x34]
  = [0x39,0x25,0x84,0x1d,0x02,0xdc,0x09,0xfb,0xdc,0x11,0x85,0x97,0x19,0x6a,0x0b,0x32] := by
  decide +kernel

/-- FIPS-197 Appendix A.1: last round key `w[40..43]` of the example key. -/
example : (expandKey
    [0x2b,0x7e,0x15,0x16,0x28,0xae,0xd2,0xa6,0xab,0xf7,0x15,0x88,0x09,0xcf,0x4f,0x3c]).getD 10 []
  = [0xd0,0x14,0xf9,0xa8,0xc9,0xee,0x25,0x89,0xe1,0x3f,0x0c,0xc8,0xb6,0x63,0x0c,0xa6] := by
  decide +kernel

/-- NIST SP 800-38A F.1.1 ECB-AES128 block #1. -/
example : encrypt
    [0x2b,0x7e,0x15,0x16,0x28,0xae,0xd2,0xa6,0xab,0xf7,0x15,0x88,0x09,0xcf,0x4f,0x3c]
    [0x6b,0xc1,0xbe,0xe2,0x2e,0x40,0x9f,0x96,0xe9,0x3d,0x7e,0x11,0x73,0x93,0x17,0x2a]
  = [0x3a,0xd7,0x7b,0xb4,0x0d,0x7a,0x36,0x60,0xa8,0x9e,0xca,0xf3,0x24,0x66,0xef,0x97] := by
  decide +kernel

/-- All-zero key and block (AESAVS GFSbox/KeySbox base case). -/
example : encrypt (List.replicate 16 0) (List.replicate 16 0)
  = [0x66,0xe9,0x4b,0xd4,0xef,0x8a,0x2c,0x3b,0x88,0x4c,0xfa,0x59,0xca,0x34,0x2b,0x2e] := by
  decide +kernel

end XknxVerif.Crypto.AES128
