/-
Generic machinery for mode-R monitors (DESIGN §1.1a): a monitor is a partial step
function `step? : σ → ε → Option σ` over the observable alphabet; a trace is accepted
from `s` when `run? step? s tr` is `some _`.  Invariant lifting for accepted traces and
"until" lemmas (a predicate that every step outside a set of events preserves holds
after any accepted suffix that avoids those events).  Core Lean only.
-/
namespace XknxVerif.Monitor

/-- Replay a trace through the monitor; `none` = rejected at some observation. -/
def run? {σ ε : Type} (step? : σ → ε → Option σ) : σ → List ε → Option σ
  | s, [] => some s
  | s, e :: es =>
    match step? s e with
    | none => none
    | some s' => run? step? s' es

/-- Index of the first rejected observation (for diagnostics), or the final state. -/
def runIdx {σ ε : Type} (step? : σ → ε → Option σ) : σ → List ε → Nat → Except Nat σ
  | s, [], _ => .ok s
  | s, e :: es, k =>
    match step? s e with
    | none => .error k
    | some s' => runIdx step? s' es (k + 1)

variable {σ ε : Type} (step? : σ → ε → Option σ)

@[simp] theorem run?_nil (s : σ) : run? step? s [] = some s := rfl

theorem run?_cons (s : σ) (e : ε) (es : List ε) :
    run? step? s (e :: es) = (step? s e).bind (fun s' => run? step? s' es) := by
  simp only [run?]
  cases step? s e <;> rfl

theorem run?_append (s : σ) (a b : List ε) :
    run? step? s (a ++ b) = (run? step? s a).bind (fun s' => run? step? s' b) := by
  induction a generalizing s with
  | nil => simp
  | cons e es ih =>
    simp only [List.cons_append, run?_cons]
    cases step? s e with
    | none => rfl
    | some s' => simpa using ih s'

/-- Splitting an accepted trace: the prefix is accepted and the suffix is accepted from there. -/
theorem run?_append_some {s s'' : σ} {a b : List ε} (h : run? step? s (a ++ b) = some s'') :
    ∃ s', run? step? s a = some s' ∧ run? step? s' b = some s'' := by
  rw [run?_append] at h
  cases h1 : run? step? s a with
  | none => simp [h1] at h
  | some s' => exact ⟨s', rfl, by simpa [h1] using h⟩

theorem run?_singleton (s : σ) (e : ε) : run? step? s [e] = step? s e := by
  simp only [run?]
  cases step? s e <;> rfl

/-- Invariant lifting: `Inv` preserved by every accepted step ⇒ holds after every accepted trace. -/
theorem inv_run? (Inv : σ → Prop)
    (hstep : ∀ s e s', Inv s → step? s e = some s' → Inv s') :
    ∀ (es : List ε) (s s' : σ), Inv s → run? step? s es = some s' → Inv s' := by
  intro es
  induction es with
  | nil => intro s s' h hr; simp at hr; exact hr ▸ h
  | cons e es ih =>
    intro s s' h hr
    rw [run?_cons] at hr
    cases he : step? s e with
    | none => simp [he] at hr
    | some s1 =>
      simp only [he, Option.bind_some] at hr
      exact ih s1 s' (hstep s e s1 h he) hr

/-- "Until": `P` is preserved by every accepted step whose event satisfies `ok`; then it holds
after any accepted trace all of whose events satisfy `ok`. -/
theorem until_run? (P : σ → Prop) (ok : ε → Prop)
    (hstep : ∀ s e s', P s → ok e → step? s e = some s' → P s') :
    ∀ (es : List ε) (s s' : σ), P s → (∀ e ∈ es, ok e) → run? step? s es = some s' → P s' := by
  intro es
  induction es with
  | nil => intro s s' h _ hr; simp at hr; exact hr ▸ h
  | cons e es ih =>
    intro s s' h hok hr
    rw [run?_cons] at hr
    cases he : step? s e with
    | none => simp [he] at hr
    | some s1 =>
      simp only [he, Option.bind_some] at hr
      exact ih s1 s' (hstep s e s1 h (hok e (by simp)) he)
        (fun e' he' => hok e' (by simp [he'])) hr

/-- "Until", with an invariant available at every step (both are carried along). -/
theorem until_inv_run? (Inv P : σ → Prop) (ok : ε → Prop)
    (hinv : ∀ s e s', Inv s → step? s e = some s' → Inv s')
    (hstep : ∀ s e s', Inv s → P s → ok e → step? s e = some s' → P s') :
    ∀ (es : List ε) (s s' : σ), Inv s → P s → (∀ e ∈ es, ok e) → run? step? s es = some s' →
      P s' := by
  intro es s s' hi hp hok hr
  have := until_run? step? (fun s => Inv s ∧ P s) ok
    (fun s e s' h hoke hs => ⟨hinv s e s' h.1 hs, hstep s e s' h.1 h.2 hoke hs⟩) es s s' ⟨hi, hp⟩ hok hr
  exact this.2

/-- Every state along an accepted trace satisfies an invariant-carried predicate: version with
prefixes. If `run? s (a ++ b) = some _` then the state after `a` satisfies `Inv`. -/
theorem inv_prefix (Inv : σ → Prop)
    (hstep : ∀ s e s', Inv s → step? s e = some s' → Inv s')
    {s s'' : σ} {a b : List ε} (h0 : Inv s) (h : run? step? s (a ++ b) = some s'') :
    ∃ s', run? step? s a = some s' ∧ Inv s' ∧ run? step? s' b = some s'' := by
  obtain ⟨s', h1, h2⟩ := run?_append_some step? h
  exact ⟨s', h1, inv_run? step? Inv hstep a s s' h0 h1, h2⟩

end XknxVerif.Monitor
