/-
C03  Transport-layer control octets decode only to PDUs that re-encode to them.
Property theorems only. The domain is finite (256 octets × 3 destination
kinds; 9 PDU shapes × 16 sequence numbers) and is covered completely by
kernel evaluation, then lifted to the quantified statements.
-/
import XknxVerif.Model.TPCI

namespace XknxVerif.Props.C03
open XknxVerif.TPCI

/-- Executable form of "decodes ⇒ re-encodes to the same transport bits,
is constructible, and belongs to the destination kind". -/
def okAt (o : Nat) (g z : Bool) : Bool :=
  match resolve o g z with
  | .ok t => (encode t &&& mask t == o &&& mask t) && decide (Constructible t) && kindOk t g z
  | .error _ => true

theorem okAt_all : ∀ o : Fin 256, ∀ g z : Bool, okAt o.val g z = true := by
  decide +kernel

/-- (a) Every octet, for every destination kind, is rejected or decodes to a
PDU whose encoding reproduces the octet's transport bits. -/
theorem resolve_reencodes (o : Nat) (ho : o < 256) (g z : Bool) (t : T)
    (h : resolve o g z = .ok t) :
    encode t &&& mask t = o &&& mask t := by
  have := okAt_all ⟨o, ho⟩ g z
  simp only [okAt, h, Bool.and_eq_true, beq_iff_eq] at this
  exact this.1.1

/-- (a') … and the decoded PDU is one the library itself builds for that
destination kind (so "undefined codes are never read as another PDU"). -/
theorem resolve_constructible (o : Nat) (ho : o < 256) (g z : Bool) (t : T)
    (h : resolve o g z = .ok t) : Constructible t ∧ kindOk t g z = true := by
  have := okAt_all ⟨o, ho⟩ g z
  simp only [okAt, h, Bool.and_eq_true, decide_eq_true_eq] at this
  exact ⟨this.1.2, this.2⟩

/-- The nine PDU shapes with a 4-bit sequence number. -/
def shape (k : Fin 9) (s : Fin 16) : T :=
  match k with
  | 0 => .dataGroup | 1 => .dataBroadcast | 2 => .dataTagGroup | 3 => .dataIndividual
  | 4 => .dataConnected s | 5 => .connect | 6 => .disconnect | 7 => .ack s | 8 => .nak s

theorem shape_surj (t : T) (h : Constructible t) : ∃ k s, shape k s = t := by
  cases t with
  | dataGroup => exact ⟨0, 0, rfl⟩
  | dataBroadcast => exact ⟨1, 0, rfl⟩
  | dataTagGroup => exact ⟨2, 0, rfl⟩
  | dataIndividual => exact ⟨3, 0, rfl⟩
  | dataConnected s => exact ⟨4, ⟨s, h⟩, rfl⟩
  | connect => exact ⟨5, 0, rfl⟩
  | disconnect => exact ⟨6, 0, rfl⟩
  | ack s => exact ⟨7, ⟨s, h⟩, rfl⟩
  | nak s => exact ⟨8, ⟨s, h⟩, rfl⟩

theorem roundtrip_shapes : ∀ k : Fin 9, ∀ s : Fin 16, ∀ g z : Bool,
    kindOk (shape k s) g z = true →
      encode (shape k s) < 256 ∧ resolve (encode (shape k s)) g z = .ok (shape k s) := by
  decide +kernel

/-- (b) Every transport PDU the library builds encodes to an octet that
decodes back to the same PDU for its destination kind. -/
theorem encode_resolves (t : T) (hc : Constructible t) (g z : Bool)
    (hk : kindOk t g z = true) :
    encode t < 256 ∧ resolve (encode t) g z = .ok t := by
  obtain ⟨k, s, rfl⟩ := shape_surj t hc
  exact roundtrip_shapes k s g z hk

/-- Non-vacuity: the hypotheses are met by concrete octets / PDUs. -/
example : resolve 0xC6 false false = .ok (.ack 1) := by decide
example : Constructible (.nak 15) ∧ kindOk (.nak 15) false false = true := by decide
/-- The pre-fix reading of `0x82` as `TAck(0)` is excluded. -/
example : resolve 0x82 false false = .error .conversion := by decide

end XknxVerif.Props.C03
