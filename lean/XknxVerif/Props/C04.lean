/-
C04  Application-layer decoding is total with declared errors only.

`decodeAPDU` (model of `APCI.from_knx`) is a total Lean function into
`Except {conv, unsupported} Service`, so termination and "no other exception"
hold for the model by construction.  The content proved here is the error
*classification*, the determinism of the dispatcher over all 1024 APCI codes,
and the tie of the layout table to the codes the Python module declares.
That CPython raises nothing else is established by the correspondence run
(exhaustive for lengths 0..2, and 0..3 in the thorough tier), not by proof.
-/
import XknxVerif.Lemmas.APCITableWF

namespace XknxVerif.Props.C04
open XknxVerif.APCI

/-- (a) An APDU is reported as *unsupported* only if its APCI belongs to no row
of the table or to one of the rows the library deliberately does not implement
(`RouterStatus*`): a frame that is malformed for a recognised, implemented
service is never reported as unsupported. -/
theorem unsupported_only_unrecognised (raw : Bytes) (h : decodeAPDU raw = .error .unsupported) :
    2 ≤ raw.length ∧
    ∀ i row, findRow (codeOfBits (Bits.ofBytes raw)) = some i → table[i]? = some row →
      row.supported = false := by
  unfold decodeAPDU at h
  split at h
  · cases h
  · rename_i hlen
    refine ⟨by omega, fun i row hf hr => ?_⟩
    simp only [hf, hr] at h
    split at h
    · rename_i hs; simpa using hs
    · split at h
      · cases h
      · split at h <;> cases h

/-- (a') Conversely: for an implemented service every failure is a conversion error. -/
theorem recognised_fails_as_conv (raw : Bytes) (i : Nat) (row : Row) (e : Err)
    (hf : findRow (codeOfBits (Bits.ofBytes raw)) = some i) (hr : table[i]? = some row)
    (hs : row.supported = true) (h : decodeAPDU raw = .error e) : e = .conv := by
  cases e with
  | conv => rfl
  | unsupported =>
    have := (unsupported_only_unrecognised raw h).2 i row hf hr
    rw [hs] at this; cases this

/-- (b) Fewer than two octets are always malformed. -/
theorem too_short_is_conv (raw : Bytes) (h : raw.length < 2) : decodeAPDU raw = .error .conv := by
  unfold decodeAPDU; rw [if_pos h]

/-- (b') A decoded object comes from the row the dispatcher selected for the
APCI, that row is implemented, and the APDU length satisfies the row's length rule. -/
theorem ok_is_dispatched (raw : Bytes) (s : Service) (h : decodeAPDU raw = .ok s) :
    ∃ row v, findRow (codeOfBits (Bits.ofBytes raw)) = some s.row ∧ table[s.row]? = some row ∧
      row.supported = true ∧ row.variants[s.variant]? = some v ∧ v.len.ok raw.length = true := by
  obtain ⟨row, v, _, hf, hr, hs, hv, hok, _⟩ := decodeAPDU_ok h
  exact ⟨row, v, hf, hr, hs, hv, hok⟩

def exactMatches (code : Nat) : Nat := (table.filter (fun r => !r.short && r.matches code)).length
def groupMatches (code : Nat) : Nat := (table.filter (fun r => r.short && r.matches code)).length

/-- Executable form of (c) for one code. -/
def dispOk (code : Nat) : Bool :=
  decide (exactMatches code ≤ 1) && decide (groupMatches code ≤ 1) &&
  (match findRow code with
   | some i => (table[i]?.map (·.matches code)) == some true &&
               (exactMatches code != 1 || (table[i]?.map (·.short)) == some false)
   | none => exactMatches code == 0 && groupMatches code == 0)

/-- (c) Dispatcher determinism: for each of the 1024 APCI codes at most one
10 bit row and at most one 4 bit row match, and `findRow` returns a matching
row - the 10 bit one if there is one - or nothing if no row matches. -/
theorem dispatcher_deterministic : ∀ code : Fin 1024, dispOk code.val = true := by
  decide +kernel

/-- (c), unfolded: rows are pairwise disjoint under their masks. -/
theorem at_most_one_row (code : Nat) (h : code < 1024) :
    exactMatches code ≤ 1 ∧ groupMatches code ≤ 1 := by
  have := dispatcher_deterministic ⟨code, h⟩
  simp only [dispOk, Bool.and_eq_true, decide_eq_true_eq] at this
  exact ⟨this.1.1, this.1.2⟩

/-- (c), unfolded: no row matches a code the dispatcher rejects. -/
theorem unsupported_means_no_row (code : Nat) (h : code < 1024) (hn : findRow code = none) :
    exactMatches code = 0 ∧ groupMatches code = 0 := by
  have := dispatcher_deterministic ⟨code, h⟩
  simp only [dispOk, hn, Bool.and_eq_true, beq_iff_eq] at this
  exact this.2

/-- The 10 bit code read from the bit string is below 1024, so (c) covers every APDU. -/
theorem code_lt (bits : Bits) : codeOfBits bits < 1024 := by
  unfold codeOfBits
  have h := Bits.toNat_lt ((bits.drop 6).take 10)
  have hl : ((bits.drop 6).take 10).length ≤ 10 := by simp; omega
  calc _ < 2 ^ ((bits.drop 6).take 10).length := h
    _ ≤ 2 ^ 10 := Nat.pow_le_pow_right (by omega) hl

/-- (d) The table and the Python module agree on the set of service classes and
on the APCI code of each: every concrete `APCI` subclass found by introspection
has exactly one row with its `CODE`, and there is no other row. -/
theorem table_codes_generated :
    (table.map (fun r => (r.name, r.code))).all
        (fun p => (Generated.APCI.classCodes.map (fun c => (c.1, c.2.2))).contains p) = true ∧
    (Generated.APCI.classCodes.map (fun c => (c.1, c.2.2))).all
        (fun p => (table.map (fun r => (r.name, r.code))).contains p) = true ∧
    table.length = Generated.APCI.classCodes.length := by
  decide +kernel

/-- (d') 4 bit services are exactly the codes with an empty low 6 bit field, and
the payload bit mask the module declares (`DPTBinary.APCI_BITMASK`) is those 6 bits. -/
theorem short_rows_codes :
    table.all (fun r => !r.short || (r.code &&& Generated.APCI.apciBitmask == 0)) = true ∧
    Generated.APCI.apciBitmask = 2 ^ 6 - 1 ∧
    table.all (fun r => decide (r.code < 1024)) = true := by
  decide +kernel

/-- The layout table is well formed (used by C05/C06). -/
theorem table_wellformed : TableWF := table_wf

/-! Non-vacuity -/
example : decodeAPDU [0x03, 0xD5, 1, 2, 0x10, 0x0A] = .ok ⟨44, 0, [.int 1, .int 2, .int 1, .int 10]⟩ := by
  decide +kernel
example : decodeAPDU [0x03, 0xD5, 1, 2] = .error .conv := by decide +kernel
example : decodeAPDU [0x03, 0xCD] = .error .unsupported := by decide +kernel
example : decodeAPDU [0x02, 0xC3, 0, 0] = .error .unsupported := by decide +kernel
example : findRow 0x2C3 = none := by decide +kernel

end XknxVerif.Props.C04
