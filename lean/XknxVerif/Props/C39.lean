/-
C39  Device commands loop back to the state they requested.  (theorems follow)
-/
import XknxVerif.Model.DeviceLoop

namespace XknxVerif.Props.C39
open XknxVerif.DeviceLoop

/-- every switch command loops back to the commanded state, inverted or not -/
theorem switch_loop (invert value : Bool) :
    switchFromKnx invert (switchToKnx invert value) = some value := by
  cases invert <;> cases value <;> decide

end XknxVerif.Props.C39
