/-
C39  Device commands loop back to the state they requested.

Theorems about `Model/DeviceLoop.lean` (setter ↦ payload ↦ process(outgoing) ↦ reported state), after the fix
`RemoteValueSetpointShift rounds to the nearest step instead of truncating`.

* 1-bit families (switch / up-down / step / binary operation mode): every input, every invert flag — exact.
* RemoteValueScaling: for EVERY range of at most 255 units (either direction) every integer inside the range loops
  back to itself; every range a device class configures (generated table) is such a range.  For arbitrary rational
  requests the raw sent is a nearest raw and the value read back is the nearest integer to what that raw stands for.
* set-point shift DPT 6.010: the count sent is a nearest count for every rational request and step; exact multiples
  of the step loop back exactly; `int()` (the pinned code) does not (witness on the binary64 values of 0.3 and 0.1).
* Climate limits + target temperature through the base temperature; Fan percent / step mode, turn_on / turn_off.

FULL STATEMENT (not proved): the same for Python's binary64 evaluation of `(v - rf) / delta * 255`, `(raw / 255) * delta`,
`value / step`, `target - base`, `count * step` on every float input.  The theorems below are over exact rationals
(named `_partial` where the input is an arbitrary rational standing for a float); binary64 rounding is the gap.  It is
closed by enumeration for the integer requests of every device range (all of them are run against the real code on
every check) and sampled elsewhere; the oracle evaluates the property on the real outputs with `Fraction`s.
-/
import XknxVerif.Lemmas.DeviceLoop

namespace XknxVerif.Props.C39
open XknxVerif.DeviceLoop XknxVerif.Generated.DeviceLoop

set_option linter.unusedSimpArgs false
set_option linter.unusedVariables false

/-! ### 1-bit values: all inputs, all invert flags -/

/-- Switch (also Climate on/off, swing, Fan switch / oscillation, Light switches): the commanded state is reported. -/
theorem switch_loop (invert value : Bool) :
    switchFromKnx invert (switchToKnx invert value) = some value ∧ switchToKnx invert value ≤ 1 := by
  cases invert <;> cases value <;> decide

/-- Cover up/down: the commanded direction is reported, inverted or not; not inverted, UP is 0 on the wire as declared. -/
theorem updown_loop (invert up : Bool) :
    upDownFromKnx invert (upDownToKnx invert up) = some up ∧ upDownToKnx invert up ≤ 1 := by
  cases invert <;> cases up <;> decide

theorem updown_wire_as_declared :
    upDown = [("UP", upDownToKnx false true), ("DOWN", upDownToKnx false false)] ∧
    stepDir = [("DECREASE", stepToKnx false false), ("INCREASE", stepToKnx false true)] := by decide

theorem step_loop (invert inc : Bool) :
    stepFromKnx invert (stepToKnx invert inc) = some inc ∧ stepToKnx invert inc ≤ 1 := by
  cases invert <;> cases inc <;> decide

/-- binary operation-mode objects: the own mode is reported as itself, any other mode as "no information"
(the device keeps the mode it set internally) — never as a wrong mode. -/
theorem binmode_loop (own requested : Nat) :
    binModeFromKnx own (binModeToKnx own requested) = some (if requested = own then some own else none) := by
  unfold binModeToKnx
  by_cases h : requested = own <;> simp [h, binModeFromKnx]

/-! ### RemoteValueScaling -/

/-- EVERY range of at most 255 units, either direction: every integer of the range is accepted, goes out as an octet
and is reported back unchanged. -/
theorem scaling_loop_exact (rf rt v : Int) (hne : rt ≠ rf) (hD : (rt - rf).natAbs ≤ 255)
    (hlo : min rf rt ≤ v) (hhi : v ≤ max rf rt) :
    ∃ raw, scaleLoop rf rt v 1 = some (raw, v) ∧ 0 ≤ raw ∧ raw ≤ 255 := by
  rcases Int.lt_or_gt_of_ne hne with h | h
  · exact scaleLoop_exact_down rf rt v (by omega) (by omega) (by omega) (by omega)
  · exact scaleLoop_exact_up rf rt v (by omega) (by omega) (by omega) (by omega)

example : scaleLoop 100 0 30 1 = some (178, 30) := by decide
example : scaleLoop 0 100 50 1 = some (128, 50) := by decide

/-- every range a device class configures (generated from the constructed devices) is non-empty and at most 255 units -/
theorem device_ranges_small :
    ∀ row ∈ scalingRanges, row.2.2.2 ≠ row.2.2.1 ∧ (row.2.2.2 - row.2.2.1).natAbs ≤ 255 := by decide

/-- hence: cover position / angle (inverted or not), brightness, tunable white, colour channels, fan and climate fan
speed — every integer in the configured range loops back to itself. -/
theorem device_scaling_loop_exact :
    ∀ row ∈ scalingRanges, ∀ v : Int, min row.2.2.1 row.2.2.2 ≤ v → v ≤ max row.2.2.1 row.2.2.2 →
      ∃ raw, scaleLoop row.2.2.1 row.2.2.2 v 1 = some (raw, v) ∧ 0 ≤ raw ∧ raw ≤ 255 := by
  intro row hrow v hlo hhi
  obtain ⟨h1, h2⟩ := device_ranges_small row hrow
  exact scaling_loop_exact _ _ v h1 h2 hlo hhi

/-- arbitrary rational request (stands for a float): an accepted request goes out as an octet that is a NEAREST raw —
no raw, inside 0..255 or not, is closer to the exact position `(v - rf) / (rt - rf) * 255`. -/
theorem scaling_nearest_raw_partial (rf rt num : Int) (den : Nat) (raw : Int)
    (h : scaleToKnx rf rt num den = some raw) :
    0 ≤ raw ∧ raw ≤ 255 ∧
    ∀ r' : Int, |(scalePos rf rt num den).1 - ((scalePos rf rt num den).2 : Int) * raw|
              ≤ |(scalePos rf rt num den).1 - ((scalePos rf rt num den).2 : Int) * r'| := by
  unfold scaleToKnx at h
  by_cases hz : rt - rf = 0 ∨ den = 0
  · simp [hz] at h
  · simp only [hz, if_false] at h
    by_cases ho : 0 ≤ rhe (scalePos rf rt num den).1 (scalePos rf rt num den).2 ∧ rhe (scalePos rf rt num den).1 (scalePos rf rt num den).2 ≤ 255
    · simp only [ho, and_self, if_true, Option.some.injEq] at h
      subst h
      refine ⟨ho.1, ho.2, fun r' => ?_⟩
      apply rhe_nearest
      have : 0 < (rt - rf).natAbs := by omega
      have : 0 < den := by omega
      show 0 < den * (rt - rf).natAbs
      exact Nat.mul_pos ‹0 < den› ‹0 < (rt - rf).natAbs›
    · simp [ho] at h

/-- refusal happens exactly when the range is empty or the nearest raw is not an octet (nothing else is refused) -/
theorem scaling_refuses_iff (rf rt num : Int) (den : Nat) (hden : den ≠ 0) :
    scaleToKnx rf rt num den = none ↔
      rt = rf ∨ ¬ (0 ≤ rhe (scalePos rf rt num den).1 (scalePos rf rt num den).2 ∧ rhe (scalePos rf rt num den).1 (scalePos rf rt num den).2 ≤ 255) := by
  unfold scaleToKnx
  by_cases hz : rt - rf = 0
  · have : rt = rf := by omega
    simp [hz, this]
  · have hne : ¬ rt = rf := by omega
    have hz' : ¬ (rt - rf = 0 ∨ den = 0) := by omega
    simp only [hz', if_false, hne, false_or]
    by_cases ho : 0 ≤ rhe (scalePos rf rt num den).1 (scalePos rf rt num den).2 ∧ rhe (scalePos rf rt num den).1 (scalePos rf rt num den).2 ≤ 255
    · simp [ho]
    · simp [ho]

/-- every raw is read back as the nearest integer to the value it stands for, `rf + raw·(rt - rf)/255` -/
theorem scaling_report_nearest (rf rt raw : Int) :
    -255 ≤ 2 * (raw * (rt - rf) - 255 * (scaleFromKnx rf rt raw - rf)) ∧
    2 * (raw * (rt - rf) - 255 * (scaleFromKnx rf rt raw - rf)) ≤ 255 := by
  obtain ⟨h1, h2⟩ := rhe_spec (raw * (rt - rf)) 255 (by decide)
  unfold scaleFromKnx
  push_cast at h1 h2
  constructor <;> omega

/-! ### set-point shift DPT 6.010 (count × step) -/

/-- arbitrary rational request and step: the count sent is inside DPT 6.010 and is a NEAREST count —
no integer multiple of the step is closer to the request. -/
theorem shift_nearest_partial (s v : Int × Nat) (k : Int) (h : shiftToKnx s v = some k) :
    countMin ≤ k ∧ k ≤ countMax ∧
    ∀ k' : Int, |v.1 * s.2 - ((v.2 * s.1.toNat : Nat) : Int) * k| ≤ |v.1 * s.2 - ((v.2 * s.1.toNat : Nat) : Int) * k'| := by
  unfold shiftToKnx at h
  by_cases hz : s.1 ≤ 0 ∨ s.2 = 0 ∨ v.2 = 0
  · simp [hz] at h
  · simp only [hz, if_false] at h
    by_cases ho : countMin ≤ shiftCount s v ∧ shiftCount s v ≤ countMax
    · simp only [ho, and_self, if_true, Option.some.injEq] at h
      subst h
      refine ⟨ho.1, ho.2, fun k' => ?_⟩
      unfold shiftCount
      apply rhe_nearest
      have h1 : 0 < v.2 := by omega
      have h2 : 0 < s.1.toNat := by omega
      exact Nat.mul_pos h1 h2
    · simp [ho] at h

/-- a request that IS `j` steps (as rationals) with `j` inside DPT 6.010 is sent as exactly `j` and therefore
reported as `j · step` — the statement the pinned `int(value / step)` violated in binary64. -/
theorem shift_exact_multiple (s v : Int × Nat) (j : Int) (hs1 : 0 < s.1) (hs2 : s.2 ≠ 0) (hv2 : v.2 ≠ 0)
    (hmul : v.1 * s.2 = j * s.1 * v.2) (hj0 : countMin ≤ j) (hj1 : j ≤ countMax) :
    shiftToKnx s v = some j ∧ shiftFromKnx s j = (j * s.1, s.2) := by
  have hcount : shiftCount s v = j := by
    unfold shiftCount
    have hc : ((v.2 * s.1.toNat : Nat) : Int) = v.2 * s.1 := by
      push_cast
      rw [Int.toNat_of_nonneg (by omega)]
    have hd : 0 < v.2 * s.1.toNat := Nat.mul_pos (by omega) (by omega)
    have := rhe_mul (v.2 * s.1.toNat) hd j
    rw [hc] at this
    have e : v.1 * s.2 = v.2 * s.1 * j := by rw [hmul]; ring
    rw [e]; exact this
  unfold shiftToKnx
  have hz : ¬ (s.1 ≤ 0 ∨ s.2 = 0 ∨ v.2 = 0) := by omega
  simp [hz, hcount, hj0, hj1, shiftFromKnx]

example : shiftToKnx (1, 10) (3, 10) = some 3 := by decide
example : shiftToKnx (1, 10) (-29, 5) = some (-58) := by decide

/-- refusal happens exactly when the nearest count is outside DPT 6.010 (for a positive step) -/
theorem shift_refuses_iff (s v : Int × Nat) (hs1 : 0 < s.1) (hs2 : s.2 ≠ 0) (hv2 : v.2 ≠ 0) :
    shiftToKnx s v = none ↔ ¬ (countMin ≤ shiftCount s v ∧ shiftCount s v ≤ countMax) := by
  unfold shiftToKnx
  have hz : ¬ (s.1 ≤ 0 ∨ s.2 = 0 ∨ v.2 = 0) := by omega
  simp only [hz, if_false]
  by_cases ho : countMin ≤ shiftCount s v ∧ shiftCount s v ≤ countMax <;> simp [ho]

/-- NEGATION WITNESS for the pinned code: on the exact values of the binary64 numbers 0.3 and 0.1
(5404319552844595/2^54 and 3602879701896397/2^55; their quotient is 2.99999999999999988…) `int()` sends 2 steps,
`round()` sends 3. -/
theorem pinned_truncation_witness :
    shiftToKnxPinned (3602879701896397, 2 ^ 55) (5404319552844595, 2 ^ 54) = some 2 ∧
    shiftToKnx (3602879701896397, 2 ^ 55) (5404319552844595, 2 ^ 54) = some 3 := by decide

/-! ### Climate: limits, target temperature through the base temperature -/

/-- `validate_value`: the limited value lies within the limits and is the request itself when that lies within -/
theorem clamp_within (v lo hi : Int × Nat) (hlohi : lo.1 * hi.2 ≤ hi.1 * lo.2) :
    lo.1 * (clampQ v lo hi).2 ≤ (clampQ v lo hi).1 * lo.2 ∧ (clampQ v lo hi).1 * hi.2 ≤ hi.1 * (clampQ v lo hi).2 ∧
    (lo.1 * v.2 ≤ v.1 * lo.2 → v.1 * hi.2 ≤ hi.1 * v.2 → clampQ v lo hi = v) := by
  unfold clampQ
  by_cases h1 : v.1 * lo.2 < lo.1 * v.2
  · simp only [h1, if_true]
    refine ⟨by omega, by omega, fun a _ => by omega⟩
  · by_cases h2 : v.1 * hi.2 > hi.1 * v.2
    · simp only [h1, h2, if_false, if_true]
      refine ⟨by omega, by omega, fun _ b => by omega⟩
    · simp only [h1, h2, if_false]
      refine ⟨by omega, by omega, fun _ _ => trivial⟩

/-- `set_target_temperature(base + j·step)` with a known base temperature, `j·step` within the shift limits and
`j` inside DPT 6.010: exactly `j` steps are sent, so the device reports the shift `j·step` — the requested target. -/
theorem climate_target_exact (s lo hi base t : Int × Nat) (j : Int)
    (hs1 : 0 < s.1) (hs2 : s.2 ≠ 0) (hb : base.2 ≠ 0) (ht : t.2 ≠ 0)
    (hmul : (subQ t base).1 * s.2 = j * s.1 * (subQ t base).2)
    (hlo : lo.1 * (subQ t base).2 ≤ (subQ t base).1 * lo.2) (hhi : (subQ t base).1 * hi.2 ≤ hi.1 * (subQ t base).2)
    (hlohi : lo.1 * hi.2 ≤ hi.1 * lo.2) (hj0 : countMin ≤ j) (hj1 : j ≤ countMax) :
    climateTarget s lo hi base t = some j := by
  unfold climateTarget climateShift
  rw [(clamp_within (subQ t base) lo hi hlohi).2.2 hlo hhi]
  have hv2 : (subQ t base).2 ≠ 0 := by
    unfold subQ; exact Nat.mul_ne_zero ht hb
  exact (shift_exact_multiple s (subQ t base) j hs1 hs2 hv2 hmul hj0 hj1).1

/-- base 6.0, request 5.7, default step and limits: three steps down (the pinned code sent two) -/
example : climateTarget defaultStep defaultShiftMin defaultShiftMax (6, 1) (57, 10) = some (-3) := by decide

/-- whatever is requested, what `set_setpoint_shift` sends is a nearest count for the LIMITED request -/
theorem climate_shift_nearest_partial (s lo hi v : Int × Nat) (k : Int) (h : climateShift s lo hi v = some k) :
    countMin ≤ k ∧ k ≤ countMax ∧
    ∀ k' : Int, |(clampQ v lo hi).1 * s.2 - (((clampQ v lo hi).2 * s.1.toNat : Nat) : Int) * k|
              ≤ |(clampQ v lo hi).1 * s.2 - (((clampQ v lo hi).2 * s.1.toNat : Nat) : Int) * k'| :=
  shift_nearest_partial s (clampQ v lo hi) k h

/-! ### Fan -/

/-- step mode: every step 0..255 is sent and reported unchanged -/
theorem fan_step_exact (maxStep : Nat) (hm : maxStep ≠ 0) (v : Int) (h0 : ucountMin ≤ v) (h1 : v ≤ ucountMax) :
    fanSpeed maxStep v 1 = some v := by
  unfold fanSpeed ucountLoop trunc
  simp [hm, h0, h1]

/-- percent mode: every integer percentage is reported unchanged -/
theorem fan_percent_exact (v : Int) (h0 : 0 ≤ v) (h1 : v ≤ 100) :
    ∃ raw, fanSpeed 0 v 1 = some raw ∧ scaleFromKnx 0 100 raw = v := by
  obtain ⟨raw, hl, _, _⟩ := scaling_loop_exact 0 100 v (by decide) (by decide) (by omega) (by omega)
  refine ⟨raw, ?_⟩
  unfold scaleLoop at hl
  unfold fanSpeed
  simp only [if_true]
  cases hto : scaleToKnx 0 100 v 1 with
  | none => simp [hto] at hl
  | some r =>
    simp only [hto, Option.map_some, Option.some.injEq, Prod.mk.injEq] at hl
    obtain ⟨e1, e2⟩ := hl
    subst e1
    exact ⟨rfl, e2⟩

/-- `turn_on()` without switch address and without argument: percent mode sends the declared default, which reads
back as itself; step mode sends `ceil(max_step / 2)`, a step between 1 and max_step; `turn_off()` sends 0. -/
theorem fan_turn_on_off_defaults :
    (fanCmd 0 false (.turnOn none) = some [.speed 128] ∧ scaleFromKnx 0 100 128 = fanTurnOnSpeed) ∧
    (∀ ms : Fin 256, ms.val ≠ 0 →
        fanCmd ms.val false (.turnOn none) = some [.speed (((ms.val + 1) / 2 : Nat) : Int)] ∧
        1 ≤ (ms.val + 1) / 2 ∧ (ms.val + 1) / 2 ≤ ms.val) ∧
    (∀ ms : Fin 256, fanCmd ms.val false .turnOff = some [.speed 0]) ∧
    (∀ ms : Fin 256, fanCmd ms.val true .turnOff = some [.sw 0] ∧ fanCmd ms.val true (.turnOn none) = some [.sw 1]) := by
  decide +kernel

end XknxVerif.Props.C39
