/-
C13 instantiated: the application-layer codec of the cEMI model is the APCI model of C04–C06.
The codec laws C13 assumes are *theorems* here (from C05 `reencode` and C06
`encode_refuses_or_roundtrips`), so the round-trip / re-serialisation statements hold
unconditionally for the modelled APCI codec.
-/
import XknxVerif.Props.C13
import XknxVerif.Props.C05
import XknxVerif.Props.C06
import XknxVerif.Model.CEMIFull

namespace XknxVerif.Props.C13
open XknxVerif XknxVerif.CEMI XknxVerif.APCI

/-- the codec the driver runs (`Model/CEMIFull.lean`) -/
abbrev apciCodec : Codec Service := CEMIFull.apciCodec

theorem apci_decode_ok {b : Bytes} {s : Service} (h : apciCodec.decode b = .ok s) : decodeAPDU b = .ok s := by
  simp only [apciCodec, CEMIFull.apciCodec] at h
  split at h
  · injection h with h; subst h; assumption
  · cases h
  · cases h

/-- the six transport bits of an octet are clear ⇒ the octet is < 4 -/
theorem head_lt_four : ∀ b : Fin 256, (Bits.ofNat 8 b.val).take 6 = List.replicate 6 false → b.val < 4 := by
  decide +kernel

/-- facts about everything `to_knx` emits -/
theorem encode_facts (s : Service) (bs : Bytes) (h : encodeAPDU s = some bs) :
    decodeAPDU bs = .ok s ∧ bs.length = (calcLength s).getD 0 + 1 ∧ bs.headD 0 < 4 := by
  have hd : decodeAPDU bs = .ok s := by
    rcases C06.encode_refuses_or_roundtrips s with hn | ⟨raw, he, hdec⟩
    · rw [hn] at h; cases h
    · rw [he] at h; injection h with h; subst h; exact hdec
  obtain ⟨hbits, _, _, hcalc⟩ := C05.reencode bs bs s hd h
  obtain ⟨_, _, h2, _⟩ := APCI.decodeAPDU_ok hd
  refine ⟨hd, by rw [hcalc]; simp; omega, ?_⟩
  -- first six bits are reserved (masked) hence zero in the emitted octets
  have hm := C05.mask_transport_bits bs s hd
  have hml := C05.mask_length bs s hd
  obtain ⟨b0, rest, rfl⟩ : ∃ b0 rest, bs = b0 :: rest := by
    cases bs with
    | nil => simp at h2
    | cons b r => exact ⟨b, r, rfl⟩
  have hwf : b0 < 256 := by
    unfold encodeAPDU at h
    split at h
    · cases h
    · split at h
      · cases h
      · split at h
        · cases h
        · split at h
          · cases h
          · split at h
            · cases h
            · rename_i raw hraw
              split at h
              · injection h with h; subst h
                exact (Bits.toBytes?_some _ _ hraw).2.1 b0 (by simp)
              · cases h
  simp only [List.headD_cons]
  apply head_lt_four ⟨b0, hwf⟩
  -- take 6 of the bits of the first octet
  have h6 : (Bits.ofBytes (b0 :: rest)).take 6 = (Bits.ofNat 8 b0).take 6 := by
    have hl : (Bits.ofNat 8 b0).length = 8 := by simp [Bits.ofNat_length]
    simp only [Bits.ofBytes, List.flatMap_cons]
    rw [List.take_append_of_le_length (by omega)]
  have hc : (clear (maskBits s (b0 :: rest)) (Bits.ofBytes (b0 :: rest))).take 6 = List.replicate 6 false := by
    unfold clear
    rw [List.take_zipWith, hm]
    have hl : ((Bits.ofBytes (b0 :: rest)).take 6).length = 6 := by
      rw [List.length_take, Bits.ofBytes_length]; simp only [List.length_cons]; omega
    generalize (Bits.ofBytes (b0 :: rest)).take 6 = t at hl
    match t, hl with
    | [a, b, c, d, e, f], _ => simp [List.replicate]
  rw [← h6, hbits]
  exact hc

/-- C06 ⇒ the laws `ldata_roundtrip` / `frame_roundtrip` assume. -/
theorem apciCodec_laws : CodecLaws apciCodec where
  enc_dec := by
    intro a bs h
    have := (encode_facts a bs h).1
    simp [apciCodec, CEMIFull.apciCodec, this]
  enc_len := fun a bs h => (encode_facts a bs h).2.1
  enc_head := fun a bs h => (encode_facts a bs h).2.2

/-- C05 ⇒ the laws `ldata_reserialise` assumes. -/
theorem apciCodec_declaws : DecLaws apciCodec where
  dec_enc := by
    intro apdu a bs hd he
    have hd' := apci_decode_ok hd
    obtain ⟨_, hlen, _, _⟩ := C05.reencode apdu bs a hd' he
    obtain ⟨_, hl, hh⟩ := encode_facts a bs he
    exact ⟨hlen, by simp only [apciCodec, CEMIFull.apciCodec]; omega, hh⟩

/-- Every well-formed link frame carrying a modelled APCI service round-trips (no hypothesis on the codec left). -/
theorem apci_frame_roundtrip (code : Nat) (info : Bytes) (d : LData Service)
    (hcode : isLDataCode code = true) (h : WFL apciCodec d) :
    ∃ raw, Frame.toKnx apciCodec ⟨code, info, .ldata d⟩ = .ok raw ∧
      Frame.fromKnx apciCodec raw
        = .ok ⟨code, info, .ldata { d with flags := { d.flags with frameType := derivedFT (npdu apciCodec d) } }⟩ :=
  frame_roundtrip apciCodec apciCodec_laws code info d hcode h

/-- Re-serialising any received frame whose service re-encodes (C05's antecedent). -/
theorem apci_reserialise (raw : Bytes) (hwf : Bytes.WF raw) (d : LData Service)
    (h : LData.fromKnx apciCodec raw = .ok d) (hn : raw.getD 6 0 ≤ 254)
    (henc : ∀ a, d.payload = some a → ∃ bs, encodeAPDU a = some bs) :
    ∃ raw', LData.toKnx apciCodec d = .ok raw' ∧ raw'.length = raw.length ∧
      raw'.getD 0 0 % 64 = raw.getD 0 0 % 64 ∧ (raw'.drop 1).take 6 = (raw.drop 1).take 6 := by
  obtain ⟨raw', h1, h2, h3, h4, _⟩ := ldata_reserialise apciCodec apciCodec_declaws raw hwf d h hn henc
  exact ⟨raw', h1, h2, h3, h4⟩

/-! Non-vacuity: a GroupValueWrite frame through the real APCI model. -/
example : (Frame.fromKnx apciCodec [0x29, 0, 0xBC, 0xE0, 0x11, 0x01, 0x09, 0x01, 1, 0, 0x81]).toOption.isSome = true := by
  decide +kernel

end XknxVerif.Props.C13
