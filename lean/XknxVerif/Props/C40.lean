/-
C40  Cover position estimates stay within bounds and never fail.

Exact model (integer clock ticks, rational travel times, integer positions,
`int()` = truncation toward zero) of TravelCalculator after the two fixes.
All theorems quantify over every configuration with positive denominators
(`Cfg.WF`; numerators — the travel times — are arbitrary, zero and negative
included), every state and every clock reading not before the last time stamp,
and the history theorem over every operation list with non-decreasing readings.
-/
import XknxVerif.Lemmas.Travel

namespace XknxVerif.Props.C40
open XknxVerif.Travel XknxVerif.Automata XknxVerif.Generated.Travel

set_option linter.unusedSimpArgs false
set_option linter.unusedVariables false

/-! ### Querying never raises (no division by zero), in ANY state at ANY reading -/

/-- `_calculate_position()` never raises: whatever the state, the configuration (zero / negative
travel times included) and the clock reading (even one before the time stamp). -/
theorem estimate_never_raises (cfg : Cfg) (s : St) (now : Int) : ∃ p, estimate cfg s now = .ok p := by
  cases hl : s.last with
  | none => exact ⟨_, estimate_unknown cfg s now (Or.inl hl)⟩
  | some l =>
    cases hg : s.target with
    | none => exact ⟨_, estimate_unknown cfg s now (Or.inr hg)⟩
    | some g => exact ⟨_, estimate_known cfg s now l g hl hg⟩

/-- `current_position()` never raises. -/
theorem current_never_raises (cfg : Cfg) (s : St) (now : Int) : ∃ p, current cfg s now = .ok p := by
  unfold current
  by_cases h : s.confirmed
  · exact ⟨s.last, by simp [h]⟩
  · simpa [h] using estimate_never_raises cfg s now

/-- The estimate is unknown exactly when no position is known. -/
theorem current_none_iff (cfg : Cfg) (s : St) (now : Int) :
    current cfg s now = .ok none ↔ s.last = none := by
  unfold current
  by_cases h : s.confirmed
  · simp only [h, if_true]
    constructor
    · intro hh; injection hh
    · intro hh; rw [hh]
  · simp only [h]
    cases hl : s.last with
    | none => simp [estimate_unknown cfg s now (Or.inl hl), hl]
    | some l =>
      cases hg : s.target with
      | none => simp [estimate_unknown cfg s now (Or.inr hg), hl]
      | some g => simp [estimate_known cfg s now l g hl hg]

/-- No operation raises (the inner `stop()` of `start_travel` always finds a position to compare with). -/
theorem applyOp_never_raises (cfg : Cfg) (s : St) (now : Int) (op : Op) : ∃ s', applyOp cfg s now op = .ok s' := by
  have hstart : ∀ g, ∃ s', startTravel cfg s now g = .ok s' := by
    intro g
    unfold startTravel
    cases hl : s.last with
    | none => exact ⟨_, rfl⟩
    | some l =>
      obtain ⟨sp, hsp⟩ := current_never_raises cfg s now
      simp only [hsp]
      unfold startTravelAt
      simp only [hl]
      cases sp with
      | none => simp [stopAt, hl]
      | some p => simp [stopAt]
  cases op with
  | setPosition p => exact ⟨_, rfl⟩
  | updatePosition p => exact ⟨_, rfl⟩
  | stop =>
    obtain ⟨sp, hsp⟩ := current_never_raises cfg s now
    exact ⟨stopAt s sp, by simp [applyOp, stop, hsp]⟩
  | startTravel g => exact hstart g
  | startUp => exact hstart _
  | startDown => exact hstart _
  | query => exact ⟨_, rfl⟩

/-- Negation witness for the pinned tree (before `fix: … ZeroDivisionError …`): `stop()` and a query at the
same clock reading divide 0 by 0.  State: position 40 reported and travel to 60 started at reading 7, stopped at 7. -/
theorem pinned_zero_division_witness :
    estimatePinned ⟨⟨25, 1⟩, ⟨50, 1⟩⟩ { last := some 40, ts := 7, confirmed := false, target := some 40, dir := .stopped } 7 7
      = .error .zeroDivision := by decide

/-! ### Bounds -/

/-- `_calculate_position()` lies between the last known position and the target, at every reading
not before the time stamp. -/
theorem estimate_bounds {cfg : Cfg} (hc : cfg.WF) (s : St) (now l g p : Int)
    (hl : s.last = some l) (hg : s.target = some g) (hts : s.ts ≤ now)
    (h : estimate cfg s now = .ok (some p)) : min l g ≤ p ∧ p ≤ max l g := by
  rw [estimate_known cfg s now l g hl hg] at h
  injection h with h; injection h with h
  subst h
  split
  · constructor <;> omega
  · rename_i hn
    simp only [not_or, Int.not_le] at hn
    obtain ⟨_, hD, hel⟩ := hn
    unfold elapsed at hel
    simp only [Int.not_le] at hel
    have hden := remOf_den_pos hc l g
    have he0 : 0 ≤ (now - s.ts) * (remOf cfg l g).den := Int.mul_nonneg (by omega) (Int.le_of_lt hden)
    by_cases hrel : 0 ≤ g - l
    · have hb := tdiv_bounds (N := interpNum cfg s l g now) (a := l) (b := g) hD
        (by unfold interpNum; nlinarith) (by unfold interpNum; nlinarith)
      constructor <;> omega
    · have hb := tdiv_bounds (N := interpNum cfg s l g now) (a := g) (b := l) hD
        (by unfold interpNum; nlinarith) (by unfold interpNum; nlinarith)
      constructor <;> omega

/-- `current_position()` is unknown, or the last known position when there is no target, or an integer
between the last known position and the target. -/
theorem current_bounds {cfg : Cfg} (hc : cfg.WF) (s : St) (now : Int) (hts : s.last ≠ none → s.ts ≤ now) :
    match current cfg s now with
    | .error _ => False
    | .ok none => s.last = none
    | .ok (some p) => ∃ l, s.last = some l ∧
        (match s.target with | none => p = l | some g => min l g ≤ p ∧ p ≤ max l g) := by
  unfold current
  by_cases hconf : s.confirmed
  · simp only [hconf, if_true]
    cases hl : s.last with
    | none => simp
    | some l =>
      refine ⟨l, rfl, ?_⟩
      cases hg : s.target with
      | none => rfl
      | some g => constructor <;> omega
  · simp only [hconf]
    cases hl : s.last with
    | none => simp [estimate_unknown cfg s now (Or.inl hl), hl]
    | some l =>
      cases hg : s.target with
      | none => simp [estimate_unknown cfg s now (Or.inr hg), hl]
      | some g =>
        have hk := estimate_known cfg s now l g hl hg
        rw [hk]
        refine ⟨l, rfl, ?_⟩
        exact estimate_bounds hc s now l g _ hl hg (hts (by simp [hl])) hk

/-- Negation witness for the pinned tree (before `fix: … overshoot …`): the clock is read twice; if it
advances between the reads the estimate leaves the interval (0 → 100 in 1000 ticks, reads at 1000 and 1500: 150). -/
theorem pinned_overshoot_witness :
    estimatePinned ⟨⟨1000, 1⟩, ⟨1000, 1⟩⟩ { last := some 0, ts := 0, confirmed := false, target := some 100, dir := .down } 1000 1500
      = .ok (some 150) := by decide

/-! ### Monotone toward the target -/

/-- For a fixed state the estimate moves monotonically toward the target as the clock advances. -/
theorem estimate_monotone {cfg : Cfg} (hc : cfg.WF) (s : St) (t t' l g p p' : Int)
    (hl : s.last = some l) (hg : s.target = some g) (hts : s.ts ≤ t) (htt : t ≤ t')
    (h : estimate cfg s t = .ok (some p)) (h' : estimate cfg s t' = .ok (some p')) :
    (l ≤ g → p ≤ p' ∧ p' ≤ g) ∧ (g ≤ l → p' ≤ p ∧ g ≤ p') := by
  have hb := estimate_bounds hc s t l g p hl hg hts h
  have hb' := estimate_bounds hc s t' l g p' hl hg (by omega) h'
  rw [estimate_known cfg s t l g hl hg] at h
  rw [estimate_known cfg s t' l g hl hg] at h'
  injection h with h; injection h with h
  injection h' with h'; injection h' with h'
  have hden := remOf_den_pos hc l g
  have hee : (t - s.ts) * (remOf cfg l g).den ≤ (t' - s.ts) * (remOf cfg l g).den :=
    Int.mul_le_mul_of_nonneg_right (by omega) (Int.le_of_lt hden)
  by_cases hA : reached (g - l) s.dir = true ∨ (remOf cfg l g).num ≤ 0 ∨ elapsed cfg s l g t
  · -- already at the target at `t` ⇒ at the target at `t'`
    have hA' : reached (g - l) s.dir = true ∨ (remOf cfg l g).num ≤ 0 ∨ elapsed cfg s l g t' := by
      rcases hA with h1 | h1 | h1
      · exact Or.inl h1
      · exact Or.inr (Or.inl h1)
      · refine Or.inr (Or.inr ?_)
        unfold elapsed at h1 ⊢; omega
    rw [if_pos hA] at h; rw [if_pos hA'] at h'
    subst h; subst h'
    constructor <;> intro _ <;> constructor <;> omega
  · rw [if_neg hA] at h
    by_cases hA' : reached (g - l) s.dir = true ∨ (remOf cfg l g).num ≤ 0 ∨ elapsed cfg s l g t'
    · rw [if_pos hA'] at h'
      subst h'
      constructor <;> intro hh <;> constructor <;> omega
    · rw [if_neg hA'] at h'
      simp only [not_or, Int.not_le] at hA
      have hD := hA.2.1
      constructor
      · intro hlg
        have : interpNum cfg s l g t ≤ interpNum cfg s l g t' := by unfold interpNum; nlinarith
        have := Int.tdiv_le_tdiv hD this
        constructor <;> omega
      · intro hgl
        have : interpNum cfg s l g t' ≤ interpNum cfg s l g t := by unfold interpNum; nlinarith
        have := Int.tdiv_le_tdiv hD this
        constructor <;> omega

/-! ### Arrival -/

/-- Once the travel time has elapsed (or nothing remains / the direction says reached) the estimate IS the target. -/
theorem estimate_target_of_elapsed (cfg : Cfg) (s : St) (now l g : Int)
    (hl : s.last = some l) (hg : s.target = some g)
    (h : reached (g - l) s.dir = true ∨ (remOf cfg l g).num ≤ 0 ∨ elapsed cfg s l g now) :
    estimate cfg s now = .ok (some g) := by
  rw [estimate_known cfg s now l g hl hg, if_pos h]

/-
Full statement of "reaches it exactly when the travel time has elapsed":

  theorem estimate_eq_target_iff : estimate cfg s now = .ok (some g) ↔
      reached (g - l) s.dir ∨ (remOf cfg l g).num ≤ 0 ∨ elapsed cfg s l g now

It is FALSE for the code as it is (known finding `early-target:int-truncation`): `int()` truncates
toward zero, so when the interpolated position approaches the target from the far side of zero
(travelling up, i.e. toward a smaller non-negative position) the estimate equals the target during
the last position step — see `early_target_witness`.  Proved instead: the equivalence whenever
truncation rounds away from the target (`_partial`), and in general that an early "target" means
less than one position step remains (`early_target_within_one_step`).
-/

/-- `_partial`: travelling toward a larger position from a non-negative one (down: 0 ≤ last < target), the
estimate equals the target IF AND ONLY IF the travel time has elapsed (or nothing remains / direction reached). -/
theorem estimate_eq_target_iff_partial {cfg : Cfg} (hc : cfg.WF) (s : St) (now l g : Int)
    (hl : s.last = some l) (hg : s.target = some g) (hts : s.ts ≤ now) (h0 : 0 ≤ l) (hlg : l < g) :
    estimate cfg s now = .ok (some g) ↔
      (reached (g - l) s.dir = true ∨ (remOf cfg l g).num ≤ 0 ∨ elapsed cfg s l g now) := by
  constructor
  · intro h
    rw [estimate_known cfg s now l g hl hg] at h
    injection h with h; injection h with h
    by_contra hn
    rw [if_neg hn] at h
    simp only [not_or, Int.not_le] at hn
    obtain ⟨_, hD, hel⟩ := hn
    unfold elapsed at hel
    simp only [Int.not_le] at hel
    have hden := remOf_den_pos hc l g
    have he0 : 0 ≤ (now - s.ts) * (remOf cfg l g).den := Int.mul_nonneg (by omega) (Int.le_of_lt hden)
    -- the numerator is non-negative, so truncation is floor, and floor < g because N < g * D
    have hN0 : 0 ≤ interpNum cfg s l g now := by unfold interpNum; nlinarith
    have hNlt : interpNum cfg s l g now < g * (remOf cfg l g).num := by unfold interpNum; nlinarith
    rw [Int.tdiv_eq_ediv_of_nonneg hN0] at h
    have := Int.ediv_lt_of_lt_mul hD hNlt
    omega
  · exact estimate_target_of_elapsed cfg s now l g hl hg

/-- In general: if the estimate equals the target before the travel time has elapsed, the exact interpolated
position is less than one position step from the target. -/
theorem early_target_within_one_step {cfg : Cfg} (hc : cfg.WF) (s : St) (now l g : Int)
    (hl : s.last = some l) (hg : s.target = some g) (hts : s.ts ≤ now)
    (hn : ¬ (reached (g - l) s.dir = true ∨ (remOf cfg l g).num ≤ 0 ∨ elapsed cfg s l g now))
    (h : estimate cfg s now = .ok (some g)) :
    (g - 1) * (remOf cfg l g).num < interpNum cfg s l g now ∧
    interpNum cfg s l g now < (g + 1) * (remOf cfg l g).num := by
  rw [estimate_known cfg s now l g hl hg, if_neg hn] at h
  injection h with h; injection h with h
  simp only [not_or, Int.not_le] at hn
  have hD := hn.2.1
  have hne : (remOf cfg l g).num ≠ 0 := by omega
  -- N = D * q + r with |r| < D, q = g
  have hdm := Int.mul_tdiv_add_tmod (interpNum cfg s l g now) (remOf cfg l g).num
  have h1 := Int.tmod_lt_of_pos (interpNum cfg s l g now) hD
  have h2 : -(remOf cfg l g).num < (interpNum cfg s l g now).tmod (remOf cfg l g).num :=
    Int.lt_tmod_of_pos (interpNum cfg s l g now) hD
  rw [h] at hdm
  constructor <;> nlinarith

/-- Negation witness of the full equivalence (the known finding): 100 → 0 with 1000 ticks per full travel;
995 ticks after the start (exact position 0.5) the estimate already equals the target 0, although the travel
time has not elapsed (it has at 1000). -/
theorem early_target_witness :
    let cfg : Cfg := ⟨⟨1000, 1⟩, ⟨1000, 1⟩⟩
    let s : St := { last := some 100, ts := 0, confirmed := false, target := some 0, dir := .up }
    estimate cfg s 995 = .ok (some 0) ∧ ¬ elapsed cfg s 100 0 995 ∧ elapsed cfg s 100 0 1000 := by
  decide

/-! ### Stop freezes the estimate -/

/-- After `stop()` the estimate stays at the stop position at every later (indeed any) reading. -/
theorem stop_freezes (cfg : Cfg) (s s' : St) (now t : Int) (h : stop cfg s now = .ok s') :
    current cfg s' t = .ok s'.last := by
  unfold stop at h
  obtain ⟨sp, hsp⟩ := current_never_raises cfg s now
  rw [hsp] at h
  injection h with h
  subst h
  cases sp with
  | none =>
    have := (current_none_iff cfg s now).mp hsp
    simp only [stopAt]
    exact (current_none_iff cfg s t).mpr this ▸ (by rw [this])
  | some p =>
    simp only [stopAt, current]
    rw [estimate_target_of_elapsed cfg _ t p p rfl rfl (Or.inr (Or.inl (by simp [remOf_same])))]
    simp

/-! ### Any history with non-decreasing clock readings -/

/-- What is demanded of every observation: the operation did not raise, the query did not raise, and the
estimate is unknown (nothing known) or an integer between last known position and target. -/
def Good (o : Obs) : Prop :=
  o.raised = none ∧
  match o.pos with
  | .error _ => False
  | .ok none => o.last = none
  | .ok (some p) => ∃ l, o.last = some l ∧
      (match o.target with | none => p = l | some g => min l g ≤ p ∧ p ≤ max l g)

/-- The time stamp of a known position is not in the future. -/
def TsOk (s : St) (t : Int) : Prop := s.last ≠ none → s.ts ≤ t

private theorem current_some_last {cfg : Cfg} {s : St} {now p : Int} (h : current cfg s now = .ok (some p)) :
    s.last ≠ none := by
  intro hn
  have := (current_none_iff cfg s now).mpr hn
  rw [this] at h
  injection h with h; exact absurd h (by simp)

private theorem tsOk_stopAt {cfg : Cfg} {s : St} {now : Int} {sp : Option Int} (hsp : current cfg s now = .ok sp)
    {t : Int} (h : TsOk s t) : TsOk (stopAt s sp) t := by
  cases sp with
  | none => exact h
  | some p =>
    intro _
    exact h (current_some_last hsp)

/-- One step: the observation is good and the time-stamp invariant carries to every later reading. -/
theorem step_good {cfg : Cfg} (hc : cfg.WF) (s : St) (ev : Ev) (h : TsOk s ev.t) :
    (∀ o ∈ (step cfg s ev).2, Good o) ∧ ∀ t', ev.t ≤ t' → TsOk (step cfg s ev).1 t' := by
  obtain ⟨s', hs'⟩ := applyOp_never_raises cfg s ev.t ev.op
  have hstep : step cfg s ev = (s', [⟨none, current cfg s' ev.t, s'.last, s'.target⟩]) := by
    simp [step, hs']
  -- the time stamp of the new state is the old one or the reading of this operation
  have hts' : ∀ t', ev.t ≤ t' → TsOk s' t' := by
    have hstart : ∀ g s'', startTravel cfg s ev.t g = .ok s'' → ∀ t', ev.t ≤ t' → TsOk s'' t' := by
      intro g s'' hst t' ht' _
      unfold startTravel at hst
      cases hl : s.last with
      | none =>
        simp only [hl] at hst; injection hst with hst; subst hst
        simp [setPosition, updatePosition]; omega
      | some l =>
        simp only [hl] at hst
        obtain ⟨sp, hsp⟩ := current_never_raises cfg s ev.t
        simp only [hsp] at hst
        unfold startTravelAt at hst
        simp only [hl] at hst
        split at hst
        · exact absurd hst (by simp)
        · injection hst with hst; subst hst; simpa using ht'
    cases hop : ev.op with
    | setPosition p =>
      rw [hop] at hs'; simp only [applyOp] at hs'; injection hs' with hs'; subst hs'
      intro t' ht' _; simp [setPosition, updatePosition]; omega
    | updatePosition p =>
      rw [hop] at hs'; simp only [applyOp] at hs'; injection hs' with hs'; subst hs'
      intro t' ht' _; simp [updatePosition]; omega
    | stop =>
      rw [hop] at hs'; simp only [applyOp, stop] at hs'
      obtain ⟨sp, hsp⟩ := current_never_raises cfg s ev.t
      rw [hsp] at hs'; injection hs' with hs'; subst hs'
      intro t' ht'
      exact tsOk_stopAt hsp (fun hn => Int.le_trans (h hn) ht')
    | startTravel g => rw [hop] at hs'; exact hstart g s' hs'
    | startUp => rw [hop] at hs'; exact hstart _ s' hs'
    | startDown => rw [hop] at hs'; exact hstart _ s' hs'
    | query =>
      rw [hop] at hs'; simp only [applyOp] at hs'; injection hs' with hs'; subst hs'
      intro t' ht' hn; exact Int.le_trans (h hn) ht'
  rw [hstep]
  refine ⟨?_, hts'⟩
  intro o ho
  simp only [List.mem_singleton] at ho
  subst ho
  exact ⟨rfl, current_bounds hc s' ev.t (hts' ev.t (Int.le_refl _))⟩

/-- **History theorem.** For EVERY list of operations (set_position, update_position, start_travel,
start_travel_up/down, stop, query) at non-decreasing clock readings — equal readings allowed — starting
from a fresh TravelCalculator, for every travel-time configuration: no operation and no position query
raises, and every estimate is unknown or an integer between the last known position and the target. -/
theorem history_safe {cfg : Cfg} (hc : cfg.WF) (evs : List Ev)
    (hsorted : (evs.map (·.t)).Pairwise (· ≤ ·)) :
    ∀ o ∈ (run (step cfg) init evs).2, Good o := by
  suffices H : ∀ (evs : List Ev) (s : St), (evs.map (·.t)).Pairwise (· ≤ ·) →
      (∀ e ∈ evs, TsOk s e.t) → ∀ o ∈ (run (step cfg) s evs).2, Good o by
    refine H evs init hsorted ?_
    intro e _ hn; exact absurd rfl hn
  intro evs
  induction evs with
  | nil => intro s _ _ o ho; simp [run_nil] at ho
  | cons e es ih =>
    intro s hs hts o ho
    rw [run_cons] at ho
    simp only [List.map_cons, List.pairwise_cons] at hs
    obtain ⟨hg, hnext⟩ := step_good hc s e (hts e (List.mem_cons_self ..))
    rcases List.mem_append.mp ho with ho | ho
    · exact hg o ho
    · refine ih _ hs.2 ?_ o ho
      intro e' he'
      exact hnext e'.t (hs.1 e'.t (List.mem_map_of_mem he'))

/-! ### Non-vacuity -/

/-- 25 s down / 50 s up at 1000 ticks per second; set 40, travel to 60, query half way (50), at arrival (60),
stop and query at the same reading, travel up to 0. -/
def cfgEx : Cfg := ⟨⟨25000, 1⟩, ⟨50000, 1⟩⟩
def histEx : List Ev :=
  [⟨0, .setPosition 40⟩, ⟨0, .startTravel 60⟩, ⟨2500, .query⟩, ⟨5000, .query⟩, ⟨5000, .startUp⟩,
   ⟨10000, .stop⟩, ⟨10000, .query⟩, ⟨10000, .stop⟩]

example : cfgEx.WF := by constructor <;> decide
example : (histEx.map (·.t)).Pairwise (· ≤ ·) := by decide
example : ((run (step cfgEx) init histEx).2.map (·.pos)) =
    [.ok (some 40), .ok (some 40), .ok (some 50), .ok (some 60), .ok (some 60), .ok (some 50), .ok (some 50),
     .ok (some 50)] := by decide

end XknxVerif.Props.C40
