/-
C29  A secure session only accepts fresh wrapped frames and never sends plain ones.
Property theorems only.  `macOk` (does the wrapper's MAC verify under the session key) is an
uninterpreted input: the theorems hold for every assignment of it.  Statements about traces hold for
EVERY trace the monitor `SecureSession.step?` accepts (any length, any interleaving).
-/
import XknxVerif.Lemmas.SecureSession

namespace XknxVerif.Props.C29
open XknxVerif.SecureSession
open XknxVerif.Generated.IPSecure

/-! ### (0) declarations of the code the model reads (regenerated each run) -/

/-- `FORBIDDEN_WRAPPED_SERVICES` contains the wrapper itself (no nesting) and the four remote
diagnosis / configuration services; the service codes are the ones of `KNXIPServiceType`. -/
theorem forbidden_declared :
    secureWrapper ∈ forbiddenWrapped ∧ (∀ c ∈ [0x0740, 0x0741, 0x0742, 0x0743], c ∈ forbiddenWrapped) ∧
    services.lookup "SECURE_WRAPPER" = some secureWrapper ∧
    services.lookup "SESSION_REQUEST" = some sessionRequest ∧
    services.lookup "SESSION_RESPONSE" = some sessionResponse ∧
    services.lookup "SESSION_AUTHENTICATE" = some sessionAuthenticate ∧
    services.lookup "SESSION_STATUS" = some sessionStatus ∧
    services.lookup "REMOTE_DIAG_REQUEST" = some 0x0740 ∧ services.lookup "REMOTE_DIAG_RESPONSE" = some 0x0741 ∧
    services.lookup "REMOTE_CONFIG_REQUEST" = some 0x0742 ∧ services.lookup "REMOTE_RESET_REQUEST" = some 0x0743 := by
  decide

/-! ### (1) what is passed on from a SecureWrapper -/

/-- A wrapped frame is forwarded only if the session is initialized, its MAC verifies, it carries our
session id, its sequence number is strictly above the last accepted one, and the inner frame parses
to a service that is neither a nested wrapper nor a remote-diagnosis service; the counter then moves
to exactly that sequence number. -/
theorem wrapped_forward_sound (s s' : State) (sid seq : Nat) (macOk : Bool) (inner : Inner)
    (h : rxWrapped s sid seq macOk inner = (.fwd, s')) :
    s.initialized = true ∧ macOk = true ∧ sid = s.sessionId ∧ s.seqRecv < (seq : Int) ∧
    (∃ v, inner = .svc v ∧ v ∉ forbiddenWrapped ∧ v ≠ secureWrapper ∧
          v ∉ [0x0740, 0x0741, 0x0742, 0x0743]) ∧
    s' = { s with seqRecv := seq } := by
  by_cases h1 : s.initialized = true
  · by_cases h2 : s.seqRecv < (seq : Int)
    · by_cases h3 : sid = s.sessionId
      · cases macOk with
        | false => simp [rxWrapped, h1, h2, h3] at h
        | true =>
          cases inner with
          | unparsable => simp [rxWrapped, h1, h2, h3] at h
          | svc v =>
            by_cases h5 : v ∈ forbiddenWrapped
            · simp [rxWrapped, h1, h2, h3, h5] at h
            · have e : rxWrapped s sid seq true (.svc v) = (.fwd, { s with seqRecv := seq }) := by
                unfold rxWrapped; simp [h1, h2, h3, h5]
              rw [e] at h
              refine ⟨h1, rfl, h3, h2, ⟨v, rfl, h5, ?_, ?_⟩, (Prod.mk.inj h).2.symm⟩
              · intro hv; exact h5 (hv ▸ forbidden_declared.1)
              · intro hv; exact h5 (forbidden_declared.2.1 v hv)
      · simp [rxWrapped, h1, h2, h3] at h
    · simp [rxWrapped, h1, h2] at h
  · simp [rxWrapped, h1] at h

/-- Completeness of the same rule: exactly those frames are forwarded. -/
theorem wrapped_forward_iff (s : State) (sid seq : Nat) (macOk : Bool) (inner : Inner) :
    (rxWrapped s sid seq macOk inner).1 = .fwd ↔
      s.initialized = true ∧ macOk = true ∧ sid = s.sessionId ∧ s.seqRecv < (seq : Int) ∧
      ∃ v, inner = .svc v ∧ v ∉ forbiddenWrapped := by
  constructor
  · intro h
    have := wrapped_forward_sound s (rxWrapped s sid seq macOk inner).2 sid seq macOk inner
      (by rw [← h])
    obtain ⟨a, b, c, d, ⟨v, hv, hf, -, -⟩, -⟩ := this
    exact ⟨a, b, c, d, v, hv, hf⟩
  · rintro ⟨a, b, c, d, v, rfl, hf⟩
    unfold rxWrapped
    simp [a, b, c, d, hf]

/-- A wrapper that is not forwarded (dropped, or refused with an exception before the handshake) leaves the
whole session state — in particular the receive counter — unchanged. -/
theorem wrapped_reject_keeps_state (s : State) (sid seq : Nat) (macOk : Bool) (inner : Inner)
    (h : (rxWrapped s sid seq macOk inner).1 ≠ .fwd) : (rxWrapped s sid seq macOk inner).2 = s := by
  unfold rxWrapped at h ⊢
  by_cases h1 : s.initialized = true
  · by_cases h2 : s.seqRecv < (seq : Int)
    · by_cases h3 : sid = s.sessionId
      · cases macOk with
        | false => simp [h1, h2, h3]
        | true =>
          cases inner with
          | unparsable => simp [h1, h2, h3]
          | svc v =>
            by_cases h5 : v ∈ forbiddenWrapped
            · simp [h1, h2, h3, h5]
            · simp [h1, h2, h3, h5] at h
      · simp [h1, h2, h3]
    · simp [h1, h2]
  · simp [h1]

/-- Before the handshake a wrapper is never forwarded. -/
theorem wrapped_before_handshake (s : State) (sid seq : Nat) (macOk : Bool) (inner : Inner)
    (h : s.initialized = false) : rxWrapped s sid seq macOk inner = (.exc, s) := by
  simp [rxWrapped, h]

/-! ### (2) plain frames -/

/-- The only plain frame ever passed on is the SessionResponse, and only while the session is not
initialized; no plain frame touches the counters or the initialized flag. -/
theorem plain_rule (s : State) (sid svc : Nat) (macOk : Bool) (es : Nat := 0) :
    (rxPlain s svc).1 = .drop ∧ (rxPlain s svc).2 = s ∧
    ((rxResponse s sid macOk es).1 = .fwd ↔ s.initialized = false) ∧
    (rxResponse s sid macOk es).2.seqRecv = s.seqRecv ∧ (rxResponse s sid macOk es).2.seqSend = s.seqSend ∧
    (rxResponse s sid macOk es).2.initialized = s.initialized := by
  refine ⟨rfl, rfl, ?_, ?_, ?_, ?_⟩ <;> unfold rxResponse <;>
    by_cases hi : s.initialized = true <;> by_cases hc : s.connecting = true <;> simp [hi, hc]

/-! ### step-level facts -/

/-- the sequence number a forwarded wrapper carried -/
def fwdSeq : Obs → Option Nat
  | .rxw _ _ seq _ _ _ _ .fwd => some seq
  | _ => none

def isConn : Obs → Bool
  | .conn _ _ => true
  | _ => false

def isPoke : Obs → Bool
  | .poke _ _ => true
  | _ => false

/-- the plain frame an observation wrote, if any -/
def plainWritten : Obs → Option Nat
  | .ap _ svc _ => some svc
  | .snd _ svc _ .plain => some svc
  | _ => none

/-- the sequence number of the wrapper an observation wrote, if any -/
def wrappedWritten : Obs → Option Nat
  | .aw _ seq _ _ _ _ _ _ => some seq
  | .snd _ _ _ (.wrapped seq _ _) => some seq
  | .stop _ (.wrapped seq _ _) => some seq
  | _ => none

/-- How one accepted observation moves the receive counter. -/
theorem recv_counter_step (s s' : State) (o : Obs) (h : step? s o = some s') :
    (∀ q, fwdSeq o = some q → s.seqRecv < (q : Int) ∧ s'.seqRecv = q ∧ s.initialized = true) ∧
    (fwdSeq o = none → isConn o = false → s'.seqRecv = s.seqRecv) := by
  obtain ⟨sa, hadv, hm⟩ := step_cases h
  obtain ⟨-, -, -, -, -, hin, -, hrecv, -⟩ := advance_fields hadv
  cases o with
  | rxw t sid seq macOk inner ek es out =>
    obtain ⟨-, hout, hs'⟩ := hm
    cases out with
    | fwd =>
      have := wrapped_forward_sound sa s' sid seq macOk inner (by rw [hs', hout])
      obtain ⟨a, -, -, d, -, e⟩ := this
      refine ⟨fun q hq => ?_, fun hn => by simp [fwdSeq] at hn⟩
      simp only [fwdSeq, Option.some.injEq] at hq
      subst hq
      rw [← hrecv, ← hin]
      exact ⟨d, by rw [e], a⟩
    | drop =>
      refine ⟨fun q hq => by simp [fwdSeq] at hq, fun _ _ => ?_⟩
      rw [hs', wrapped_reject_keeps_state sa sid seq macOk inner (by rw [← hout]; simp), hrecv]
    | exc =>
      refine ⟨fun q hq => by simp [fwdSeq] at hq, fun _ _ => ?_⟩
      rw [hs', wrapped_reject_keeps_state sa sid seq macOk inner (by rw [← hout]; simp), hrecv]
  | conn t dap => exact ⟨fun q hq => by simp [fwdSeq] at hq, fun _ hc => by simp [isConn] at hc⟩
  | rxr t sid macOk es out =>
    refine ⟨fun q hq => by simp [fwdSeq] at hq, fun _ _ => ?_⟩
    rw [hm.2, (plain_rule sa sid 0 macOk es).2.2.2.1, hrecv]
  | rxp t svc out =>
    refine ⟨fun q hq => by simp [fwdSeq] at hq, fun _ _ => ?_⟩
    rw [hm.2.2.2, hrecv]
  | ap t svc kp =>
    refine ⟨fun q hq => by simp [fwdSeq] at hq, fun _ _ => ?_⟩
    rw [hm.2.2.2.2.2]; exact hrecv
  | aw t seq svc aux ok sid ek es =>
    refine ⟨fun q hq => by simp [fwdSeq] at hq, fun _ _ => ?_⟩
    rw [(autoWrite_spec hm).2.2.2.2.1, hrecv]
  | snd t svc aux out =>
    refine ⟨fun q hq => by simp [fwdSeq] at hq, fun _ _ => ?_⟩
    rw [hm.2, (send_spec sa svc).2.2.2.1, hrecv]
  | stop t out =>
    refine ⟨fun q hq => by simp [fwdSeq] at hq, fun _ _ => ?_⟩
    rw [hm.2, (stop_spec sa).2.2.2.1, hrecv]
  | poke t v =>
    refine ⟨fun q hq => by simp [fwdSeq] at hq, fun _ _ => ?_⟩
    rw [hm.2.1, hrecv]
  | cres t ok =>
    refine ⟨fun q hq => by simp [fwdSeq] at hq, fun _ _ => ?_⟩
    rw [hm]; exact hrecv
  | st t i r q =>
    refine ⟨fun q hq => by simp [fwdSeq] at hq, fun _ _ => ?_⟩
    rw [hm.2.2.2, hrecv]

/-! ### (3) strictly increasing sequence numbers; rejected frames do not advance the counter -/

/-- Every received frame that is not forwarded — dropped wrapper, refused wrapper, any plain frame — leaves the
receive counter where it was (any accepted observation other than a forwarded wrapper or a new `connect()`). -/
theorem rejected_frames_keep_counter (s s' : State) (o : Obs) (h : step? s o = some s')
    (hf : fwdSeq o = none) (hc : isConn o = false) : s'.seqRecv = s.seqRecv :=
  (recv_counter_step s s' o h).2 hf hc

/-- Within one connection (no new `connect()` in `tr`), over ANY accepted sequence of received frames and other
events: the sequence numbers of the forwarded wrappers are strictly increasing, all above the counter at the
start and none above the counter at the end. -/
theorem forwarded_seqs_increasing (tr : List Obs) (s s' : State) (h : runFrom s tr = some s')
    (hc : ∀ o ∈ tr, isConn o = false) :
    List.Pairwise (· < ·) (tr.filterMap fwdSeq) ∧
    (∀ q ∈ tr.filterMap fwdSeq, s.seqRecv < (q : Int) ∧ (q : Int) ≤ s'.seqRecv) ∧
    s.seqRecv ≤ s'.seqRecv := by
  induction tr generalizing s with
  | nil =>
    simp only [runFrom, Option.some.injEq] at h; subst h
    simp
  | cons o os ih =>
    obtain ⟨s1, h1, h2⟩ := runFrom_cons h
    obtain ⟨ihp, ihq, ihle⟩ := ih s1 h2 (fun o' ho' => hc o' (by simp [ho']))
    obtain ⟨st1, st2⟩ := recv_counter_step s s1 o h1
    cases hfo : fwdSeq o with
    | none =>
      have e := st2 hfo (hc o (by simp))
      simp only [List.filterMap_cons, hfo]
      rw [e] at ihq ihle
      exact ⟨ihp, ihq, ihle⟩
    | some q =>
      obtain ⟨a, b, -⟩ := st1 q hfo
      simp only [List.filterMap_cons, hfo, List.pairwise_cons, List.mem_cons, forall_eq_or_imp]
      rw [b] at ihq ihle
      refine ⟨⟨fun q' hq' => ?_, ihp⟩, ⟨⟨a, ihle⟩, fun q' hq' => ?_⟩, by omega⟩
      · have := (ihq q' hq').1; omega
      · have := ihq q' hq'; exact ⟨by omega, this.2⟩

/-! ### (4) what the session writes -/

/-- How one accepted observation writes and moves the send counter. -/
theorem write_step (s s' : State) (o : Obs) (h : step? s o = some s') :
    (∀ svc, plainWritten o = some svc → s.initialized = false ∧ svc = sessionRequest) ∧
    (∀ q, wrappedWritten o = some q → q = s.seqSend ∧ q < seqLimit ∧ s'.seqSend = q + 1) ∧
    (wrappedWritten o = none → isConn o = false → isPoke o = false → s'.seqSend = s.seqSend) ∧
    (∀ t d, o = .conn t d → s'.seqSend = 0) := by
  obtain ⟨sa, hadv, hm⟩ := step_cases h
  obtain ⟨-, -, -, -, -, hin, -, -, hsend⟩ := advance_fields hadv
  cases o with
  | conn t dap =>
    refine ⟨fun _ hp => by simp [plainWritten] at hp, fun _ hw => by simp [wrappedWritten] at hw,
      fun _ hc => by simp [isConn] at hc, fun _ _ _ => by rw [hm.2]⟩
  | rxr t sid macOk es out =>
    refine ⟨fun _ hp => by simp [plainWritten] at hp, fun _ hw => by simp [wrappedWritten] at hw,
      fun _ _ _ => ?_, fun _ _ hc => by cases hc⟩
    rw [hm.2, (plain_rule sa sid 0 macOk es).2.2.2.2.1, hsend]
  | rxp t svc out =>
    refine ⟨fun _ hp => by simp [plainWritten] at hp, fun _ hw => by simp [wrappedWritten] at hw,
      fun _ _ _ => by rw [hm.2.2.2]; exact hsend, fun _ _ hc => by cases hc⟩
  | rxw t sid seq macOk inner ek es out =>
    refine ⟨fun _ hp => by simp [plainWritten] at hp, fun _ hw => by simp [wrappedWritten] at hw,
      fun _ _ _ => ?_, fun _ _ hc => by cases hc⟩
    rw [hm.2.2, ← hsend]
    by_cases hf : (rxWrapped sa sid seq macOk inner).1 = .fwd
    · have := wrapped_forward_sound sa (rxWrapped sa sid seq macOk inner).2 sid seq macOk inner (by rw [← hf])
      rw [this.2.2.2.2.2]
    · rw [wrapped_reject_keeps_state sa sid seq macOk inner hf]
  | ap t svc kp =>
    refine ⟨fun svc' hp => ?_, fun _ hw => by simp [wrappedWritten] at hw,
      fun _ _ _ => by rw [hm.2.2.2.2.2]; exact hsend, fun _ _ hc => by cases hc⟩
    simp only [plainWritten, Option.some.injEq] at hp
    subst hp
    exact ⟨by rw [← hin]; exact hm.1, hm.2.2.2.1⟩
  | aw t seq svc aux ok sid ek es =>
    refine ⟨fun _ hp => by simp [plainWritten] at hp, fun q hw => ?_,
      fun hw => by simp [wrappedWritten] at hw, fun _ _ hc => by cases hc⟩
    simp only [wrappedWritten, Option.some.injEq] at hw
    subst hw
    obtain ⟨-, a, b, c, -⟩ := autoWrite_spec hm
    exact ⟨by rw [← hsend]; exact a, b, c⟩
  | snd t svc aux out =>
    obtain ⟨hout, hs'⟩ := hm
    obtain ⟨p1, p2, p3, -, -, -, -⟩ := send_spec sa svc
    refine ⟨fun svc' hp => ?_, fun q hw => ?_, fun hw _ _ => ?_, fun _ _ hc => by cases hc⟩
    · cases out <;> simp only [plainWritten, Option.some.injEq, reduceCtorEq] at hp
      subst hp
      rw [← hin]; exact p1 hout.symm
    · cases out <;> simp only [wrappedWritten, Option.some.injEq, reduceCtorEq] at hw
      subst hw
      obtain ⟨a, b, c, -⟩ := p2 _ _ _ hout.symm
      exact ⟨by rw [← hsend]; exact a, b, by rw [hs']; exact c⟩
    · rw [hs', p3 (fun q ek es hq => by rw [← hout] at hq; rw [hq] at hw; simp [wrappedWritten] at hw), hsend]
  | stop t out =>
    obtain ⟨hout, hs'⟩ := hm
    obtain ⟨-, p2, p3, -, -, -⟩ := stop_spec sa
    refine ⟨fun _ hp => by simp [plainWritten] at hp, fun q hw => ?_, fun hw _ _ => ?_,
      fun _ _ hc => by cases hc⟩
    · cases out <;> simp only [wrappedWritten, Option.some.injEq, reduceCtorEq] at hw
      subst hw
      obtain ⟨a, b, c, -⟩ := p2 _ _ _ hout.symm
      exact ⟨by rw [← hsend]; exact a, b, by rw [hs']; exact c⟩
    · rw [hs', (p3 (fun q ek es hq => by rw [← hout] at hq; rw [hq] at hw; simp [wrappedWritten] at hw)).1, hsend]
  | poke t v =>
    refine ⟨fun _ hp => by simp [plainWritten] at hp, fun _ hw => by simp [wrappedWritten] at hw,
      fun _ _ hp => by simp [isPoke] at hp, fun _ _ hc => by cases hc⟩
  | cres t ok =>
    refine ⟨fun _ hp => by simp [plainWritten] at hp, fun _ hw => by simp [wrappedWritten] at hw,
      fun _ _ _ => by rw [hm]; exact hsend, fun _ _ hc => by cases hc⟩
  | st t i r q =>
    refine ⟨fun _ hp => by simp [plainWritten] at hp, fun _ hw => by simp [wrappedWritten] at hw,
      fun _ _ _ => by rw [hm.2.2.2]; exact hsend, fun _ _ hc => by cases hc⟩

/-- The session never writes a plain frame other than the SessionRequest, and none at all once it is
initialized: any accepted observation that wrote a plain frame found the session uninitialized and wrote a
SessionRequest. -/
theorem plain_write_only_session_request (s s' : State) (o : Obs) (svc : Nat)
    (h : step? s o = some s') (hp : plainWritten o = some svc) :
    s.initialized = false ∧ svc = sessionRequest :=
  (write_step s s' o h).1 svc hp

/-- Hence after the handshake every frame is wrapped: with the session initialized no accepted observation
writes a plain frame. -/
theorem initialized_writes_only_wrapped (s s' : State) (o : Obs) (h : step? s o = some s')
    (hi : s.initialized = true) : plainWritten o = none := by
  cases hp : plainWritten o with
  | none => rfl
  | some svc => have := (write_step s s' o h).1 svc hp; rw [hi] at this; cases this.1

/-- Within one connection and without the harness poking the counter, over ANY accepted trace the wrappers
written carry the consecutive sequence numbers `n, n+1, n+2, …` from the counter at the start (no gap, no
repeat, no wrap-around: each is below 2^48). -/
theorem wrapped_seqs_consecutive (tr : List Obs) (s s' : State) (h : runFrom s tr = some s')
    (hc : ∀ o ∈ tr, isConn o = false ∧ isPoke o = false) :
    tr.filterMap wrappedWritten = List.range' s.seqSend (tr.filterMap wrappedWritten).length ∧
    s'.seqSend = s.seqSend + (tr.filterMap wrappedWritten).length ∧
    ∀ q ∈ tr.filterMap wrappedWritten, q < seqLimit := by
  induction tr generalizing s with
  | nil =>
    simp only [runFrom, Option.some.injEq] at h; subst h
    simp
  | cons o os ih =>
    obtain ⟨s1, h1, h2⟩ := runFrom_cons h
    obtain ⟨ih1, ih2, ih3⟩ := ih s1 h2 (fun o' ho' => hc o' (by simp [ho']))
    obtain ⟨-, w2, w3, -⟩ := write_step s s1 o h1
    cases hw : wrappedWritten o with
    | none =>
      have e := w3 hw (hc o (by simp)).1 (hc o (by simp)).2
      simp only [List.filterMap_cons, hw]
      rw [e] at ih1 ih2
      exact ⟨ih1, ih2, ih3⟩
    | some q =>
      obtain ⟨a, b, c⟩ := w2 q hw
      simp only [List.filterMap_cons, hw, List.length_cons, List.range'_succ, List.mem_cons, forall_eq_or_imp]
      rw [c] at ih1 ih2
      refine ⟨?_, by omega, b, ih3⟩
      rw [← a, ← ih1]

/-- After `connect()` the first wrapper written has sequence number 0, the next 1, …  -/
theorem wrapped_seqs_from_zero (t : Nat) (d : Bool) (tr : List Obs) (s s' : State)
    (h : runFrom s (.conn t d :: tr) = some s')
    (hc : ∀ o ∈ tr, isConn o = false ∧ isPoke o = false) :
    tr.filterMap wrappedWritten = List.range' 0 (tr.filterMap wrappedWritten).length := by
  obtain ⟨s1, h1, h2⟩ := runFrom_cons h
  have := (write_step s s1 _ h1).2.2.2 t d rfl
  have h3 := (wrapped_seqs_consecutive tr s1 s' h2 hc).1
  rw [this] at h3
  exact h3

/-- 48-bit exhaustion: with the send counter at 2^48 (or beyond) a `send` on an initialized session
raises `IPSecureError`, writes nothing and leaves the counter where it is — it does not wrap around. -/
theorem exhausted_counter_errors (s s' : State) (t svc aux : Nat) (out : TxOut)
    (h : step? s (.snd t svc aux out) = some s') (hi : s.initialized = true) (hx : seqLimit ≤ s.seqSend) :
    out = .errIpsec ∧ s'.seqSend = s.seqSend ∧ s'.initialized = true := by
  obtain ⟨sa, hadv, hout, hs'⟩ := step_cases h
  obtain ⟨-, -, -, -, -, hin, -, -, hsend⟩ := advance_fields hadv
  obtain ⟨-, -, p3, -, p5, p6, -⟩ := send_spec sa svc
  have he := p6 (by rw [hin]; exact hi) (by rw [hsend]; exact hx)
  refine ⟨by rw [hout, he], ?_, by rw [hs', p5, hin]; exact hi⟩
  rw [hs', p3 (fun q ek es hq => by rw [he] at hq; cases hq), hsend]

/-- Same for `stop()`: no wrapped CLOSE with a wrapped-around number. -/
theorem exhausted_counter_stop (s s' : State) (t : Nat) (out : TxOut)
    (h : step? s (.stop t out) = some s') : ∀ q ek es, out = .wrapped q ek es → q < seqLimit :=
  fun q ek es hq => ((write_step s s' _ h).2.1 q (by simp [wrappedWritten, hq])).2.1

/-- `stop()` always tears the session down: whatever the counter, afterwards the session is not initialized and
no exception left `stop()` — so a following `connect()` starts from an uninitialized session and a fresh key
agreement (before the `fix:` the exhausted counter made `stop()` raise and the old key lived on). -/
theorem stop_always_tears_down (s s' : State) (t : Nat) (out : TxOut) (h : step? s (.stop t out) = some s') :
    s'.initialized = false ∧ out ≠ .errIpsec := by
  obtain ⟨sa, -, hout, hs'⟩ := step_cases h
  rw [hs', hout]
  exact stop_tears_down sa

/-- The session becomes initialized only through the handshake: a SessionResponse was forwarded to the pending
`connect()` (so the session was uninitialized then), its MAC verified if a device authentication code is
configured, and the observation is the wrapped SessionAuthenticate with the number the counter had (0 after
`connect()`) and the session id of that response. -/
theorem initialized_only_by_handshake (s s' : State) (o : Obs) (h : step? s o = some s')
    (h0 : s.initialized = false) (h1 : s'.initialized = true) :
    ∃ t seq aux sid mac ek es, o = .aw t seq sessionAuthenticate aux true sid ek es ∧ s.resp = some (sid, mac, es) ∧
      s.connecting = true ∧ (s.dap = true → mac = true) ∧ seq = s.seqSend ∧ s'.sessionId = sid := by
  obtain ⟨sa, hadv, hm⟩ := step_cases h
  obtain ⟨-, -, hcon, hresp, hdap, hin, -, -, hsend⟩ := advance_fields hadv
  rw [← hin] at h0
  cases o with
  | aw t seq svc aux ok sid ek es =>
    obtain ⟨a, b, -, -, -, -, -, -, -, -, hor⟩ := autoWrite_spec hm
    rcases hor with ⟨c1, -, c3, -, c4, -, -, rmac, c5, c6⟩ | ⟨-, c2, -⟩
    · refine ⟨t, seq, aux, sid, rmac, ek, es, by rw [c1, a], by rw [← hresp]; exact c5, by rw [← hcon]; exact c3,
        fun hd => c6 (by rw [hdap]; exact hd), by rw [← hsend]; exact b, c4⟩
    · rw [h0] at c2; cases c2
  | conn t dap => rw [hm.2] at h1; simp only at h1; rw [h0] at h1; cases h1
  | rxr t sid macOk es out => rw [hm.2, (plain_rule sa sid 0 macOk es).2.2.2.2.2, h0] at h1; cases h1
  | rxp t svc out => rw [hm.2.2.2, h0] at h1; cases h1
  | rxw t sid seq macOk inner ek es out =>
    rw [hm.2.2, wrapped_before_handshake sa sid seq macOk inner h0, h0] at h1; cases h1
  | ap t svc kp => rw [hm.2.2.2.2.2] at h1; simp only at h1; rw [h0] at h1; cases h1
  | snd t svc aux out => rw [hm.2, (send_spec sa svc).2.2.2.2.1, h0] at h1; cases h1
  | stop t out => have := (stop_spec sa).2.2.2.2.1 (by rw [← hm.2]; exact h1); rw [h0] at this; cases this
  | poke t v => rw [hm.2.2, h0] at h1; cases h1
  | cres t ok => rw [hm] at h1; simp only at h1; rw [h0] at h1; cases h1
  | st t i r q => rw [hm.2.2.2, h0] at h1; cases h1

/-! ### Non-vacuity -/

/-- a complete little session: handshake, one genuine frame, a replay and a forged one dropped, a nested wrapper
dropped, a request, the keepalive 50 s later, close on stop -/
example : accepts [.conn 0 true, .ap 0 sessionRequest 0, .rxr 0 7 true 0 .fwd, .aw 0 0 sessionAuthenticate 0 true 7 0 0,
    .rxw 0 7 0 true (.svc sessionStatus) 0 0 .fwd, .cres 0 true, .st 0 true 0 1,
    .rxw 5 7 0 true (.svc 0x0421) 0 0 .drop, .rxw 5 7 1 false (.svc 0x0421) 0 0 .drop,
    .rxw 5 7 1 true (.svc secureWrapper) 0 0 .drop,
    .rxw 5 7 1 true (.svc 0x0421) 0 0 .fwd, .rxp 6 0x0421 .drop, .snd 10 0x0420 0 (.wrapped 1 0 0),
    .aw 50010 2 sessionStatus statusKeepalive true 7 0 0, .stop 50020 (.wrapped 3 0 0), .st 50020 false 1 4,
    -- second session on the same object: fresh key pair (id 1); a frame recorded in the first session does not verify
    .conn 50030 true, .ap 50030 sessionRequest 1, .rxr 50030 7 true 0 .fwd, .aw 50030 0 sessionAuthenticate 0 true 7 1 0,
    .rxw 50040 7 1 false (.svc 0x0421) 0 0 .drop, .rxw 50040 7 0 true (.svc sessionStatus) 1 0 .fwd] := by decide
/-- a replayed wrapper that is passed on is not an accepted trace -/
example : ¬ accepts [.conn 0 true, .ap 0 sessionRequest 0, .rxr 0 7 true 0 .fwd, .aw 0 0 sessionAuthenticate 0 true 7 0 0,
    .rxw 0 7 0 true (.svc sessionStatus) 0 0 .fwd, .rxw 5 7 0 true (.svc 0x0421) 0 0 .fwd] := by decide
/-- a plain frame written after the handshake is not an accepted trace -/
example : ¬ accepts [.conn 0 true, .ap 0 sessionRequest 0, .rxr 0 7 true 0 .fwd, .aw 0 0 sessionAuthenticate 0 true 7 0 0,
    .snd 1 0x0420 0 .plain] := by decide
/-- the counter at 2^48: IPSecureError, nothing written -/
example : accepts [.conn 0 false, .ap 0 sessionRequest 0, .rxr 0 7 false 0 .fwd, .aw 0 0 sessionAuthenticate 0 true 7 0 0,
    .poke 1 281474976710655, .snd 1 0x0420 0 (.wrapped 281474976710655 0 0), .snd 1 0x0420 0 .errIpsec,
    .st 1 true (-1) 281474976710656] := by decide
example : ∃ s, s.initialized = true ∧ rxWrapped s 7 5 true (.svc 0x0421) = (.fwd, { s with seqRecv := 5 }) :=
  ⟨{ initialized := true, sessionId := 7, seqRecv := 4 }, rfl, by decide⟩

/-! ### (5) key epochs: a frame is forwarded only if it was wrapped for THIS session -/

/-- the key-pair id a plain SessionRequest carried -/
def keyId : Obs → Option Nat
  | .ap _ _ kp => some kp
  | _ => none

/-- the (client key id, server key id, sequence number) a written wrapper was made under -/
def writtenPair : Obs → Option (Nat × Nat × Nat)
  | .aw _ seq _ _ _ _ ek es => some (ek, es, seq)
  | .snd _ _ _ (.wrapped seq ek es) => some (ek, es, seq)
  | .stop _ (.wrapped seq ek es) => some (ek, es, seq)
  | _ => none

theorem rxResponse_epoch (s : State) (sid : Nat) (m : Bool) (es : Nat) :
    (rxResponse s sid m es).2.initialized = s.initialized ∧ (rxResponse s sid m es).2.keyEp = s.keyEp ∧
    (rxResponse s sid m es).2.nKeys = s.nKeys ∧ (rxResponse s sid m es).2.kp = s.kp ∧
    (rxResponse s sid m es).2.requested = s.requested := by
  unfold rxResponse
  by_cases h1 : s.initialized = true <;> by_cases h2 : s.connecting = true <;> simp [h1, h2]

/-- Reachable states: the session key in use belongs to the key pair of the latest SessionRequest. -/
def EpochInv (s : State) : Prop :=
  (s.initialized = true → s.keyEp.1 = s.kp) ∧ (s.kp + 1 = s.nKeys ∨ s.nKeys = 0)

theorem epoch_step (s s' : State) (o : Obs) (hi : EpochInv s) (h : step? s o = some s') :
    EpochInv s' ∧ (∀ kp, keyId o = some kp → kp = s.nKeys ∧ s'.nKeys = s.nKeys + 1) ∧
    (keyId o = none → s'.nKeys = s.nKeys) := by
  obtain ⟨sa, hadv, hm⟩ := step_cases h
  obtain ⟨-, -, -, -, -, hin, -, -, -⟩ := advance_fields hadv
  obtain ⟨hkp, hnk, hke, -, -⟩ := advance_epoch hadv
  have hia : EpochInv sa := by unfold EpochInv at hi ⊢; rw [hin, hkp, hnk, hke]; exact hi
  rw [← hnk]
  cases o with
  | conn t dap =>
    rw [hm.2]
    exact ⟨hia, fun _ hk => by simp [keyId] at hk, fun _ => rfl⟩
  | rxr t sid macOk es out =>
    rw [hm.2]
    obtain ⟨r1, r2, r3, r4, -⟩ := rxResponse_epoch sa sid macOk es
    refine ⟨?_, fun _ hk => by simp [keyId] at hk, fun _ => r3⟩
    unfold EpochInv at hia ⊢
    rw [r1, r2, r3, r4]; exact hia
  | rxp t svc out =>
    rw [hm.2.2.2]
    exact ⟨hia, fun _ hk => by simp [keyId] at hk, fun _ => rfl⟩
  | rxw t sid seq macOk inner ek es out =>
    rw [hm.2.2]
    by_cases hf : (rxWrapped sa sid seq macOk inner).1 = .fwd
    · have := (wrapped_forward_sound sa (rxWrapped sa sid seq macOk inner).2 sid seq macOk inner (by rw [← hf])).2.2.2.2.2
      rw [this]
      exact ⟨hia, fun _ hk => by simp [keyId] at hk, fun _ => rfl⟩
    · rw [wrapped_reject_keeps_state sa sid seq macOk inner hf]
      exact ⟨hia, fun _ hk => by simp [keyId] at hk, fun _ => rfl⟩
  | ap t svc kp =>
    obtain ⟨a, -, -, -, e, rfl⟩ := hm
    refine ⟨⟨fun hi' => (by simp only at hi'; rw [a] at hi'; cases hi'), Or.inl (by simp only; omega)⟩,
      fun kp' hk => ?_, fun hk => by simp [keyId] at hk⟩
    simp only [keyId, Option.some.injEq] at hk
    subst hk
    exact ⟨e, rfl⟩
  | aw t seq svc aux ok sid ek es =>
    obtain ⟨-, -, -, -, -, a, b, c, d, -, hor⟩ := autoWrite_spec hm
    refine ⟨⟨fun _ => ?_, by rw [c, d]; exact hia.2⟩, fun _ hk => by simp [keyId] at hk, fun _ => d⟩
    rcases hor with ⟨-, -, -, -, -, e1, -, -⟩ | ⟨-, e2, -, e3, -⟩
    · rw [← b, c]; exact e1
    · rw [e3, c]; exact hia.1 e2
  | snd t svc aux out =>
    rw [hm.2]
    obtain ⟨-, -, -, -, p5, -, p7, p8, p9, -, -⟩ := send_spec sa svc
    refine ⟨⟨fun hi' => ?_, by rw [p7, p8]; exact hia.2⟩, fun _ hk => by simp [keyId] at hk, fun _ => p8⟩
    rw [p9, p7]; exact hia.1 (by rw [← p5]; exact hi')
  | stop t out =>
    rw [hm.2]
    obtain ⟨-, -, -, -, p5, p7, p8, p9, -⟩ := stop_spec sa
    refine ⟨⟨fun hi' => ?_, by rw [p7, p8]; exact hia.2⟩, fun _ hk => by simp [keyId] at hk, fun _ => p8⟩
    rw [p9, p7]; exact hia.1 (p5 hi')
  | poke t v =>
    have hk : s'.kp = sa.kp ∧ s'.nKeys = sa.nKeys ∧ s'.keyEp = sa.keyEp := by
      have := h; unfold step? at this; simp only [hadv] at this
      simp only [Option.some.injEq] at this; subst this; exact ⟨rfl, rfl, rfl⟩
    refine ⟨⟨fun hi' => ?_, by rw [hk.1, hk.2.1]; exact hia.2⟩, fun _ hk' => by simp [keyId] at hk', fun _ => hk.2.1⟩
    rw [hk.2.2, hk.1]; exact hia.1 (by rw [← hm.2.2]; exact hi')
  | cres t ok =>
    rw [hm]
    exact ⟨hia, fun _ hk => by simp [keyId] at hk, fun _ => rfl⟩
  | st t i r q =>
    rw [hm.2.2.2]
    exact ⟨hia, fun _ hk => by simp [keyId] at hk, fun _ => rfl⟩

theorem epochInv_init : EpochInv init := by simp [EpochInv, init]

/-- Over ANY accepted trace the key pairs announced in the plain SessionRequests carry consecutive fresh ids:
the public key sent by each `connect()` differs from all earlier ones of the object. -/
theorem session_request_keys_fresh (tr : List Obs) (s s' : State) (hi : EpochInv s) (h : runFrom s tr = some s') :
    tr.filterMap keyId = List.range' s.nKeys (tr.filterMap keyId).length ∧
    s'.nKeys = s.nKeys + (tr.filterMap keyId).length ∧ EpochInv s' := by
  induction tr generalizing s with
  | nil =>
    simp only [runFrom, Option.some.injEq] at h; subst h
    simp [hi]
  | cons o os ih =>
    obtain ⟨s1, h1, h2⟩ := runFrom_cons h
    obtain ⟨hi1, e1, e2⟩ := epoch_step s s1 o hi h1
    obtain ⟨ih1, ih2, ih3⟩ := ih s1 hi1 h2
    cases hk : keyId o with
    | none =>
      rw [e2 hk] at ih1 ih2
      simp only [List.filterMap_cons, hk]
      exact ⟨ih1, ih2, ih3⟩
    | some kp =>
      obtain ⟨a, b⟩ := e1 kp hk
      rw [b] at ih1 ih2
      simp only [List.filterMap_cons, hk, List.length_cons, List.range'_succ]
      exact ⟨by rw [a, ← ih1], by omega, ih3⟩

/-- **Forwarded ⇒ wrapped under the current key epoch.**  In any accepted trace from the initial state, a
wrapped frame that is passed on was wrapped under the session key of the running session, and that key belongs to
the key pair announced in the LATEST SessionRequest (`ek + 1 = number of key pairs so far`), i.e. to a key pair
that no earlier session of this object used: a frame recorded in an earlier session (`ek` smaller) is never
forwarded by a later one. -/
theorem forwarded_only_current_session (pre : List Obs) (s s' : State) (t sid seq ek es : Nat) (macOk : Bool)
    (inner : Inner) (hpre : runFrom init pre = some s)
    (h : step? s (.rxw t sid seq macOk inner ek es .fwd) = some s') :
    (ek, es) = s.keyEp ∧ ek = s.kp ∧ ek + 1 = s.nKeys ∧ ∀ k ∈ pre.filterMap keyId, k ≤ ek := by
  obtain ⟨hfr, hn, hi⟩ := session_request_keys_fresh pre init s epochInv_init hpre
  obtain ⟨sa, hadv, hmk, hout, -⟩ := step_cases h
  obtain ⟨-, -, -, -, -, hin, -, -, -⟩ := advance_fields hadv
  obtain ⟨hkp, hnk, hke, -, -⟩ := advance_epoch hadv
  obtain ⟨hini, hmac, -⟩ := wrapped_forward_sound sa (rxWrapped sa sid seq macOk inner).2 sid seq macOk inner
    (by rw [hout])
  have hep : (ek, es) = s.keyEp := by rw [← hke]; exact hmk hmac
  have hek : ek = s.kp := by
    have := hi.1 (by rw [← hin]; exact hini)
    rw [← hep] at this; exact this
  have hnz : s.nKeys ≠ 0 ∨ True := Or.inr trivial
  have hk1 : ek + 1 = s.nKeys := by
    rcases hi.2 with h1 | h0
    · omega
    · -- no key pair yet: the session cannot be initialized (shown through the handshake invariant below)
      exfalso
      -- initialized needs a handshake, which needs a SessionRequest: nKeys > 0
      have : ∀ (tr : List Obs) (a b : State), runFrom a tr = some b → (a.initialized = true → a.nKeys ≠ 0) →
          (a.requested = true → a.nKeys ≠ 0) → (b.initialized = true → b.nKeys ≠ 0) ∧ (b.requested = true → b.nKeys ≠ 0) := by
        intro tr
        induction tr with
        | nil => intro a b hr h1 h2; simp only [runFrom, Option.some.injEq] at hr; subst hr; exact ⟨h1, h2⟩
        | cons o os ih =>
          intro a b hr h1 h2
          obtain ⟨a1, ha1, ha2⟩ := runFrom_cons hr
          apply ih a1 b ha2
          · intro hi1
            by_cases hai : a.initialized = true
            · have := h1 hai
              obtain ⟨sa', hadv', hm'⟩ := step_cases ha1
              have hnk' := (advance_epoch hadv').2.1
              cases o with
              | ap _ _ _ => rw [hm'.2.2.2.2.2]; simp
              | aw t seq svc aux ok sid ek es => rw [(autoWrite_spec hm').2.2.2.2.2.2.2.2.1, hnk']; exact this
              | conn _ _ => rw [hm'.2]; simpa [hnk'] using this
              | rxr _ sid m es _ =>
                rw [hm'.2, (rxResponse_epoch sa' sid m es).2.2.1, hnk']; exact this
              | rxp _ _ _ => rw [hm'.2.2.2, hnk']; exact this
              | rxw _ sid seq m inner _ _ _ =>
                rw [hm'.2.2]
                by_cases hf : (rxWrapped sa' sid seq m inner).1 = .fwd
                · rw [(wrapped_forward_sound sa' (rxWrapped sa' sid seq m inner).2 sid seq m inner (by rw [← hf])).2.2.2.2.2]
                  simpa [hnk'] using this
                · rw [wrapped_reject_keeps_state sa' sid seq m inner hf, hnk']; exact this
              | snd _ svc _ _ => rw [hm'.2, (send_spec sa' svc).2.2.2.2.2.2.2.1, hnk']; exact this
              | stop _ _ => rw [hm'.2, (stop_spec sa').2.2.2.2.2.2.1, hnk']; exact this
              | poke _ _ =>
                have := ha1; unfold step? at this; simp only [hadv'] at this
                simp only [Option.some.injEq] at this; subst this; simpa [hnk'] using h1 hai
              | cres _ _ => rw [hm']; simpa [hnk'] using this
              | st _ _ _ _ => rw [hm'.2.2.2, hnk']; exact this
            · have hai' : a.initialized = false := by simpa using hai
              obtain ⟨t', seq', aux', sid', mac', ek', es', ho, -⟩ := initialized_only_by_handshake a a1 o ha1 hai' hi1
              subst ho
              obtain ⟨sa', hadv', hm'⟩ := step_cases ha1
              obtain ⟨-, -, -, -, -, -, -, -, d, -, hor⟩ := autoWrite_spec hm'
              rcases hor with ⟨-, -, -, r, -⟩ | ⟨-, e2, -⟩
              · rw [d, (advance_epoch hadv').2.1]
                exact h2 (by rw [← (advance_epoch hadv').2.2.2.1]; exact r)
              · rw [(advance_fields hadv').2.2.2.2.2.1, hai'] at e2; cases e2
          · intro hr1
            obtain ⟨sa', hadv', hm'⟩ := step_cases ha1
            have hnk' := (advance_epoch hadv').2.1
            have hrq' := (advance_epoch hadv').2.2.2.1
            cases o with
            | ap _ _ _ => rw [hm'.2.2.2.2.2]; simp
            | aw t seq svc aux ok sid ek es =>
              obtain ⟨-, -, -, -, -, -, -, -, d, -, hor⟩ := autoWrite_spec hm'
              rcases hor with ⟨-, -, -, -, -, -, r, -⟩ | ⟨-, -, -, -, r⟩
              · rw [r] at hr1; cases hr1
              · rw [d, hnk']; exact h2 (by rw [← hrq', ← r]; exact hr1)
            | conn _ _ => rw [hm'.2] at hr1; simp at hr1
            | rxr _ sid m es _ =>
              rw [hm'.2] at hr1 ⊢
              rw [(rxResponse_epoch sa' sid m es).2.2.2.2] at hr1
              rw [(rxResponse_epoch sa' sid m es).2.2.1, hnk']; exact h2 (by rw [← hrq']; exact hr1)
            | rxp _ _ _ => rw [hm'.2.2.2] at hr1 ⊢; rw [hnk']; exact h2 (by rw [← hrq']; exact hr1)
            | rxw _ sid seq m inner _ _ _ =>
              rw [hm'.2.2] at hr1 ⊢
              by_cases hf : (rxWrapped sa' sid seq m inner).1 = .fwd
              · rw [(wrapped_forward_sound sa' (rxWrapped sa' sid seq m inner).2 sid seq m inner (by rw [← hf])).2.2.2.2.2] at hr1 ⊢
                simp only at hr1 ⊢; rw [hnk']; exact h2 (by rw [← hrq']; exact hr1)
              · rw [wrapped_reject_keeps_state sa' sid seq m inner hf] at hr1 ⊢
                rw [hnk']; exact h2 (by rw [← hrq']; exact hr1)
            | snd _ svc _ _ =>
              rw [hm'.2] at hr1 ⊢
              obtain ⟨-, -, -, -, -, -, -, p8, -, p10, -⟩ := send_spec sa' svc
              rw [p8, hnk']; exact h2 (by rw [← hrq', ← p10]; exact hr1)
            | stop _ _ =>
              rw [hm'.2] at hr1 ⊢
              obtain ⟨-, p2, p3, -, -, -, p8, -⟩ := stop_spec sa'
              rw [p8, hnk']
              by_cases hw : ∃ q ek es, (stop sa').1 = .wrapped q ek es
              · obtain ⟨q, ek, es, hq⟩ := hw
                have := (p2 q ek es hq).2.2.2.2.2.2
                rw [this] at hr1; cases hr1
              · have hw' : ∀ q ek es, (stop sa').1 ≠ .wrapped q ek es := fun q ek es hq => hw ⟨q, ek, es, hq⟩
                obtain ⟨-, k1, k2⟩ := p3 hw'
                by_cases hsi : (stop sa').2.initialized = true
                · rw [k1 hsi] at hr1; exact h2 (by rw [← hrq']; exact hr1)
                · rw [k2 (by simpa using hsi)] at hr1; cases hr1
            | poke _ _ =>
              have := ha1; unfold step? at this; simp only [hadv'] at this
              simp only [Option.some.injEq] at this; subst this
              simp only at hr1 ⊢; rw [hnk']; exact h2 (by rw [← hrq']; exact hr1)
            | cres _ _ => rw [hm'] at hr1; simp at hr1
            | st _ _ _ _ => rw [hm'.2.2.2] at hr1 ⊢; rw [hnk']; exact h2 (by rw [← hrq']; exact hr1)
      have := (this pre init s hpre (by simp [init]) (by simp [init])).1 (by rw [← hin]; exact hini)
      exact this h0
  refine ⟨hep, hek, hk1, fun k hk => ?_⟩
  rw [hfr] at hk
  have := List.mem_range'_1.mp hk
  simp only [init] at this hn
  omega

/-! ### (6) outgoing wrappers never repeat a (session key, sequence number) pair -/

/-- Invariant tying the wrappers written so far (`hist`: client key id, server key id, sequence number) to the state. -/
def WInv (s : State) (hist : List (Nat × Nat × Nat)) : Prop :=
  (∀ p ∈ hist, p.1 ≤ s.kp) ∧
  (s.initialized = true → s.keyEp.1 = s.kp ∧ ∀ p ∈ hist, p.1 = s.kp → p.2.2 < s.seqSend) ∧
  (s.initialized = false → s.requested = true → ∀ p ∈ hist, p.1 < s.kp) ∧
  hist.Nodup ∧ s.keyReuse = false ∧
  (s.kp + 1 = s.nKeys ∨ (s.nKeys = 0 ∧ hist = [] ∧ s.initialized = false ∧ s.requested = false))

theorem winv_same (s s' : State) (hist : List (Nat × Nat × Nat)) (h : WInv s hist)
    (e1 : s'.kp = s.kp) (e2 : s'.initialized = s.initialized) (e3 : s'.keyEp = s.keyEp) (e4 : s'.seqSend = s.seqSend)
    (e5 : s'.requested = true → s.requested = true) (e6 : s'.keyReuse = s.keyReuse) (e7 : s'.nKeys = s.nKeys) :
    WInv s' hist := by
  obtain ⟨a, b, c, d, e, f⟩ := h
  refine ⟨by rw [e1]; exact a, by rw [e2, e3, e1, e4]; exact b, ?_, d, by rw [e6]; exact e, ?_⟩
  · intro hi hr; rw [e1]; exact c (by rw [← e2]; exact hi) (e5 hr)
  · rw [e1, e7, e2]
    rcases f with f | ⟨f1, f2, f3, f4⟩
    · exact Or.inl f
    · refine Or.inr ⟨f1, f2, f3, ?_⟩
      cases hr : s'.requested with
      | false => rfl
      | true => rw [e5 hr] at f4; cases f4

/-- appending the wrapper written under the current key with the current counter -/
theorem winv_write (s s' : State) (hist : List (Nat × Nat × Nat)) (h : WInv s hist) (hi : s.initialized = true)
    (e1 : s'.kp = s.kp) (e3 : s'.keyEp = s.keyEp) (e4 : s'.seqSend = s.seqSend + 1)
    (e5 : s'.initialized = false → s'.requested = false) (e6 : s'.keyReuse = s.keyReuse) (e7 : s'.nKeys = s.nKeys) :
    WInv s' (hist ++ [(s.keyEp.1, s.keyEp.2, s.seqSend)]) := by
  obtain ⟨a, b, c, d, e, f⟩ := h
  obtain ⟨b1, b2⟩ := b hi
  refine ⟨?_, ?_, ?_, ?_, by rw [e6]; exact e, ?_⟩
  · intro p hp
    rw [e1]
    rcases List.mem_append.mp hp with hp | hp
    · exact a p hp
    · simp only [List.mem_singleton] at hp; subst hp; simp only; omega
  · intro _
    rw [e3, e1, e4]
    refine ⟨b1, fun p hp hk => ?_⟩
    rcases List.mem_append.mp hp with hp | hp
    · have := b2 p hp hk; omega
    · simp only [List.mem_singleton] at hp; subst hp; simp only; omega
  · intro hi' hr'; rw [e5 hi'] at hr'; cases hr'
  · rw [List.nodup_append]
    refine ⟨d, by simp, fun x hx y hy => ?_⟩
    simp only [List.mem_singleton] at hy
    subst hy
    intro hxy
    subst hxy
    have := b2 _ hx (by simp only; exact b1)
    simp only at this; omega
  · rw [e1, e7]
    rcases f with f | ⟨-, -, f3, -⟩
    · exact Or.inl f
    · rw [hi] at f3; cases f3

theorem winv_step (s s' : State) (o : Obs) (hist : List (Nat × Nat × Nat)) (h : WInv s hist)
    (hs : step? s o = some s') (hp : isPoke o = false) (hk : s'.keyReuse = false) :
    WInv s' (hist ++ (writtenPair o).toList) := by
  obtain ⟨sa, hadv, hm⟩ := step_cases hs
  obtain ⟨-, -, -, -, -, hin, -, -, hsend⟩ := advance_fields hadv
  obtain ⟨hkp, hnk, hke, hrq, hkr⟩ := advance_epoch hadv
  have ha : WInv sa hist := winv_same s sa hist h hkp hin hke hsend (fun hr => by rw [← hrq]; exact hr) hkr hnk
  cases o with
  | conn t dap =>
    obtain ⟨-, rfl⟩ := hm
    simp only [writtenPair, Option.toList, List.append_nil]
    simp only [Bool.or_eq_false_iff] at hk
    obtain ⟨a, b, c, d, e, f⟩ := ha
    refine ⟨a, ?_, ?_, d, ?_, ?_⟩
    · intro hi; simp only at hi; rw [hk.2] at hi; cases hi
    · intro _ hr; simp at hr
    · simp [hk.1, hk.2]
    · rcases f with f | ⟨f1, f2, f3, -⟩
      · exact Or.inl f
      · exact Or.inr ⟨f1, f2, f3, rfl⟩
  | rxr t sid macOk es out =>
    rw [hm.2]
    obtain ⟨r1, r2, r3, r4, r5⟩ := rxResponse_epoch sa sid macOk es
    simp only [writtenPair, Option.toList, List.append_nil]
    exact winv_same sa _ hist ha r4 r1 r2 (plain_rule sa sid 0 macOk es).2.2.2.2.1 (fun hr => by rw [← r5]; exact hr)
      (by unfold rxResponse; by_cases h1 : sa.initialized = true <;> by_cases h2 : sa.connecting = true <;> simp [h1, h2]) r3
  | rxp t svc out =>
    rw [hm.2.2.2]
    simpa [writtenPair] using ha
  | rxw t sid seq macOk inner ek es out =>
    rw [hm.2.2]
    simp only [writtenPair, Option.toList, List.append_nil]
    by_cases hf : (rxWrapped sa sid seq macOk inner).1 = .fwd
    · rw [(wrapped_forward_sound sa (rxWrapped sa sid seq macOk inner).2 sid seq macOk inner (by rw [← hf])).2.2.2.2.2]
      exact winv_same sa _ hist ha rfl rfl rfl rfl (fun hr => hr) rfl rfl
    · rw [wrapped_reject_keeps_state sa sid seq macOk inner hf]; exact ha
  | ap t svc kp =>
    obtain ⟨i0, -, -, -, e, rfl⟩ := hm
    simp only [writtenPair, Option.toList, List.append_nil]
    obtain ⟨a, b, c, d, e', f⟩ := ha
    refine ⟨?_, ?_, ?_, d, e', Or.inl (by simp only; omega)⟩
    · intro p hp'
      have := a p hp'
      simp only
      rcases f with f | ⟨-, f2, -, -⟩
      · omega
      · rw [f2] at hp'; cases hp'
    · intro hi; simp only at hi; rw [i0] at hi; cases hi
    · intro _ _ p hp'
      have := a p hp'
      simp only
      rcases f with f | ⟨-, f2, -, -⟩
      · omega
      · rw [f2] at hp'; cases hp'
  | aw t seq svc aux ok sid ek es =>
    obtain ⟨-, q1, -, q2, -, q3, q4, q5, q6, q7, hor⟩ := autoWrite_spec hm
    simp only [writtenPair, Option.toList]
    rcases hor with ⟨-, i0, -, rq, -, ek1, rq', -⟩ | ⟨-, i1, -, ke, rq'⟩
    · -- handshake: first wrapper under the fresh key pair
      obtain ⟨a, b, c, d, e', f⟩ := ha
      have hlt := c i0 rq
      refine ⟨?_, ?_, ?_, ?_, ?_, ?_⟩
      · intro p hp'
        rw [q5]
        rcases List.mem_append.mp hp' with hp' | hp'
        · exact a p hp'
        · simp only [List.mem_singleton] at hp'; subst hp'; simp only; omega
      · intro _
        rw [← q4, q5, q2]
        refine ⟨ek1, fun p hp' hkk => ?_⟩
        rcases List.mem_append.mp hp' with hp' | hp'
        · have := hlt p hp'; omega
        · simp only [List.mem_singleton] at hp'; subst hp'; simp only; omega
      · intro hi; rw [q3] at hi; cases hi
      · rw [List.nodup_append]
        refine ⟨d, by simp, fun x hx y hy => ?_⟩
        simp only [List.mem_singleton] at hy
        subst hy
        intro hxy; subst hxy
        have := hlt _ hx; simp only at this; omega
      · rw [q7]; exact e'
      · rw [q5, q6]
        rcases f with f | ⟨-, -, -, f4⟩
        · exact Or.inl f
        · rw [rq] at f4; cases f4
    · have hw := winv_write sa s' hist ha i1 q5 ke (by rw [q2, q1]) (fun hi => by rw [q3] at hi; cases hi) q7 q6
      have e : (ek, es, seq) = (sa.keyEp.1, sa.keyEp.2, sa.seqSend) := by
        rw [← ke, ← q4, q1]
      rw [e]; exact hw
  | snd t svc aux out =>
    obtain ⟨hout, rfl⟩ := hm
    obtain ⟨-, p2, p3, -, p5, -, p7, p8, p9, p10, p11⟩ := send_spec sa svc
    cases out with
    | wrapped q ek es =>
      obtain ⟨a1, -, a3, a4, a5⟩ := p2 q ek es hout.symm
      simp only [writtenPair, Option.toList]
      have hw := winv_write sa _ hist ha a4 p7 p9 (by rw [a3, a1]) (fun hi => by rw [p5, a4] at hi; cases hi) p11 p8
      have e : (ek, es, q) = (sa.keyEp.1, sa.keyEp.2, sa.seqSend) := by rw [← a5, a1]
      rw [e]; exact hw
    | plain | errIpsec | errComm | nothing =>
      simp only [writtenPair, Option.toList, List.append_nil]
      rw [p3 (fun q ek es hq => by rw [← hout] at hq; cases hq)]; exact ha
  | stop t out =>
    obtain ⟨hout, rfl⟩ := hm
    obtain ⟨-, p2, p3, -, p5, p7, p8, p9, p11⟩ := stop_spec sa
    cases out with
    | wrapped q ek es =>
      obtain ⟨a1, -, a3, a4, a5, a6, a7⟩ := p2 q ek es hout.symm
      simp only [writtenPair, Option.toList]
      have hw := winv_write sa _ hist ha a4 p7 p9 (by rw [a3, a1]) (fun _ => a7) p11 p8
      have e : (ek, es, q) = (sa.keyEp.1, sa.keyEp.2, sa.seqSend) := by rw [← a5, a1]
      rw [e]; exact hw
    | plain | errIpsec | errComm | nothing =>
      simp only [writtenPair, Option.toList, List.append_nil]
      obtain ⟨k0, k1, k2⟩ := p3 (fun q ek es hq => by rw [← hout] at hq; cases hq)
      by_cases hsi : (stop sa).2.initialized = true
      · rw [k1 hsi]; exact ha
      · have hsi' : (stop sa).2.initialized = false := by simpa using hsi
        obtain ⟨a, b, c, d, e', f⟩ := ha
        refine ⟨?_, ?_, ?_, d, ?_, ?_⟩
        · rw [p7]; exact a
        · intro hi; rw [hsi'] at hi; cases hi
        · intro _ hr; rw [k2 hsi'] at hr; cases hr
        · rw [p11]; exact e'
        · rw [p7, p8]
          rcases f with f | ⟨f1, f2, -, -⟩
          · exact Or.inl f
          · exact Or.inr ⟨f1, f2, hsi', k2 hsi'⟩
  | poke t v => simp [isPoke] at hp
  | cres t ok =>
    rw [hm]
    simp only [writtenPair, Option.toList, List.append_nil]
    exact winv_same sa _ hist ha rfl rfl rfl rfl (fun hr => by simp at hr) rfl rfl
  | st t i r q =>
    rw [hm.2.2.2]
    simpa [writtenPair] using ha

theorem keyReuse_sticky (s s' : State) (o : Obs) (hs : step? s o = some s') (h : s'.keyReuse = false) :
    s.keyReuse = false := by
  obtain ⟨sa, hadv, hm⟩ := step_cases hs
  obtain ⟨-, -, -, -, hkr⟩ := advance_epoch hadv
  rw [← hkr]
  cases o with
  | conn t dap => rw [hm.2] at h; simp only [Bool.or_eq_false_iff] at h; exact h.1
  | rxr t sid macOk es out =>
    rw [hm.2] at h; unfold rxResponse at h
    by_cases h1 : sa.initialized = true <;> by_cases h2 : sa.connecting = true <;> simp [h1, h2] at h <;> exact h
  | rxp t svc out => rw [hm.2.2.2] at h; exact h
  | rxw t sid seq macOk inner ek es out =>
    rw [hm.2.2] at h
    by_cases hf : (rxWrapped sa sid seq macOk inner).1 = .fwd
    · rw [(wrapped_forward_sound sa (rxWrapped sa sid seq macOk inner).2 sid seq macOk inner (by rw [← hf])).2.2.2.2.2] at h
      exact h
    · rw [wrapped_reject_keeps_state sa sid seq macOk inner hf] at h; exact h
  | ap t svc kp => rw [hm.2.2.2.2.2] at h; exact h
  | aw t seq svc aux ok sid ek es => rw [(autoWrite_spec hm).2.2.2.2.2.2.2.2.2.1] at h; exact h
  | snd t svc aux out => rw [hm.2, (send_spec sa svc).2.2.2.2.2.2.2.2.2.2] at h; exact h
  | stop t out => rw [hm.2, (stop_spec sa).2.2.2.2.2.2.2.2] at h; exact h
  | poke t v =>
    have := hs; unfold step? at this; simp only [hadv] at this
    simp only [Option.some.injEq] at this; subst this; exact h
  | cres t ok => rw [hm] at h; exact h
  | st t i r q => rw [hm.2.2.2] at h; exact h

theorem keyReuse_run (tr : List Obs) (s s' : State) (hr : runFrom s tr = some s') (h : s'.keyReuse = false) :
    s.keyReuse = false := by
  induction tr generalizing s with
  | nil => simp only [runFrom, Option.some.injEq] at hr; subst hr; exact h
  | cons o os ih =>
    obtain ⟨s1, h1, h2⟩ := runFrom_cons hr
    exact keyReuse_sticky s s1 o h1 (ih s1 h2)

theorem winv_run (tr : List Obs) (s s' : State) (hist : List (Nat × Nat × Nat)) (h : WInv s hist)
    (hr : runFrom s tr = some s') (hp : ∀ o ∈ tr, isPoke o = false) (hk : s'.keyReuse = false) :
    WInv s' (hist ++ tr.filterMap writtenPair) := by
  induction tr generalizing s hist with
  | nil => simp only [runFrom, Option.some.injEq] at hr; subst hr; simpa using h
  | cons o os ih =>
    obtain ⟨s1, h1, h2⟩ := runFrom_cons hr
    have hk1 : s1.keyReuse = false := keyReuse_run os s1 s' h2 hk
    have := ih s1 _ (winv_step s s1 o hist h h1 (hp o (by simp)) hk1) h2 (fun x hx => hp x (by simp [hx]))
    rw [List.append_assoc] at this
    cases hw : writtenPair o with
    | none => simpa [List.filterMap_cons, hw] using this
    | some p => simpa [List.filterMap_cons, hw] using this

/-- **No (session key, sequence number) pair is used twice.**  Over ANY accepted trace from the initial state —
any number of sessions on the one object — in which the harness does not poke the counter and no `connect()`
restarted the counters under a still active session key (`keyReuse = false`; that can only happen after `stop()`
failed on an exhausted 48-bit counter), the wrappers written carry pairwise distinct (key epoch, sequence number)
pairs. -/
theorem written_pairs_distinct (tr : List Obs) (s' : State) (hr : runFrom init tr = some s')
    (hp : ∀ o ∈ tr, isPoke o = false) (hk : s'.keyReuse = false) : (tr.filterMap writtenPair).Nodup := by
  have h0 : WInv init [] := by
    refine ⟨?_, ?_, ?_, List.nodup_nil, rfl, Or.inr ⟨rfl, rfl, rfl, rfl⟩⟩
    · simp
    · simp [init]
    · simp
  have := (winv_run tr init s' [] h0 hr hp hk).2.2.2.1
  simpa using this

end XknxVerif.Props.C29
