/-
C29  A secure session only accepts fresh wrapped frames and never sends plain ones.
Property theorems only.  `macOk` (does the wrapper's MAC verify under the session key) is an
uninterpreted input: the theorems hold for every assignment of it.  Statements about traces hold for
EVERY trace the monitor `SecureSession.step?` accepts (any length, any interleaving).
-/
import XknxVerif.Lemmas.SecureSession

namespace XknxVerif.Props.C29
open XknxVerif.SecureSession
open XknxVerif.Generated.IPSecure

/-! ### (0) declarations of the code the model reads (regenerated each run) -/

/-- `FORBIDDEN_WRAPPED_SERVICES` contains the wrapper itself (no nesting) and the four remote
diagnosis / configuration services; the service codes are the ones of `KNXIPServiceType`. -/
theorem forbidden_declared :
    secureWrapper ∈ forbiddenWrapped ∧ (∀ c ∈ [0x0740, 0x0741, 0x0742, 0x0743], c ∈ forbiddenWrapped) ∧
    services.lookup "SECURE_WRAPPER" = some secureWrapper ∧
    services.lookup "SESSION_REQUEST" = some sessionRequest ∧
    services.lookup "SESSION_RESPONSE" = some sessionResponse ∧
    services.lookup "SESSION_AUTHENTICATE" = some sessionAuthenticate ∧
    services.lookup "SESSION_STATUS" = some sessionStatus ∧
    services.lookup "REMOTE_DIAG_REQUEST" = some 0x0740 ∧ services.lookup "REMOTE_DIAG_RESPONSE" = some 0x0741 ∧
    services.lookup "REMOTE_CONFIG_REQUEST" = some 0x0742 ∧ services.lookup "REMOTE_RESET_REQUEST" = some 0x0743 := by
  decide

/-! ### (1) what is passed on from a SecureWrapper -/

/-- A wrapped frame is forwarded only if the session is initialized, its MAC verifies, it carries our
session id, its sequence number is strictly above the last accepted one, and the inner frame parses
to a service that is neither a nested wrapper nor a remote-diagnosis service; the counter then moves
to exactly that sequence number. -/
theorem wrapped_forward_sound (s s' : State) (sid seq : Nat) (macOk : Bool) (inner : Inner)
    (h : rxWrapped s sid seq macOk inner = (.fwd, s')) :
    s.initialized = true ∧ macOk = true ∧ sid = s.sessionId ∧ s.seqRecv < (seq : Int) ∧
    (∃ v, inner = .svc v ∧ v ∉ forbiddenWrapped ∧ v ≠ secureWrapper ∧
          v ∉ [0x0740, 0x0741, 0x0742, 0x0743]) ∧
    s' = { s with seqRecv := seq } := by
  by_cases h1 : s.initialized = true
  · by_cases h2 : s.seqRecv < (seq : Int)
    · by_cases h3 : sid = s.sessionId
      · cases macOk with
        | false => simp [rxWrapped, h1, h2, h3] at h
        | true =>
          cases inner with
          | unparsable => simp [rxWrapped, h1, h2, h3] at h
          | svc v =>
            by_cases h5 : v ∈ forbiddenWrapped
            · simp [rxWrapped, h1, h2, h3, h5] at h
            · have e : rxWrapped s sid seq true (.svc v) = (.fwd, { s with seqRecv := seq }) := by
                unfold rxWrapped; simp [h1, h2, h3, h5]
              rw [e] at h
              refine ⟨h1, rfl, h3, h2, ⟨v, rfl, h5, ?_, ?_⟩, (Prod.mk.inj h).2.symm⟩
              · intro hv; exact h5 (hv ▸ forbidden_declared.1)
              · intro hv; exact h5 (forbidden_declared.2.1 v hv)
      · simp [rxWrapped, h1, h2, h3] at h
    · simp [rxWrapped, h1, h2] at h
  · simp [rxWrapped, h1] at h

/-- Completeness of the same rule: exactly those frames are forwarded. -/
theorem wrapped_forward_iff (s : State) (sid seq : Nat) (macOk : Bool) (inner : Inner) :
    (rxWrapped s sid seq macOk inner).1 = .fwd ↔
      s.initialized = true ∧ macOk = true ∧ sid = s.sessionId ∧ s.seqRecv < (seq : Int) ∧
      ∃ v, inner = .svc v ∧ v ∉ forbiddenWrapped := by
  constructor
  · intro h
    have := wrapped_forward_sound s (rxWrapped s sid seq macOk inner).2 sid seq macOk inner
      (by rw [← h])
    obtain ⟨a, b, c, d, ⟨v, hv, hf, -, -⟩, -⟩ := this
    exact ⟨a, b, c, d, v, hv, hf⟩
  · rintro ⟨a, b, c, d, v, rfl, hf⟩
    unfold rxWrapped
    simp [a, b, c, d, hf]

/-- A wrapper that is not forwarded (dropped, or refused with an exception before the handshake) leaves the
whole session state — in particular the receive counter — unchanged. -/
theorem wrapped_reject_keeps_state (s : State) (sid seq : Nat) (macOk : Bool) (inner : Inner)
    (h : (rxWrapped s sid seq macOk inner).1 ≠ .fwd) : (rxWrapped s sid seq macOk inner).2 = s := by
  unfold rxWrapped at h ⊢
  by_cases h1 : s.initialized = true
  · by_cases h2 : s.seqRecv < (seq : Int)
    · by_cases h3 : sid = s.sessionId
      · cases macOk with
        | false => simp [h1, h2, h3]
        | true =>
          cases inner with
          | unparsable => simp [h1, h2, h3]
          | svc v =>
            by_cases h5 : v ∈ forbiddenWrapped
            · simp [h1, h2, h3, h5]
            · simp [h1, h2, h3, h5] at h
      · simp [h1, h2, h3]
    · simp [h1, h2]
  · simp [h1]

/-- Before the handshake a wrapper is never forwarded. -/
theorem wrapped_before_handshake (s : State) (sid seq : Nat) (macOk : Bool) (inner : Inner)
    (h : s.initialized = false) : rxWrapped s sid seq macOk inner = (.exc, s) := by
  simp [rxWrapped, h]

/-! ### (2) plain frames -/

/-- The only plain frame ever passed on is the SessionResponse, and only while the session is not
initialized; no plain frame touches the counters or the initialized flag. -/
theorem plain_rule (s : State) (sid svc : Nat) (macOk : Bool) :
    (rxPlain s svc).1 = .drop ∧ (rxPlain s svc).2 = s ∧
    ((rxResponse s sid macOk).1 = .fwd ↔ s.initialized = false) ∧
    (rxResponse s sid macOk).2.seqRecv = s.seqRecv ∧ (rxResponse s sid macOk).2.seqSend = s.seqSend ∧
    (rxResponse s sid macOk).2.initialized = s.initialized := by
  refine ⟨rfl, rfl, ?_, ?_, ?_, ?_⟩ <;> unfold rxResponse <;>
    by_cases hi : s.initialized = true <;> by_cases hc : s.connecting = true <;> simp [hi, hc]

/-! ### step-level facts -/

/-- the sequence number a forwarded wrapper carried -/
def fwdSeq : Obs → Option Nat
  | .rxw _ _ seq _ _ .fwd => some seq
  | _ => none

def isConn : Obs → Bool
  | .conn _ _ => true
  | _ => false

def isPoke : Obs → Bool
  | .poke _ _ => true
  | _ => false

/-- the plain frame an observation wrote, if any -/
def plainWritten : Obs → Option Nat
  | .ap _ svc => some svc
  | .snd _ svc _ .plain => some svc
  | _ => none

/-- the sequence number of the wrapper an observation wrote, if any -/
def wrappedWritten : Obs → Option Nat
  | .aw _ seq _ _ _ _ => some seq
  | .snd _ _ _ (.wrapped seq) => some seq
  | .stop _ (.wrapped seq) => some seq
  | _ => none

/-- How one accepted observation moves the receive counter. -/
theorem recv_counter_step (s s' : State) (o : Obs) (h : step? s o = some s') :
    (∀ q, fwdSeq o = some q → s.seqRecv < (q : Int) ∧ s'.seqRecv = q ∧ s.initialized = true) ∧
    (fwdSeq o = none → isConn o = false → s'.seqRecv = s.seqRecv) := by
  obtain ⟨sa, hadv, hm⟩ := step_cases h
  obtain ⟨-, -, -, -, -, hin, -, hrecv, -⟩ := advance_fields hadv
  cases o with
  | rxw t sid seq macOk inner out =>
    obtain ⟨hout, hs'⟩ := hm
    cases out with
    | fwd =>
      have := wrapped_forward_sound sa s' sid seq macOk inner (by rw [hs', hout])
      obtain ⟨a, -, -, d, -, e⟩ := this
      refine ⟨fun q hq => ?_, fun hn => by simp [fwdSeq] at hn⟩
      simp only [fwdSeq, Option.some.injEq] at hq
      subst hq
      rw [← hrecv, ← hin]
      exact ⟨d, by rw [e], a⟩
    | drop =>
      refine ⟨fun q hq => by simp [fwdSeq] at hq, fun _ _ => ?_⟩
      rw [hs', wrapped_reject_keeps_state sa sid seq macOk inner (by rw [← hout]; simp), hrecv]
    | exc =>
      refine ⟨fun q hq => by simp [fwdSeq] at hq, fun _ _ => ?_⟩
      rw [hs', wrapped_reject_keeps_state sa sid seq macOk inner (by rw [← hout]; simp), hrecv]
  | conn t dap => exact ⟨fun q hq => by simp [fwdSeq] at hq, fun _ hc => by simp [isConn] at hc⟩
  | rxr t sid macOk out =>
    refine ⟨fun q hq => by simp [fwdSeq] at hq, fun _ _ => ?_⟩
    rw [hm.2, (plain_rule sa sid 0 macOk).2.2.2.1, hrecv]
  | rxp t svc out =>
    refine ⟨fun q hq => by simp [fwdSeq] at hq, fun _ _ => ?_⟩
    rw [hm.2.2.2, hrecv]
  | ap t svc =>
    refine ⟨fun q hq => by simp [fwdSeq] at hq, fun _ _ => ?_⟩
    rw [hm.2.2.2.2, hrecv]
  | aw t seq svc aux ok sid =>
    refine ⟨fun q hq => by simp [fwdSeq] at hq, fun _ _ => ?_⟩
    rw [(autoWrite_spec hm).2.2.2.2.1, hrecv]
  | snd t svc aux out =>
    refine ⟨fun q hq => by simp [fwdSeq] at hq, fun _ _ => ?_⟩
    rw [hm.2, (send_spec sa svc).2.2.2.1, hrecv]
  | stop t out =>
    refine ⟨fun q hq => by simp [fwdSeq] at hq, fun _ _ => ?_⟩
    rw [hm.2, (stop_spec sa).2.2.2.1, hrecv]
  | poke t v =>
    refine ⟨fun q hq => by simp [fwdSeq] at hq, fun _ _ => ?_⟩
    rw [hm.2.1, hrecv]
  | cres t ok =>
    refine ⟨fun q hq => by simp [fwdSeq] at hq, fun _ _ => ?_⟩
    rw [hm]; exact hrecv
  | st t i r q =>
    refine ⟨fun q hq => by simp [fwdSeq] at hq, fun _ _ => ?_⟩
    rw [hm.2.2.2, hrecv]

/-! ### (3) strictly increasing sequence numbers; rejected frames do not advance the counter -/

/-- Every received frame that is not forwarded — dropped wrapper, refused wrapper, any plain frame — leaves the
receive counter where it was (any accepted observation other than a forwarded wrapper or a new `connect()`). -/
theorem rejected_frames_keep_counter (s s' : State) (o : Obs) (h : step? s o = some s')
    (hf : fwdSeq o = none) (hc : isConn o = false) : s'.seqRecv = s.seqRecv :=
  (recv_counter_step s s' o h).2 hf hc

/-- Within one connection (no new `connect()` in `tr`), over ANY accepted sequence of received frames and other
events: the sequence numbers of the forwarded wrappers are strictly increasing, all above the counter at the
start and none above the counter at the end. -/
theorem forwarded_seqs_increasing (tr : List Obs) (s s' : State) (h : runFrom s tr = some s')
    (hc : ∀ o ∈ tr, isConn o = false) :
    List.Pairwise (· < ·) (tr.filterMap fwdSeq) ∧
    (∀ q ∈ tr.filterMap fwdSeq, s.seqRecv < (q : Int) ∧ (q : Int) ≤ s'.seqRecv) ∧
    s.seqRecv ≤ s'.seqRecv := by
  induction tr generalizing s with
  | nil =>
    simp only [runFrom, Option.some.injEq] at h; subst h
    simp
  | cons o os ih =>
    obtain ⟨s1, h1, h2⟩ := runFrom_cons h
    obtain ⟨ihp, ihq, ihle⟩ := ih s1 h2 (fun o' ho' => hc o' (by simp [ho']))
    obtain ⟨st1, st2⟩ := recv_counter_step s s1 o h1
    cases hfo : fwdSeq o with
    | none =>
      have e := st2 hfo (hc o (by simp))
      simp only [List.filterMap_cons, hfo]
      rw [e] at ihq ihle
      exact ⟨ihp, ihq, ihle⟩
    | some q =>
      obtain ⟨a, b, -⟩ := st1 q hfo
      simp only [List.filterMap_cons, hfo, List.pairwise_cons, List.mem_cons, forall_eq_or_imp]
      rw [b] at ihq ihle
      refine ⟨⟨fun q' hq' => ?_, ihp⟩, ⟨⟨a, ihle⟩, fun q' hq' => ?_⟩, by omega⟩
      · have := (ihq q' hq').1; omega
      · have := ihq q' hq'; exact ⟨by omega, this.2⟩

/-! ### (4) what the session writes -/

/-- How one accepted observation writes and moves the send counter. -/
theorem write_step (s s' : State) (o : Obs) (h : step? s o = some s') :
    (∀ svc, plainWritten o = some svc → s.initialized = false ∧ svc = sessionRequest) ∧
    (∀ q, wrappedWritten o = some q → q = s.seqSend ∧ q < seqLimit ∧ s'.seqSend = q + 1) ∧
    (wrappedWritten o = none → isConn o = false → isPoke o = false → s'.seqSend = s.seqSend) ∧
    (∀ t d, o = .conn t d → s'.seqSend = 0) := by
  obtain ⟨sa, hadv, hm⟩ := step_cases h
  obtain ⟨-, -, -, -, -, hin, -, -, hsend⟩ := advance_fields hadv
  cases o with
  | conn t dap =>
    refine ⟨fun _ hp => by simp [plainWritten] at hp, fun _ hw => by simp [wrappedWritten] at hw,
      fun _ hc => by simp [isConn] at hc, fun _ _ _ => by rw [hm.2]⟩
  | rxr t sid macOk out =>
    refine ⟨fun _ hp => by simp [plainWritten] at hp, fun _ hw => by simp [wrappedWritten] at hw,
      fun _ _ _ => ?_, fun _ _ hc => by cases hc⟩
    rw [hm.2, (plain_rule sa sid 0 macOk).2.2.2.2.1, hsend]
  | rxp t svc out =>
    refine ⟨fun _ hp => by simp [plainWritten] at hp, fun _ hw => by simp [wrappedWritten] at hw,
      fun _ _ _ => by rw [hm.2.2.2]; exact hsend, fun _ _ hc => by cases hc⟩
  | rxw t sid seq macOk inner out =>
    refine ⟨fun _ hp => by simp [plainWritten] at hp, fun _ hw => by simp [wrappedWritten] at hw,
      fun _ _ _ => ?_, fun _ _ hc => by cases hc⟩
    rw [hm.2, ← hsend]
    by_cases hf : (rxWrapped sa sid seq macOk inner).1 = .fwd
    · have := wrapped_forward_sound sa (rxWrapped sa sid seq macOk inner).2 sid seq macOk inner (by rw [← hf])
      rw [this.2.2.2.2.2]
    · rw [wrapped_reject_keeps_state sa sid seq macOk inner hf]
  | ap t svc =>
    refine ⟨fun svc' hp => ?_, fun _ hw => by simp [wrappedWritten] at hw,
      fun _ _ _ => by rw [hm.2.2.2.2]; exact hsend, fun _ _ hc => by cases hc⟩
    simp only [plainWritten, Option.some.injEq] at hp
    subst hp
    exact ⟨by rw [← hin]; exact hm.1, hm.2.2.2.1⟩
  | aw t seq svc aux ok sid =>
    refine ⟨fun _ hp => by simp [plainWritten] at hp, fun q hw => ?_,
      fun hw => by simp [wrappedWritten] at hw, fun _ _ hc => by cases hc⟩
    simp only [wrappedWritten, Option.some.injEq] at hw
    subst hw
    obtain ⟨-, a, b, c, -⟩ := autoWrite_spec hm
    exact ⟨by rw [← hsend]; exact a, b, c⟩
  | snd t svc aux out =>
    obtain ⟨hout, hs'⟩ := hm
    obtain ⟨p1, p2, p3, -, -, -⟩ := send_spec sa svc
    refine ⟨fun svc' hp => ?_, fun q hw => ?_, fun hw _ _ => ?_, fun _ _ hc => by cases hc⟩
    · cases out <;> simp only [plainWritten, Option.some.injEq, reduceCtorEq] at hp
      subst hp
      rw [← hin]; exact p1 hout.symm
    · cases out <;> simp only [wrappedWritten, Option.some.injEq, reduceCtorEq] at hw
      subst hw
      obtain ⟨a, b, c, -⟩ := p2 _ hout.symm
      exact ⟨by rw [← hsend]; exact a, b, by rw [hs']; exact c⟩
    · rw [hs', p3 (fun q hq => by rw [← hout] at hq; rw [hq] at hw; simp [wrappedWritten] at hw), hsend]
  | stop t out =>
    obtain ⟨hout, hs'⟩ := hm
    obtain ⟨-, p2, p3, -, -⟩ := stop_spec sa
    refine ⟨fun _ hp => by simp [plainWritten] at hp, fun q hw => ?_, fun hw _ _ => ?_,
      fun _ _ hc => by cases hc⟩
    · cases out <;> simp only [wrappedWritten, Option.some.injEq, reduceCtorEq] at hw
      subst hw
      obtain ⟨a, b, c, -⟩ := p2 _ hout.symm
      exact ⟨by rw [← hsend]; exact a, b, by rw [hs']; exact c⟩
    · rw [hs', p3 (fun q hq => by rw [← hout] at hq; rw [hq] at hw; simp [wrappedWritten] at hw), hsend]
  | poke t v =>
    refine ⟨fun _ hp => by simp [plainWritten] at hp, fun _ hw => by simp [wrappedWritten] at hw,
      fun _ _ hp => by simp [isPoke] at hp, fun _ _ hc => by cases hc⟩
  | cres t ok =>
    refine ⟨fun _ hp => by simp [plainWritten] at hp, fun _ hw => by simp [wrappedWritten] at hw,
      fun _ _ _ => by rw [hm]; exact hsend, fun _ _ hc => by cases hc⟩
  | st t i r q =>
    refine ⟨fun _ hp => by simp [plainWritten] at hp, fun _ hw => by simp [wrappedWritten] at hw,
      fun _ _ _ => by rw [hm.2.2.2]; exact hsend, fun _ _ hc => by cases hc⟩

/-- The session never writes a plain frame other than the SessionRequest, and none at all once it is
initialized: any accepted observation that wrote a plain frame found the session uninitialized and wrote a
SessionRequest. -/
theorem plain_write_only_session_request (s s' : State) (o : Obs) (svc : Nat)
    (h : step? s o = some s') (hp : plainWritten o = some svc) :
    s.initialized = false ∧ svc = sessionRequest :=
  (write_step s s' o h).1 svc hp

/-- Hence after the handshake every frame is wrapped: with the session initialized no accepted observation
writes a plain frame. -/
theorem initialized_writes_only_wrapped (s s' : State) (o : Obs) (h : step? s o = some s')
    (hi : s.initialized = true) : plainWritten o = none := by
  cases hp : plainWritten o with
  | none => rfl
  | some svc => have := (write_step s s' o h).1 svc hp; rw [hi] at this; cases this.1

/-- Within one connection and without the harness poking the counter, over ANY accepted trace the wrappers
written carry the consecutive sequence numbers `n, n+1, n+2, …` from the counter at the start (no gap, no
repeat, no wrap-around: each is below 2^48). -/
theorem wrapped_seqs_consecutive (tr : List Obs) (s s' : State) (h : runFrom s tr = some s')
    (hc : ∀ o ∈ tr, isConn o = false ∧ isPoke o = false) :
    tr.filterMap wrappedWritten = List.range' s.seqSend (tr.filterMap wrappedWritten).length ∧
    s'.seqSend = s.seqSend + (tr.filterMap wrappedWritten).length ∧
    ∀ q ∈ tr.filterMap wrappedWritten, q < seqLimit := by
  induction tr generalizing s with
  | nil =>
    simp only [runFrom, Option.some.injEq] at h; subst h
    simp
  | cons o os ih =>
    obtain ⟨s1, h1, h2⟩ := runFrom_cons h
    obtain ⟨ih1, ih2, ih3⟩ := ih s1 h2 (fun o' ho' => hc o' (by simp [ho']))
    obtain ⟨-, w2, w3, -⟩ := write_step s s1 o h1
    cases hw : wrappedWritten o with
    | none =>
      have e := w3 hw (hc o (by simp)).1 (hc o (by simp)).2
      simp only [List.filterMap_cons, hw]
      rw [e] at ih1 ih2
      exact ⟨ih1, ih2, ih3⟩
    | some q =>
      obtain ⟨a, b, c⟩ := w2 q hw
      simp only [List.filterMap_cons, hw, List.length_cons, List.range'_succ, List.mem_cons, forall_eq_or_imp]
      rw [c] at ih1 ih2
      refine ⟨?_, by omega, b, ih3⟩
      rw [← a, ← ih1]

/-- After `connect()` the first wrapper written has sequence number 0, the next 1, …  -/
theorem wrapped_seqs_from_zero (t : Nat) (d : Bool) (tr : List Obs) (s s' : State)
    (h : runFrom s (.conn t d :: tr) = some s')
    (hc : ∀ o ∈ tr, isConn o = false ∧ isPoke o = false) :
    tr.filterMap wrappedWritten = List.range' 0 (tr.filterMap wrappedWritten).length := by
  obtain ⟨s1, h1, h2⟩ := runFrom_cons h
  have := (write_step s s1 _ h1).2.2.2 t d rfl
  have h3 := (wrapped_seqs_consecutive tr s1 s' h2 hc).1
  rw [this] at h3
  exact h3

/-- 48-bit exhaustion: with the send counter at 2^48 (or beyond) a `send` on an initialized session
raises `IPSecureError`, writes nothing and leaves the counter where it is — it does not wrap around. -/
theorem exhausted_counter_errors (s s' : State) (t svc aux : Nat) (out : TxOut)
    (h : step? s (.snd t svc aux out) = some s') (hi : s.initialized = true) (hx : seqLimit ≤ s.seqSend) :
    out = .errIpsec ∧ s'.seqSend = s.seqSend ∧ s'.initialized = true := by
  obtain ⟨sa, hadv, hout, hs'⟩ := step_cases h
  obtain ⟨-, -, -, -, -, hin, -, -, hsend⟩ := advance_fields hadv
  obtain ⟨-, -, p3, -, p5, p6⟩ := send_spec sa svc
  have he := p6 (by rw [hin]; exact hi) (by rw [hsend]; exact hx)
  refine ⟨by rw [hout, he], ?_, by rw [hs', p5, hin]; exact hi⟩
  rw [hs', p3 (fun q hq => by rw [he] at hq; cases hq), hsend]

/-- Same for `stop()`: no wrapped CLOSE with a wrapped-around number. -/
theorem exhausted_counter_stop (s s' : State) (t : Nat) (out : TxOut)
    (h : step? s (.stop t out) = some s') : ∀ q, out = .wrapped q → q < seqLimit :=
  fun q hq => ((write_step s s' _ h).2.1 q (by simp [wrappedWritten, hq])).2.1

/-- The session becomes initialized only through the handshake: a SessionResponse was forwarded to the pending
`connect()` (so the session was uninitialized then), its MAC verified if a device authentication code is
configured, and the observation is the wrapped SessionAuthenticate with the number the counter had (0 after
`connect()`) and the session id of that response. -/
theorem initialized_only_by_handshake (s s' : State) (o : Obs) (h : step? s o = some s')
    (h0 : s.initialized = false) (h1 : s'.initialized = true) :
    ∃ t seq aux sid mac, o = .aw t seq sessionAuthenticate aux true sid ∧ s.resp = some (sid, mac) ∧
      s.connecting = true ∧ (s.dap = true → mac = true) ∧ seq = s.seqSend ∧ s'.sessionId = sid := by
  obtain ⟨sa, hadv, hm⟩ := step_cases h
  obtain ⟨-, -, hcon, hresp, hdap, hin, -, -, hsend⟩ := advance_fields hadv
  rw [← hin] at h0
  cases o with
  | aw t seq svc aux ok sid =>
    obtain ⟨a, b, -, -, -, -, hor⟩ := autoWrite_spec hm
    rcases hor with ⟨c1, -, c3, c4, rmac, c5, c6⟩ | ⟨-, c2, -⟩
    · refine ⟨t, seq, aux, sid, rmac, by rw [c1, a], by rw [← hresp]; exact c5, by rw [← hcon]; exact c3,
        fun hd => c6 (by rw [hdap]; exact hd), by rw [← hsend]; exact b, c4⟩
    · rw [h0] at c2; cases c2
  | conn t dap => rw [hm.2] at h1; simp only at h1; rw [h0] at h1; cases h1
  | rxr t sid macOk out => rw [hm.2, (plain_rule sa sid 0 macOk).2.2.2.2.2, h0] at h1; cases h1
  | rxp t svc out => rw [hm.2.2.2, h0] at h1; cases h1
  | rxw t sid seq macOk inner out =>
    rw [hm.2, wrapped_before_handshake sa sid seq macOk inner h0, h0] at h1; cases h1
  | ap t svc => rw [hm.2.2.2.2, h0] at h1; cases h1
  | snd t svc aux out => rw [hm.2, (send_spec sa svc).2.2.2.2.1, h0] at h1; cases h1
  | stop t out => have := (stop_spec sa).2.2.2.2 (by rw [← hm.2]; exact h1); rw [h0] at this; cases this
  | poke t v => rw [hm.2.2, h0] at h1; cases h1
  | cres t ok => rw [hm] at h1; simp only at h1; rw [h0] at h1; cases h1
  | st t i r q => rw [hm.2.2.2, h0] at h1; cases h1

/-! ### Non-vacuity -/

/-- a complete little session: handshake, one genuine frame, a replay and a forged one dropped, a nested wrapper
dropped, a request, the keepalive 50 s later, close on stop -/
example : accepts [.conn 0 true, .ap 0 sessionRequest, .rxr 0 7 true .fwd, .aw 0 0 sessionAuthenticate 0 true 7,
    .rxw 0 7 0 true (.svc sessionStatus) .fwd, .cres 0 true, .st 0 true 0 1,
    .rxw 5 7 0 true (.svc 0x0421) .drop, .rxw 5 7 1 false (.svc 0x0421) .drop, .rxw 5 7 1 true (.svc secureWrapper) .drop,
    .rxw 5 7 1 true (.svc 0x0421) .fwd, .rxp 6 0x0421 .drop, .snd 10 0x0420 0 (.wrapped 1),
    .aw 50010 2 sessionStatus statusKeepalive true 7, .stop 50020 (.wrapped 3), .st 50020 false 1 4] := by decide
/-- a replayed wrapper that is passed on is not an accepted trace -/
example : ¬ accepts [.conn 0 true, .ap 0 sessionRequest, .rxr 0 7 true .fwd, .aw 0 0 sessionAuthenticate 0 true 7,
    .rxw 0 7 0 true (.svc sessionStatus) .fwd, .rxw 5 7 0 true (.svc 0x0421) .fwd] := by decide
/-- a plain frame written after the handshake is not an accepted trace -/
example : ¬ accepts [.conn 0 true, .ap 0 sessionRequest, .rxr 0 7 true .fwd, .aw 0 0 sessionAuthenticate 0 true 7,
    .snd 1 0x0420 0 .plain] := by decide
/-- the counter at 2^48: IPSecureError, nothing written -/
example : accepts [.conn 0 false, .ap 0 sessionRequest, .rxr 0 7 false .fwd, .aw 0 0 sessionAuthenticate 0 true 7,
    .poke 1 281474976710655, .snd 1 0x0420 0 (.wrapped 281474976710655), .snd 1 0x0420 0 .errIpsec,
    .st 1 true (-1) 281474976710656] := by decide
example : ∃ s, s.initialized = true ∧ rxWrapped s 7 5 true (.svc 0x0421) = (.fwd, { s with seqRecv := 5 }) :=
  ⟨{ initialized := true, sessionId := 7, seqRecv := 4 }, rfl, by decide⟩

end XknxVerif.Props.C29
