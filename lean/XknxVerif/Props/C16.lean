/-
C16  Tampered Data Secure frames are never delivered.   (PARTIAL – see (e))

Unconditional, for every block function `E` with 16-octet outputs:
 (a) acceptance ⇔ the received MAC field equals the recomputed one; equivalently the
     frame is octet for octet what the sending algorithm produces for the delivered plaintext;
 (b) replacing the MAC field by any other value of the same length rejects
     (in particular every single-bit flip of the four MAC octets);
 (c) the control-field bits other than Address Type and Extended Frame Format
     (frame type, repeat, system broadcast, priority, ack request, confirm, hop
     count) never reach `block_0` / the receive decision;
 (d) (src, dst, address type, EFF, TPCI, SCF, sequence number, APDU) ↦ CBC-MAC
     input is injective.
Conditional:
 (e) a frame in which any protected field was changed is rejected PROVIDED the
     four-octet MAC field the construction assigns to the changed content differs
     from the one in the frame (`hNoColl`).  By (d) the two CBC-MAC inputs are
     different octet strings, so `hNoColl` only excludes a genuine collision of a
     32-bit truncated MAC.  Without it the statement is false for any 32-bit MAC
     (pigeonhole), which is why C16 is claimed as partial.
-/
import XknxVerif.Lemmas.DataSecureInj
import XknxVerif.Crypto.AES128

namespace XknxVerif.Props.C16
open XknxVerif XknxVerif.Crypto XknxVerif.DataSecure
open XknxVerif.Generated.DataSecure (algAuth algEnc svcData apciSecHigh apciSecLow sequenceNumberMax)

/-! ### (a) acceptance ⇔ MAC equality -/

/-- Authentication only: accepted iff `block_0`/CBC-MAC can be computed and the first
four octets of the recomputed MAC equal the MAC field; the APDU handed up is the one in the frame. -/
theorem accept_iff_mac_auth (E : BlockFn) (key : Bytes) (scf : Scf) (c : Ctx) (d : SecureData) (p : Bytes)
    (ha : scf.algorithm = algAuth) :
    getPlain E key scf c d = .ok p ↔
      ∃ b0 m, block0 d.seq c 0 = .ok b0 ∧ macCbc E key (scf.toKnx :: d.sapdu) [] b0 = .ok m
        ∧ m.take 4 = d.mac ∧ p = d.sapdu := by
  have hne : scf.algorithm ≠ algEnc := fun h' => algAuth_ne_algEnc (ha ▸ h')
  unfold getPlain
  rw [if_neg hne, if_pos ha]
  unfold plainAuth
  constructor
  · intro h
    cases hb : block0 d.seq c 0 with
    | error e => rw [hb] at h; simp at h
    | ok b0 =>
      rw [hb] at h
      simp only at h
      cases hm : macCbc E key (scf.toKnx :: d.sapdu) [] b0 with
      | error e => rw [hm] at h; simp at h
      | ok m =>
        rw [hm] at h
        simp only at h
        by_cases hmac : m.take 4 = d.mac
        · simp only [hmac, ne_eq, not_true_eq_false, ↓reduceIte, Except.ok.injEq] at h
          exact ⟨b0, m, rfl, hm, hmac, h.symm⟩
        · simp [hmac] at h
  · rintro ⟨b0, m, hb, hm, hmac, rfl⟩
    rw [hb]
    simp only
    rw [hm]
    simp [hmac]

/-- Authenticated encryption: accepted iff the recomputed MAC over the decrypted
payload equals the decrypted MAC field. -/
theorem accept_iff_mac_enc (E : BlockFn) (key : Bytes) (scf : Scf) (c : Ctx) (d : SecureData) (p : Bytes)
    (he : scf.algorithm = algEnc) :
    getPlain E key scf c d = .ok p ↔
      ∃ b0 m, block0 d.seq c (ctrXor2 E key (counter0 d.seq c.addr) d.mac d.sapdu).1.length = .ok b0
        ∧ macCbc E key [scf.toKnx] (ctrXor2 E key (counter0 d.seq c.addr) d.mac d.sapdu).1 b0 = .ok m
        ∧ m.take 4 = (ctrXor2 E key (counter0 d.seq c.addr) d.mac d.sapdu).2
        ∧ p = (ctrXor2 E key (counter0 d.seq c.addr) d.mac d.sapdu).1 := by
  unfold getPlain
  rw [if_pos he]
  unfold plainEnc
  simp only
  generalize ctrXor2 E key (counter0 d.seq c.addr) d.mac d.sapdu = r
  constructor
  · intro h
    cases hb : block0 d.seq c r.1.length with
    | error e => rw [hb] at h; simp at h
    | ok b0 =>
      rw [hb] at h
      simp only at h
      cases hm : macCbc E key [scf.toKnx] r.1 b0 with
      | error e => rw [hm] at h; simp at h
      | ok m =>
        rw [hm] at h
        simp only at h
        by_cases hmac : m.take 4 = r.2
        · simp only [hmac, ne_eq, not_true_eq_false, ↓reduceIte, Except.ok.injEq] at h
          exact ⟨b0, m, rfl, hm, hmac, h.symm⟩
        · simp [hmac] at h
  · rintro ⟨b0, m, hb, hm, hmac, rfl⟩
    rw [hb]
    simp only
    rw [hm]
    simp [hmac]

/-- Both algorithms at once: the accepted frames are exactly the image of the sending algorithm. -/
theorem accept_iff_genuine (E : BlockFn) (hE : E.Len16) (key : Bytes) (scf : Scf) (c : Ctx)
    (d : SecureData) (p : Bytes) :
    getPlain E key scf c d = .ok p ↔ secureWith E key scf d.seq c p = .ok d :=
  getPlain_ok_iff E hE key scf c d p

/-! ### (b) any other MAC field rejects -/

theorem mac_change_rejected (E : BlockFn) (hE : E.Len16) (key : Bytes) (scf : Scf) (c : Ctx)
    (d : SecureData) (p mac' : Bytes) (hacc : getPlain E key scf c d = .ok p)
    (hlen : mac'.length = d.mac.length) (hne : mac' ≠ d.mac) :
    getPlain E key scf c { d with mac := mac' } = .error .mac := by
  by_cases he : scf.algorithm = algEnc
  · obtain ⟨b0, m, hb, hm, hmac, _⟩ := (accept_iff_mac_enc E key scf c d p he).mp hacc
    have h1 := ctrXor2_fst_congr E key (counter0 d.seq c.addr) mac' d.mac d.sapdu hlen
    unfold getPlain
    rw [if_pos he]
    unfold plainEnc
    simp only
    rw [h1, hb]
    simp only
    rw [hm]
    have hne2 : m.take 4 ≠ (ctrXor2 E key (counter0 d.seq c.addr) mac' d.sapdu).2 := by
      intro h'
      rw [hmac] at h'
      exact hne (ctrXor2_snd_inj E hE key _ mac' d.mac d.sapdu hlen h'.symm)
    simp [hne2]
  · by_cases ha : scf.algorithm = algAuth
    · obtain ⟨b0, m, hb, hm, hmac, _⟩ := (accept_iff_mac_auth E key scf c d p ha).mp hacc
      unfold getPlain
      rw [if_neg he, if_pos ha]
      unfold plainAuth
      simp only
      rw [hb]
      simp only
      rw [hm]
      have : m.take 4 ≠ mac' := fun h' => hne (h'.symm.trans hmac)
      simp [this]
    · unfold getPlain at hacc
      rw [if_neg he, if_neg ha] at hacc
      simp at hacc

/-- XOR with a non-zero mask changes an octet string (so a bit flip is a change). -/
theorem xor_mask_ne (a m : Bytes) (hl : m.length = a.length) (hm : ∃ x ∈ m, x ≠ 0) : xorBytes a m ≠ a := by
  induction a generalizing m with
  | nil =>
    obtain ⟨x, hx, _⟩ := hm
    cases m with
    | nil => simp at hx
    | cons _ _ => simp at hl
  | cons y ys ih =>
    cases m with
    | nil => simp at hl
    | cons k ks =>
      obtain ⟨x, hx, hx0⟩ := hm
      simp only [xorBytes, List.zipWith_cons_cons, ne_eq, List.cons.injEq, not_and]
      intro hk
      have hk0 : k = 0 := by
        have := congrArg (y ^^^ ·) hk
        simp only [← Nat.xor_assoc, Nat.xor_self, Nat.zero_xor] at this
        exact this
      rcases List.mem_cons.mp hx with rfl | hx'
      · exact absurd hk0 hx0
      · exact ih ks (by simpa using hl) ⟨x, hx', hx0⟩

/-- (b) as a bit-flip statement: XOR-ing any non-zero mask onto the MAC field rejects. -/
theorem mac_bitflip_rejected (E : BlockFn) (hE : E.Len16) (key : Bytes) (scf : Scf) (c : Ctx)
    (d : SecureData) (p mask : Bytes) (hacc : getPlain E key scf c d = .ok p)
    (hl : mask.length = d.mac.length) (hm : ∃ x ∈ mask, x ≠ 0) :
    getPlain E key scf c { d with mac := xorBytes d.mac mask } = .error .mac :=
  mac_change_rejected E hE key scf c d p _ hacc (by simp [xorBytes_length, hl]) (xor_mask_ne _ _ hl hm)

/-! ### (c) unprotected control bits -/

theorem and_mask (c m k : Nat) (h : m &&& k = k) : (c &&& m) &&& k = c &&& k := by
  rw [Nat.and_assoc, h]

theorem ofCtrl_protected (ctrl ctrl' src dst tpci : Nat) (p : Payload) (h : ctrl &&& 0x008F = ctrl' &&& 0x008F) :
    Frame.ofCtrl ctrl src dst tpci p = { Frame.ofCtrl ctrl' src dst tpci p with other := ctrl &&& 0xFF70 } := by
  have h80 : ctrl &&& 0x80 = ctrl' &&& 0x80 := by
    rw [← and_mask ctrl 0x8F 0x80 (by decide), ← and_mask ctrl' 0x8F 0x80 (by decide), h]
  have hF : ctrl &&& 0xF = ctrl' &&& 0xF := by
    rw [← and_mask ctrl 0x8F 0xF (by decide), ← and_mask ctrl' 0x8F 0xF (by decide), h]
  unfold Frame.ofCtrl
  rw [h80, hF]

/-- The receive decision never reads the unprotected bits. -/
theorem received_other (E : BlockFn) (ds : DS) (f : Frame) (o : Nat) (innerOk : Bytes → Bool) :
    received E ds { f with other := o } innerOk = received E ds f innerOk := rfl

/-- Two received frames whose control fields agree on Address Type and Extended
Frame Format (mask `0x008F`) get the same receive decision and leave the same state. -/
theorem unprotected_bits_irrelevant (E : BlockFn) (ds : DS) (ctrl ctrl' src dst tpci : Nat) (p : Payload)
    (innerOk : Bytes → Bool) (h : ctrl &&& 0x008F = ctrl' &&& 0x008F) :
    received E ds (Frame.ofCtrl ctrl src dst tpci p) innerOk
      = received E ds (Frame.ofCtrl ctrl' src dst tpci p) innerOk := by
  rw [ofCtrl_protected ctrl ctrl' src dst tpci p h, received_other]

/-- Flipping any bits outside the mask `0x008F` – e.g. frame type `0x8000`, repeat
`0x2000`, priority `0x0C00`, hop count `0x0070` – does not change the decision. -/
theorem flip_unprotected (E : BlockFn) (ds : DS) (ctrl m src dst tpci : Nat) (p : Payload)
    (innerOk : Bytes → Bool) (hm : m &&& 0x008F = 0) :
    received E ds (Frame.ofCtrl (ctrl ^^^ m) src dst tpci p) innerOk
      = received E ds (Frame.ofCtrl ctrl src dst tpci p) innerOk := by
  apply unprotected_bits_irrelevant
  rw [Nat.and_xor_distrib_right, hm, Nat.xor_zero]

example : (0x8000 ||| 0x2000 ||| 0x1000 ||| 0x0C00 ||| 0x0200 ||| 0x0100 ||| 0x0070) &&& 0x008F = 0 := by decide

/-- The same at `block_0`: its inputs are a function of Address Type and EFF only. -/
theorem ctx_of_ctrl (ctrl ctrl' src dst tpci : Nat) (p : Payload) (h : ctrl &&& 0x008F = ctrl' &&& 0x008F) :
    (Frame.ofCtrl ctrl src dst tpci p).ctx = (Frame.ofCtrl ctrl' src dst tpci p).ctx := by
  rw [ofCtrl_protected ctrl ctrl' src dst tpci p h]
  rfl

/-! ### (d) injectivity of the MAC input -/

theorem macInput_injective (p q : Prot) (hp : p.WF) (hq : q.WF) (h : p.macIn = q.macIn) : p = q :=
  Prot.macIn_injective p q hp hq h

/-- `p.macIn` really is what the model MACs: the sender's MAC field for an
authentication-only tuple is the truncated CBC-MAC of `p.macIn`. -/
theorem auth_mac_is_cbc_of_macIn (E : BlockFn) (key : Bytes) (p : Prot) (hp : p.WF)
    (ha : p.scf.algorithm = algAuth) :
    secure E key p.scf p.seq p.ctx p.apdu
      = .ok ⟨Bytes.ofNatBE 6 p.seq, p.apdu, (cbcLast E key p.macIn).take 4⟩ := by
  unfold secure
  rw [if_pos hp.hSeq]
  unfold secureWith
  rw [if_pos ha]
  unfold secureAuth
  rw [p.block0_eq hp 0 (by omega)]
  have := Prot.macCbc_eq E key p hp
  rw [if_pos ha] at this
  simp [this]

/-! ### (e) conditional: changed protected fields reject -/

/-- The plaintext a receiver would hand up for a frame, if it accepts it. -/
def viewPlain (E : BlockFn) (key : Bytes) (scf : Scf) (c : Ctx) (d : SecureData) : Bytes :=
  if scf.algorithm = algEnc then (ctrXor2 E key (counter0 d.seq c.addr) d.mac d.sapdu).1 else d.sapdu

theorem getPlain_ok_viewPlain (E : BlockFn) (key : Bytes) (scf : Scf) (c : Ctx) (d : SecureData) (p : Bytes)
    (h : getPlain E key scf c d = .ok p) : p = viewPlain E key scf c d := by
  unfold viewPlain
  by_cases he : scf.algorithm = algEnc
  · rw [if_pos he]
    exact ((accept_iff_mac_enc E key scf c d p he).mp h).choose_spec.choose_spec.2.2.2
  · rw [if_neg he]
    unfold getPlain at h
    rw [if_neg he] at h
    by_cases ha : scf.algorithm = algAuth
    · have : getPlain E key scf c d = .ok p := by
        unfold getPlain; rw [if_neg he]; exact h
      exact ((accept_iff_mac_auth E key scf c d p ha).mp this).choose_spec.choose_spec.2.2.2
    · rw [if_neg ha] at h
      simp at h

/-- **(e)** A receiver (key `key'`, frame fields `scf'`, `c'`) looking at any
frame `d'` – e.g. a genuine frame with a protected field, the secured APDU or
the key changed – rejects it, provided the MAC field the construction yields
for what the receiver sees differs from the MAC field in the frame. -/
theorem tampered_rejected_of_noColl (E : BlockFn) (hE : E.Len16) (key' : Bytes) (scf' : Scf) (c' : Ctx)
    (d' : SecureData)
    (hNoColl : ∀ g, secureWith E key' scf' d'.seq c' (viewPlain E key' scf' c' d') = .ok g → g.mac ≠ d'.mac)
    (p : Bytes) : getPlain E key' scf' c' d' ≠ .ok p := by
  intro h
  have hp := getPlain_ok_viewPlain E key' scf' c' d' p h
  have := (getPlain_ok_iff E hE key' scf' c' d' p).mp h
  rw [hp] at this
  exact hNoColl d' this rfl

/-- **(e), authentication-only, in terms of the truncated CBC-MAC itself.**  `p` is
what the sender secured, `q ≠ p` what the receiver sees after any change to the
protected fields (the MAC field is kept).  Their CBC-MAC inputs differ by (d);
if the two truncated CBC-MACs differ as well, the frame is rejected. -/
theorem auth_tampered_rejected (E : BlockFn) (key : Bytes) (p q : Prot) (hp : p.WF) (hq : q.WF)
    (hpa : p.scf.algorithm = algAuth) (hqa : q.scf.algorithm = algAuth)
    (hNoColl : (cbcLast E key p.macIn).take 4 ≠ (cbcLast E key q.macIn).take 4)
    (d : SecureData) (hd : secure E key p.scf p.seq p.ctx p.apdu = .ok d) :
    p.macIn ≠ q.macIn ∧
    getPlain E key q.scf q.ctx ⟨Bytes.ofNatBE 6 q.seq, q.apdu, d.mac⟩ = .error .mac := by
  refine ⟨fun h => hNoColl (by rw [h]), ?_⟩
  rw [auth_mac_is_cbc_of_macIn E key p hp hpa] at hd
  simp only [Except.ok.injEq] at hd
  subst hd
  have hne : q.scf.algorithm ≠ algEnc := fun h' => algAuth_ne_algEnc (hqa ▸ h')
  unfold getPlain
  rw [if_neg hne, if_pos hqa]
  unfold plainAuth
  simp only
  rw [q.block0_eq hq 0 (by omega)]
  have := Prot.macCbc_eq E key q hq
  rw [if_pos hqa] at this
  simp only [this]
  rw [if_pos (fun h => hNoColl h.symm)]

/-- A wrong key is the same situation: the receiver recomputes under `key'`. -/
theorem wrong_key_rejected_of_noColl (E : BlockFn) (key key' : Bytes) (p : Prot) (hp : p.WF)
    (hpa : p.scf.algorithm = algAuth)
    (hNoColl : (cbcLast E key p.macIn).take 4 ≠ (cbcLast E key' p.macIn).take 4)
    (d : SecureData) (hd : secure E key p.scf p.seq p.ctx p.apdu = .ok d) :
    getPlain E key' p.scf p.ctx d = .error .mac := by
  rw [auth_mac_is_cbc_of_macIn E key p hp hpa] at hd
  simp only [Except.ok.injEq] at hd
  subst hd
  have hne : p.scf.algorithm ≠ algEnc := fun h' => algAuth_ne_algEnc (hpa ▸ h')
  unfold getPlain
  rw [if_neg hne, if_pos hpa]
  unfold plainAuth
  simp only
  rw [p.block0_eq hp 0 (by omega)]
  have := Prot.macCbc_eq E key' p hp
  rw [if_pos hpa] at this
  simp only [this]
  rw [if_pos (fun h => hNoColl h.symm)]

/-! ### the hypotheses are satisfiable (real AES, kernel evaluation) -/

def exP : Prot := ⟨⟨false, algAuth, false, svcData⟩, 5, 0x1101, 0x0A03, true, 0, 0, [0x00, 0x81]⟩
/-- one bit of the destination address flipped -/
def exQ : Prot := { exP with dst := 0x0A02 }
def exKey : Bytes := [0,1,2,3,4,5,6,7,8,9,10,11,12,13,14,15]

example : exP.WF := ⟨Or.inl rfl, by decide, by decide, by decide, by decide, by decide, by decide, by decide, by decide⟩
example : exQ.WF := ⟨Or.inl rfl, by decide, by decide, by decide, by decide, by decide, by decide, by decide, by decide⟩
example : exP ≠ exQ := by decide
/-- `hNoColl` of `auth_tampered_rejected` holds for this pair under AES-128. -/
example : (cbcLast AES128.encrypt exKey exP.macIn).take 4 ≠ (cbcLast AES128.encrypt exKey exQ.macIn).take 4 := by
  decide +kernel
/-- … and the unconditional statement is false for a 4-octet MAC in general: for a
(degenerate) block function with constant output every MAC collides, the tampered
frame is accepted. -/
example : getPlain (fun _ _ => List.replicate 16 0) exKey exQ.scf exQ.ctx
    ⟨Bytes.ofNatBE 6 exQ.seq, exQ.apdu, List.replicate 4 0⟩ = .ok exQ.apdu := by decide +kernel

end XknxVerif.Props.C16
