/-
C45  MCP tools: listing datapoint types page by page returns every type exactly once.
(The codec/JSON part of C45 is in Props/C45Codec.lean when present.)
Property theorems only.
-/
import XknxVerif.Lemmas.Paginate

namespace XknxVerif.Props.C45
open XknxVerif.MCP XknxVerif.Generated.McpDpts

/-- Paging with a page size `limit ≥ 1` from any offset by following `next_offset`
returns exactly the remaining items, in order, each once — for every item list. -/
theorem walk_flatten {α} (items : List α) (limit : Nat) (hl : 1 ≤ limit) :
    ∀ (fuel off : Nat), items.length - off < fuel →
      (walk items (limit : Int) fuel (off : Int)).flatten = items.drop off := by
  intro fuel
  induction fuel with
  | zero => intro off h; omega
  | succ fuel ih =>
    intro off h
    unfold walk
    rw [paginate_nat]
    by_cases hr : limit + off < items.length
    · have hlen : ((items.drop off).take limit).length = limit := by
        rw [List.length_take, List.length_drop]; omega
      simp only [hr, decide_true, ↓reduceIte, hlen, List.flatten_cons]
      have e : ((off : Int) + (limit : Int)) = ((off + limit : Nat) : Int) := by omega
      rw [e, ih (off + limit) (by omega)]
      rw [← List.drop_drop]
      exact List.take_append_drop limit (items.drop off)
    · simp only [hr, decide_false, Bool.false_eq_true, ↓reduceIte, List.flatten_cons,
        List.flatten_nil, List.append_nil]
      apply List.take_of_length_le
      rw [List.length_drop]; omega

/-- From offset 0 the pages concatenate to the whole list. -/
theorem walk_all {α} (items : List α) (limit : Nat) (hl : 1 ≤ limit) :
    (walk items (limit : Int) (items.length + 1) 0).flatten = items := by
  have := walk_flatten items limit hl (items.length + 1) 0 (by omega)
  simpa using this

/-- The number of requests is bounded: with page size `limit ≥ 1`, at most
`(n - off) / limit + 1` pages are fetched (so paging terminates). -/
theorem walk_length {α} (items : List α) (limit : Nat) (hl : 1 ≤ limit) :
    ∀ (fuel off : Nat), items.length - off < fuel →
      (walk items (limit : Int) fuel (off : Int)).length ≤ (items.length - off) / limit + 1 := by
  intro fuel
  induction fuel with
  | zero => intro off h; omega
  | succ fuel ih =>
    intro off h
    unfold walk
    rw [paginate_nat]
    by_cases hr : limit + off < items.length
    · have hlen : ((items.drop off).take limit).length = limit := by
        rw [List.length_take, List.length_drop]; omega
      simp only [hr, decide_true, ↓reduceIte, hlen, List.length_cons]
      have e : ((off : Int) + (limit : Int)) = ((off + limit : Nat) : Int) := by omega
      rw [e]
      have := ih (off + limit) (by omega)
      have h2 : (items.length - off) / limit = (items.length - (off + limit)) / limit + 1 := by
        have : items.length - off = (items.length - (off + limit)) + limit := by omega
        rw [this, Nat.add_div_right _ (by omega)]
      omega
    · simp [hr]

/-- `limit < 0` means "no limit": one page with everything, no next offset. -/
theorem walk_unlimited {α} (items : List α) (limit : Int) (h : limit < 0) (fuel off : Nat) :
    walk items limit (fuel + 1) (off : Int) = [items.drop off] := by
  unfold walk
  rw [paginate_neg items limit off h]
  simp

/-- Page size 0 is not a page size: the reported `next_offset` equals the offset, so a client
following it never advances (documented exclusion of the theorem above; see DESIGN.md C45). -/
theorem walk_zero_never_advances {α} (x : α) (xs : List α) :
    ∀ fuel, (walk (x :: xs) 0 fuel 0).flatten = [] := by
  intro fuel
  induction fuel with
  | zero => rfl
  | succ fuel ih =>
    unfold walk
    have : paginate (x :: xs) 0 0 = ([], true) := by
      simp [paginate, pySlice, sliceIdx]
    simp only [this, ↓reduceIte, List.length_nil, Int.natCast_zero, Int.add_zero, List.flatten_cons,
      List.nil_append]
    exact ih

/-- The sorted match list of `list_dpts` is a permutation of the matching rows of the class tree:
every matching type is listed, none twice (given distinct rows), whatever the filter. -/
theorem listMatches_perm (tbl : List Row) (main : Option Nat) (needle : Option String) :
    (listMatches tbl main needle).Perm (tbl.filter (rowMatches main needle)) := by
  unfold listMatches
  exact List.mergeSort_perm _ _

theorem listMatches_mem (tbl : List Row) (main : Option Nat) (needle : Option String) (r : Row) :
    r ∈ listMatches tbl main needle ↔ r ∈ tbl ∧ rowMatches main needle r = true := by
  rw [(listMatches_perm tbl main needle).mem_iff, List.mem_filter]

/-- End to end: for any filter and any page size ≥ 1, following `next_offset` from 0 lists a
permutation of the matching types — each exactly once. -/
theorem list_pages_perm (tbl : List Row) (main : Option Nat) (needle : Option String) (limit : Nat)
    (hl : 1 ≤ limit) :
    ((walk (listMatches tbl main needle) (limit : Int)
        ((listMatches tbl main needle).length + 1) 0).flatten).Perm
      (tbl.filter (rowMatches main needle)) := by
  rw [walk_all _ limit hl]
  exact listMatches_perm tbl main needle

/-- The DPT numbers in the generated class tree are pairwise distinct, so "each exactly once" is
meaningful for the real table (re-checked against the code's table on every run). -/
theorem table_numbers_nodup : (table.map (·.numberStr)).Nodup := by
  decide +kernel

/-! Non-vacuity -/
example : (walk [10, 11, 12, 13, 14] 2 6 0) = [[10, 11], [12, 13], [14]] := by decide
example : (table.filter (rowMatches (some 9) none)).length > 1 := by decide +kernel

end XknxVerif.Props.C45
