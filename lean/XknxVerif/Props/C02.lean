/-
C02  Group address filters match exactly the addresses their pattern denotes.

Specification (`Model/AddressFilter.lean`, upper half): the grammar as an AST
(`PatternP`), its text (`render`), and `denotes`.  Code model (lower half):
`parseFilter` (= `AddressFilter(pattern)`) and `matchFilter` (= `.match(address)`
under a notation).  The main theorem is by structural induction over the
pattern (values → levels → pattern) and holds for every well-formed pattern of
any size and every address.
-/
import XknxVerif.Lemmas.AddressFilter

namespace XknxVerif.Props.C02
open XknxVerif XknxVerif.Address XknxVerif.AddressFilter XknxVerif.Py XknxVerif.Py.Str
open XknxVerif.Generated.AddressConst XknxVerif.Generated.Unicode

/-! ### the meaning of one value, spelled out (what `denotes` says) -/

/-- "open ends extend to the maximum value and reversed ranges are normalised" -/
theorem range_meaning (v : Nat) :
    (RangeP.star.contains v = true ↔ v ≤ 65535) ∧
    (∀ n, (RangeP.single n).contains v = true ↔ v = n) ∧
    (∀ a b, (RangeP.between a b).contains v = true ↔ (a ≤ v ∧ v ≤ b) ∨ (b ≤ v ∧ v ≤ a)) ∧
    (∀ b, (RangeP.upTo b).contains v = true ↔ v ≤ b) ∧
    (∀ a, (RangeP.from_ a).contains v = true ↔ a ≤ v ∧ v ≤ 65535) := by
  have hm := maxValue_eq
  refine ⟨?_, ?_, ?_, ?_, ?_⟩ <;> intros <;> unfold RangeP.contains RangeP.bounds <;>
    simp only [Bool.and_eq_true, decide_eq_true_eq] <;> omega

/-- `denotes`, level by level: each level value lies in one of the ranges given for that level -/
theorem denotes_meaning (raw : Nat) :
    (∀ l0 l1 l2, denotes [l0, l1, l2] .long raw = true ↔
      (∃ r ∈ l0, r.contains (gaMain raw) = true) ∧ (∃ r ∈ l1, r.contains (gaMiddle raw) = true) ∧
      (∃ r ∈ l2, r.contains (gaSub .long raw) = true)) ∧
    (∀ l0 l1, denotes [l0, l1] .short raw = true ↔
      (∃ r ∈ l0, r.contains (gaMain raw) = true) ∧ (∃ r ∈ l1, r.contains (gaSub .short raw) = true)) ∧
    (∀ l0, denotes [l0] .free raw = true ↔ ∃ r ∈ l0, r.contains raw = true) := by
  refine ⟨?_, ?_, ?_⟩ <;> intros <;>
    simp [denotes, allContain, levelValues, LevelP.contains, List.any_eq_true, gaSub]

/-! ### main theorem -/

/-- For every pattern of the documented grammar (1..3 levels, each a non-empty comma list of `*`, `n`, `a-b`,
`-b`, `a-` with numbers up to 65535), in the notation with as many levels: the constructor accepts the
pattern's text and the resulting filter matches a group address exactly when the pattern denotes it. -/
theorem filter_matches_what_pattern_denotes (p : PatternP) (hp : p.WF) (fmt : Fmt) (hf : fmt.levels = p.length) :
    ∃ f, parseFilter p.render = .ok f ∧ ∀ raw, matchFilter f fmt (.ga raw) = .ok (denotes p fmt raw) := by
  refine ⟨_, parseFilter_render p hp, ?_⟩
  intro raw
  obtain ⟨h1, h3, _⟩ := hp
  match p, h1, h3 with
  | [l0], _, _ =>
    cases fmt <;> simp [Fmt.levels] at hf
    simp [matchFilter, toDev, matchDev, denotes, allContain, levelValues, levelMatch_boundsInt]
  | [l0, l1], _, _ =>
    cases fmt <;> simp [Fmt.levels] at hf
    simp [matchFilter, toDev, matchDev, denotes, allContain, levelValues, levelMatch_boundsInt]
  | [l0, l1, l2], _, _ =>
    cases fmt <;> simp [Fmt.levels] at hf
    simp [matchFilter, toDev, matchDev, denotes, allContain, levelValues, levelMatch_boundsInt, Bool.and_assoc]

/-- The same through `match(str | int)`: the argument goes through `parse_device_group_address`; whenever that
yields a group address the answer is what the pattern denotes for it (it never yields the broadcast address 0,
for which `match` raises the address parse error instead). -/
theorem filter_matches_str_and_int (p : PatternP) (hp : p.WF) (fmt : Fmt) (hf : fmt.levels = p.length)
    (v : Val) (hv : (∃ s, v = .str s) ∨ (∃ n, v = .int n)) :
    ∃ f, parseFilter p.render = .ok f ∧
      (∀ raw, parseDevice v = .ok (.ga raw) → matchFilter f fmt v = .ok (denotes p fmt raw)) ∧
      (parseDevice v = .error .parse → matchFilter f fmt v = .error .parse) := by
  obtain ⟨f, hf1, hf2⟩ := filter_matches_what_pattern_denotes p hp fmt hf
  refine ⟨f, hf1, ?_, ?_⟩
  · intro raw hd
    have := hf2 raw
    rcases hv with ⟨s, rfl⟩ | ⟨n, rfl⟩ <;>
      simpa [matchFilter, toDev, hd] using this
  · intro hd
    rcases hv with ⟨s, rfl⟩ | ⟨n, rfl⟩ <;> simp [matchFilter, toDev, hd]

/-- Anything that is not a group address (an individual address, an internal address, another object) never
matches a level pattern. -/
theorem level_filter_rejects_other_objects (p : PatternP) (hp : p.WF) (fmt : Fmt) :
    ∃ f, parseFilter p.render = .ok f ∧
      (∀ r, matchFilter f fmt (.ia r) = .ok false) ∧ (∀ s, matchFilter f fmt (.iga s) = .ok false) ∧
      matchFilter f fmt .other = .ok false := by
  refine ⟨_, parseFilter_render p hp, ?_, ?_, ?_⟩ <;> intros <;> simp [matchFilter, toDev, matchDev]

/-! ### outside the property's notation / grammar: what the code does (so that nothing is hidden) -/

/-- A pattern deeper than the notation is not matched at all: builtin `ConnectionError`. A 2-level pattern in
LONG notation compares main and the low 8 bits; a 1-level pattern compares `sub` of the notation. -/
theorem depth_mismatch (p : PatternP) (hp : p.WF) (raw : Nat) :
    ∃ f, parseFilter p.render = .ok f ∧
      (p.length = 3 → ∀ fmt, fmt ≠ .long → matchFilter f fmt (.ga raw) = .error .connection) ∧
      (p.length = 2 → matchFilter f .free (.ga raw) = .error .connection) ∧
      (∀ l0 l1, p = [l0, l1] →
        matchFilter f .long (.ga raw) = .ok (l0.contains (gaMain raw) && l1.contains (gaSub .long raw))) ∧
      (∀ l0, p = [l0] → ∀ fmt, matchFilter f fmt (.ga raw) = .ok (l0.contains (gaSub fmt raw))) := by
  refine ⟨_, parseFilter_render p hp, ?_, ?_, ?_, ?_⟩
  · intro h3 fmt hfmt
    match p, h3 with
    | [l0, l1, l2], _ => cases fmt <;> simp_all [matchFilter, toDev, matchDev]
  · intro h2
    match p, h2 with
    | [l0, l1], _ => simp [matchFilter, toDev, matchDev]
  · intro l0 l1 hp'
    subst hp'
    simp [matchFilter, toDev, matchDev, levelMatch_boundsInt]
  · intro l0 hp' fmt
    subst hp'
    simp [matchFilter, toDev, matchDev, levelMatch_boundsInt]

/-- Numbers above 65535 are not level values; the code saturates them (the unit tests pin `_adjust_range`),
so the single value `70000` is read as `65535`. -/
theorem saturation (n : Nat) (hl : (dec n).length ≤ intMaxStrDigits) (h : 65535 < n) :
    parseRange (dec n) = .ok (65535, 65535) := by
  have hi : intOrValue (dec n) = .ok (n : Int) := by unfold intOrValue; rw [pyInt_dec n hl]
  have ha : adjust (n : Int) = 65535 := by
    unfold adjust gaMaxFree
    rw [if_pos (by omega)]; rfl
  simp [parseRange, rawRange, dec_ne_star, isdigit_dec, hi, normalize, ha]

/-! ### internal addresses: `fnmatch` -/

/-- A filter built from an `i…` pattern matches an internal address by `fnmatch` of the two normalised texts,
and matches no group address. -/
theorem internal_filter (pat s : Str) (fmt : Fmt) (hne : pat ≠ []) :
    matchFilter (.internal pat) fmt (.iga s) = .ok (fnmatch s pat) ∧
    ∀ raw, matchFilter (.internal pat) fmt (.ga raw) = .ok false := by
  have : pat.isEmpty = false := by cases pat <;> simp_all
  constructor
  · simp [matchFilter, toDev, matchDev, this]
  · intro raw; simp [matchFilter, toDev, matchDev]

/-- The glob matcher of the model is the textbook one: a translated pattern matches a name iff the name can
be consumed token by token, `*` taking any run of characters, `?` / a character class / a literal taking one. -/
theorem fnmatch_is_textbook_glob (name pat : Str) :
    fnmatch name pat = true ↔ Matches (translate (pat.length + 1) pat) name :=
  globMatch_iff _ _

/-- `*` takes any, possibly empty, prefix of what is left of the name … -/
theorem star_takes_any_prefix (ts : List Tok) (s : Str) :
    Matches (.star :: ts) s ↔ ∃ s1 s2, s = s1 ++ s2 ∧ Matches ts s2 := matches_star_iff ts s

/-- … and every other token exactly one character that it matches. -/
theorem other_token_takes_one (t : Tok) (ht : t ≠ .star) (ts : List Tok) (s : Str) :
    Matches (t :: ts) s ↔ ∃ c s', s = c :: s' ∧ t.matches c = true ∧ Matches ts s' := matches_one_iff t ht ts s

/-- Outside bracket expressions `fnmatch.translate` reads the pattern character by character (`*` → star,
`?` → any one character, anything else → itself); compressing runs of `*` changes nothing. -/
theorem translate_outside_brackets (pat : Str) (h : 91 ∉ pat) (name : Str) :
    fnmatch name pat = true ↔ Matches (plainToks pat) name :=
  (fnmatch_is_textbook_glob name pat).trans (translate_plain pat h (pat.length + 1) (Nat.lt_succ_self _) name)

/-- `[seq]` / `[!seq]` without `-` are the listed characters / all others; a class token matches by membership. -/
theorem simple_classes (seq : Str) (h45 : 45 ∉ seq) :
    (seq.head? ≠ some 33 → classOf seq = .cls false seq []) ∧ classOf (33 :: seq) = .cls true seq [] ∧
    ∀ neg singles ranges x, (Tok.cls neg singles ranges).matches x = true ↔
      ((x ∈ singles ∨ ∃ r ∈ ranges, r.1 ≤ x ∧ x ≤ r.2) ↔ neg = false) :=
  ⟨classOf_plain seq h45, classOf_negated seq h45, cls_matches⟩

/-! ### non-vacuity -/

/-- "1/*/2-5" -/
def ex1 : PatternP := [[.single 1], [.star], [.between 2 5]]
example : ex1.WF := by decide
example : ex1.render = [49, 47, 42, 47, 50, 45, 53] := by decide
example : parseFilter ex1.render = .ok (.levels [[(1, 1)], [(0, 65535)], [(2, 5)]]) := by decide
example : denotes ex1 .long 2563 = true ∧ denotes ex1 .long 2566 = false := by decide   -- 1/2/3, 1/2/6
/-- "1-3,4,5/*", reversed "5-2", open "-10", "10-" -/
example : PatternP.WF [[.between 1 3, .single 4, .single 5], [.star]] := by decide
example : parseFilter (PatternP.render [[.between 5 2, .upTo 10, .from_ 10]]) =
    .ok (.levels [[(2, 5), (0, 10), (10, 65535)]]) := by decide
/-- `i-t?st*` on `i-test1`; `[!a-c]` -/
example : fnmatch [105, 45, 116, 101, 115, 116, 49] [105, 45, 116, 63, 115, 116, 42] = true := by
  simp [fnmatch, translate, globMatch, Tok.matches]
example : translate 8 [91, 33, 97, 45, 99, 93] = [.cls true [97, 99] [(97, 99)]] := by decide
example : classOf [99, 45, 97] = .cls false [] [] := by decide            -- "[c-a]" never matches
example : classOf [122, 45, 97, 33, 98] = .cls true [98] [] := by decide  -- "[z-a!b]" is read as "[!b]" (CPython quirk)
example : parseFilter [49, 45, 50, 45, 51] = .error .value := by decide             -- "1-2-3"
example : parseFilter [49, 47, 50, 47, 51, 47, 52] = .error .conversion := by decide  -- "1/2/3/4"

end XknxVerif.Props.C02
