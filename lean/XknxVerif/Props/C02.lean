import XknxVerif.Model.AddressFilter
namespace XknxVerif.Props.C02
open XknxVerif.AddressFilter
theorem placeholder : parseRange [42] = .ok (0, 65535) := by decide
end XknxVerif.Props.C02
