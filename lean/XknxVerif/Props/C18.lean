/-
C18  Secured group addresses never take plain data, and bad frames never crash.

The model is the *repaired* receive path (fix: "Data Secure lets ConversionError
of a malformed decrypted APDU escape the receive path"): `recvStep` maps a
failed inner-APDU parse to a `DataSecureError`, which `handle_cemi_frame`
catches.  `Route.raised` is the only way the model can express an exception
leaving `handle_cemi_frame`; the theorems show it is unreachable for every frame
the cEMI parser can produce.
-/
import XknxVerif.Lemmas.DataSecure
import XknxVerif.Lemmas.DataSecureHist
import XknxVerif.Automata

namespace XknxVerif.Props.C18
open XknxVerif XknxVerif.Crypto XknxVerif.DataSecure
open XknxVerif.Generated.DataSecure (algAuth algEnc svcData apciSecHigh apciSecLow sequenceNumberMax)

/-! ### plain frames -/

theorem evOf_plain (E : BlockFn) (ds : DS) (f : Frame) (innerOk : Bytes → Bool) (hp : f.payload.isSecure = false) :
    (evOf E ds f innerOk).secure = false ∧ (evOf E ds f innerOk).group = f.group
      ∧ (evOf E ds f innerOk).keyed = (ds.keys.lookup f.dst).isSome := by
  unfold evOf
  cases hpl : f.payload with
  | secure s d => rw [hpl] at hp; simp [Payload.isSecure] at hp
  | none => simp
  | plain a => simp

/-- **A plain data frame to a group address that has a key is never forwarded**
(`telegram_received` – devices, telegram callbacks, management – is not reached);
it only goes to the key-issue handling, whose callbacks run iff it is a
`TDataGroup` frame; the Data Secure state is unchanged. -/
theorem plain_to_keyed_only_key_issue (E : BlockFn) (ds : DS) (f : Frame) (innerOk : Bytes → Bool) (key : Bytes)
    (hp : f.payload.isSecure = false) (hg : f.group = true) (hk : ds.keys.lookup f.dst = some key) :
    handle E (some ds) f innerOk = (some ds, .keyIssue (isTDataGroup f)) := by
  obtain ⟨h1, h2, h3⟩ := evOf_plain E ds f innerOk hp
  have hr : recvStep ds.senders (evOf E ds f innerOk) = (ds.senders, .dsError .plainToSecure) := by
    unfold recvStep
    simp [h1, h2, h3, hg, hk]
  simp only [handle, received, hr]

/-- A usable (non-empty) key is in particular an entry of the key table. -/
theorem keyFor_lookup (keys : List (Nat × Bytes)) (dst : Nat) (key : Bytes) (h : keyFor keys dst = some key) :
    keys.lookup dst = some key := by
  unfold keyFor at h
  cases hl : keys.lookup dst with
  | none => rw [hl] at h; simp at h
  | some k =>
    rw [hl] at h
    simp only at h
    split at h
    · simp at h
    · simpa using h

/-- Corollary in the words of the property. -/
theorem plain_to_keyed_never_delivered (E : BlockFn) (ds : DS) (f : Frame) (innerOk : Bytes → Bool) (key : Bytes)
    (hp : f.payload.isSecure = false) (hg : f.group = true) (hk : ds.keys.lookup f.dst = some key) :
    ∀ a s, (handle E (some ds) f innerOk).2 ≠ .telegram a s := by
  intro a s
  rw [plain_to_keyed_only_key_issue E ds f innerOk key hp hg hk]
  simp

/-- Plain frames elsewhere (no key for the address, or point-to-point) pass unchanged, marked not secure. -/
theorem plain_elsewhere_passes (E : BlockFn) (ds : DS) (f : Frame) (innerOk : Bytes → Bool)
    (hp : f.payload.isSecure = false) (hk : f.group = false ∨ ds.keys.lookup f.dst = none) :
    handle E (some ds) f innerOk = (some ds, .telegram f.payload.bytes false) := by
  obtain ⟨h1, h2, h3⟩ := evOf_plain E ds f innerOk hp
  have hr : recvStep ds.senders (evOf E ds f innerOk) = (ds.senders, .pass) := by
    unfold recvStep
    rcases hk with hk | hk <;> simp [h1, h2, h3, hk]
  simp only [handle, received, hr, hp]

/-! ### outgoing -/

/-- **Outgoing frames to a keyed group address are never sent plain**: the result is
a `SecureAPDU` with the sending SCF, or an error – for every frame and state. -/
theorem outgoing_keyed_never_plain (E : BlockFn) (ds : DS) (f : Frame) (key : Bytes)
    (hg : f.group = true) (hk : keyFor ds.keys f.dst = some key) :
    (∃ d, (outgoing E ds f).2 = .secured { f with payload := .secure scfOut d })
      ∨ (∃ w, (outgoing E ds f).2 = .dsError w) ∨ (∃ e, (outgoing E ds f).2 = .escape e) := by
  unfold outgoing
  simp only [hg, ↓reduceIte, hk]
  cases hs : getSeq ds.sendSeq with
  | none => right; left; exact ⟨_, rfl⟩
  | some qs =>
    obtain ⟨q, s'⟩ := qs
    simp only
    cases hsec : secure E key scfOut q f.ctx f.payload.bytes with
    | ok d => left; exact ⟨d, rfl⟩
    | error e =>
      cases e with
      | value => right; right; exact ⟨_, rfl⟩
      | overflow => right; right; exact ⟨_, rfl⟩
      | mac => right; left; exact ⟨_, rfl⟩
      | unknownAlg => right; left; exact ⟨_, rfl⟩

/-- … and it *is* secured whenever a sequence number is left and the APDU fits. -/
theorem outgoing_keyed_secured (E : BlockFn) (ds : DS) (f : Frame) (key : Bytes)
    (hg : f.group = true) (hk : keyFor ds.keys f.dst = some key)
    (hseq : ds.sendSeq ≤ sequenceNumberMax) (heff : f.eff < 16) (htp : f.tpci < 256)
    (hlen : f.payload.bytes.length ≤ 255) :
    ∃ d, outgoing E ds f = ({ ds with sendSeq := ds.sendSeq + 1 }, .secured { f with payload := .secure scfOut d }) := by
  have hs48 : ds.sendSeq < 2 ^ 48 := by
    have : sequenceNumberMax = 2 ^ 48 - 1 := by decide
    omega
  have g : SecureGuards scfOut f.ctx f.payload.bytes := by
    refine ⟨Or.inr rfl, ?_, ?_, hlen⟩
    · simp only [Frame.ctx, hg, ↓reduceIte]
      exact Nat.or_lt_two_pow (n := 8) (by omega) (by omega)
    · exact Nat.or_lt_two_pow (n := 8) htp (by decide)
  obtain ⟨d, hd⟩ := secureWith_ok E key scfOut (Bytes.ofNatBE 6 ds.sendSeq) f.ctx f.payload.bytes g
  have hsec : secure E key scfOut ds.sendSeq f.ctx f.payload.bytes = .ok d := by
    unfold secure; rw [if_pos hs48]; exact hd
  have hgs : getSeq ds.sendSeq = some (ds.sendSeq, ds.sendSeq + 1) := by
    unfold getSeq; rw [if_neg (by omega)]
  exact ⟨d, by simp only [outgoing, hg, ↓reduceIte, hk, hgs, hsec]⟩

/-- Destinations without a key, and individual addresses, are sent unchanged. -/
theorem outgoing_unkeyed_plain (E : BlockFn) (ds : DS) (f : Frame)
    (hk : f.group = false ∨ keyFor ds.keys f.dst = none) : outgoing E ds f = (ds, .plain f) := by
  unfold outgoing
  rcases hk with hk | hk
  · simp [hk]
  · cases f.group <;> simp [hk]

/-! ### no exception for any frame -/

/-- What the cEMI parser guarantees about a frame it hands to `handle_cemi_frame`:
a 4-bit frame format, a one-octet TPCI, and an NPDU that fits its one-octet length. -/
structure Parsed (f : Frame) : Prop where
  hEff : f.eff < 16
  hTpci : f.tpci < 256
  hLen : ∀ scf d, f.payload = .secure scf d → d.sapdu.length ≤ 255

/-- `get_plain_apdu` on a parsed frame ends in a plaintext or a `DataSecureError`, never
in `ValueError`/`OverflowError`. -/
theorem getPlain_no_escape (E : BlockFn) (hE : E.Len16) (key : Bytes) (scf : Scf) (c : Ctx) (d : SecureData)
    (h1 : (c.atype ||| c.eff) < 256) (h2 : (c.tpci ||| apciSecHigh) < 256) (h3 : d.sapdu.length ≤ 255) :
    getPlain E key scf c d ≠ .error .value ∧ getPlain E key scf c d ≠ .error .overflow := by
  unfold getPlain
  split
  · unfold plainEnc
    simp only
    have hl : (ctrXor2 E key (counter0 d.seq c.addr) d.mac d.sapdu).1.length = d.sapdu.length := by
      have := ctrXor_length E hE key (counter0 d.seq c.addr) (d.mac ++ d.sapdu)
      simp [ctrXor2, this]
    rw [hl, block0_ok d.seq c _ h1 h2 (by omega)]
    have h1' : [scf.toKnx].length < 65536 := by simp
    simp only [macCbc, if_pos h1']
    split <;> simp
  · split
    · unfold plainAuth
      rw [block0_ok d.seq c 0 h1 h2 (by omega)]
      have : (scf.toKnx :: d.sapdu).length < 65536 := by simp; omega
      simp only [macCbc, if_pos this]
      split <;> simp
    · simp

theorem ctx_guards (f : Frame) (h : Parsed f) :
    (f.ctx.atype ||| f.ctx.eff) < 256 ∧ (f.ctx.tpci ||| apciSecHigh) < 256 := by
  constructor
  · simp only [Frame.ctx]
    have := h.hEff
    cases f.group
    · exact Nat.or_lt_two_pow (n := 8) (by simp) (by simp; omega)
    · exact Nat.or_lt_two_pow (n := 8) (by simp) (by simp; omega)
  · exact Nat.or_lt_two_pow (n := 8) h.hTpci (by decide)

/-- The receive decision never lets an exception other than `DataSecureError` out. -/
theorem received_no_escape (E : BlockFn) (hE : E.Len16) (ds : DS) (f : Frame) (innerOk : Bytes → Bool)
    (hp : Parsed f) : ∀ e, (received E ds f innerOk).2 ≠ .escape e := by
  intro e
  unfold received
  simp only
  rcases recvStep_spec ds.senders (evOf E ds f innerOk) with ⟨_, _, _⟩ | ⟨_, _, _, _, _, _, _, _, _, _, _, hd⟩
  · -- table unchanged: look at which branch produced the outcome
    intro hesc
    unfold recvStep at hesc
    -- the only `escape` outcomes come from `verify = error value / overflow`
    have hv : (evOf E ds f innerOk).verify ≠ .error .value ∧ (evOf E ds f innerOk).verify ≠ .error .overflow := by
      unfold evOf
      cases hpl : f.payload with
      | secure scf d =>
        simp only
        cases hk : keyFor ds.keys f.dst with
        | none => simp
        | some k =>
          simp only
          obtain ⟨g1, g2⟩ := ctx_guards f hp
          exact getPlain_no_escape E hE k scf f.ctx d g1 g2 (hp.hLen scf d hpl)
      | none => simp
      | plain a => simp
    revert hesc
    repeat' split
    all_goals (first | (intro h; cases h; done) | skip)
    all_goals simp_all
  · rcases hd with ⟨_, ho⟩ | ⟨_, ho⟩ <;> rw [ho] <;> simp

/-- **No received frame makes `handle_cemi_frame` raise** – including correctly
authenticated frames whose decrypted APDU is malformed (`innerOk` arbitrary),
with or without Data Secure configured. -/
theorem handle_never_raises (E : BlockFn) (hE : E.Len16) (ds : Option DS) (f : Frame) (innerOk : Bytes → Bool)
    (hp : Parsed f) : ∀ e, (handle E ds f innerOk).2 ≠ .raised e := by
  intro e
  cases ds with
  | none =>
    simp only [handle]
    split <;> simp
  | some s =>
    have hne := received_no_escape E hE s f innerOk hp
    simp only [handle]
    cases hr : received E s f innerOk with
    | mk s' o =>
      cases o with
      | pass => simp
      | deliver p => simp
      | dsError w => simp
      | escape x => exact absurd (by rw [hr]) (hne x)

/-- An authenticated frame with a malformed inner APDU: reported as key issue,
its sequence number is used up, nothing is delivered, nothing is raised. -/
theorem authentic_malformed_inner (E : BlockFn) (r : DS) (f : Frame) (innerOk : Bytes → Bool) (scf : Scf)
    (d : SecureData) (key p : Bytes) (last : Nat)
    (hp : f.payload = .secure scf d) (hg : f.group = true) (hk : keyFor r.keys f.dst = some key)
    (hsvc : scf.service = svcData) (hsb : scf.systemBroadcast = false) (hta : scf.toolAccess = false)
    (hl : r.senders.lookup f.src = some last) (hlt : last < Bytes.toNatBE d.seq)
    (hv : getPlain E key scf f.ctx d = .ok p) (hin : innerOk p = false) :
    handle E (some r) f innerOk
      = (some { r with senders := setVal r.senders f.src (Bytes.toNatBE d.seq) }, .keyIssue (isTDataGroup f)) := by
  have hrec : received E r f innerOk
      = ({ r with senders := setVal r.senders f.src (Bytes.toNatBE d.seq) }, .dsError .inner) := by
    unfold received
    rw [evOf_secure E r f innerOk scf d key hp hk, hv]
    have : decide (Bytes.toNatBE d.seq > last) = true := by simpa using hlt
    simp [recvStep, hg, hsvc, hsb, hta, hl, this, hin, innerOf]
  simp only [handle, hrec]

/-- Without a keyring every secured frame is a key issue and every plain frame is delivered. -/
theorem no_data_secure (E : BlockFn) (f : Frame) (innerOk : Bytes → Bool) :
    (handle E none f innerOk).2 =
      if f.payload.isSecure then .keyIssue (isTDataGroup f) else .telegram f.payload.bytes false := by
  simp only [handle]
  cases f.payload.isSecure <;> simp

/-- Non-vacuity: a parsed plain `GroupValueWrite` to the keyed address 1/2/3. -/
example : Parsed ⟨0xBC60, true, 0, 0x1101, 0x0A03, 0, .plain [0x00, 0x81]⟩ :=
  ⟨by decide, by decide, by intro _ _ h; cases h⟩
/-- An entry with an empty key still shields the address from plain frames (membership
test), while secured traffic to it is refused / sent plain (truthiness test) – as the code does. -/
example : handle (fun _ _ => List.replicate 16 0) (some ⟨[(0x0A03, [])], [], 1⟩)
    ⟨0xBC60, true, 0, 0x1101, 0x0A03, 0, .plain [0x00, 0x81]⟩ (fun _ => true)
  = (some ⟨[(0x0A03, [])], [], 1⟩, .keyIssue true) := by decide
example : handle (fun _ _ => List.replicate 16 0) (some ⟨[(0x0A03, [1])], [], 1⟩)
    ⟨0xBC60, true, 0, 0x1101, 0x0A03, 0, .plain [0x00, 0x81]⟩ (fun _ => true)
  = (some ⟨[(0x0A03, [1])], [], 1⟩, .keyIssue true) := by decide

/-! ### Round 3: one handler across `data_secure_init` calls (interface restarts)

A history is any list of `HEv`: `init keyring clock`, received frames, send
requests.  "Current keyring" = the argument of the last `init`. -/

open XknxVerif.Automata in
/-- State of the handler after a history started without Data Secure. -/
abbrev after (E : BlockFn) (s : Option DS) (evs : List HEv) : Option DS := (run (hstep E) s evs).1

theorem handle_keys (E : BlockFn) (s : Option DS) (f : Frame) (io : Bytes → Bool) :
    keysOf (handle E s f io).1 = keysOf s := by
  cases s with
  | none => simp only [handle]; split <;> rfl
  | some ds =>
    simp only [handle]
    cases hr : received E ds f io with
    | mk s' o =>
      have hk : s'.keys = ds.keys := by
        have := congrArg Prod.fst hr
        simp only [received] at this
        rw [← this]
      cases o <;> simpa [keysOf] using hk

theorem outgoing_keys (E : BlockFn) (ds : DS) (f : Frame) : (outgoing E ds f).1.keys = ds.keys := by
  unfold outgoing
  split
  · split
    · split
      · rfl
      · split <;> rfl
    · rfl
  · rfl

/-- Only `data_secure_init` changes the key table. -/
theorem hstep_keys (E : BlockFn) (s : Option DS) (e : HEv) (h : e.isInit = false) :
    keysOf (hstep E s e).1 = keysOf s := by
  cases e with
  | init kr c => simp [HEv.isInit] at h
  | recv f io => exact handle_keys E s f _
  | send f =>
    cases s with
    | none => rfl
    | some ds => simpa [hstep, keysOf] using outgoing_keys E ds f

open XknxVerif.Automata in
theorem run_keys (E : BlockFn) (evs : List HEv) (s : Option DS) (h : ∀ e ∈ evs, e.isInit = false) :
    keysOf (after E s evs) = keysOf s := by
  induction evs generalizing s with
  | nil => rfl
  | cons e es ih =>
    simp only [after, run_cons]
    have := ih (hstep E s e).1 (fun x hx => h x (List.mem_cons_of_mem _ hx))
    simp only [after] at this
    rw [this, hstep_keys E s e (h e (by simp))]

/-- A successful `data_secure_init` installs exactly the keyring's key table – whatever was
installed before (this is what the seeded change C18-3 broke: it kept the old object). -/
theorem init_installs (E : BlockFn) (s : Option DS) (keys : List (Nat × Bytes)) (senders : List (Nat × Nat))
    (c : Nat) (hc : initOk c = true) :
    keysOf (hstep E s (.init (some (keys, senders)) c)).1 = keys := by
  simp only [hstep, dsInit]
  by_cases hk : keys = []
  · simp [hk, keysOf]
  · simp [hk, hc, keysOf]

theorem init_none_disables (E : BlockFn) (s : Option DS) (c : Nat) :
    (hstep E s (.init none c)).1 = none := rfl

open XknxVerif.Automata in
/-- **The key table in force is the one of the last `data_secure_init`**, for every
history before it and every init-free history after it. -/
theorem keys_are_last_init (E : BlockFn) (s0 : Option DS) (pre post : List HEv)
    (keys : List (Nat × Bytes)) (senders : List (Nat × Nat)) (c : Nat) (hc : initOk c = true)
    (hpost : ∀ e ∈ post, e.isInit = false) :
    keysOf (after E s0 (pre ++ .init (some (keys, senders)) c :: post)) = keys := by
  simp only [after, run_append, run_cons]
  have := run_keys E post (hstep E (run (hstep E) s0 pre).1 (.init (some (keys, senders)) c)).1 hpost
  simp only [after] at this
  rw [this, init_installs E _ keys senders c hc]

theorem keysOf_some (s : Option DS) (dst : Nat) (key : Bytes) (h : (keysOf s).lookup dst = some key) :
    ∃ ds, s = some ds ∧ ds.keys.lookup dst = some key := by
  cases s with
  | none => simp [keysOf, List.lookup] at h
  | some ds => exact ⟨ds, rfl, h⟩

open XknxVerif.Automata in
/-- **Plain data to an address keyed by the CURRENT keyring is never delivered** – after any
number of restarts with any keyrings: only the key-issue route, state unchanged. -/
theorem plain_to_currently_keyed (E : BlockFn) (s0 : Option DS) (pre post : List HEv)
    (keys : List (Nat × Bytes)) (senders : List (Nat × Nat)) (c : Nat) (hc : initOk c = true)
    (hpost : ∀ e ∈ post, e.isInit = false)
    (f : Frame) (io : Bool) (key : Bytes)
    (hp : f.payload.isSecure = false) (hg : f.group = true) (hk : keys.lookup f.dst = some key) :
    (hstep E (after E s0 (pre ++ .init (some (keys, senders)) c :: post)) (.recv f io)).2
      = [.route (.keyIssue (isTDataGroup f))] := by
  have hkeys := keys_are_last_init E s0 pre post keys senders c hc hpost
  obtain ⟨ds, hs, hl⟩ := keysOf_some _ f.dst key (by rw [hkeys]; exact hk)
  rw [hs]
  simp only [hstep, plain_to_keyed_only_key_issue E ds f _ key hp hg hl]

open XknxVerif.Automata in
/-- **Outgoing frames to an address with a (non-empty) key in the CURRENT keyring are never
handed over plain**, after any number of restarts. -/
theorem outgoing_to_currently_keyed (E : BlockFn) (s0 : Option DS) (pre post : List HEv)
    (keys : List (Nat × Bytes)) (senders : List (Nat × Nat)) (c : Nat) (hc : initOk c = true)
    (hpost : ∀ e ∈ post, e.isInit = false)
    (f : Frame) (key : Bytes) (hg : f.group = true) (hk : keyFor keys f.dst = some key) :
    ∀ g, (hstep E (after E s0 (pre ++ .init (some (keys, senders)) c :: post)) (.send f)).2 ≠ [.sendRes (.plain g)] := by
  intro g
  have hkeys := keys_are_last_init E s0 pre post keys senders c hc hpost
  obtain ⟨ds, hs, hl⟩ := keysOf_some _ f.dst key (by rw [hkeys]; exact keyFor_lookup keys f.dst key hk)
  have hkf : keyFor ds.keys f.dst = some key := by
    have : ds.keys = keys := by rw [hs] at hkeys; exact hkeys
    rw [this]; exact hk
  rw [hs]
  simp only [hstep]
  rcases outgoing_keyed_never_plain E ds f key hg hkf with ⟨d, h⟩ | ⟨w, h⟩ | ⟨e, h⟩ <;> rw [h] <;> simp

open XknxVerif.Automata in
/-- An address the current keyring does NOT key takes plain data again, even if an earlier
keyring keyed it (and vice versa nothing of an earlier keyring survives). -/
theorem plain_to_currently_unkeyed (E : BlockFn) (s0 : Option DS) (pre post : List HEv)
    (keys : List (Nat × Bytes)) (senders : List (Nat × Nat)) (c : Nat) (hc : initOk c = true)
    (hpost : ∀ e ∈ post, e.isInit = false)
    (f : Frame) (io : Bool) (hp : f.payload.isSecure = false) (hk : keys.lookup f.dst = none) :
    (hstep E (after E s0 (pre ++ .init (some (keys, senders)) c :: post)) (.recv f io)).2
      = [.route (.telegram f.payload.bytes false)] := by
  have hkeys := keys_are_last_init E s0 pre post keys senders c hc hpost
  generalize after E s0 (pre ++ .init (some (keys, senders)) c :: post) = s at hkeys
  cases s with
  | none => simp only [hstep, handle, hp]; rfl
  | some ds =>
    have : ds.keys.lookup f.dst = none := by simp only [keysOf] at hkeys; rw [hkeys]; exact hk
    simp only [hstep, plain_elsewhere_passes E ds f _ hp (Or.inr this)]

/-- Non-vacuity: restart with a keyring that keys one more address (0x0001); a plain frame to it
is then a key issue, and a frame to the address the new keyring dropped (0x0A03) is delivered. -/
example :
    (XknxVerif.Automata.run (hstep (fun _ _ => List.replicate 16 0)) none
      [ .init (some ([(0x0A03, [1])], [])) 1000,
        .recv ⟨0xBC60, true, 0, 0x1101, 0x0001, 0, .plain [0x00, 0x81]⟩ true,
        .init (some ([(0x0001, [2])], [])) 2000,
        .recv ⟨0xBC60, true, 0, 0x1101, 0x0001, 0, .plain [0x00, 0x81]⟩ true,
        .recv ⟨0xBC60, true, 0, 0x1101, 0x0A03, 0, .plain [0x00, 0x81]⟩ true,
        .init none 3000,
        .recv ⟨0xBC60, true, 0, 0x1101, 0x0001, 0, .plain [0x00, 0x81]⟩ true ]).2
    = [ .inited true, .route (.telegram [0x00, 0x81] false),
        .inited true, .route (.keyIssue true), .route (.telegram [0x00, 0x81] false),
        .inited false, .route (.telegram [0x00, 0x81] false) ] := by decide

end XknxVerif.Props.C18
