/-
C09  Numeric datapoints encode every in-range value within one resolution step; values outside the declared
range are refused with a conversion error rather than wrapped.

Full, for every row of the regenerated table in the family and EVERY Python int `v` (unbounded), with floats
reaching these encoders only through `int(value)` (`float_inputs_truncate`):
* DPT 12 / 13 / 29 (`structint_spec`), DPT 5.x except scaling (`u8_spec`), DPT 6 (`s8_spec`), DPT 17
  (`scenenum_spec`): in range ⇒ accepted, DPTArray of `payload_length` octets, decodes to `v` itself;
  out of range ⇒ ConversionError;
* DPT 7 incl. resolution 10 / 100 (`u16_spec`): in range ⇒ accepted, decodes to `⌊v / res⌋·res`, which is
  less than one resolution step below `v`; out of range ⇒ ConversionError.
The table obligations (`*_rows_wf`) say that the declared value range equals raw range × resolution — they fail
on the pre-fix tree for DPT 7.003/7.004 and (`s16_declared_range`) for DPT 8.003/8.004/8.010.
Partial: DPT 8, DPT 5.001/5.003 (scaling), DPT 9, DPT 14 go through binary64 arithmetic on an unbounded input
domain.  Proved here for them: the declared bounds themselves are accepted and decode inside the range
(`float_family_bounds`, kernel evaluation through the binary64 model — the DPT 9 `7f ff` finding is a failing
instance of it before fix a5afb5f), and DPT 14 declares the finite binary32 range.  The statement for arbitrary
floats (`|decode (encode v) − v| < step v`) is checked by the correspondence/oracle run only.
-/
import XknxVerif.Lemmas.DPTNumeric
import XknxVerif.Generated.DPTTable

namespace XknxVerif.Props.C09
open XknxVerif.DPT XknxVerif.SF

abbrev ctx : Ctx := tableCtx

def rowsOf (f : Family) : List Row := Generated.table.filter fun r => r.family == f

theorem mem_rowsOf {r : Row} {f : Family} (hr : r ∈ Generated.table) (hf : r.family = f) : r ∈ rowsOf f := by
  unfold rowsOf; rw [List.mem_filter]; exact ⟨hr, by simp [hf]⟩

/-! ### table obligations: declared range = raw range × resolution -/

theorem structint_rows_wf : (rowsOf .structint).all wfStructIntEq = true := by decide +kernel
theorem u16_rows_wf : (rowsOf .u16).all wfU16 = true := by decide +kernel
theorem u8_rows_wf : (rowsOf .u8).all (wfOctet · 0 255) = true := by decide +kernel
theorem s8_rows_wf : (rowsOf .s8).all wfS8 = true := by decide +kernel
theorem scenenum_rows_wf : (rowsOf .scenenum).all (wfOctet · 1 256) = true := by decide +kernel

/-- DPT 8: the declared bounds are exactly the values of the raw extremes −32768 / 32767 (in binary64 for 8.010) -/
theorem s16_declared_range : (rowsOf .s16).all
    (fun r => s16Value r.res (-32768) == r.vmin && s16Value r.res 32767 == r.vmax) = true := by decide +kernel

/-! ### integer families, every int -/

theorem structint_spec (r : Row) (hr : r ∈ Generated.table) (hf : r.family = .structint) (v : Int) :
    ∃ lo hi, r.vmin = .int lo ∧ r.vmax = .int hi ∧ EncSpecInt ctx r lo hi v id :=
  structint_enc ctx r hf (List.all_eq_true.mp structint_rows_wf r (mem_rowsOf hr hf)) v

theorem u8_spec (r : Row) (hr : r ∈ Generated.table) (hf : r.family = .u8) (v : Int) :
    ∃ lo hi, r.vmin = .int lo ∧ r.vmax = .int hi ∧ EncSpecInt ctx r lo hi v id :=
  u8_enc ctx r hf (List.all_eq_true.mp u8_rows_wf r (mem_rowsOf hr hf)) v

theorem s8_spec (r : Row) (hr : r ∈ Generated.table) (hf : r.family = .s8) (v : Int) :
    EncSpecInt ctx r (-128) 127 v id :=
  s8_enc ctx r hf (List.all_eq_true.mp s8_rows_wf r (mem_rowsOf hr hf)) v

theorem scenenum_spec (r : Row) (hr : r ∈ Generated.table) (hf : r.family = .scenenum) (v : Int) :
    ∃ lo hi, r.vmin = .int lo ∧ r.vmax = .int hi ∧ EncSpecInt ctx r lo hi v id :=
  scenenum_enc ctx r hf (List.all_eq_true.mp scenenum_rows_wf r (mem_rowsOf hr hf)) v

/-- DPT 7: decodes to `⌊v / res⌋·res`, less than one resolution step below `v` -/
theorem u16_spec (r : Row) (hr : r ∈ Generated.table) (hf : r.family = .u16) (v : Int) :
    ∃ k, r.res = .int k ∧ 0 < k ∧ r.vmin = .int 0 ∧ r.vmax = .int (65535 * k) ∧
      EncSpecInt ctx r 0 (65535 * k) v (fun v => v.fdiv k * k) ∧
      (0 ≤ v → 0 ≤ v - v.fdiv k * k ∧ v - v.fdiv k * k < k) :=
  u16_enc ctx r hf (List.all_eq_true.mp u16_rows_wf r (mem_rowsOf hr hf)) v

/-- a float reaches these encoders as `int(value)`; inf / nan are conversion errors (fix 91797be) -/
theorem float_inputs_truncate (r : Row) (f : F)
    (hf : r.family = .structint ∨ r.family = .u8 ∨ r.family = .s8 ∨ r.family = .u16 ∨ r.family = .scenenum) :
    encodeNum r (.flt f) =
      match f.toIntTrunc with
      | .ok k => encodeNum r (.int k)
      | .error _ => .error .conv :=
  encodeNum_flt_int r f hf

/-! ### float families: PARTIAL — the declared bounds are accepted and decode inside the declared range -/

/-- `to_knx(bound)` is accepted, has the declared length, and `from_knx` of it lies in the declared range -/
def boundOK (r : Row) (b : PyNum) : Bool :=
  match encodeNum r b with
  | .ok (.array raw) =>
    raw.length == r.length && raw.all (· < 256) &&
      (match decode ctx r (.array raw) with
       | .ok (.atom (.int i)) => inRange r (.int i)
       | .ok (.atom (.flt f)) => inRange r (.flt f)
       | _ => false)
  | _ => false

theorem float_family_bounds_s16 : (rowsOf .s16).all (fun r => boundOK r r.vmin && boundOK r r.vmax) = true := by
  decide +kernel
theorem float_family_bounds_scaling : (rowsOf .scaling).all (fun r => boundOK r r.vmin && boundOK r r.vmax) = true := by
  decide +kernel
theorem float_family_bounds_f16 : (rowsOf .f16).all (fun r => boundOK r r.vmin && boundOK r r.vmax) = true := by
  decide +kernel
theorem float_family_bounds_f32 : (rowsOf .f32).all (fun r => boundOK r r.vmin && boundOK r r.vmax) = true := by
  decide +kernel

/-- DPT 14 declares the finite binary32 range (fix 113c9e1): ±(2 − 2⁻²³)·2¹²⁷ -/
theorem f32_declared_range : (rowsOf .f32).all
    (fun r => r.vmax == .flt (.fin false ((2 ^ 24 - 1) * 2 ^ (104 + 1074))) &&
              r.vmin == .flt (.fin true ((2 ^ 24 - 1) * 2 ^ (104 + 1074)))) = true := by decide +kernel

/-! Non-vacuity -/
example : (rowsOf .structint).length = 24 ∧ (rowsOf .u16).length = 13 ∧ (rowsOf .f16).length = 24 := by decide +kernel
/-- 655350 ms is in the declared range of DPT 7.003 and decodes to itself; 655351 decodes to 655350 -/
example : (rowsOf .u16).any (fun r => r.name == "DPTTimePeriod10Msec" && r.vmax == .int 655350) = true := by
  decide +kernel
example : (655351 : Int).fdiv 10 * 10 = 655350 := by decide

end XknxVerif.Props.C09
