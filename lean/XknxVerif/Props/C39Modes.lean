/-
C39 (ClimateMode part): an accepted operation-mode / controller-mode command leaves the device reporting that mode,
for EVERY configuration (any subset of writable mode objects, any list of binary mode objects, any filter) and EVERY
prior state; a refused command queues nothing (illegal mode) or fails only because the status object's value is unknown.
-/
import XknxVerif.Lemmas.ClimateModeLoop

namespace XknxVerif.Props.C39
open XknxVerif.ClimateModeLoop XknxVerif.Generated.DeviceLoop

set_option linter.unusedSimpArgs false
set_option linter.unusedVariables false

theorem opPart_carries (cfg : Cfg) (m : Nat) : ∀ t ∈ opPart cfg m, CarriesOp m t := by
  intro t ht
  unfold opPart at ht
  split at ht
  · simp at ht; subst ht; simp [CarriesOp]
  · simp at ht

theorem statusPartOp_carries (cfg : Cfg) (s : St) (m : Nat) (st : List Tg) (h : statusPartOp cfg s m = some st) :
    ∀ t ∈ st, CarriesOp m t := by
  intro t ht
  unfold statusPartOp at h
  split at h
  · cases hs : s.status with
    | none => simp [hs] at h
    | some v => simp [hs] at h; subst h; simp at ht; subst ht; simp [CarriesOp]
  · simp at h; subst h; simp at ht

/-- ACCEPTED `set_operation_mode(m)`: after its own telegrams were processed the device reports `m`. -/
theorem operation_mode_loop (cfg : Cfg) (s : St) (m : Nat) (ts : List Tg) (s' : St)
    (h : setOperationMode cfg s m = (.ok, ts, s')) : s'.op = m := by
  unfold setOperationMode at h
  split at h
  · simp at h
  · cases hst : statusPartOp cfg s m with
    | none => simp [hst] at h
    | some st =>
      simp only [hst, Prod.mk.injEq, true_and] at h
      obtain ⟨_, hs'⟩ := h
      rw [← hs']
      apply processAll_keeps_op
      · intro t ht
        rcases List.mem_append.mp ht with ht | ht
        · rcases List.mem_append.mp ht with ht | ht
          · exact opPart_carries cfg m t ht
          · exact statusPartOp_carries cfg s m st hst t ht
        · obtain ⟨own, _, rfl⟩ := List.mem_map.mp ht
          simp only [CarriesOp, beq_iff_eq]
          intro e; exact e.symm
      · rfl

theorem ctPart_carries (cfg : Cfg) (c : Nat) : ∀ t ∈ ctPart cfg c, CarriesCt c t := by
  intro t ht
  unfold ctPart at ht
  split at ht
  · simp at ht; subst ht; simp [CarriesCt]
  · simp at ht

theorem statusPartCt_carries (cfg : Cfg) (s : St) (c : Nat) (st : List Tg) (h : statusPartCt cfg s c = some st) :
    ∀ t ∈ st, CarriesCt c t := by
  intro t ht
  unfold statusPartCt at h
  split at h
  · rename_i hc
    have hc2 : statusCtModes.contains c = true := by
      simp only [Bool.and_eq_true] at hc; exact hc.2
    have hval : ctOfHeat (c == heat) = c := by
      have : c = 1 ∨ c = 3 := by
        simp [statusCtModes] at hc2; exact hc2
      rcases this with rfl | rfl <;> decide
    cases hs : s.status with
    | none => simp [hs] at h
    | some v => simp [hs] at h; subst h; simp at ht; subst ht; simp [CarriesCt, hval]
  · simp at h; subst h; simp at ht

theorem hcPart_carries (cfg : Cfg) (c : Nat) : ∀ t ∈ hcPart cfg c, CarriesCt c t := by
  intro t ht
  unfold hcPart at ht
  split at ht
  · rename_i hc
    have hc2 : heatCoolCtModes.contains c = true := by
      simp only [Bool.and_eq_true] at hc; exact hc.2
    have : c = 1 ∨ c = 3 := by
      simp [heatCoolCtModes] at hc2; exact hc2
    simp at ht; subst ht
    rcases this with rfl | rfl <;> simp only [CarriesCt] <;> decide
  · simp at ht

/-- ACCEPTED `set_controller_mode(c)`: after its own telegrams were processed the device reports `c`. -/
theorem controller_mode_loop (cfg : Cfg) (s : St) (c : Nat) (ts : List Tg) (s' : St)
    (h : setControllerMode cfg s c = (.ok, ts, s')) : s'.ct = c := by
  unfold setControllerMode at h
  split at h
  · simp at h
  · cases hst : statusPartCt cfg s c with
    | none => simp [hst] at h
    | some st =>
      simp only [hst, Prod.mk.injEq, true_and] at h
      obtain ⟨_, hs'⟩ := h
      rw [← hs']
      apply processAll_keeps_ct
      · intro t ht
        rcases List.mem_append.mp ht with ht | ht
        · rcases List.mem_append.mp ht with ht | ht
          · exact ctPart_carries cfg c t ht
          · exact statusPartCt_carries cfg s c st hst t ht
        · exact hcPart_carries cfg c t ht
      · rfl

/-- a mode that is not among the configured ones is refused as illegal with nothing queued and nothing changed,
and that is the only way to get `illegal`. -/
theorem illegal_iff (cfg : Cfg) (s : St) (m : Nat) :
    ((setOperationMode cfg s m).1 = .illegal ↔ (opSupported cfg).contains m = false) ∧
    ((opSupported cfg).contains m = false → setOperationMode cfg s m = (.illegal, [], s)) := by
  unfold setOperationMode
  cases hsup : (opSupported cfg).contains m with
  | false => simp
  | true =>
    cases hst : statusPartOp cfg s m <;> simp [hst]

/-- a conversion error can only come from the status object whose current value is unknown -/
theorem conv_only_without_status (cfg : Cfg) (s : St) (m : Nat) (h : (setOperationMode cfg s m).1 = .conv) :
    cfg.statusRv = true ∧ s.status = none := by
  unfold setOperationMode at h
  split at h
  · simp at h
  · split at h
    · rename_i hst
      unfold statusPartOp at hst
      split at hst
      · rename_i hc
        simp only [Bool.and_eq_true] at hc
        cases hs : s.status with
        | none => exact ⟨hc.1, rfl⟩
        | some v => simp [hs] at hst
      · simp at hst
    · simp at h

/-- the hypotheses are satisfiable: comfort + economy + protection bits, command STANDBY (all three bits go out as 0) -/
example : setOperationMode { opRv := false, ctRv := false, statusRv := false, heatCool := false, bins := [1, 3, 4], opFilter := none, ctFilter := none }
    St.init 2 = (.ok, [.bin 1 false, .bin 3 false, .bin 4 false], St.init) := by decide

example : (setControllerMode { opRv := false, ctRv := true, statusRv := false, heatCool := true, bins := [], opFilter := none, ctFilter := none }
    St.init 3).1 = .ok := by decide

end XknxVerif.Props.C39
