/-
C08  Every decoded datapoint value re-encodes to a payload with the same meaning.

`RT ctx r p`:  decode r p = ok v  →  ∃ p', encode r v = ok p' ∧ decode r p' = ok v
(text types: with '?' for undecodable bytes — the documented exception, `expected`).

Proved here, for every row of the regenerated table in the family and every payload of any length:
* classes whose decoder sees one item (6 bit value or one octet): DPT 1, 2, 3, 4, 5, 6, 17, 18, 20 —
  complete enumeration per class (256 octets + 64 six-bit values), chunked kernel evaluation; the two
  DPTScaling classes go through the binary64 model;
* DPT 12 / 13 / 29 (struct-int): generic proof (pack ∘ unpack = id, declared range ⊇ format range);
* DPT 7 (incl. resolution 10/100): generic integer proof under `wfU16` (value range = raw range × resolution);
* DPT 8 with float resolution (DPTPercentV16): complete kernel sweep of the 65 536 raw words through the
  binary64 model (the pre-fix truncation `00 1d → 0.29 → 00 1c` is a failing obligation of exactly this sweep).
* DPT 8 with integer resolution: the same sweep per declared (min, max, resolution) tuple.
Partial (hypothesis named, see notes/C08.md): DPT 9 — reduced to a range-independent numeric core over the
65 536 words (`f16Core`) that is too slow for the kernel (≈0.5 s per word at high exponents); the core is
evaluated completely by the compiled model in every run and a sample by the kernel.
Correspondence only: DPT 14, 16, 10, 11, 19, 232, 235, 242, 243, 249–254.
-/
import XknxVerif.Lemmas.DPTSweep
import XknxVerif.Sweep.S16.All
import XknxVerif.Sweep.S16Int.All
import XknxVerif.Sweep.OneItemA.All
import XknxVerif.Sweep.OneItemB.All

namespace XknxVerif.Props.C08
open XknxVerif.DPT

abbrev ctx : Ctx := tableCtx

/-- (1) one-item classes: every payload of every such class round-trips. -/
theorem roundtrip_one_item (r : Row) (hr : r ∈ Generated.table) (hl : rawLen r = 1) (p : Payload) (hp : p.WF) :
    RT ctx r p :=
  oneItem_rt Sweep.OneItemA.all Sweep.OneItemB.all r hr hl p hp

/-- which families that covers in the current table (all their rows have one item) -/
theorem one_item_families : (Generated.table.filter fun r =>
    r.family ∈ [.enum, .binctl, .ctldim, .ctlblinds, .u8, .scaling, .s8, .scenenum, .scenectl, .hvacstatus]).all
      (fun r => rawLen r == 1) = true := by decide +kernel

/-- (2) struct-int classes: declared range covers the format range for every row … -/
theorem structint_rows_wf : (Generated.table.filter fun r => r.family == .structint).all wfStructInt = true := by
  decide +kernel

/-- … hence every payload round-trips (to the identical payload). -/
theorem roundtrip_structint (r : Row) (hr : r ∈ Generated.table) (hf : r.family = .structint)
    (p : Payload) (hp : p.WF) : RT ctx r p := by
  have : r ∈ Generated.table.filter fun r => r.family == .structint := by
    rw [List.mem_filter]; exact ⟨hr, by simp [hf]⟩
  exact structint_rt ctx r hf (List.all_eq_true.mp structint_rows_wf r this) p hp

/-- (3) DPT 7: value range = raw range × resolution for every row (this is what fix 5c47fa5 established) … -/
theorem u16_rows_wf : (Generated.table.filter fun r => r.family == .u16).all wfU16 = true := by decide +kernel

theorem roundtrip_u16 (r : Row) (hr : r ∈ Generated.table) (hf : r.family = .u16)
    (p : Payload) (hp : p.WF) : RT ctx r p := by
  have : r ∈ Generated.table.filter fun r => r.family == .u16 := by
    rw [List.mem_filter]; exact ⟨hr, by simp [hf]⟩
  exact u16_rt ctx r hf (List.all_eq_true.mp u16_rows_wf r this) p hp

/-- shape of the DPT 8 rows; float-resolution rows are covered by the sweep's parameter list -/
def s16Shape (r : Row) : Bool := r.kind == .array && r.length == 2 && r.fmt == ">h"

theorem s16_rows_shape : (Generated.table.filter fun r => r.family == .s16).all
    (fun r => s16Shape r && (match r.res with
      | .flt _ => s16FloatParams.contains (s16Params r)
      | .int _ => s16IntParams.contains (s16Params r))) = true := by
  decide +kernel

/-- (4) DPT 8 with a float resolution (DPTPercentV16): complete sweep of the 65 536 raw words. -/
theorem roundtrip_s16_float (r : Row) (hr : r ∈ Generated.table) (hf : r.family = .s16)
    (hres : ∃ f, r.res = .flt f) (p : Payload) (hp : p.WF) : RT ctx r p := by
  have hm : r ∈ Generated.table.filter fun r => r.family == .s16 := by
    rw [List.mem_filter]; exact ⟨hr, by simp [hf]⟩
  have hs := List.all_eq_true.mp s16_rows_shape r hm
  obtain ⟨f, hf'⟩ := hres
  simp only [s16Shape, hf', Bool.and_eq_true, beq_iff_eq, List.contains_iff_mem] at hs
  obtain ⟨⟨⟨hk, hl⟩, hfmt⟩, hP⟩ := hs
  exact s16_rt ctx r hf hk hl hfmt (fun i h1 h2 => s16_of_chunks Sweep.S16.all _ hP i h1 h2) p hp

/-- (4') DPT 8 with an integer resolution (1, 10, 100): complete sweep of the 65 536 raw words per declared
parameter tuple (binary64 division of exactly representable integers). -/
theorem roundtrip_s16_int (r : Row) (hr : r ∈ Generated.table) (hf : r.family = .s16)
    (hres : ∃ k, r.res = .int k) (p : Payload) (hp : p.WF) : RT ctx r p := by
  have hm : r ∈ Generated.table.filter fun r => r.family == .s16 := by
    rw [List.mem_filter]; exact ⟨hr, by simp [hf]⟩
  have hs := List.all_eq_true.mp s16_rows_shape r hm
  obtain ⟨k, hk'⟩ := hres
  simp only [s16Shape, hk', Bool.and_eq_true, beq_iff_eq, List.contains_iff_mem] at hs
  obtain ⟨⟨⟨hk, hl⟩, hfmt⟩, hP⟩ := hs
  exact s16_rt ctx r hf hk hl hfmt (fun i h1 h2 => s16int_of_chunks Sweep.S16Int.all _ hP i h1 h2) p hp

/-- (4'') every DPT 8 class -/
theorem roundtrip_s16 (r : Row) (hr : r ∈ Generated.table) (hf : r.family = .s16)
    (p : Payload) (hp : p.WF) : RT ctx r p := by
  cases hres : r.res with
  | int k => exact roundtrip_s16_int r hr hf ⟨k, hres⟩ p hp
  | flt f => exact roundtrip_s16_float r hr hf ⟨f, hres⟩ p hp

theorem f16_rows_shape : (Generated.table.filter fun r => r.family == .f16).all
    (fun r => r.kind == .array && r.length == 2) = true := by decide +kernel

/-- (5) DPT 9 — PARTIAL: for every declared range, reduced to the range-independent numeric core `f16Core`
on the 65 536 words (the encoder's candidate mantissa reproduces the decoded value exactly, so the range guard
of fix a5afb5f never fires on decoded values), which is assumed here.  Full statement: the same without `hcore`. -/
theorem roundtrip_f16_partial (r : Row) (hr : r ∈ Generated.table) (hf : r.family = .f16)
    (hcore : ∀ data : Nat, data < 65536 → f16Core data = true)
    (p : Payload) (hp : p.WF) : RT ctx r p := by
  have hm : r ∈ Generated.table.filter fun r => r.family == .f16 := by
    rw [List.mem_filter]; exact ⟨hr, by simp [hf]⟩
  have hs := List.all_eq_true.mp f16_rows_shape r hm
  simp only [Bool.and_eq_true, beq_iff_eq] at hs
  exact f16_rt ctx r hf hs.1 hs.2 hcore p hp

/-- kernel-checked sample of the DPT 9 core (a test, not the theorem): exponent 0, both signs -/
theorem f16_core_sample : ((List.range 16).all fun j => f16Core (j * 137 % 2048) && f16Core (0x8000 + j * 137 % 2048)) = true := by
  decide +kernel

/-! Non-vacuity -/
/-- the finding before fix 762b71a, as a value: raw 29 now comes back as 29 -/
example : s16FloatParams.all (fun P => s16Core P 29) = true := by decide +kernel
example : s16FloatParams.length = 1 := by decide +kernel
example : (Generated.table.any fun r => r.name == "DPTPercentV16" && r.family == .s16 &&
    (match r.res with | .flt _ => true | .int _ => false)) = true := by decide +kernel
example : (Generated.table.filter fun r => rawLen r == 1).length = 59 := by decide +kernel

end XknxVerif.Props.C08
