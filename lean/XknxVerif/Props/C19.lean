/-
C19  Data Secure output conforms to the KNX CCM construction.

`Spec.specSecure` (Model/DataSecureSpec.lean) is the KNX Data Secure
authenticated-encryption scheme written from the specification: B₀, two-octet
associated-data length prefix, zero padding, CBC-MAC recurrence, counter blocks
`Ctrᵢ` with a one-octet block index, MAC truncated to four octets.
`DataSecure.secure` (Model/DataSecure.lean) is shaped like xknx: `bytes((…))`
with `|`, `byte_pad` of the concatenation, CBC *encryption* keeping the last 16
octets, `cryptography`'s CTR with its 128-bit big-endian counter and two
`update()` calls.  The theorem says they produce the same ASDU for every
block function, key and every representable input with an APDU of at most 255
octets.  The correspondence run compares xknx's real output with the Lean
`specSecure` running the Lean AES.
-/
import XknxVerif.Lemmas.DataSecureSpec
import XknxVerif.Crypto.AES128

namespace XknxVerif.Props.C19
open XknxVerif XknxVerif.Crypto XknxVerif.DataSecure
open XknxVerif.Generated.DataSecure (algAuth algEnc svcData apciSecHigh apciSecLow sequenceNumberMax)

/-- **C19.**  For every block function with 16-octet outputs (in particular
AES-128), every key, addresses, address type and every input in `Inputs`, the
ASDU the xknx-shaped code produces is the one the specification prescribes. -/
theorem codeSecure_eq_specSecure (E : BlockFn) (hE : E.Len16) (key : Bytes) (scf : Scf)
    (seq sa da : Nat) (group : Bool) (eff tpci : Nat) (apdu : Bytes)
    (h : Inputs scf seq eff tpci apdu) :
    (secure E key scf seq (ctxOf sa da group eff tpci) apdu).map SecureData.toKnx
      = .ok (Spec.specSecure E key scf.toKnx seq sa da group eff tpci apdu) := by
  have halg8 : scf.algorithm < 8 := by
    rcases h.hAlg with a | a <;> rw [a] <;> decide
  have hsa : Spec.scfAlgorithm scf.toKnx = scf.algorithm :=
    scfAlgorithm_toKnx scf.toolAccess scf.systemBroadcast ⟨scf.algorithm, halg8⟩ ⟨scf.service, h.hSvc⟩
  unfold secure
  rw [if_pos h.hSeq]
  unfold secureWith Spec.specSecure
  rw [hsa]
  rcases h.hAlg with ha | ha
  · -- authentication only
    have h0 : scf.algorithm = 0 := ha
    rw [if_pos ha, if_pos h0]
    unfold secureAuth
    rw [block0_eq_B0 seq sa da group eff tpci 0 h.hEff h.hTpci h.hData (by omega)]
    have hlen : (scf.toKnx :: apdu).length < 65536 := by have := h.hLen; simp; omega
    simp only [macCbc, if_pos hlen]
    rw [cbcLast_macInput E hE key _ _ _ (B0_length ..)]
    simp [Except.map, SecureData.toKnx, Spec.tag]
  · -- authenticated encryption
    have hne : scf.algorithm ≠ algAuth := fun h' => algAuth_ne_algEnc (h' ▸ ha)
    have h1 : ¬ scf.algorithm = 0 := fun h' => hne h'
    rw [if_neg hne, if_pos ha, if_neg h1]
    unfold secureEnc
    rw [block0_eq_B0 seq sa da group eff tpci apdu.length h.hEff h.hTpci h.hData (by have := h.hLen; omega)]
    have hlen : [scf.toKnx].length < 65536 := by simp
    simp only [macCbc, if_pos hlen]
    rw [cbcLast_macInput E hE key _ _ _ (B0_length ..)]
    have htag : (cbcMac E key (Spec.B0 seq sa da group eff tpci apdu.length ::
        blocks16 (pad16 (Bytes.ofNatBE 2 [scf.toKnx].length ++ [scf.toKnx] ++ apdu)))).take 4
        = Spec.tag E key (Spec.B0 seq sa da group eff tpci apdu.length) [scf.toKnx] apdu := rfl
    rw [htag]
    have htl := tag_length E hE key (Spec.B0 seq sa da group eff tpci apdu.length) [scf.toKnx] apdu
    generalize Spec.tag E key (Spec.B0 seq sa da group eff tpci apdu.length) [scf.toKnx] apdu = t at htl ⊢
    have hctx : (ctxOf sa da group eff tpci).addr = Bytes.ofNatBE 2 sa ++ Bytes.ofNatBE 2 da := rfl
    rw [hctx, counter0_eq_Ctr0]
    have hn : nblocks (t.length + apdu.length) ≤ 256 := by
      have := h.hLen; unfold nblocks; omega
    simp only [ctrXor2, ctrXor, List.length_append, Except.map, SecureData.toKnx]
    rw [Ctr0_eq_pre, ctrStream_eq_spec E key _ _ hn, htl]

/-- The declarations the model reads from the code (regenerated on every run) are the
ones the theorems assume: exactly the two algorithms, 3-bit services, 4-bit frame formats,
the A_Sec APCI `0x3F1` split into the two `block_0` octets, the 48-bit maximum and the
Address Type bit. A changed declaration breaks this proof. -/
theorem generated_tables_wf :
    (∀ a ∈ Generated.DataSecure.algorithms, a.1 = algAuth ∨ a.1 = algEnc) ∧
    (∀ s ∈ Generated.DataSecure.services, s.1 < 8) ∧
    (∀ f ∈ Generated.DataSecure.frameFormats, f.1 < 16) ∧
    Generated.DataSecure.apciSec = apciSecHigh * 256 + apciSecLow ∧
    Generated.DataSecure.apciSecIsExt = true ∧
    sequenceNumberMax = 2 ^ 48 - 1 ∧
    Generated.DataSecure.addressTypeGroupBit = 0x80 ∧
    Generated.DataSecure.addressTypeIndividualBit = 0 ∧
    algAuth = 0 ∧ algEnc = 1 ∧ svcData = 0 := by decide

/-- The AES-128 model has 16-octet outputs, so the theorem applies to it. -/
theorem aes_len16 : BlockFn.Len16 AES128.encrypt := AES128.encrypt_length

/-- C19 instantiated with AES-128. -/
theorem aes_codeSecure_eq_specSecure (key : Bytes) (scf : Scf) (seq sa da : Nat) (group : Bool)
    (eff tpci : Nat) (apdu : Bytes) (h : Inputs scf seq eff tpci apdu) :
    (secure AES128.encrypt key scf seq (ctxOf sa da group eff tpci) apdu).map SecureData.toKnx
      = .ok (Spec.specSecure AES128.encrypt key scf.toKnx seq sa da group eff tpci apdu) :=
  codeSecure_eq_specSecure _ aes_len16 key scf seq sa da group eff tpci apdu h

/-- Hypotheses are satisfiable: the KNX AN158 Annex A example (tool access,
authenticated encryption, 22-octet APDU spanning two key-stream blocks). -/
example : Inputs ⟨true, algEnc, false, svcData⟩ 4 0 0
    [0x03,0xd7,0x05,0x35,0x10,0x01,0x20,0x21,0x22,0x23,0x24,0x25,0x26,0x27,0x28,0x29,0x2a,0x2b,0x2c,0x2d,0x2e,0x2f] :=
  ⟨Or.inr rfl, by decide, by decide, by decide, by decide, by decide, by decide⟩

/-- … and the specification function reproduces the Annex A frame octet for octet
(kernel evaluation, real AES). -/
example : Spec.specSecure AES128.encrypt
    [0x00,0x01,0x02,0x03,0x04,0x05,0x06,0x07,0x08,0x09,0x0a,0x0b,0x0c,0x0d,0x0e,0x0f]
    0x90 4 0xFF67 0xFF00 false 0 0
    [0x03,0xd7,0x05,0x35,0x10,0x01,0x20,0x21,0x22,0x23,0x24,0x25,0x26,0x27,0x28,0x29,0x2a,0x2b,0x2c,0x2d,0x2e,0x2f]
  = [0x00,0x00,0x00,0x00,0x00,0x04,
     0x67,0x67,0x24,0x2a,0x23,0x08,0xca,0x76,0xa1,0x17,0x74,0x21,0x4e,0xe4,0xcf,0x5d,0x94,0x90,0x9f,0x74,0x3d,0x05,
     0x0d,0x8f,0xc1,0x68] := by decide +kernel

/-- The bound on the number of key-stream blocks is not vacuous slack: with 256
blocks consumed the 128-bit counter carries into the next octet while the
one-octet index wraps (so the two formulations differ from block 256 on). -/
example : inc128 ([0, 0xFF]) ≠ ctrBlock [0, 0xFF] 0x100 := by decide

end XknxVerif.Props.C19
