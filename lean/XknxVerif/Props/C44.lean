/-
C44  Address programming never creates an address conflict.
Property theorems only (model: `XknxVerif.Model.Procedures`, lemmas: `XknxVerif.Lemmas.Procedures`); every
statement is for ALL bus populations (any number of devices, any addresses) and both delivery timings (`sync`: a device's
reaction is processed while the causing send is still awaited, or afterwards).
-/
import XknxVerif.Lemmas.Procedures

namespace XknxVerif.Props.C44
open XknxVerif.Procedures

/-- Devices at `x` that answer or refuse, i.e. that "use" the address as far as anyone on the bus can tell. -/
def responsive (bus : Bus) (x : Nat) : Nat :=
  (bus.filter fun d => d.addr = x ∧ d.beh ≠ .silent).length

/-! ### (1) the broadcast write -/

private theorem not_found_silent {sync : Bool} {bus : Bus} (hf : (checkAddress sync bus target).1 = false) :
    ∀ d ∈ bus, d.addr = target → d.beh = .silent := by
  rw [checkAddress_found] at hf
  simp only [Bool.or_eq_false_iff, decide_eq_false_iff_not] at hf
  intro d hd hx
  have h1 := countAt_zero hf.1 d hd hx
  have h2 := countAt_zero hf.2 d hd hx
  cases hb : d.beh <;> simp_all

private theorem one_prog {bus : Bus} {p : Nat} (hp : progAddrs bus = [p]) : (bus.filter (·.prog)).length = 1 := by
  have : (progAddrs bus).length = 1 := by rw [hp]; rfl
  simpa [progAddrs] using this

/-- The A_IndividualAddress_Write broadcast is sent ⇒ the address written is the target, exactly one device is
in programming mode, and every device at the target address is silent (no device answers or refuses there). -/
theorem write_only_if_safe (sync : Bool) (bus : Bus) (a : Nat) (h : Tel.bWrite a ∈ (addrWrite sync bus).tels) :
    a = target ∧ (bus.filter (·.prog)).length = 1 ∧ ∀ d ∈ bus, d.addr = target → d.beh = .silent := by
  have hc : ∀ x, Tel.bWrite a ∉ (checkAddress sync bus x).2.1 := by
    intro x hm; rcases checkAddress_tels sync bus x _ hm with h | h | h <;> simp at h
  have hr : ∀ b x, Tel.bWrite a ∉ (restartSession sync b x).tels := by
    intro b x hm; rcases restartSession_tels sync b x _ hm with h | h | h | h <;> simp at h
  have hcase := addrWrite_cases sync bus
  generalize addrWrite sync bus = out at hcase h
  cases hcase with
  | fail _ =>
    simp only [List.mem_append, List.mem_singleton] at h
    rcases h with h | h
    · exact absurd h (hc _)
    · simp at h
  | held _ _ =>
    simp only [List.mem_append, List.mem_singleton] at h
    rcases h with (h | h) | h
    · exact absurd h (hc _)
    · simp at h
    · exact absurd h (hr _ _)
  | write p hp hf =>
    simp only [List.mem_append, List.mem_cons, List.not_mem_nil, or_false] at h
    rcases h with (h | h | h) | h
    · exact absurd h (hc _)
    · simp at h
    · simp only [Tel.bWrite.injEq] at h
      exact ⟨h, one_prog hp, not_found_silent hf⟩
    · exact absurd h (hr _ _)

/-- A device that answers or refuses at the target address ⇒ nothing is written. -/
theorem occupied_target_no_write (sync : Bool) (bus : Bus) (d : Dev) (hd : d ∈ bus) (hx : d.addr = target)
    (hb : d.beh ≠ .silent) (a : Nat) : Tel.bWrite a ∉ (addrWrite sync bus).tels := by
  intro h
  exact hb ((write_only_if_safe sync bus a h).2.2 d hd hx)

/-! ### (2) no new conflict -/

private theorem responsive_restartAt (bus : Bus) (x y : Nat) : responsive (restartAt bus x) y ≤ responsive bus y := by
  unfold responsive restartAt
  apply filter_map_le
  intro d _ h
  split at h <;> simpa using h

private theorem responsive_restartSession (sync : Bool) (bus : Bus) (x y : Nat) :
    responsive (restartSession sync bus x).bus y ≤ responsive bus y := by
  rcases restartSession_bus sync bus x with h | h <;> rw [h]
  · exact Nat.le_refl _
  · exact responsive_restartAt bus x y

private theorem responsive_writeAddr (bus : Bus) (x : Nat) (hone : (bus.filter (·.prog)).length = 1)
    (hsil : ∀ d ∈ bus, d.addr = target → d.beh = .silent) :
    responsive (writeAddr bus target) x ≤ max (responsive bus x) 1 := by
  unfold responsive writeAddr
  by_cases hx : x = target
  · subst hx
    have h0 : (bus.filter fun d => decide (d.addr = target ∧ d.beh ≠ .silent)).length = 0 := by
      rw [List.length_eq_zero_iff, List.filter_eq_nil_iff]
      intro d hd
      simp only [decide_eq_true_eq, not_and, Decidable.not_not]
      exact fun hx => hsil d hd hx
    have := filter_map_le2 bus (fun d => if d.prog then { d with addr := target } else d)
      (fun d => decide (d.addr = target ∧ d.beh ≠ .silent)) (·.prog)
      (fun d => decide (d.addr = target ∧ d.beh ≠ .silent))
      (by
        intro d _ h
        by_cases hp : d.prog = true
        · left; exact hp
        · right; simpa [hp] using h)
    omega
  · have := filter_map_le bus (fun d => if d.prog then { d with addr := target } else d)
      (fun d => decide (d.addr = x ∧ d.beh ≠ .silent)) (fun d => decide (d.addr = x ∧ d.beh ≠ .silent))
      (by
        intro d _ h
        by_cases hp : d.prog = true
        · simp [hp] at h; exact absurd h.1.symm hx
        · simpa [hp] using h)
    omega

/-- The procedure never creates an address conflict: at every address, the number of devices that answer or
refuse afterwards is at most what it was before, or 1 (the freshly programmed device). -/
theorem no_new_conflict (sync : Bool) (bus : Bus) (x : Nat) :
    responsive (addrWrite sync bus).bus x ≤ max (responsive bus x) 1 := by
  have hcase := addrWrite_cases sync bus
  generalize addrWrite sync bus = out at hcase ⊢
  cases hcase with
  | fail _ => simp only; omega
  | held _ _ =>
    simp only
    have := responsive_restartSession sync bus target x
    omega
  | write p hp hf =>
    simp only
    have h1 := responsive_restartSession sync (writeAddr bus target) target x
    have h2 := responsive_writeAddr bus x (one_prog hp) (not_found_silent hf)
    omega

/-- One procedure of a history (check, restart, read or the address write) never creates a conflict either. -/
theorem op_no_new_conflict (sync : Bool) (bus : Bus) (o : Op) (x : Nat) :
    responsive (runOp sync bus o).bus x ≤ max (responsive bus x) 1 := by
  cases o with
  | check y => simp only [runOp]; omega
  | restartDev y =>
    simp only [runOp, restartProc]
    have := responsive_restartAt bus y x
    split
    · simp only; omega
    · simp only; omega
  | read r => simp only [runOp]; omega
  | write => exact no_new_conflict sync bus x

/-- Over ANY history of procedures run one after the other on the same bus (earlier address checks, restarts, reads
and writes, whatever their outcome), no address ends up with more answering/refusing devices than it had at the start,
or one. -/
theorem history_no_new_conflict (sync : Bool) (ops : List Op) : ∀ (bus : Bus) (x : Nat),
    responsive (histBus sync bus ops) x ≤ max (responsive bus x) 1 := by
  induction ops with
  | nil => intro bus x; simp only [histBus]; omega
  | cons o os ih =>
    intro bus x
    simp only [histBus]
    have h1 := ih (runOp sync bus o).bus x
    have h2 := op_no_new_conflict sync bus o x
    omega

/-- … and every address write inside a history is as safe as a single one: it sees the bus the earlier
procedures left, nothing else. -/
theorem history_write_only_if_safe (sync : Bool) (bus : Bus) (pre : List Op) (a : Nat)
    (h : Tel.bWrite a ∈ (runOp sync (histBus sync bus pre) .write).tels) :
    a = target ∧ ((histBus sync bus pre).filter (·.prog)).length = 1 ∧
      ∀ d ∈ histBus sync bus pre, d.addr = target → d.beh = .silent :=
  write_only_if_safe sync (histBus sync bus pre) a h

/-! ### (3) what is restarted -/

/-- A_Restart is only ever sent to the target address. -/
theorem restart_only_to_target (sync : Bool) (bus : Bus) (x n : Nat) (h : Tel.data x n .restart ∈ (addrWrite sync bus).tels) :
    x = target := by
  have hc : ∀ y, Tel.data x n .restart ∉ (checkAddress sync bus y).2.1 := by
    intro y hm; rcases checkAddress_tels sync bus y _ hm with h | h | h <;> simp at h
  have hr : ∀ b, Tel.data x n .restart ∈ (restartSession sync b target).tels → x = target := by
    intro b hm; rcases restartSession_tels sync b target _ hm with h | h | h | h <;> simp at h
    exact h.1
  have hcase := addrWrite_cases sync bus
  generalize addrWrite sync bus = out at hcase h
  cases hcase with
  | fail _ =>
    simp only [List.mem_append, List.mem_singleton] at h
    rcases h with h | h
    · exact absurd h (hc _)
    · simp at h
  | held _ _ =>
    simp only [List.mem_append, List.mem_singleton] at h
    rcases h with (h | h) | h
    · exact absurd h (hc _)
    · simp at h
    · exact hr _ h
  | write p hp hf =>
    simp only [List.mem_append, List.mem_cons, List.not_mem_nil, or_false] at h
    rcases h with (h | h | h) | h
    · exact absurd h (hc _)
    · simp at h
    · simp at h
    · exact hr _ h

/-- Programming mode is left only by answering devices that sit at the target address. -/
theorem restartAt_changes (bus : Bus) (x i : Nat) (d d' : Dev) (h : bus[i]? = some d)
    (h' : (restartAt bus x)[i]? = some d') :
    d'.addr = d.addr ∧ d'.beh = d.beh ∧ (d'.prog ≠ d.prog → d.addr = x ∧ d.beh = .answers ∧ d'.prog = false) := by
  unfold restartAt at h'
  rw [List.getElem?_map, h] at h'
  simp only [Option.map_some, Option.some.injEq] at h'
  subst h'
  split
  · rename_i hc; exact ⟨rfl, rfl, fun _ => ⟨hc.1, hc.2, rfl⟩⟩
  · exact ⟨rfl, rfl, fun hne => absurd rfl hne⟩

/-! ### (4) target already held by the device in programming mode -/

/-- The only device in programming mode already answers at the target address (and nobody refuses there) ⇒
no write; the device is restarted and the procedure succeeds. -/
theorem held_target_restart_only (sync : Bool) (bus : Bus) (hprog : progAddrs bus = [target])
    (hA : 0 < countAt bus target .answers) (hR : ¬ 0 < countAt bus target .refuses) :
    (addrWrite sync bus).res = .ok ∧ (∀ a, Tel.bWrite a ∉ (addrWrite sync bus).tels) ∧
    Tel.data target 1 .restart ∈ (addrWrite sync bus).tels ∧ (addrWrite sync bus).bus = restartAt bus target := by
  simp [addrWrite, checkAddress, hR, hA, hprog, restartSession]

/-! ### (5) serial-number procedures -/

/-- The serial-number read returns the address of the first device whose serial is the requested one — whatever
other responses (of "chatty" devices with other serials) arrive before it. -/
theorem serialRead_eq (bus : List SDev) (s : Nat) :
    serialRead bus s = ((bus.filter fun d => d.serial = s).head?).map (·.addr) := by
  unfold serialRead serialResponses
  induction bus with
  | nil => rfl
  | cons d ds ih =>
    by_cases hs : d.serial = s
    · simp [hs]
    · by_cases hc : d.chatty = true
      · simp [hs, hc] at ih ⊢
        exact ih
      · simp [hs, hc] at ih ⊢
        exact ih

theorem serialRead_sound (bus : List SDev) (s a : Nat) (h : serialRead bus s = some a) :
    ∃ d ∈ bus, d.serial = s ∧ d.addr = a := by
  rw [serialRead_eq] at h
  cases hf : (bus.filter fun d => d.serial = s) with
  | nil => simp [hf] at h
  | cons d ds =>
    simp [hf] at h
    have : d ∈ bus.filter fun d => d.serial = s := by rw [hf]; exact List.mem_cons_self
    rw [List.mem_filter] at this
    exact ⟨d, this.1, by simpa using this.2, h⟩

/-- The serial-number write changes only the address of devices with the requested serial (those that obey),
leaves every device with another serial alone, and reports success exactly when the first device answering the
verification read for that serial sits at the new address. -/
theorem serialWrite_spec (bus : List SDev) (s a : Nat) :
    (serialWrite bus s a).2 = bus.map (fun d => if d.serial = s ∧ d.obeys then { d with addr := a } else d) ∧
    (∀ d ∈ bus, d.serial ≠ s → d ∈ (serialWrite bus s a).2) ∧
    ((serialWrite bus s a).1 = .ok ↔
      ∃ d, ((serialWrite bus s a).2.filter fun d => d.serial = s).head? = some d ∧ d.addr = a) := by
  have hbus : (serialWrite bus s a).2 = serialWriteBus bus s a := by
    unfold serialWrite
    simp only
    split
    · rfl
    · split <;> rfl
  refine ⟨by rw [hbus]; rfl, ?_, ?_⟩
  · intro d hd hs
    rw [hbus]
    unfold serialWriteBus
    rw [List.mem_map]
    exact ⟨d, hd, by simp [hs]⟩
  · rw [hbus]
    unfold serialWrite
    simp only
    rw [serialRead_eq]
    cases hh : ((serialWriteBus bus s a).filter fun d => d.serial = s).head? with
    | none => simp
    | some d =>
      simp only [Option.map_some]
      by_cases hda : d.addr = a
      · simp [hda]
      · simp [hda]

/-! ### (6) two-step authorization -/

/-- Against a device that answers the same key with the same level, the two-step authorization returns the
better (numerically lower) of the free-access level and the client-key level. -/
theorem authorize2_min (free key : Nat) : (authorize2 free key free).1 = min free key := by
  unfold authorize2
  by_cases h0 : free = 0
  · simp [h0]
  · by_cases h1 : key > free
    · simp [h0, h1]; omega
    · simp [h0, h1]; omega

/-- In general it returns the level of the last authorization it performed, i.e. the level in force on the
device when the procedure returns. -/
theorem authorize2_last (l1 l2 l3 : Nat) :
    (authorize2 l1 l2 l3) = if l1 = 0 then (l1, 1) else if l2 > l1 then (l3, 3) else (l2, 2) := rfl

/-! ### Non-vacuity -/
example : Tel.bWrite target ∈ (addrWrite false [⟨1, true, .answers⟩, ⟨0, false, .silent⟩]).tels := by decide
example : (addrWrite false [⟨1, true, .answers⟩, ⟨0, false, .silent⟩]).bus = [⟨0, false, .answers⟩, ⟨0, false, .silent⟩] := by decide
example : Tel.bWrite target ∉ (addrWrite false [⟨1, true, .answers⟩, ⟨0, false, .refuses⟩]).tels := by decide
example : progAddrs [⟨0, true, .answers⟩, ⟨1, false, .answers⟩] = [target] ∧
    0 < countAt [⟨0, true, .answers⟩, ⟨1, false, .answers⟩] target .answers := by decide
example : serialRead [⟨1, 2, true, true⟩, ⟨0, 1, false, true⟩] 1 = some 0 := by decide
example : (serialWrite [⟨1, 2, true, true⟩, ⟨1, 1, false, false⟩] 1 0).1 = .err := by decide
example : (histBus false [⟨0, true, .silent⟩, ⟨1, true, .refuses⟩] [.check 1, .write]) = [⟨0, true, .silent⟩, ⟨1, true, .refuses⟩] := by decide
example : authorize2 3 1 3 = (1, 2) ∧ authorize2 1 3 1 = (1, 3) := by decide

end XknxVerif.Props.C44
