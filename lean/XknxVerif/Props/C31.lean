import XknxVerif.Model.Keyring
namespace XknxVerif.Props.C31
open XknxVerif.Keyring
theorem placeholder : encStr [] = [0] := rfl
end XknxVerif.Props.C31
