/-
C31  Keyrings load exactly what they contain and reject tampering.
Property theorems only (helper lemmas: `Lemmas/Keyring.lean`).

Parameters (outside the model, see notes/C31.md): the hash `H` (SHA-256), the
password hash `hashed` (PBKDF2 output), the block cipher `E`/`D` (AES-128),
the XML parser (the model starts from the SAX event stream of a tree).
-/
import XknxVerif.Lemmas.Keyring

namespace XknxVerif.Props.C31
open XknxVerif XknxVerif.Keyring

/-! ## (a) what is hashed -/

/-- (1) Fed with the SAX events of ANY element tree whose hashed strings fit a length octet, the
content handler produces exactly `enc(tree) ++ len ++ base64(hashed password)`. -/
theorem handler_computes_encoding (t : Tree) (hashed : Bytes) (hs : SmallT t)
    (hh : (b64encode hashed).length < 256) :
    handlerOutput (eventsT t) hashed = .ok (sigInput t hashed) := by
  have h := runEvents_eventsT t hs [] []
  simp only [List.append_nil, List.nil_append] at h
  simp only [handlerOutput, h, runEvents, appendString, hh, if_true, sigInput]

/-- (1') … and it refuses (ValueError in the code) an element name that does not fit. -/
theorem handler_refuses_long_name (out n : Bytes) (as : Attrs) (h : 256 ≤ n.length) :
    step out (.start n as) = .error .value := by
  have : ¬ n.length < 256 := by omega
  simp [step, appendString, this]

/-- (2) Parser inverse: on trees whose hashed attribute names are not 1 or 2 octets long, parsing the
hashed octets gives back the tree as the hash sees it (names, structure, sorted non-blacklisted
attributes), whatever follows. -/
theorem decode_encode (t : Tree) (hg : GoodT t) (rest : Bytes) :
    decodeTree (encT t ++ rest) = some (normT t, rest) := by
  unfold decodeTree
  apply decT_encT t hg
  have := sizeT_le t
  simp only [List.length_append]
  omega

/-- (3) Injectivity: two trees hash the same octets only if they agree in every element name, the
element structure and every hashed attribute name and value. -/
theorem enc_injective (t1 t2 : Tree) (h1 : GoodT t1) (h2 : GoodT t2) (r1 r2 : Bytes)
    (h : encT t1 ++ r1 = encT t2 ++ r2) : normT t1 = normT t2 ∧ r1 = r2 := by
  have a := decode_encode t1 h1 r1
  have b := decode_encode t2 h2 r2
  rw [h, b] at a
  simp only [Option.some.injEq, Prod.mk.injEq] at a
  exact ⟨a.1.symm, a.2.symm⟩

/-- (3') `normT` forgets nothing that is signed: its attribute lists are the non-blacklisted
attributes of the document, reordered. -/
theorem norm_keeps_signed_attributes (n : Bytes) (as : Attrs) (ks : Forest) :
    ∃ as', normT (.node n as ks) = .node n as' (normF ks) ∧
      as'.Perm (as.filter fun kv => !blacklist.contains kv.1) :=
  ⟨normAttrs as, by simp [normT], normAttrs_perm as⟩

/-- (4) The whole signature input determines the signed content AND the hashed password. -/
theorem sigInput_injective (t1 t2 : Tree) (p1 p2 : Bytes) (h1 : GoodT t1) (h2 : GoodT t2)
    (w1 : Bytes.WF p1) (w2 : Bytes.WF p2) (h : sigInput t1 p1 = sigInput t2 p2) :
    normT t1 = normT t2 ∧ p1 = p2 := by
  obtain ⟨ht, hr⟩ := enc_injective t1 t2 h1 h2 _ _ h
  refine ⟨ht, b64encode_injective p1 p2 w1 w2 ?_⟩
  simp only [encStr, List.cons.injEq] at hr
  exact hr.2

/-- (5) Outside the side condition the format IS ambiguous: with a 1-octet attribute name the octets
`01 <len>` can open a child element or an attribute.  `<a><Abb… B="cc…"/></a>` and
`<a B="bb…"><Acc…/></a>` (65 b's / c's) hash the same octets.  (Reproduced on the real code by the
corpus case `collision.json`; known finding.) -/
def collideX : Tree :=
  .node [97] [] (.cons (.node (65 :: List.replicate 65 98) [([66], List.replicate 65 99)] .nil) .nil)
def collideY : Tree :=
  .node [97] [([66], List.replicate 65 98)] (.cons (.node (65 :: List.replicate 65 99) [] .nil) .nil)

theorem collision_outside_side_condition :
    encT collideX = encT collideY ∧ normT collideX ≠ normT collideY := by
  decide +kernel

/-! ## (b) acceptance -/

/-- (6) `verify_keyring_signature` accepts exactly when the truncated hash of the signature input
equals the stored signature. -/
theorem verify_iff (H : Bytes → Bytes) (t : Tree) (hashed sig : Bytes) (hs : SmallT t)
    (hh : (b64encode hashed).length < 256) :
    verify H (eventsT t) hashed sig = .ok true ↔ (H (sigInput t hashed)).take 16 = sig := by
  simp only [verify, handler_computes_encoding t hashed hs hh, Except.ok.injEq, beq_iff_eq]

/-- the no-collision hypothesis, for the two inputs that are compared -/
def NoColl (H : Bytes → Bytes) (a b : Bytes) : Prop := (H a).take 16 = (H b).take 16 → a = b

/-- (7) Tamper rejection.  `sig` is the signature of the genuine keyring `t0` under the hashed
password `p0`.  Presented with a document `t` and a hashed password `p`, verification REJECTS as soon
as the signed content differs (some element name, hashed attribute name/value or the structure) or
the hashed password differs — provided the truncated hash does not collide on these two inputs. -/
theorem tamper_rejected (H : Bytes → Bytes) (t0 t : Tree) (p0 p : Bytes)
    (g0 : GoodT t0) (g : GoodT t) (s : SmallT t) (w0 : Bytes.WF p0) (w : Bytes.WF p)
    (hp : (b64encode p).length < 256)
    (hNoColl : NoColl H (sigInput t p) (sigInput t0 p0))
    (changed : normT t ≠ normT t0 ∨ p ≠ p0) :
    verify H (eventsT t) p ((H (sigInput t0 p0)).take 16) = .ok false := by
  have hv : verify H (eventsT t) p ((H (sigInput t0 p0)).take 16)
      = .ok ((H (sigInput t p)).take 16 == (H (sigInput t0 p0)).take 16) := by
    simp only [verify, handler_computes_encoding t p s hp]
  rw [hv]
  congr 1
  rw [beq_eq_false_iff_ne]
  intro e
  have := sigInput_injective t t0 p p0 g g0 w w0 (hNoColl e)
  rcases changed with c | c
  · exact c this.1
  · exact c this.2

/-- (7') … and the genuine keyring with the right password is accepted (no hypothesis on `H`). -/
theorem genuine_accepted (H : Bytes → Bytes) (t0 : Tree) (p0 : Bytes) (s : SmallT t0)
    (hp : (b64encode p0).length < 256) :
    verify H (eventsT t0) p0 ((H (sigInput t0 p0)).take 16) = .ok true :=
  (verify_iff H t0 p0 _ s hp).mpr rfl

/-- (7'') A rewrite that leaves the signed content alone (attribute order, blacklisted attributes,
anything the SAX events do not carry) hashes the same octets, hence is accepted with the same signature. -/
theorem same_content_same_octets (t1 t2 : Tree) (h : normT t1 = normT t2) : encT t1 = encT t2 := by
  rw [encT_eq_encN t1, encT_eq_encN t2, h]

/-! ## (c) passwords and keys -/

/-- (8) `extract_password` returns the password from the ETS plaintext layout (8 octets of salt, the
password, `n ≥ 1` octets of value `n`) for every password that is valid UTF-8. -/
theorem extract_padded (salt pw : Bytes) (n : Nat) (hs : salt.length = 8) (hn : 1 ≤ n)
    (hu : utf8Valid pw = true) :
    extractPassword (padPassword salt pw n) = .ok pw := by
  simp only [extractPassword, extractRaw_pad salt pw n hs hn, hu, if_true]

/-- (9) CBC: for ANY block cipher with `D ∘ E = id` on blocks, decrypting the CBC encryption of whole
blocks gives the plaintext back. -/
theorem cbc_roundtrip (E D : Bytes → Bytes)
    (hDE : ∀ x, x.length = 16 → D (E x) = x) (hE : ∀ x, x.length = 16 → (E x).length = 16)
    (iv data : Bytes) (hiv : iv.length = 16) (hd : data.length % 16 = 0) :
    cbcDecrypt D iv (cbcEncrypt E iv data) = .ok data :=
  cbcDecrypt_cbcEncrypt E D hDE hE iv data hiv hd

/-- (9') `decrypt_aes128cbc` refuses data that is not a whole number of blocks. -/
theorem cbc_refuses_partial_block (D : Bytes → Bytes) (iv data : Bytes) (h : data.length % 16 ≠ 0) :
    cbcDecrypt D iv data = .error .value := by
  simp [cbcDecrypt, h]

/-- (10) End to end for a tunnel password / authentication code / management password:
`extract_password(decrypt(encrypt(pad(pw)))) = pw`. -/
theorem password_roundtrip (E D : Bytes → Bytes)
    (hDE : ∀ x, x.length = 16 → D (E x) = x) (hE : ∀ x, x.length = 16 → (E x).length = 16)
    (iv salt pw : Bytes) (n : Nat) (hiv : iv.length = 16) (hs : salt.length = 8) (hn : 1 ≤ n)
    (hu : utf8Valid pw = true) (hlen : (8 + pw.length + n) % 16 = 0) :
    (cbcDecrypt D iv (cbcEncrypt E iv (padPassword salt pw n))).bind extractPassword = .ok pw := by
  have hd : (padPassword salt pw n).length % 16 = 0 := by
    simp only [padPassword, List.length_append, List.length_replicate, hs]
    rw [← hlen]; congr 1; omega
  rw [cbc_roundtrip E D hDE hE iv _ hiv hd]
  exact extract_padded salt pw n hs hn hu

/-- (10') … and a 16-octet key (group key, backbone key, tool key) comes back as it is. -/
theorem key_roundtrip (E D : Bytes → Bytes)
    (hDE : ∀ x, x.length = 16 → D (E x) = x) (hE : ∀ x, x.length = 16 → (E x).length = 16)
    (iv key : Bytes) (hiv : iv.length = 16) (hk : key.length = 16) :
    cbcDecrypt D iv (cbcEncrypt E iv key) = .ok key :=
  cbc_roundtrip E D hDE hE iv key hiv (by omega)

/-! ## (d) Data Secure tables -/

/-- every sender listed for a group address an interface is assigned to -/
def senderList (ifs : List Iface) : List Nat :=
  ifs.flatMap fun i => (ifaceGroups i).flatMap (·.2)

/-- (11) `get_data_secure_senders()`: an address maps to the sequence number of the LAST device
element carrying it; otherwise to 0 if it is listed as a sender of an interface group; otherwise it
is absent. -/
theorem senders_spec (ifs : List Iface) (ds : List Dev) (ia : Nat) :
    (senders ifs ds).get? ia =
      match lastVal (ds.map fun d => (d.ia, d.seq)) ia with
      | some s => some s
      | none => if ia ∈ senderList ifs then some 0 else none := by
  have h0 : (ifs.foldl (fun (d : Dict Nat) (i : Iface) =>
      (ifaceGroups i).foldl (fun (d : Dict Nat) (g : Nat × List Nat) =>
        g.2.foldl (fun (d : Dict Nat) (s : Nat) => d.set s 0) d) d) ([] : Dict Nat))
      = (senderList ifs).foldl (fun (d : Dict Nat) (s : Nat) => d.set s 0) [] := by
    simp only [senderList, List.foldl_flatMap]
  have h1 : ∀ t0 : Dict Nat, ds.foldl (fun d dev => d.set dev.ia dev.seq) t0
      = (ds.map fun d => (d.ia, d.seq)).foldl (fun d p => d.set p.1 p.2) t0 := by
    intro t0; rw [List.foldl_map]
  simp only [senders, h0, h1, foldl_set_get?, foldl_set0_get?]
  simp [Dict.get?]
  cases lastVal (List.map (fun d => (d.ia, d.seq)) ds) ia <;> rfl

/-- the keys that are present, as assignments in document order -/
def keyAssignments (gs : List Grp) : List (Nat × Bytes) :=
  gs.filterMap fun g => g.key.map fun k => (g.addr, k)

theorem gaKeyTable_eq (gs : List Grp) :
    ∀ d : Dict Bytes, gs.foldl gaKeyStep d = (keyAssignments gs).foldl (fun d p => d.set p.1 p.2) d := by
  induction gs with
  | nil => intro d; rfl
  | cons g r ih =>
    intro d
    cases hk : g.key with
    | none => simp [keyAssignments, gaKeyStep, hk, ih]
    | some k => simp [keyAssignments, gaKeyStep, hk]; exact ih _

/-- (12) `get_data_secure_group_keys()` (no receiver): a group address maps to the key of the LAST
`<Group>` element for it that has a key. -/
theorem groupKeys_all_spec (ifs : List Iface) (gs : List Grp) (ga : Nat) :
    (groupKeys ifs gs none).get? ga = lastVal (keyAssignments gs) ga := by
  simp only [groupKeys, gaKeyTable, gaKeyTable_eq, foldl_set_get?]
  cases lastVal (keyAssignments gs) ga <;> simp [Dict.get?]

/-- (13) … filtered by receiver: nothing for an unknown interface; otherwise exactly the keys of the
group addresses assigned to the FIRST interface with that individual address. -/
theorem groupKeys_receiver_spec (ifs : List Iface) (gs : List Grp) (r ga : Nat) :
    (groupKeys ifs gs (some r)).get? ga =
      match ifs.find? (·.ia == r) with
      | none => none
      | some i => if ga ∈ i.groups.map (·.1) then lastVal (keyAssignments gs) ga else none := by
  simp only [groupKeys]
  cases ifs.find? (·.ia == r) with
  | none => simp [Dict.get?]
  | some i =>
    simp only
    rw [Dict.get?_filter_key (fun k => ((ifaceGroups i).get? k).isSome)]
    have hk := groupKeys_all_spec ifs gs ga
    simp only [groupKeys] at hk
    rw [hk]
    have hm : ((ifaceGroups i).get? ga).isSome = true ↔ ga ∈ i.groups.map (·.1) := by
      simp only [ifaceGroups, foldl_set_get?]
      rw [← lastVal_isSome]
      cases lastVal i.groups ga <;> simp [Dict.get?]
    by_cases h : ga ∈ i.groups.map (·.1)
    · simp only [hm.mpr h, h, if_true]
    · have : ((ifaceGroups i).get? ga).isSome = false := by
        cases hh : ((ifaceGroups i).get? ga).isSome
        · rfl
        · exact absurd (hm.mp hh) h
      simp only [this, h, if_false, Bool.false_eq_true]

/-- (14) The generated table is what the model reads: the blacklist is `xmlns`, `Signature`, and no
blacklisted name is 1 or 2 octets long (so the side condition of (2)–(4) is about signed attributes only). -/
theorem blacklist_table :
    Generated.Keyring.blacklistNames.map (fun s => s.toUTF8.toList.map UInt8.toNat) = blacklist ∧
    ∀ b ∈ blacklist, b.length ≠ 1 ∧ b.length ≠ 2 := by
  decide +kernel

/-! ## Non-vacuity -/

/-- a small keyring-shaped tree -/
def sample : Tree :=
  .node [75] [([75, 101, 121], [1, 2, 3]), ([65, 100, 100, 114], [49])]
    (.cons (.node [71] [([120, 109, 108, 110, 115], [117])] .nil) .nil)

example : GoodT sample ∧ SmallT sample := by
  simp only [sample, GoodT, GoodF, SmallT, SmallF, GoodAttrs]; decide +kernel
example : decodeTree (encT sample ++ [7]) = some (normT sample, [7]) := by decide +kernel
example : handlerOutput (eventsT sample) [0, 1, 2] = .ok (sigInput sample [0, 1, 2]) := by decide +kernel
/-- `NoColl` is satisfiable for two different inputs (here with `H` = reversal, i.e. the last 16 octets),
and then the wrong password is rejected while the right one is accepted -/
example : NoColl List.reverse (sigInput sample [2]) (sigInput sample [1]) ∧
    sigInput sample [2] ≠ sigInput sample [1] ∧
    verify List.reverse (eventsT sample) [2] ((sigInput sample [1]).reverse.take 16) = .ok false ∧
    verify List.reverse (eventsT sample) [1] ((sigInput sample [1]).reverse.take 16) = .ok true := by
  unfold NoColl; decide +kernel
example : extractPassword (padPassword [1,2,3,4,5,6,7,8] [117, 115, 101, 114, 49] 19) = .ok [117, 115, 101, 114, 49] := by
  decide +kernel
/-- with the involution `x ↦ reverse x` as a stand-in block cipher -/
example : (cbcDecrypt List.reverse (List.replicate 16 7)
    (cbcEncrypt List.reverse (List.replicate 16 7) (padPassword [1,2,3,4,5,6,7,8] [112, 119] 22))).bind extractPassword
    = .ok [112, 119] := by decide +kernel
example : (senders [⟨1, [(5, [7, 8]), (5, [9])]⟩] [⟨9, 108⟩, ⟨3, 4⟩]).get? 9 = some 108 ∧
    (senders [⟨1, [(5, [7, 8]), (5, [9])]⟩] []).get? 7 = none ∧
    (senders [⟨1, [(5, [7, 8]), (6, [9])]⟩] []).get? 7 = some 0 := by decide +kernel

end XknxVerif.Props.C31
