/-
C45 (codec part): for every datapoint type and every JSON-native value of its decode image,
`decode_dpt_payload(encode_dpt_payload(j))` returns `j` (or its nearest representable form: text
types return '?' for undecodable bytes).  Corollaries of C08 / C10 through `_jsonify`.
Property theorems only.
-/
import XknxVerif.Model.MCPCodec
import XknxVerif.Props.C08
import XknxVerif.Props.C10

namespace XknxVerif.Props.C45
open XknxVerif XknxVerif.DPT XknxVerif.MCPCodec

/-- JSON-form types (enum / complex): whenever C10's round trip holds for a payload, the tools invert each
other on the JSON value it decodes to. -/
theorem mcp_inverse_of_JRT (ctx : Ctx) (r : Row) (p : Payload) (h : JRT ctx r p) :
    ∀ j, mcpDecode ctx r p = .ok (some j) →
      ∃ p', mcpEncode ctx r j = .ok p' ∧ mcpDecode ctx r p' = .ok (some j) := by
  intro j hj
  unfold mcpDecode at hj
  cases hd : decode ctx r p with
  | error e => rw [hd] at hj; cases hj
  | ok v =>
    rw [hd] at hj
    obtain ⟨f, p', hf, he, hd'⟩ := h v hd
    have hjv : jsonify r v = some (.form f) := by simp [jsonify, hf]
    simp only [Except.map] at hj
    injection hj with hj
    rw [hjv] at hj
    injection hj with hj
    subst hj
    refine ⟨p', he, ?_⟩
    simp [mcpDecode, hd', Except.map, hjv]

/-- Plain-valued types (numbers, text, scene numbers …): whenever C08's round trip holds for a payload, the
tools return the value's nearest representable form (`expected`: identical except '?' for undecodable text). -/
theorem mcp_inverse_of_RT (ctx : Ctx) (r : Row) (p : Payload) (h : RT ctx r p) :
    ∀ a, mcpDecode ctx r p = .ok (some (.plain a)) →
      ∃ p', mcpEncode ctx r (.plain a) = .ok p' ∧
        mcpDecode ctx r p' = .ok (jsonify r (expected r (.atom a))) := by
  intro a hj
  unfold mcpDecode at hj
  cases hd : decode ctx r p with
  | error e => rw [hd] at hj; cases hj
  | ok v =>
    rw [hd] at hj
    simp only [Except.map] at hj
    injection hj with hj
    -- jsonify r v = some (.plain a) forces v = .atom a
    have hv : v = .atom a := by
      unfold jsonify at hj
      cases hf : asForm r v with
      | some f => rw [hf] at hj; simp at hj
      | none =>
        rw [hf] at hj
        cases v with
        | atom b =>
          simp only at hj
          split at hj
          · injection hj with hj; injection hj with hj; rw [hj]
          · cases hj
        | obj fs => simp at hj
    subst hv
    obtain ⟨p', he, hd'⟩ := h _ hd
    exact ⟨p', he, by simp [mcpDecode, hd', Except.map]⟩

/-- Instances: every enum / complex class whose decoder sees one item — all payloads (C10). -/
theorem mcp_inverse_json_one_item (r : Row) (hr : r ∈ Generated.table) (hl : rawLen r = 1)
    (hj : isJsonFamily r.family = true) (p : Payload) (hp : p.WF) :
    ∀ j, mcpDecode tableCtx r p = .ok (some j) →
      ∃ p', mcpEncode tableCtx r j = .ok p' ∧ mcpDecode tableCtx r p' = .ok (some j) :=
  mcp_inverse_of_JRT tableCtx r p (C10.json_roundtrip_one_item r hr hl hj p hp)

/-- DPT 12 / 13 / 29 (struct-int), DPT 7, DPT 8 — all payloads (C08). -/
theorem mcp_inverse_structint (r : Row) (hr : r ∈ Generated.table) (hf : r.family = .structint)
    (p : Payload) (hp : p.WF) (a : Atom) (h : mcpDecode tableCtx r p = .ok (some (.plain a))) :
    ∃ p', mcpEncode tableCtx r (.plain a) = .ok p' ∧
      mcpDecode tableCtx r p' = .ok (jsonify r (expected r (.atom a))) :=
  mcp_inverse_of_RT tableCtx r p (C08.roundtrip_structint r hr hf p hp) a h

theorem mcp_inverse_u16 (r : Row) (hr : r ∈ Generated.table) (hf : r.family = .u16)
    (p : Payload) (hp : p.WF) (a : Atom) (h : mcpDecode tableCtx r p = .ok (some (.plain a))) :
    ∃ p', mcpEncode tableCtx r (.plain a) = .ok p' ∧
      mcpDecode tableCtx r p' = .ok (jsonify r (expected r (.atom a))) :=
  mcp_inverse_of_RT tableCtx r p (C08.roundtrip_u16 r hr hf p hp) a h

theorem mcp_inverse_s16 (r : Row) (hr : r ∈ Generated.table) (hf : r.family = .s16)
    (p : Payload) (hp : p.WF) (a : Atom) (h : mcpDecode tableCtx r p = .ok (some (.plain a))) :
    ∃ p', mcpEncode tableCtx r (.plain a) = .ok p' ∧
      mcpDecode tableCtx r p' = .ok (jsonify r (expected r (.atom a))) :=
  mcp_inverse_of_RT tableCtx r p (C08.roundtrip_s16 r hr hf p hp) a h

/-- every class whose decoder sees one item (DPT 5, 6, 17, … as plain values) — all payloads (C08). -/
theorem mcp_inverse_one_item (r : Row) (hr : r ∈ Generated.table) (hl : rawLen r = 1)
    (p : Payload) (hp : p.WF) (a : Atom) (h : mcpDecode tableCtx r p = .ok (some (.plain a))) :
    ∃ p', mcpEncode tableCtx r (.plain a) = .ok p' ∧
      mcpDecode tableCtx r p' = .ok (jsonify r (expected r (.atom a))) :=
  mcp_inverse_of_RT tableCtx r p (C08.roundtrip_one_item r hr hl p hp) a h

/-- DPT 9 — PARTIAL exactly as C08's `roundtrip_f16_partial` (same numeric-core hypothesis). -/
theorem mcp_inverse_f16_partial (r : Row) (hr : r ∈ Generated.table) (hf : r.family = .f16)
    (hcore : ∀ data : Nat, data < 65536 → f16Core data = true)
    (p : Payload) (hp : p.WF) (a : Atom) (h : mcpDecode tableCtx r p = .ok (some (.plain a))) :
    ∃ p', mcpEncode tableCtx r (.plain a) = .ok p' ∧
      mcpDecode tableCtx r p' = .ok (jsonify r (expected r (.atom a))) :=
  mcp_inverse_of_RT tableCtx r p (C08.roundtrip_f16_partial r hr hf hcore p hp) a h

/-- the tool's payload construction: a list for an array-kind type is passed through unchanged -/
theorem toolPayload_array_of_array_row (r : Row) (bs : List Nat) (h : r.kind = .array) :
    toolPayload r (.array bs) = .ok (.array bs) := by
  simp [toolPayload, h]

/-- `expected` only ever differs for text types -/
theorem expected_id_of_not_string (r : Row) (v : Val) (h : r.family ≠ .string) : expected r v = v := by
  unfold expected
  split
  · rename_i s hf; exact absurd hf h
  · rfl

end XknxVerif.Props.C45
