/-
C06  Encoding an application PDU never silently changes a field.

Generic: whatever `encodeFields` accepts decodes back to the same values
(induction over the field list); lifted through the dispatcher: whatever
`encodeAPDU` (= `to_knx`) emits, `decodeAPDU` (= `APCI.from_knx`) reads back as
the same object.  The model describes xknx AFTER the `fix:` commits of branch
b-apci (range checks for ADC channel, property start index, manufacturer info
data, empty table-write data, bit-write count, A_ADC_Response channels that are
the APCI of another service, empty DPTArray, Data Secure field lengths).
-/
import XknxVerif.Lemmas.APCIGuard

namespace XknxVerif.Props.C06
open XknxVerif.APCI

/-- Main theorem: for EVERY service object `s` (any row, any variant, any list
of values - in range or not, any sign, any length): `to_knx` either refuses or
produces an APDU that decodes back to exactly `s`. -/
theorem encode_refuses_or_roundtrips (s : Service) :
    encodeAPDU s = none ∨ ∃ raw, encodeAPDU s = some raw ∧ decodeAPDU raw = .ok s := by
  cases h : encodeAPDU s with
  | none => exact .inl rfl
  | some raw => exact .inr ⟨raw, rfl, decodeAPDU_encodeAPDU table_wf s raw h⟩

/-- The same on the level of one layout (any well-formed field list). -/
theorem fields_roundtrip (l : List Field) (hwf : FieldsWF l = true) (vs : List Val) (bits : Bits)
    (h : encodeFields l vs = some bits) : decodeFields l bits = some vs :=
  decodeFields_encodeFields l hwf vs bits h

/-- No truncation / wrapping: an integer outside the declared range of its wire field is refused
(negative numbers and numbers ≥ 2^w included, since `hi < 2^w` for well-formed layouts). -/
theorem uint_out_of_range_refused (w lo hi : Nat) (i : Int) (vs : List Val)
    (h : i < lo ∨ (hi : Int) < i) : encode1 (.uint w lo hi) (.int i :: vs) = none := by
  simp only [encode1]
  rw [if_neg (by omega)]

/-- … and an integer inside the range is accepted, with its exact binary representation. -/
theorem uint_in_range_exact (w lo hi : Nat) (i : Int) (vs : List Val)
    (h : (lo : Int) ≤ i ∧ i ≤ (hi : Int)) :
    encode1 (.uint w lo hi) (.int i :: vs) = some (Bits.ofNat w i.toNat, vs) := by
  simp only [encode1]
  rw [if_pos h]

/-- No padding: a fixed-size octet field refuses every other length. -/
theorem bytes_wrong_length_refused (k : Nat) (bs : Bytes) (vs : List Val) (h : bs.length ≠ k) :
    encode1 (.bytes k) (.bytes bs :: vs) = none := by
  simp only [encode1]
  rw [if_neg (fun hc => h hc.1)]

/-- An enum field refuses every value that is not a member. -/
theorem enum_nonmember_refused (w : Nat) (tbl : List Nat) (i : Int) (vs : List Val)
    (h : i < 0 ∨ i.toNat ∉ tbl) : encode1 (.enum w tbl) (.int i :: vs) = none := by
  simp only [encode1]
  rw [if_neg]
  rintro ⟨h0, hm⟩
  rcases h with h | h
  · omega
  · exact h (by simpa using hm)

/-- The closing guard of `encodeAPDU` ("the emitted APCI dispatches back to this row") is
the model of the collision check added to `ADCResponse.to_knx`.  For every other row it
can never fail - whatever values are encoded - so the model has no refusal the code lacks. -/
theorem dispatch_guard_dead (i : Nat) (row : Row) (v : Variant) (vals : List Val) (bits : Bits)
    (hrow : table[i]? = some row) (hv : v ∈ row.variants) (hn : (row.name == "ADCResponse") = false)
    (he : encodeFields (fullFields row v) vals = some bits) : findRow (codeOfBits bits) = some i :=
  guard_vacuous i row v vals bits hrow hv hn he

/-- For `ADCResponse` (row 78) the guard fails exactly for the 18 channels whose APCI is that of
a 10 bit service: 8-10, 12-22, 59-62 - the set the fixed `to_knx` refuses. -/
theorem adc_shadowed_channels :
    ((List.range 64).filter (fun ch => findRow (0x1C0 + ch) != some 78)
      = [8, 9, 10, 12, 13, 14, 15, 16, 17, 18, 19, 20, 21, 22, 59, 60, 61, 62]) ∧
    (table[78]?.map (·.name)) = some "ADCResponse" ∧
    ((List.range 64).filter (fun ch => Generated.APCI.apciService.any (fun p => p.2 == 0x1C0 + ch && ch != 0))
      = [8, 9, 10, 12, 13, 14, 15, 16, 17, 18, 19, 20, 21, 22, 59, 60, 61, 62]) := by
  decide +kernel

/-! The defects of the pinned tree are refusals in the (fixed) model. -/
-- ADCResponse(channel = 8) would be the APCI of A_SystemNetworkParameter_Read; channel 64 does not fit 6 bits
example : encodeAPDU ⟨78, 0, [.int 8, .int 1, .int 0]⟩ = none := by decide +kernel
example : encodeAPDU ⟨78, 0, [.int 64, .int 1, .int 0]⟩ = none := by decide +kernel
example : encodeAPDU ⟨78, 0, [.int 11, .int 1, .int 0]⟩ = some [0x01, 0xCB, 1, 0, 0] := by decide +kernel
-- ADCRead(channel = 64)
example : encodeAPDU ⟨77, 0, [.int 64, .int 1]⟩ = none := by decide +kernel
-- PropertyValueRead(start_index = 4096) used to wrap into `count`
example : encodeAPDU ⟨44, 0, [.int 0, .int 0, .int 1, .int 4096]⟩ = none := by decide +kernel
example : encodeAPDU ⟨44, 0, [.int 0, .int 0, .int 1, .int (-1)]⟩ = none := by decide +kernel
-- UserManufacturerInfoResponse(data of 3 octets) used to be truncated
example : encodeAPDU ⟨23, 0, [.int 1, .bytes [1, 2, 3]]⟩ = none := by decide +kernel
-- FilterTableWrite(number = 5, data = b"") used to encode to a frame the decoder rejects
example : encodeAPDU ⟨32, 0, [.int 5, .int 0, .bytes []]⟩ = none := by decide +kernel
-- MemoryBitWrite(and_data = xor_data = b"")
example : encodeAPDU ⟨39, 0, [.int 0, .bytes [], .bytes []]⟩ = none := by decide +kernel
-- GroupValueWrite(DPTArray(())) used to decode as DPTBinary(0)
example : encodeAPDU ⟨73, 1, [.bytes []]⟩ = none := by decide +kernel
/-! Non-vacuity of the main theorem. -/
example : encodeAPDU ⟨44, 0, [.int 1, .int 2, .int 1, .int 10]⟩ = some [0x03, 0xD5, 1, 2, 0x10, 0x0A] := by
  decide +kernel

end XknxVerif.Props.C06
