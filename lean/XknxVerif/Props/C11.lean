/-
C11  Any value accepted for sending becomes a wire-valid telegram.
Property theorems only.  Model: `Model/Send.lean` (the code after the `fix:` commits).

DPT transcoders are a parameter (`TransRes` = what `DPT.to_knx(value)` returned or raised); what is
assumed about them is stated as `TransOK` / `TransDeclared` and checked on the real code by the harness
for every DPT class (and by C07–C10 for the codecs themselves).
-/
import XknxVerif.Model.Send
import XknxVerif.Automata

namespace XknxVerif.Props.C11
open XknxVerif XknxVerif.Send

/-- A transcoder result that is itself sound: a returned DPTArray holds octets and fits one frame.
(`DPTBinary` results are range-checked by the DPTBinary constructor, so nothing is assumed for them.) -/
def TransOK : TransRes → Prop
  | .arr items => items.all itemOctet = true ∧ items.length + 1 ≤ Generated.Send.maxNpduLength
  | _ => True

/-- Configuration side conditions: a raw remote value is configured with a length that fits a frame; a
remote value that delegates to a DPT class uses a sound transcoder.  The group-value helpers / MCP write
tool need NO side condition: `_parse_payload` checks items and length itself. -/
def SetterOK : Setter → Prop
  | .raw len => len + 1 ≤ Generated.Send.maxNpduLength
  | .viaDpt tr => TransOK tr
  | _ => True

/-! ### what each building block can return -/

theorem binRange_ok (n : Int) (p : Payload) (h : binRange n = .ok p) : wireValid p = true := by
  unfold binRange at h
  by_cases hr : 0 ≤ n ∧ n ≤ (Generated.Send.apciBitmask : Int)
  · simp only [hr, and_self, if_true, Except.ok.injEq] at h
    subst h
    simp [wireValid, hr.1, hr.2]
  · simp [hr] at h

theorem binRange_err (n : Int) (e : Err) (h : binRange n = .error e) : e = .conversion := by
  unfold binRange at h
  by_cases hr : 0 ≤ n ∧ n ≤ (Generated.Send.apciBitmask : Int)
  · simp [hr] at h
  · simp only [hr, if_false, Except.error.injEq] at h
    exact h.symm

theorem mkBinary_ok (v : PyVal) (p : Payload) (h : mkBinary v = .ok p) : wireValid p = true := by
  cases v with
  | int n => exact binRange_ok n p (by simpa [mkBinary] using h)
  | bool b =>
    simp only [mkBinary, Except.ok.injEq] at h
    subst h
    cases b <;> decide
  | tuple xs =>
    cases xs with
    | nil => simp [mkBinary] at h
    | cons x r =>
      cases x with
      | int n => exact binRange_ok n p (by simpa [mkBinary] using h)
      | other => simp [mkBinary] at h
  | _ => simp [mkBinary] at h

theorem mkBinary_err (v : PyVal) (e : Err) (h : mkBinary v = .error e) :
    e = .conversion ∨ e = .typeError ∨ e = .indexError := by
  cases v with
  | int n => exact Or.inl (binRange_err n e (by simpa [mkBinary] using h))
  | bool b => simp [mkBinary] at h
  | tuple xs =>
    cases xs with
    | nil => simp only [mkBinary, Except.error.injEq] at h; subst h; simp
    | cons x r =>
      cases x with
      | int n => exact Or.inl (binRange_err n e (by simpa [mkBinary] using h))
      | other => simp only [mkBinary, Except.error.injEq] at h; subst h; simp
  | _ => simp only [mkBinary, Except.error.injEq] at h; subst h; simp

theorem mkArray_ok (v : PyVal) (p : Payload) (h : mkArray v = .ok p) : ∃ xs, p = .arr xs := by
  cases v <;> simp only [mkArray, Except.ok.injEq] at h <;> first | exact ⟨_, h.symm⟩ | cases h

theorem mkArray_err (v : PyVal) (e : Err) (h : mkArray v = .error e) : e = .typeError := by
  cases v <;> simp only [mkArray, Except.error.injEq] at h <;> first | exact h.symm | cases h

theorem catchType_ok (r : Except Err Payload) (p : Payload) (h : catchType r = .ok p) : r = .ok p := by
  cases r with
  | ok q => simpa [catchType] using h
  | error e => cases e <;> simp [catchType] at h

theorem catchType_err (r : Except Err Payload) (e : Err) (h : catchType r = .error e) :
    e = .conversion ∨ (r = .error e ∧ e ≠ .typeError) := by
  cases r with
  | ok q => simp [catchType] at h
  | error e' =>
    cases e' <;> simp only [catchType, Except.error.injEq] at h <;> subst h <;> simp

theorem catchTypeIndex_ok (r : Except Err Payload) (p : Payload) (h : catchTypeIndex r = .ok p) : r = .ok p := by
  cases r with
  | ok q => simpa [catchTypeIndex] using h
  | error e => cases e <;> simp [catchTypeIndex] at h

theorem catchTypeIndex_err (r : Except Err Payload) (e : Err) (h : catchTypeIndex r = .error e) :
    e = .conversion ∨ (r = .error e ∧ e ≠ .typeError ∧ e ≠ .indexError) := by
  cases r with
  | ok q => simp [catchTypeIndex] at h
  | error e' =>
    cases e' <;> simp only [catchTypeIndex, Except.error.injEq] at h <;> subst h <;> simp

theorem transcoded_bin_ok (tr : TransRes) (n : Int) (h : transcoded tr = .ok (.bin n)) :
    wireValid (.bin n) = true := by
  cases tr with
  | arr items => simp [transcoded] at h
  | bin v =>
    cases v with
    | int m => exact binRange_ok m _ (by simpa [transcoded] using h)
    | other => simp [transcoded] at h
  | conv => simp [transcoded] at h
  | other => simp [transcoded] at h

theorem finalGuards_ok (p0 p : Payload) (hb : ∀ n, p0 = .bin n → wireValid p0 = true)
    (h : finalGuards p0 = .ok p) : wireValid p = true := by
  cases p0 with
  | bin n =>
    simp only [finalGuards, Except.ok.injEq] at h
    subst h
    exact hb n rfl
  | arr xs =>
    simp only [finalGuards] at h
    by_cases h1 : xs.all itemOctet = true
    · by_cases h2 : xs.length ≥ Generated.Send.maxNpduLength
      · simp [h1, h2] at h
      · simp only [h1, Bool.not_true, Bool.false_eq_true, if_false, h2, Except.ok.injEq] at h
        subst h
        simp only [wireValid, h1, Bool.true_and, decide_eq_true_eq]
        omega
    · simp [h1] at h

theorem finalGuards_err (p : Payload) (e : Err) (h : finalGuards p = .error e) : e = .conversion := by
  cases p with
  | bin n => simp [finalGuards] at h
  | arr xs =>
    simp only [finalGuards] at h
    by_cases h1 : xs.all itemOctet = true
    · by_cases h2 : xs.length ≥ Generated.Send.maxNpduLength
      · simp only [h1, Bool.not_true, Bool.false_eq_true, if_false, h2, if_true, Except.error.injEq] at h
        exact h.symm
      · simp [h1, h2] at h
    · simp only [h1, Bool.not_false, if_true, Except.error.injEq] at h
      exact h.symm

/-- a DPTBinary leaving `parseCore` is either the caller's own object or was range-checked -/
theorem parseCore_bin (tr : Option TransRes) (v : PyVal) (n : Int) (h : parseCore tr v = .ok (.bin n)) :
    v = .bin n ∨ wireValid (.bin n) = true := by
  cases tr with
  | some t =>
    cases v <;> simp only [parseCore] at h <;>
      first
        | exact Or.inr (transcoded_bin_ok t n h)
        | (simp only [Except.ok.injEq, Payload.bin.injEq] at h; subst h; exact Or.inl rfl)
        | cases h
  | none =>
    cases v <;> simp only [parseCore] at h <;>
      first
        | exact Or.inr (mkBinary_ok _ _ h)
        | (simp only [Except.ok.injEq, Payload.bin.injEq] at h; subst h; exact Or.inl rfl)
        | (obtain ⟨xs, hx⟩ := mkArray_ok _ _ (catchType_ok _ _ h); cases hx)
        | cases h

/-- `_parse_payload`: whatever the value, the value type and the transcoder do, an accepted payload is wire-valid. -/
theorem parsePayload_ok (tr : Option TransRes) (v : PyVal) (p : Payload)
    (hv : ∀ n, v = .bin n → wireValid (.bin n) = true)
    (h : parsePayload tr v = .ok p) : wireValid p = true := by
  unfold parsePayload at h
  cases hc : parseCore tr v with
  | error e => simp [hc] at h
  | ok p0 =>
    simp only [hc] at h
    refine finalGuards_ok p0 p ?_ h
    intro n hn
    subst hn
    rcases parseCore_bin tr v n hc with rfl | hw
    · exact hv n rfl
    · exact hw

theorem ofNatBE_items_octet (len n : Nat) :
    ((Bytes.ofNatBE len n).map fun b => Item.int (Int.ofNat b)).all itemOctet = true := by
  have hwf := Bytes.ofNatBE_wf len n
  rw [List.all_eq_true]
  intro x hx
  rw [List.mem_map] at hx
  obtain ⟨b, hb, rfl⟩ := hx
  have hlt : b < 256 := hwf b hb
  have e : Int.ofNat b = (b : Int) := rfl
  show octet (Int.ofNat b) = true
  unfold octet
  rw [e]
  simp only [Bool.and_eq_true, decide_eq_true_eq]
  omega

theorem rawToKnx_ok (len : Nat) (hl : len + 1 ≤ Generated.Send.maxNpduLength) (v : PyVal) (p : Payload)
    (h : rawToKnx len v = .ok p) : wireValid p = true := by
  unfold rawToKnx at h
  by_cases h0 : len = 0
  · simp only [h0, if_true] at h
    exact mkBinary_ok _ _ (catchTypeIndex_ok _ _ h)
  · simp only [h0, if_false] at h
    cases ha : rawArg v with
    | none => simp [ha] at h
    | some n =>
      simp only [ha] at h
      unfold toBytesBE at h
      by_cases hr : 0 ≤ n ∧ n.toNat < 256 ^ len
      · simp only [hr, and_self, if_true, Except.ok.injEq] at h
        subst h
        simp only [wireValid, ofNatBE_items_octet, List.length_map, Bytes.ofNatBE_length, Bool.true_and,
          decide_eq_true_eq]
        exact hl
      · simp [hr] at h

theorem rawToKnx_err (len : Nat) (v : PyVal) (e : Err) (h : rawToKnx len v = .error e) : e = .conversion := by
  unfold rawToKnx at h
  by_cases h0 : len = 0
  · simp only [h0, if_true] at h
    rcases catchTypeIndex_err _ e h with h' | ⟨h1, h2, h3⟩
    · exact h'
    · rcases mkBinary_err v e h1 with h' | h' | h'
      · exact h'
      · exact absurd h' h2
      · exact absurd h' h3
  · simp only [h0, if_false] at h
    cases ha : rawArg v with
    | none => simp only [ha, Except.error.injEq] at h; exact h.symm
    | some n =>
      simp only [ha] at h
      cases hb : toBytesBE len n with
      | none => simp only [hb, Except.error.injEq] at h; exact h.symm
      | some bs => simp [hb] at h

theorem scaleQ_ok (rf rt num : Int) (den : Nat) (p : Payload) (h : scaleQ rf rt num den = .ok p) :
    wireValid p = true := by
  unfold scaleQ at h
  by_cases h1 : rt - rf = 0 ∨ den = 0
  · simp [h1] at h
  · simp only [h1, if_false] at h
    by_cases ho : octet (roundHalfEven ((num - rf * den) * 255 * (if rt - rf < 0 then -1 else 1)) (den * (rt - rf).natAbs)) = true
    · simp only [ho, if_true, Except.ok.injEq] at h
      subst h
      simp only [wireValid, List.all_cons, itemOctet, ho, List.all_nil, Bool.and_self, List.length_cons,
        List.length_nil, Bool.true_and, decide_eq_true_eq]
      decide
    · simp [ho] at h

theorem scaleQ_err (rf rt num : Int) (den : Nat) (e : Err) (h : scaleQ rf rt num den = .error e) :
    e = .conversion := by
  unfold scaleQ at h
  by_cases h1 : rt - rf = 0 ∨ den = 0
  · simp only [h1, if_true, Except.error.injEq] at h; exact h.symm
  · simp only [h1, if_false] at h
    by_cases ho : octet (roundHalfEven ((num - rf * den) * 255 * (if rt - rf < 0 then -1 else 1)) (den * (rt - rf).natAbs)) = true
    · simp [ho] at h
    · have ho' : octet (roundHalfEven ((num - rf * den) * 255 * (if rt - rf < 0 then -1 else 1)) (den * (rt - rf).natAbs)) = false := by
        simpa using ho
      simp only [ho', Bool.false_eq_true, if_false, Except.error.injEq] at h; exact h.symm

/-- (1) THE PROPERTY, first half: whenever a setter / helper accepts a value, the payload it queues is
wire-valid — for EVERY value (any type, any magnitude, any list) and every configuration. -/
theorem accept_wireValid (s : Setter) (v : PyVal) (p : Payload) (hs : SetterOK s)
    (hv : ∀ n, v = .bin n → wireValid (.bin n) = true)
    (h : accept s v = .ok p) : wireValid p = true := by
  cases s with
  | raw len => exact rawToKnx_ok len hs v p h
  | scaling rf rt =>
    simp only [accept, scalingToKnx] at h
    cases ha : scalingArg v with
    | none => simp [ha] at h
    | some q => obtain ⟨num, den⟩ := q; simp only [ha] at h; exact scaleQ_ok rf rt num den p h
  | switch i =>
    cases v with
    | bool b =>
      simp only [accept, switchToKnx, Except.ok.injEq] at h
      subst h
      cases b <;> cases i <;> decide
    | _ => simp [accept, switchToKnx] at h
  | step i =>
    cases v with
    | stepDir b =>
      simp only [accept, stepToKnx, Except.ok.injEq] at h
      subst h
      cases b <;> cases i <;> decide
    | _ => simp [accept, stepToKnx] at h
  | upDown i =>
    cases v with
    | upDownDir b =>
      simp only [accept, upDownToKnx, Except.ok.injEq] at h
      subst h
      cases b <;> cases i <;> decide
    | _ => simp [accept, upDownToKnx] at h
  | viaDpt tr =>
    cases p with
    | bin n => exact transcoded_bin_ok tr n h
    | arr xs =>
      cases tr with
      | arr items =>
        simp only [accept, transcoded, Except.ok.injEq, Payload.arr.injEq] at h
        subst h
        simp only [SetterOK, TransOK] at hs
        simp only [wireValid, hs.1, Bool.true_and, decide_eq_true_eq]
        exact hs.2
      | bin x =>
        cases x with
        | int m =>
          simp only [accept, transcoded, binRange] at h
          by_cases hr : 0 ≤ m ∧ m ≤ (Generated.Send.apciBitmask : Int) <;> simp [hr] at h
        | other => simp [accept, transcoded] at h
      | conv => simp [accept, transcoded] at h
      | other => simp [accept, transcoded] at h
  | parse tr => exact parsePayload_ok tr v p hv h

/-- The transcoder refuses only with ConversionError (what the DPT classes document; checked on the real
code for every DPT class by the harness, after `fix: DPT encoders raise ConversionError …`). -/
def TransDeclared : TransRes → Prop
  | .other => False
  | .bin .other => False
  | _ => True

def SetterDeclared : Setter → Prop
  | .viaDpt tr => TransDeclared tr
  | .parse (some tr) => TransDeclared tr
  | _ => True

theorem transcoded_err (tr : TransRes) (hd : TransDeclared tr) (e : Err) (h : transcoded tr = .error e) :
    e = .conversion := by
  cases tr with
  | arr items => simp [transcoded] at h
  | bin v =>
    cases v with
    | int m => exact binRange_err m e (by simpa [transcoded] using h)
    | other => exact absurd hd (by simp [TransDeclared])
  | conv => simp only [transcoded, Except.error.injEq] at h; exact h.symm
  | other => exact absurd hd (by simp [TransDeclared])

theorem parseCore_err (tr : Option TransRes) (hd : ∀ t, tr = some t → TransDeclared t) (v : PyVal) (e : Err)
    (h : parseCore tr v = .error e) : e = .conversion := by
  cases tr with
  | some t =>
    cases v <;> simp only [parseCore] at h <;>
      first
        | exact transcoded_err t (hd t rfl) e h
        | cases h
  | none =>
    cases v <;> simp only [parseCore] at h <;>
      first
        | (cases h; done)
        | (cases h; rfl)
        | (rcases mkBinary_err _ e h with h' | h' | h'
           · exact h'
           · subst h'; simp [mkBinary, binRange] at h; split at h <;> cases h
           · subst h'; simp [mkBinary, binRange] at h; split at h <;> cases h)
        | (rcases catchType_err _ e h with h' | ⟨h1, h2⟩
           · exact h'
           · exact absurd (mkArray_err _ e h1) h2)

/-- (2) THE PROPERTY, second half: a refusal is always a ConversionError … -/
theorem refusal_is_conversion (s : Setter) (v : PyVal) (e : Err) (hd : SetterDeclared s)
    (h : accept s v = .error e) : e = .conversion := by
  cases s with
  | raw len => exact rawToKnx_err len v e h
  | scaling rf rt =>
    simp only [accept, scalingToKnx] at h
    cases ha : scalingArg v with
    | none => simp only [ha, Except.error.injEq] at h; exact h.symm
    | some q => obtain ⟨num, den⟩ := q; simp only [ha] at h; exact scaleQ_err rf rt num den e h
  | switch i => cases v <;> simp only [accept, switchToKnx, Except.error.injEq] at h <;> first | exact h.symm | cases h
  | step i => cases v <;> simp only [accept, stepToKnx, Except.error.injEq] at h <;> first | exact h.symm | cases h
  | upDown i => cases v <;> simp only [accept, upDownToKnx, Except.error.injEq] at h <;> first | exact h.symm | cases h
  | viaDpt tr => exact transcoded_err tr hd e h
  | parse tr =>
    simp only [accept, parsePayload] at h
    cases hc : parseCore tr v with
    | ok p0 => simp only [hc] at h; exact finalGuards_err p0 e h
    | error e' =>
      simp only [hc, Except.error.injEq] at h
      subst h
      refine parseCore_err tr ?_ v e' hc
      intro t ht
      subst ht
      exact hd

/-- (3) … and nothing is queued then; an accepted value queues exactly its payload. -/
theorem send_queue (q : List Payload) (s : Setter) (v : PyVal) :
    (∀ e, accept s v = .error e → (send q (s, v)).1 = q) ∧
    (∀ p, accept s v = .ok p → (send q (s, v)).1 = q ++ [p]) := by
  constructor
  · intro e h; simp [send, h]
  · intro p h; simp [send, h]

/-- every queued payload is wire-valid -/
def QueueValid (q : List Payload) : Prop := ∀ p ∈ q, wireValid p = true

/-- a call within the side conditions -/
def CallOK (c : Setter × PyVal) : Prop := SetterOK c.1 ∧ ∀ n, c.2 = .bin n → wireValid (.bin n) = true

theorem send_preserves (q : List Payload) (c : Setter × PyVal) (hc : CallOK c) (hq : QueueValid q) :
    QueueValid (send q c).1 := by
  unfold send
  split
  · rename_i p hp
    intro x hx
    simp only [List.mem_append, List.mem_singleton] at hx
    rcases hx with hx | rfl
    · exact hq x hx
    · exact accept_wireValid c.1 c.2 x hc.1 hc.2 hp
  · exact hq

/-- (4) Over ANY history of calls (any setters, any values, accepted or refused, in any order) the
telegram queue only ever holds wire-valid payloads. -/
theorem queue_always_valid (calls : List (Setter × PyVal)) (hc : ∀ c ∈ calls, CallOK c) :
    QueueValid (Automata.run (fun q (c : Setter × PyVal) => send q c) [] calls).1 := by
  -- strengthen: run from any valid queue, calls all within the side conditions
  suffices H : ∀ (cs : List (Setter × PyVal)) (q : List Payload), (∀ c ∈ cs, CallOK c) → QueueValid q →
      QueueValid (Automata.run (fun q (c : Setter × PyVal) => send q c) q cs).1 from
    H calls [] hc (by intro p hp; simp at hp)
  intro cs
  induction cs with
  | nil => intro q _ hq; simpa [Automata.run_nil] using hq
  | cons c cs ih =>
    intro q hcs hq
    rw [Automata.run_cons]
    exact ih _ (fun c' h' => hcs c' (by simp [h'])) (send_preserves q c (hcs c (by simp)) hq)

/-! ### wire validity is exactly serialisability -/

/-- (5) `bytes(payload.value)` succeeds exactly on octet items; a wire-valid payload has an APDU of octets
that fits the NPDU length field. -/
theorem wireValid_serialises (code : Nat) (p : Payload) (h : wireValid p = true) :
    ∃ bs, apdu code p = some bs ∧ bs.length ≤ Generated.Send.maxNpduLength + 1 := by
  cases p with
  | bin n =>
    refine ⟨[(code / 256) % 4, (code % 256) ||| (n.toNat &&& Generated.Send.apciBitmask)], rfl, ?_⟩
    show 2 ≤ Generated.Send.maxNpduLength + 1
    decide
  | arr xs =>
    simp only [wireValid, Bool.and_eq_true, decide_eq_true_eq] at h
    refine ⟨[(code / 256) % 4, code % 256] ++ xs.map itemNat, by simp [apdu, h.1], ?_⟩
    simp only [List.length_append, List.length_cons, List.length_nil, List.length_map]
    omega

theorem apdu_none_iff (code : Nat) (xs : List Item) : apdu code (.arr xs) = none ↔ xs.all itemOctet = false := by
  simp only [apdu]
  cases h : xs.all itemOctet <;> simp

theorem items_roundtrip (xs : List Item) (h : xs.all itemOctet = true) :
    (xs.map itemNat).map (fun b => Item.int (Int.ofNat b)) = xs := by
  induction xs with
  | nil => rfl
  | cons x r ih =>
    simp only [List.all_cons, Bool.and_eq_true] at h
    simp only [List.map_cons, ih h.2, List.cons.injEq, and_true]
    cases x with
    | other => simp [itemOctet] at h
    | int n =>
      simp only [itemOctet, octet, Bool.and_eq_true, decide_eq_true_eq] at h
      show Item.int (Int.ofNat n.toNat) = Item.int n
      congr 1
      exact Int.toNat_of_nonneg h.1.1

theorem bin_bits : ∀ n : Fin 64,
    ((Generated.Send.groupWrite % 256) ||| (n.val &&& Generated.Send.apciBitmask)) &&& Generated.Send.apciBitmask = n.val ∧
    ((Generated.Send.groupResponse % 256) ||| (n.val &&& Generated.Send.apciBitmask)) &&& Generated.Send.apciBitmask = n.val := by
  decide +kernel

/-- (6) What is put on the wire is what was accepted: the APDU of a wire-valid payload decodes
(`GroupValueWrite.from_knx`) to the same payload — except the empty DPTArray, whose 2-octet APDU reads
back as DPTBinary(0). -/
theorem apdu_roundtrip (p : Payload) (h : wireValid p = true) (hne : p ≠ .arr []) :
    (apdu Generated.Send.groupWrite p).bind apduDecode = some p ∧
    (apdu Generated.Send.groupResponse p).bind apduDecode = some p := by
  cases p with
  | bin n =>
    simp only [wireValid, Bool.and_eq_true, decide_eq_true_eq] at h
    have h63 : (Generated.Send.apciBitmask : Int) = 63 := by decide
    have hlt : n.toNat < 64 := by omega
    have hb := bin_bits ⟨n.toNat, hlt⟩
    have hn : Int.ofNat n.toNat = n := Int.toNat_of_nonneg h.1
    simp only [apdu, Option.bind_some, apduDecode, Option.some.injEq, Payload.bin.injEq]
    simp only at hb
    constructor
    · rw [hb.1]; exact hn
    · rw [hb.2]; exact hn
  | arr xs =>
    simp only [wireValid, Bool.and_eq_true, decide_eq_true_eq] at h
    cases xs with
    | nil => exact absurd rfl hne
    | cons x r =>
      have hr := items_roundtrip (x :: r) h.1
      simp only [apdu, h.1, if_true, Option.bind_some]
      simp only [List.map_cons, List.cons_append, List.nil_append, apduDecode, Option.some.injEq,
        Payload.arr.injEq] at hr ⊢
      exact ⟨hr, hr⟩

/-- (7) Every DPT class the code declares has a payload length that fits one frame, so a transcoder that
returns its declared number of octets satisfies the length part of `TransOK` (regenerated each run). -/
theorem dpt_payload_lengths_fit :
    Generated.Send.dptPayloads.all (fun r => decide (r.2.2 + 1 ≤ Generated.Send.maxNpduLength)) = true := by
  decide +kernel

/-! ### Non-vacuity and the pre-fix behaviour excluded -/

example : accept (.scaling 0 100) (.int 50) = .ok (.arr [.int 128]) := by decide +kernel
example : accept (.scaling 0 100) (.int 150) = .error .conversion := by decide +kernel
example : accept (.scaling 0 100) (.int (-10)) = .error .conversion := by decide +kernel
/-- 100.4 = 7064828626790810 / 2^46 as a double -/
example : accept (.scaling 0 100) (.float (.fin 7064828626790810 70368744177664)) = .error .conversion := by
  decide +kernel
example : accept (.scaling 0 100) (.float .nan) = .error .conversion := by decide +kernel
example : accept (.parse none) (.list [.int 1, .int 2, .int 300]) = .error .conversion := by decide +kernel
example : accept (.parse none) (.list [.int 1, .int 2, .int 255]) = .ok (.arr [.int 1, .int 2, .int 255]) := by
  decide +kernel
example : accept (.parse none) (.float (.fin 3 2)) = .error .conversion := by decide +kernel
example : accept (.parse none) .str = .error .conversion := by decide +kernel
example : accept (.parse none) (.arr [.int 300]) = .error .conversion := by decide +kernel
example : accept (.parse none) (.list (List.replicate 254 (.int 0))) = .error .conversion := by decide +kernel
example : (accept (.parse none) (.list (List.replicate 253 (.int 0)))).toOption.isSome = true := by decide +kernel
example : accept (.raw 0) (.tuple []) = .error .conversion := by decide +kernel
example : accept (.raw 2) (.int 258) = .ok (.arr [.int 1, .int 2]) := by decide +kernel
example : SetterOK (.raw 14) ∧ SetterOK (.viaDpt (.arr [.int 12, .int 26])) ∧
    CallOK (.parse none, .list [.int 7]) := by
  refine ⟨by simp only [SetterOK]; decide, by simp only [SetterOK, TransOK]; decide, trivial, ?_⟩
  intro n hn; cases hn
/-- the side condition on transcoders is needed: an unsound transcoder result passed through a plain
remote value is NOT caught (the DPTArray constructor does not look at its items) -/
example : accept (.viaDpt (.arr [.int 300])) .none = .ok (.arr [.int 300]) ∧
    wireValid (.arr [.int 300]) = false := by decide +kernel
/-- the empty DPTArray serialises but reads back as DPTBinary(0) -/
example : (apdu Generated.Send.groupWrite (.arr [])).bind apduDecode = some (.bin 0) := by decide +kernel

end XknxVerif.Props.C11
