import XknxVerif.Model.Send
namespace XknxVerif.Props.C11
open XknxVerif.Send
theorem placeholder : wireValid (.bin 0) = true := by decide
end XknxVerif.Props.C11
