/-
C11  Any value accepted for sending becomes a wire-valid telegram.
Property theorems only.  Model: `Model/Send.lean` (the code after the `fix:` commits).

DPT transcoders are a parameter (`TransRes` = what `DPT.to_knx(value)` returned or raised); what is
assumed about them is stated as `TransOK` / `TransDeclared` (defined in `Lemmas/Send.lean`, with the
side conditions `SetterOK` / `SetterDeclared`) and checked on the real code by the harness for every
DPT class (and by C07–C10 for the codecs themselves).

  TransOK (.arr items)   := items ≠ [] ∧ items are octets ∧ items.length + 1 ≤ MAX_NPDU_LENGTH   (else True)
  SetterOK (.raw len)    := len + 1 ≤ MAX_NPDU_LENGTH;  SetterOK (.viaDpt tr) := TransOK tr;  else True
  TransDeclared tr       := the transcoder did not raise anything but ConversionError
  SetterDeclared         := TransDeclared for `.viaDpt tr` / `.parse (some tr)`;  else True
-/
import XknxVerif.Lemmas.Send
import XknxVerif.Automata

namespace XknxVerif.Props.C11
open XknxVerif XknxVerif.Send

/-- (1) THE PROPERTY, first half: whenever a setter / helper accepts a value, the payload it queues is
wire-valid — for EVERY value (any type, any magnitude, any list) and every configuration. -/
theorem accept_wireValid (s : Setter) (v : PyVal) (p : Payload) (hs : SetterOK s)
    (hv : ∀ n, v = .bin n → wireValid (.bin n) = true)
    (h : accept s v = .ok p) : wireValid p = true := by
  cases s with
  | raw len => exact rawToKnx_ok len hs v p h
  | scaling rf rt =>
    simp only [accept, scalingToKnx] at h
    cases ha : scalingArg v with
    | none => simp [ha] at h
    | some q => obtain ⟨num, den⟩ := q; simp only [ha] at h; exact scaleQ_ok rf rt num den p h
  | switch i =>
    cases v with
    | bool b =>
      simp only [accept, switchToKnx, Except.ok.injEq] at h
      subst h
      cases b <;> cases i <;> decide
    | _ => simp [accept, switchToKnx] at h
  | step i =>
    cases v with
    | stepDir b =>
      simp only [accept, stepToKnx, Except.ok.injEq] at h
      subst h
      cases b <;> cases i <;> decide
    | _ => simp [accept, stepToKnx] at h
  | upDown i =>
    cases v with
    | upDownDir b =>
      simp only [accept, upDownToKnx, Except.ok.injEq] at h
      subst h
      cases b <;> cases i <;> decide
    | _ => simp [accept, upDownToKnx] at h
  | viaDpt tr =>
    cases p with
    | bin n => exact transcoded_bin_ok tr n h
    | arr xs =>
      cases tr with
      | arr items =>
        simp only [accept, transcoded, Except.ok.injEq, Payload.arr.injEq] at h
        subst h
        simp only [SetterOK, TransOK] at hs
        have hne : items.isEmpty = false := by
          cases items with
          | nil => exact absurd rfl hs.1
          | cons _ _ => rfl
        simp only [wireValid, hne, Bool.not_false, hs.2.1, Bool.true_and, decide_eq_true_eq]
        exact hs.2.2
      | bin x =>
        cases x with
        | int m =>
          simp only [accept, transcoded, binRange] at h
          by_cases hr : 0 ≤ m ∧ m ≤ (Generated.Send.apciBitmask : Int) <;> simp [hr] at h
        | other => simp [accept, transcoded] at h
      | conv => simp [accept, transcoded] at h
      | other => simp [accept, transcoded] at h
  | parse tr => exact parsePayload_ok tr v p hv h

/-- (2) THE PROPERTY, second half: a refusal is always a ConversionError … -/
theorem refusal_is_conversion (s : Setter) (v : PyVal) (e : Err) (hd : SetterDeclared s)
    (h : accept s v = .error e) : e = .conversion := by
  cases s with
  | raw len => exact rawToKnx_err len v e h
  | scaling rf rt =>
    simp only [accept, scalingToKnx] at h
    cases ha : scalingArg v with
    | none => simp only [ha, Except.error.injEq] at h; exact h.symm
    | some q => obtain ⟨num, den⟩ := q; simp only [ha] at h; exact scaleQ_err rf rt num den e h
  | switch i => cases v <;> simp only [accept, switchToKnx, Except.error.injEq] at h <;> first | exact h.symm | cases h
  | step i => cases v <;> simp only [accept, stepToKnx, Except.error.injEq] at h <;> first | exact h.symm | cases h
  | upDown i => cases v <;> simp only [accept, upDownToKnx, Except.error.injEq] at h <;> first | exact h.symm | cases h
  | viaDpt tr => exact transcoded_err tr hd e h
  | parse tr =>
    simp only [accept, parsePayload] at h
    cases hc : parseCore tr v with
    | ok p0 => simp only [hc] at h; exact finalGuards_err p0 e h
    | error e' =>
      simp only [hc, Except.error.injEq] at h
      subst h
      refine parseCore_err tr ?_ v e' hc
      intro t ht
      subst ht
      exact hd

/-- (3) … and nothing is queued then; an accepted value queues exactly its payload. -/
theorem send_queue (q : List Payload) (s : Setter) (v : PyVal) :
    (∀ e, accept s v = .error e → (send q (s, v)).1 = q) ∧
    (∀ p, accept s v = .ok p → (send q (s, v)).1 = q ++ [p]) := by
  constructor
  · intro e h; simp [send, h]
  · intro p h; simp [send, h]

/-- every queued payload is wire-valid -/
def QueueValid (q : List Payload) : Prop := ∀ p ∈ q, wireValid p = true

/-- a call within the side conditions -/
def CallOK (c : Setter × PyVal) : Prop := SetterOK c.1 ∧ ∀ n, c.2 = .bin n → wireValid (.bin n) = true

theorem send_preserves (q : List Payload) (c : Setter × PyVal) (hc : CallOK c) (hq : QueueValid q) :
    QueueValid (send q c).1 := by
  unfold send
  split
  · rename_i p hp
    intro x hx
    simp only [List.mem_append, List.mem_singleton] at hx
    rcases hx with hx | rfl
    · exact hq x hx
    · exact accept_wireValid c.1 c.2 x hc.1 hc.2 hp
  · exact hq

/-- (4) Over ANY history of calls (any setters, any values, accepted or refused, in any order) the
telegram queue only ever holds wire-valid payloads. -/
theorem queue_always_valid (calls : List (Setter × PyVal)) (hc : ∀ c ∈ calls, CallOK c) :
    QueueValid (Automata.run (fun q (c : Setter × PyVal) => send q c) [] calls).1 := by
  -- strengthen: run from any valid queue, calls all within the side conditions
  suffices H : ∀ (cs : List (Setter × PyVal)) (q : List Payload), (∀ c ∈ cs, CallOK c) → QueueValid q →
      QueueValid (Automata.run (fun q (c : Setter × PyVal) => send q c) q cs).1 from
    H calls [] hc (by intro p hp; simp at hp)
  intro cs
  induction cs with
  | nil => intro q _ hq; simpa [Automata.run_nil] using hq
  | cons c cs ih =>
    intro q hcs hq
    rw [Automata.run_cons]
    exact ih _ (fun c' h' => hcs c' (by simp [h'])) (send_preserves q c (hcs c (by simp)) hq)

/-! ### wire validity is exactly serialisability -/

/-- (5) `bytes(payload.value)` succeeds exactly on octet items; a wire-valid payload has an APDU of octets
that fits the NPDU length field. -/
theorem wireValid_serialises (code : Nat) (p : Payload) (h : wireValid p = true) :
    ∃ bs, apdu code p = some bs ∧ bs.length ≤ Generated.Send.maxNpduLength + 1 := by
  cases p with
  | bin n =>
    refine ⟨[(code / 256) % 4, (code % 256) ||| (n.toNat &&& Generated.Send.apciBitmask)], rfl, ?_⟩
    show 2 ≤ Generated.Send.maxNpduLength + 1
    decide
  | arr xs =>
    simp only [wireValid, Bool.and_eq_true, decide_eq_true_eq] at h
    refine ⟨[(code / 256) % 4, code % 256] ++ xs.map itemNat, by simp [apdu, h.1.1, h.1.2], ?_⟩
    simp only [List.length_append, List.length_cons, List.length_nil, List.length_map]
    omega

/-- `GroupValueWrite/Response.to_knx` refuses exactly the empty array and arrays with a non-octet item -/
theorem apdu_none_iff (code : Nat) (xs : List Item) :
    apdu code (.arr xs) = none ↔ (xs = [] ∨ xs.all itemOctet = false) := by
  simp only [apdu]
  cases xs with
  | nil => simp
  | cons x r => cases h : (x :: r).all itemOctet <;> simp [h]

theorem items_roundtrip (xs : List Item) (h : xs.all itemOctet = true) :
    (xs.map itemNat).map (fun b => Item.int (Int.ofNat b)) = xs := by
  induction xs with
  | nil => rfl
  | cons x r ih =>
    simp only [List.all_cons, Bool.and_eq_true] at h
    simp only [List.map_cons, ih h.2, List.cons.injEq, and_true]
    cases x with
    | other => simp [itemOctet] at h
    | int n =>
      simp only [itemOctet, octet, Bool.and_eq_true, decide_eq_true_eq] at h
      show Item.int (Int.ofNat n.toNat) = Item.int n
      congr 1
      exact Int.toNat_of_nonneg h.1.1

theorem bin_bits : ∀ n : Fin 64,
    ((Generated.Send.groupWrite % 256) ||| (n.val &&& Generated.Send.apciBitmask)) &&& Generated.Send.apciBitmask = n.val ∧
    ((Generated.Send.groupResponse % 256) ||| (n.val &&& Generated.Send.apciBitmask)) &&& Generated.Send.apciBitmask = n.val := by
  decide +kernel

/-- (6) What is put on the wire is what was accepted: the APDU of EVERY wire-valid payload decodes
(`GroupValueWrite.from_knx`) to the same payload.  (The empty DPTArray, whose 2-octet APDU would read
back as DPTBinary(0), is not wire-valid any more: the encoder refuses it and so do the acceptors.) -/
theorem apdu_roundtrip (p : Payload) (h : wireValid p = true) :
    (apdu Generated.Send.groupWrite p).bind apduDecode = some p ∧
    (apdu Generated.Send.groupResponse p).bind apduDecode = some p := by
  cases p with
  | bin n =>
    simp only [wireValid, Bool.and_eq_true, decide_eq_true_eq] at h
    have h63 : (Generated.Send.apciBitmask : Int) = 63 := by decide
    have hlt : n.toNat < 64 := by omega
    have hb := bin_bits ⟨n.toNat, hlt⟩
    have hn : Int.ofNat n.toNat = n := Int.toNat_of_nonneg h.1
    simp only [apdu, Option.bind_some, apduDecode, Option.some.injEq, Payload.bin.injEq]
    simp only at hb
    constructor
    · rw [hb.1]; exact hn
    · rw [hb.2]; exact hn
  | arr xs =>
    simp only [wireValid, Bool.and_eq_true, decide_eq_true_eq] at h
    cases xs with
    | nil => simp at h
    | cons x r =>
      have hr := items_roundtrip (x :: r) h.1.2
      simp only [apdu, h.1.2, List.isEmpty_cons, Bool.not_false, Bool.and_self, if_true, Option.bind_some]
      simp only [List.map_cons, List.cons_append, List.nil_append, apduDecode, Option.some.injEq,
        Payload.arr.injEq] at hr ⊢
      exact ⟨hr, hr⟩

/-- (7) Every DPT class the code declares has a payload length that fits one frame, and every DPTArray class
declares at least one octet, so a transcoder that returns its declared number of octets satisfies the
non-emptiness and length parts of `TransOK` (regenerated each run). -/
theorem dpt_payload_lengths_fit :
    Generated.Send.dptPayloads.all (fun r => decide (r.2.2 + 1 ≤ Generated.Send.maxNpduLength) &&
      (r.2.1 != "A" || decide (1 ≤ r.2.2))) = true := by
  decide +kernel

/-! ### Non-vacuity and the pre-fix behaviour excluded -/

example : accept (.scaling 0 100) (.int 50) = .ok (.arr [.int 128]) := by decide +kernel
example : accept (.scaling 0 100) (.int 150) = .error .conversion := by decide +kernel
example : accept (.scaling 0 100) (.int (-10)) = .error .conversion := by decide +kernel
/-- 100.4 = 7064828626790810 / 2^46 as a double -/
example : accept (.scaling 0 100) (.float (.fin 7064828626790810 70368744177664)) = .error .conversion := by
  decide +kernel
example : accept (.scaling 0 100) (.float .nan) = .error .conversion := by decide +kernel
example : accept (.parse none) (.list [.int 1, .int 2, .int 300]) = .error .conversion := by decide +kernel
example : accept (.parse none) (.list [.int 1, .int 2, .int 255]) = .ok (.arr [.int 1, .int 2, .int 255]) := by
  decide +kernel
example : accept (.parse none) (.float (.fin 3 2)) = .error .conversion := by decide +kernel
example : accept (.parse none) .str = .error .conversion := by decide +kernel
example : accept (.parse none) (.arr [.int 300]) = .error .conversion := by decide +kernel
example : accept (.parse none) (.list (List.replicate 254 (.int 0))) = .error .conversion := by decide +kernel
example : (accept (.parse none) (.list (List.replicate 253 (.int 0)))).toOption.isSome = true := by decide +kernel
example : accept (.raw 0) (.tuple []) = .error .conversion := by decide +kernel
example : accept (.raw 2) (.int 258) = .ok (.arr [.int 1, .int 2]) := by decide +kernel
example : SetterOK (.raw 14) ∧ SetterOK (.viaDpt (.arr [.int 12, .int 26])) ∧
    CallOK (.parse none, .list [.int 7]) := by
  refine ⟨by simp only [SetterOK]; decide, by simp only [SetterOK, TransOK]; decide, trivial, ?_⟩
  intro n hn; cases hn
/-- the side condition on transcoders is needed: an unsound transcoder result passed through a plain
remote value is NOT caught (the DPTArray constructor does not look at its items) -/
example : accept (.viaDpt (.arr [.int 300])) .none = .ok (.arr [.int 300]) ∧
    wireValid (.arr [.int 300]) = false := by decide +kernel
/-- the empty DPTArray is refused by the encoder and by the helpers (b"", [], (), DPTArray(())) -/
example : apdu Generated.Send.groupWrite (.arr []) = none ∧ wireValid (.arr []) = false := by decide +kernel
example : accept (.parse none) (.bytes []) = .error .conversion ∧ accept (.parse none) (.list []) = .error .conversion ∧
    accept (.parse none) (.tuple []) = .error .conversion ∧ accept (.parse none) (.arr []) = .error .conversion ∧
    accept (.parse (some .conv)) (.arr []) = .error .conversion := by decide +kernel

end XknxVerif.Props.C11
