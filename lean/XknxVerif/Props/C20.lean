/-
C20  KNX/IP frame parsing terminates and fails only with declared errors.

"For every byte string, KNX/IP frame parsing terminates in time and memory
bounded by the input length.  It either returns a frame having consumed
exactly the length announced in its header, or fails with a KNX/IP parse
error; 'incomplete frame' is reported only when appending bytes could complete
the frame."

Model: `XknxVerif.KNXIP.parseFrame` (header, dispatch, all 29 body classes,
HPAI/CRI/CRD/DIB/SRP), written against Python's exception semantics
(`raw[i]` → IndexError, `Enum(x)` → ValueError, …).

* Termination: `parseFrame` is a total Lean function.  Its two loops
  (`parseDibs`, `parseSrps`) are defined by well-founded recursion on the
  remaining octets; Lean accepted them because of `dib_loop_advances` /
  `srp_loop_advances` below.  `dib_iterations_bounded` / `srp_iterations_bounded`
  bound the number of iterations (and of objects allocated) by half the input length.
* Only declared errors: `declared_errors_only`.
* Consumed = announced ≥ 6: `consumed_is_announced`.
* Incomplete only when completable: `incomplete_iff`, `incomplete_completable`.
-/
import XknxVerif.Lemmas.KNXIPDeclared
import XknxVerif.Lemmas.KNXIPLoops

namespace XknxVerif.Props.C20
open XknxVerif.KNXIP
open XknxVerif.Generated.KNXIP

/-- (1) A returned frame has consumed exactly the length announced in its header; that length is at
least the header itself, is available in the input, and is the number read from octets 4–5. -/
theorem consumed_is_announced (d : Bytes) (f : Frame) (rest : Bytes) (h : parseFrame d = .ok (f, rest)) :
    6 ≤ f.header.totalLength ∧ f.header.totalLength ≤ d.length ∧ rest = d.drop f.header.totalLength ∧
      d = d.take f.header.totalLength ++ rest ∧ f.header.totalLength = Header.lengthAfter d := by
  obtain ⟨h6, hle, hr, hh⟩ := parseFrame_ok h
  refine ⟨h6, hle, hr, ?_, (Header.parse_ok hh).2.2⟩
  rw [hr, List.take_append_drop]

/-- (2) For every byte string the only exceptions are `CouldNotParseKNXIP` and its subclass
`IncompleteKNXIPFrame`: no `IndexError`, `ValueError`, `ConversionError`, `OSError` … is reachable. -/
theorem declared_errors_only (d : Bytes) (e : Exc) (h : parseFrame d = .error e) :
    e = .parse ∨ e = .incomplete :=
  parseFrame_raises d e h

theorem declared_errors_only' (d : Bytes) (e : Exc) (h : parseFrame d = .error e) : e.declared = true := by
  rcases declared_errors_only d e h with rfl | rfl <;> rfl

/-- (2') The body parsers themselves (`body.from_knx`) raise nothing but `CouldNotParseKNXIP`, whatever
service type and body octets they are given. -/
theorem body_errors_declared (st : Nat) (raw : Bytes) (e : Exc) (h : parseBody st raw = .error e) : e = .parse :=
  parseBody_raises st raw e h

/-- (3) 'Incomplete frame' is reported exactly when the header is not there yet, or the header is
acceptable and announces more octets than are available. -/
theorem incomplete_iff (d : Bytes) :
    parseFrame d = .error .incomplete ↔
      d.length < 6 ∨ ∃ h, Header.parse d = .ok h ∧ d.length < h.totalLength := by
  constructor
  · intro hp
    by_cases hlen : d.length < Const.headerLength
    · exact Or.inl hlen
    · right
      unfold parseFrame at hp
      cases hh : Header.parse d with
      | error e =>
        rw [hh] at hp
        simp only [bind, Except.bind] at hp
        cases hp
        have := Header.parse_raises_of_len hlen _ hh
        cases this
      | ok h =>
        refine ⟨h, rfl, ?_⟩
        rw [hh] at hp
        simp only [bind, Except.bind] at hp
        split at hp
        · assumption
        · exfalso
          cases hb : parseBody h.serviceType (d.slice Const.headerLength h.totalLength) with
          | error e =>
            rw [hb] at hp
            simp only at hp
            cases hp
            have := parseBody_raises _ _ _ hb
            cases this
          | ok b => rw [hb] at hp; cases hp
  · rintro (hlen | ⟨h, hh, hlt⟩)
    · unfold parseFrame
      rw [Header.parse_short hlen]
      rfl
    · unfold parseFrame
      rw [hh]
      simp only [bind, Except.bind]
      rw [if_pos hlt]

theorem lengthAfter_lt (d : Bytes) (hd : Bytes.WF d) : Header.lengthAfter d < 65536 := by
  unfold Header.lengthAfter
  split
  · omega
  · split
    · rename_i b0 b4 b5 _ h4 h5
      have := hd b4 (List.mem_of_getElem? h4)
      have := hd b5 (List.mem_of_getElem? h5)
      split <;> omega
    · omega

/-- (4) 'Incomplete frame' is reported only when appending bytes could complete the frame: there is an
extension on which the parser gives a definite verdict (a frame or a parse error). -/
theorem incomplete_completable (d : Bytes) (hd : Bytes.WF d) (h : parseFrame d = .error .incomplete) :
    ∃ ext, parseFrame (d ++ ext) ≠ .error .incomplete := by
  refine ⟨List.replicate 65536 0, ?_⟩
  intro hc
  have hwf : Bytes.WF (d ++ List.replicate 65536 0) := by
    intro x hx
    rcases List.mem_append.mp hx with hx | hx
    · exact hd x hx
    · rw [List.eq_of_mem_replicate hx]; omega
  rcases (incomplete_iff _).mp hc with hlen | ⟨hdr, hh, hlt⟩
  · rw [List.length_append, List.length_replicate] at hlen; omega
  · have := (Header.parse_ok hh).2.2
    have := lengthAfter_lt _ hwf
    rw [List.length_append, List.length_replicate] at hlt
    omega

/-- … and conversely a frame whose announced length is available is never reported incomplete. -/
theorem complete_not_incomplete (d : Bytes) (h6 : 6 ≤ d.length) (hl : Header.lengthAfter d ≤ d.length) :
    parseFrame d ≠ .error .incomplete := by
  intro hc
  rcases (incomplete_iff d).mp hc with hlen | ⟨hdr, hh, hlt⟩
  · omega
  · have := (Header.parse_ok hh).2.2
    omega

/-- (5) Every iteration of the DIB loop consumes at least the two header octets of a DIB — the fact Lean
needed to accept `parseDibs` (well-founded recursion on the remaining length).  On the pinned tree a DIB
with length octet 0 was accepted, this statement was false and the loop did not terminate. -/
theorem dib_loop_advances (raw : Bytes) (d : DIB) (n : Nat) (h : DIB.parse raw = .ok (d, n)) : 2 ≤ n :=
  DIB.parse_pos h

/-- … and the same for the SRP loop of SEARCH_REQUEST_EXTENDED. -/
theorem srp_loop_advances (raw : Bytes) (s : SRP) (h : SRP.parse raw = .ok s) : 2 ≤ s.payloadSize :=
  SRP.parse_pos h

/-- (6) The DIB loop runs at most `len/2` times and allocates at most `len/2` DIB objects
(time and memory bounded by the input length). -/
theorem dib_iterations_bounded (raw : Bytes) (ds : List DIB) (h : parseDibs raw = .ok ds) :
    2 * ds.length ≤ raw.length + 1 := by
  fun_induction parseDibs raw generalizing ds with
  | case1 raw he => simp only [Except.ok.injEq] at h; subst h; simp
  | case2 raw he e hp => cases h
  | case3 raw he d n hp ih =>
    simp only [bind_eq_ok] at h
    obtain ⟨rest, hr, h⟩ := h
    simp only [Except.ok.injEq] at h
    subst h
    have := ih rest hr
    have := DIB.parse_pos hp
    have hne : 0 < raw.length := by
      cases raw with
      | nil => simp at he
      | cons x xs => simp
    simp only [List.length_drop, List.length_cons] at *
    omega

theorem srp_iterations_bounded (raw : Bytes) (ss : List SRP) (h : parseSrps raw = .ok ss) :
    2 * ss.length ≤ raw.length + 1 := by
  fun_induction parseSrps raw generalizing ss with
  | case1 raw he => simp only [Except.ok.injEq] at h; subst h; simp
  | case2 raw he e hp => cases h
  | case3 raw he s hp ih =>
    simp only [bind_eq_ok] at h
    obtain ⟨rest, hr, h⟩ := h
    simp only [Except.ok.injEq] at h
    subst h
    have := ih rest hr
    have := SRP.parse_pos hp
    have hne : 0 < raw.length := by
      cases raw with
      | nil => simp at he
      | cons x xs => simp
    simp only [List.length_drop, List.length_cons] at *
    omega

/-! ### Non-vacuity and the findings of the pinned tree, as evaluated facts about the model -/

/-- a frame followed by one more octet: frame returned, the octet left over -/
example : parseFrame [6, 0x10, 5, 0x30, 0, 8, 0xAA, 0xBB, 0xFF] =
    .ok (⟨⟨0x0530, 8⟩, .routingIndication [0xAA, 0xBB]⟩, [0xFF]) := by decide
/-- hypothesis of `incomplete_completable` is satisfiable … -/
example : parseFrame [6, 0x10, 5, 0x30, 0, 8, 0xAA] = .error .incomplete := by decide
/-- … and one more octet completes that frame -/
example : parseFrame ([6, 0x10, 5, 0x30, 0, 8, 0xAA] ++ [0xBB]) =
    .ok (⟨⟨0x0530, 8⟩, .routingIndication [0xAA, 0xBB]⟩, []) := by decide
/-- a total length below the header length is rejected (was: accepted, nothing consumed) -/
example : parseFrame [6, 0x10, 5, 0x30, 0, 0, 0xAA, 0xBB] = .error .parse := by decide
/-- empty bodies are parse errors (were: IndexError) -/
example : parseFrame [6, 0x10, 2, 6, 0, 6] = .error .parse := by decide
example : parseFrame [6, 0x10, 4, 0x20, 0, 6] = .error .parse := by decide
/-- an unknown status code is a parse error (was: ValueError) -/
example : parseFrame [6, 0x10, 2, 8, 0, 8, 1, 0x77] = .error .parse := by decide
/-- the DIB with length octet 0 is rejected by the DIB parser (was: accepted with 0 octets consumed) -/
example : DIB.parse [0, 8] = .error .parse := by decide
/-- … hence DESCRIPTION_RESPONSE `06 10 02 04 00 08 00 08` is a parse error (was: endless loop) -/
example : parseDescriptionResponse [0, 8] = .error .parse := by
  unfold parseDescriptionResponse
  rw [parseDibs_error (e := .parse) (by decide) (by decide)]
  rfl
/-- an SRP of unknown type / wrong payload is a parse error (were: ValueError / ConversionError) -/
example : SRP.parse [2, 7] = .error .parse := by decide
example : SRP.parse [2, 3] = .error .parse := by decide
/-- hypotheses of the loop lemmas are satisfiable -/
example : DIB.parse [4, 2, 2, 1, 0xFF] = .ok (.families false [(2, 1)], 4) := by decide
example : SRP.parse [4, 0x83, 2, 1] = .ok ⟨3, true, [2, 1], 4⟩ := by decide

end XknxVerif.Props.C20
