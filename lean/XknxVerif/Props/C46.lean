/-
C46  Automatic connection never downgrades a secured gateway.
Property theorems only.
-/
import XknxVerif.Model.AutoConnect

namespace XknxVerif.Props.C46
open XknxVerif.AutoConnect

/-- A gateway "announces tunnelling / routing as secured". -/
def tunnellingSecured (g : GW) : Prop := g.tunSec = some true
def routingSecured (g : GW) : Prop := g.routSec = some true

/-- (1) A plain tunnel (TCP or UDP) is never chosen for a gateway that announces tunnelling as secured. -/
theorem no_plain_tunnel_to_secured (g : GW) (h : tunnellingSecured g) :
    choose g ≠ some .tunnelTcp ∧ choose g ≠ some .tunnelUdp := by
  rcases g with ⟨tun, tcp, rout, ts, rs, core, sec⟩
  simp only [tunnellingSecured] at h
  subst h
  cases tun <;> cases tcp <;> cases rout <;> rcases rs with _ | _ | _ <;> simp [choose, truthy]

/-- (2) Plain routing is never chosen for a gateway that announces routing as secured. -/
theorem no_plain_routing_to_secured (g : GW) (h : routingSecured g) :
    choose g ≠ some .routing := by
  rcases g with ⟨tun, tcp, rout, ts, rs, core, sec⟩
  simp only [routingSecured] at h
  subst h
  cases tun <;> cases tcp <;> cases rout <;> rcases ts with _ | _ | _ <;> simp [choose, truthy]

/-- (3) Whatever is chosen is a method the gateway supports; the secure tunnel is chosen only when
tunnelling is announced as secured. -/
theorem choose_supported (g : GW) (m : Method) (h : choose g = some m) :
    match m with
    | .secureTunnelTcp => g.tcp = true ∧ tunnellingSecured g
    | .tunnelTcp => g.tcp = true ∧ ¬ tunnellingSecured g
    | .tunnelUdp => g.tun = true ∧ ¬ tunnellingSecured g
    | .routing => g.rout = true ∧ ¬ routingSecured g := by
  rcases g with ⟨tun, tcp, rout, ts, rs, core, sec⟩
  cases tun <;> cases tcp <;> cases rout <;> rcases ts with _ | _ | _ <;> rcases rs with _ | _ | _ <;>
    simp [choose, truthy] at h <;> subst h <;> simp [tunnellingSecured, routingSecured]

/-- The five connection methods a scan filter can enable. -/
inductive FMethod where
  | tunnelling | tunnellingTcp | routing | secureTunnelling | secureRouting
  deriving DecidableEq, Repr

def enabled (f : Filter) : FMethod → Bool
  | .tunnelling => f.tunnelling | .tunnellingTcp => f.tunnellingTcp | .routing => f.routing
  | .secureTunnelling => f.secureTunnelling | .secureRouting => f.secureRouting

/-- The gateway offers the transport the method needs. -/
def supported (g : GW) : FMethod → Bool
  | .tunnelling => g.tun | .tunnellingTcp => g.tcp | .routing => g.rout
  | .secureTunnelling => g.tcp | .secureRouting => g.rout

/-- The method's security matches what the gateway requires for that service:
a secure method needs the service announced as secured, a plain one needs it not announced. -/
def securityAgrees (g : GW) : FMethod → Prop
  | .tunnelling | .tunnellingTcp => ¬ tunnellingSecured g
  | .routing => ¬ routingSecured g
  | .secureTunnelling => tunnellingSecured g
  | .secureRouting => routingSecured g

/-- (4) The scan filter matches a gateway exactly when the name agrees and one of its enabled
methods is supported and its security requirement agrees. -/
theorem filterMatch_iff (f : Filter) (nameOk : Bool) (g : GW) :
    filterMatch f nameOk g = true ↔
      nameOk = true ∧ ∃ m : FMethod, enabled f m = true ∧ supported g m = true ∧ securityAgrees g m := by
  rcases g with ⟨tun, tcp, rout, ts, rs, core, sec⟩
  rcases f with ⟨a, b, c, d, e⟩
  constructor
  · intro h
    cases nameOk
    · simp [filterMatch] at h
    · refine ⟨rfl, ?_⟩
      simp only [filterMatch, Bool.not_true, Bool.false_eq_true, ↓reduceIte, Bool.or_eq_true,
        Bool.and_eq_true, Bool.not_eq_true'] at h
      rcases h with (((h | h) | h) | h) | h
      · exact ⟨.tunnelling, h.1.1, h.1.2, by
          rcases ts with _ | _ | _ <;> simp_all [securityAgrees, tunnellingSecured, truthy]⟩
      · exact ⟨.tunnellingTcp, h.1.1, h.1.2, by
          rcases ts with _ | _ | _ <;> simp_all [securityAgrees, tunnellingSecured, truthy]⟩
      · exact ⟨.routing, h.1.1, h.1.2, by
          rcases rs with _ | _ | _ <;> simp_all [securityAgrees, routingSecured, truthy]⟩
      · exact ⟨.secureTunnelling, h.1.1, h.1.2, by
          rcases ts with _ | _ | _ <;> simp_all [securityAgrees, tunnellingSecured, truthy]⟩
      · exact ⟨.secureRouting, h.1.1, h.1.2, by
          rcases rs with _ | _ | _ <;> simp_all [securityAgrees, routingSecured, truthy]⟩
  · rintro ⟨hn, m, he, hs, ha⟩
    subst hn
    cases m <;> simp only [enabled, supported, securityAgrees, tunnellingSecured, routingSecured] at he hs ha <;>
      subst he <;> subst hs <;>
      rcases ts with _ | _ | _ <;> rcases rs with _ | _ | _ <;> simp_all [filterMatch, truthy]

/-- (5) Over ANY sequence of discovered gateways, host filter and connection outcomes, every
connection attempt of the automatic-connection loop is the method `choose` yields for that
gateway — hence (by (1),(2)) never a plain tunnel / plain routing to a gateway that announces the
service as secured — and is made only to a gateway admitted by the keyring host filter. -/
theorem auto_attempts (hf : List Nat) (cs : List Cand) (i : Nat) :
    ∀ j m, (j, m) ∈ (auto hf i cs).1 →
      ∃ c, cs[j - i]? = some c ∧ i ≤ j ∧ choose c.gw = some m ∧ (hf.isEmpty = true ∨ hf.contains c.ia = true) := by
  induction cs generalizing i with
  | nil => intro j m h; simp [auto] at h
  | cons c cs ih =>
    intro j m h
    unfold auto at h
    split at h
    · obtain ⟨c', h1, h2, h3⟩ := ih (i + 1) j m h
      refine ⟨c', ?_, by omega, h3⟩
      have : j - i = (j - (i + 1)) + 1 := by omega
      rw [this]; simpa using h1
    · rename_i hpass
      have hpass' : hf.isEmpty = true ∨ hf.contains c.ia = true := by
        simp only [Bool.and_eq_true, Bool.not_eq_true', not_and, Bool.not_eq_false] at hpass
        cases he : hf.isEmpty
        · right; exact hpass he
        · left; rfl
      split at h
      · simp at h
      · rename_i m' hm'
        split at h
        · simp only [List.mem_singleton, Prod.mk.injEq] at h
          obtain ⟨rfl, rfl⟩ := h
          exact ⟨c, by simp, Nat.le_refl _, hm', hpass'⟩
        · simp only [List.mem_cons, Prod.mk.injEq] at h
          rcases h with ⟨rfl, rfl⟩ | h
          · exact ⟨c, by simp, Nat.le_refl _, hm', hpass'⟩
          · obtain ⟨c', h1, h2, h3⟩ := ih (i + 1) j m h
            refine ⟨c', ?_, by omega, h3⟩
            have : j - i = (j - (i + 1)) + 1 := by omega
            rw [this]; simpa using h1

/-- (5') The end-to-end statement of the property for the loop. -/
theorem auto_never_downgrades (hf : List Nat) (cs : List Cand) (j : Nat) (m : Method)
    (h : (j, m) ∈ (auto hf 0 cs).1) :
    ∃ c, cs[j]? = some c ∧
      (tunnellingSecured c.gw → m ≠ .tunnelTcp ∧ m ≠ .tunnelUdp) ∧
      (routingSecured c.gw → m ≠ .routing) := by
  obtain ⟨c, h1, _, h3, _⟩ := auto_attempts hf cs 0 j m h
  refine ⟨c, by simpa using h1, ?_, ?_⟩
  · intro hs
    have := no_plain_tunnel_to_secured c.gw hs
    rw [h3] at this
    exact ⟨fun e => this.1 (by rw [e]), fun e => this.2 (by rw [e])⟩
  · intro hs
    have := no_plain_routing_to_secured c.gw hs
    rw [h3] at this
    exact fun e => this (by rw [e])

/-- (6) Self-description: a secured-service-families DIB that lists tunnelling (resp. routing), with
no later secured-families DIB, makes the descriptor announce the service as secured, whatever other
DIBs surround it. -/
theorem parseDib_keeps_sec (g : GW) (d : Dib) (h : ∀ f, d ≠ .secured f) :
    (parseDib g d).tunSec = g.tunSec ∧ (parseDib g d).routSec = g.routSec := by
  cases d with
  | supp fams =>
    simp only [parseDib]
    split
    · split <;> simp
    · simp
  | secured f => exact absurd rfl (h f)
  | other => simp [parseDib]

theorem foldl_keeps_sec (post : List Dib) (g : GW) (h : ∀ d ∈ post, ∀ f, d ≠ .secured f) :
    (post.foldl parseDib g).tunSec = g.tunSec ∧ (post.foldl parseDib g).routSec = g.routSec := by
  induction post generalizing g with
  | nil => simp
  | cons d ds ih =>
    simp only [List.foldl_cons]
    have h1 := parseDib_keeps_sec g d (h d (by simp))
    have h2 := ih (parseDib g d) (fun d' hd' => h d' (by simp [hd']))
    exact ⟨h2.1.trans h1.1, h2.2.trans h1.2⟩

theorem secured_dib_announces (pre post : List Dib) (fams : List (Nat × Nat))
    (hpost : ∀ d ∈ post, ∀ f, d ≠ .secured f) :
    (parseDibs (pre ++ [.secured fams] ++ post)).tunSec
        = some (supports fams Generated.ServiceFamily.tunneling none) ∧
    (parseDibs (pre ++ [.secured fams] ++ post)).routSec
        = some (supports fams Generated.ServiceFamily.routing none) := by
  unfold parseDibs
  rw [List.foldl_append, List.foldl_append]
  have := foldl_keeps_sec post (List.foldl parseDib (List.foldl parseDib GW.init pre) [.secured fams]) hpost
  simp only [List.foldl_cons, List.foldl_nil, parseDib] at this ⊢
  exact this

/-! ### the scanner: a plain answer of a Core ≥ 2 device never becomes a descriptor -/

/-- A plain SearchResponse whose supported-families DIB lists CORE in version 2 or later changes nothing and yields nothing -
so the descriptor of such a device can only come from its extended answer, which carries the secured-families DIB. -/
theorem plain_answer_of_core2_device_ignored (f : Filter) (found : List (Nat × GW)) (r : Resp) (fams : List (Nat × Nat))
    (hp : r.ext = false) (hs : firstSupp r.dibs = some fams) (hc : supports fams Generated.ServiceFamily.core (some 2) = true) :
    scanStep f found r = (found, none) := by
  have hk : skipPlain r = true := by simp [skipPlain, hp, hs, hc]
  simp [scanStep, hk]

/-- Whatever is put on the queue is the parse of that response's own DIBs, passed the scan filter, and was not a skipped answer. -/
theorem yielded_is_own_parse (f : Filter) (found : List (Nat × GW)) (r : Resp) (e : Nat × GW)
    (h : (scanStep f found r).2 = some e) :
    e = (r.ep, parseDibs r.dibs) ∧ filterMatch f true (parseDibs r.dibs) = true ∧ skipPlain r = false := by
  unfold scanStep at h
  by_cases hk : skipPlain r = true
  · simp [hk] at h
  · by_cases hm : filterMatch f true (parseDibs r.dibs) = true
    · simp [hk, hm] at h; exact ⟨h.symm, hm, by simpa using hk⟩
    · simp [hk, hm] at h

/-- The version test is "2 or later": version 3 is skipped as well (kernel evaluation on the regenerated family codes). -/
example : skipPlain ⟨false, 1, [.other, .supp [(Generated.ServiceFamily.core, 3), (Generated.ServiceFamily.tunneling, 2)]]⟩ = true := by decide
example : skipPlain ⟨false, 1, [.supp [(Generated.ServiceFamily.core, 1), (Generated.ServiceFamily.tunneling, 1)]]⟩ = false := by decide
example : skipPlain ⟨true, 1, [.supp [(Generated.ServiceFamily.core, 2)]]⟩ = false := by decide

/-- The family codes the model reads are the ones the code's enum declares (regenerated each run). -/
theorem family_codes :
    Generated.ServiceFamily.members.lookup "TUNNELING" = some Generated.ServiceFamily.tunneling ∧
    Generated.ServiceFamily.members.lookup "ROUTING" = some Generated.ServiceFamily.routing ∧
    Generated.ServiceFamily.members.lookup "CORE" = some Generated.ServiceFamily.core ∧
    Generated.ServiceFamily.members.lookup "SECURITY" = some Generated.ServiceFamily.security ∧
    Generated.ServiceFamily.tunneling ≠ Generated.ServiceFamily.routing := by
  decide

/-! Non-vacuity -/
example : tunnellingSecured ⟨true, true, true, some true, none, 2, true⟩ ∧
    choose ⟨true, true, true, some true, none, 2, true⟩ = some .secureTunnelTcp := ⟨rfl, by decide⟩
example : (auto [] 0 [⟨⟨true, false, true, some true, some false, 1, false⟩, 4353, .commErr⟩,
                      ⟨⟨true, false, false, none, none, 1, false⟩, 4354, .ok⟩]).1
    = [(0, .routing), (1, .tunnelUdp)] := by decide
example : filterMatch ⟨false, false, false, true, false⟩ true ⟨true, true, false, some true, none, 2, true⟩ = true := by decide

end XknxVerif.Props.C46
