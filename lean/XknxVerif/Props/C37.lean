/-
C37  The device registry dispatches each telegram to exactly the right devices.

Refinement of the indexed registry of devices.py to the naive scan: the
invariant

    Nodup devices ∧ ∀ ga, index.get ga = (scan ga, or no entry when the scan is empty)

holds for the empty registry and is preserved by every operation, hence after
ANY history of add / remove / telegram operations (induction over the operation
list, `Automata.inv_run`).  All statements are for an arbitrary device type, an
arbitrary address type and an arbitrary (duplicate-free, fixed) address set per
device.
-/
import XknxVerif.Lemmas.Devices

namespace XknxVerif.Props.C37
open XknxVerif.Devices XknxVerif.Automata

set_option linter.unusedSectionVars false
set_option linter.unusedSimpArgs false
variable {Dev GA : Type} [DecidableEq Dev] [DecidableEq GA]

/-- The refinement invariant. The second part says both "the index lists exactly the
scan, in the same order" and "no empty index entries remain". -/
def Inv (gas : Dev → List GA) (s : Reg Dev GA) : Prop :=
  s.devices.Nodup ∧
  ∀ ga, idxGet s.index ga = if scan gas s ga = [] then none else some (scan gas s ga)

/-- `group_addresses()` returns a set. -/
def GasOk (gas : Dev → List GA) : Prop := ∀ d, (gas d).Nodup

theorem inv_empty (gas : Dev → List GA) : Inv gas (Reg.empty : Reg Dev GA) := by
  constructor
  · exact List.nodup_nil
  · intro ga; simp [Reg.empty, scan, idxGet]

private theorem getOrEmpty_eq_scan {gas : Dev → List GA} {s : Reg Dev GA} (h : Inv gas s) (ga : GA) :
    getOrEmpty s.index ga = scan gas s ga := by
  unfold getOrEmpty
  rw [h.2 ga]
  by_cases e : scan gas s ga = [] <;> simp [e]

/-- `add` of an unregistered device keeps the invariant … -/
theorem inv_add {gas : Dev → List GA} (hg : GasOk gas) {s : Reg Dev GA} (h : Inv gas s) (d : Dev) :
    Inv gas (add gas s d).1 := by
  unfold add
  by_cases hd : d ∈ s.devices
  · simpa [hd] using h
  · simp only [hd, if_false]
    constructor
    · show (s.devices ++ [d]).Nodup
      rw [List.nodup_append]
      refine ⟨h.1, List.pairwise_singleton _ _, ?_⟩
      intro a ha b hb
      simp only [List.mem_singleton] at hb
      subst hb
      exact fun e => hd (e ▸ ha)
    · intro ga
      show idxGet (indexAdd s.index d (gas d)) ga = _
      rw [idxGet_indexAdd d (gas d) (hg d), getOrEmpty_eq_scan h]
      have hs : scan gas ⟨s.devices ++ [d], indexAdd s.index d (gas d)⟩ ga
          = scan gas s ga ++ (if ga ∈ gas d then [d] else []) := by
        simp only [scan, List.filter_append, List.filter_cons, List.filter_nil]
        by_cases e : ga ∈ gas d <;> simp [e]
      rw [hs]
      by_cases e : ga ∈ gas d
      · simp [e]
      · simp only [e, if_false, List.append_nil]
        exact h.2 ga

/-- … and so does `remove`; on a registered device it completes without an exception
(the `KeyError` / `ValueError` branches of the index loop are unreachable). -/
theorem inv_remove {gas : Dev → List GA} (hg : GasOk gas) {s : Reg Dev GA} (h : Inv gas s) (d : Dev) :
    Inv gas (remove gas s d).1 ∧ (d ∈ s.devices → (remove gas s d).2 = none) := by
  unfold remove
  by_cases hd : d ∈ s.devices
  · simp only [hd, if_true]
    have hpre : ∀ g ∈ gas d, ∃ l, idxGet s.index g = some l ∧ d ∈ l := by
      intro g hgd
      have hmem : d ∈ scan gas s g := by
        simp only [scan, List.mem_filter, decide_eq_true_eq]; exact ⟨hd, hgd⟩
      have hne : scan gas s g ≠ [] := List.ne_nil_of_mem hmem
      exact ⟨scan gas s g, by rw [h.2 g]; simp [hne], hmem⟩
    obtain ⟨hnone, hget⟩ := indexRemove_spec d (gas d) (hg d) s.index hpre
    refine ⟨⟨?_, ?_⟩, fun _ => hnone⟩
    · exact h.1.erase d
    · intro ga
      show idxGet (indexRemove s.index d (gas d)).1 ga = _
      rw [hget ga, getOrEmpty_eq_scan h]
      have hs : scan gas ⟨s.devices.erase d, (indexRemove s.index d (gas d)).1⟩ ga
          = (scan gas s ga).erase d := by
        simp only [scan]
        rw [h.1.erase_eq_filter, List.Nodup.erase_eq_filter (List.Pairwise.filter _ h.1), List.filter_filter, List.filter_filter]
        congr 1; funext x; exact Bool.and_comm ..
      rw [hs]
      by_cases e : ga ∈ gas d
      · simp only [e, if_true, afterErase]
        by_cases e2 : (scan gas s ga).erase d = [] <;> simp [e2]
      · simp only [e, if_false]
        have hnot : d ∉ scan gas s ga := by
          simp only [scan, List.mem_filter, decide_eq_true_eq]; exact fun hh => e hh.2
        rw [List.erase_of_not_mem hnot]
        exact h.2 ga
  · simp only [hd, if_false]
    exact ⟨h, fun hh => absurd hh (by simp)⟩

theorem inv_step {gas : Dev → List GA} (hg : GasOk gas) (s : Reg Dev GA) (op : Op Dev GA)
    (h : Inv gas s) : Inv gas (step gas s op).1 := by
  cases op with
  | add d => exact inv_add hg h d
  | remove d => exact (inv_remove hg h d).1
  | telegram dst => exact h

/-- The state after an arbitrary history, starting from the empty registry. -/
def after (gas : Dev → List GA) (ops : List (Op Dev GA)) : Reg Dev GA :=
  (run (step gas) Reg.empty ops).1

/-- The invariant holds after ANY history. -/
theorem inv_after {gas : Dev → List GA} (hg : GasOk gas) (ops : List (Op Dev GA)) :
    Inv gas (after gas ops) :=
  inv_run (step gas) (Inv gas) (fun s e h => inv_step hg s e h) ops _ (inv_empty gas)

/-- Under the invariant the indexed lookup IS the naive scan. -/
theorem byAddress_eq_scan {gas : Dev → List GA} {s : Reg Dev GA} (h : Inv gas s) (ga : GA) :
    byAddress s ga = scan gas s ga := by
  unfold byAddress
  rw [h.2 ga]
  by_cases e : scan gas s ga = [] <;> simp [e]

/-- Naive specification of "the registered devices in registration order": a
successful add appends, a remove deletes, everything else leaves the list. -/
def registered : List Dev → List (Op Dev GA) → List Dev
  | l, [] => l
  | l, .add d :: ops => registered (if d ∈ l then l else l ++ [d]) ops
  | l, .remove d :: ops => registered (l.filter (· ≠ d)) ops
  | l, .telegram _ :: ops => registered l ops

private theorem devices_run {gas : Dev → List GA} (ops : List (Op Dev GA)) (s : Reg Dev GA)
    (hnd : s.devices.Nodup) (hg : GasOk gas) (hi : Inv gas s) :
    (run (step gas) s ops).1.devices = registered s.devices ops := by
  induction ops generalizing s with
  | nil => simp [run_nil, registered]
  | cons op ops ih =>
    rw [run_cons]
    have hi' := inv_step hg s op hi
    rw [ih _ hi'.1 hi']
    cases op with
    | add d =>
      simp only [step, add, registered]
      by_cases hd : d ∈ s.devices <;> simp [hd]
    | remove d =>
      simp only [step, remove, registered]
      by_cases hd : d ∈ s.devices
      · simp only [hd, if_true]
        rw [hnd.erase_eq_filter]
        congr 1
        apply List.filter_congr
        intro x _; simp only [bne, ne_eq, decide_not]; rfl
      · simp only [hd, if_false]
        congr 1
        symm
        rw [List.filter_eq_self]
        intro a ha
        simp only [decide_eq_true_eq]
        exact fun e => hd (e ▸ ha)
    | telegram dst => simp [step, registered]

/-- **Main theorem.** After ANY history of additions, removals (successful or
refused) and telegrams, for EVERY address: the devices the registry yields are
exactly the registered devices using that address (`scan` over the registration-ordered
list), each exactly once, in registration order (a sublist of the registered list, which is the
naive `registered` list of the history). -/
theorem lookup_after_any_history {gas : Dev → List GA} (hg : GasOk gas) (ops : List (Op Dev GA)) (ga : GA) :
    byAddress (after gas ops) ga = (registered [] ops).filter (fun d => ga ∈ gas d) ∧
    (byAddress (after gas ops) ga).Nodup ∧
    (byAddress (after gas ops) ga).Sublist (registered [] ops) ∧
    (∀ d, d ∈ byAddress (after gas ops) ga ↔ d ∈ registered [] ops ∧ ga ∈ gas d) := by
  have hi := inv_after hg ops
  have hdev : (after gas ops).devices = registered [] ops :=
    devices_run ops Reg.empty List.nodup_nil hg (inv_empty gas)
  have hb := byAddress_eq_scan hi ga
  rw [hb]
  unfold scan
  rw [hdev]
  refine ⟨rfl, ?_, List.filter_sublist, ?_⟩
  · rw [← hdev]; exact hi.1.filter _
  · intro d; simp [List.mem_filter]

/-- **Dispatch.** A telegram arriving after any history is processed by exactly the registered
devices using its destination address, each once, in registration order; a telegram whose
destination is not a (internal) group address is processed by no device. -/
theorem dispatch_after_any_history {gas : Dev → List GA} (hg : GasOk gas) (ops : List (Op Dev GA))
    (dst : Option GA) :
    (step gas (after gas ops) (.telegram dst)).2 =
      [.called (match dst with
        | some ga => (registered [] ops).filter (fun d => ga ∈ gas d)
        | none => [])] := by
  cases dst with
  | none => simp [step, process]
  | some ga => simp [step, process, (lookup_after_any_history hg ops ga).1]

/-- … and this is what the trace of a whole history records at that point (the telegram may be
followed by anything). -/
theorem dispatch_in_trace {gas : Dev → List GA} (hg : GasOk gas) (pre post : List (Op Dev GA))
    (ga : GA) :
    (run (step gas) Reg.empty (pre ++ .telegram (some ga) :: post)).2 =
      (run (step gas) Reg.empty pre).2 ++
        .called ((registered [] pre).filter (fun d => ga ∈ gas d)) ::
        (run (step gas) (after gas pre) post).2 := by
  rw [run_append, run_cons]
  have h := (lookup_after_any_history hg pre ga).1
  simp only [after] at h ⊢
  simp [step, process, h]

/-- Adding an already registered device raises and changes nothing. -/
theorem add_registered (gas : Dev → List GA) (s : Reg Dev GA) (d : Dev) (h : d ∈ s.devices) :
    add gas s d = (s, some .alreadyRegistered) := by
  simp [add, h]

/-- Removing an unregistered device raises and changes nothing. -/
theorem remove_unregistered (gas : Dev → List GA) (s : Reg Dev GA) (d : Dev) (h : d ∉ s.devices) :
    remove gas s d = (s, some .notRegistered) := by
  simp [remove, h]

/-- Adding an unregistered device never raises. -/
theorem add_unregistered (gas : Dev → List GA) (s : Reg Dev GA) (d : Dev) (h : d ∉ s.devices) :
    (add gas s d).2 = none ∧ (add gas s d).1.devices = s.devices ++ [d] := by
  simp [add, h]

/-- After any history, removing a registered device never raises (neither the guard nor the
`KeyError`/`ValueError` inside the index loop) and removes exactly that device. -/
theorem remove_registered_after_any_history {gas : Dev → List GA} (hg : GasOk gas)
    (ops : List (Op Dev GA)) (d : Dev) (h : d ∈ (after gas ops).devices) :
    (remove gas (after gas ops) d).2 = none ∧
    (remove gas (after gas ops) d).1.devices = (after gas ops).devices.erase d := by
  refine ⟨(inv_remove hg (inv_after hg ops) d).2 h, ?_⟩
  simp [remove, h]

/-- No empty index entries remain after any history: an address has an index entry iff some
registered device uses it. -/
theorem index_entry_iff_used {gas : Dev → List GA} (hg : GasOk gas) (ops : List (Op Dev GA)) (ga : GA) :
    (idxGet (after gas ops).index ga).isSome ↔ ∃ d ∈ (after gas ops).devices, ga ∈ gas d := by
  have hi := inv_after hg ops
  rw [hi.2 ga]
  by_cases e : scan gas (after gas ops) ga = []
  · simp only [e, if_true, Option.isSome_none, Bool.false_eq_true, false_iff]
    rintro ⟨d, hd, hga⟩
    have : d ∈ scan gas (after gas ops) ga := by
      simp only [scan, List.mem_filter, decide_eq_true_eq]; exact ⟨hd, hga⟩
    rw [e] at this; exact absurd this (by simp)
  · simp only [e, if_false, Option.isSome_some, true_iff]
    obtain ⟨d, hd⟩ := List.exists_mem_of_ne_nil _ e
    simp only [scan, List.mem_filter, decide_eq_true_eq] at hd
    exact ⟨d, hd.1, hd.2⟩

/-! Non-vacuity: a concrete history with shared addresses, a refused double add, a refused
remove, a re-add (which moves the device to the end of the registration order). -/
def gasEx : Nat → List Nat
  | 0 => [1, 2] | 1 => [2] | 2 => [2, 3] | _ => []

example : GasOk gasEx := by
  intro d; unfold gasEx; split <;> decide

def histEx : List (Op Nat Nat) :=
  [.add 0, .add 1, .add 0, .add 2, .remove 7, .remove 0, .add 0, .telegram (some 2)]

example : (run (step gasEx) Reg.empty histEx).2 =
    [.done, .done, .raised .alreadyRegistered, .done, .raised .notRegistered, .done, .done,
     .called [1, 2, 0]] := by decide
example : registered [] histEx = [1, 2, 0] := by decide
example : idxGet (after gasEx histEx).index 1 = some [0] ∧ idxGet (after gasEx histEx).index 5 = none := by
  decide

end XknxVerif.Props.C37
