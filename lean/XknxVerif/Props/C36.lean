/-
C36  Registered tasks follow connection state and never run twice.
Property theorems only; all are about EVERY trace the monitor `TaskRegistry.step?` accepts
(any length, any interleaving of the alphabet, any option combination of any number of tasks).
-/
import XknxVerif.Lemmas.TaskRegistry

namespace XknxVerif.Props.C36
open XknxVerif.TaskRegistry XknxVerif.Monitor

/-- `tr` is accepted from the initial state for tasks with options `opts`, ending in `s`. -/
def Accepted (opts : List Opts) (tr : List Obs) (s : State) : Prop :=
  run? step? (init opts) tr = some s

/-- The invariant holds after every accepted trace. -/
theorem inv_accepted (opts : List Opts) (tr : List Obs) (s : State) (h : Accepted opts tr s) : Inv s :=
  inv_run? step? Inv inv_step tr (init opts) s (inv_init opts) h

/-! ## Generation numbers -/

theorem spawn_is_next_generation (opts : List Opts) (a : List Obs) (i g : Nat) (s : State)
    (h : Accepted opts (a ++ [.spawn i g]) s) :
    g = (a.filter (isSpawn i)).length := by
  obtain ⟨s1, h1, h2⟩ := run?_append_some step? h
  rw [run?_singleton] at h2
  have hn := nextGen_counts_spawns i a (init opts) s1 h1
  simp only [step?] at h2
  split at h2
  · rename_i hc
    rw [hc.2.2, hn]; simp [init, TaskSt.init]
  · simp at h2

/-! ## Cancelled generations never run again -/

/-- **Replace / remove / stop / connection loss cancel for good.**  After `start i`, `remove i`,
`stop`, or any connection-state delivery to a listening registry for a `restart_after_reconnect`
task, no generation of task `i` that existed at that moment (generation number below the number of
spawns so far) ever enters its target again, is ever spawned again, or is alive at a later
quiescent snapshot — whatever happens in between (`b` is arbitrary). -/
theorem cancelled_generations_never_run (opts : List Opts) (a b : List Obs) (o o' : Obs) (i : Nat)
    (s1 s : State) (ha : Accepted opts a s1) (hc : Cancels s1 o i)
    (h : run? step? s1 ([o] ++ b ++ [o']) = some s) :
    (∀ g, o' = .enter i g → (a.filter (isSpawn i)).length ≤ g) ∧
    (∀ g, o' = .spawn i g → (a.filter (isSpawn i)).length ≤ g) ∧
    (∀ l g, o' = .snap l → (i, g) ∈ l → (a.filter (isSpawn i)).length ≤ g) := by
  have hcnt := nextGen_counts_spawns i a (init opts) s1 ha
  simp only [init, TaskSt.init, Nat.zero_add] at hcnt
  rw [← hcnt]
  have hi1 := inv_accepted opts a s1 ha
  obtain ⟨s2, h2, h3⟩ := run?_append_some step? h
  obtain ⟨s1', h1', h2'⟩ := run?_append_some step? h2
  rw [run?_singleton] at h1' h3
  have hcur := cancels_cur hi1 h1' hc
  have hi1' := inv_step _ _ _ hi1 h1'
  have hf1 : FreshFrom (s1.tasks i).nextGen i s1' := by
    obtain ⟨_, hcc, _, _⟩ := step_task h1' i
    refine ⟨?_, by intro c hc'; rw [hcur] at hc'; simp at hc'⟩
    rcases hcc with ⟨_, _, hn, _⟩ | ⟨_, hn, _⟩ <;> omega
  have hf2 : FreshFrom (s1.tasks i).nextGen i s2 :=
    inv_run? step? _ (freshFrom_step _ i) b s1' s2 hf1 h2'
  exact freshFrom_obs _ i s2 s o' hf2 h3

/-- The target is only ever entered in the generation the registry currently holds. -/
theorem enter_is_held_generation (opts : List Opts) (tr : List Obs) (i g : Nat) (s : State)
    (h : Accepted opts (tr ++ [.enter i g]) s) :
    ∃ s1 c, Accepted opts tr s1 ∧ (s1.tasks i).cur = some c ∧ c.gen = g ∧ (s1.tasks i).registered = true := by
  obtain ⟨s1, h1, h2⟩ := run?_append_some step? h
  rw [run?_singleton] at h2
  have hi := inv_accepted opts tr s1 h1
  simp only [step?] at h2
  split at h2
  · rename_i c hc
    split at h2
    · rename_i hcond
      refine ⟨s1, c, h1, hc, hcond.1, ?_⟩
      cases hr : (s1.tasks i).registered
      · have := ((hi i).unreg hr).1; rw [hc] at this; simp at this
      · rfl
    · simp at h2
  · simp at h2

/-! ## Target executions of one task never overlap -/

/-- **Never run twice.**  In every accepted trace, between two entries into the target of the same
task (in whatever generations) the first execution has been left: target executions of one task
never overlap, even across restarts, replacements and cancellations. -/
theorem no_overlap (opts : List Opts) (a b : List Obs) (i g g' : Nat) (s : State)
    (h : Accepted opts (a ++ [.enter i g] ++ b ++ [.enter i g']) s) :
    .exit i g ∈ b := by
  apply Classical.byContradiction
  intro hnot
  obtain ⟨s3, h3, h4⟩ := run?_append_some step? h
  obtain ⟨s2, h2, h3'⟩ := run?_append_some step? h3
  obtain ⟨s1, h1, h2'⟩ := run?_append_some step? h2
  rw [run?_singleton] at h2' h4
  have hi1 := inv_accepted opts a s1 h1
  have hi2 := inv_step _ _ _ hi1 h2'
  have hw2 : Inside i g s2 := by
    simp only [step?] at h2'
    split at h2'
    · rename_i c hc
      split at h2'
      · rename_i hcond
        injection h2' with h2'; subst h2'
        left
        exact ⟨{ c with inTarget := true, ran := true }, by simp only [upd_same], hcond.1, rfl⟩
      · simp at h2'
    · simp at h2'
  have hw3 : Inside i g s3 :=
    until_inv_run? step? Inv (Inside i g) (fun o => o ≠ .exit i g) inv_step
      (fun s o s' hi hw hne hs => inside_step i g s o s' hi hw hne hs) b s2 s3 hi2 hw2
      (fun e he => fun heq => hnot (heq ▸ he)) h3'
  -- the second entry is impossible while generation g is inside
  simp only [step?] at h4
  split at h4
  · rename_i c hcur
    split at h4
    · rename_i hcond
      rcases hw3 with ⟨c0, hc0, _, hin0⟩ | hz
      · rw [hcur] at hc0; injection hc0 with hc0; subst hc0
        rw [hcond.2.1] at hin0; simp at hin0
      · have := hcond.2.2.1
        rw [List.all_eq_true] at this
        have := this _ hz
        simp at this
    · simp at h4
  · simp at h4

/-! ## Restart tasks follow the connection state -/

/-- **Not running while disconnected.**  Let the registry be listening and let task `i` be a
`restart_after_reconnect` task.  After a connection-state delivery other than `connected`, and for
as long as neither `start_task(i)` is called nor `connected` is delivered (`b` arbitrary otherwise:
time, other tasks, further losses, remove/stop, …): task `i` holds no generation — its target is not
entered, nothing is spawned for it, and no asyncio task of it is alive at any quiescent snapshot. -/
theorem restart_task_idle_while_disconnected (opts : List Opts) (a b : List Obs) (c i : Nat) (o : Obs)
    (s1 s : State) (ha : Accepted opts a s1)
    (hl : s1.listening = true) (hr : (s1.tasks i).opts.restart = true) (hc : c ≠ 2)
    (hb : ∀ e ∈ b, e ≠ .start i ∧ e ≠ .conn 2)
    (h : run? step? s1 ([.conn c] ++ b ++ [o]) = some s) :
    (∀ g, o ≠ .enter i g) ∧ (∀ g, o ≠ .spawn i g) ∧ (∀ l g, o = .snap l → (i, g) ∉ l) := by
  have hi1 := inv_accepted opts a s1 ha
  obtain ⟨s3, h3, h4⟩ := run?_append_some step? h
  obtain ⟨s2, h2, h3'⟩ := run?_append_some step? h3
  rw [run?_singleton] at h2 h4
  have hcur := cancels_cur hi1 h2 (Or.inr (Or.inr (Or.inr ⟨c, rfl, hl, hr⟩)))
  have hid2 : Idle i s2 := by
    refine ⟨hcur, ?_⟩
    obtain ⟨_, _, he, _⟩ := step_task h2 i
    cases hes : (s2.tasks i).expectSpawn
    · rfl
    · rcases he hes with h1 | h1 | ⟨h1, _⟩
      · have hq := needsQuiet_quiet h2 rfl
        have hreg : (s1.tasks i).registered = true := by
          cases hreg : (s1.tasks i).registered
          · rw [((hi1 i).unreg hreg).2] at h1; simp at h1
          · rfl
        rw [(quiet_iff s1).1 hq i ((hi1 i).bound hreg)] at h1; simp at h1
      · simp at h1
      · injection h1 with h1; exact absurd h1 hc
  have hid3 : Idle i s3 :=
    until_run? step? (Idle i) (fun e => e ≠ .start i ∧ e ≠ .conn 2)
      (fun s o s' hid hok hs => idle_step i s o s' hid ⟨hok.1, fun h2 => absurd h2 hok.2⟩ hs)
      b s2 s3 hid2 hb h3'
  exact idle_obs i s3 s o hid3 h4

/-- **Started again once per reconnection (and once per `start_task`).**  When `connected` is
delivered to a listening registry, every registered `restart_after_reconnect` task gets exactly one
new generation before the next call / connection delivery / quiescent snapshot `o` — not zero, not
two; likewise exactly one generation per `start_task(i)`.  (`b` = whatever the implementation does
in between: spawns, target entries and exits, task ends, time.) -/
theorem one_generation_per_reconnection_or_start (opts : List Opts) (a b : List Obs) (o0 o : Obs) (i : Nat)
    (s1 s : State) (ha : Accepted opts a s1)
    (h0 : o0 = .start i ∨ (o0 = .conn 2 ∧ s1.listening = true ∧ (s1.tasks i).registered = true ∧
            (s1.tasks i).opts.restart = true))
    (hb : ∀ e ∈ b, isOutput e = true) (ho : needsQuiet o = true)
    (h : run? step? s1 ([o0] ++ b ++ [o]) = some s) :
    (b.filter (isSpawn i)).length = 1 := by
  have hi1 := inv_accepted opts a s1 ha
  obtain ⟨s3, h3, h4⟩ := run?_append_some step? h
  obtain ⟨s2, h2, h3'⟩ := run?_append_some step? h3
  rw [run?_singleton] at h2 h4
  have hi2 := inv_step _ _ _ hi1 h2
  have hi3 : Inv s3 := inv_run? step? Inv inv_step b s2 s3 hi2 h3'
  have hexp2 : (s2.tasks i).expectSpawn = true := by
    rcases h0 with rfl | ⟨rfl, hl, hreg, hr⟩
    · simp only [step?] at h2; split at h2
      · injection h2 with h2; subst h2; simp
      · simp at h2
    · simp only [step?] at h2; split at h2
      · injection h2 with h2; subst h2
        simp [connTask, hl, hreg, hr]
      · simp at h2
  have hq3 := needsQuiet_quiet h4 ho
  have hexp3 : (s3.tasks i).expectSpawn = false := by
    cases hes : (s3.tasks i).expectSpawn
    · rfl
    · have hreg : (s3.tasks i).registered = true := by
        cases hreg : (s3.tasks i).registered
        · rw [((hi3 i).unreg hreg).2] at hes; simp at hes
        · rfl
      rw [(quiet_iff s3).1 hq3 i ((hi3 i).bound hreg)] at hes; simp at hes
  have := spawn_count_outputs i b s2 s3 hb h3'
  rw [hexp2, hexp3] at this
  simpa using this

/-! ## Remove and stop -/

/-- **A removed task is cancelled.**  After `remove_task(i)` and until the next `start_task(i)`
(anything else may happen: reconnections, time, other tasks …) the target of task `i` is never
entered, no generation is spawned for it and none of its asyncio tasks is alive at a quiescent
snapshot. -/
theorem removed_task_stays_cancelled (opts : List Opts) (a b : List Obs) (i : Nat) (o : Obs) (s : State)
    (hb : ∀ e ∈ b, e ≠ .start i)
    (h : Accepted opts (a ++ [.remove i] ++ b ++ [o]) s) :
    (∀ g, o ≠ .enter i g) ∧ (∀ g, o ≠ .spawn i g) ∧ (∀ l g, o = .snap l → (i, g) ∉ l) := by
  obtain ⟨s3, h3, h4⟩ := run?_append_some step? h
  obtain ⟨s2, h2, h3'⟩ := run?_append_some step? h3
  obtain ⟨s1, h1, h2'⟩ := run?_append_some step? h2
  rw [run?_singleton] at h2' h4
  have hi1 := inv_accepted opts a s1 h1
  have hi2 := inv_step _ _ _ hi1 h2'
  have hu2 : (s2.tasks i).registered = false := by
    simp only [step?] at h2'; split at h2'
    · injection h2' with h2'; subst h2'
      simp only [upd_same]; split <;> simp_all
    · simp at h2'
  have hu3 : (s3.tasks i).registered = false :=
    until_run? step? (fun s => (s.tasks i).registered = false) (fun e => e ≠ .start i)
      (fun s o s' hu hok hs => unregistered_step i s o s' hu hok hs) b s2 s3 hu2 hb h3'
  have hi3 : Inv s3 := inv_run? step? Inv inv_step b s2 s3 hi2 h3'
  exact idle_obs i s3 s o ((hi3 i).unreg hu3) h4

/-- **Stopping the registry leaves no task running.**  After `stop()` and until the next
`start_task` of any task, no target is entered, nothing is spawned, and every quiescent snapshot of
the alive asyncio tasks is empty. -/
theorem stop_leaves_no_task_running (opts : List Opts) (a b : List Obs) (o : Obs) (s : State)
    (hb : ∀ e ∈ b, ∀ k, e ≠ .start k)
    (h : Accepted opts (a ++ [.stop] ++ b ++ [o]) s) :
    (∀ i g, o ≠ .enter i g) ∧ (∀ i g, o ≠ .spawn i g) ∧ (∀ l, o = .snap l → l = []) := by
  obtain ⟨s3, h3, h4⟩ := run?_append_some step? h
  obtain ⟨s2, h2, h3'⟩ := run?_append_some step? h3
  obtain ⟨s1, h1, h2'⟩ := run?_append_some step? h2
  rw [run?_singleton] at h2' h4
  have hi1 := inv_accepted opts a s1 h1
  have hi2 := inv_step _ _ _ hi1 h2'
  have hi3 : Inv s3 := inv_run? step? Inv inv_step b s2 s3 hi2 h3'
  have hid : ∀ i, Idle i s3 := by
    intro i
    have hu2 : (s2.tasks i).registered = false := by
      simp only [step?] at h2'; split at h2'
      · injection h2' with h2'; subst h2'
        simp only; split <;> simp_all
      · simp at h2'
    have hu3 : (s3.tasks i).registered = false :=
      until_run? step? (fun s => (s.tasks i).registered = false) (fun e => e ≠ .start i)
        (fun s o s' hu hok hs => unregistered_step i s o s' hu hok hs) b s2 s3 hu2
        (fun e he => hb e he i) h3'
    exact (hi3 i).unreg hu3
  refine ⟨fun i g => (idle_obs i s3 s o (hid i) h4).1 g, fun i g => (idle_obs i s3 s o (hid i) h4).2.1 g, ?_⟩
  intro l hl
  cases l with
  | nil => rfl
  | cons p l =>
    exact absurd (List.mem_cons_self) ((idle_obs p.1 s3 s o (hid p.1) h4).2.2 (p :: l) p.2 hl)

/-! ## At most one live generation -/

/-- **At most one live generation per task.**  Every quiescent snapshot the monitor accepts lists
at most one alive asyncio task per registry task, that task is registered, and the listed generation
is the latest one spawned for it. -/
theorem snapshot_single_generation (opts : List Opts) (tr : List Obs) (l : List (Nat × Nat)) (s : State)
    (h : Accepted opts (tr ++ [.snap l]) s) :
    (l.map Prod.fst).Nodup ∧
    ∀ i g, (i, g) ∈ l → (s.tasks i).registered = true ∧ g + 1 = (tr.filter (isSpawn i)).length := by
  obtain ⟨s1, h1, h2⟩ := run?_append_some step? h
  rw [run?_singleton] at h2
  have hi1 := inv_accepted opts tr s1 h1
  simp only [step?] at h2
  split at h2
  · rename_i hcond
    injection h2 with h2; subst h2
    rw [hcond.2.2]
    refine ⟨by rw [liveList_fst]; exact List.nodup_range.filter _, ?_⟩
    intro i g hm
    simp only [liveList, List.mem_filterMap, List.mem_range, Option.map_eq_some_iff, Prod.mk.injEq] at hm
    obtain ⟨a, _, c, hc, ha, hg⟩ := hm
    subst ha; subst hg
    constructor
    · cases hr : (s1.tasks a).registered
      · have := ((hi1 a).unreg hr).1; rw [hc] at this; simp at this
      · rfl
    · -- the held generation is the latest spawned one
      have hcnt := nextGen_counts_spawns a tr (init opts) s1 h1
      simp only [init, TaskSt.init, Nat.zero_add] at hcnt
      rw [← hcnt]
      have hl : Latest a s1 := inv_run? step? (Latest a) (latest_step a) tr (init opts) s1
        (by intro c hc; simp [init, TaskSt.init] at hc) h1
      exact hl c hc
  · simp at h2

/-! ## Non-vacuity: concrete accepted traces (recorded from the real TaskRegistry) that exercise the
hypotheses of the theorems above; and concrete rejected ones. -/

/-- restart task, wait_before_start 0.5 s, repeat 1 s: connect, start, lose the connection twice,
reconnect (one new generation), remove. -/
def ex1 : List Obs :=
  [.begin, .snap [], .inject 2, .conn 2, .snap [], .start 0, .spawn 0 0, .snap [(0, 0)], .adv 500000,
   .enter 0 0, .adv 700000, .exit 0 0, .adv 2200000, .enter 0 0, .adv 2400000, .exit 0 0, .adv 3900000,
   .enter 0 0, .adv 4000000, .snap [(0, 0)], .inject 1, .conn 1, .exit 0 0, .done 0 0, .snap [],
   .adv 5000000, .snap [], .inject 0, .conn 0, .snap [], .adv 6000000, .snap [], .inject 2, .conn 2,
   .spawn 0 1, .snap [(0, 1)], .adv 6500000, .enter 0 1, .adv 6700000, .exit 0 1, .adv 12000000,
   .snap [(0, 1)], .remove 0, .done 0 1, .snap [], .adv 13000000, .snap [], .stop, .snap []]

example : accepts [⟨true, 500000, false, some 1000000⟩] ex1 = true := by decide

/-- two tasks; `start_task` of a running task replaces the instance (generation 0 leaves its target
before generation 1 enters). -/
def ex2 : List Obs :=
  [.begin, .conn 2, .start 0, .spawn 0 0, .enter 0 0, .snap [(0, 0)], .start 1, .spawn 1 0, .enter 1 0,
   .exit 1 0, .done 1 0, .snap [(0, 0)], .adv 100000, .start 0, .spawn 0 1, .exit 0 0, .enter 0 1,
   .done 0 0, .snap [(0, 1)], .conn 0, .exit 0 1, .done 0 1, .snap [], .conn 2, .spawn 0 2, .enter 0 2,
   .snap [(0, 2)], .stop, .exit 0 2, .done 0 2, .snap []]

example : accepts [⟨true, 0, true, none⟩, ⟨false, 0, false, none⟩] ex2 = true := by decide

/-- overlapping executions are rejected -/
example : accepts [⟨false, 0, false, none⟩]
    [.start 0, .spawn 0 0, .enter 0 0, .start 0, .spawn 0 1, .enter 0 1] = false := by decide

/-- a restart task running after a connection loss is rejected -/
example : accepts [⟨true, 0, false, some 1000⟩]
    [.begin, .conn 2, .start 0, .spawn 0 0, .enter 0 0, .exit 0 0, .conn 0, .adv 1000, .enter 0 0] = false := by decide

/-- a missing restart after reconnection is rejected at the next snapshot; so is a double one -/
example : accepts [⟨true, 0, false, none⟩]
    [.begin, .start 0, .spawn 0 0, .conn 2, .snap []] = false := by decide

example : accepts [⟨true, 0, false, none⟩]
    [.begin, .start 0, .spawn 0 0, .conn 2, .spawn 0 1, .spawn 0 2] = false := by decide

/-- an asyncio task alive after `remove` / `stop` is rejected -/
example : accepts [⟨false, 1000, false, none⟩]
    [.start 0, .spawn 0 0, .remove 0, .snap [(0, 0)]] = false := by decide

example : accepts [⟨false, 1000, false, none⟩]
    [.start 0, .spawn 0 0, .stop, .snap [(0, 0)]] = false := by decide

end XknxVerif.Props.C36
