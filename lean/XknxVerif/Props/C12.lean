/-
C12  cEMI frame parsing is total with declared errors only.
`Frame.fromKnx` is a total Lean function (termination checked by Lean) whose error type has
three constructors; the theorems below say that the third (`conv` = a ConversionError from the
control-field, TPCI or APCI decoders) never escapes — it is always mapped to one of the two
declared cEMI errors — for EVERY byte string and EVERY application-layer codec, and classify
which inputs give which error.  Property theorems only.
-/
import XknxVerif.Lemmas.CEMI

namespace XknxVerif.Props.C12
open XknxVerif XknxVerif.CEMI XknxVerif.Generated

/-- Parsing any byte string returns a frame, a cEMI parse error or an unsupported-message error:
an inner ConversionError never escapes. -/
theorem fromKnx_declared_errors_only {α} (C : Codec α) (raw : Bytes) :
    (∃ f, Frame.fromKnx C raw = .ok f) ∨ Frame.fromKnx C raw = .error .parse
      ∨ Frame.fromKnx C raw = .error .unsupported := by
  have hne : Frame.fromKnx C raw ≠ .error .conv := by
    unfold Frame.fromKnx
    intro h
    split_all h
    all_goals first
      | (cases h; done)
      | (cases h; exact ldata_ne_conv _ _ (by assumption))
      | (cases h; exact propinfo_ne_conv _ (by assumption))
      | (cases h; exact readcon_ne_conv _ (by assumption))
      | (cases h; exact write_ne_conv _ (by assumption))
      | (cases h; exact writecon_ne_conv _ (by assumption))
  cases hr : Frame.fromKnx C raw with
  | ok f => exact .inl ⟨f, rfl⟩
  | error e => cases e with
    | parse => exact .inr (.inl rfl)
    | unsupported => exact .inr (.inr rfl)
    | conv => exact absurd hr hne

/-- The empty frame is a parse error (was IndexError before the fix). -/
theorem fromKnx_nil {α} (C : Codec α) : Frame.fromKnx C [] = .error .parse := rfl

/-- A message code the enum does not define is an unsupported message, whatever follows. -/
theorem fromKnx_unknown_code {α} (C : Codec α) (code : Nat) (rest : Bytes)
    (h : (Cemi.messageCodes.map (·.2)).contains code = false) :
    Frame.fromKnx C (code :: rest) = .error .unsupported := by
  unfold Frame.fromKnx
  simp only [h, Bool.not_false, ↓reduceIte]

/-- An L_Data frame (ind / req / con) shorter than message code + info length + 8 octets is a
parse error, whatever its content (was IndexError for the one-octet frame before the fix). -/
theorem fromKnx_ldata_truncated {α} (C : Codec α) (code : Nat) (rest : Bytes)
    (hc : isLDataCode code = true) (hlen : rest.length < 9) :
    Frame.fromKnx C (code :: rest) = .error .parse := by
  have hk : (Cemi.messageCodes.map (·.2)).contains code = true := by
    simp only [isLDataCode, Bool.or_eq_true, beq_iff_eq] at hc
    rcases hc with (h | h) | h <;> subst h <;> decide
  unfold Frame.fromKnx
  simp only [hk, Bool.not_true, Bool.false_eq_true, ↓reduceIte]
  simp only [isLDataCode] at hc
  simp only [hc, ↓reduceIte]
  cases rest with
  | nil => rfl
  | cons ilen r =>
    have : r.length - ilen < 8 := by
      simp only [List.length_cons] at hlen
      omega
    simp [LData.fromKnx, pre, stage, this]

/-- The application layer's verdict is mapped as the property demands. Let `pre raw` be what the
link layer decides before it consults the application layer. For a data frame that got that far:
an APDU malformed for a recognised service makes the frame a *parse* error, an unsupported
service an *unsupported* message, and a decoded service is delivered unchanged. -/
theorem ldata_apci_verdict {α} (C : Codec α) (raw : Bytes) (p : Pre) (apdu : Bytes)
    (hp : pre raw = .ok p) (ha : p.apdu = some apdu) :
    (C.decode apdu = .error .conv → LData.fromKnx C raw = .error .parse) ∧
    (C.decode apdu = .error .unsup → LData.fromKnx C raw = .error .unsupported) ∧
    (∀ a, C.decode apdu = .ok a →
      LData.fromKnx C raw = .ok ⟨p.flags, p.src, p.dstGroup, p.dst, p.tpci, some a⟩) := by
  rw [ldata_eq_stage, hp]
  simp only [stage, ha]
  refine ⟨fun h => by rw [h], fun h => by rw [h], fun a h => by rw [h]⟩

/-- Frames rejected before the application layer is consulted are rejected identically whatever
the application layer would say (so an `unsupported` verdict there is about the link layer). -/
theorem ldata_pre_error {α} (C : Codec α) (raw : Bytes) (e : Err) (hp : pre raw = .error e) :
    LData.fromKnx C raw = .error e := by
  rw [ldata_eq_stage, hp]; rfl

/-! Non-vacuity: a concrete accepted frame and a concrete truncated one. -/
example : (Frame.fromKnx (tagCodec "ok") [0x29, 0, 0xBC, 0xE0, 0x11, 0x01, 0x09, 0x01, 1, 0, 0x81]).toOption.isSome = true := by
  decide +kernel
example : Frame.fromKnx (tagCodec "ok") [0x29] = .error .parse := by decide +kernel

end XknxVerif.Props.C12
