/-
C05  Decoded application PDUs re-encode to the same octets (reserved bits aside).

Proved once for the generic field-list interpreter (`Lemmas/APCILayout.lean`,
induction over the field list) and lifted through dispatcher and table
(`Lemmas/APCICodec.lean`); instantiated here for the concrete table, whose
well-formedness is checked by kernel evaluation.  The reserved-bit mask is
*derived* from the `reserved` fields of the rows (`maskFields`); the check
compares it, frame by frame, with an independent Python-side table written
from the KNX specifications.
-/
import XknxVerif.Lemmas.APCIReencode

namespace XknxVerif.Props.C05
open XknxVerif.APCI

/-- Main theorem.  For EVERY byte string `raw`: if `APCI.from_knx(raw)` yields
an object `s` and `s.to_knx()` succeeds with `raw'`, then
* `raw'` is `raw` with exactly the reserved bits zeroed,
* it has the same length,
* it decodes to the same object `s`,
* `s.calculated_length()` is `len(raw') - 1`. -/
theorem reencode (raw raw' : Bytes) (s : Service)
    (hd : decodeAPDU raw = .ok s) (he : encodeAPDU s = some raw') :
    Bits.ofBytes raw' = clear (maskBits s raw) (Bits.ofBytes raw) ∧ raw'.length = raw.length ∧
      decodeAPDU raw' = .ok s ∧ calcLength s = some (raw'.length - 1) :=
  encodeAPDU_decodeAPDU table_wf raw raw' s hd he

/-- Corollary, bit by bit: wherever the mask is not set, the re-encoding carries
the received bit. -/
theorem nonreserved_bits_equal (raw raw' : Bytes) (s : Service)
    (hd : decodeAPDU raw = .ok s) (he : encodeAPDU s = some raw') (i : Nat)
    (hm : (maskBits s raw)[i]? = some false) :
    (Bits.ofBytes raw')[i]? = (Bits.ofBytes raw)[i]? := by
  have h := (reencode raw raw' s hd he).1
  rw [h, clear, List.getElem?_zipWith, hm]
  cases (Bits.ofBytes raw)[i]? <;> simp

/-- Corollary: reserved positions are emitted as zero. -/
theorem reserved_bits_zero (raw raw' : Bytes) (s : Service)
    (hd : decodeAPDU raw = .ok s) (he : encodeAPDU s = some raw') (i : Nat)
    (hm : (maskBits s raw)[i]? = some true) (hi : i < (Bits.ofBytes raw).length) :
    (Bits.ofBytes raw')[i]? = some false := by
  have h := (reencode raw raw' s hd he).1
  rw [h, clear, List.getElem?_zipWith, hm, List.getElem?_eq_getElem hi]
  simp

/-- The mask has the length of the APDU (it is a mask *of that frame*). -/
theorem mask_length (raw : Bytes) (s : Service) (hd : decodeAPDU raw = .ok s) :
    (maskBits s raw).length = 8 * raw.length := by
  obtain ⟨row, v, _, _, hrow, _, hv, _, _⟩ := decodeAPDU_ok hd
  simp only [maskBits, hrow, hv, maskFields_length, Bits.ofBytes_length]

/-- The six transport-layer bits of octet 0 are always masked. -/
theorem mask_transport_bits (raw : Bytes) (s : Service) (hd : decodeAPDU raw = .ok s) :
    (maskBits s raw).take 6 = List.replicate 6 true := by
  obtain ⟨row, v, _, _, hrow, _, hv, _, hvals⟩ := decodeAPDU_ok hd
  simp only [maskBits, hrow, hv]
  unfold fullFields at hvals ⊢
  simp only [decodeFields] at hvals
  split at hvals
  · rename_i used r h1
    simp only [maskFields, h1, isReserved]
    simp only [decode1] at h1
    split at h1
    · rename_i a r' hs
      obtain ⟨hb, hl⟩ := split_some hs
      simp only [Option.some.injEq, Prod.mk.injEq] at h1
      obtain ⟨_, rfl⟩ := h1
      have : (Bits.ofBytes raw).length - r'.length = 6 := by rw [hb]; simp [hl]
      rw [this, List.take_left' (by simp)]
    · cases h1
  · cases hvals

/-- When does re-encoding succeed?  For every decoded object of a row whose integer fields
all accept their full wire range - so the antecedent "whenever it can be encoded again" is
automatically met there and `reencode` applies to EVERY accepted APDU of these services. -/
theorem reencode_possible (raw : Bytes) (s : Service) (row : Row)
    (hd : decodeAPDU raw = .ok s) (hrow : table[s.row]? = some row)
    (hfull : row.variants.all (fun v => v.body.all fullRange) = true)
    (hn : (row.name == "ADCResponse") = false) : ∃ raw', encodeAPDU s = some raw' :=
  encodeAPDU_of_decodeAPDU raw s row hd hrow hfull hn

/-- The rows NOT covered by `reencode_possible`: the eight services with a documented narrower
range (`count ≤ 250`, `number` in 0/1..254), whose out-of-range frames decode but are refused by
`to_knx`, and `ADCResponse` (only because of the proof route; it always re-encodes too). -/
theorem rows_with_narrow_ranges :
    (table.filter (fun r => !(r.variants.all (fun v => v.body.all fullRange)) || r.name == "ADCResponse")).map (·.name)
      = ["MemoryExtendedWrite", "MemoryExtendedRead", "FilterTableRead", "FilterTableResponse",
         "FilterTableWrite", "RouterMemoryRead", "RouterMemoryResponse", "RouterMemoryWrite", "ADCResponse"] := by
  decide +kernel

/-- … and there the antecedent is really needed: A_MemoryExtended_Read with count 251 decodes, `to_knx` refuses. -/
example : ∃ raw s, decodeAPDU raw = .ok s ∧ encodeAPDU s = none :=
  ⟨[0x01, 0xFD, 0xFB, 0, 0, 0], ⟨16, 0, [.int 251, .int 0]⟩, by decide +kernel, by decide +kernel⟩

/-! Non-vacuity: a frame with reserved bits set round-trips with those bits cleared. -/
example : decodeAPDU [0xFF, 0xD1, 0xFF, 0, 0, 0, 1] = .ok ⟨40, 0, [.int 1]⟩ := by decide +kernel
example : encodeAPDU ⟨40, 0, [.int 1]⟩ = some [0x03, 0xD1, 0, 0, 0, 0, 1] := by decide +kernel
example : Bits.toBytes? (maskBits ⟨40, 0, [.int 1]⟩ [0xFF, 0xD1, 0xFF, 0, 0, 0, 1])
    = some [0xFC, 0, 0xFF, 0, 0, 0, 0] := by decide +kernel

end XknxVerif.Props.C05
