/-
C14  Received link frames reach exactly the right consumer, once; a send completes only after a confirmation
that arrived after the hand-over, and otherwise fails with a confirmation error at the confirmation timeout.
Property theorems only.
-/
import XknxVerif.Lemmas.CEMIHandler

namespace XknxVerif.Props.C14
open XknxVerif.CEMIHandler XknxVerif.Generated

/-! ### Routing: the decision logic stated outright, for every message code, destination kind, TPDU octet and
payload kind (all natural numbers, not only octets) -/

/-- Group-addressed data (`T_Data_Group`, plain APDU) in an L_Data.ind goes to the telegram queue - and the
outputs of that route are exactly one queue entry, nothing to management. -/
theorem group_data_to_queue_once (code tpdu0 : Nat) (zero own : Bool) (hc : codeClass code = .ind)
    (ht : TPCI.resolve tpdu0 true zero = .ok .dataGroup) :
    route code true zero own tpdu0 .plain = .queue ∧ routeOuts .queue = [.out .q] := by
  simp [route, hc, ht, isControl, routeOuts]

/-- Nothing else reaches the telegram queue. -/
theorem queue_only_group_data (code tpdu0 : Nat) (grp zero own : Bool) (pay : Pay)
    (h : route code grp zero own tpdu0 pay = .queue) :
    codeClass code = .ind ∧ pay = .plain ∧ TPCI.resolve tpdu0 grp zero = .ok .dataGroup := by
  cases hc : codeClass code <;> cases ht : TPCI.resolve tpdu0 grp zero <;>
    simp only [route, hc, ht] at h <;> (try (simp at h; done)) <;>
    (rename_i t; cases pay <;> cases hct : isControl t <;> cases hg : (t == TPCI.T.dataGroup) <;>
      cases grp <;> cases own <;> simp_all [isControl])

/-- A point-to-point frame (individual destination) that parses reaches management iff it is addressed to
this interface; otherwise it is dropped. -/
theorem point_to_point_to_management_iff_own (code tpdu0 : Nat) (zero own : Bool) (pay : Pay) (t : TPCI.T)
    (hc : codeClass code = .ind) (ht : TPCI.resolve tpdu0 false zero = .ok t) (hp : pay ≠ .secure)
    (hlen : isControl t = (pay == .none)) :
    (route code false zero own tpdu0 pay = .mgmt ↔ own = true) ∧
    (own = false → route code false zero own tpdu0 pay = .drop) := by
  have hng : (t == TPCI.T.dataGroup) = false := by
    cases t <;> simp_all [TPCI.resolve]
    all_goals (revert ht; simp [TPCI.resolve]; try (repeat' split) <;> simp)
  cases pay <;> cases own <;> cases hct : isControl t <;> simp_all [route]

/-- Management only ever sees L_Data.ind frames that are group-addressed (broadcast, tag group) or addressed to
this interface. -/
theorem management_only_broadcast_or_own (code tpdu0 : Nat) (grp zero own : Bool) (pay : Pay)
    (h : route code grp zero own tpdu0 pay = .mgmt) : codeClass code = .ind ∧ (grp = true ∨ own = true) := by
  cases hc : codeClass code <;> cases ht : TPCI.resolve tpdu0 grp zero <;>
    simp only [route, hc, ht] at h <;> (try (simp at h; done)) <;>
    (rename_i t; cases pay <;> cases hct : isControl t <;> cases hg : (t == TPCI.T.dataGroup) <;>
      cases grp <;> cases own <;> simp_all [isControl])

/-- A broadcast data frame reaches management. -/
theorem broadcast_to_management (code tpdu0 : Nat) (own : Bool) (hc : codeClass code = .ind)
    (ht : TPCI.resolve tpdu0 true true = .ok .dataBroadcast) :
    route code true true own tpdu0 .plain = .mgmt := by
  simp [route, hc, ht, isControl]

/-- Confirmation and request frames never become telegrams: whatever they carry, nothing is handed to the
telegram queue, to management or to the key-issue hook. -/
theorem con_req_never_telegrams (code tpdu0 : Nat) (grp zero own : Bool) (pay : Pay)
    (hc : codeClass code = .con ∨ codeClass code = .req) :
    routeOuts (route code grp zero own tpdu0 pay) = [] := by
  rcases hc with hc | hc <;> cases ht : TPCI.resolve tpdu0 grp zero <;> simp only [route, hc, ht, routeOuts] <;>
    (try rfl) <;> (rename_i t; cases pay <;> cases hct : isControl t <;> simp [routeOuts])

/-- Every route delivers to at most one consumer, at most once. -/
theorem at_most_one_delivery (r : Route) : (routeOuts r).length ≤ 1 := by
  cases r <;> simp [routeOuts]

/-- Tie to the declared message codes (regenerated): the three link-layer data codes and the five M_Prop codes
`CEMIFrame.from_knx` parses are classified as such, every other declared member as unsupported. -/
theorem code_table :
    codeClass CemiCodes.l_data_ind = .ind ∧ codeClass CemiCodes.l_data_req = .req ∧ codeClass CemiCodes.l_data_con = .con ∧
    (CemiCodes.members.filter fun r => codeClass r.2 != .unsupported).map (·.1) =
      ["L_DATA_REQ", "L_DATA_IND", "L_DATA_CON", "M_PROP_READ_REQ", "M_PROP_READ_CON", "M_PROP_WRITE_REQ",
       "M_PROP_WRITE_CON", "M_PROP_INFO_IND"] := by
  decide


/-! ### Send / confirm: for EVERY trace the monitor accepts - any number of concurrent senders sharing the one
event, any interleaving of received frames, hand-overs, returns and timeouts -/

/-- `send ok ⇒ a confirmation arrived after the hand-over`: when `send_telegram` of sender `n` returns normally,
an L_Data.con was received after the (last) hand-over of `n` - a confirmation that arrived before it does not
count - and the return is no later than the confirmation timeout after the hand-over finished. -/
theorem ok_only_after_confirmation_after_handover (T : Nat) (pre : List Tok) (n t : Nat) (s : S)
    (h : run? { timeout := T } (pre ++ [.res n .ok t]) = some s) :
    (seen n pre).con = true ∧ ∃ t0, (seen n pre).sentOk = some t0 ∧ t ≤ t0 + T := by
  rw [run?_snoc] at h
  cases h1 : run? { timeout := T } pre with
  | none => simp [h1] at h
  | some s1 =>
    simp only [h1, Option.bind_some] at h
    have hi := inv_run T pre s1 h1
    have hT := timeout_run T pre s1 h1
    rcases res_ok_phase s1 n t s h with hmem | ⟨si, w, hmem, _, hle⟩
    · exact ⟨hi.relCon _ hmem (.inl ⟨t, rfl⟩), t, hi.since _ hmem t (.inl rfl), by omega⟩
    · exact ⟨hi.relCon _ hmem (.inr ⟨si, w, rfl⟩), si, hi.since _ hmem si (.inr ⟨_, rfl⟩), by rw [hT] at hle; exact hle⟩

/-- `no confirmation ⇒ ConfirmationError at the timeout`: a ConfirmationError is raised exactly
REQUEST_TO_CONFIRMATION_TIMEOUT after the hand-over of that send finished. -/
theorem confirmation_error_exactly_at_timeout (T : Nat) (pre : List Tok) (n t : Nat) (s : S)
    (h : run? { timeout := T } (pre ++ [.res n .conf t]) = some s) :
    ∃ t0, (seen n pre).sentOk = some t0 ∧ t = t0 + T := by
  rw [run?_snoc] at h
  cases h1 : run? { timeout := T } pre with
  | none => simp [h1] at h
  | some s1 =>
    simp only [h1, Option.bind_some] at h
    have hi := inv_run T pre s1 h1
    have hT := timeout_run T pre s1 h1
    obtain ⟨si, w, hmem, ht⟩ := res_conf_phase s1 n t s h
    exact ⟨si, hi.since _ hmem si (.inr ⟨_, rfl⟩), by rw [hT] at ht; exact ht⟩

/-- Contrapositive, as the property states it: if no confirmation arrived after the hand-over of send `n`, its
result is not `ok`. -/
theorem no_confirmation_no_success (T : Nat) (pre : List Tok) (n t : Nat) (r : Res) (s : S)
    (h : run? { timeout := T } (pre ++ [.res n r t]) = some s) (hno : (seen n pre).con = false) : r ≠ .ok := by
  intro hr
  subst hr
  have := (ok_only_after_confirmation_after_handover T pre n t s h).1
  rw [hno] at this
  exact absurd this (by simp)

/-- The monitor runs with the declared REQUEST_TO_CONFIRMATION_TIMEOUT (regenerated each run; the theorems above hold
for every value); it is positive, so "within the timeout" is not vacuous. -/
theorem timeout_declared_positive : 0 < CemiCodes.requestToConfirmationTimeout := by decide

/-- Non-vacuity: a stale confirmation (before the hand-over) does not complete the send - the trace with `ok` is
rejected, the one ending in the ConfirmationError is accepted; a confirmation after the hand-over completes it. -/
example : (run? { timeout := 3000000 }
    [.rx 0x2E true false false 0 .plain 0, .hand 0, .sent 0 true 10, .res 0 .ok 10]).isNone = true := by decide
example : (run? { timeout := 3000000 }
    [.rx 0x2E true false false 0 .plain 0, .hand 0, .sent 0 true 10, .res 0 .conf 3000010]).isSome = true := by decide
example : (run? { timeout := 3000000 }
    [.hand 0, .rx 0x2E true false false 0 .plain 5, .sent 0 true 10, .res 0 .ok 10]).isSome = true := by decide
example : (seen 0 [.rx 0x2E true false false 0 .plain 0, .hand 0, .sent 0 true 10]).con = false := by decide

example : route 0x29 true false false 0x00 .plain = .queue := by decide
example : route 0x29 false false true 0x44 .plain = .mgmt ∧ route 0x29 false false false 0x44 .plain = .drop := by decide
example : route 0x2E true false false 0x00 .plain = .con ∧ route 0x11 false false true 0x80 .none = .reqErr := by decide

end XknxVerif.Props.C14
