/-
C33  Outgoing telegrams go out in order, one at a time, and never stall the queue.
Property theorems only; all are about EVERY trace the monitor `TelegramQueue.step?` accepts
(any number of telegrams, any interleaving of consumer and limiter, any send outcomes, raising
callbacks and devices, any rate limit and callback count).
-/
import XknxVerif.Lemmas.TelegramQueueLive
import XknxVerif.Lemmas.TelegramQueueLog
import XknxVerif.Lemmas.TelegramQueuePost

namespace XknxVerif.Props.C33
open XknxVerif.TelegramQueue XknxVerif.Monitor

/-- `tr` is accepted from the initial state (rate limit `rate`, `ncb` callbacks), ending in `s`. -/
def Accepted (rate ncb : Nat) (tr : List Obs) (s : State) : Prop :=
  run? step? (init rate ncb) tr = some s

/-- all invariants together -/
structure AllInv (s : State) : Prop where
  inv : Inv s
  wf : WF s
  kp : KP s
  tinv : TInv s
  oinv : OInv s

theorem allInv_step (s : State) (o : Obs) (s' : State) (h : AllInv s) (hs : step? s o = some s') : AllInv s' :=
  ⟨inv_step s o s' h.inv hs, wf_step s o s' h.wf hs, kp_step s o s' h.kp hs, tinv_step s o s' h.tinv hs,
   oinv_step s o s' h.kp h.oinv hs⟩

theorem allInv_accepted (rate ncb : Nat) (tr : List Obs) (s : State) (h : Accepted rate ncb tr s) : AllInv s :=
  inv_run? step? AllInv allInv_step tr (init rate ncb) s
    ⟨inv_init rate ncb, wf_init rate ncb, kp_init rate ncb, tinv_init rate ncb, oinv_init rate ncb⟩ h

/-! ## Every queued telegram is marked done exactly once; join()/stop() return -/

/-- **Accounting.**  After every accepted trace the unfinished-task counter of `xknx.telegrams` is
exactly the number of telegrams (and stop markers) still somewhere in the pipeline — waiting in
either queue or held by one of the two loops — and likewise for `outgoing_queue`.  No path loses or
double-counts a `task_done()`, whatever the send outcomes, callbacks and devices did. -/
theorem unfinished_is_pipeline_size (rate ncb : Nat) (tr : List Obs) (s : State) (h : Accepted rate ncb tr s) :
    s.mainUnf = s.mainQ.length + consHolds s.cons + s.outQ.length + limMain s.lim ∧
    s.outUnf = s.outQ.length + s.outStop.toNat + limOut s.lim :=
  ⟨(allInv_accepted rate ncb tr s h).inv.accMain, (allInv_accepted rate ncb tr s h).inv.accOut⟩

/-- **Every put is matched by exactly one task_done.**  (number of `task_done()` calls on
`xknx.telegrams` so far) + (unfinished counter) = number of puts (telegrams and stop markers). -/
theorem puts_match_task_done (rate ncb : Nat) (tr : List Obs) (s : State) (h : Accepted rate ncb tr s) :
    s.mainUnf + (tr.filter isDm).length = (tr.filter isPutLike).length := by
  have := unf_run tr (init rate ncb) s h
  simpa [init] using this

/-- `xknx.join()` returns only when every queued telegram has been marked done, and then the
pipeline is empty. -/
theorem join_means_all_done (rate ncb : Nat) (tr : List Obs) (s : State) (h : Accepted rate ncb (tr ++ [.join]) s) :
    (tr.filter isDm).length = (tr.filter isPutLike).length ∧ s.mainQ = [] ∧ s.outQ = [] ∧
    consHolds s.cons = 0 ∧ limMain s.lim = 0 := by
  obtain ⟨s1, h1, h2⟩ := run?_append_some step? h
  rw [run?_singleton] at h2
  simp only [step?] at h2
  split at h2
  · rename_i hz
    injection h2 with h2; subst h2
    have hc := puts_match_task_done rate ncb tr s1 h1
    have ha := (unfinished_is_pipeline_size rate ncb tr s1 h1).1
    rw [hz] at hc ha
    refine ⟨by omega, ?_, ?_, by omega, by omega⟩
    · exact List.eq_nil_of_length_eq_zero (by omega)
    · exact List.eq_nil_of_length_eq_zero (by omega)
  · simp at h2

theorem consNext_internal (s : State) (o : Obs) (h : consNext s = some o) : isInternal o = true := by
  unfold consNext at h
  repeat' split at h
  all_goals (first | (simp at h; done) | (injection h with h; subst h; rfl))

theorem limNext_internal (s : State) (o : Obs) (h : limNext s = some o) : isInternal o = true := by
  unfold limNext at h
  repeat' split at h
  all_goals (first | (simp at h; done) | (injection h with h; subst h; rfl))

/-- **The queue never stalls.**  After every accepted trace: if some queued telegram (or the stop
marker) is not yet marked done and the consumer loop has not been stopped, then the consumer or the
limiter can make a move (an internal observation is enabled) — there is no reachable state in which
work is pending and both loops are stuck.  For a telegram being sent the enabled move is the end of
`send_telegram`, with ANY outcome (next theorem). -/
theorem no_stall (rate ncb : Nat) (tr : List Obs) (s : State) (h : Accepted rate ncb tr s)
    (hp : 0 < s.mainUnf) (hf : s.cons ≠ .finished) :
    ∃ o, isInternal o = true ∧ (step? s o).isSome = true := by
  have hi := allInv_accepted rate ncb tr s h
  obtain ⟨o, ho, he⟩ := no_stall_state s hi.inv hi.wf hp hf
  rcases ho with ho | ho
  · exact ⟨o, consNext_internal s o ho, he⟩
  · exact ⟨o, limNext_internal s o ho, he⟩

/-- **Under every assignment of send outcomes.**  Whenever a telegram is in `send_telegram`, the
end of the send is accepted with every outcome class (ok — once the interface was reached —,
CommunicationError, other XKNXException, any other Exception), and each leads on to the two
`task_done()` calls. -/
theorem every_send_outcome_handled (s : State) (t : Tg) (tx : Bool) (hl : s.lim = .sending t tx) (o : Outcome)
    (hok : o = .ok → tx = true) :
    ∃ s', step? s (.se t.k o) = some s' ∧
      (o ≠ .ok → s'.lim = .closing t true true) := by
  refine ⟨{ s with lim := if o = .ok then settlePost t t.dev (cbList s.ncb) else .closing t true true }, ?_, ?_⟩
  · simp only [step?, hl]; rw [if_pos ⟨trivial, hok⟩]
  · intro hne; simp [hne]

/-- A rate-limited telegram can reach the interface as soon as one period has passed since the
previous one (and immediately if there was none or no limit). -/
theorem send_starts_after_period (s : State) (t : Tg) (hl : s.lim = .sending t false)
    (hr : s.rate = 0 ∨ ∀ l, s.lastTx = some l → l ≤ s.now ∧ usPerSec ≤ (s.now - l) * s.rate) :
    (step? s (.tx t.k)).isSome = true :=
  tx_enabled_after_period s t hl hr

/-- Observations that are neither new input nor loop moves. -/
def isNeutral : Obs → Bool
  | .adv _ | .join | .stopped => true
  | _ => false

theorem neutral_measure {s s' : State} {o : Obs} (h : step? s o = some s') (hn : isNeutral o = true) :
    measure s' = measure s := by
  cases o <;> simp [isNeutral] at hn <;> simp only [step?] at h <;> split at h <;>
    (first | (simp at h; done) | (injection h with h; subst h; rfl))

/-- **Termination.**  Without new input (no `put`, no `stop`) the two loops can make at most
`measure s` further moves: together with `no_stall` this means the pipeline drains — every queued
telegram is eventually marked done, so `join()` and `stop()` return. -/
theorem moves_bounded_without_input :
    ∀ (b : List Obs) (s s' : State), (∀ e ∈ b, isInternal e = true ∨ isNeutral e = true) →
      run? step? s b = some s' → (b.filter isInternal).length + measure s' ≤ measure s := by
  intro b
  induction b with
  | nil => intro s s' _ h; simp at h; subst h; simp
  | cons o b ih =>
    intro s s' hall h
    rw [run?_cons] at h
    cases ho : step? s o with
    | none => simp [ho] at h
    | some s1 =>
      simp only [ho, Option.bind_some] at h
      have ih' := ih s1 s' (fun e he => hall e (by simp [he])) h
      rcases hall o (by simp) with hi | hn
      · have := measure_decreases s s1 o ho hi
        simp only [List.filter_cons, hi, ↓reduceIte, List.length_cons]; omega
      · have := neutral_measure ho hn
        have hni : isInternal o = false := by cases o <;> simp_all [isNeutral, isInternal]
        simp only [List.filter_cons, hni]; simp; omega

/-- When nothing can move any more (and the consumer was not stopped), nothing is pending. -/
theorem quiescent_means_done (rate ncb : Nat) (tr : List Obs) (s : State) (h : Accepted rate ncb tr s)
    (hq : ∀ o, isInternal o = true → step? s o = none) (hf : s.cons ≠ .finished) : s.mainUnf = 0 := by
  cases hm : s.mainUnf with
  | zero => rfl
  | succ n =>
    obtain ⟨o, hi, he⟩ := no_stall rate ncb tr s h (by omega) hf
    rw [hq o hi] at he; simp at he

/-! ## Order, one at a time, spacing -/

/-- the (telegram, time) pairs of the `tx` observations of a trace, threading the virtual clock -/
def txTrace : Nat → List Obs → List (Nat × Nat)
  | _, [] => []
  | _, .adv t :: r => txTrace t r
  | now, .tx k :: r => (k, now) :: txTrace now r
  | now, _ :: r => txTrace now r

theorem now_step {s s' : State} {o : Obs} (h : step? s o = some s') :
    s'.now = (match o with | .adv t => t | _ => s.now) := by
  cases o <;> simp only [step?] at h <;> (repeat' split at h) <;>
    (first | (simp at h; done) | (injection h with h; subst h; rfl))

theorem txLog_run : ∀ (tr : List Obs) (s s' : State), run? step? s tr = some s' →
    s'.txLog = s.txLog ++ txTrace s.now tr := by
  intro tr
  induction tr with
  | nil => intro s s' h; simp at h; subst h; simp [txTrace]
  | cons o tr ih =>
    intro s s' h
    rw [run?_cons] at h
    cases ho : step? s o with
    | none => simp [ho] at h
    | some s1 =>
      simp only [ho, Option.bind_some] at h
      have h1 := ih s1 s' h
      have h2 := (logs_step ho).1
      have h3 := now_step ho
      rw [h1, h2]
      cases o <;> simp_all [txOf, txTrace]

/-- The ghost log of the monitor is exactly the `tx` observations of the trace with their times. -/
theorem txLog_is_trace (rate ncb : Nat) (tr : List Obs) (s : State) (h : Accepted rate ncb tr s) :
    s.txLog = txTrace 0 tr := by
  have := txLog_run tr (init rate ncb) s h
  simpa [init] using this

/-- the telegrams queued by a trace -/
def putTrace (tr : List Obs) : List Tg := tr.flatMap putOf

theorem puts_run : ∀ (tr : List Obs) (s s' : State), run? step? s tr = some s' →
    s'.puts = s.puts ++ putTrace tr := by
  intro tr
  induction tr with
  | nil => intro s s' h; simp at h; subst h; simp [putTrace]
  | cons o tr ih =>
    intro s s' h
    rw [run?_cons] at h
    cases ho : step? s o with
    | none => simp [ho] at h
    | some s1 =>
      simp only [ho, Option.bind_some] at h
      rw [ih s1 s' h, (logs_step ho).2.1]
      simp [putTrace, List.flatMap_cons]

/-- **In queueing order.**  The telegrams handed to the interface, in the order of their `tx`
observations, form a subsequence of the outgoing group-addressed telegrams in the order they were
queued (no reordering, no duplicates, nothing that was not queued as such). -/
theorem tx_in_put_order (rate ncb : Nat) (tr : List Obs) (s : State) (h : Accepted rate ncb tr s) :
    ((txTrace 0 tr).map Prod.fst).Sublist (qOut (putTrace tr)) := by
  have hi := allInv_accepted rate ncb tr s h
  obtain ⟨h0, hh, hsub⟩ := hi.oinv.tx
  have hp := puts_run tr (init rate ncb) s h
  simp only [init, List.nil_append] at hp
  rw [← txLog_is_trace rate ncb tr s h, ← hp, hi.oinv.order, hh]
  refine List.Sublist.trans hsub ?_
  simp only [List.append_assoc]
  exact List.sublist_append_left _ _

/-- … and once everything is marked done, every outgoing group-addressed telegram has been handed
to the send path, in queueing order (`handled` = all of them). -/
theorem all_outgoing_handled_when_done (rate ncb : Nat) (tr : List Obs) (s : State)
    (h : Accepted rate ncb tr s) (hz : s.mainUnf = 0) : s.handled = qOut (putTrace tr) := by
  have hi := allInv_accepted rate ncb tr s h
  have ha := hi.inv.accMain
  rw [hz] at ha
  have hm : s.mainQ = [] := List.eq_nil_of_length_eq_zero (by omega)
  have hq : s.outQ = [] := List.eq_nil_of_length_eq_zero (by omega)
  have hch : consHolds s.cons = 0 := by omega
  have hc : consOut s.cons = [] := by
    cases hcs : s.cons with
    | hold t => rw [hcs] at hch; simp at hch
    | _ => rfl
  have hp := puts_run tr (init rate ncb) s h
  simp only [init, List.nil_append] at hp
  rw [← hp, hi.oinv.order, hm, hq, hc]
  simp [qOut, mainOut]

/-- **One at a time.**  Between two hand-overs to the interface the first `send_telegram` has
ended: sends never overlap. -/
theorem tx_never_overlap (rate ncb : Nat) (a b : List Obs) (k k' : Nat) (s : State)
    (h : Accepted rate ncb (a ++ [.tx k] ++ b ++ [.tx k']) s) : ∃ oc, .se k oc ∈ b := by
  apply Classical.byContradiction
  intro hnot
  obtain ⟨s3, h3, h4⟩ := run?_append_some step? h
  obtain ⟨s2, h2, h3'⟩ := run?_append_some step? h3
  obtain ⟨s1, _, h2'⟩ := run?_append_some step? h2
  rw [run?_singleton] at h2' h4
  have hw2 : Sending k s2 := by
    simp only [step?] at h2'
    split at h2'
    · rename_i t hl
      split at h2'
      · rename_i hcond
        injection h2' with h2'; subst h2'
        exact ⟨t, rfl, hcond.1.symm⟩
      · simp at h2'
    · simp at h2'
  have hw3 : Sending k s3 :=
    until_run? step? (Sending k) (fun o => ∀ oc, o ≠ .se k oc)
      (fun s o s' hw hne hs => sending_step k s o s' hw hne hs) b s2 s3 hw2
      (fun e he oc heq => hnot ⟨oc, heq ▸ he⟩) h3'
  obtain ⟨t, hl, _⟩ := hw3
  simp [step?, hl] at h4

/-- **Rate limit.**  Consecutive hand-overs to the interface are at least `1/rate` seconds apart
(`(t₂ − t₁)·rate ≥ 10⁶ µs`), for every accepted trace. -/
theorem tx_spacing (rate ncb : Nat) (tr : List Obs) (s : State) (h : Accepted rate ncb tr s) :
    SpacedLog rate (txTrace 0 tr) := by
  have hi := allInv_accepted rate ncb tr s h
  have hr : s.rate = rate := by
    have : ∀ (tr : List Obs) (s0 s1 : State), run? step? s0 tr = some s1 → s1.rate = s0.rate := by
      intro tr
      induction tr with
      | nil => intro s0 s1 h; simp at h; subst h; rfl
      | cons o tr ih =>
        intro s0 s1 h
        rw [run?_cons] at h
        cases ho : step? s0 o with
        | none => simp [ho] at h
        | some s2 =>
          simp only [ho, Option.bind_some] at h
          rw [ih s2 s1 h, (logs_step ho).2.2.1]
    exact this tr (init rate ncb) s h
  rw [← txLog_is_trace rate ncb tr s h, ← hr]
  exact hi.tinv.spaced

/-! ## Internal addresses -/

/-- **Only outgoing group-addressed telegrams reach the interface.**  Every `tx k` of an accepted
trace is for a telegram that was queued (as number `k`) as outgoing to a group address — never an
incoming one, never one to an internal address. -/
theorem tx_only_outgoing_group (rate ncb : Nat) (tr : List Obs) (k : Nat) (s : State)
    (h : Accepted rate ncb (tr ++ [.tx k]) s) : ∃ dev, Obs.put k .out dev ∈ tr := by
  obtain ⟨s1, h1, h2⟩ := run?_append_some step? h
  rw [run?_singleton] at h2
  have hi := allInv_accepted rate ncb tr s1 h1
  simp only [step?] at h2
  split at h2
  · rename_i t hl
    split at h2
    · rename_i hcond
      have hk := hi.kp.sending_kind t false hl
      have hp := hi.kp.sending_put t false hl
      have hpr := puts_run tr (init rate ncb) s1 h1
      simp only [init, List.nil_append] at hpr
      rw [hpr] at hp
      simp only [putTrace, List.mem_flatMap] at hp
      obtain ⟨o, ho, hto⟩ := hp
      cases o <;> simp [putOf] at hto
      rename_i k0 kind0 dev0
      refine ⟨dev0, ?_⟩
      subst hto
      simp only at hk hcond
      rw [hcond.1, ← hk]
      exact ho
    · simp at h2
  · simp at h2

/-- Telegrams to internal addresses skip the send path entirely: the limiter takes them straight
to device/callback processing (or to the two `task_done()` calls when there is nothing to do). -/
theorem internal_skips_interface (s : State) (t : Tg) (rest : List Tg) (s' : State)
    (hl : s.lim = .idle) (hq : s.outQ = t :: rest) (hk : t.kind = .int)
    (h : step? s (.go (some t.k)) = some s') :
    s'.lim = settlePost t t.dev (cbList s.ncb) ∧ s'.handled = s.handled ∧ s'.txLog = s.txLog := by
  simp only [step?, hl, hq, hk, ↓reduceIte] at h
  injection h with h; subst h
  exact ⟨rfl, rfl, rfl⟩

theorem ncb_run : ∀ (tr : List Obs) (s0 s1 : State), run? step? s0 tr = some s1 → s1.ncb = s0.ncb := by
  intro tr
  induction tr with
  | nil => intro s0 s1 h; simp at h; subst h; rfl
  | cons o tr ih =>
    intro s0 s1 h
    rw [run?_cons] at h
    cases ho : step? s0 o with
    | none => simp [ho] at h
    | some s2 =>
      simp only [ho, Option.bind_some] at h
      rw [ih s2 s1 h, (logs_step ho).2.2.2]

/-- **… but are still processed by devices and callbacks.**  From the moment the limiter takes an
internal-address telegram `t` (`go`) until it has left its processing (in particular before either
`task_done()` for it is accepted, see `post_blocks_task_done`): the device listening on the address
(if any) was reached, and — unless that device raised — every one of the `ncb` callbacks was invoked
with the telegram.  (`b` arbitrary: the consumer may do anything meanwhile.) -/
theorem internal_is_processed (rate ncb : Nat) (a b : List Obs) (t : Tg) (rest : List Tg) (s1 s3 : State)
    (ha : Accepted rate ncb a s1) (hl : s1.lim = .idle) (hq : s1.outQ = t :: rest) (hk : t.kind = .int)
    (h : run? step? s1 ([.go (some t.k)] ++ b) = some s3) (hfin : ∀ p c, s3.lim ≠ .post t p c) :
    (t.dev = true → ∃ e, Obs.proc t.k e ∈ b) ∧
    ((∀ e, Obs.proc t.k e ∈ b → e = false) → ∀ j, j < ncb → Obs.cb t.k j ∈ b) := by
  obtain ⟨s2, h2, h3⟩ := run?_append_some step? h
  rw [run?_singleton] at h2
  have hn : s1.ncb = ncb := by
    have := ncb_run a (init rate ncb) s1 ha
    simpa [init] using this
  have hl2 := (internal_skips_interface s1 t rest s2 hl hq hk h2).1
  rw [hn] at hl2
  unfold settlePost at hl2
  split at hl2
  · rename_i hc
    simp only [Bool.and_eq_true, Bool.not_eq_true', List.isEmpty_iff] at hc
    refine ⟨fun hd => by rw [hc.1] at hd; simp at hd, fun _ j hj => ?_⟩
    have : j ∈ cbList ncb := by simp [cbList, hj]
    rw [hc.2] at this; simp at this
  · have := post_completes t b s2 s3 t.dev (cbList ncb) hl2 h3 hfin
    exact ⟨this.1, fun hall j hj => this.2 hall j (by simp [cbList, hj])⟩

/-- While the device or a callback of the telegram in the limiter is still to be run, neither
`task_done()` nor `stopped` is accepted. -/
theorem post_blocks_task_done (s : State) (t : Tg) (p : Bool) (cbs : List Nat)
    (hl : s.lim = .post t p cbs) : step? s .dml = none ∧ step? s .dol = none ∧ step? s .stopped = none := by
  simp [step?, hl]

/-! ## Non-vacuity: traces recorded from the real TelegramQueue -/

def ex1 : List Obs :=
  [.put 0 .out true, .put 1 .int true, .put 2 .inc true, .put 3 .out false, .put 4 .out true,
   .gm (some 0), .mv (some 0), .gm (some 1), .mv (some 1), .gm (some 2), .cb 2 0, .cb 2 1, .proc 2 false, .dmc,
   .gm (some 3), .mv (some 3), .gm (some 4), .mv (some 4), .go (some 0), .tx 0, .adv 1000, .se 0 .ok, .proc 0 true,
   .dol, .dml, .go (some 1), .proc 1 true, .dol, .dml, .go (some 3), .adv 50000, .tx 3, .adv 3050000, .se 3 .comm,
   .dol, .dml, .go (some 4), .tx 4, .se 4 .ok, .proc 4 false, .cb 4 0, .cb 4 1, .dol, .dml, .join, .stop,
   .gm none, .mv none, .go none, .dol, .dmc, .stopped]

example : accepts 20 2 ex1 = true := by decide
example : txTrace 0 ex1 = [(0, 0), (3, 50000), (4, 3050000)] := by decide
/-- a send that starts too early for the rate limit is rejected -/
example : accepts 20 0 [.put 0 .out false, .put 1 .out false, .gm (some 0), .mv (some 0), .gm (some 1), .mv (some 1),
    .go (some 0), .tx 0, .se 0 .ok, .dol, .dml, .go (some 1), .adv 49999, .tx 1] = false := by decide
/-- a missing task_done is rejected when the next telegram is taken; join is rejected while work is pending -/
example : accepts 0 0 [.put 0 .out false, .put 1 .out false, .gm (some 0), .mv (some 0), .gm (some 1), .mv (some 1),
    .go (some 0), .tx 0, .se 0 .exc, .dol, .go (some 1)] = false := by decide
example : accepts 0 0 [.put 0 .inc false, .gm (some 0), .join] = false := by decide
/-- an internal telegram handed to the interface is rejected; so are overlapping sends and reordering -/
example : accepts 0 0 [.put 0 .int false, .gm (some 0), .mv (some 0), .go (some 0), .tx 0] = false := by decide
example : accepts 0 0 [.put 0 .out false, .put 1 .out false, .gm (some 0), .mv (some 0), .gm (some 1), .mv (some 1),
    .go (some 0), .tx 0, .tx 1] = false := by decide
example : accepts 0 0 [.put 0 .out false, .put 1 .out false, .gm (some 0), .mv (some 0), .gm (some 1), .mv (some 1),
    .go (some 1)] = false := by decide

end XknxVerif.Props.C33
