/-
C42  Timed resets and press counters behave as configured.

Every theorem is about EVERY trace the monitor `BinaryTimers.step?` accepts (any length, any
configuration, any time stamps); the implementation's traces are checked for acceptance on every run.
`lastOnTime tr` is the time of the last 'on' telegram (GroupValueWrite/Response with value on, or
`set_on()`) in the observed trace — telegrams the device must ignore (`ig`: undecodable payload, GroupValueRead)
do not count, and the theorems hold with any number of them anywhere in the trace —, `outsOf tr` the outputs observed, `writesOf tr` the write
telegrams (most recent first).
-/
import XknxVerif.Lemmas.BinaryTimers

namespace XknxVerif.Props.C42
open XknxVerif.BinaryTimers XknxVerif.TraceRun

/-- Accepted trace ending in state `s`. -/
def Accepts (c : Cfg) (tr : List Obs) (s : St) : Prop := run? (step? c) init tr = some s

/-- (R1) Whenever the reset timer runs it is due exactly `reset_after` after the LAST 'on' telegram
— every later 'on' telegram has restarted it. -/
theorem reset_deadline {c : Cfg} {tr : List Obs} {s : St} (h : Accepts c tr s) (d : Nat)
    (hd : s.resetAt = some d) : ∃ l r, lastOnTime tr = some l ∧ c.reset = some r ∧ d = l + r := by
  have hi := HInv_run c tr s h
  obtain ⟨_, l, r, hl, hr, rfl⟩ := hi.rinv.at_.arm d hd
  exact ⟨l, r, by rw [← hi.armed (by simp [hd])]; exact hl, hr, rfl⟩

/-- (R2) With a reset time configured the device is never 'on' later than `reset_after` after the last
'on' telegram … -/
theorem on_only_before_deadline {c : Cfg} {tr : List Obs} {s : St} (h : Accepts c tr s) (r : Nat)
    (hr : c.reset = some r) (hon : s.st = some true) : ∃ l, lastOnTime tr = some l ∧ s.now ≤ l + r := by
  have hi := HInv_run c tr s h
  have hsome := hi.rinv.at_.onArmed r hr hon
  cases hd : s.resetAt with
  | none => simp [hd] at hsome
  | some d =>
    obtain ⟨l, r', hl, hr', rfl⟩ := reset_deadline h d hd
    rw [hr] at hr'; cases hr'
    exact ⟨l, hl, (hi.rinv.at_.arm _ hd).1⟩

/-- (R2') … and a state sample that shows 'on' was taken strictly before that deadline: at the deadline
itself the device already reports 'off'. -/
theorem sampled_on_strictly_before_deadline {c : Cfg} {tr : List Obs} {s : St} {n t r : Nat}
    (h : Accepts c (tr ++ [.q (some true) n t]) s) (hr : c.reset = some r) :
    ∃ l, lastOnTime tr = some l ∧ t < l + r := by
  obtain ⟨s0, h0, hstep⟩ := run?_snoc_some (step? c) h
  have hi := HInv_run c tr s0 h0
  obtain ⟨hnow, hc⟩ := step_cases hstep
  cases hc with
  | consume x ho _ _ _ _ => cases ho
  | fire x s1 ho _ _ _ => cases ho
  | input s1 r0 _ _ hr0 _ => simp [inputReaction] at hr0
  | sample s1 he ha hq hs =>
    simp only [sampleOk, Option.some.injEq, Bool.and_eq_true, beq_iff_eq] at hq
    have h1 := advance_RInvAt hi.rinv.at_ hnow ha
    have hsome := h1.onArmed r hr hq.1
    cases hd : s1.resetAt with
    | none => simp [hd] at hsome
    | some d =>
      have hlt := (due_false ((advance_spec ha).2.1 d hd)).2 rfl
      obtain ⟨_, l, r', hl, hr', rfl⟩ := h1.arm d hd
      rw [hr] at hr'; cases hr'
      have hres : s0.resetAt = some (l + r) := by
        rcases advance_reset ha with h' | h'
        · rw [← h', hd]
        · rw [h'] at hd; cases hd
      refine ⟨l, ?_, hlt⟩
      rw [← hi.armed (by simp [hres]), ← (advance_frame ha).2.2.2]
      exact hl

/-- (R3) No early reset: after an 'on' telegram left the device on, it stays on through every accepted
continuation that contains no 'off' telegram and whose observations are all earlier than
`last on + reset_after` (further 'on' telegrams are allowed). -/
theorem stays_on_until_deadline {c : Cfg} {pre mid : List Obs} {s1 s2 : St} {l r : Nat}
    (hpre : Accepts c pre s1) (hon : s1.st = some true) (hr : c.reset = some r)
    (hl : lastOnTime pre = some l) (hmid : run? (step? c) s1 mid = some s2)
    (hok : ∀ o ∈ mid, isOffInput o = false ∧ o.time < l + r) : s2.st = some true := by
  have hi := HInv_run c pre s1 hpre
  -- P: on, armed with a deadline not before `l + r`, and `l` not in the future
  let P : St → Prop := fun s => s.st = some true ∧ (∃ d, s.resetAt = some d ∧ l + r ≤ d) ∧ l ≤ s.now
  have hP1 : P s1 := by
    have hsome := hi.rinv.at_.onArmed r hr hon
    cases hd : s1.resetAt with
    | none => simp [hd] at hsome
    | some d =>
      obtain ⟨_, l', r', hlo, hr', hd'⟩ := hi.rinv.at_.arm d hd
      rw [hr] at hr'; cases hr'
      have hl' : s1.lastOn = lastOnTime pre := hi.armed (by simp [hd])
      rw [hlo, hl] at hl'; cases hl'
      exact ⟨hon, ⟨d, hd, by omega⟩, hi.rinv.at_.lastOnLe l hlo⟩
  have := until_run? (step? c) (RInv c) P (fun o => isOffInput o = false ∧ o.time < l + r)
    (step_RInv c) ?_ mid s1 s2 hi.rinv hP1 hok hmid
  · exact this.1
  · intro s e s' hinv hp hoke hs
    obtain ⟨hst, ⟨d, hd, hdl⟩, hln⟩ := hp
    obtain ⟨hnow, hc⟩ := step_cases hs
    -- time does not reach the deadline, so `advance` does nothing
    have hadv : ∀ {s1 incl}, advance c s e.time incl = some s1 → s1 = s := by
      intro s1 incl ha
      rcases (advance_spec ha).1 with h' | ⟨r', hr', hdue, _, _, _⟩
      · exact h'
      · rw [hd] at hr'; cases hr'
        unfold due at hdue
        cases incl <;> simp at hdue <;> omega
    cases hc with
    | consume x ho hne ht hmem hs => subst hs; exact ⟨hst, ⟨d, hd, hdl⟩, hln⟩
    | fire x s1 ho he ha hf =>
      subst ho
      have := hadv ha; subst this
      rcases fireAt_cases hf with ⟨h1, _, _⟩ | ⟨_, _, rfl⟩
      · rw [hd] at h1; cases h1
        simp only [Obs.time] at hoke; omega
      · have hp := fireCtx_frame c s1 x.time
        refine ⟨hp.2.2.1.trans hst, ⟨d, hp.1.trans hd, hdl⟩, ?_⟩
        show l ≤ x.time
        simp only [Obs.time] at hnow; omega
    | input s1 r0 he ha hr0 hs =>
      subst hs
      have := hadv ha; subst this
      by_cases hig : ∃ t, e = Obs.ig t
      · -- an ignored telegram changes nothing
        obtain ⟨t0, rfl⟩ := hig
        have hr' := inputReaction_ig hr0
        subst hr'
        exact ⟨hst, ⟨d, hd, hdl⟩, by simp only [react]; omega⟩
      have hnig : ∀ t, e ≠ Obs.ig t := fun t h => hig ⟨t, h⟩
      have hon' : ∃ t, onInputTime e = some t := by
        obtain ⟨v, t, _, hc'⟩ := inputReaction_cases hr0 hnig
        have hoff := hoke.1
        rcases hc' with ⟨_, ho, _⟩ | ⟨_, ho, _⟩ | ⟨_, ho, _⟩ | ⟨_, ho, _⟩
        · rcases ho with rfl | rfl <;> cases v <;> simp [isOffInput, onInputTime] at hoff ⊢
        all_goals (subst ho; cases v <;> simp [isOffInput, onInputTime] at hoff ⊢)
      obtain ⟨t, ht⟩ := hon'
      obtain ⟨h1, h2⟩ := inputReaction_on hr0 ht hr hst
      refine ⟨h1, ⟨_, h2, ?_⟩, ?_⟩
      · omega
      · simp only [react]; omega
    | sample s1 he ha hq hs =>
      subst hs
      have := hadv ha; subst this
      exact ⟨hst, ⟨d, hd, hdl⟩, by simp only; omega⟩

/-- (R4) Switch: an 'off' group write that is not the answer to a `set_off()` call (nothing was expected
when it appeared) goes out at exactly `last on + reset_after`. -/
theorem switch_timer_write_time {c : Cfg} {pre : List Obs} {s0 s : St} {t : Nat} (hsw : c.switch = true)
    (hpre : Accepts c pre s0) (hexp : s0.expect = []) (hstep : step? c s0 (.out (.bw false t)) = some s) :
    ∃ l r, lastOnTime pre = some l ∧ c.reset = some r ∧ t = l + r := by
  obtain ⟨_, hc⟩ := step_cases hstep
  cases hc with
  | consume x ho hne _ _ _ => exact absurd hexp hne
  | fire x s1 ho he ha hf =>
    cases ho
    rcases fireAt_cases hf with ⟨h1, _, _⟩ | ⟨_, hm, _⟩
    · simp only [Out.time] at h1 ha
      have : s0.resetAt = some t := by
        rcases advance_reset ha with h' | h'
        · rw [← h', h1]
        · rw [h'] at h1; cases h1
      exact reset_deadline hpre t this
    · simp [fireCtx] at hm
  | input s1 r0 _ _ hr0 _ => simp [inputReaction] at hr0
  | sample s1 _ _ hq _ => simp [sampleOk] at hq

/-- (R5) Switch, bounded liveness as a safety statement: once the clock of an accepted trace has passed
`last on + reset_after` and nothing is pending, the trace contains the 'off' group write at exactly
that time. -/
theorem switch_off_write_happens {c : Cfg} {tr : List Obs} {s : St} {l r : Nat} (hsw : c.switch = true)
    (h : Accepts c tr s) (hr : c.reset = some r) (hl : lastOnTime tr = some l)
    (hexp : s.expect = []) (hlate : l + r < s.now) : Out.bw false (l + r) ∈ outsOf tr := by
  have hi := HInv_run c tr s h
  have hk := KInv_run c tr s h
  have hlo : s.lastOn = some l := by rw [hi.sw hsw (by simp [hr])]; exact hl
  rcases hk hsw l r hlo hr with hd | hm
  · have := (hi.rinv.at_.arm _ hd).1
    omega
  · rw [hexp, hi.log] at hm
    simpa using hm

/-- (R5') … in particular when the observation ends (quiescent) at or after the deadline. -/
theorem switch_off_write_by_end {c : Cfg} {tr : List Obs} {s : St} {l r t : Nat} (hsw : c.switch = true)
    (h : Accepts c (tr ++ [.fin t]) s) (hr : c.reset = some r) (hl : lastOnTime tr = some l)
    (hlate : l + r ≤ t) : Out.bw false (l + r) ∈ outsOf tr := by
  have hi := HInv_run c _ s h
  have hk := KInv_run c _ s h
  have hl' : lastOnTime (tr ++ [.fin t]) = some l := by rw [lastOnTime_snoc]; exact hl
  have hlo : s.lastOn = some l := by rw [hi.sw hsw (by simp [hr])]; exact hl'
  obtain ⟨s0, _, hstep⟩ := run?_snoc_some (step? c) h
  obtain ⟨_, hc⟩ := step_cases hstep
  cases hc with
  | consume x ho _ _ _ _ => cases ho
  | fire x s1 ho _ _ _ => cases ho
  | input s1 r0 _ _ hr0 _ => simp [inputReaction] at hr0
  | sample s1 he ha hq hs =>
    have hfr := advance_frame ha
    have hexp : s.expect = [] := by subst hs; simp [hfr.2.1, he]
    rcases hk hsw l r hlo hr with hd | hm
    · subst hs
      simp only at hd
      have := (due_false ((advance_spec ha).2.1 _ hd)).2 rfl
      simp only [Obs.time] at this
      omega
    · rw [hexp, hi.log, outsOf_snoc] at hm
      simpa using hm

/-- (C1) The counters of the binary sensor are the reference burst counts of the counted events while
the context window is open, and zero once it has closed. -/
theorem counter_is_burst_count {c : Cfg} {tr : List Obs} {s : St} (h : Accepts c tr s) :
    (s.ctxAt.isSome = true →
      s.cOn = burstCount c.ctx true s.hist ∧ s.cOff = burstCount c.ctx false s.hist) ∧
    (s.ctxAt = none → s.cOn = 0 ∧ s.cOff = 0) := by
  have hc := CInv_run c tr s h
  exact ⟨hc.open_, fun hn => ⟨(hc.closed hn).1, (hc.closed hn).2.1⟩⟩

/-- (C2) For a sensor with a context timeout and no reset time, fed with GroupValueWrite telegrams only,
the counted events are exactly the telegrams. -/
theorem counted_events_are_the_telegrams {c : Cfg} (hsw : c.switch = false) (hctx : c.ctx ≠ 0)
    (hres : c.reset = none) :
    ∀ (tr : List Obs) (s : St), Accepts c tr s → (∀ o ∈ tr, ∀ v t, o ≠ .tr v t) →
      s.hist = writesOf tr ∧ s.resetAt = none := by
  intro tr s h
  have := inv_hist_run? (step? c)
    (fun h s => RInv c s ∧ ((∀ o ∈ h, ∀ v t, o ≠ Obs.tr v t) → s.hist = writesOf h ∧ s.resetAt = none))
    ?_ tr [] init s ⟨RInv_init c, fun _ => by simp [init, writesOf]⟩ h
  · simpa using this.2
  · intro hh s e s' hi hs
    refine ⟨step_RInv c s e s' hi.1 hs, ?_⟩
    intro hno
    obtain ⟨hhist, hnone⟩ := hi.2 (fun o ho => hno o (List.mem_append_left _ ho))
    have he : ∀ v t, e ≠ Obs.tr v t := hno e (by simp)
    obtain ⟨hnow, hc⟩ := step_cases hs
    have hadv : ∀ {s1 incl}, advance c s e.time incl = some s1 → s1 = s := by
      intro s1 incl ha
      rcases (advance_spec ha).1 with h' | ⟨r', hr', _⟩
      · exact h'
      · rw [hnone] at hr'; cases hr'
    have hw : ∀ x, writesOf (hh ++ [Obs.out x]) = writesOf hh := by intro x; simp [writesOf]
    cases hc with
    | consume x ho hne ht hmem hs => subst hs; subst ho; exact ⟨by rw [hw]; exact hhist, hnone⟩
    | fire x s1 ho he' ha hf =>
      subst ho
      have := hadv ha; subst this
      rcases fireAt_cases hf with ⟨h1, _, _⟩ | ⟨_, _, rfl⟩
      · rw [hnone] at h1; cases h1
      · exact ⟨by rw [hw]; simpa [fireCtx] using hhist, by simpa [fireCtx] using hnone⟩
    | input s1 r0 he' ha hr0 hs =>
      subst hs
      have := hadv ha; subst this
      by_cases hig : ∃ t, e = Obs.ig t
      · obtain ⟨t0, rfl⟩ := hig
        have hr' := inputReaction_ig hr0
        subst hr'
        have hw' : writesOf (hh ++ [Obs.ig t0]) = writesOf hh := by simp [writesOf]
        exact ⟨by rw [hw']; exact hhist, hnone⟩
      have hnig : ∀ t, e ≠ Obs.ig t := fun t h => hig ⟨t, h⟩
      obtain ⟨v, t, _, hc'⟩ := inputReaction_cases hr0 hnig
      rcases hc' with ⟨h', _, _⟩ | ⟨h', _, _⟩ | ⟨_, ho, rfl⟩ | ⟨_, ho, _⟩
      · rw [hsw] at h'; cases h'
      · rw [hsw] at h'; cases h'
      · subst ho
        have := setInternal_counted c { s1 with rv := some v, lastWrite := true } v t hctx rfl
        unfold sensorWrite
        simp only [react]
        have hf := armReset_frame c (setInternal c { s1 with rv := some v, lastWrite := true } v t).1 t
        refine ⟨?_, ?_⟩
        · rw [hf.2.2.2.2.2.2.1, this.1, hhist]
          simp [writesOf]
        · unfold armReset
          simp only [hres]
          rw [this.2]; exact hnone
      · exact absurd ho (he v t)
    | sample s1 he' ha hq hs =>
      subst hs
      have := hadv ha; subst this
      have hw' : writesOf (hh ++ [e]) = writesOf hh := by
        cases e <;> simp [sampleOk] at hq <;> simp [writesOf]
      exact ⟨by rw [hw']; exact hhist, hnone⟩

/-- (C1+C2) The property's counter clause in its pure form: sensor with context timeout, no reset time,
write telegrams only.  While the window is open the 'on' ('off') counter is the number of 'on' ('off')
telegrams of the current burst — the maximal run of most recent telegrams whose successive gaps are
all shorter than the timeout. -/
theorem counter_counts_telegrams_within_timeout {c : Cfg} (hsw : c.switch = false) (hctx : c.ctx ≠ 0)
    (hres : c.reset = none) {tr : List Obs} {s : St} (h : Accepts c tr s)
    (hw : ∀ o ∈ tr, ∀ v t, o ≠ .tr v t) (hopen : s.ctxAt.isSome = true) :
    s.cOn = burstCount c.ctx true (writesOf tr) ∧ s.cOff = burstCount c.ctx false (writesOf tr) := by
  rw [← (counted_events_are_the_telegrams hsw hctx hres tr s h hw).1]
  exact (counter_is_burst_count h).1 hopen

/-- (C3) The context task is due exactly `context_timeout` after the last counted event (each event
restarts it), and a closed window means that much time has passed. -/
theorem context_deadline {c : Cfg} {tr : List Obs} {s : St} (h : Accepts c tr s) :
    (∀ d, s.ctxAt = some d → ∃ l b rest, s.hist = (l, b) :: rest ∧ d = l + c.ctx ∧ s.now ≤ d) ∧
    (s.ctxAt = none → ∀ l b rest, s.hist = (l, b) :: rest → l + c.ctx ≤ s.now) := by
  have hc := CInv_run c tr s h
  constructor
  · intro d hd
    obtain ⟨hle, l, hl, rfl⟩ := hc.dl d hd
    have := hc.lastSetHist
    rw [hl] at this
    cases hh : s.hist with
    | nil => simp [hh] at this
    | cons p rest =>
      obtain ⟨l', b⟩ := p
      simp only [hh, List.head?_cons, Option.map_some, Option.some.injEq] at this
      subst this
      exact ⟨l, b, rest, rfl, rfl, hle⟩
  · intro hn l b rest hh
    have := hc.lastSetHist
    rw [hh] at this
    exact (hc.closed hn).2.2 l (by simpa using this)

/-- (C4) When the context task fires (an output appears while nothing is expected and no reset time is
configured) it is `context_timeout` after the last counted event and produces exactly two callbacks:
one showing the burst count of the current state and one showing zero; afterwards the window is closed. -/
theorem context_callbacks {c : Cfg} {tr : List Obs} {s0 s : St} {x : Out} (h : Accepts c tr s0)
    (hres : c.reset = none) (hexp : s0.expect = []) (hstep : step? c s0 (.out x) = some s) :
    ∃ l b rest, s0.hist = (l, b) :: rest ∧ x.time = l + c.ctx ∧
      let n := if s0.st == some true then burstCount c.ctx true s0.hist else burstCount c.ctx false s0.hist
      let pair := [Out.cb s0.st (if c.ctx != 0 then n else 0) x.time, Out.cb s0.st 0 x.time]
      x ∈ pair ∧ s.expect = pair.erase x ∧ s.ctxAt = none ∧ s.cOn = 0 ∧ s.cOff = 0 := by
  have hi := RInv_run c tr s0 h
  have hnone : s0.resetAt = none := by
    cases hd : s0.resetAt with
    | none => rfl
    | some d =>
      obtain ⟨_, _, r, _, hr, _⟩ := hi.at_.arm d hd
      rw [hres] at hr; cases hr
  obtain ⟨_, hc⟩ := step_cases hstep
  cases hc with
  | consume x' ho hne _ _ _ => exact absurd hexp hne
  | fire x' s1 ho he ha hf =>
    cases ho
    have hs1 : s1 = s0 := by
      rcases (advance_spec ha).1 with h' | ⟨r', hr', _⟩
      · exact h'
      · rw [hnone] at hr'; cases hr'
    subst hs1
    rcases fireAt_cases hf with ⟨h1, _, _⟩ | ⟨hd, hm, rfl⟩
    · rw [hnone] at h1; cases h1
    · obtain ⟨l, b, rest, hh, hdl, _⟩ := (context_deadline h).1 _ hd
      have hcnt := (counter_is_burst_count h).1 (by simp [hd])
      refine ⟨l, b, rest, hh, hdl, ?_⟩
      have hpair : (fireCtx c s1 x.time).2 =
          [Out.cb s1.st (if c.ctx != 0 then (if s1.st == some true then burstCount c.ctx true s1.hist
            else burstCount c.ctx false s1.hist) else 0) x.time, Out.cb s1.st 0 x.time] := by
        simp only [fireCtx, counter, hcnt.1, hcnt.2]
      simp only
      rw [← hpair]
      exact ⟨hm, rfl, rfl, rfl, rfl⟩
  | input s1 r0 _ _ hr0 _ => simp [inputReaction] at hr0
  | sample s1 _ _ hq _ => simp [sampleOk] at hq

/-! ### Non-vacuity: concrete traces the monitor accepts (and one it rejects) -/

/-- Sensor, reset_after = 1 s: on at 0, on again at 0.5 s, sampled on at 1.4 s, off callback at 1.5 s. -/
example : accepts ⟨false, some 1000000, 0, false, false⟩
    [.tw true 0, .out (.cb (some true) 0 0), .tw true 500000, .q (some true) 0 1400000,
     .out (.cb (some false) 0 1500000), .q (some false) 0 1500000, .fin 2000000] = true := by decide
/-- … the same trace with the off callback at 1.0 s (timer not restarted) is rejected. -/
example : accepts ⟨false, some 1000000, 0, false, false⟩
    [.tw true 0, .out (.cb (some true) 0 0), .tw true 500000,
     .out (.cb (some false) 0 1000000)] = false := by decide
/-- Switch, reset_after = 1 s: `set_on()` at 0 → bus write on, callback; bus write off + callback at 1 s. -/
example : accepts ⟨true, some 1000000, 0, false, false⟩
    [.api true 0, .out (.bw true 0), .out (.cb (some true) 0 0), .out (.cb (some false) 0 1000000),
     .out (.bw false 1000000), .fin 1500000] = true := by decide
/-- Sensor, context_timeout = 0.5 s: on, on (0.3 s later), off; window closes 0.5 s after the last: callbacks
show the 'off' counter 1 and then 0; burst counts are on = 2, off = 1. -/
example : accepts ⟨false, none, 500000, false, false⟩
    [.tw true 0, .tw true 300000, .q (some true) 2 300000, .tw false 600000, .q (some false) 1 600000,
     .out (.cb (some false) 1 1100000), .out (.cb (some false) 0 1100000), .fin 1100000] = true := by decide
example : burstCount 500000 true [(600000, false), (300000, true), (0, true)] = 2 := by decide
example : burstCount 500000 true [(1200000, true), (600000, false), (300000, true)] = 1 := by decide


/-- Ignored telegrams (undecodable payload, GroupValueRead) inside the reset window change nothing: the 'off'
callback still comes at 1.0 s; a trace in which they postpone it is rejected. -/
example : accepts ⟨false, some 1000000, 0, false, false⟩
    [.tw true 0, .out (.cb (some true) 0 0), .ig 250000, .ig 750000, .q (some true) 0 750000,
     .out (.cb (some false) 0 1000000), .fin 2000000] = true := by decide
example : accepts ⟨true, some 1000000, 0, false, false⟩
    [.tw true 0, .out (.cb (some true) 0 0), .ig 500000, .out (.bw false 1500000)] = false := by decide

/-- The hypotheses of R5 are met by a concrete Switch trace, and the theorem yields the 'off' write. -/
def exCfg : Cfg := ⟨true, some 1000000, 0, false, false⟩
def exTrace : List Obs :=
  [.api true 0, .out (.bw true 0), .out (.cb (some true) 0 0), .out (.cb (some false) 0 1000000),
   .out (.bw false 1000000), .fin 1500000]
example : ∃ s, Accepts exCfg exTrace s ∧ s.expect = [] ∧ lastOnTime exTrace = some 0 ∧ 0 + 1000000 < s.now :=
  ⟨_, rfl, by decide, by decide, by decide⟩
example : Out.bw false 1000000 ∈ outsOf exTrace :=
  switch_off_write_happens (c := exCfg) (tr := exTrace) (l := 0) (r := 1000000) rfl (s := _) rfl rfl
    (by decide) (by decide) (by decide)
/-- The hypotheses of the counter theorem are met: write-only history, window still open, counters 2 / 1. -/
example : ∃ s, Accepts ⟨false, none, 500000, false, false⟩ [.tw true 0, .tw true 300000, .tw false 600000] s ∧
    s.ctxAt.isSome = true ∧ s.cOn = 2 ∧ s.cOff = 1 ∧
    writesOf [.tw true 0, .tw true 300000, .tw false 600000] = [(600000, false), (300000, true), (0, true)] :=
  ⟨_, rfl, by decide, by decide, by decide, by decide⟩

end XknxVerif.Props.C42
