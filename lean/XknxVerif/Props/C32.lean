/-
C32  Device management requests get only their own answer.
Property theorems only (model `XknxVerif.Model.DevMgmt`, lemmas `XknxVerif.Lemmas.DevMgmt`).
The model is a deterministic simulation `step : St → In → St × List Out`; statements are for EVERY state
(reachable or not) unless an invariant is named, and lifted over all input histories with `Automata.run`.
-/
import XknxVerif.Automata
import XknxVerif.Lemmas.DevMgmt

namespace XknxVerif.Props.C32
open XknxVerif.DevMgmt

/-! ### only the own answer -/

/-- What `matches` accepts: the confirmation of the same service, for the same object type, instance and
property id. -/
theorem matches_iff (r : Req) (f : Frame) :
    r.matches f = true ↔
      ((r.kind = .read ∧ f.code = .rc) ∨ (r.kind = .write ∧ f.code = .wc)) ∧ f.p = r.p := by
  unfold Req.matches
  cases hk : r.kind <;> cases hc : f.code <;> simp

/-- Every result of any step that is not a CommunicationError was produced by `matches` accepting a frame that
carries no error code — a frame that is either buffered for the request in flight or the one arriving with
this very input — and it is that frame's data. Frames of another service, property, instance or object type,
and indications, can therefore never be returned. -/
theorem result_only_from_own_answer (s : St) (i : In) (t k : Nat) (res : Result)
    (h : (t, Ev.res k res) ∈ (step s i).2) (hne : res ≠ .comm) :
    ∃ (r : Req) (f : Frame), f ∈ available s i ∧ r.k = k ∧
      (((r.kind = .read ∧ f.code = .rc) ∨ (r.kind = .write ∧ f.code = .wc)) ∧ f.p = r.p) ∧
      f.err = false ∧ res = r.resultOf f := by
  obtain ⟨r, f, hf, hk, hm, he, hr⟩ := step_justified s i _ h k res rfl hne
  exact ⟨r, f, hf, hk, (matches_iff r f).mp hm, he, hr⟩

/-- A frame that does not answer the request in flight is discarded: the request keeps waiting with an empty
buffer, nothing is returned. -/
theorem stale_answer_discarded (s : St) (a : Active) (f : Frame) (hp : a.pend = .filled f)
    (hm : a.r.matches f = false) :
    consume s a = ({ s with act := some { a with pend := .empty } }, []) := by
  simp [consume, hp, hm]

/-! ### indications -/

/-- An M_PropInfo.ind changes nothing about the requests (holder of the lock, its buffer, the queue, the
sequence counter) and produces nothing but the acknowledgement and the callback. -/
theorem indication_only_callback (s : St) (t q : Nat) (f : Frame) (hf : f.code = .ind) :
    (inject s (.cemi t q f)).1.act = s.act ∧ (inject s (.cemi t q f)).1.queue = s.queue ∧
    (inject s (.cemi t q f)).1.seq = s.seq ∧
    ∀ o ∈ (inject s (.cemi t q f)).2, o = (s.now, .ack q) ∨ o = (s.now, .ind f.p) := by
  simp only [inject, deliver, hf]
  split
  · simp
  · split
    · split
      · simp
      · split <;> simp
    · simp

/-- … and on an open connection with a registered callback an in-sequence indication does reach it. -/
theorem indication_delivered (s : St) (t q : Nat) (f : Frame) (hf : f.code = .ind) (hc : s.chan = true)
    (hcb : s.cb = true) (hq : s.udp = false ∨ q = s.sexp) : (s.now, Ev.ind f.p) ∈ (inject s (.cemi t q f)).2 := by
  simp only [inject, deliver, hf]
  rcases hq with hq | hq
  · simp [hc, hq, hcb]
  · by_cases hu : s.udp = true <;> simp [hc, hu, hq, hcb]

/-- Without an `indication_callback` (the constructor default) an indication is acknowledged and otherwise has no
effect at all: nothing but the ACK is produced. -/
theorem indication_without_callback (s : St) (t q : Nat) (f : Frame) (hf : f.code = .ind) (hcb : s.cb = false) :
    ∀ o ∈ (inject s (.cemi t q f)).2, o = (s.now, .ack q) := by
  simp only [inject, deliver, hf, hcb]
  split
  · simp
  · split
    · split
      · simp
      · split <;> simp
    · simp

/-- With or without a callback, whatever the state: the frame a result is taken from is never an indication (nor a
frame of any other message code than the confirmation of the request's own service). -/
theorem indication_never_a_result (s : St) (i : In) (t k : Nat) (res : Result)
    (h : (t, Ev.res k res) ∈ (step s i).2) (hne : res ≠ .comm) :
    ∃ (r : Req) (f : Frame), f ∈ available s i ∧ r.k = k ∧ res = r.resultOf f ∧ f.code ≠ .ind ∧ f.code ≠ .rq ∧
      f.code ≠ .gb := by
  obtain ⟨r, f, hf, hk, hm, _, hr⟩ := result_only_from_own_answer s i t k res h hne
  refine ⟨r, f, hf, hk, hr, ?_⟩
  rcases hm.1 with ⟨_, hc⟩ | ⟨_, hc⟩ <;> simp [hc]

/-! ### closing -/

private theorem stopActive_waiting (s : St) (a : Active) (dl : Nat) (ha : s.act = some a)
    (hst : a.stage = .ansWait dl) (hpe : a.pend = .empty) (hc : s.chan = false) :
    (stopActive s).2 = (s.now, Ev.res a.r.k .comm) :: s.queue.map fun r => (s.now, Ev.res r.k .comm) := by
  unfold stopActive
  simp only [ha, hst, hpe, Pend.stop, consume, finish]
  rw [grantQ_closed _ _ (by simpa using hc)]

/-- Closing the connection (server DisconnectRequest, lost TCP connection, user `disconnect()`) while a request
waits for its answer fails that request — and every caller queued behind it — with CommunicationError at the
very instant of the close. -/
theorem close_fails_waiting_request_now (s : St) (t : Nat) (c : CloseKind) (a : Active) (dl : Nat)
    (ha : s.act = some a) (hst : a.stage = .ansWait dl) (hpe : a.pend = .empty)
    (ht : s.now ≤ t) (hidle : NoTimerBefore s t) (hopen : s.chan = true ∧ s.up = true) :
    (t, Ev.res a.r.k .comm) ∈ (step s (.close t c)).2 ∧
    ∀ r ∈ s.queue, (t, Ev.res r.k .comm) ∈ (step s (.close t c)).2 := by
  have hadv := advance_idle s t hidle (fuelFor s)
  have hmax : max s.now t = t := Nat.max_eq_right ht
  simp only [step, step2, In.time, hadv, List.nil_append, hmax]
  have key : ∀ s1 : St, s1.act = s.act → s1.queue = s.queue → s1.now = t → s1.chan = false →
      (t, Ev.res a.r.k .comm) ∈ (stopActive s1).2 ∧ ∀ r ∈ s.queue, (t, Ev.res r.k .comm) ∈ (stopActive s1).2 := by
    intro s1 h1 h2 h3 h4
    rw [stopActive_waiting s1 a dl (by rw [h1]; exact ha) hst hpe h4, h3, h2]
    exact ⟨List.mem_cons_self, fun r hr => List.mem_cons_of_mem _ (List.mem_map.mpr ⟨r, hr, rfl⟩)⟩
  cases c with
  | server =>
    simp only [inject, hopen.1, if_true, connLost]
    have := key { s with now := t, chan := false, up := false } rfl rfl rfl rfl
    exact ⟨List.mem_cons_of_mem _ this.1, fun r hr => List.mem_cons_of_mem _ (this.2 r hr)⟩
  | lost =>
    simp only [inject, hopen.2, if_true, connLost]
    exact key { s with now := t, chan := false, up := false } rfl rfl rfl rfl
  | user =>
    simp only [inject, userClose, hopen.1, hopen.2, and_self, if_true]
    have := key { s with now := t, chan := false, up := true, userDisc := some (t + DTMO) } rfl rfl rfl rfl
    exact ⟨List.mem_cons_of_mem _ this.1, fun r hr => List.mem_cons_of_mem _ (this.2 r hr)⟩

/- Full statement of the property ("closing fails a pending request promptly"), false on this tree for a request
that still waits for its ACKNOWLEDGEMENT (UDP): the same with `hst : a.stage = .ansWait dl ∨ a.stage = .ackWait n dl`.
`close_fails_waiting_request_now` is the `_partial` version (hypothesis excluding exactly the ACK wait); the
negation witness follows. Known finding `close-during-ack-wait`. -/

/-- Negation witness: a UDP request whose first transmission is unacknowledged; the server closes the
connection 10 ticks later; the request is not failed at that instant (it fails when the ACK timeout expires). -/
theorem close_during_ack_wait_witness :
    ∃ (s : St) (a : Active) (n dl : Nat), s.act = some a ∧ a.stage = .ackWait n dl ∧ s.chan = true ∧ s.up = true ∧
      NoTimerBefore s 10 ∧ (10, Ev.res a.r.k .comm) ∉ (step s (.close 10 .server)).2 ∧
      (dl, Ev.res a.r.k .comm) ∈ (step (step s (.close 10 .server)).1 (.fin dl)).2 := by
  refine ⟨(step (St.init true) (.call 0 ⟨1, .read, ⟨11, 1, 52⟩⟩)).1, ⟨⟨1, .read, ⟨11, 1, 52⟩⟩, .ackWait 1 TMO, .empty⟩,
    1, TMO, by decide, rfl, by decide, by decide, ?_, by decide, by decide⟩
  constructor
  · intro d hd
    have : d = TMO := by
      have h : actDeadline (step (St.init true) (.call 0 ⟨1, .read, ⟨11, 1, 52⟩⟩)).1 = some TMO := by decide
      rw [h] at hd; exact (Option.some.inj hd).symm
    subst this; decide
  · intro u hu
    have h : (step (St.init true) (.call 0 ⟨1, .read, ⟨11, 1, 52⟩⟩)).1.userDisc = none := by decide
    rw [h] at hu; simp at hu

/-! ### repetition and the sequence counter -/

/-- Over every input history: the number of the transmission whose ACK is awaited lies between 1 and
1 + DEVICE_CONFIGURATION_REQUEST_REPETITIONS. -/
theorem transmissions_bounded (udp : Bool) (ins : List In) :
    AttemptOk (XknxVerif.Automata.run step (St.init udp) ins).1 :=
  XknxVerif.Automata.inv_run step AttemptOk (fun s i h => step_attempt s i h) ins (St.init udp)
    (by intro a n dl ha; simp [St.init] at ha)

/-- A repetition is sent for the request in flight, with the unchanged sequence counter, and takes the next
transmission number; when none is left the connection is given up (no further DeviceConfigurationRequest). -/
theorem repetition_keeps_counter (s : St) (a : Active) (n fuel : Nat) (o : Out) (h : o ∈ (retry s a n fuel).2) :
    o = (s.now, .tx a.r.k s.seq a.r.kind a.r.p) ∨ o = (s.now, .dreq) ∨ ∃ k, o = (s.now, .res k .comm) := by
  induction fuel generalizing n with
  | zero =>
    simp only [retry, giveUp] at h
    split at h
    · simp at h; exact Or.inr (Or.inl h)
    · simp only [finish] at h
      rw [grantQ_closed _ _ rfl] at h
      simp only [List.mem_cons, List.mem_map] at h
      rcases h with h | ⟨r, _, h⟩
      · exact Or.inr (Or.inr ⟨_, h⟩)
      · exact Or.inr (Or.inr ⟨r.k, h.symm⟩)
  | succ m ih =>
    unfold retry at h
    split at h
    · simp at h; exact Or.inl h
    · exact ih (n + 1) h

private theorem grantQ_seq_closed (q : List Req) : ∀ (s : St), s.chan = false → (grantQ s q).1.seq = s.seq := by
  induction q with
  | nil => intro s _; rfl
  | cons r rest ih => intro s hc; unfold grantQ; simp only [hc, Bool.false_eq_true, if_false]; exact ih s hc

theorem retry_seq (s : St) (a : Active) (n fuel : Nat) : (retry s a n fuel).1.seq = s.seq := by
  induction fuel generalizing n with
  | zero =>
    simp only [retry, giveUp]
    split
    · rfl
    · simp only [finish]
      exact grantQ_seq_closed _ _ rfl
  | succ m ih =>
    unfold retry
    split
    · rfl
    · exact ih (n + 1)

/-- The counter advances by exactly one (modulo 256) when a transmission counts as acknowledged — by its ACK, or
because its answer arrived although the ACK was lost. -/
theorem acknowledged_advances_once (s : St) (a : Active) (hq : s.queue = []) :
    (acknowledged s a).1.seq = (s.seq + 1) % 256 := by
  unfold acknowledged consume
  split
  · split
    · simp [finish, hq, grantQ]
    · rfl
  · simp [finish, hq, grantQ]
  · rfl

/-- "repeated at most three times": the repetition count the model (and the bound above) uses is the constant the
code declares, regenerated on every run — and it is three. -/
theorem repetitions_is_three : REPS = 3 ∧ REPS = Generated.DeviceConfig.requestRepetitions := by decide

/-! ### one request outstanding -/

/-- Over every input history, following the outputs in causal order: a DeviceConfigurationRequest is only ever
sent for the caller that is already on the wire (a repetition) or when nobody is (and then puts its caller there),
and only that caller's result takes it off again — `track` never reports two requests outstanding, and ends at the
holder of the lock. -/
theorem at_most_one_outstanding (udp : Bool) (ins : List In) :
    track none (evs (XknxVerif.Automata.run step (St.init udp) ins).2) =
      some (holder (XknxVerif.Automata.run step (St.init udp) ins).1) := by
  have key : ∀ (ins : List In) (s : St),
      track (holder s) (evs (XknxVerif.Automata.run step s ins).2) =
        some (holder (XknxVerif.Automata.run step s ins).1) := by
    intro ins
    induction ins with
    | nil => intro s; simp [XknxVerif.Automata.run_nil, evs, track]
    | cons i is ih =>
      intro s
      rw [XknxVerif.Automata.run_cons]
      simp only [evs, List.map_append]
      rw [track_append]
      have h1 : track (holder s) (List.map (fun x => x.snd) (step s i).2) = some (holder (step s i).1) := step_track s i
      rw [h1]
      exact ih _
  exact key ins (St.init udp)

/-- `track` does reject two requests on the wire. -/
example : track none [.tx 1 0 .read ⟨11, 1, 52⟩, .tx 2 1 .read ⟨11, 1, 53⟩] = none := by decide

/-! ### Non-vacuity -/
example : (step (step (step (St.init true) (.call 0 ⟨1, .read, ⟨11, 1, 52⟩⟩)).1 (.ackIn 0 0 false true)).1
    (.cemi 5 0 ⟨.rc, ⟨11, 1, 52⟩, false, 7⟩)).2 = [(5, .ack 0), (5, .res 1 (.okData 7))] := by decide
example : (step (step (step (St.init true) (.call 0 ⟨1, .read, ⟨11, 1, 52⟩⟩)).1 (.ackIn 0 0 false true)).1
    (.cemi 5 0 ⟨.rc, ⟨11, 1, 53⟩, false, 7⟩)).2 = [(5, .ack 0)] := by decide
example : (step (step (step (St.init false) (.call 0 ⟨1, .write, ⟨0, 1, 11⟩⟩)).1 (.call 1 ⟨2, .read, ⟨0, 1, 11⟩⟩)).1
    (.close 9 .lost)).2 = [(9, .res 1 .comm), (9, .res 2 .comm)] := by decide
/-- no callback: an indication for the very property being read only gets its ACK; the read then takes the M_PropRead.con -/
example : (step (step (step (St.init true false) (.call 0 ⟨1, .read, ⟨11, 1, 52⟩⟩)).1 (.ackIn 0 0 false true)).1
    (.cemi 5 0 ⟨.ind, ⟨11, 1, 52⟩, false, 9⟩)).2 = [(5, .ack 0)] := by decide
example : (step (step (step (step (St.init true false) (.call 0 ⟨1, .read, ⟨11, 1, 52⟩⟩)).1 (.ackIn 0 0 false true)).1
    (.cemi 5 0 ⟨.ind, ⟨11, 1, 52⟩, false, 9⟩)).1 (.cemi 6 1 ⟨.rc, ⟨11, 1, 52⟩, false, 7⟩)).2
    = [(6, .ack 1), (6, .res 1 (.okData 7))] := by decide

end XknxVerif.Props.C32
