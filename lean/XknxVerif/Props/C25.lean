/-
C25  Connection lifecycle stays consistent under any failure schedule.
Property theorems only; they hold for EVERY trace the monitor `TunnelLifecycle.step?` accepts
(any length, any interleaving the token alphabet can express, all three tunnel kinds, auto-reconnect
on and off, any number of callbacks).
-/
import XknxVerif.Lemmas.TunnelLifecycle
import XknxVerif.Generated.ConnState

namespace XknxVerif.Props.C25
open XknxVerif.TunnelLifecycle

/-
The statements use these functions of the TRACE alone (defined in `Lemmas/TunnelLifecycle.lean`):
  liveReconnects tr  reconnect ids created (`new:reconnect:id`) and neither ended by `rfin:id` (coroutine returned or was
                     cancelled) nor reported done (`end:reconnect:id`)
  active o           o is a frame, a transport connect (`tconnect`/`tconnected`), a connect attempt (`cstart`) or a new reconnect task
  seenBy i tr        the states callback i was invoked with (`cb:i:X`), in order
  changesOf tr       the real transitions of the reported state: the `notify:X` tokens (every call of
                     `connection_state_changed`) de-duplicated against the current state, starting from DISCONNECTED
  owed i q           what the running notification still owes callback i
  noRepeat l         no two neighbours of l are equal
-/

/-! ### (i) never two live reconnect attempts -/

/-- (i) In every accepted trace (hence in each of its prefixes, which are accepted too) at most one
reconnect attempt is alive. -/
theorem at_most_one_live_reconnect (k : Kind) (a : Bool) (n : Nat) (tr : List Obs) (s : St)
    (h : run? (init k a n) tr = some s) : (liveReconnects tr).length ≤ 1 := by
  have := inv_run?_fold liveStep (fun s l => rtLive s = l)
    (fun s l o s' hi hs => by rw [← hi]; exact live_step s o s' hs) tr (init k a n) s [] (by simp [rtLive, init]) h
  unfold liveReconnects
  rw [← this]
  unfold rtLive
  split <;> (try split) <;> simp


/-! ### (ii) after the user disconnect completed nothing is sent and no reconnect is created -/

/-- (ii) Once `disconnect()` has returned (`d:ret:disconnect`) and until the user calls `connect()` again,
an accepted trace contains no frame, no transport connect, no connect attempt and no new reconnect task -
whatever failure events, timers and late task wake-ups follow. -/
theorem nothing_after_disconnect (k : Kind) (a : Bool) (n : Nat) (pre post : List Obs) (s : St)
    (h : run? (init k a n) (pre ++ ⟨.d, .ret .disconnect⟩ :: post) = some s)
    (hc : ∀ o ∈ post, o ≠ ⟨.c, .cstart⟩) : ∀ o ∈ post, active o = false := by
  rw [run?_append] at h
  cases h1 : run? (init k a n) pre with
  | none => simp [h1] at h
  | some s1 =>
    simp only [h1, Option.bind_some, run?] at h
    cases h2 : step? s1 ⟨.d, .ret .disconnect⟩ with
    | none => simp [h2] at h
    | some s2 =>
      rw [h2] at h
      have hi1 : Inv2S s1 := inv_run? Inv2S inv2S_step pre _ _ (inv2S_init k a n) h1
      have hi2 : Inv2S s2 := inv2S_step _ _ _ hi1 h2
      have hu : s2.udone = true := by
        rcases step?_cases _ _ _ h2 with ⟨q, qs, _, hq, _⟩ | ⟨_, _, hl, _⟩ | ⟨_, pd, fp, _, ha⟩
        · simp at hq
        · simp at hl
        · simp only [act] at ha
          split at ha <;> simp at ha
          rw [← ha]
      exact quiet_run post s2 s hi2 hu hc h

/-! ### (iii) state-change callbacks -/

/-- (iii-a) Every registered callback is told exactly the real transitions of the reported state, each once,
in order: at any point of an accepted trace callback `i` has seen a prefix of the transitions (the rest being
owed within the running notification), and whenever no notification is in progress it has seen all of them. -/
theorem callbacks_see_exactly_the_changes (k : Kind) (a : Bool) (n i : Nat) (hi : i < n) (tr : List Obs)
    (s : St) (h : run? (init k a n) tr = some s) :
    seenBy i tr ++ owed i s.cbq = changesOf tr ∧ (s.cbq = [] → seenBy i tr = changesOf tr) := by
  have h3 := inv_run?_fold (fold3 i) (Inv3 n i) (inv3_step n i hi) tr (init k a n) s ((.D, []), [])
    (by simp [Inv3, init, owed]) h
  rw [fold3_split] at h3
  obtain ⟨_, _, hs⟩ := h3
  unfold changesOf seenBy
  refine ⟨hs, fun hq => ?_⟩
  rw [hq] at hs
  simpa [owed] using hs

/-- (iii-b) The transitions reported to the callbacks are real ones: starting from DISCONNECTED no two
consecutive reported states are equal - for every token list, accepted or not (it is a fact about
the ConnectionManager's dedup alone). -/
theorem reported_changes_never_repeat (tr : List Obs) : noRepeat (.D :: changesOf tr) = true := by
  unfold changesOf
  have : ∀ (p : CS × List CS), noRepeat (.D :: p.2) = true → ((.D :: p.2).getLast? = some p.1) →
      noRepeat (.D :: (tr.foldl chg p).2) = true := by
    induction tr with
    | nil => intro p h _; exact h
    | cons o os ih =>
      intro p h hl
      simp only [List.foldl_cons]
      apply ih
      · unfold chg
        split
        · split
          · exact h
          · rename_i st _ hst
            have hne : p.1 ≠ st := fun e => hst e.symm
            obtain ⟨l, hl'⟩ : ∃ l, CS.D :: p.2 = l ++ [p.1] := by
              have := List.getLast?_eq_some_iff.mp hl
              obtain ⟨ys, hy⟩ := this
              exact ⟨ys, hy⟩
            have := noRepeat_snoc l p.1 st (hl' ▸ h) hne
            rw [← hl'] at this
            simpa using this
        · exact h
      · unfold chg
        split
        · split
          · exact hl
          · rename_i st _ _
            have : CS.D :: (p.2 ++ [st]) = (CS.D :: p.2) ++ [st] := rfl
            rw [this, List.getLast?_concat]
        · exact hl
  exact this (.D, []) (by simp [noRepeat]) (by simp)


/-! ### (iv) `connected` ⇔ last state = CONNECTED ⇔ a tunnel is established -/

/-- (iv-a) In every reachable state the `connected` event is set exactly when the last reported state is CONNECTED. -/
theorem connected_flag_iff_state (k : Kind) (a : Bool) (n : Nat) (tr : List Obs) (s : St)
    (h : run? (init k a n) tr = some s) : s.conn = true ↔ s.cm = .C := by
  have := inv_run? (fun s => s.conn = (s.cm == .C)) (fun s o s' hi hs => by
    rcases step?_cases s o s' hs with ⟨q, qs, _, _, rfl⟩ | ⟨_, _, _, rfl⟩ | ⟨_, pd, fp, _, ha⟩
    · exact hi
    · exact hi
    · exact conn_act { s with mayClose := false, pend := pd } o fp s' hi ha) tr _ s (by simp [init]) h
  rw [this]; simp

/-
Full statement of (iv), second half (NOT proved; see notes/C25.md):
  whenever no synchronous segment is running and no task is runnable, `s.cm = .C ↔ est s`.
It is false for the code as it is when a connection loss hits the one loop iteration between the arrival of
the ConnectResponse and the resumption of `connect()` (ghost flag `wloss`, witness below; known finding
`connect-window`), and its converse direction needs a runnability model of all tasks.  Proved instead:
CONNECTED is only ever reported at a moment where the tunnel is established, the `wloss` schedules excepted.
-/

/-- (iv-b, partial) Whenever CONNECTED is reported in an accepted trace, the client holds a communication
channel and runs a heartbeat, and its transport is open - unless the transport was lost while the
ConnectResponse was being processed (`wloss`). -/
theorem connected_reported_only_when_established_partial (k : Kind) (a : Bool) (n : Nat) (pre : List Obs) (t : Tag)
    (s : St) (h : run? (init k a n) (pre ++ [⟨t, .notify .C⟩]) = some s) :
    s.cm = .C ∧ (est s = true ∨ s.wloss = true) := by
  rw [run?_snoc] at h
  cases h1 : run? (init k a n) pre with
  | none => simp [h1] at h
  | some s1 =>
    simp only [h1, Option.bind_some] at h
    rcases step?_cases s1 _ s h with ⟨q, qs, _, hq, _⟩ | ⟨_, _, hl, _⟩ | ⟨_, pd, fp, _, ha⟩
    · simp at hq
    · simp at hl
    · have hCD : (CS.C == CS.D) = false := rfl
      simp only [act, hCD, Bool.false_and] at ha
      split at ha
      · split at ha
        · simp at ha
        · rename_i hg
          simp only [Option.some.injEq] at ha
          subst ha
          simp only [Bool.and_eq_true, Bool.not_eq_true', beq_self_eq_true, true_and, Bool.not_eq_false,
            Bool.true_and] at hg
          constructor
          · unfold notifyEff; split
            · rename_i hc; simpa using hc
            · rfl
          · simp only [est, notifyEff_chan, notifyEff_hb, notifyEff_tup, notifyEff_wloss, hg, Bool.true_and,
              Bool.and_true, beq_self_eq_true, Bool.or_eq_true, Bool.not_eq_true']
            cases s1.tup <;> simp
      · simp at ha

/-- Negation witness for the full statement: a UDP tunnel without auto-reconnect; a DisconnectRequest arrives in
the loop iteration in which the ConnectResponse was delivered; `_tunnel_lost` closes the transport, then
`connect()` resumes and reports CONNECTED.  The trace is accepted, the state is CONNECTED, no tunnel is established. -/
def windowTrace : List Obs :=
  [⟨.c, .cstart⟩, ⟨.c, .notify .G⟩, ⟨.c, .cb 0 .G⟩, ⟨.c, .tconnect⟩, ⟨.c, .tconnected⟩, ⟨.c, .frame .creq 0⟩,
   ⟨.x, .rxCresp (some 7)⟩, ⟨.x, .rxDreq 7⟩, ⟨.x, .lost⟩, ⟨.x, .prep⟩, ⟨.x, .notify .D⟩, ⟨.x, .cb 0 .D⟩,
   ⟨.x, .tstop true⟩, ⟨.c, .estab 7⟩, ⟨.c, .newTask .heartbeat 0 0⟩, ⟨.c, .notify .C⟩, ⟨.c, .cb 0 .C⟩,
   ⟨.c, .ret .connectOk⟩, ⟨.x, .probe true .C false⟩]

theorem window_witness :
    ((run? (init .udp false 1) windowTrace).map fun s => (s.cm, est s, s.wloss)) = some (.C, false, true) := by
  decide +kernel

/-- Prefix closure: every prefix of an accepted trace is accepted (so the statements above and below
hold at every point of a run, not only at its end). -/
theorem prefix_accepted (s : St) (a b : List Obs) (s' : St) (h : run? s (a ++ b) = some s') :
    ∃ s1, run? s a = some s1 := by
  rw [run?_append] at h
  cases h1 : run? s a with
  | none => simp [h1] at h
  | some s1 => exact ⟨s1, rfl⟩

/-! ### ConnectionManager on its own: registration changes, callbacks that unregister themselves -/

/-- A state change that is none invokes nobody; a real one invokes exactly the callbacks registered at that
moment, each once and in registration order (whether or not some of them unregister themselves meanwhile),
and afterwards exactly the one-shot callbacks are gone. -/
theorem cm_change_notifies_each_registered_once (s : CM.S) (st : CS) :
    (s.cur = st → CM.step s (.change st) = (s, some (st, st == .C, []))) ∧
    (s.cur ≠ st → CM.step s (.change st) =
      ({ cur := st, regs := s.regs.filter (fun e => !e.2) }, some (st, st == .C, s.regs.map (·.1)))) := by
  constructor <;> intro h <;> simp [CM.step, h]

/-- The reported-state sequence of the ConnectionManager never repeats, for every operation list:
each `change` output that invokes callbacks carries a state different from the previous current state. -/
theorem cm_no_callback_without_change (s : CM.S) (st : CS) (s' : CM.S) (c : Bool) (l : List Nat)
    (h : CM.step s (.change st) = (s', some (st, c, l))) (hl : l ≠ []) : s.cur ≠ st ∧ s'.cur = st := by
  simp only [CM.step] at h
  split at h
  · simp only [Prod.mk.injEq, Option.some.injEq] at h
    exact absurd h.2.2.2.symm hl
  · rename_i hne
    simp only [Prod.mk.injEq, Option.some.injEq] at h
    exact ⟨by simpa using hne, by rw [← h.1]⟩

/-! ### Tie to the declared data -/

/-- The three states of the model are exactly the members `XknxConnectionState` declares (regenerated each run). -/
theorem states_match_declaration :
    Generated.ConnState.members.map (·.1) = ["CONNECTED", "CONNECTING", "DISCONNECTED"] ∧
    Generated.ConnState.heartbeatRate + 5 * Generated.ConnState.connectionstateRequestTimeout =
      Generated.ConnState.connectionAliveTime := by
  decide

/-! ### Non-vacuity: a recorded implementation trace (UDP, auto-reconnect, the server disconnects the channel
after the second send; reconnect; heartbeat; user disconnect) is accepted, and the statements above apply to it. -/

def sampleTrace : List Obs :=
  [⟨.c, .cstart⟩, ⟨.c, .notify .G⟩, ⟨.c, .cb 0 .G⟩, ⟨.c, .cb 1 .G⟩, ⟨.c, .tconnect⟩,
   ⟨.c, .tconnected⟩, ⟨.c, .frame .creq 0⟩, ⟨.x, .rxCresp (some 7)⟩, ⟨.c, .estab 7⟩, ⟨.c, .newTask .heartbeat 0 0⟩,
   ⟨.c, .notify .C⟩, ⟨.c, .cb 0 .C⟩, ⟨.c, .cb 1 .C⟩, ⟨.c, .ret .connectOk⟩, ⟨.x, .probe true .C true⟩,
   ⟨.s, .frame .treq 7⟩, ⟨.x, .rxOther⟩, ⟨.s, .ret .send⟩, ⟨.s, .frame .treq 7⟩, ⟨.x, .rxOther⟩,
   ⟨.s, .ret .send⟩, ⟨.x, .probe true .C true⟩, ⟨.x, .rxDreq 7⟩, ⟨.x, .frame .dresp 7⟩, ⟨.x, .lost⟩,
   ⟨.x, .newTask .reconnect 0 0⟩, ⟨.r, .prep⟩, ⟨.r, .notify .D⟩, ⟨.r, .cb 0 .D⟩, ⟨.r, .cb 1 .D⟩,
   ⟨.r, .tstop true⟩, ⟨.r, .cstart⟩, ⟨.r, .notify .G⟩, ⟨.r, .cb 0 .G⟩, ⟨.r, .cb 1 .G⟩,
   ⟨.r, .tconnect⟩, ⟨.x, .endTask .heartbeat 0⟩, ⟨.r, .tconnected⟩, ⟨.r, .frame .creq 0⟩, ⟨.x, .rxCresp (some 8)⟩,
   ⟨.r, .estab 8⟩, ⟨.r, .newTask .heartbeat 1 0⟩, ⟨.r, .notify .C⟩, ⟨.r, .cb 0 .C⟩, ⟨.r, .cb 1 .C⟩,
   ⟨.r, .rfin 0⟩, ⟨.x, .endTask .reconnect 0⟩, ⟨.h, .frame .csreq 8⟩, ⟨.x, .rxOther⟩, ⟨.x, .probe true .C true⟩,
   ⟨.d, .dstart⟩, ⟨.d, .prep⟩, ⟨.d, .notify .D⟩, ⟨.d, .cb 0 .D⟩, ⟨.d, .cb 1 .D⟩,
   ⟨.d, .frame .dreq 8⟩, ⟨.x, .rxOther⟩, ⟨.x, .endTask .heartbeat 1⟩, ⟨.d, .tstop true⟩, ⟨.d, .ret .disconnect⟩,
   ⟨.x, .nop⟩, ⟨.x, .probe false .D false⟩, ⟨.x, .nop⟩]

example : (run? (init .udp true 2) sampleTrace).isSome = true := by decide +kernel
example : changesOf sampleTrace = [.G, .C, .D, .G, .C, .D] ∧ seenBy 1 sampleTrace = [.G, .C, .D, .G, .C, .D] := by
  decide +kernel
/-- The monitor is not trivially permissive: the pre-fix behaviours are rejected - a reconnect task created
while `disconnect()` runs, and one created while another is still running. -/
example : (run? (init .udp true 0)
    [⟨.d, .dstart⟩, ⟨.d, .prep⟩, ⟨.d, .notify .D⟩, ⟨.d, .tstop false⟩, ⟨.x, .lost⟩, ⟨.x, .newTask .reconnect 0 0⟩]).isNone = true := by
  decide +kernel
example : (run? (init .tcp true 0)
    [⟨.x, .lost⟩, ⟨.x, .newTask .reconnect 0 0⟩, ⟨.x, .lost⟩, ⟨.x, .newTask .reconnect 1 1⟩]).isNone = true := by
  decide +kernel

end XknxVerif.Props.C25

