/-
C25  Connection lifecycle stays consistent under any failure schedule.
Property theorems only; they hold for EVERY trace the monitor `TunnelLifecycle.step?` accepts
(any length, any interleaving the token alphabet can express, all three tunnel kinds, auto-reconnect
on and off, any number of callbacks).
-/
import XknxVerif.Lemmas.TunnelLifecycle

namespace XknxVerif.Props.C25
open XknxVerif.TunnelLifecycle

/-- Tactic used throughout: case analysis over every branch of `act`. -/
local macro "act_cases" h:ident : tactic =>
  `(tactic| ((repeat' split at $h:ident) <;> (try simp only [Option.some.injEq, reduceCtorEq] at $h:ident) <;>
      (try subst $h:ident)))

/-! ### (i) never two live reconnect attempts -/

/-- Reconnect tasks alive after a trace, read off the trace alone: created (`new:reconnect:id`) and
neither returned/cancelled (`rfin:id`, logged when the coroutine ends) nor reported done. -/
def liveStep (l : List Nat) (o : Obs) : List Nat :=
  match o.lab with
  | .newTask .reconnect id _ => id :: l
  | .rfin id => l.filter (· != id)
  | .endTask .reconnect id => l.filter (· != id)
  | _ => l

def liveReconnects (tr : List Obs) : List Nat := tr.foldl liveStep []

/-- The model's view: the reconnect slot, unless its coroutine already returned. -/
def rtLive (s : St) : List Nat :=
  match s.rt with
  | some r => if r.fin then [] else [r.id]
  | none => []

theorem live_act (s : St) (o : Obs) (fp : Bool) (s' : St) (h : act s o fp = some s') :
    rtLive s' = liveStep (rtLive s) o := by
  obtain ⟨t, lab⟩ := o
  cases lab <;> simp only [act] at h <;> act_cases h <;>
    (try simp_all [rtLive, liveStep]) <;> (try split) <;> (try simp_all) <;>
    (try (cases hrt : s.rt <;> simp_all)) <;> (try (subst_vars; simp))

theorem live_step (s : St) (o : Obs) (s' : St) (h : step? s o = some s') :
    rtLive s' = liveStep (rtLive s) o := by
  unfold step? at h
  split at h
  · split at h
    · rename_i q qs _ ho
      simp only [Option.some.injEq] at h
      subst h
      have : o = ⟨q.1, .cb q.2.1 q.2.2⟩ := by simpa using ho
      subst this
      simp [rtLive, liveStep]
    · simp at h
  · split at h
    · rename_i ho
      simp only [Option.some.injEq] at h
      subst h
      obtain ⟨t, lab⟩ := o
      simp only [Bool.and_eq_true, beq_iff_eq] at ho
      obtain ⟨_, hl⟩ := ho
      subst hl
      simp [rtLive, liveStep]
    · split at h
      · split at h
        · simpa [rtLive] using live_act _ o true s' h
        · simp at h
      · simpa [rtLive] using live_act _ o false s' h

/-- (i) In every accepted trace (hence in each of its prefixes, which are accepted too) at most one
reconnect attempt is alive. -/
theorem at_most_one_live_reconnect (k : Kind) (a : Bool) (n : Nat) (tr : List Obs) (s : St)
    (h : run? (init k a n) tr = some s) : (liveReconnects tr).length ≤ 1 := by
  have := inv_run?_fold liveStep (fun s l => rtLive s = l)
    (fun s l o s' hi hs => by rw [← hi]; exact live_step s o s' hs) tr (init k a n) s [] (by simp [rtLive, init]) h
  unfold liveReconnects
  rw [← this]
  unfold rtLive
  split <;> (try split) <;> simp

/-- Prefix closure: every prefix of an accepted trace is accepted (so the statements above and below
hold at every point of a run, not only at its end). -/
theorem prefix_accepted (s : St) (a b : List Obs) (s' : St) (h : run? s (a ++ b) = some s') :
    ∃ s1, run? s a = some s1 := by
  rw [run?_append] at h
  cases h1 : run? s a with
  | none => simp [h1] at h
  | some s1 => exact ⟨s1, rfl⟩

end XknxVerif.Props.C25
