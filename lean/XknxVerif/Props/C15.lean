/-
C15  Data Secure frames decrypt to exactly what was sent.

All statements are generic in the block function `E` (only "outputs are 16
octets" is used, which `AES128.encrypt_length` proves for the AES model): the
round trip rests on XOR with a key stream being an involution and on the MAC
recomputation being deterministic – no cryptographic assumption.
-/
import XknxVerif.Lemmas.DataSecure
import XknxVerif.Crypto.AES128

namespace XknxVerif.Props.C15
open XknxVerif XknxVerif.Crypto XknxVerif.DataSecure
open XknxVerif.Generated.DataSecure (algAuth algEnc svcData apciSecHigh apciSecLow sequenceNumberMax)

/-- (1) `get_plain_apdu(init_from_plain_apdu(apdu)) = apdu` for **all** keys,
SCFs (both algorithms), sequence numbers, address fields, address type, frame
format, TPCI and APDUs for which the sender returns at all. -/
theorem getPlain_secure (E : BlockFn) (hE : E.Len16) (key : Bytes) (scf : Scf) (seq : Nat) (c : Ctx)
    (apdu : Bytes) (d : SecureData) (h : secure E key scf seq c apdu = .ok d) :
    getPlain E key scf c d = .ok apdu := by
  unfold secure at h
  split at h
  · exact getPlain_secureWith E hE key scf _ c apdu d h
  · simp at h

/-- (2) … and the sender does return for every 48-bit sequence number, both
algorithms, every APDU of at most 255 octets and every control/TPCI octet. -/
theorem secure_ok (E : BlockFn) (key : Bytes) (scf : Scf) (seq : Nat) (c : Ctx) (apdu : Bytes)
    (hseq : seq < 2 ^ 48) (g : SecureGuards scf c apdu) : ∃ d, secure E key scf seq c apdu = .ok d := by
  unfold secure
  rw [if_pos hseq]
  exact secureWith_ok E key scf _ c apdu g

/-- (1)+(2) together. -/
theorem roundtrip (E : BlockFn) (hE : E.Len16) (key : Bytes) (scf : Scf) (seq : Nat) (c : Ctx)
    (apdu : Bytes) (hseq : seq < 2 ^ 48) (g : SecureGuards scf c apdu) :
    ∃ d, secure E key scf seq c apdu = .ok d ∧ getPlain E key scf c d = .ok apdu := by
  obtain ⟨d, hd⟩ := secure_ok E key scf seq c apdu hseq g
  exact ⟨d, hd, getPlain_secure E hE key scf seq c apdu d hd⟩

/-- (3) The ASDU survives serialisation: `SecureData.from_knx(sd.to_knx())` is the
same object, so the statements above hold across the wire. -/
theorem wire_roundtrip (E : BlockFn) (hE : E.Len16) (key : Bytes) (scf : Scf) (seq : Nat) (c : Ctx)
    (apdu : Bytes) (d : SecureData) (h : secure E key scf seq c apdu = .ok d) :
    SecureData.fromKnx d.toKnx = d ∧ getPlain E key scf c (SecureData.fromKnx d.toKnx) = .ok apdu := by
  have h' := h
  unfold secure at h'
  split at h'
  · obtain ⟨hs, _, hm⟩ := secureWith_shape E hE key scf _ c apdu d h'
    have h6 : d.seq.length = 6 := by rw [hs, Bytes.ofNatBE_length]
    have := fromKnx_toKnx d h6 hm
    exact ⟨this, by rw [this]; exact getPlain_secure E hE key scf seq c apdu d h⟩
  · simp at h'

theorem group_ctl_lt (eff : Nat) (h : eff < 16) : ((0x80 : Nat) ||| eff) < 256 :=
  Nat.or_lt_two_pow (n := 8) (by omega) (by omega)

theorem tpci_lt (t : Nat) (h : t < 256) : (t ||| apciSecHigh) < 256 :=
  Nat.or_lt_two_pow (n := 8) h (by decide)

/-- (4) **Receive decision.**  A frame secured by one `DataSecure` object is
accepted by another that holds the same (non-empty) key for the group address
and knows the sender with a lower last-valid counter – whatever happened to the
unprotected control bits on the way.  The receiver hands up exactly the original
APDU and stores the frame's sequence number. `innerOk apdu` says that the APCI
codec accepts its own encoding (property C05). -/
theorem send_then_receive (E : BlockFn) (hE : E.Len16) (s r : DS) (f : Frame) (apdu key : Bytes)
    (innerOk : Bytes → Bool) (last other' : Nat)
    (hp : f.payload = .plain apdu) (hg : f.group = true)
    (hks : keyFor s.keys f.dst = some key) (hkr : keyFor r.keys f.dst = some key)
    (hseq : s.sendSeq ≤ sequenceNumberMax)
    (hl : r.senders.lookup f.src = some last) (hlt : last < s.sendSeq)
    (heff : f.eff < 16) (htp : f.tpci < 256) (hlen : apdu.length ≤ 255) (hin : innerOk apdu = true) :
    ∃ d, outgoing E s f = ({ s with sendSeq := s.sendSeq + 1 }, .secured { f with payload := .secure scfOut d })
      ∧ received E r { f with payload := .secure scfOut d, other := other' } innerOk
          = ({ r with senders := setVal r.senders f.src s.sendSeq }, .deliver apdu) := by
  have hs48 : s.sendSeq < 2 ^ 48 := by
    have : sequenceNumberMax = 2 ^ 48 - 1 := by decide
    omega
  have hctx : f.ctx.atype = 0x80 ∧ f.ctx.eff = f.eff ∧ f.ctx.tpci = f.tpci := by simp [Frame.ctx, hg]
  have g : SecureGuards scfOut f.ctx apdu :=
    ⟨Or.inr rfl, by rw [hctx.1, hctx.2.1]; exact group_ctl_lt _ heff, by rw [hctx.2.2]; exact tpci_lt _ htp, hlen⟩
  obtain ⟨d, hd⟩ := secure_ok E key scfOut s.sendSeq f.ctx apdu hs48 g
  refine ⟨d, ?_, ?_⟩
  · have hgs : getSeq s.sendSeq = some (s.sendSeq, s.sendSeq + 1) := by
      unfold getSeq; rw [if_neg (by omega)]
    simp only [outgoing, hg, ↓reduceIte, hks, hgs, hp, Payload.bytes, hd]
  · have hplain := getPlain_secure E hE key scfOut s.sendSeq f.ctx apdu d hd
    have hdseq : Bytes.toNatBE d.seq = s.sendSeq := by
      have h' := hd
      unfold secure at h'
      rw [if_pos hs48] at h'
      rw [(secureWith_shape E hE key scfOut _ f.ctx apdu d h').1]
      exact Bytes.toNatBE_ofNatBE 6 _ (by simpa using hs48)
    have := received_secure_deliver E r { f with payload := .secure scfOut d, other := other' } innerOk
      scfOut d key apdu last rfl hg hkr rfl rfl rfl hl (by rw [hdseq]; exact hlt) hplain hin
    rw [this, hdseq]

/-- (4') … and `handle_cemi_frame` forwards it as a telegram marked Data Secure. -/
theorem send_then_handle (E : BlockFn) (hE : E.Len16) (s r : DS) (f : Frame) (apdu key : Bytes)
    (innerOk : Bytes → Bool) (last other' : Nat)
    (hp : f.payload = .plain apdu) (hg : f.group = true)
    (hks : keyFor s.keys f.dst = some key) (hkr : keyFor r.keys f.dst = some key)
    (hseq : s.sendSeq ≤ sequenceNumberMax)
    (hl : r.senders.lookup f.src = some last) (hlt : last < s.sendSeq)
    (heff : f.eff < 16) (htp : f.tpci < 256) (hlen : apdu.length ≤ 255) (hin : innerOk apdu = true) :
    ∃ d, (outgoing E s f).2 = .secured { f with payload := .secure scfOut d }
      ∧ (handle E (some r) { f with payload := .secure scfOut d, other := other' } innerOk).2
          = .telegram apdu true := by
  obtain ⟨d, h1, h2⟩ := send_then_receive E hE s r f apdu key innerOk last other' hp hg hks hkr hseq hl
    hlt heff htp hlen hin
  refine ⟨d, by rw [h1], ?_⟩
  simp only [handle, h2, Payload.isSecure]

/-- The theorems apply to the AES-128 model. -/
theorem aes_roundtrip (key : Bytes) (scf : Scf) (seq : Nat) (c : Ctx) (apdu : Bytes)
    (hseq : seq < 2 ^ 48) (g : SecureGuards scf c apdu) :
    ∃ d, secure AES128.encrypt key scf seq c apdu = .ok d ∧ getPlain AES128.encrypt key scf c d = .ok apdu :=
  roundtrip _ AES128.encrypt_length key scf seq c apdu hseq g

/-- Hypotheses are satisfiable (a group frame from 1.1.1 to 1/2/3, TDataGroup, both algorithms). -/
example : SecureGuards ⟨false, algAuth, false, svcData⟩ ⟨[0x11, 0x01, 0x0A, 0x03], 0x80, 0, 0⟩ [0x00, 0x81] :=
  ⟨Or.inl rfl, by decide, by decide, by decide⟩
example : SecureGuards scfOut ⟨[0x11, 0x01, 0x0A, 0x03], 0x80, 0, 0⟩ [0x00, 0x80, 1, 2, 3] :=
  ⟨Or.inr rfl, by decide, by decide, by decide⟩
example : keyFor [(0x0A03, [1,2,3,4,5,6,7,8,9,10,11,12,13,14,15,16])] 0x0A03
    = some [1,2,3,4,5,6,7,8,9,10,11,12,13,14,15,16] := by decide

end XknxVerif.Props.C15
