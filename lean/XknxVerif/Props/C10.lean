/-
C10  Complex and enum datapoint values round-trip through their JSON form.

`JRT ctx r p`: decode r p = ok v → the dict form (DPTComplex) / lower-case member name (DPTEnum) `f` of `v`
exists, `to_knx(f)` is accepted, and the resulting payload decodes to `v`.  The leaves of `f` are JSON-native by
construction of the model's JSON type (`null | bool | int | float | str`); the real `json.dumps/loads` cycle is
run on the implementation side of every correspondence case.

Full (complete enumeration per class, chunked kernel evaluation): every DPTEnum / DPTComplex class whose decoder
sees one item — DPT 1.x (29 enum classes incl. 20.102 / 20.105), DPT 2.x (13), 3.007, 3.008, 18.001, 20.60102.
Table obligations: member names survive lower()/upper() and are unique, so that the name form parses back
(`enum_names_ok`).
Correspondence only (see notes/C10.md): the multi-octet complex types DPT 10, 11, 19, 232, 235, 242, 243,
249–254; for DPT 19 the finding (`day_of_week: None` refused by `from_dict`) is covered by a kernel-evaluated
sweep over every combination of the validity flags (`datetime_flag_sweep`), which is a finite sample of the
8-octet payload space, not the whole of it.
-/
import XknxVerif.Lemmas.DPTJson
import XknxVerif.Sweep.JsonA.All
import XknxVerif.Sweep.JsonB.All

namespace XknxVerif.Props.C10
open XknxVerif.DPT

abbrev ctx : Ctx := tableCtx

/-- every enum class used by a JSON-kind row: `name.lower().upper()` finds the same member again, i.e. the
name form (and every enum-valued dict field) parses back to the member it came from (`enumNamesOK`) -/
theorem enum_names_ok : (Generated.table.filter fun r => isJsonFamily r.family).all
    (fun r => r.enums.all fun (_, t) => enumNamesOK t) = true := by decide +kernel

/-- (1) one-item DPTEnum / DPTComplex classes: every payload round-trips through the JSON form. -/
theorem json_roundtrip_one_item (r : Row) (hr : r ∈ Generated.table) (hl : rawLen r = 1)
    (hj : isJsonFamily r.family = true) (p : Payload) (hp : p.WF) : JRT ctx r p :=
  jsonOneItem_rt Sweep.JsonA.all Sweep.JsonB.all r hr hl hj p hp

/-- which families that covers in the current table -/
theorem one_item_json_families : (Generated.table.filter fun r =>
    r.family ∈ [.enum, .binctl, .ctldim, .ctlblinds, .scenectl, .hvacstatus]).all
      (fun r => rawLen r == 1 && isJsonFamily r.family) = true := by decide +kernel

/-- every DPTEnum / DPTComplex row has a dict schema or is an enum (fails closed on a new kind) -/
theorem json_rows_have_form : (Generated.table.filter fun r => isJsonFamily r.family).all
    (fun r => r.family == .enum || !r.schema.isEmpty) = true := by decide +kernel

/-- DPT 19 payloads: every combination of the five validity flags + working-day/fault/dst bits (octet 7) and the
two status bits of octet 8, on a valid date/time -/
def dtPayload (s6 s7 : Nat) : Payload := .array [126, 12, 31, (3 <<< 5) ||| 23, 59, 58, s6, s7 * 64]

def dtRow : Row := (lookup Generated.table "DPTDateTime").getD default

def dtChunk (k : Nat) : Bool := (List.range 16).all fun j => (List.range 4).all fun s7 => jrtB ctx dtRow (dtPayload (16 * k + j) s7)

/-- (2) PARTIAL for DPT 19 — the finding's domain: all 2^10 flag combinations (kernel evaluated) -/
theorem datetime_flag_sweep : (List.range 16).all dtChunk = true := by decide +kernel

/-- (3) DPT 19, every payload (all 2^64): the dict form of a decoded value is read back by `from_dict` as the very
same value, hence `to_knx(as_dict(v))` = `to_knx(v)` — the statement the pinned tree violated (day_of_week None).
This reduces C10 for DPT 19 to its C08 (which is correspondence-only). -/
theorem datetime_from_dict_as_dict (r : Row) (hr : r ∈ Generated.table) (hf : r.family = .datetime)
    (raw : List Nat) (fs : List (String × Atom)) (h : decDateTime r raw = .ok (.obj fs)) :
    ∃ d, asForm r (.obj fs) = some (.dict d) ∧ fromDict r d = .ok fs ∧
      encodeJson ctx r (.dict d) = complexErr (encodeObj ctx r fs) := by
  have hm : r ∈ Generated.table.filter fun r => isJsonFamily r.family := by
    rw [List.mem_filter]; exact ⟨hr, by simp [hf, isJsonFamily]⟩
  have hall := List.all_eq_true.mp enum_names_ok r hm
  have hok : enumNamesOK (r.enumTable "day_of_week") = true := by
    unfold Row.enumTable
    cases hfind : r.enums.find? (fun x => x.1 == "day_of_week") with
    | none => simp [enumNamesOK]
    | some pr =>
      have := List.mem_of_find?_eq_some hfind
      simpa using (List.all_eq_true.mp hall) pr this
  obtain ⟨d, h1, h2⟩ := datetime_json_id r hf hok raw fs h
  obtain ⟨d', h1', h3⟩ := datetime_encodeJson ctx r hf hok raw fs h
  rw [h1] at h1'
  injection h1' with h1'; injection h1' with h1'; subst h1'
  exact ⟨d, h1, h2, h3⟩

/-! Non-vacuity -/
example : (Generated.table.filter fun r => rawLen r == 1 && isJsonFamily r.family).length = 46 := by decide +kernel
/-- the pre-fix failing input: weekday flagged invalid -/
example : jrtB ctx dtRow (.array [0, 0, 0, 0, 0, 0, 0x0c, 0]) = true := by decide +kernel
example : decode ctx dtRow (dtPayload 4 0) ≠ .error .conv := by decide +kernel

end XknxVerif.Props.C10
