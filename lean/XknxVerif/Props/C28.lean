/-
C28  IP Secure wrapping is correct, tamper-evident and standard-conformant.
Property theorems only.  Everything is proved for an ARBITRARY block function `E` with 16-octet outputs
(`E.Len16`, true of AES-128: `AES128.encrypt_length`); nothing depends on AES being a good cipher.
Where a statement cannot be information-theoretically true (a change of an authenticated field could
collide in the MAC) it carries the explicit no-collision hypothesis `hNoColl`, shown satisfiable for AES.
-/
import XknxVerif.Lemmas.IPSecure

namespace XknxVerif.Props.C28
open XknxVerif.IPSecure
open XknxVerif.Crypto
open XknxVerif.Bytes (ofNatBE toNatBE ofNatBE_length toNatBE_ofNatBE)

/-- AES-128 is an admissible block function. -/
theorem aes_len16 : (AES : BlockFn).Len16 := fun k b => AES128.encrypt_length k b

/-! ### (1) a wrapped frame unwraps to the identical frame -/

/-- For every key, session id, sequence information, serial number, message tag and plain frame:
`decrypt_frame (encrypt_frame f) = f`. -/
theorem unwrap_wrap (E : BlockFn) (hE : E.Len16) (key : Bytes) (sid : Nat) (hsid : sid < 65536)
    (seq serial tag payload : Bytes) :
    let w := encryptFrame E key sid seq serial tag payload
    decryptFrame E key sid w.1 w.2.1 w.2.2 = .ok payload := by
  intro w
  have hrt := ctrXor2_roundtrip E hE key (ctr0 w.1) (macOf E key w.1 payload) payload
  simp only at hrt
  have hs : toNatBE w.1.sid = sid := toNatBE_ofNatBE 2 sid (by simpa using hsid)
  show decryptFrame E key sid w.1 w.2.1 w.2.2 = .ok payload
  unfold decryptFrame decryptCtr
  simp only [hs, ne_eq, not_true_eq_false, ↓reduceIte]
  have e1 : w.2.1 = (ctrXor2 E key (ctr0 w.1) (macOf E key w.1 payload) payload).1 := rfl
  have e2 : w.2.2 = (ctrXor2 E key (ctr0 w.1) (macOf E key w.1 payload) payload).2 := rfl
  rw [e1, e2, hrt]
  simp

theorem take_left {α} (a b : List α) (n : Nat) (h : a.length = n) : (a ++ b).take n = a := by
  subst h; simp

theorem drop_left {α} (a b : List α) (n : Nat) (h : a.length = n) : (a ++ b).drop n = b := by
  subst h; simp

/-- The same on wire octets: the frame `to_knx()` writes parses back (`KNXIPFrame.from_knx` /
`SecureWrapper.from_knx`) into exactly its fields. -/
theorem parse_frameBytes (f : Fields) (hf : f.WF) (enc mac : Bytes) (hm : mac.length = 16) (he : 2 ≤ enc.length)
    (hlen : toNatBE (f.header.drop 4) = 38 + enc.length) (hh : f.header.take 4 = [0x06, 0x10, 0x09, 0x50]) :
    parseFrame (frameBytes f enc mac) = some (f, enc, mac) := by
  obtain ⟨h1, h2, h3, h4, h5⟩ := hf
  obtain ⟨hd, sd, sq, sr, tg⟩ := f
  simp only at h1 h2 h3 h4 h5 hlen hh
  have hraw : frameBytes ⟨hd, sd, sq, sr, tg⟩ enc mac = hd ++ (sd ++ (sq ++ (sr ++ (tg ++ (enc ++ mac))))) := by
    simp [frameBytes]
  have hlenraw : (frameBytes ⟨hd, sd, sq, sr, tg⟩ enc mac).length = 38 + enc.length := by
    rw [hraw]; simp only [List.length_append, h1, h2, h3, h4, h5, hm]; omega
  have t4 : (frameBytes ⟨hd, sd, sq, sr, tg⟩ enc mac).take 4 = [0x06, 0x10, 0x09, 0x50] := by
    rw [hraw, List.take_append_of_le_length (by omega)]; exact hh
  have d4 : ((frameBytes ⟨hd, sd, sq, sr, tg⟩ enc mac).drop 4).take 2 = hd.drop 4 := by
    rw [hraw, List.drop_append_of_le_length (by omega)]
    exact take_left _ _ 2 (by simp; omega)
  unfold parseFrame
  rw [hlenraw, t4, d4, hlen]
  simp only [show ¬ (38 + enc.length < 6 + 16 + 2 + 16) by omega, ne_eq, not_true_eq_false, ↓reduceIte]
  rw [hraw, take_left _ _ 6 h1, drop_left _ _ 6 h1, take_left _ _ 2 h2, drop_left _ _ 2 h2,
    take_left _ _ 6 h3, drop_left _ _ 6 h3, take_left _ _ 6 h4, drop_left _ _ 6 h4,
    take_left _ _ 2 h5, drop_left _ _ 2 h5]
  have hl : (enc ++ mac).length - 16 = enc.length := by simp [hm]
  rw [hl, take_left _ _ _ rfl, drop_left _ _ _ rfl]

/-! ### (2) a change of the MAC field alone is rejected — unconditionally -/

/-- If a wrapper is accepted with MAC `mac`, the same wrapper with any other 16-octet MAC is rejected with the
MAC error: no assumption on `E` beyond its block length. -/
theorem mac_change_rejected (E : BlockFn) (hE : E.Len16) (key : Bytes) (sid : Nat) (f : Fields) (enc mac mac' p : Bytes)
    (hm : mac.length = 16) (hm' : mac'.length = 16) (hne : mac' ≠ mac)
    (hok : decryptFrame E key sid f enc mac = .ok p) :
    decryptFrame E key sid f enc mac' = .error .mac := by
  obtain ⟨hs, hp, ht⟩ := (decryptFrame_ok_iff E hE key sid f enc mac p hm).mp hok
  have hno : ∀ q, decryptFrame E key sid f enc mac' ≠ .ok q := by
    intro q hq
    obtain ⟨-, hq', ht'⟩ := (decryptFrame_ok_iff E hE key sid f enc mac' q hm').mp hq
    rw [hq', ← hp, ht] at ht'
    exact hne ht'.symm
  unfold decryptFrame at hno ⊢
  simp only [hs, ne_eq, not_true_eq_false, ↓reduceIte] at hno ⊢
  split
  · rename_i h; exact absurd (if_pos h) (hno _)
  · rfl

/-! ### (3) every authenticated field enters the MAC input injectively -/

/-- `B_0 | len(A) | A | payload` determines header, session id, sequence information, serial number, message tag
and payload: two different (well-formed) field sets or payloads never give the same CBC-MAC input. -/
theorem macInput_injective (f f' : Fields) (p p' : Bytes) (hf : f.WF) (hf' : f'.WF)
    (h : macInput f p = macInput f' p') : f = f' ∧ p = p' := by
  obtain ⟨h1, h2, h3, h4, h5⟩ := hf
  obtain ⟨h1', h2', h3', h4', h5'⟩ := hf'
  obtain ⟨hd, sd, sq, sr, tg⟩ := f
  obtain ⟨hd', sd', sq', sr', tg'⟩ := f'
  simp only at h1 h2 h3 h4 h5 h1' h2' h3' h4' h5'
  simp only [macInput, block0, List.append_assoc] at h
  obtain ⟨e1, g1⟩ := List.append_inj h (by omega)
  obtain ⟨e2, g2⟩ := List.append_inj g1 (by omega)
  obtain ⟨e3, g3⟩ := List.append_inj g2 (by omega)
  obtain ⟨-, g4⟩ := List.append_inj g3 (by simp [ofNatBE_length])
  obtain ⟨-, g5⟩ := List.append_inj g4 (by simp [ofNatBE_length])
  obtain ⟨e4, g6⟩ := List.append_inj g5 (by omega)
  obtain ⟨e5, g7⟩ := List.append_inj g6 (by omega)
  rw [e1, e2, e3, e4, e5, g7]
  exact ⟨rfl, rfl⟩

/-- …and the ciphertext determines the payload that is MACed: under one key and one `Ctr_0`, different
ciphertexts decrypt to different payloads. -/
theorem ciphertext_injective (E : BlockFn) (hE : E.Len16) (key : Bytes) (f : Fields) (enc enc' : Bytes)
    (h : decPayload E key f enc = decPayload E key f enc') : enc = enc' := by
  have hl : enc.length = enc'.length := by
    rw [← decPayload_length E hE key f enc, ← decPayload_length E hE key f enc', h]
  unfold decPayload at h
  rw [← hl] at h
  exact xorBytes_inj hl (ctrStream_long E hE key _ _) h

/-! ### (4) any other change is rejected, given no MAC collision -/

/-- Take a wrapper made by `encrypt_frame` and change anything but its MAC field — header, session id,
sequence information, serial number, message tag or ciphertext (`(f', enc') ≠ (f, enc)`).  If the tag function
does not collide on the pair (`hNoColl`), the changed wrapper is rejected, for whatever session id the receiver
expects. -/
theorem tamper_rejected (E : BlockFn) (hE : E.Len16) (key : Bytes) (sid : Nat) (seq serial tag payload : Bytes)
    (f' : Fields) (enc' : Bytes) (sid' : Nat)
    (hchg : (f', enc') ≠ ((encryptFrame E key sid seq serial tag payload).1, (encryptFrame E key sid seq serial tag payload).2.1))
    (hNoColl : ∀ p', (f', p') ≠ ((encryptFrame E key sid seq serial tag payload).1, payload) →
      tagOf E key f' p' ≠ tagOf E key (encryptFrame E key sid seq serial tag payload).1 payload) :
    ∀ p, decryptFrame E key sid' f' enc' (encryptFrame E key sid seq serial tag payload).2.2 ≠ .ok p := by
  intro p hok
  obtain ⟨hmac, henc⟩ := encryptFrame_parts E hE key sid seq serial tag payload
  generalize hw : encryptFrame E key sid seq serial tag payload = w at *
  have hm : w.2.2.length = 16 := by
    rw [hmac]; unfold tagOf
    rw [xorBytes_length, macOf_length E hE, hE]; rfl
  obtain ⟨-, hp, ht⟩ := (decryptFrame_ok_iff E hE key sid' f' enc' w.2.2 p hm).mp hok
  rw [hmac] at ht
  by_cases heq : (f', p) = (w.1, payload)
  · -- same fields and same plaintext: then the ciphertext is the same too
    obtain ⟨hf, hpp⟩ := Prod.mk.inj heq
    subst hf
    apply hchg
    congr 1
    apply ciphertext_injective E hE key w.1
    rw [← hp, hpp]
    unfold decPayload
    rw [henc]
    have hl : (xorBytes payload (ctrStream E key (nblocks payload.length) (inc128 (ctr0 w.1)))).length = payload.length := by
      have := ctrStream_long E hE key (inc128 (ctr0 w.1)) payload.length
      rw [xorBytes_length]; omega
    rw [hl]
    exact (xorBytes_cancel payload _ (ctrStream_long E hE key _ _)).symm
  · exact hNoColl p heq ht

/-- `hNoColl` is satisfiable — and holds for AES-128 on a concrete pair that differs in one bit of the
sequence information (kernel evaluation of the real cipher). -/
example :
    tagOf AES (List.replicate 16 7) ⟨wrapHeader 8, [0, 1], [0, 0, 0, 0, 0, 4], [0, 0xfa, 1, 2, 3, 4], [0, 0]⟩
        [0x06, 0x10, 0x09, 0x54, 0x00, 0x08, 0x00, 0x04] ≠
    tagOf AES (List.replicate 16 7) ⟨wrapHeader 8, [0, 1], [0, 0, 0, 0, 0, 5], [0, 0xfa, 1, 2, 3, 4], [0, 0]⟩
        [0x06, 0x10, 0x09, 0x54, 0x00, 0x08, 0x00, 0x04] := by
  decide +kernel

/-- **The header is part of the authenticated data.**  `decrypt_frame` computes the MAC over the header octets of the
frame object it is handed (`decryptFrame` takes them from `f.header`): the genuine body and MAC under ANY other
header — a changed total length, another service type — is rejected, given no collision of the tag function on the pair. -/
theorem header_change_rejected (E : BlockFn) (hE : E.Len16) (key : Bytes) (sid : Nat) (seq serial tag payload hdr' : Bytes)
    (sid' : Nat) (hne : hdr' ≠ wrapHeader payload.length)
    (hNoColl : ∀ p', tagOf E key { (encryptFrame E key sid seq serial tag payload).1 with header := hdr' } p' ≠
      tagOf E key (encryptFrame E key sid seq serial tag payload).1 payload) :
    ∀ p, decryptFrame E key sid' { (encryptFrame E key sid seq serial tag payload).1 with header := hdr' }
      (encryptFrame E key sid seq serial tag payload).2.1 (encryptFrame E key sid seq serial tag payload).2.2 ≠ .ok p := by
  apply tamper_rejected E hE key sid seq serial tag payload _ _ sid'
  · intro h
    have := congrArg (fun x => x.1.header) h
    exact hne this
  · intro p' _
    exact hNoColl p'

/-- satisfiable for AES-128: the genuine fields under a header whose total length has one bit flipped give another tag -/
example :
    tagOf AES (List.replicate 16 7) ⟨[0x06, 0x10, 0x09, 0x50, 0x00, 0x2f], [0, 1], [0, 0, 0, 0, 0, 4], [0, 0xfa, 1, 2, 3, 4], [0, 0]⟩
        [0x06, 0x10, 0x09, 0x54, 0x00, 0x08, 0x00, 0x04] ≠
    tagOf AES (List.replicate 16 7) ⟨wrapHeader 8, [0, 1], [0, 0, 0, 0, 0, 4], [0, 0xfa, 1, 2, 3, 4], [0, 0]⟩
        [0x06, 0x10, 0x09, 0x54, 0x00, 0x08, 0x00, 0x04] := by
  decide +kernel

/-- A wrapper for another session id is rejected (unconditionally): this is the explicit check of `decrypt_frame`. -/
theorem other_session_rejected (E : BlockFn) (key : Bytes) (sid' : Nat) (f : Fields) (enc mac : Bytes)
    (h : toNatBE f.sid ≠ sid') : decryptFrame E key sid' f enc mac = .error .sid := by
  unfold decryptFrame; simp [h]

theorem wrap_other_session_rejected (E : BlockFn) (key : Bytes) (sid sid' : Nat) (hsid : sid < 65536) (hne : sid ≠ sid')
    (seq serial tag payload : Bytes) :
    let w := encryptFrame E key sid seq serial tag payload
    decryptFrame E key sid' w.1 w.2.1 w.2.2 = .error .sid := by
  intro w
  apply other_session_rejected
  show toNatBE (ofNatBE 2 sid) ≠ sid'
  rw [toNatBE_ofNatBE 2 sid (by simpa using hsid)]; exact hne

/-- A receiver holding another key accepts only if that key reproduces the transmitted tag on what it decrypts
(i.e. only by forging the MAC): acceptance ⇒ `tagOf key' f p = mac`. -/
theorem other_key_needs_forgery (E : BlockFn) (hE : E.Len16) (key' : Bytes) (sid : Nat) (f : Fields) (enc mac p : Bytes)
    (hm : mac.length = 16) (hok : decryptFrame E key' sid f enc mac = .ok p) :
    p = decPayload E key' f enc ∧ tagOf E key' f p = mac :=
  ((decryptFrame_ok_iff E hE key' sid f enc mac p hm).mp hok).2

/-! ### (5) the code's construction equals the specification's -/

theorem ctr0_split (f : Fields) : ctr0 f = (f.seq ++ f.serial ++ f.tag ++ [0xff]) ++ [0] := by
  simp [ctr0]

theorem ctrBlock_ctr0_zero (f : Fields) : ctrBlock (ctr0 f) 0 = ctr0 f := by
  rw [ctrBlock, ctr0_split, List.dropLast_concat]

/-- `encrypt_frame` (CBC mode + last block; 128-bit big-endian counter as in `cryptography`/OpenSSL) produces
exactly the wrapper of KNX 03.08.09: MAC = textbook CBC-MAC over `B_0 | len(A) | A | P` XOR `E(Ctr_0)`, payload
block i XOR `E(Ctr_i)` with the block index in the last octet — for every frame of up to 255 blocks (4080 octets). -/
theorem codeWrap_eq_specWrap (E : BlockFn) (hE : E.Len16) (key : Bytes) (sid : Nat) (seq serial tag payload : Bytes)
    (hlen : nblocks payload.length + 1 ≤ 256) :
    let w := encryptFrame E key sid seq serial tag payload
    w.2.1 = specEnc E key w.1 payload ∧ w.2.2 = specMac E key w.1 payload := by
  intro w
  obtain ⟨hmac, henc⟩ := encryptFrame_parts E hE key sid seq serial tag payload
  constructor
  · show w.2.1 = _
    rw [henc]
    unfold specEnc
    congr 1
    -- key stream: OpenSSL counter = specification counter blocks
    have hs := ctrStream_eq_spec E key (w.1.seq ++ w.1.serial ++ w.1.tag ++ [0xff]) (nblocks payload.length + 1) hlen
    rw [← ctr0_split, ctrStream, ctrStreamSpec, List.range_succ_eq_map, List.flatMap_cons, List.flatMap_map] at hs
    have := (List.append_inj hs (by rw [hE, hE])).2
    rw [this]
  · show w.2.2 = _
    rw [hmac]
    unfold tagOf specMac macOf macCbc
    rw [ctrBlock_ctr0_zero]
    congr 1
    have hne : pad16 (macInput w.1 payload) ≠ [] := by
      obtain ⟨z, hz, -⟩ := pad16_prefix (macInput w.1 payload)
      intro h0
      rw [hz] at h0
      have := (List.append_eq_nil_iff.mp h0).1
      have h2 : 2 ≤ (macInput w.1 payload).length := by
        simp only [macInput, List.length_append, ofNatBE_length]; omega
      rw [this] at h2; simp at h2
    exact cbcLast_eq_cbcMac E hE key _ hne

/-! ### (6) handshake and timer-notify MACs -/

theorem mac_roundtrip (E : BlockFn) (hE : E.Len16) (key ctr m : Bytes) :
    (decryptCtr E key ctr (encryptDataCtr E key ctr m []).2 []).2 = m := by
  have h := ctrXor2_roundtrip E hE key ctr m []
  simp only at h
  have h1 : (ctrXor2 E key ctr m []).1 = [] := by
    have hl := ctrXor_length E hE key ctr (m ++ [])
    simp only [ctrXor2]
    apply List.drop_of_length_le
    rw [hl]; simp
  unfold decryptCtr encryptDataCtr
  rw [h1] at h
  rw [h]

/-- The SessionResponse MAC a conforming server computes is accepted by `handshake`; any other 16-octet MAC
is refused. -/
theorem session_response_mac_verifies (E : BlockFn) (hE : E.Len16) (devAuth sid pkXor : Bytes) :
    sessionResponseVerify E devAuth sid pkXor (sessionResponseMac E devAuth sid pkXor) = true ∧
    ∀ mac', mac'.length = 16 → mac' ≠ sessionResponseMac E devAuth sid pkXor →
      sessionResponseVerify E devAuth sid pkXor mac' = false := by
  constructor
  · unfold sessionResponseVerify sessionResponseMac
    rw [mac_roundtrip E hE]; simp
  · intro mac' hl hne
    have hcl : (sessionResponseMacCbc E devAuth sid pkXor).length = 16 := macCbc_length E hE _ _ _ _
    have hS : (E devAuth ctr0Handshake).length = 16 := hE _ _
    unfold sessionResponseVerify decryptCtr
    rw [(ctrXor2_parts E hE devAuth ctr0Handshake mac' [] hl).1]
    simp only [beq_eq_false_iff_ne, ne_eq]
    intro heq
    apply hne
    unfold sessionResponseMac encryptDataCtr
    rw [(ctrXor2_parts E hE devAuth ctr0Handshake _ [] hcl).1, ← heq]
    exact (xorBytes_cancel mac' _ (by omega)).symm

/-- Same for the TimerNotify MAC of `send_timer_notify` / `verify_timer_notify_mac`. -/
theorem timer_notify_mac_verifies (E : BlockFn) (hE : E.Len16) (key timer serial tag : Bytes) :
    timerNotifyVerify E key timer serial tag (timerNotifyMac E key timer serial tag) = true ∧
    ∀ mac', mac'.length = 16 → mac' ≠ timerNotifyMac E key timer serial tag →
      timerNotifyVerify E key timer serial tag mac' = false := by
  constructor
  · unfold timerNotifyVerify timerNotifyMac
    rw [mac_roundtrip E hE]; simp
  · intro mac' hl hne
    have hcl : (timerNotifyMacCbc E key timer serial tag).length = 16 := macCbc_length E hE _ _ _ _
    have hS : (E key (timer ++ serial ++ tag ++ [0xff, 0x00])).length = 16 := hE _ _
    unfold timerNotifyVerify decryptCtr
    rw [(ctrXor2_parts E hE key _ mac' [] hl).1]
    simp only [beq_eq_false_iff_ne, ne_eq]
    intro heq
    apply hne
    unfold timerNotifyMac encryptDataCtr
    rw [(ctrXor2_parts E hE key _ _ [] hcl).1, ← heq]
    exact (xorBytes_cancel mac' _ (by omega)).symm

/-! ### Non-vacuity: the specification's worked example, computed by the model with the real AES -/

/-- KNX IP Secure specification example (also the repo's `secure_session_test`): SessionAuthenticate
frame wrapped under the example session key gives the example ciphertext and MAC. -/
example :
    wrap AES [0x28, 0x94, 0x26, 0xc2, 0x91, 0x25, 0x35, 0xba, 0x98, 0x27, 0x9a, 0x4d, 0x18, 0x43, 0xc4, 0x87]
      1 [0, 0, 0, 0, 0, 0] [0x00, 0xfa, 0x12, 0x34, 0x56, 0x78] [0xaf, 0xfe]
      [0x06, 0x10, 0x09, 0x53, 0x00, 0x18, 0x00, 0x01, 0x1f, 0x1d, 0x59, 0xea, 0x9f, 0x12, 0xa1, 0x52,
       0xe5, 0xd9, 0x72, 0x7f, 0x08, 0x46, 0x2c, 0xde]
    = [0x06, 0x10, 0x09, 0x50, 0x00, 0x3e, 0x00, 0x01, 0, 0, 0, 0, 0, 0, 0x00, 0xfa, 0x12, 0x34, 0x56, 0x78, 0xaf, 0xfe,
       0x79, 0x15, 0xa4, 0xf3, 0x6e, 0x6e, 0x42, 0x08, 0xd2, 0x8b, 0x4a, 0x20, 0x7d, 0x8f, 0x35, 0xc0,
       0xd1, 0x38, 0xc2, 0x6a, 0x7b, 0x5e, 0x71, 0x69,
       0x52, 0xdb, 0xa8, 0xe7, 0xe4, 0xbd, 0x80, 0xbd, 0x7d, 0x86, 0x8a, 0x3a, 0xe7, 0x87, 0x49, 0xde] := by
  decide +kernel

end XknxVerif.Props.C28
