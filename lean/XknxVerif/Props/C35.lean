/-
C35  State updater reads exactly when its tracking policy says.
Property theorems only.  Part 1: `parse_tracker_options` as a pure function.  Part 2: theorems about
EVERY trace the monitor `StateUpdater.step?` accepts (any number of values, kinds and intervals, any
history of connection changes, registrations, state telegrams, answers and time-outs).
-/
import XknxVerif.Lemmas.StateUpdater

namespace XknxVerif.Props.C35
open XknxVerif.StateUpdater XknxVerif.Monitor XknxVerif.Generated.StateUpdaterConst

/-! ## Part 1: option parsing -/

def inRange (v : Int) : Prop := 1000 ≤ v ∧ v ≤ (maxUpdateIntervalMin : Int) * 1000

theorem clampInterval_inRange (v : Int) : inRange (clampInterval v) := by
  unfold clampInterval inRange
  have : (1000 : Int) ≤ (maxUpdateIntervalMin : Int) * 1000 := by decide
  split
  · omega
  · split <;> omega

/-- **Clamping.**  Whatever option is passed (bool, number, string, tuple), the interval that
`parse_tracker_options` returns lies within 1 … MAX_UPDATE_INTERVAL minutes, provided the default does. -/
theorem parse_interval_in_range (dflt : TKind × Int) (o : Opt) (r : TKind × Int) (hd : inRange dflt.2)
    (h : parse dflt o = .ok r) : inRange r.2 := by
  cases o with
  | bool b => simp only [parse] at h; injection h with h; subst h; exact hd
  | num v => simp only [parse] at h; injection h with h; subst h; exact clampInterval_inRange v
  | topt k v => simp only [parse] at h; injection h with h; subst h; exact clampInterval_inRange v
  | str ws =>
    cases ws with
    | nil => simp [parse] at h
    | cons w rest =>
      simp only [parse] at h
      split at h
      · injection h with h; subst h; exact hd
      · split at h
        · injection h with h; subst h; exact hd
        · split at h <;> injection h with h <;> subst h
          · exact clampInterval_inRange _
          · exact hd

/-- … and so does the default the constructor derives (from `DEFAULT_UPDATE_INTERVAL`, regenerated),
hence every interval a tracker is created with. -/
theorem parseWithDefault_in_range (d o : Opt) (r : TKind × Int) (h : parseWithDefault d o = .ok r) : inRange r.2 := by
  unfold parseWithDefault at h
  cases hd : parse baseDefault d with
  | error e => simp [hd, bind, Except.bind] at h
  | ok dflt =>
    simp only [hd, bind, Except.bind] at h
    have hb : inRange baseDefault.2 := by unfold inRange baseDefault; decide
    exact parse_interval_in_range dflt o r (parse_interval_in_range baseDefault d dflt hb hd) h

/-- The first word selects the tracker type (case-insensitively); an unknown word keeps the default. -/
theorem parse_kind_word (dflt : TKind × Int) (w : String) (rest : List String) (r : TKind × Int)
    (h : parse dflt (.str (w :: rest)) = .ok r) :
    (∀ k, kindOfWord w = some k → r.1 = k) ∧ (kindOfWord w = none → r = dflt) := by
  simp only [parse] at h
  split at h
  · rename_i hk
    injection h with h; subst h
    exact ⟨fun k hk' => by rw [hk] at hk'; simp at hk', fun _ => rfl⟩
  · rename_i k hk
    refine ⟨fun k' hk' => ?_, fun hn => by rw [hk] at hn; simp at hn⟩
    rw [hk] at hk'; injection hk' with hk'; subst hk'
    split at h
    · injection h with h; subst h; rfl
    · split at h <;> injection h with h <;> subst h <;> rfl

/-- The only failure is the `IndexError` of a whitespace-only option string. -/
theorem parse_error_only_empty (dflt : TKind × Int) (o : Opt) (e : PErr) (h : parse dflt o = .error e) :
    o = .str [] := by
  cases o with
  | bool b => simp [parse] at h
  | num v => simp [parse] at h
  | topt k v => simp [parse] at h
  | str ws =>
    cases ws with
    | nil => rfl
    | cons w rest =>
      simp only [parse] at h
      split at h
      · simp at h
      · split at h
        · simp at h
        · split at h <;> simp at h

/-- The constants the model reads are the ones the code declares (regenerated each run). -/
theorem declared_constants :
    parallelReads = 2 ∧ readTimeoutUs = 2000000 ∧ defaultUpdateIntervalMin = 60 ∧ maxUpdateIntervalMin = 1440 ∧
    trackerTypes.lookup "INIT" = some 1 ∧ trackerTypes.lookup "EXPIRE" = some 2 ∧
    trackerTypes.lookup "PERIODICALLY" = some 3 := by decide

-- (string options do not reduce in the kernel - `String` operations are opaque there; they are covered by the
-- mode-F correspondence on every run)
example : parseWithDefault (.bool false) (.num 500) = .ok (.expire, 1000) := by decide
example : parseWithDefault (.topt .every 10000) (.bool true) = .ok (.every, 10000) := by decide
example : parseWithDefault (.bool true) (.num 99999000) = .ok (.expire, 1440000) := by decide
example : parseWithDefault (.bool true) (.str []) = .error .indexError := by decide

/-! ## Part 2: the monitor -/

def Accepted (cfg : List (Kind × Nat)) (tr : List Obs) (s : State) : Prop :=
  run? step? (init cfg) tr = some s

theorem inv_accepted (cfg : List (Kind × Nat)) (tr : List Obs) (s : State) (h : Accepted cfg tr s) : Inv s :=
  inv_run? step? Inv inv_step tr (init cfg) s (inv_init cfg) h

theorem slots_accepted (cfg : List (Kind × Nat)) (tr : List Obs) (s : State) (h : Accepted cfg tr s) : Slots s :=
  inv_run? step? Slots (fun s o s' hi hs => slots_step hs hi) tr (init cfg) s (by simp [init, Slots]) h

/-- **At most two reads in progress.**  After every accepted trace every read in progress holds one of the
`parallel_reads` (= 2) read slots, so at most two reads are between their GroupValueRead and their completion
(answer or time-out) — including reads whose tracker has meanwhile been cancelled. -/
theorem at_most_two_reads_in_progress (cfg : List (Kind × Nat)) (tr : List Obs) (s : State)
    (h : Accepted cfg tr s) : s.inflight.length ≤ s.held ∧ s.held ≤ 2 ∧ s.inflight.length ≤ 2 := by
  have hp : parallelReads = 2 := by decide
  have := slots_accepted cfg tr s h
  unfold Slots at this
  omega

/-- **Slot accounting.**  Whenever the clock advances (the system is at rest): the slots held beyond the reads
in progress belong to trackers that want to read and wait for the outgoing queue to drain — there are no more
of them than such trackers (no slot is lost when a waiting tracker is cancelled), none at all when the outgoing
queue is idle, and no slot stays free while a tracker wants to read. -/
theorem slot_accounting_at_rest (cfg : List (Kind × Nat)) (tr : List Obs) (t : Nat) (s : State)
    (h : Accepted cfg (tr ++ [.adv t]) s) :
    ∃ s1, Accepted cfg tr s1 ∧ s1.held - s1.inflight.length ≤ dueCount s1 ∧
      (s1.held < 2 → dueCount s1 ≤ s1.held - s1.inflight.length) ∧
      (s1.qbusy = false → s1.held = s1.inflight.length) := by
  obtain ⟨s1, h1, h2⟩ := run?_append_some step? h
  rw [run?_singleton] at h2
  have hp : parallelReads = 2 := by decide
  simp only [step?] at h2
  split at h2
  · rename_i hc
    exact ⟨s1, h1, hc.2.2.1, by rw [← hp]; exact hc.2.2.2.1, fun hq => (hc.2.2.2.2 hq).1⟩
  · simp at h2

/-- **No read unless connected, registered and tracking.**  A `read i` is accepted only when the
updater is started (connected), value `i` is registered with a tracker (state address and
sync_state), fewer than two reads are in progress, and tracker `i` is due (initial read pending, or
its sleep is over). -/
theorem read_only_when_allowed (cfg : List (Kind × Nat)) (tr : List Obs) (i : Nat) (s : State)
    (h : Accepted cfg (tr ++ [.read i]) s) :
    ∃ s1, Accepted cfg tr s1 ∧ s1.started = true ∧ (s1.trs i).reg = true ∧ (s1.trs i).kind ≠ .none ∧
      s1.inflight.length < 2 ∧
      ((∃ b, (s1.trs i).phase = .want b) ∨ (∃ d, (s1.trs i).phase = .sleeping d ∧ d ≤ s1.now)) := by
  obtain ⟨s1, h1, h2⟩ := run?_append_some step? h
  rw [run?_singleton] at h2
  have hr := read_requires h2
  have : parallelReads = 2 := by decide
  exact ⟨s1, h1, hr.2.1, hr.2.2.1, hr.2.2.2.1, by omega, hr.2.2.2.2.2.1⟩

/-- **None while disconnected.**  After `stop()` or after a connection state other than `connected`
is delivered to the listening updater, no read is issued until `connected` is delivered again or the
updater is started again — whatever else happens (`b` arbitrary otherwise). -/
theorem no_read_while_disconnected (cfg : List (Kind × Nat)) (a b : List Obs) (o0 o : Obs) (s1 s : State)
    (_ha : Accepted cfg a s1)
    (h0 : o0 = .stop ∨ ∃ c, o0 = .conn c ∧ c ≠ 2 ∧ s1.listening = true)
    (hb : ∀ e ∈ b, e ≠ .begin ∧ e ≠ .conn 2)
    (h : run? step? s1 ([o0] ++ b ++ [o]) = some s) : ∀ i, o ≠ .read i := by
  obtain ⟨s3, h3, h4⟩ := run?_append_some step? h
  obtain ⟨s2, h2, h3'⟩ := run?_append_some step? h3
  rw [run?_singleton] at h2 h4
  have hs2 : s2.started = false := by
    rcases h0 with rfl | ⟨c, rfl, hc, hl⟩
    · simp only [step?] at h2; injection h2 with h2; subst h2; rfl
    · simp only [step?] at h2
      split at h2
      · simp only [hl, ↓reduceIte] at h2
        have hc2 : (c == 2) = false := by simp [hc]
        simp only [hc2, Bool.false_eq_true, ↓reduceIte] at h2
        injection h2 with h2; subst h2
        split
        · rfl
        · rename_i hns; simpa using hns
      · simp at h2
  have hs3 : s3.started = false :=
    until_run? step? (fun s => s.started = false) (fun e => e ≠ .begin ∧ e ≠ .conn 2)
      (fun s o s' hs hok hst => by
        cases hx : s'.started
        · rfl
        · rcases (flags_step hst 0).1 hx with h1 | h1 | h1
          · rw [hs] at h1; simp at h1
          · exact absurd h1 hok.1
          · exact absurd h1 hok.2) b s2 s3 hs2 hb h3'
  intro i hoi; subst hoi
  have := (read_requires h4).2.1
  rw [hs3] at this; simp at this

/-- **None for an unregistered value.**  After the device of value `i` is removed, no `read i` is
issued until it is added again. -/
theorem no_read_while_unregistered (cfg : List (Kind × Nat)) (a b : List Obs) (i : Nat) (s : State)
    (hb : ∀ e ∈ b, e ≠ .reg i) (h : Accepted cfg (a ++ [.unreg i] ++ b ++ [.read i]) s) : False := by
  obtain ⟨s3, h3, h4⟩ := run?_append_some step? h
  obtain ⟨s2, h2, h3'⟩ := run?_append_some step? h3
  obtain ⟨s1, _, h2'⟩ := run?_append_some step? h2
  rw [run?_singleton] at h2' h4
  have hs2 : (s2.trs i).reg = false := by
    simp only [step?] at h2'
    split at h2'
    · injection h2' with h2'; subst h2'; simp
    · simp at h2'
  have hs3 : (s3.trs i).reg = false :=
    until_run? step? (fun s => (s.trs i).reg = false) (fun e => e ≠ .reg i)
      (fun s o s' hs hok hst => by
        cases hx : (s'.trs i).reg
        · rfl
        · rcases (flags_step hst i).2.2.1 hx with h1 | h1
          · rw [hs] at h1; simp at h1
          · exact absurd h1 hok) b s2 s3 hs2 hb h3'
  have := (read_requires h4).2.2.1
  rw [hs3] at this; simp at this

/-- **Reads are not delayed.**  The clock advances only when no read is due: if time passes while the outgoing
queue is idle and a started, registered tracker still waits for its (initial or periodic) read, then two
reads are in progress.  (While the outgoing queue is busy the trackers wait for it with their slot.) -/
theorem due_read_not_delayed (cfg : List (Kind × Nat)) (tr : List Obs) (t : Nat) (s : State)
    (h : Accepted cfg (tr ++ [.adv t]) s) :
    ∃ s1, Accepted cfg tr s1 ∧ (s1.qbusy = false → ∀ i, i < s1.n → active s1 i = true →
      ((∃ b, (s1.trs i).phase = .want b) ∨ (∃ d, (s1.trs i).phase = .sleeping d ∧ d < t)) →
      s1.inflight.length = 2) := by
  obtain ⟨s1, h1, h2⟩ := run?_append_some step? h
  rw [run?_singleton] at h2
  refine ⟨s1, h1, ?_⟩
  intro hq i hi hact hph
  have hle := (at_most_two_reads_in_progress cfg tr s1 h1).2.2
  have hp : parallelReads = 2 := by decide
  simp only [step?] at h2
  split at h2
  · rename_i hc
    apply Classical.byContradiction
    intro hne
    have hlt : s1.inflight.length < parallelReads := by omega
    have hall := (hc.2.2.2.2 hq).2 hlt
    rw [List.all_eq_true] at hall
    have hd := hall i (by simp [hi])
    have : dueBefore s1 i t = true := by
      unfold dueBefore
      rw [hact]
      rcases hph with ⟨b, hb⟩ | ⟨d, hd', hlt'⟩
      · simp [hb]
      · simp [hd', hlt']
    rw [this] at hd; simp at hd
  · simp at h2

/-- the initial read of tracker `i` is still owed -/
def Owed (i : Nat) (s : State) : Prop := active s i = true ∧ (s.trs i).phase = .want true

/-- **One read per (re)connection.**  When `connected` is delivered to a listening, not yet started
updater, every registered value with a tracker is read before the clock advances — unless two reads
are in progress at that moment (then it is still waiting for its slot).  `b` may contain anything
except connection changes, stop, (un)registration of `i` and a state update of `i` (for an `expire`
tracker a state update makes the initial read unnecessary and restarts its timer). -/
theorem one_read_per_connection (cfg : List (Kind × Nat)) (a b : List Obs) (i t : Nat) (s1 s : State)
    (_ha : Accepted cfg a s1) (hl : s1.listening = true) (hns : s1.started = false)
    (hreg : (s1.trs i).reg = true) (hk : (s1.trs i).kind ≠ .none)
    (hb : ∀ e ∈ b, e ≠ .stop ∧ (∀ c, e ≠ .conn c) ∧ e ≠ .unreg i ∧ e ≠ .reg i ∧ (∀ st, e ≠ .upd i st))
    (h : run? step? s1 ([.conn 2] ++ b ++ [.adv t]) = some s) :
    .read i ∈ b ∨ ∃ s3, run? step? s1 ([.conn 2] ++ b) = some s3 ∧ Owed i s3 := by
  by_cases hin : Obs.read i ∈ b
  · exact Or.inl hin
  · right
    obtain ⟨s3, h3, _⟩ := run?_append_some step? h
    obtain ⟨s2, h2, h3'⟩ := run?_append_some step? h3
    rw [run?_singleton] at h2
    refine ⟨s3, h3, ?_⟩
    have ho2 : Owed i s2 := by
      simp only [step?] at h2
      simp only [show (2 : Nat) < 3 by decide, hl, ↓reduceIte, beq_self_eq_true, hns, Bool.not_false] at h2
      injection h2 with h2; subst h2
      unfold Owed active
      simp [startAll, hreg, hk]
    exact until_run? step? (Owed i)
      (fun e => e ≠ .read i ∧ e ≠ .stop ∧ (∀ c, e ≠ .conn c) ∧ e ≠ .unreg i ∧ e ≠ .reg i ∧ (∀ st, e ≠ .upd i st))
      (fun s o s' ho hok hst => by
        obtain ⟨hact, hph⟩ := ho
        simp only [active, Bool.and_eq_true, bne_iff_ne, ne_eq] at hact
        obtain ⟨hkind, _, _, hcases⟩ := step_tr hst i
        obtain ⟨_, f2, _, f4, _⟩ := flags_step hst i
        have hst' : s'.started = true := by
          rcases f2 hact.1.1 with h1 | h1 | ⟨c, h1⟩
          · exact h1
          · exact absurd h1 hok.2.1
          · exact absurd h1 (hok.2.2.1 c)
        have hreg' : (s'.trs i).reg = true := by
          rcases f4 hact.1.2 with h1 | h1
          · exact h1
          · exact absurd h1 hok.2.2.2.1
        refine ⟨by simp [active, hst', hreg', hkind, hact.2], ?_⟩
        rcases hcases with h1 | ⟨_, h1⟩ | ⟨_, h1⟩ | ⟨st, h1, _⟩ | ⟨h1, _⟩ | ⟨h1, b', hb', _⟩
        · rw [h1]; exact hph
        · exact h1
        · rcases h1 with h1 | ⟨c, h1⟩ | h1 | h1
          · exact absurd h1 hok.2.1
          · exact absurd h1 (hok.2.2.1 c)
          · exact absurd h1 hok.2.2.2.1
          · exact absurd h1 hok.2.2.2.2.1
        · exact absurd h1 (hok.2.2.2.2.2 st)
        · exact absurd h1 hok.1
        · rw [hph] at hb'; simp at hb')
      b s2 s3 ho2 (fun e he => ⟨fun heq => hin (heq ▸ he), hb e he⟩) h3'

/-- since time `T0` tracker `i` has neither been restarted nor is a read owed: the next read cannot come
before `T0 + interval` -/
def QuietSince (T0 i : Nat) (s : State) : Prop :=
  T0 ≤ s.now ∧ (∀ b, (s.trs i).phase ≠ .want b) ∧ (∀ d, (s.trs i).phase = .sleeping d → T0 + (s.trs i).interval ≤ d)

theorem quietSince_step (T0 i : Nat) (s : State) (o : Obs) (s' : State) (hq : QuietSince T0 i s)
    (hok : isRestart i o = false) (h : step? s o = some s') : QuietSince T0 i s' := by
  obtain ⟨q1, q2, q3⟩ := hq
  obtain ⟨_, hiv, ⟨hnow, _⟩, hcases⟩ := step_tr h i
  refine ⟨Nat.le_trans q1 hnow, ?_, ?_⟩
  · intro b hb
    rcases hcases with h1 | ⟨h1, _⟩ | ⟨h1, _⟩ | ⟨st, _, _, h1⟩ | ⟨_, h1⟩ | ⟨_, b', _, h1⟩
    · rw [h1] at hb; exact q2 b hb
    · rw [hok] at h1; simp at h1
    · rw [h1] at hb; simp at hb
    · rw [h1] at hb; simp at hb
    · rcases h1 with ⟨b', _, h1⟩ | ⟨d, _, _, h1⟩ <;> rw [h1] at hb <;> simp at hb
    · rcases h1 with ⟨h1, _⟩ | h1 <;> rw [h1] at hb <;> simp at hb
  · intro d hd
    rw [hiv]
    rcases hcases with h1 | ⟨h1, _⟩ | ⟨h1, _⟩ | ⟨st, _, _, h1⟩ | ⟨_, h1⟩ | ⟨_, b', _, h1⟩
    · rw [h1] at hd; exact q3 d hd
    · rw [hok] at h1; simp at h1
    · rw [h1] at hd; simp at hd
    · rw [h1] at hd; injection hd with hd; omega
    · rcases h1 with ⟨b', _, h1⟩ | ⟨d', _, _, h1⟩ <;> rw [h1] at hd <;> simp at hd
    · rcases h1 with ⟨h1, _⟩ | h1 <;> rw [h1] at hd
      · simp at hd
      · injection hd with hd; omega

/-- From a quiet state, a later read of `i` (without restart in between) happens at or after `T0 + interval`. -/
theorem next_read_not_before (T0 i : Nat) (b : List Obs) (s2 s3 s : State) (hq : QuietSince T0 i s2)
    (hb : ∀ e ∈ b, isRestart i e = false) (h3 : run? step? s2 b = some s3) (h4 : step? s3 (.read i) = some s) :
    T0 + (s2.trs i).interval ≤ s3.now := by
  have hq3 : QuietSince T0 i s3 :=
    until_run? step? (QuietSince T0 i) (fun e => isRestart i e = false)
      (fun s o s' hq hok hst => quietSince_step T0 i s o s' hq hok hst) b s2 s3 hq hb h3
  have hiv : (s3.trs i).interval = (s2.trs i).interval :=
    until_run? step? (fun s => (s.trs i).interval = (s2.trs i).interval) (fun _ => True)
      (fun s o s' hs _ hst => by rw [(step_tr hst i).2.1]; exact hs) b s2 s3 rfl (fun _ _ => trivial) h3
  rcases (read_requires h4).2.2.2.2.2.1 with ⟨b', hb'⟩ | ⟨d, hd, hle⟩
  · exact absurd hb' (hq3.2.1 b')
  · have := hq3.2.2 d hd
    rw [hiv] at this; omega

/-- **Not twice.**  Two reads of the same value without a reconnection / restart / re-registration in between
are at least one interval apart — in particular the read owed for a (re)connection is issued once, not twice. -/
theorem reads_at_least_one_interval_apart (cfg : List (Kind × Nat)) (a b : List Obs) (i : Nat)
    (s1 s : State) (_ha : Accepted cfg a s1) (hb : ∀ e ∈ b, isRestart i e = false)
    (h : run? step? s1 ([.read i] ++ b ++ [.read i]) = some s) :
    ∃ s3, run? step? s1 ([.read i] ++ b) = some s3 ∧ s1.now + (s1.trs i).interval ≤ s3.now := by
  obtain ⟨s3, h3, h4⟩ := run?_append_some step? h
  obtain ⟨s2, h2, h3'⟩ := run?_append_some step? h3
  rw [run?_singleton] at h2 h4
  refine ⟨s3, h3, ?_⟩
  obtain ⟨_, hiv, ⟨hnow, hsame⟩, _⟩ := step_tr h2 i
  have hn : s2.now = s1.now := hsame (by intro t ht; simp at ht)
  have hread : ∃ b', (s2.trs i).phase = .reading b' := read_phase h2
  obtain ⟨b', hb'⟩ := hread
  have hq : QuietSince s1.now i s2 := by
    refine ⟨by omega, ?_, ?_⟩
    · intro b'' hb''; rw [hb'] at hb''; simp at hb''
    · intro d hd; rw [hb'] at hd; simp at hd
  have := next_read_not_before s1.now i b s2 s3 s hq hb h3' h4
  rw [hiv] at this; exact this

/-- **expire.**  After a state update of an `expire` tracker (a telegram for the value processed while
it is tracked), the next read of that value — short of a reconnection/restart/re-registration — comes
no earlier than a full interval later: it reads again only after a full interval without update. -/
theorem expire_reads_only_after_full_interval (cfg : List (Kind × Nat)) (a b : List Obs) (i : Nat) (st : Bool)
    (s1 s : State) (_ha : Accepted cfg a s1) (hact : active s1 i = true) (hk : (s1.trs i).kind = .expire)
    (hb : ∀ e ∈ b, isRestart i e = false)
    (h : run? step? s1 ([.upd i st] ++ b ++ [.read i]) = some s) :
    ∃ s3, run? step? s1 ([.upd i st] ++ b) = some s3 ∧ s1.now + (s1.trs i).interval ≤ s3.now := by
  obtain ⟨s3, h3, h4⟩ := run?_append_some step? h
  obtain ⟨s2, h2, h3'⟩ := run?_append_some step? h3
  rw [run?_singleton] at h2 h4
  refine ⟨s3, h3, ?_⟩
  have hs2 : (s2.trs i).phase = .sleeping (s1.now + (s1.trs i).interval) ∧ s2.now = s1.now ∧
      (s2.trs i).interval = (s1.trs i).interval := by
    simp only [step?] at h2
    split at h2
    · simp only [hact, hk, and_self, ↓reduceIte] at h2
      injection h2 with h2; subst h2
      simp
    · simp at h2
  have hq : QuietSince s1.now i s2 := by
    refine ⟨by omega, ?_, ?_⟩
    · intro b' hb'; rw [hs2.1] at hb'; simp at hb'
    · intro d hd; rw [hs2.1] at hd; injection hd with hd; rw [hs2.2.2]; omega
  have := next_read_not_before s1.now i b s2 s3 s hq hb h3' h4
  rw [hs2.2.2] at this; exact this

/-- **every.**  When the read a tracker was waiting for completes and the tracker goes back to sleep
(any kind but a finished `init`), its next read comes no earlier than one interval after that
completion. -/
theorem next_read_one_interval_after_completion (cfg : List (Kind × Nat)) (a b : List Obs) (i : Nat)
    (s1 s2 s3 s : State) (_ha : Accepted cfg a s1) (h2 : step? s1 (.done i) = some s2)
    (hph : (s2.trs i).phase = .sleeping (s1.now + (s1.trs i).interval))
    (hb : ∀ e ∈ b, isRestart i e = false) (h3 : run? step? s2 b = some s3)
    (h4 : step? s3 (.read i) = some s) : s1.now + (s1.trs i).interval ≤ s3.now := by
  obtain ⟨_, hiv, ⟨hnow, hsame⟩, _⟩ := step_tr h2 i
  have hn : s2.now = s1.now := hsame (by intro t ht; simp at ht)
  have hq : QuietSince s1.now i s2 := by
    refine ⟨by omega, ?_, ?_⟩
    · intro b' hb'; rw [hph] at hb'; simp at hb'
    · intro d hd; rw [hph] at hd; injection hd with hd; rw [hiv]; omega
  have := next_read_not_before s1.now i b s2 s3 s hq hb h3 h4
  rw [hiv] at this; exact this

/-- **init.**  Once an `init` tracker has finished its read (phase `done`, or it is off) no further read of
that value is issued until a reconnection / restart / re-registration. -/
theorem init_never_reads_again (i : Nat) (b : List Obs) (s2 s3 s : State) (hk : (s2.trs i).kind = .init)
    (hph : (s2.trs i).phase = .done ∨ (s2.trs i).phase = .off)
    (hb : ∀ e ∈ b, isRestart i e = false) (h3 : run? step? s2 b = some s3) : step? s3 (.read i) ≠ some s := by
  have hq3 : (s3.trs i).kind = .init ∧ ((s3.trs i).phase = .done ∨ (s3.trs i).phase = .off) :=
    until_run? step? (fun s => (s.trs i).kind = .init ∧ ((s.trs i).phase = .done ∨ (s.trs i).phase = .off))
      (fun e => isRestart i e = false)
      (fun s o s' hq hok hst => by
        obtain ⟨hkind, _, _, hcases⟩ := step_tr hst i
        refine ⟨by rw [hkind]; exact hq.1, ?_⟩
        rcases hcases with h1 | ⟨h1, _⟩ | ⟨h1, _⟩ | ⟨st, _, hk', _⟩ | ⟨_, h1⟩ | ⟨_, b', hb', _⟩
        · rw [h1]; exact hq.2
        · rw [hok] at h1; simp at h1
        · exact Or.inr h1
        · rw [hq.1] at hk'; simp at hk'
        · rcases h1 with ⟨b', hb', _⟩ | ⟨d, hd, _⟩ <;> rcases hq.2 with hq2 | hq2 <;> simp_all
        · rcases hq.2 with hq2 | hq2 <;> simp_all) b s2 s3 ⟨hk, hph⟩ hb h3
  intro h4
  rcases (read_requires h4).2.2.2.2.2.1 with ⟨b', hb'⟩ | ⟨d, hd, _⟩ <;> rcases hq3.2 with hq | hq <;> simp_all

/-- … and `done` is what an `init` tracker reaches when its own initial read completes. -/
theorem init_done_after_initial_read (s1 s2 : State) (i : Nat) (e : Fl)
    (hfind : s1.inflight.find? (finishable s1.now i) = some e) (ho : e.owner = true)
    (hph : (s1.trs i).phase = .reading true) (hk : (s1.trs i).kind = .init)
    (h : step? s1 (.done i) = some s2) : (s2.trs i).phase = .done := by
  simp only [step?, hfind, ho, ↓reduceIte, hph] at h
  injection h with h; subst h
  simp [hk]

/-! ## Non-vacuity (traces recorded from the real StateUpdater, after the fix) -/

/-- three `expire 1 min` values, nobody answers: two reads at once, the third waits for a slot; a telegram
on the main address of value 0 restarts its timer but does not free the slot. -/
def ex1 : List Obs :=
  [.reg 0, .reg 1, .reg 2, .begin, .conn 2, .sa, .sa, .read 0, .read 1, .qb, .qi, .adv 500000, .upd 0 false,
   .adv 2000000, .done 0, .sr, .done 1, .sr, .sa, .read 2, .qb, .qi, .adv 4000000, .done 2, .sr, .conn 0, .adv 5000000,
   .conn 2, .sa, .sa, .read 0, .read 1, .qb, .qi, .adv 5100000, .stop, .qb, .qi]

example : accepts [(.expire, 60000000), (.expire, 60000000), (.expire, 60000000)] ex1 = true := by decide

/-- busy outgoing queue (rate limit 10/s, burst of writes): the connection comes up, two trackers take the slots
and wait for the queue; the connection is lost before it has drained (both slots come back); after the
reconnection on an idle bus all three values are read. -/
def ex2 : List Obs :=
  [.reg 0, .reg 1, .reg 2, .begin, .qb, .adv 50000, .conn 2, .sa, .sa, .adv 150000, .conn 0, .sr, .sr, .adv 500000, .qi,
   .adv 3150000, .conn 2, .sa, .sa, .read 0, .read 1, .qb, .adv 3151000, .upd 0 true, .upd 1 true, .done 0, .sr, .done 1,
   .sr, .sa, .adv 3250000, .qi, .read 2, .qb, .adv 3251000, .upd 2 true, .done 2, .sr, .adv 3350000, .qi, .adv 8150000,
   .stop, .qb, .qi]

example : accepts [(.init, 3600000000), (.expire, 60000000), (.every, 60000000)] ex2 = true := by decide
/-- the same history with the two slots NOT coming back when the waiting trackers are cancelled (a lost
`release()` on cancellation) is rejected as soon as the clock advances -/
example : accepts [(.init, 3600000000), (.expire, 60000000), (.every, 60000000)]
    [.reg 0, .reg 1, .reg 2, .begin, .qb, .adv 50000, .conn 2, .sa, .sa, .adv 150000, .conn 0, .adv 500000] = false := by decide
/-- … and so is an updater that stays silent after a reconnection on an idle bus -/
example : accepts [(.init, 3600000000), (.expire, 60000000), (.every, 60000000)]
    [.reg 0, .reg 1, .reg 2, .begin, .conn 2, .adv 1] = false := by decide
/-- a third read while two are in progress, a read without a slot, a slot released before its read is done -/
example : accepts [(.expire, 60000000), (.expire, 60000000), (.expire, 60000000)]
    [.reg 0, .reg 1, .reg 2, .begin, .conn 2, .sa, .sa, .read 0, .read 1, .adv 500000, .upd 0 false, .sa] = false := by decide
example : accepts [(.expire, 60000000)] [.reg 0, .begin, .conn 2, .read 0] = false := by decide
example : accepts [(.expire, 60000000)] [.reg 0, .begin, .conn 2, .sa, .read 0, .sr] = false := by decide
/-- a read while disconnected, for an unregistered value, or before the interval is over is rejected -/
example : accepts [(.every, 60000000)]
    [.reg 0, .begin, .conn 2, .sa, .read 0, .conn 1, .adv 2000000, .done 0, .sr, .sa, .read 0] = false := by decide
example : accepts [(.every, 60000000)] [.begin, .conn 2, .sa, .read 0] = false := by decide
example : accepts [(.expire, 60000000)]
    [.reg 0, .begin, .conn 2, .sa, .read 0, .adv 1000, .upd 0 true, .done 0, .sr, .adv 60000999, .sa, .read 0] = false := by decide
example : accepts [(.expire, 60000000)]
    [.reg 0, .begin, .conn 2, .sa, .read 0, .adv 1000, .upd 0 true, .done 0, .sr, .adv 60001000, .sa, .read 0] = true := by decide
/-- a missing initial read is rejected as soon as the clock advances; an `init` value is not read twice -/
example : accepts [(.init, 60000000)] [.reg 0, .begin, .conn 2, .adv 1] = false := by decide
example : accepts [(.init, 60000000)]
    [.reg 0, .begin, .conn 2, .sa, .read 0, .adv 2000000, .done 0, .sr, .adv 90000000, .sa, .read 0] = false := by decide

end XknxVerif.Props.C35
