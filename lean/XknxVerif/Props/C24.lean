/-
C24  Outgoing tunnel frames are sequenced and confirmed only by their own ACK.
Property theorems about every trace accepted by the monitor of
`Model/TunnelSend.lean`, from any connected start state (channel `c0`,
outgoing counter `s0`).
-/
import XknxVerif.Model.TunnelSend

namespace XknxVerif.Props.C24
open XknxVerif.TunnelSend XknxVerif.Monitor

/-! ### what one accepted observation does (inversion of `mstep?`) -/

theorem step_sendCemi {m m' : M} {id t : Nat} (h : mstep? m (.sendCemi id t) = some m') :
    fresh m id = true ∧ m' = { m with queued := m.queued ++ [id], now := t } := by
  simp only [mstep?, Option.ite_none_right_eq_some, Option.some.injEq, Bool.and_eq_true,
    decide_eq_true_eq] at h
  exact ⟨h.1.2, h.2.symm⟩

theorem step_request {m m' : M} {ch seq id t : Nat}
    (h : mstep? m (.request ch seq id t) = some m') :
    m.chan = some ch ∧
    ((m.cur = none ∧ id ∈ m.queued ∧ seq = m.seq ∧
        m' = { m with queued := m.queued.erase id, now := t,
                      cur := some { id, ch, seq, tx := 1, acked := false } }) ∨
     (∃ c, m.cur = some c ∧ c.id = id ∧ c.tx = 0 ∧ seq = m.seq ∧
        m' = { m with now := t, cur := some { c with ch, seq, tx := 1, acked := false } }) ∨
     (∃ c, m.cur = some c ∧ c.id = id ∧ c.tx = 1 ∧ seq = c.seq ∧ ch = c.ch ∧
        m' = { m with now := t, cur := some { c with tx := 2, acked := false } })) := by
  simp only [mstep?] at h
  split at h
  · rename_i hc
    simp only [Bool.and_eq_true, decide_eq_true_eq, beq_iff_eq] at hc
    refine ⟨hc.2, ?_⟩
    split at h
    · rename_i hcur
      simp only [Option.ite_none_right_eq_some, Option.some.injEq, Bool.and_eq_true,
        List.contains_iff_mem, beq_iff_eq] at h
      exact .inl ⟨hcur, h.1.1, h.1.2, h.2.symm⟩
    · rename_i c hcur
      split at h
      · rename_i hid
        simp only [beq_iff_eq] at hid
        split at h
        · rename_i htx
          simp only [beq_iff_eq] at htx
          simp only [Option.ite_none_right_eq_some, Option.some.injEq, beq_iff_eq] at h
          exact .inr (.inl ⟨c, hcur, hid, htx, h.1, h.2.symm⟩)
        · simp only [Option.ite_none_right_eq_some, Option.some.injEq, Bool.and_eq_true,
            beq_iff_eq] at h
          exact .inr (.inr ⟨c, hcur, hid, h.1.1.1, h.1.1.2, h.1.2, h.2.symm⟩)
      · simp at h
  · simp at h

theorem step_ack {m m' : M} {ch seq st t : Nat} (h : mstep? m (.ack ch seq st t) = some m') :
    (∃ c, m.cur = some c ∧ ch = c.ch ∧ seq = c.seq ∧ st = 0 ∧
        m' = { m with now := t, cur := some { c with acked := true } }) ∨
    m' = { m with now := t } := by
  simp only [mstep?] at h
  split at h
  · split at h
    · rename_i c hcur
      split at h
      · rename_i hc
        simp only [Bool.and_eq_true, beq_iff_eq] at hc
        simp only [Option.some.injEq] at h
        exact .inl ⟨c, hcur, hc.1.1, hc.1.2, hc.2, h.symm⟩
      · simp only [Option.some.injEq] at h; exact .inr h.symm
    · simp only [Option.some.injEq] at h; exact .inr h.symm
  · simp at h

theorem step_connected {m m' : M} {ch t : Nat} (h : mstep? m (.connected ch t) = some m') :
    m' = { m with now := t, chan := some ch, seq := 0,
                  cur := m.cur.map fun c => { c with tx := 0 } } := by
  simp only [mstep?, Option.ite_none_right_eq_some, Option.some.injEq] at h
  exact h.2.symm

theorem step_result {m m' : M} {id t : Nat} {ok : Bool}
    (h : mstep? m (.result id ok t) = some m') :
    (∃ c, m.cur = some c ∧ c.id = id ∧ (ok = true → c.acked = true) ∧
        m' = { m with now := t, cur := none, seq := (m.seq + 1) % 256, done := id :: m.done }) ∨
    (m.cur = none ∧ ok = false ∧ id ∈ m.queued ∧
        m' = { m with now := t, queued := m.queued.erase id, seq := (m.seq + 1) % 256,
                      done := id :: m.done }) := by
  simp only [mstep?] at h
  split at h
  · split at h
    · rename_i c hcur
      simp only [Option.ite_none_right_eq_some, Option.some.injEq, Bool.and_eq_true,
        Bool.or_eq_true, Bool.not_eq_true', beq_iff_eq] at h
      refine .inl ⟨c, hcur, h.1.1, ?_, h.2.symm⟩
      intro hok
      rcases h.1.2 with h' | h'
      · rw [hok] at h'; exact absurd h' (by simp)
      · exact h'
    · rename_i hcur
      simp only [Option.ite_none_right_eq_some, Option.some.injEq, Bool.and_eq_true,
        Bool.not_eq_true', List.contains_iff_mem] at h
      exact .inr ⟨hcur, h.1.1, h.1.2, h.2.symm⟩
  · simp at h

/-! ### vocabulary over the observable history -/

/-- `tr` is accepted from a tunnel connected on channel `c0` with outgoing counter `s0` -/
abbrev Accepted (c0 s0 : Nat) (tr : List Obs) (m : M) : Prop :=
  runM mstep? (init c0 s0) tr = some m

def counterStep (c : Nat) : Obs → Nat
  | .connected _ _ => 0
  | .result _ _ _ => (c + 1) % 256
  | _ => c

/-- **The outgoing counter as a function of the observable history alone**: it
starts at `s0`, restarts at 0 with every new connection and advances by one
(mod 256) with every finished `send_cemi`, whatever its outcome. -/
def counterAfter (s0 : Nat) (tr : List Obs) : Nat := tr.foldl counterStep s0

def chanStep (c : Nat) : Obs → Nat
  | .connected ch _ => ch
  | _ => c

/-- channel of the current connection -/
def chanAfter (c0 : Nat) (tr : List Obs) : Nat := tr.foldl chanStep c0

def txStep (id : Nat) (l : List (Nat × Nat)) : Obs → List (Nat × Nat)
  | .connected _ _ => []
  | .request ch seq i _ => if i = id then l ++ [(ch, seq)] else l
  | _ => l

/-- (channel, counter) of the transmissions of frame `id` on the current
connection, i.e. since the latest `connected` -/
def txSince (id : Nat) (tr : List Obs) : List (Nat × Nat) := tr.foldl (txStep id) []

def isRequestFor (id : Nat) : Obs → Bool
  | .request _ _ i _ => i == id
  | _ => false

def isResultFor (id : Nat) : Obs → Bool
  | .result i _ _ => i == id
  | _ => false

def isRequest : Obs → Bool
  | .request .. => true
  | _ => false

def requested (id : Nat) (tr : List Obs) : Prop := ∃ o ∈ tr, isRequestFor id o = true
def resulted (id : Nat) (tr : List Obs) : Prop := ∃ o ∈ tr, isResultFor id o = true
/-- no TunnellingRequest at all in this stretch of the trace -/
def NoReq (tr : List Obs) : Prop := ∀ o ∈ tr, isRequest o = false

theorem counterAfter_snoc (s0 : Nat) (tr : List Obs) (o : Obs) :
    counterAfter s0 (tr ++ [o]) = counterStep (counterAfter s0 tr) o := by
  simp [counterAfter, List.foldl_append]

theorem chanAfter_snoc (c0 : Nat) (tr : List Obs) (o : Obs) :
    chanAfter c0 (tr ++ [o]) = chanStep (chanAfter c0 tr) o := by
  simp [chanAfter, List.foldl_append]

theorem txSince_snoc (id : Nat) (tr : List Obs) (o : Obs) :
    txSince id (tr ++ [o]) = txStep id (txSince id tr) o := by
  simp [txSince, List.foldl_append]

theorem requested_snoc (id : Nat) (tr : List Obs) (o : Obs) :
    requested id (tr ++ [o]) ↔ requested id tr ∨ isRequestFor id o = true := by
  simp [requested, List.mem_append, or_and_right, exists_or]

theorem resulted_snoc (id : Nat) (tr : List Obs) (o : Obs) :
    resulted id (tr ++ [o]) ↔ resulted id tr ∨ isResultFor id o = true := by
  simp [resulted, List.mem_append, or_and_right, exists_or]

/-! ### (i)+(v) the counter -/

def InvA (c0 s0 : Nat) (m : M) (tr : List Obs) : Prop :=
  m.seq = counterAfter s0 tr ∧ m.chan = some (chanAfter c0 tr)

theorem invA_step (c0 s0 : Nat) (s : M) (h : List Obs) (e : Obs) (s' : M)
    (hi : InvA c0 s0 s h) (hs : mstep? s e = some s') : InvA c0 s0 s' (h ++ [e]) := by
  obtain ⟨h1, h2⟩ := hi
  unfold InvA
  rw [counterAfter_snoc, chanAfter_snoc]
  cases e with
  | sendCemi id t =>
    obtain ⟨-, rfl⟩ := step_sendCemi hs
    exact ⟨h1, h2⟩
  | request ch seq id t =>
    obtain ⟨-, ⟨-, -, -, rfl⟩ | ⟨c, -, -, -, -, rfl⟩ | ⟨c, -, -, -, -, -, rfl⟩⟩ := step_request hs <;>
      exact ⟨h1, h2⟩
  | ack ch seq st t =>
    rcases step_ack hs with ⟨c, -, -, -, -, rfl⟩ | rfl <;> exact ⟨h1, h2⟩
  | connected ch t =>
    rw [step_connected hs]
    exact ⟨rfl, rfl⟩
  | result id ok t =>
    rcases step_result hs with ⟨c, -, -, -, rfl⟩ | ⟨-, -, -, rfl⟩ <;>
      exact ⟨by simp [counterStep, h1], h2⟩

theorem accepted_invA (c0 s0 : Nat) (tr : List Obs) (m : M) (h : Accepted c0 s0 tr m) :
    InvA c0 s0 m tr := by
  have := inv_runM_hist mstep? (InvA c0 s0) (invA_step c0 s0) tr (init c0 s0) m []
    ⟨rfl, rfl⟩ h
  simpa using this

/-! ### (iii) one request awaits an acknowledgement at a time -/

def curIs (m : M) (id : Nat) : Prop := ∃ c, m.cur = some c ∧ c.id = id

def InvC (m : M) (tr : List Obs) : Prop :=
  (∀ id, requested id tr → id ∈ m.done ∨ curIs m id) ∧ (∀ id, id ∈ m.done ↔ resulted id tr)

theorem invC_step (s : M) (h : List Obs) (e : Obs) (s' : M)
    (hi : InvC s h) (hs : mstep? s e = some s') : InvC s' (h ++ [e]) := by
  obtain ⟨h1, h2⟩ := hi
  unfold InvC
  simp only [requested_snoc, resulted_snoc]
  cases e with
  | sendCemi id t =>
    obtain ⟨-, rfl⟩ := step_sendCemi hs
    simp only [isRequestFor, isResultFor, or_false, Bool.false_eq_true]
    exact ⟨h1, h2⟩
  | request ch seq id t =>
    simp only [isRequestFor, isResultFor, or_false, Bool.false_eq_true, beq_iff_eq]
    obtain ⟨-, ⟨hcur, -, -, rfl⟩ | ⟨c, hcur, hid, -, -, rfl⟩ | ⟨c, hcur, hid, -, -, -, rfl⟩⟩ :=
      step_request hs
    · refine ⟨?_, h2⟩
      rintro j (hj | rfl)
      · rcases h1 j hj with hd | ⟨c, hc, -⟩
        · exact .inl hd
        · rw [hcur] at hc; exact absurd hc (by simp)
      · exact .inr ⟨_, rfl, rfl⟩
    · refine ⟨?_, h2⟩
      rintro j (hj | rfl)
      · rcases h1 j hj with hd | ⟨c', hc, hj'⟩
        · exact .inl hd
        · rw [hcur] at hc; cases hc; exact .inr ⟨_, rfl, hj'⟩
      · exact .inr ⟨_, rfl, hid⟩
    · refine ⟨?_, h2⟩
      rintro j (hj | rfl)
      · rcases h1 j hj with hd | ⟨c', hc, hj'⟩
        · exact .inl hd
        · rw [hcur] at hc; cases hc; exact .inr ⟨_, rfl, hj'⟩
      · exact .inr ⟨_, rfl, hid⟩
  | ack ch seq st t =>
    simp only [isRequestFor, isResultFor, or_false, Bool.false_eq_true]
    rcases step_ack hs with ⟨c, hcur, -, -, -, rfl⟩ | rfl
    · refine ⟨?_, h2⟩
      intro j hj
      rcases h1 j hj with hd | ⟨c', hc, hj'⟩
      · exact .inl hd
      · rw [hcur] at hc; cases hc; exact .inr ⟨_, rfl, hj'⟩
    · exact ⟨h1, h2⟩
  | connected ch t =>
    simp only [isRequestFor, isResultFor, or_false, Bool.false_eq_true]
    rw [step_connected hs]
    refine ⟨?_, h2⟩
    intro j hj
    rcases h1 j hj with hd | ⟨c', hc, hj'⟩
    · exact .inl hd
    · exact .inr ⟨{ c' with tx := 0 }, by simp [hc], hj'⟩
  | result id ok t =>
    simp only [isRequestFor, isResultFor, or_false, Bool.false_eq_true, beq_iff_eq]
    rcases step_result hs with ⟨c, hcur, hid, -, rfl⟩ | ⟨hcur, -, -, rfl⟩
    · refine ⟨?_, ?_⟩
      · intro j hj
        rcases h1 j hj with hd | ⟨c', hc, hj'⟩
        · exact .inl (List.mem_cons_of_mem _ hd)
        · rw [hcur] at hc; cases hc
          exact .inl (by rw [← hj', hid]; exact List.mem_cons_self ..)
      · intro j
        simp only [List.mem_cons, h2 j]
        constructor
        · rintro (rfl | hr)
          · exact .inr rfl
          · exact .inl hr
        · rintro (hr | rfl)
          · exact .inr hr
          · exact .inl rfl
    · refine ⟨?_, ?_⟩
      · intro j hj
        rcases h1 j hj with hd | ⟨c', hc, -⟩
        · exact .inl (List.mem_cons_of_mem _ hd)
        · rw [hcur] at hc; exact absurd hc (by simp)
      · intro j
        simp only [List.mem_cons, h2 j]
        constructor
        · rintro (rfl | hr)
          · exact .inr rfl
          · exact .inl hr
        · rintro (hr | rfl)
          · exact .inr hr
          · exact .inl rfl

theorem accepted_invC (c0 s0 : Nat) (tr : List Obs) (m : M) (h : Accepted c0 s0 tr m) :
    InvC m tr := by
  have h0 : InvC (init c0 s0) [] := by
    refine ⟨?_, ?_⟩
    · rintro id ⟨o, ho, -⟩; simp at ho
    · intro id; simp [init, resulted]
  have := inv_runM_hist mstep? InvC invC_step tr (init c0 s0) m [] h0 h
  simpa using this

/-- **(iii) Only one request awaits acknowledgement at a time**: when a request
for frame `id` goes out, every other frame that was ever transmitted has
already got its result. -/
theorem one_request_at_a_time (c0 s0 : Nat) (pre : List Obs) (ch seq id t : Nat) (m : M)
    (h : Accepted c0 s0 (pre ++ [.request ch seq id t]) m) (id' : Nat) (hne : id' ≠ id)
    (hreq : requested id' pre) : resulted id' pre := by
  obtain ⟨m', h1, h2⟩ := runM_snoc mstep? _ m pre _ h
  obtain ⟨hc1, hc2⟩ := accepted_invC c0 s0 pre m' h1
  rcases hc1 id' hreq with hd | ⟨c, hcur, hid⟩
  · exact (hc2 id').mp hd
  · obtain ⟨-, ⟨hn, -⟩ | ⟨c', hc', hid', -⟩ | ⟨c', hc', hid', -⟩⟩ := step_request h2
    · rw [hn] at hcur; exact absurd hcur (by simp)
    · rw [hc'] at hcur; cases hcur; exact absurd (hid.symm.trans hid') hne
    · rw [hc'] at hcur; cases hcur; exact absurd (hid.symm.trans hid') hne

/-! ### (iv) success only after the matching acknowledgement -/

/-- The latest TunnellingRequest in `tr` is `request ch seq id`, and — if
`acked` — an error-free ACK with the same channel and counter follows it. -/
def AckD (ch seq id : Nat) (acked : Bool) (tr : List Obs) : Prop :=
  ∃ a b t1, tr = a ++ .request ch seq id t1 :: b ∧ NoReq b ∧
    (acked = true → ∃ b1 b2 t2, b = b1 ++ .ack ch seq 0 t2 :: b2)

theorem ackD_extend {ch seq id : Nat} {k : Bool} {tr : List Obs} (h : AckD ch seq id k tr)
    (e : Obs) (he : isRequest e = false) : AckD ch seq id k (tr ++ [e]) := by
  obtain ⟨a, b, t1, rfl, hn, hk⟩ := h
  refine ⟨a, b ++ [e], t1, by simp, ?_, ?_⟩
  · intro o ho
    rcases List.mem_append.mp ho with ho | ho
    · exact hn o ho
    · simp only [List.mem_singleton] at ho; subst ho; exact he
  · intro hk'
    obtain ⟨b1, b2, t2, rfl⟩ := hk hk'
    exact ⟨b1, b2 ++ [e], t2, by simp⟩

theorem ackD_ack {ch seq id : Nat} {k : Bool} {tr : List Obs} (h : AckD ch seq id k tr)
    (t : Nat) : AckD ch seq id true (tr ++ [.ack ch seq 0 t]) := by
  obtain ⟨a, b, t1, rfl, hn, -⟩ := h
  refine ⟨a, b ++ [.ack ch seq 0 t], t1, by simp, ?_, fun _ => ⟨b, [], t, rfl⟩⟩
  intro o ho
  rcases List.mem_append.mp ho with ho | ho
  · exact hn o ho
  · simp only [List.mem_singleton] at ho; subst ho; rfl

theorem ackD_request (ch seq id t : Nat) (tr : List Obs) :
    AckD ch seq id false (tr ++ [.request ch seq id t]) :=
  ⟨tr, [], t, rfl, by intro o ho; simp at ho, by intro h; cases h⟩

def InvD (m : M) (tr : List Obs) : Prop :=
  ∀ c, m.cur = some c → AckD c.ch c.seq c.id c.acked tr

theorem invD_step (s : M) (h : List Obs) (e : Obs) (s' : M)
    (hi : InvD s h) (hs : mstep? s e = some s') : InvD s' (h ++ [e]) := by
  unfold InvD at hi ⊢
  cases e with
  | sendCemi id t =>
    obtain ⟨-, rfl⟩ := step_sendCemi hs
    intro c hc
    exact ackD_extend (hi c hc) _ rfl
  | request ch seq id t =>
    obtain ⟨-, ⟨-, -, -, rfl⟩ | ⟨c, -, hid, -, -, rfl⟩ | ⟨c, -, hid, -, hseq, hch, rfl⟩⟩ :=
      step_request hs
    · intro c hc
      simp only [Option.some.injEq] at hc; subst hc
      exact ackD_request ..
    · intro c' hc
      simp only [Option.some.injEq] at hc; subst hc
      simp only [hid]
      exact ackD_request ..
    · intro c' hc
      simp only [Option.some.injEq] at hc; subst hc
      simp only [hid, ← hseq, ← hch]
      exact ackD_request ..
  | ack ch seq st t =>
    rcases step_ack hs with ⟨c, hcur, hch, hseq, hst, rfl⟩ | rfl
    · intro c' hc
      simp only [Option.some.injEq] at hc; subst hc
      subst hch hseq hst
      exact ackD_ack (hi c hcur) t
    · intro c hc
      exact ackD_extend (hi c hc) _ rfl
  | connected ch t =>
    rw [step_connected hs]
    intro c hc
    simp only [Option.map_eq_some_iff] at hc
    obtain ⟨c0, hc0, rfl⟩ := hc
    exact ackD_extend (hi c0 hc0) _ rfl
  | result id ok t =>
    rcases step_result hs with ⟨c, -, -, -, rfl⟩ | ⟨hcur, -, -, rfl⟩
    · intro c hc; simp at hc
    · intro c hc; simp only [hcur] at hc; simp at hc

theorem accepted_invD (c0 s0 : Nat) (tr : List Obs) (m : M) (h : Accepted c0 s0 tr m) :
    InvD m tr := by
  have h0 : InvD (init c0 s0) [] := by intro c hc; simp [init] at hc
  have := inv_runM_hist mstep? InvD invD_step tr (init c0 s0) m [] h0 h
  simpa using this

/-- **(iv) A send succeeds only after its own acknowledgement**: if
`send_cemi(id)` returns normally, then the latest TunnellingRequest before that
is a transmission of frame `id`, and after it — before the result — a
TunnellingAck with the same channel id, the same sequence counter and status
E_NO_ERROR arrived. -/
theorem ok_only_after_matching_ack (c0 s0 : Nat) (pre : List Obs) (id t : Nat) (m : M)
    (h : Accepted c0 s0 (pre ++ [.result id true t]) m) :
    ∃ a b1 b2 ch seq t1 t2,
      pre = a ++ .request ch seq id t1 :: (b1 ++ .ack ch seq 0 t2 :: b2) ∧
        NoReq (b1 ++ .ack ch seq 0 t2 :: b2) := by
  obtain ⟨m', h1, h2⟩ := runM_snoc mstep? _ m pre _ h
  have hd := accepted_invD c0 s0 pre m' h1
  rcases step_result h2 with ⟨c, hcur, hid, hack, -⟩ | ⟨-, hok, -⟩
  · obtain ⟨a, b, t1, rfl, hn, hk⟩ := hd c hcur
    obtain ⟨b1, b2, t2, rfl⟩ := hk (hack rfl)
    exact ⟨a, b1, b2, c.ch, c.seq, t1, t2, by rw [hid], hn⟩
  · cases hok

/-! ### (ii) at most one repetition, same counter; bookkeeping per connection -/

theorem fresh_iff (m : M) (id : Nat) :
    fresh m id = true ↔ id ∉ m.queued ∧ id ∉ m.done ∧ ¬ curIs m id := by
  unfold fresh curIs
  cases hc : m.cur with
  | none => simp
  | some c =>
    simp only [Bool.and_eq_true, Bool.not_eq_true', bne_iff_ne, ne_eq,
      Option.some.injEq, exists_eq_left', and_assoc, decide_eq_false_iff_not,
      List.contains_eq_mem]

theorem txSince_other (j : Nat) (tr : List Obs) (e : Obs)
    (h : ∀ ch seq t, e ≠ .request ch seq j t) (hc : ∀ ch t, e ≠ .connected ch t) :
    txSince j (tr ++ [e]) = txSince j tr := by
  rw [txSince_snoc]
  cases e with
  | request ch seq i t =>
    simp only [txStep]
    split
    · rename_i hi; subst hi; exact absurd rfl (h ch seq t)
    · rfl
  | connected ch t => exact absurd rfl (hc ch t)
  | _ => rfl

def InvB (m : M) (tr : List Obs) : Prop :=
  m.queued.Nodup ∧
  (∀ c, m.cur = some c →
    txSince c.id tr = List.replicate c.tx (c.ch, c.seq) ∧ c.tx ≤ 2 ∧ c.id ∉ m.queued ∧ c.id ∉ m.done) ∧
  (∀ id ∈ m.queued, txSince id tr = [] ∧ id ∉ m.done) ∧
  (∀ id, txSince id tr ≠ [] → id ∈ m.done ∨ curIs m id) ∧
  (∀ id, (txSince id tr).length ≤ 2 ∧ ∀ x ∈ txSince id tr, ∀ y ∈ txSince id tr, x = y)

theorem invB_step (s : M) (h : List Obs) (e : Obs) (s' : M)
    (hi : InvB s h) (hs : mstep? s e = some s') : InvB s' (h ++ [e]) := by
  obtain ⟨h1, h2, h3, h4, h5⟩ := hi
  cases e with
  | sendCemi id t =>
    obtain ⟨hf, rfl⟩ := step_sendCemi hs
    obtain ⟨hq, hd, hc⟩ := (fresh_iff s id).mp hf
    have hsame : ∀ j, txSince j (h ++ [.sendCemi id t]) = txSince j h :=
      fun j => txSince_other j h _ (by intro _ _ _ hh; cases hh) (by intro _ _ hh; cases hh)
    refine ⟨?_, ?_, ?_, ?_, ?_⟩
    · exact List.nodup_append.mpr ⟨h1, by simp, by
        intro a ha b hb; simp only [List.mem_singleton] at hb; subst hb
        intro hab; subst hab; exact hq ha⟩
    · intro c hcur
      obtain ⟨a, b, c', d⟩ := h2 c hcur
      refine ⟨by rw [hsame]; exact a, b, ?_, d⟩
      simp only [List.mem_append, List.mem_singleton, not_or]
      exact ⟨c', fun hh => hc ⟨c, hcur, hh⟩⟩
    · intro j hj
      rw [hsame]
      rcases List.mem_append.mp hj with hj | hj
      · exact h3 j hj
      · simp only [List.mem_singleton] at hj; subst hj
        refine ⟨?_, hd⟩
        cases htx : txSince j h with
        | nil => rfl
        | cons x xs =>
          rcases h4 j (by rw [htx]; simp) with hh | hh
          · exact absurd hh hd
          · exact absurd hh hc
    · intro j hj; rw [hsame] at hj; exact h4 j hj
    · intro j; rw [hsame]; exact h5 j
  | request ch seq id t =>
    have hother : ∀ j, j ≠ id → txSince j (h ++ [.request ch seq id t]) = txSince j h :=
      fun j hj => txSince_other j h _ (by intro _ _ _ hh; cases hh; exact hj rfl)
        (by intro _ _ hh; cases hh)
    have hself : txSince id (h ++ [.request ch seq id t]) = txSince id h ++ [(ch, seq)] := by
      rw [txSince_snoc]; simp [txStep]
    obtain ⟨-, ⟨hcur, hq, -, rfl⟩ | ⟨c, hcur, hid, htx, -, rfl⟩ | ⟨c, hcur, hid, htx, hseq, hch, rfl⟩⟩ :=
      step_request hs
    · -- a queued frame is transmitted for the first time
      obtain ⟨hnil, hnd⟩ := h3 id hq
      refine ⟨h1.erase id, ?_, ?_, ?_, ?_⟩
      · intro c hc
        simp only [Option.some.injEq] at hc; subst hc
        refine ⟨by rw [hself, hnil]; rfl, by simp, ?_, hnd⟩
        simp [List.Nodup.mem_erase_iff h1]
      · intro j hj
        obtain ⟨hne, hjq⟩ := (List.Nodup.mem_erase_iff h1).mp hj
        rw [hother j hne]; exact h3 j hjq
      · intro j hj
        by_cases hji : j = id
        · exact .inr ⟨_, rfl, hji.symm⟩
        · rw [hother j hji] at hj
          rcases h4 j hj with hd | ⟨c, hc, -⟩
          · exact .inl hd
          · rw [hcur] at hc; cases hc
      · intro j
        by_cases hji : j = id
        · subst hji; rw [hself, hnil]
          refine ⟨by simp, ?_⟩
          intro x hx y hy
          simp only [List.nil_append, List.mem_singleton] at hx hy
          rw [hx, hy]
        · rw [hother j hji]; exact h5 j
    · -- first transmission on a re-established tunnel
      obtain ⟨hrep, -, hcq, hcd⟩ := h2 c hcur
      rw [htx] at hrep
      rw [hid] at hrep hcq hcd
      refine ⟨h1, ?_, ?_, ?_, ?_⟩
      · intro c' hc
        simp only [Option.some.injEq] at hc; subst hc
        simp only [hid]
        exact ⟨by rw [hself, hrep]; rfl, by decide, hcq, hcd⟩
      · intro j hj
        have hne : j ≠ id := fun hh => hcq (hh ▸ hj)
        rw [hother j hne]; exact h3 j hj
      · intro j hj
        by_cases hji : j = id
        · exact .inr ⟨_, rfl, by simp [hid, hji]⟩
        · rw [hother j hji] at hj
          rcases h4 j hj with hd | ⟨c', hc, hj'⟩
          · exact .inl hd
          · rw [hcur] at hc; cases hc; exact absurd (hj'.symm.trans hid) hji
      · intro j
        by_cases hji : j = id
        · subst hji; rw [hself, hrep]
          refine ⟨by simp, ?_⟩
          intro x hx y hy
          simp only [List.replicate_zero, List.nil_append, List.mem_singleton] at hx hy
          rw [hx, hy]
        · rw [hother j hji]; exact h5 j
    · -- the one repetition, same channel and counter
      obtain ⟨hrep, -, hcq, hcd⟩ := h2 c hcur
      rw [htx] at hrep
      rw [hid] at hrep hcq hcd
      have hnew : txSince id (h ++ [.request ch seq id t]) = List.replicate 2 (c.ch, c.seq) := by
        rw [hself, hrep, hseq, hch]; rfl
      refine ⟨h1, ?_, ?_, ?_, ?_⟩
      · intro c' hc
        simp only [Option.some.injEq] at hc; subst hc
        simp only [hid]
        exact ⟨hnew, by decide, hcq, hcd⟩
      · intro j hj
        have hne : j ≠ id := fun hh => hcq (hh ▸ hj)
        rw [hother j hne]; exact h3 j hj
      · intro j hj
        by_cases hji : j = id
        · exact .inr ⟨_, rfl, by simp [hid, hji]⟩
        · rw [hother j hji] at hj
          rcases h4 j hj with hd | ⟨c', hc, hj'⟩
          · exact .inl hd
          · rw [hcur] at hc; cases hc; exact absurd (hj'.symm.trans hid) hji
      · intro j
        by_cases hji : j = id
        · subst hji; rw [hnew]
          refine ⟨by simp, ?_⟩
          intro x hx y hy
          rw [List.eq_of_mem_replicate hx, List.eq_of_mem_replicate hy]
        · rw [hother j hji]; exact h5 j
  | ack ch seq st t =>
    have hsame : ∀ j, txSince j (h ++ [.ack ch seq st t]) = txSince j h :=
      fun j => txSince_other j h _ (by intro _ _ _ hh; cases hh) (by intro _ _ hh; cases hh)
    rcases step_ack hs with ⟨c, hcur, -, -, -, rfl⟩ | rfl
    · refine ⟨h1, ?_, ?_, ?_, ?_⟩
      · intro c' hc
        simp only [Option.some.injEq] at hc; subst hc
        rw [hsame]; exact h2 c hcur
      · intro j hj; rw [hsame]; exact h3 j hj
      · intro j hj; rw [hsame] at hj
        rcases h4 j hj with hd | ⟨c', hc, hj'⟩
        · exact .inl hd
        · rw [hcur] at hc; cases hc; exact .inr ⟨_, rfl, hj'⟩
      · intro j; rw [hsame]; exact h5 j
    · refine ⟨h1, ?_, ?_, ?_, ?_⟩
      · intro c hc; rw [hsame]; exact h2 c hc
      · intro j hj; rw [hsame]; exact h3 j hj
      · intro j hj; rw [hsame] at hj; exact h4 j hj
      · intro j; rw [hsame]; exact h5 j
  | connected ch t =>
    have hnil : ∀ j, txSince j (h ++ [.connected ch t]) = [] := by
      intro j; rw [txSince_snoc]; rfl
    rw [step_connected hs]
    refine ⟨h1, ?_, ?_, ?_, ?_⟩
    · intro c hc
      simp only [Option.map_eq_some_iff] at hc
      obtain ⟨c0, hc0, rfl⟩ := hc
      obtain ⟨-, -, hq, hd⟩ := h2 c0 hc0
      exact ⟨by rw [hnil]; rfl, by simp, hq, hd⟩
    · intro j hj; rw [hnil]; exact ⟨rfl, (h3 j hj).2⟩
    · intro j hj; rw [hnil] at hj; exact absurd rfl hj
    · intro j; rw [hnil]; exact ⟨by decide, by intro x hx; simp at hx⟩
  | result id ok t =>
    have hsame : ∀ j, txSince j (h ++ [.result id ok t]) = txSince j h :=
      fun j => txSince_other j h _ (by intro _ _ _ hh; cases hh) (by intro _ _ hh; cases hh)
    rcases step_result hs with ⟨c, hcur, hid, -, rfl⟩ | ⟨hcur, -, hq, rfl⟩
    · obtain ⟨-, -, hcq, hcd⟩ := h2 c hcur
      rw [hid] at hcq hcd
      refine ⟨h1, ?_, ?_, ?_, ?_⟩
      · intro c' hc; simp at hc
      · intro j hj; rw [hsame]
        refine ⟨(h3 j hj).1, ?_⟩
        simp only [List.mem_cons, not_or]
        exact ⟨fun hh => hcq (hh ▸ hj), (h3 j hj).2⟩
      · intro j hj; rw [hsame] at hj
        rcases h4 j hj with hd | ⟨c', hc, hj'⟩
        · exact .inl (List.mem_cons_of_mem _ hd)
        · rw [hcur] at hc; cases hc
          exact .inl (by rw [← hj', hid]; exact List.mem_cons_self ..)
      · intro j; rw [hsame]; exact h5 j
    · refine ⟨h1.erase id, ?_, ?_, ?_, ?_⟩
      · intro c hc; simp only [hcur] at hc; cases hc
      · intro j hj
        obtain ⟨hne, hjq⟩ := (List.Nodup.mem_erase_iff h1).mp hj
        rw [hsame]
        refine ⟨(h3 j hjq).1, ?_⟩
        simp only [List.mem_cons, not_or]
        exact ⟨hne, (h3 j hjq).2⟩
      · intro j hj; rw [hsame] at hj
        rcases h4 j hj with hd | ⟨c', hc, -⟩
        · exact .inl (List.mem_cons_of_mem _ hd)
        · rw [hcur] at hc; cases hc
      · intro j; rw [hsame]; exact h5 j

theorem accepted_invB (c0 s0 : Nat) (tr : List Obs) (m : M) (h : Accepted c0 s0 tr m) :
    InvB m tr := by
  have h0 : InvB (init c0 s0) [] := by
    refine ⟨by simp [init], ?_, ?_, ?_, ?_⟩
    · intro c hc; simp [init] at hc
    · intro j hj; simp [init] at hj
    · intro j hj; simp [txSince] at hj
    · intro j; simp [txSince]
  have := inv_runM_hist mstep? InvB invB_step tr (init c0 s0) m [] h0 h
  simpa using this

/-- **(i) Each new frame carries the next counter, restarting at 0 per
connection.** The first transmission of a frame on the current connection
carries the channel of that connection and the counter `counterAfter s0 pre`:
`s0` plus the number of finished sends, mod 256 (wrap 255 → 0 included), or —
after a `connected` — the number of sends finished since then, mod 256. -/
theorem first_transmission_counter (c0 s0 : Nat) (pre : List Obs) (ch seq id t : Nat) (m : M)
    (h : Accepted c0 s0 (pre ++ [.request ch seq id t]) m) (hfirst : txSince id pre = []) :
    seq = counterAfter s0 pre ∧ ch = chanAfter c0 pre := by
  obtain ⟨m', h1, h2⟩ := runM_snoc mstep? _ m pre _ h
  obtain ⟨ha1, ha2⟩ := accepted_invA c0 s0 pre m' h1
  obtain ⟨-, hb2, -⟩ := accepted_invB c0 s0 pre m' h1
  obtain ⟨hchan, hcase⟩ := step_request h2
  have hch : ch = chanAfter c0 pre := by
    rw [ha2] at hchan; exact (Option.some.inj hchan).symm
  rcases hcase with ⟨-, -, hseq, -⟩ | ⟨c, -, -, -, hseq, -⟩ | ⟨c, hcur, hid, htx, -⟩
  · exact ⟨by rw [hseq, ha1], hch⟩
  · exact ⟨by rw [hseq, ha1], hch⟩
  · obtain ⟨hrep, -⟩ := hb2 c hcur
    rw [hid, hfirst, htx] at hrep
    exact absurd hrep (by simp)

/-- A transmission that is not the first one on this connection repeats the
channel and counter of the first. -/
theorem repetition_same_counter (c0 s0 : Nat) (pre : List Obs) (ch seq id t : Nat) (m : M)
    (h : Accepted c0 s0 (pre ++ [.request ch seq id t]) m) (x : Nat × Nat)
    (hx : x ∈ txSince id pre) : x = (ch, seq) := by
  obtain ⟨-, -, -, -, hb5⟩ := accepted_invB c0 s0 _ m h
  have hs : txSince id (pre ++ [.request ch seq id t]) = txSince id pre ++ [(ch, seq)] := by
    rw [txSince_snoc]; simp [txStep]
  exact (hb5 id).2 x (by rw [hs]; exact List.mem_append_left _ hx) (ch, seq)
    (by rw [hs]; simp)

/-- **(ii) A frame is transmitted at most twice per connection, both times with
the same channel and counter** — i.e. repeated at most once before the tunnel
is re-established. -/
theorem at_most_one_repetition (c0 s0 : Nat) (tr : List Obs) (m : M)
    (h : Accepted c0 s0 tr m) (id : Nat) :
    (txSince id tr).length ≤ 2 ∧ ∀ x ∈ txSince id tr, ∀ y ∈ txSince id tr, x = y :=
  (accepted_invB c0 s0 tr m h).2.2.2.2 id

/-- **(v) One result per send**: `send_cemi(id)` finishes at most once, so by
the definition of `counterAfter` the counter advances exactly once per send,
whatever the outcome. -/
theorem one_result_per_send (c0 s0 : Nat) (pre : List Obs) (id t : Nat) (ok : Bool) (m : M)
    (h : Accepted c0 s0 (pre ++ [.result id ok t]) m) : ¬ resulted id pre := by
  obtain ⟨m', h1, h2⟩ := runM_snoc mstep? _ m pre _ h
  obtain ⟨-, hb2, hb3, -⟩ := accepted_invB c0 s0 pre m' h1
  obtain ⟨-, hc2⟩ := accepted_invC c0 s0 pre m' h1
  intro hr
  have hd : id ∈ m'.done := (hc2 id).mpr hr
  rcases step_result h2 with ⟨c, hcur, hid, -⟩ | ⟨-, -, hq, -⟩
  · exact (hid ▸ (hb2 c hcur).2.2.2) hd
  · exact (hb3 id hq).2 hd

theorem counter_restarts_on_connect (s0 : Nat) (tr : List Obs) (ch t : Nat) :
    counterAfter s0 (tr ++ [.connected ch t]) = 0 := by
  rw [counterAfter_snoc]; rfl

theorem counter_advances_per_result (s0 : Nat) (tr : List Obs) (id t : Nat) (ok : Bool) :
    counterAfter s0 (tr ++ [.result id ok t]) = (counterAfter s0 tr + 1) % 256 := by
  rw [counterAfter_snoc]; rfl

theorem counter_unchanged_otherwise (s0 : Nat) (tr : List Obs) (e : Obs)
    (h1 : ∀ ch t, e ≠ .connected ch t) (h2 : ∀ id ok t, e ≠ .result id ok t) :
    counterAfter s0 (tr ++ [e]) = counterAfter s0 tr := by
  rw [counterAfter_snoc]
  cases e with
  | connected ch t => exact absurd rfl (h1 ch t)
  | result id ok t => exact absurd rfl (h2 id ok t)
  | _ => rfl

/-! ### one exchange: which acknowledgement ends the wait -/

/-- A request/acknowledgement exchange succeeds only if an ACK with the same
channel id, the same sequence counter and no error status arrived before the
timeout. -/
theorem rr_ok_only_after_matching_ack (ch seq timeout : Nat) (acks : List AckIn)
    (h : rrOutcome ch seq timeout acks = .ok) :
    ∃ a ∈ acks, a.ch = ch ∧ a.seq = seq ∧ a.st = 0 ∧ a.t < timeout := by
  induction acks with
  | nil => simp [rrOutcome] at h
  | cons a as ih =>
    simp only [rrOutcome] at h
    split at h
    · rename_i hm
      split at h
      · rename_i hst
        exact ⟨a, List.mem_cons_self .., hm.2.1, hm.2.2, hst, hm.1⟩
      · cases h
    · obtain ⟨b, hb, hh⟩ := ih h
      exact ⟨b, List.mem_cons_of_mem _ hb, hh⟩

/-- It fails with an error status only if the matching ACK carried that status. -/
theorem rr_error_only_from_matching_ack (ch seq timeout st : Nat) (acks : List AckIn)
    (h : rrOutcome ch seq timeout acks = .error st) :
    st ≠ 0 ∧ ∃ a ∈ acks, a.ch = ch ∧ a.seq = seq ∧ a.st = st ∧ a.t < timeout := by
  induction acks with
  | nil => simp [rrOutcome] at h
  | cons a as ih =>
    simp only [rrOutcome] at h
    split at h
    · rename_i hm
      split at h
      · cases h
      · rename_i hst
        simp only [RROut.error.injEq] at h
        exact ⟨h ▸ hst, a, List.mem_cons_self .., hm.2.1, hm.2.2, h, hm.1⟩
    · obtain ⟨h0, b, hb, hh⟩ := ih h
      exact ⟨h0, b, List.mem_cons_of_mem _ hb, hh⟩

/-- ACKs of other requests (another counter or another channel) are ignored:
they neither confirm nor fail the request, however many arrive. -/
theorem rr_foreign_acks_ignored (ch seq timeout : Nat) (acks : List AckIn)
    (h : ∀ a ∈ acks, a.ch ≠ ch ∨ a.seq ≠ seq) : rrOutcome ch seq timeout acks = .timeout := by
  induction acks with
  | nil => rfl
  | cons a as ih =>
    simp only [rrOutcome]
    have ha := h a (List.mem_cons_self ..)
    rw [if_neg (by rintro ⟨-, h1, h2⟩; rcases ha with ha | ha <;> contradiction)]
    exact ih fun b hb => h b (List.mem_cons_of_mem _ hb)

/-! ### non-vacuity: accepted and refused traces -/

/-- two frames across the wrap, a lost ACK with one repetition, a stale ACK that
confirms nothing, then a reconnect after two unacknowledged transmissions -/
def demo : List Obs :=
  [.sendCemi 1 0, .request 7 255 1 0, .sendCemi 2 0, .ack 7 255 0 20, .result 1 true 20,
   .request 7 0 2 20, .ack 7 255 0 25, .request 7 0 2 1020, .ack 7 0 0 1040, .result 2 true 1040,
   .sendCemi 3 1040, .request 7 1 3 1040, .request 7 1 3 2040, .connected 8 3060,
   .request 8 0 3 3060, .ack 8 0 0 3080, .result 3 true 3080]

example : (runM mstep? (init 7 255) demo).isSome = true := by decide
/-- the pinned tree's behaviour — success on a duplicate ACK of the previous
request — is refused -/
example : runM mstep? (init 7 254)
    [.sendCemi 1 0, .request 7 254 1 0, .ack 7 254 0 20, .result 1 true 20, .sendCemi 2 20,
     .request 7 255 2 20, .ack 7 254 0 25, .result 2 true 25] = none := by decide
/-- an ACK for another channel or with an error status does not confirm either -/
example : runM mstep? (init 7 0)
    [.sendCemi 1 0, .request 7 0 1 0, .ack 8 0 0 20, .ack 7 0 33 21, .result 1 true 25] = none := by
  decide
/-- a third transmission on the same connection is refused -/
example : runM mstep? (init 7 0)
    [.sendCemi 1 0, .request 7 0 1 0, .request 7 0 1 1000, .request 7 0 1 2000] = none := by decide

end XknxVerif.Props.C24
