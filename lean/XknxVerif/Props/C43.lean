/-
C43  Point-to-point management connections follow the transport-layer protocol.
Property theorems only (model: `XknxVerif.Model.P2P`, helper lemmas: `XknxVerif.Lemmas.P2P`).
-/
import XknxVerif.Lemmas.P2P

namespace XknxVerif.Props.C43
open XknxVerif.P2P

/-! ### (iii) the receive path never raises -/

/-- `P2PConnection.process` completes no future that is already done: for EVERY connection state
(reachable or not) and every frame it returns normally. -/
theorem conn_process_never_raises (c : Conn) (fid : Nat) (f : Frame) :
    ∃ c', c.process fid f = .ok c' := by
  cases f <;> simp only [Conn.process]
  case disconnect =>
    by_cases h1 : c.ackW = .pending <;> by_cases h2 : c.respW = .pending <;>
      simp [h1, h2, AckW.setException, RespW.setException, Except.map, bind, Except.bind]
  case ack n =>
    by_cases h1 : c.ackW = .pending <;> simp [h1, AckW.setResult, Except.map]
  case nak n =>
    by_cases h1 : c.ackW = .pending <;> simp [h1, AckW.setResult, Except.map]
  case data n apdu =>
    by_cases h1 : c.respW = .pending <;> by_cases h2 : n = c.exp <;>
      simp [h1, h2, RespW.setResult, Except.map]
  all_goals exact ⟨_, rfl⟩

/-- `Management.process` returns normally for every state, source and frame. -/
theorem process_never_raises (conn : Option Conn) (src fid : Nat) (f : Frame) :
    ∃ r, mgmtProcess conn src fid f = .ok r := by
  unfold mgmtProcess
  cases hc : (if src = 0 then conn else none) with
  | none => cases f <;> simp
  | some c =>
    obtain ⟨c', h⟩ := conn_process_never_raises c fid f
    simp [h, Except.map]


/-! ### (v) which received data frames are acknowledged -/

/-- One frame from the peer of an existing connection object: `T_ACK m` to `d` is handed out
⇔ the frame is `T_Data_Connected m` from that peer, the connection is open, and `m` is the expected
number or the one before (mod 16). -/
theorem ack_iff_of_connection (c : Conn) (fid n apdu d m : Nat) (he : c.exp < 16) (hn : n < 16)
    (r : Option Conn × List Out) (h : mgmtProcess (some c) 0 fid (.data n apdu) = .ok r) :
    Out.ack d m ∈ r.2 ↔ (d = 0 ∧ m = n ∧ c.connected = true ∧ (n = c.exp ∨ n = (c.exp + 15) % 16)) := by
  have hs := shallAck_iff c n he hn
  unfold mgmtProcess at h
  simp only [if_true] at h
  obtain ⟨c', hp⟩ := conn_process_never_raises c fid (.data n apdu)
  simp only [hp, Except.map] at h
  cases h
  by_cases hsa : c.shallAck n = true
  · simp only [hsa, if_true, List.mem_singleton, Out.ack.injEq]
    have := hs.mp hsa
    constructor
    · rintro ⟨rfl, rfl⟩; exact ⟨rfl, rfl, this⟩
    · rintro ⟨rfl, rfl, _⟩; exact ⟨rfl, rfl⟩
  · simp only [hsa]
    constructor
    · intro h; simp at h
    · rintro ⟨_, _, h3⟩; exact absurd (hs.mpr h3) hsa

/-- No other frame is ever acknowledged. -/
theorem ack_only_for_data (conn : Option Conn) (src fid d m : Nat) (f : Frame)
    (r : Option Conn × List Out) (h : mgmtProcess conn src fid f = .ok r) (hm : Out.ack d m ∈ r.2) :
    d = src ∧ ∃ apdu, f = .data m apdu := by
  have hmem : (d, m) ∈ ackPart r.2 := mem_ackPart hm
  rw [mgmtProcess_outs h] at hmem
  unfold ackFor at hmem
  cases f <;> simp at hmem
  rename_i n apdu
  split at hmem
  · simp at hmem; exact ⟨hmem.1, apdu, by rw [hmem.2]⟩
  · split at hmem
    · simp at hmem; exact ⟨hmem.1, apdu, by rw [hmem.2]⟩
    · simp at hmem

/-- T_ACKs sent, in order. -/
def acksSent : List Obs → List (Nat × Nat)
  | [] => []
  | .txAck _ d n :: os => (d, n) :: acksSent os
  | _ :: os => acksSent os

/-- What the property allows to be acknowledged: a data frame whose source has an open connection and
which carries the expected or the preceding number (pre-state as anchored in the observation). -/
def ackDueStrict : Obs → List (Nat × Nat)
  | .rx _ src _ (.data n _) hc cn exp =>
    if hc = true ∧ cn = true ∧ (n = exp ∨ n = (exp + 15) % 16) then [(src, n)] else []
  | _ => []

/-- What this tree acknowledges: additionally every data frame of a source without connection object
(known finding `ack-without-connection`, pinned by test_incoming_unexpected_numbered_telegram). -/
def ackDue : Obs → List (Nat × Nat)
  | .rx _ src _ (.data n _) hc cn exp =>
    if hc = false ∨ (cn = true ∧ (n = exp ∨ n = (exp + 15) % 16)) then [(src, n)] else []
  | _ => []

/-- Sequence numbers on the wire are 4 bit. -/
def WireOk (obs : List Obs) : Prop :=
  ∀ t src fid n apdu hc cn exp, Obs.rx t src fid (.data n apdu) hc cn exp ∈ obs → n < 16

private theorem step_acks {s : St} {o : Obs} {s' : St} (hwf : WF s) (h : step? s o = some s')
    (hw : ∀ t src fid n apdu hc cn exp, o = Obs.rx t src fid (.data n apdu) hc cn exp → n < 16) :
    (acksSent [o] ++ ackPart s'.owed).Perm (ackPart s.owed ++ ackDue o) := by
  obtain ⟨s1, h1, h2⟩ := step?_eq_some h
  have hwf1 := WF_tick hwf h1
  rw [← tick_owed h1]
  cases o <;> simp only [core] at h2
  case opened t ok =>
    unfold onOpened at h2; split at h2 <;> simp at h2 <;> subst h2 <;> simp [acksSent, ackDue]
  case closed t r =>
    unfold onClosed at h2; split at h2 <;> split at h2 <;> simp at h2 <;> subst h2 <;> simp [acksSent, ackDue]
  case req t a e =>
    unfold onReq at h2; split at h2 <;> (try split at h2) <;> simp at h2; subst h2; simp [acksSent, ackDue]
  case res t o =>
    unfold onRes at h2; split at h2 <;> (try split at h2) <;> (try split at h2) <;> simp at h2; subst h2
    simp [acksSent, ackDue]
  case txData t n a =>
    unfold onTxData at h2; split at h2 <;> (try split at h2) <;> (try split at h2) <;> simp at h2 <;> subst h2 <;>
      simp [acksSent, ackDue]
  case txAck t d n =>
    unfold onTx at h2; split at h2 <;> simp at h2; subst h2
    rename_i hmem
    simpa [acksSent, ackDue] using ackPart_erase_ack s1.owed d n hmem
  case txDisc t d =>
    unfold onTx at h2; split at h2 <;> simp at h2; subst h2
    simp [acksSent, ackDue, ackPart_erase_disc]
  case rx t src fid f hc cn e =>
    unfold onRx at h2; split at h2 <;> (try split at h2) <;> simp at h2; subst h2
    rename_i hpre _ conn' outs hp
    have houts := mgmtProcess_outs hp
    simp only at houts
    simp only [acksSent, List.nil_append, ackPart_append, houts]
    apply List.Perm.of_eq
    congr 1
    unfold ackFor ackDue
    cases f <;> simp
    rename_i n apdu
    have hn : n < 16 := hw t src fid n apdu hc cn e rfl
    unfold preOk at hpre
    split at hpre
    · rename_i hnone
      simp only [Bool.and_eq_true, Bool.not_eq_true', beq_iff_eq] at hpre
      simp [hnone, hpre.1.1]
    · rename_i c hsome
      simp only [Bool.and_eq_true, beq_iff_eq] at hpre
      obtain ⟨⟨hhc, hcn⟩, hexp⟩ := hpre
      have hc0 : s1.conn = some c := by
        by_cases hs : src = 0
        · simpa [hs] using hsome
        · simp [hs] at hsome
      have hce := (hwf1 c hc0).1
      have := shallAck_iff c n hce hn
      simp only [hsome, hhc]
      by_cases hsa : c.shallAck n = true
      · have h3 := this.mp hsa
        simp [hsa, hcn, hexp, h3.1, h3.2]
      · have h3 : ¬ (c.connected = true ∧ (n = c.exp ∨ n = (c.exp + 15) % 16)) := fun h => hsa (this.mpr h)
        simp [hsa, hcn, hexp]
        intro hcon
        exact ⟨fun h => h3 ⟨hcon, Or.inl h⟩, fun h => h3 ⟨hcon, Or.inr h⟩⟩
  case fin t => unfold onFin at h2; split at h2 <;> simp at h2; subst h2; simp [acksSent, ackDue]

private theorem acksSent_cons (o : Obs) (os : List Obs) : acksSent (o :: os) = acksSent [o] ++ acksSent os := by
  cases o <;> simp [acksSent]

private theorem run_acks : ∀ (obs : List Obs) (s s' : St), WF s → run? s obs = some s' → WireOk obs →
    (acksSent obs ++ ackPart s'.owed).Perm (ackPart s.owed ++ obs.flatMap ackDue) := by
  intro obs
  induction obs with
  | nil => intro s s' _ h _; simp [run?] at h; subst h; simp [acksSent]
  | cons o os ih =>
    intro s s' hwf h hw
    unfold run? at h
    split at h
    · rename_i s1 h1
      have hstep := step_acks hwf h1 (fun t src fid n apdu hc cn exp ho =>
        hw t src fid n apdu hc cn exp (by rw [ho]; exact List.mem_cons_self))
      have hrest := ih s1 s' (WF_step hwf h1) h (fun t src fid n apdu hc cn exp hm =>
        hw t src fid n apdu hc cn exp (List.mem_cons_of_mem _ hm))
      rw [acksSent_cons, List.flatMap_cons, List.append_assoc]
      refine (List.Perm.append_left _ hrest).trans ?_
      rw [← List.append_assoc, ← List.append_assoc]
      exact List.Perm.append_right _ hstep
    · simp at h

/-- (v) on every accepted complete run: the T_ACKs sent are exactly (as a multiset) the received data
frames whose source had an open connection and that carried the expected or the preceding number —
plus, on this tree, the data frames of sources without any connection object (known finding). -/
theorem acks_sent_are_due_or_known (rate : Nat) (obs : List Obs) (s : St)
    (h : run? (St.init rate) obs = some s) (hfin : s.owed = []) (hw : WireOk obs) :
    (acksSent obs).Perm (obs.flatMap ackDue) := by
  have := run_acks obs _ _ (WF_init rate) h hw
  simpa [hfin, ackPart, St.init] using this

/- Full statement (false on this tree, see `ack_without_connection_witness`):
   theorem acks_sent_iff_due : run? (St.init rate) obs = some s → s.owed = [] → WireOk obs →
       (acksSent obs).Perm (obs.flatMap ackDueStrict) -/

/-- (v), excluding exactly the known finding: no data frame from a source without connection object. -/
theorem acks_sent_iff_due_partial (rate : Nat) (obs : List Obs) (s : St)
    (h : run? (St.init rate) obs = some s) (hfin : s.owed = []) (hw : WireOk obs)
    (hknown : ∀ t src fid n apdu cn exp, Obs.rx t src fid (.data n apdu) false cn exp ∉ obs) :
    (acksSent obs).Perm (obs.flatMap ackDueStrict) := by
  have h1 := acks_sent_are_due_or_known rate obs s h hfin hw
  have h2 : obs.flatMap ackDue = obs.flatMap ackDueStrict := by
    apply flatMap_congr'
    intro o ho
    cases o <;> try rfl
    rename_i t src fid f hc cn exp
    cases f <;> try rfl
    rename_i n apdu
    simp only [ackDue, ackDueStrict]
    cases hc
    · exact absurd ho (hknown t src fid n apdu cn exp)
    · simp
  rw [← h2]; exact h1

/-- Negation witness for the full statement: a stranger's data frame is acknowledged. -/
theorem ack_without_connection_witness :
    ∃ obs s, run? (St.init 0) obs = some s ∧ s.owed = [] ∧ WireOk obs ∧
      ¬ (acksSent obs).Perm (obs.flatMap ackDueStrict) := by
  refine ⟨[.rx 0 3 0 (.data 0 1) false false 0, .txAck 0 3 0, .fin 0], St.init 0, by decide, by decide, ?_, by decide⟩
  intro t src fid n apdu hc cn exp hm
  simp at hm
  omega

end XknxVerif.Props.C43
