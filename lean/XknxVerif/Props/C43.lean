/-
C43  Point-to-point management connections follow the transport-layer protocol.
Property theorems only (model: `XknxVerif.Model.P2P`, helper lemmas: `XknxVerif.Lemmas.P2P`).
-/
import XknxVerif.Lemmas.P2P

namespace XknxVerif.Props.C43
open XknxVerif.P2P

/-! ### (iii) the receive path never raises -/

/-- `P2PConnection.process` completes no future that is already done: for EVERY connection state
(reachable or not) and every frame it returns normally. -/
theorem conn_process_never_raises (c : Conn) (fid : Nat) (f : Frame) :
    ∃ c', c.process fid f = .ok c' := by
  cases f <;> simp only [Conn.process]
  case disconnect =>
    by_cases h1 : c.ackW = .pending <;> by_cases h2 : c.respW = .pending <;>
      simp [h1, h2, AckW.setException, RespW.setException, Except.map, bind, Except.bind]
  case ack n =>
    by_cases h1 : c.ackW = .pending <;> simp [h1, AckW.setResult, Except.map]
  case nak n =>
    by_cases h1 : c.ackW = .pending <;> simp [h1, AckW.setResult, Except.map]
  case data n apdu =>
    by_cases h1 : c.respW = .pending <;> by_cases h2 : n = c.exp <;>
      simp [h1, h2, RespW.setResult, Except.map]
  all_goals exact ⟨_, rfl⟩

/-- `Management.process` returns normally for every state, source and frame. -/
theorem process_never_raises (conn : Option Conn) (src fid : Nat) (f : Frame) :
    ∃ r, mgmtProcess conn src fid f = .ok r := by
  unfold mgmtProcess
  cases hc : (if src = 0 then conn else none) with
  | none => cases f <;> simp
  | some c =>
    obtain ⟨c', h⟩ := conn_process_never_raises c fid f
    simp [h, Except.map]


/-! ### (v) which received data frames are acknowledged -/

/-- One frame from the peer of an existing connection object: `T_ACK m` to `d` is handed out
⇔ the frame is `T_Data_Connected m` from that peer, the connection is open, and `m` is the expected
number or the one before (mod 16). -/
theorem ack_iff_of_connection (c : Conn) (fid n apdu d m : Nat) (he : c.exp < 16) (hn : n < 16)
    (r : Option Conn × List Out) (h : mgmtProcess (some c) 0 fid (.data n apdu) = .ok r) :
    Out.ack d m ∈ r.2 ↔ (d = 0 ∧ m = n ∧ c.connected = true ∧ (n = c.exp ∨ n = (c.exp + 15) % 16)) := by
  have hs := shallAck_iff c n he hn
  unfold mgmtProcess at h
  simp only [if_true] at h
  obtain ⟨c', hp⟩ := conn_process_never_raises c fid (.data n apdu)
  simp only [hp, Except.map] at h
  cases h
  by_cases hsa : c.shallAck n = true
  · simp only [hsa, if_true, List.mem_singleton, Out.ack.injEq]
    have := hs.mp hsa
    constructor
    · rintro ⟨rfl, rfl⟩; exact ⟨rfl, rfl, this⟩
    · rintro ⟨rfl, rfl, _⟩; exact ⟨rfl, rfl⟩
  · simp only [hsa]
    constructor
    · intro h; simp at h
    · rintro ⟨_, _, h3⟩; exact absurd (hs.mpr h3) hsa

/-- No other frame is ever acknowledged. -/
theorem ack_only_for_data (conn : Option Conn) (src fid d m : Nat) (f : Frame)
    (r : Option Conn × List Out) (h : mgmtProcess conn src fid f = .ok r) (hm : Out.ack d m ∈ r.2) :
    d = src ∧ ∃ apdu, f = .data m apdu := by
  have hmem : (d, m) ∈ ackPart r.2 := mem_ackPart hm
  rw [mgmtProcess_outs h] at hmem
  unfold ackFor at hmem
  cases f <;> simp at hmem
  rename_i n apdu
  split at hmem
  · simp at hmem; exact ⟨hmem.1, apdu, by rw [hmem.2]⟩
  · split at hmem
    · simp at hmem; exact ⟨hmem.1, apdu, by rw [hmem.2]⟩
    · simp at hmem

/-- T_ACKs sent, in order. -/
def acksSent : List Obs → List (Nat × Nat)
  | [] => []
  | .txAck _ d n :: os => (d, n) :: acksSent os
  | _ :: os => acksSent os

/-- What the property allows to be acknowledged: a data frame whose source has an open connection and
which carries the expected or the preceding number (pre-state as anchored in the observation). -/
def ackDueStrict : Obs → List (Nat × Nat)
  | .rx _ src _ (.data n _) hc cn exp =>
    if hc = true ∧ cn = true ∧ (n = exp ∨ n = (exp + 15) % 16) then [(src, n)] else []
  | _ => []

/-- What this tree acknowledges: additionally every data frame of a source without connection object
(known finding `ack-without-connection`, pinned by test_incoming_unexpected_numbered_telegram). -/
def ackDue : Obs → List (Nat × Nat)
  | .rx _ src _ (.data n _) hc cn exp =>
    if hc = false ∨ (cn = true ∧ (n = exp ∨ n = (exp + 15) % 16)) then [(src, n)] else []
  | _ => []

/-- Sequence numbers on the wire are 4 bit. -/
def WireOk (obs : List Obs) : Prop :=
  ∀ t src fid n apdu hc cn exp, Obs.rx t src fid (.data n apdu) hc cn exp ∈ obs → n < 16

private theorem step_acks {s : St} {o : Obs} {s' : St} (hwf : WF s) (h : step? s o = some s')
    (hw : ∀ t src fid n apdu hc cn exp, o = Obs.rx t src fid (.data n apdu) hc cn exp → n < 16) :
    (acksSent [o] ++ ackPart s'.owed).Perm (ackPart s.owed ++ ackDue o) := by
  obtain ⟨s1, h1, h2⟩ := step?_eq_some h
  have hwf1 := WF_tick hwf h1
  rw [← tick_owed h1]
  cases o <;> simp only [core] at h2
  case opened t ok =>
    unfold onOpened at h2; split at h2 <;> simp at h2 <;> subst h2 <;> simp [acksSent, ackDue]
  case closed t r =>
    unfold onClosed at h2; split at h2 <;> split at h2 <;> simp at h2 <;> subst h2 <;> simp [acksSent, ackDue]
  case req t a e =>
    unfold onReq at h2; split at h2 <;> (try split at h2) <;> simp at h2; subst h2; simp [acksSent, ackDue]
  case res t o =>
    unfold onRes at h2; split at h2 <;> (try split at h2) <;> (try split at h2) <;> simp at h2; subst h2
    simp [acksSent, ackDue]
  case txData t n a =>
    unfold onTxData at h2; split at h2 <;> (try split at h2) <;> (try split at h2) <;> simp at h2 <;> subst h2 <;>
      simp [acksSent, ackDue]
  case txAck t d n =>
    unfold onTx at h2; split at h2 <;> simp at h2; subst h2
    rename_i hmem
    simpa [acksSent, ackDue] using ackPart_erase_ack s1.owed d n hmem
  case txDisc t d =>
    unfold onTx at h2; split at h2 <;> simp at h2; subst h2
    simp [acksSent, ackDue, ackPart_erase_disc]
  case rx t src fid f hc cn e =>
    unfold onRx at h2; split at h2 <;> (try split at h2) <;> simp at h2; subst h2
    rename_i hpre _ conn' outs hp
    have houts := mgmtProcess_outs hp
    simp only at houts
    simp only [acksSent, List.nil_append, ackPart_append, houts]
    apply List.Perm.of_eq
    congr 1
    unfold ackFor ackDue
    cases f <;> simp
    rename_i n apdu
    have hn : n < 16 := hw t src fid n apdu hc cn e rfl
    unfold preOk at hpre
    split at hpre
    · rename_i hnone
      simp only [Bool.and_eq_true, Bool.not_eq_true', beq_iff_eq] at hpre
      simp [hnone, hpre.1.1]
    · rename_i c hsome
      simp only [Bool.and_eq_true, beq_iff_eq] at hpre
      obtain ⟨⟨hhc, hcn⟩, hexp⟩ := hpre
      have hc0 : s1.conn = some c := by
        by_cases hs : src = 0
        · simpa [hs] using hsome
        · simp [hs] at hsome
      have hce := (hwf1 c hc0).1
      have := shallAck_iff c n hce hn
      simp only [hsome, hhc]
      by_cases hsa : c.shallAck n = true
      · have h3 := this.mp hsa
        simp [hsa, hcn, hexp, h3.1, h3.2]
      · have h3 : ¬ (c.connected = true ∧ (n = c.exp ∨ n = (c.exp + 15) % 16)) := fun h => hsa (this.mpr h)
        simp [hsa, hcn, hexp]
        intro hcon
        exact ⟨fun h => h3 ⟨hcon, Or.inl h⟩, fun h => h3 ⟨hcon, Or.inr h⟩⟩
  case fin t => unfold onFin at h2; split at h2 <;> simp at h2; subst h2; simp [acksSent, ackDue]

private theorem acksSent_cons (o : Obs) (os : List Obs) : acksSent (o :: os) = acksSent [o] ++ acksSent os := by
  cases o <;> simp [acksSent]

private theorem run_acks : ∀ (obs : List Obs) (s s' : St), WF s → run? s obs = some s' → WireOk obs →
    (acksSent obs ++ ackPart s'.owed).Perm (ackPart s.owed ++ obs.flatMap ackDue) := by
  intro obs
  induction obs with
  | nil => intro s s' _ h _; simp [run?] at h; subst h; simp [acksSent]
  | cons o os ih =>
    intro s s' hwf h hw
    unfold run? at h
    split at h
    · rename_i s1 h1
      have hstep := step_acks hwf h1 (fun t src fid n apdu hc cn exp ho =>
        hw t src fid n apdu hc cn exp (by rw [ho]; exact List.mem_cons_self))
      have hrest := ih s1 s' (WF_step hwf h1) h (fun t src fid n apdu hc cn exp hm =>
        hw t src fid n apdu hc cn exp (List.mem_cons_of_mem _ hm))
      rw [acksSent_cons, List.flatMap_cons, List.append_assoc]
      refine (List.Perm.append_left _ hrest).trans ?_
      rw [← List.append_assoc, ← List.append_assoc]
      exact List.Perm.append_right _ hstep
    · simp at h

/-- (v) on every accepted complete run: the T_ACKs sent are exactly (as a multiset) the received data
frames whose source had an open connection and that carried the expected or the preceding number —
plus, on this tree, the data frames of sources without any connection object (known finding). -/
theorem acks_sent_are_due_or_known (rate : Nat) (obs : List Obs) (s : St)
    (h : run? (St.init rate) obs = some s) (hfin : s.owed = []) (hw : WireOk obs) :
    (acksSent obs).Perm (obs.flatMap ackDue) := by
  have := run_acks obs _ _ (WF_init rate) h hw
  simpa [hfin, ackPart, St.init] using this

/- Full statement (false on this tree, see `ack_without_connection_witness`):
   theorem acks_sent_iff_due : run? (St.init rate) obs = some s → s.owed = [] → WireOk obs →
       (acksSent obs).Perm (obs.flatMap ackDueStrict) -/

/-- (v), excluding exactly the known finding: no data frame from a source without connection object. -/
theorem acks_sent_iff_due_partial (rate : Nat) (obs : List Obs) (s : St)
    (h : run? (St.init rate) obs = some s) (hfin : s.owed = []) (hw : WireOk obs)
    (hknown : ∀ t src fid n apdu cn exp, Obs.rx t src fid (.data n apdu) false cn exp ∉ obs) :
    (acksSent obs).Perm (obs.flatMap ackDueStrict) := by
  have h1 := acks_sent_are_due_or_known rate obs s h hfin hw
  have h2 : obs.flatMap ackDue = obs.flatMap ackDueStrict := by
    apply flatMap_congr'
    intro o ho
    cases o <;> try rfl
    rename_i t src fid f hc cn exp
    cases f <;> try rfl
    rename_i n apdu
    simp only [ackDue, ackDueStrict]
    cases hc
    · exact absurd ho (hknown t src fid n apdu cn exp)
    · simp
  rw [← h2]; exact h1

/-- Negation witness for the full statement: a stranger's data frame is acknowledged. -/
theorem ack_without_connection_witness :
    ∃ obs s, run? (St.init 0) obs = some s ∧ s.owed = [] ∧ WireOk obs ∧
      ¬ (acksSent obs).Perm (obs.flatMap ackDueStrict) := by
  refine ⟨[.rx 0 3 0 (.data 0 1) false false 0, .txAck 0 3 0, .fin 0], St.init 0, by decide, by decide, ?_, by decide⟩
  intro t src fid n apdu hc cn exp hm
  simp at hm
  omega


/-! ### (iv) outgoing numbers -/

/-- Numbers of the T_Data_Connected telegrams sent to the peer, in order. -/
def dataNumbers : List Obs → List Nat
  | [] => []
  | .txData _ n _ :: os => n :: dataNumbers os
  | _ :: os => dataNumbers os

/-- `Numbered k rep ns`: `ns` continues a connection whose next fresh number is `k mod 16`; each
telegram carries the next fresh number, or — at most once, directly after the first transmission —
repeats the number `rep` of the telegram before it. -/
def Numbered : Nat → Option Nat → List Nat → Prop
  | _, _, [] => True
  | k, rep, n :: ns => (n = k % 16 ∧ Numbered (k + 1) (some n) ns) ∨ (rep = some n ∧ Numbered k none ns)

private theorem Numbered.weaken {k : Nat} {rep : Option Nat} {ns : List Nat} (h : Numbered k none ns) :
    Numbered k rep ns := by
  cases ns with
  | nil => trivial
  | cons n ns =>
    rcases h with h | h
    · exact Or.inl h
    · simp at h

/-- No connection is opened or closed within these observations. -/
def SameConnection (obs : List Obs) : Prop :=
  ∀ o ∈ obs, (∀ t b, o ≠ .opened t b) ∧ (∀ t r, o ≠ .closed t r)

private theorem numbered_from : ∀ (obs : List Obs) (s s' : St) (c : Conn) (k : Nat),
    run? s obs = some s' → s.conn = some c → c.sendSeq = k % 16 → SameConnection obs →
    Numbered k c.rep (dataNumbers obs) := by
  intro obs
  induction obs with
  | nil => intros; trivial
  | cons o os ih =>
    intro s s' c k h hc hk hsame
    unfold run? at h
    split at h
    · rename_i s1 h1
      obtain ⟨s0, ht, hcore⟩ := step?_eq_some h1
      obtain ⟨c0, hc0, hs0, hr0⟩ := tick_conn_num ht hc
      obtain ⟨c1, hc1, hnum⟩ := core_conn_num hcore hc0 (hsame o List.mem_cons_self)
      have hsame' : SameConnection os := fun o' ho' => hsame o' (List.mem_cons_of_mem _ ho')
      cases o
      case txData t n a =>
        simp only [dataNumbers]
        simp only at hnum
        rcases hnum with ⟨h1, h2, h3⟩ | ⟨h1, h2, h3⟩
        · left
          refine ⟨by rw [h1, hs0, hk], ?_⟩
          have := ih s1 s' c1 (k + 1) h hc1 (by rw [h2, hs0, hk]; unfold nextSeq; omega) hsame'
          rw [h3] at this; exact this
        · right
          have hrep : c.rep = some n := by
            rcases hr0 with hr0 | hr0
            · rw [← hr0]; exact h1
            · rw [hr0] at h1; simp at h1
          refine ⟨hrep, ?_⟩
          have := ih s1 s' c1 k h hc1 (by rw [h2, hs0, hk]) hsame'
          rw [h3] at this; exact this
      all_goals
        simp only [dataNumbers]
        simp only at hnum
        have := ih s1 s' c1 k h hc1 (by rw [hnum.1, hs0, hk]) hsame'
        rcases hnum.2 with hr | hr
        · rcases hr0 with hr0 | hr0
          · rw [hr, hr0] at this; exact this
          · rw [hr, hr0] at this; exact Numbered.weaken this
        · rw [hr] at this; exact Numbered.weaken this
    · simp at h

/-- (iv) For the whole life of a connection — from `connect()` on, over any accepted continuation in
which it is not closed — the data telegrams carry 0, 1, 2, … modulo 16, and the only departure is one
repetition of a telegram's number directly after its first transmission. -/
theorem data_numbers_of_connection (rate : Nat) (pre obs : List Obs) (t : Nat) (s : St)
    (h : run? (St.init rate) (pre ++ .opened t true :: obs) = some s) (hsame : SameConnection obs) :
    Numbered 0 none (dataNumbers obs) := by
  obtain ⟨s1, _, h2⟩ := run?_append h
  unfold run? at h2
  split at h2
  · rename_i s2 hstep
    obtain ⟨s0, _, hcore⟩ := step?_eq_some hstep
    simp only [core, onOpened] at hcore
    split at hcore
    · simp at hcore; subst hcore
      exact numbered_from obs _ s Conn.fresh 0 h2 rfl rfl hsame
    · simp_all
    · simp at hcore
  · simp at h2

/-- … and the numbers are what the code's generator yields (regenerated table). -/
theorem sequence_generator_matches :
    Generated.Management.sequenceNumbers = (List.range 34).map (· % 16) ∧
    (∀ i : Fin 33, Generated.Management.sequenceNumbers[i.val + 1]? =
      (Generated.Management.sequenceNumbers[i.val]?).map nextSeq) := by
  exact ⟨by decide, by decide⟩


/-! ### (i) what a request returns, and when -/

/-- History invariant: a stored response is a received, in-sequence data frame of the peer; a request in
flight was started by a `req` observation. -/
private def HistOk (s : St) (hist : List Obs) : Prop :=
  ∀ c, s.conn = some c →
    (∀ fid n a, c.respW = .got fid n a →
      ∃ t' cn, t' ≤ s.now ∧ Obs.rx t' 0 fid (.data n a) true cn n ∈ hist) ∧
    (∀ t0 e, c.stage.start = some t0 → c.stage.expect = some e → ∃ a, Obs.req t0 a e ∈ hist)

private theorem HistOk_step (s : St) (hist : List Obs) (o : Obs) (s' : St) (hi : HistOk s hist)
    (h : step? s o = some s') : HistOk s' (hist ++ [o]) := by
  intro c' hc'
  have hnow' := step?_now h
  have hmono : s.now ≤ s'.now := by
    obtain ⟨s1, h1, h2⟩ := step?_eq_some h
    rw [(core_rate h2).2]
    cases tick_spec h1 with
    | same => exact Nat.le_refl _
    | noConn hlt => exact Nat.le_of_lt hlt
    | conn _ hlt => exact Nat.le_of_lt hlt
  constructor
  · intro fid n a hg
    cases step_respW h hc' with
    | dead hd => rcases hd with hd | hd | hd <;> rw [hd] at hg <;> simp at hg
    | keep c hc hk =>
      obtain ⟨t', cn, ht', hm⟩ := (hi c hc).1 fid n a (by rw [← hk]; exact hg)
      exact ⟨t', cn, Nat.le_trans ht' hmono, List.mem_append_left _ hm⟩
    | got c t fid' n' a' cn hc ho hk =>
      rw [hk] at hg; simp only [RespW.got.injEq] at hg
      obtain ⟨rfl, rfl, rfl⟩ := hg
      subst ho
      exact ⟨t, cn, by rw [hnow']; exact Nat.le_refl _, by simp⟩
  · intro t0 e hs he
    rcases step_stage h hc' with hidle | ⟨a, e', ho, hs', he'⟩ | ⟨c, hc, hs', he'⟩
    · rw [hidle] at hs; simp [Stage.start] at hs
    · rw [hs'] at hs; rw [he'] at he
      simp only [Option.some.injEq] at hs he
      subst hs; subst he
      exact ⟨a, by rw [← ho]; simp⟩
    · obtain ⟨a, hm⟩ := (hi c hc).2 t0 e (by rw [← hs']; exact hs) (by rw [← he']; exact he)
      exact ⟨a, List.mem_append_left _ hm⟩

/-- (i) Every result of a request, on every accepted run: it is the result of a request entered at some
`t0` with expected response type `e`, it arrives no later than `t0 + 1/rate_limit + 2·ACK_TIMEOUT +
CONNECTION_TIMEOUT`, it is either a response or one of the three management errors (the `Outcome`
type), and a response `ok fid n a` is a T_Data_Connected frame received earlier from the peer of this
connection that carried the connection's expected number `n` at that time and has the expected type. -/
theorem result_sound (rate : Nat) (pre post : List Obs) (t : Nat) (o : Outcome) (s : St)
    (h : run? (St.init rate) (pre ++ .res t o :: post) = some s) :
    ∃ t0 apdu e, Obs.req t0 apdu e ∈ pre ∧ t0 ≤ t ∧ t ≤ t0 + rate + 2 * ACK + CONN ∧
      ∀ fid n a, o = .ok fid n a →
        (e = 0 ∨ a = e) ∧ ∃ t' cn, t' ≤ t ∧ Obs.rx t' 0 fid (.data n a) true cn n ∈ pre := by
  obtain ⟨s1, hpre, hrest⟩ := run?_append h
  have hwf1 : WF s1 := WF_run hpre
  have hrate1 : s1.rate = rate := by
    have := run?_inv (fun s => s.rate = rate) (fun s o s' hi hs => by rw [step?_rate hs]; exact hi) pre _ _ rfl hpre
    exact this
  have hh1 : HistOk s1 pre := by
    have := run?_hist_inv HistOk HistOk_step pre (St.init rate) [] s1
      (by intro c hc; simp [St.init] at hc) hpre
    simpa using this
  unfold run? at hrest
  split at hrest
  · rename_i s2 hstep
    obtain ⟨c, t0, e, hc, hs, he, hok⟩ := step_res hstep
    obtain ⟨a0, hreq⟩ := (hh1 c hc).2 t0 e hs he
    -- timing: after `tick` the state is well-formed at instant t
    obtain ⟨s0, htick, hcore⟩ := step?_eq_some hstep
    have hwf0 := WF_tick hwf1 htick
    have hnow0 : s0.now = t := tick_now htick
    have hrate0 : s0.rate = rate := by rw [tick_rate htick, hrate1]
    simp only [core] at hcore
    unfold onRes at hcore
    split at hcore
    · simp at hcore
    · rename_i c0 hc0
      obtain ⟨c', hc', hs', _, _, _⟩ := tick_conn_back htick hc0
      rw [hc] at hc'; simp only [Option.some.injEq] at hc'; subst hc'
      have hb := connOk_bound (hwf0 c0 hc0) (by rw [hs', hs])
      rw [hnow0, hrate0] at hb
      refine ⟨t0, a0, e, hreq, hb.1, hb.2, ?_⟩
      intro fid n a ho
      obtain ⟨hg, hty⟩ := hok fid n a ho
      obtain ⟨t', cn, ht', hm⟩ := (hh1 c hc).1 fid n a hg
      refine ⟨?_, t', cn, ?_, hm⟩
      · simpa [typeOk] using hty
      · have : s1.now ≤ t := by
          rw [← hnow0]
          cases tick_spec htick with
          | same => exact Nat.le_refl _
          | noConn hlt => exact Nat.le_of_lt hlt
          | conn _ hlt => exact Nat.le_of_lt hlt
        omega
  · simp at hrest

/-- Requests entered / finished. -/
def reqCount : List Obs → Nat
  | [] => 0
  | .req _ _ _ :: os => reqCount os + 1
  | _ :: os => reqCount os

def resCount : List Obs → Nat
  | [] => 0
  | .res _ _ :: os => resCount os + 1
  | _ :: os => resCount os

private theorem count_inv : ∀ (obs : List Obs) (s s' : St), run? s obs = some s' →
    reqCount obs + (if s.idle then 0 else 1) = resCount obs + (if s'.idle then 0 else 1) := by
  intro obs
  induction obs with
  | nil => intro s s' h; simp [run?] at h; subst h; simp [reqCount, resCount]
  | cons o os ih =>
    intro s s' h
    unfold run? at h
    split at h
    · rename_i s1 h1
      have hrest := ih s1 s' h
      -- one step
      have hone : (match o with | .req _ _ _ => 1 | _ => 0) + (if s.idle then 0 else 1)
          = (match o with | .res _ _ => 1 | _ => 0) + (if s1.idle then 0 else 1) := by
        obtain ⟨s0, htick, hcore⟩ := step?_eq_some h1
        have hidle0 : s0.idle = s.idle := by
          unfold St.idle
          cases hc0 : s0.conn with
          | none =>
            cases tick_spec htick with
            | same => rw [hc0]
            | noConn _ _ hn => rw [hn]
            | conn c _ _ hc => simp at hc0
          | some c0 =>
            obtain ⟨c, hc, hs, _, _, _⟩ := tick_conn_back htick hc0
            rw [hc]; simp only
            cases hst : c.stage <;> cases hst0 : c0.stage <;> simp [hst, hst0, Stage.start] at hs ⊢
        rw [← hidle0]
        cases o <;> simp only [core] at hcore
        case opened t ok =>
          unfold onOpened at hcore; split at hcore <;> simp at hcore <;> subst hcore <;>
            simp_all [St.idle, Conn.fresh]
        case closed t r =>
          unfold onClosed at hcore; split at hcore <;> split at hcore <;> simp at hcore <;> subst hcore <;>
            simp_all [St.idle]
        case req t a e =>
          unfold onReq at hcore; split at hcore <;> (try split at hcore) <;> simp at hcore; subst hcore
          simp_all [St.idle]
        case res t o =>
          unfold onRes at hcore; split at hcore <;> (try split at hcore) <;> (try split at hcore) <;> simp at hcore
          subst hcore
          rename_i c hc _ o' c1 hres _
          obtain ⟨r1, _, _, _, _, _, t0, e, hs, _, _⟩ := result_spec hres
          have : c.stage ≠ .idle := by intro hi; rw [hi] at hs; simp [Stage.start] at hs
          simp [St.idle, hc, r1, this]
        case txData t n a =>
          unfold onTxData at hcore
          split at hcore <;> (try split at hcore) <;> (try split at hcore) <;> simp at hcore <;> subst hcore <;>
            simp_all [St.idle]
        case txAck t d n => unfold onTx at hcore; split at hcore <;> simp at hcore; subst hcore; rfl
        case txDisc t d => unfold onTx at hcore; split at hcore <;> simp at hcore; subst hcore; rfl
        case rx t src fid f hcn cn e =>
          unfold onRx at hcore; split at hcore <;> (try split at hcore) <;> simp at hcore; subst hcore
          rename_i _ _ conn' outs hp
          rcases mgmtProcess_conn hp with hsame | ⟨c0, c1, _, hc0, hpr, hres⟩
          · simp only at hsame; subst hsame; rfl
          · simp only at hres; simp [St.idle, hres, hc0, (process_fields hpr).1]
        case fin t => unfold onFin at hcore; split at hcore <;> simp at hcore; subst hcore; simp
      cases o <;> simp only [reqCount, resCount] at hone ⊢ <;> omega
    · simp at h

/-- (i, liveness part) On an accepted complete run (it ends with `fin`, which the harness emits only
after every request task has returned) every request got a result: requests and results balance. -/
theorem every_request_finishes (rate : Nat) (obs : List Obs) (t : Nat) (s : St)
    (h : run? (St.init rate) (obs ++ [.fin t]) = some s) : reqCount obs = resCount obs := by
  obtain ⟨s1, hpre, hrest⟩ := run?_append h
  have hc := count_inv obs _ _ hpre
  have hidle : s1.idle = true := by
    unfold run? at hrest
    split at hrest
    · rename_i s2 hstep
      obtain ⟨s0, htick, hcore⟩ := step?_eq_some hstep
      simp only [core, onFin] at hcore
      split at hcore
      · rename_i hf
        have h0 : s0.idle = true := hf.2
        -- idle is not changed by tick
        unfold St.idle at h0 ⊢
        cases hc0 : s0.conn with
        | none =>
          cases tick_spec htick with
          | same => rw [hc0]
          | noConn _ _ hn => rw [hn]
          | conn c _ _ hc => simp at hc0
        | some c0 =>
          obtain ⟨c, hc, hs, _, _, _⟩ := tick_conn_back htick hc0
          rw [hc0] at h0; simp only [decide_eq_true_eq] at h0
          rw [hc]; simp only [decide_eq_true_eq]
          rw [h0] at hs
          cases hst : c.stage <;> simp [hst, Stage.start] at hs ⊢
      · simp at hcore
    · simp at hrest
  rw [hidle] at hc
  simpa [St.init, St.idle] using hc


/-! ### (ii) each received frame satisfies at most one request -/

/-- Identities of the frames received / returned as responses, in order. -/
def rxFids : List Obs → List Nat
  | [] => []
  | .rx _ _ fid _ _ _ _ :: os => fid :: rxFids os
  | _ :: os => rxFids os

def okFids : List Obs → List Nat
  | [] => []
  | .res _ (.ok fid _ _) :: os => fid :: okFids os
  | _ :: os => okFids os

private theorem rxFids_append (a b : List Obs) : rxFids (a ++ b) = rxFids a ++ rxFids b := by
  induction a with
  | nil => rfl
  | cons x xs ih => cases x <;> simp [rxFids, ih]

private theorem okFids_append (a b : List Obs) : okFids (a ++ b) = okFids a ++ okFids b := by
  induction a with
  | nil => rfl
  | cons x xs ih =>
    cases x <;> simp [okFids, ih]
    rename_i t o; cases o <;> simp [okFids, ih]

private def OnceOk (s : St) (hist : List Obs) : Prop :=
  (rxFids hist).Nodup →
    (okFids hist).Nodup ∧ (∀ f ∈ okFids hist, f ∈ rxFids hist) ∧
    ∀ c, s.conn = some c → ∀ fid n a, c.respW = .got fid n a → fid ∈ rxFids hist ∧ fid ∉ okFids hist

private theorem OnceOk_step (s : St) (hist : List Obs) (o : Obs) (s' : St) (hi : OnceOk s hist)
    (h : step? s o = some s') : OnceOk s' (hist ++ [o]) := by
  intro hnd
  rw [rxFids_append] at hnd
  have hnd0 : (rxFids hist).Nodup := (List.nodup_append.mp hnd).1
  obtain ⟨i1, i2, i3⟩ := hi hnd0
  -- the stored response afterwards, in terms of the state before
  have hgot : ∀ c', s'.conn = some c' → ∀ fid n a, c'.respW = .got fid n a →
      (∃ c, s.conn = some c ∧ c.respW = .got fid n a) ∨
      (∃ t cn, o = .rx t 0 fid (.data n a) true cn n) := by
    intro c' hc' fid n a hg
    cases step_respW h hc' with
    | dead hd => rcases hd with hd | hd | hd <;> rw [hd] at hg <;> simp at hg
    | keep c hc hk => exact Or.inl ⟨c, hc, by rw [← hk]; exact hg⟩
    | got c t fid' n' a' cn hc ho hk =>
      rw [hk] at hg; simp only [RespW.got.injEq] at hg
      obtain ⟨rfl, rfl, rfl⟩ := hg
      exact Or.inr ⟨t, cn, ho⟩
  cases o
  case res t oc =>
    cases oc
    case ok fid n a =>
      obtain ⟨c, t0, e, hc, _, _, hok⟩ := step_res h
      obtain ⟨hg, _⟩ := hok fid n a rfl
      obtain ⟨hin, hnot⟩ := i3 c hc fid n a hg
      simp only [okFids_append, rxFids_append, okFids, rxFids, List.append_nil]
      refine ⟨?_, ?_, ?_⟩
      · rw [List.nodup_append]
        exact ⟨i1, by simp, by intro x hx y hy; simp at hy; subst hy; intro hxy; subst hxy; exact hnot hx⟩
      · intro f hf
        rcases List.mem_append.mp hf with hf | hf
        · exact i2 f hf
        · simp at hf; subst hf; exact hin
      · intro c' hc' fid' n' a' hg'
        -- after an ok result the waiter is a fresh future
        cases step_respW h hc' with
        | dead hd => rcases hd with hd | hd | hd <;> rw [hd] at hg' <;> simp at hg'
        | keep c2 hc2 hk =>
          -- not possible: `result_spec` says the waiter is pending after `ok`
          obtain ⟨s1, h1, h2⟩ := step?_eq_some h
          simp only [core] at h2
          unfold onRes at h2; split at h2 <;> (try split at h2) <;> (try split at h2) <;> simp at h2; subst h2
          rename_i c1 hc1 _ o' c3 hres ho
          subst ho
          obtain ⟨_, _, _, _, _, _, _, _, _, _, hok'⟩ := result_spec hres
          simp at hc'; subst hc'
          rw [(hok' fid n a rfl).2.2] at hg'; simp at hg'
        | got c2 t' fid2 n2 a2 cn hc2 ho hk => simp at ho
    all_goals
      simp only [okFids_append, rxFids_append, okFids, rxFids, List.append_nil]
      refine ⟨i1, i2, ?_⟩
      intro c' hc' fid n a hg
      rcases hgot c' hc' fid n a hg with ⟨c, hc, hg0⟩ | ⟨t', cn, ho⟩
      · exact i3 c hc fid n a hg0
      · simp at ho
  case rx t src fid0 f hcn cn e =>
    simp only [okFids_append, rxFids_append, okFids, rxFids, List.append_nil]
    have hfresh : fid0 ∉ rxFids hist := by
      intro hmem
      have := (List.nodup_append.mp hnd).2.2 fid0 hmem fid0 (by simp [rxFids])
      exact this rfl
    refine ⟨i1, fun f hf => List.mem_append_left _ (i2 f hf), ?_⟩
    intro c' hc' fid n a hg
    rcases hgot c' hc' fid n a hg with ⟨c, hc, hg0⟩ | ⟨t', cn', ho⟩
    · obtain ⟨h1, h2⟩ := i3 c hc fid n a hg0
      exact ⟨List.mem_append_left _ h1, h2⟩
    · simp only [Obs.rx.injEq] at ho
      obtain ⟨_, _, rfl, _⟩ := ho
      exact ⟨by simp, fun hmem => hfresh (i2 _ hmem)⟩
  all_goals
    simp only [okFids_append, rxFids_append, okFids, rxFids, List.append_nil]
    refine ⟨i1, i2, ?_⟩
    intro c' hc' fid n a hg
    rcases hgot c' hc' fid n a hg with ⟨c, hc, hg0⟩ | ⟨t', cn, ho⟩
    · exact i3 c hc fid n a hg0
    · simp at ho

/-- (ii) On every accepted run in which the received frames are distinct objects, no frame is returned
by two requests, and every returned frame is one that was received. -/
theorem responses_used_once (rate : Nat) (obs : List Obs) (s : St)
    (h : run? (St.init rate) obs = some s) (hnd : (rxFids obs).Nodup) :
    (okFids obs).Nodup ∧ ∀ f ∈ okFids obs, f ∈ rxFids obs := by
  have := run?_hist_inv OnceOk OnceOk_step obs (St.init rate) [] s
    (by intro _; exact ⟨by simp [okFids], by simp [okFids], by intro c hc; simp [St.init] at hc⟩) h
  simp only [List.nil_append] at this
  exact ⟨(this hnd).1, (this hnd).2.1⟩

/-! ### Non-vacuity: concrete accepted runs that exercise the hypotheses -/

/-- clean exchange, then a repeated telegram, a duplicate ACK, an old data frame (acknowledged, not
delivered), a stranger's T_Connect (refused), disconnect by the peer. -/
def demo : List Obs :=
  [.opened 0 true, .req 0 1 1, .txData 0 0 1, .rx 0 0 3 (.ack 0) true true 0,
   .rx 0 0 4 (.data 0 1) true true 0, .res 0 (.ok 4 0 1), .txAck 0 0 0,
   .req 5 1 1, .txData 5 1 1, .txData (5 + ACK) 1 1, .rx (6 + ACK) 0 9 (.ack 1) true true 1,
   .rx (6 + ACK) 0 10 (.ack 1) true true 1, .rx (6 + ACK) 0 11 (.data 0 1) true true 1, .txAck (6 + ACK) 0 0,
   .rx (7 + ACK) 3 12 .connect false false 0, .txDisc (7 + ACK) 3,
   .rx (8 + ACK) 0 13 .disconnect true true 1, .res (8 + ACK) .refused, .closed (9 + ACK) 1, .fin (9 + ACK)]

example : (run? (St.init 0) demo).isSome = true := by decide
example : dataNumbers demo = [0, 1, 1] ∧ okFids demo = [4] ∧ acksSent demo = [(0, 0), (0, 0)] := by decide
example : (rxFids demo).Nodup := by decide
example : SameConnection (demo.drop 1 |>.take 17) := by
  intro o ho; simp [demo] at ho; rcases ho with h | h | h | h | h | h | h | h | h | h | h | h | h | h | h | h | h <;>
    subst h <;> simp
/-- The pre-fix behaviours are excluded by the model: a second T_ACK on a done waiter would raise in the
pinned code; here it is ignored. -/
example : (Conn.process { Conn.fresh with ackW := .acked false 0 } 1 (.ack 0)) =
    .ok { Conn.fresh with ackW := .acked false 0 } := by decide
example : ∀ w : AckW, w ≠ .pending → w.setResult false 0 = .error .invalidState := by
  intro w h; cases w <;> simp_all [AckW.setResult]

end XknxVerif.Props.C43
