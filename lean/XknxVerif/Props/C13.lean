/-
C13  cEMI link frames round-trip and carry the correct frame type.
The application-layer codec is a parameter; the theorems assume exactly the codec laws
`CodecLaws` (what C05/C06 establish for the APCI model).  Property theorems only.
-/
import XknxVerif.Lemmas.CEMIRoundtrip
import XknxVerif.Lemmas.CEMIReser

namespace XknxVerif.Props.C13
open XknxVerif XknxVerif.CEMI XknxVerif.Generated

/-- What the link layer needs from the application-layer codec (C06: an encodable service
decodes back to itself; the encoding is `calculated_length() + 1` octets long and leaves the six
TPCI bits of its first octet clear). -/
structure CodecLaws {α} (C : Codec α) : Prop where
  enc_dec : ∀ a bs, C.encode a = some bs → C.decode bs = .ok a
  enc_len : ∀ a bs, C.encode a = some bs → bs.length = C.len a + 1
  enc_head : ∀ a bs, C.encode a = some bs → bs.headD 0 < 4

def npdu {α} (C : Codec α) (d : LData α) : Nat :=
  match d.payload with | none => 0 | some a => C.len a

def WFL {α} (C : Codec α) (d : LData α) : Prop :=
  d.flags.priority < 4 ∧ d.flags.hop ≤ 7 ∧ d.flags.frameFormat = 0 ∧ d.src < 65536 ∧ d.dst < 65536 ∧
  TPCI.Constructible d.tpci ∧ TPCI.kindOk d.tpci d.dstGroup (d.dst == 0) = true ∧
  (match d.payload with
   | none => d.tpci.isControl = true
   | some a => d.tpci.isControl = false ∧ (C.encode a).isSome = true ∧ C.len a ≤ 254)

def derivedFT (n : Nat) : Nat := if n ≤ 15 then 1 else 0


/-- (a) Every well-formed link frame built from a telegram serialises, the octets parse back to the
same addresses, transport PDU, payload and control flags (the stored frame type becomes the derived
one), the frame type bit says "standard" exactly when the NPDU is at most 15 octets, and the
address type bit matches the destination. For every codec satisfying the laws. -/
theorem ldata_roundtrip {α} (C : Codec α) (hC : CodecLaws C) (d : LData α) (h : WFL C d) :
    ∃ raw, LData.toKnx C d = .ok raw ∧
      LData.fromKnx C raw = .ok { d with flags := { d.flags with frameType := derivedFT (npdu C d) } } ∧
      raw.getD 0 0 >>> 7 = derivedFT (npdu C d) ∧ raw.getD 1 0 >>> 7 = atBit d.dstGroup := by
  obtain ⟨hp, hh, hf, hs, hd, hcon, hk, hpay⟩ := h
  rcases d with ⟨flags, src, grp, dst, tpci, payload⟩
  simp only at hp hh hf hs hd hcon hk hpay
  have hfe := flags_eq_mk flags hp hh hf
  cases payload with
  | none =>
    simp only at hpay
    obtain ⟨k, s, rfl⟩ := ctrlShape_surj tpci hcon hpay
    obtain ⟨fl, hfl, hc, hfk, hg, hb1, hb2⟩ :=
      ctl_facts ⟨flags.priority, hp⟩ flags.repeatOnError flags.systemBroadcast flags.ackRequest flags.confirmError
        ⟨flags.hop, by omega⟩ 1 (atBit grp) (by omega) (atBit_lt grp)
    rw [atBit_eq] at hg
    obtain ⟨hres, henc⟩ := ctrl_tpdu_ok k s grp (dst == 0) hk
    refine ⟨Bytes.ofNatBE 2 (mkControl fl 1 (atBit grp)) ++ Bytes.ofNatBE 2 src ++ Bytes.ofNatBE 2 dst ++ [0]
              ++ [TPCI.encode (ctrlShape k s)], ?_, ?_, by simpa [ofNatBE_two, npdu, derivedFT] using hb1,
              by simpa [ofNatBE_two] using hb2⟩
    · unfold LData.toKnx
      simp only [hpay, ↓reduceIte]
      rw [hfe, toKnx_mk_ft, hfl]
      simp [mkControl, atBit, Cemi.maxNpduLength, Cemi.standardFrameMaxNpduLength, Cemi.frameTypeStandard]
    · unfold LData.fromKnx
      rw [pre_of_shape _ _ _ _ _ hc hs hd (by simp), hfk]
      simp only [hg, mkFlags, Cemi.frameFormatStandard, bne_self_eq_false, Bool.false_eq_true, ↓reduceIte,
        List.length_cons, List.length_nil, List.headD_cons, hres, hpay, stage, npdu, derivedFT]
      simp
      rw [hfe]; simp [mkFlags]
  | some a =>
    simp only at hpay
    obtain ⟨hdat, henc, hlen⟩ := hpay
    obtain ⟨bs, hbs⟩ := Option.isSome_iff_exists.mp henc
    have hbl := hC.enc_len a bs hbs
    have hbh := hC.enc_head a bs hbs
    obtain ⟨b0, rest, rfl⟩ : ∃ b0 rest, bs = b0 :: rest := by
      cases bs with
      | nil => simp at hbl
      | cons b r => exact ⟨b, r, rfl⟩
    simp only [List.headD_cons] at hbh
    simp only [List.length_cons] at hbl
    obtain ⟨k, s, rfl⟩ := dataShape_surj tpci hcon hdat
    obtain ⟨fl, hfl, hc, hfk, hg, hb1, hb2⟩ :=
      ctl_facts ⟨flags.priority, hp⟩ flags.repeatOnError flags.systemBroadcast flags.ackRequest flags.confirmError
        ⟨flags.hop, by omega⟩ (derivedFT (C.len a)) (atBit grp) (by unfold derivedFT; split <;> omega) (atBit_lt grp)
    rw [atBit_eq] at hg
    obtain ⟨hlow, hres, _⟩ := data_tpdu_ok ⟨b0, hbh⟩ k s grp (dst == 0) hk
    simp only at hlow hres
    refine ⟨Bytes.ofNatBE 2 (mkControl fl (derivedFT (C.len a)) (atBit grp)) ++ Bytes.ofNatBE 2 src
              ++ Bytes.ofNatBE 2 dst ++ [C.len a] ++ ((b0 ||| TPCI.encode (dataShape k s)) :: rest), ?_, ?_,
              by simpa [ofNatBE_two, npdu] using hb1, by simpa [ofNatBE_two] using hb2⟩
    · unfold LData.toKnx
      simp only [hdat, Bool.false_eq_true, ↓reduceIte, hbs, List.headD_cons, List.drop_succ_cons, List.drop_zero]
      have : ¬ (C.len a > Cemi.maxNpduLength) := by simp [Cemi.maxNpduLength]; omega
      simp only [this, ↓reduceIte]
      rw [hfe, toKnx_mk_ft, hfl]
      by_cases h15 : C.len a ≤ 15 <;>
        simp [mkControl, atBit, derivedFT, Cemi.standardFrameMaxNpduLength, Cemi.frameTypeStandard, h15]
    · unfold LData.fromKnx
      rw [pre_of_shape _ _ _ _ _ hc hs hd (by simp), hfk]
      have hl : ¬ (((b0 ||| TPCI.encode (dataShape k s)) :: rest).length != C.len a + 1) = true := by
        simp; omega
      simp only [hg, mkFlags, Cemi.frameFormatStandard, bne_self_eq_false, Bool.false_eq_true, ↓reduceIte, hl,
        List.headD_cons, hres, hdat, hlow, List.drop_succ_cons, List.drop_zero, stage, hC.enc_dec a _ hbs, npdu]
      simp
      rw [hfe]; simp [mkFlags]

/-- (a') The same at frame level: message code (L_Data.ind/.req/.con) and additional info survive too. -/
theorem frame_roundtrip {α} (C : Codec α) (hC : CodecLaws C) (code : Nat) (info : Bytes) (d : LData α)
    (hcode : isLDataCode code = true) (h : WFL C d) :
    ∃ raw, Frame.toKnx C ⟨code, info, .ldata d⟩ = .ok raw ∧
      Frame.fromKnx C raw
        = .ok ⟨code, info, .ldata { d with flags := { d.flags with frameType := derivedFT (npdu C d) } }⟩ := by
  obtain ⟨raw0, h1, h2, -, -⟩ := ldata_roundtrip C hC d h
  have hk : (Cemi.messageCodes.map (·.2)).contains code = true ∧ Cemi.hasInfoCodes.contains code = true := by
    simp only [isLDataCode, Bool.or_eq_true, beq_iff_eq] at hcode
    rcases hcode with (h | h) | h <;> subst h <;> decide
  refine ⟨code :: info.length :: info ++ raw0, ?_, ?_⟩
  · simp only [Frame.toKnx, hk.2, ↓reduceIte, h1, List.cons_append]
  · unfold Frame.fromKnx
    simp only [isLDataCode] at hcode
    simp only [hcode, ↓reduceIte, List.cons_append, List.drop_left' rfl, List.take_left' rfl, h2]
    simp only [hk.1, Bool.not_true, Bool.false_eq_true, ↓reduceIte]

/-- What re-serialising a received frame needs from the application-layer codec (C05: whenever a
decoded service encodes again, the encoding has the received length, reports that length, and has
its TPCI bits clear). -/
structure DecLaws {α} (C : Codec α) : Prop where
  dec_enc : ∀ apdu a bs, C.decode apdu = .ok a → C.encode a = some bs →
    bs.length = apdu.length ∧ C.len a + 1 = bs.length ∧ bs.headD 0 < 4

/-- (d) Re-serialising a received frame changes nothing but the derived frame type bit, the reserved
bit 6 of Ctrl1, and whatever the application-layer codec changes when it re-encodes the decoded
service (C05: reserved application bits only): same length; Ctrl1 equal modulo bits 7 and 6; Ctrl2,
source, destination and NPDU length octets equal; a control TPDU equal; a data TPDU keeps its six
transport bits and carries the re-encoded APDU. For every WF byte string the parser accepts with an
NPDU length field ≤ 254 (255 is the reserved escape code and is refused by the serialiser) and whose
decoded service can be encoded again (C05's antecedent: e.g. A_MemoryExtended_Read with count 251
decodes but `to_knx` refuses it). -/
theorem ldata_reserialise {α} (C : Codec α) (hD : DecLaws C) (raw : Bytes) (hwf : Bytes.WF raw)
    (d : LData α) (h : LData.fromKnx C raw = .ok d) (hn : raw.getD 6 0 ≤ 254)
    (henc : ∀ a, d.payload = some a → ∃ bs, C.encode a = some bs) :
    ∃ raw', LData.toKnx C d = .ok raw' ∧ raw'.length = raw.length ∧
      raw'.getD 0 0 % 64 = raw.getD 0 0 % 64 ∧
      (raw'.drop 1).take 6 = (raw.drop 1).take 6 ∧
      (match d.payload with
       | none => raw'.drop 7 = raw.drop 7
       | some a => ∃ bs, C.encode a = some bs ∧ raw'.drop 8 = bs.drop 1 ∧
                    raw'.getD 7 0 = bs.headD 0 ||| (raw.getD 7 0 &&& 0xFC)) := by
  -- shape of the input
  have hlen : ¬ raw.length < 8 := by
    intro hl
    simp [LData.fromKnx, pre, hl, stage] at h
  obtain ⟨c1, c2, s1, s2, d1, d2, n, t0, ts, rfl⟩ :
      ∃ c1 c2 s1 s2 d1 d2 n t0 ts, raw = c1 :: c2 :: s1 :: s2 :: d1 :: d2 :: n :: t0 :: ts := by
    match raw, hlen with
    | c1 :: c2 :: s1 :: s2 :: d1 :: d2 :: n :: t0 :: ts, _ => exact ⟨_, _, _, _, _, _, _, _, _, rfl⟩
    | [], h => simp at h
    | [_], h => simp at h
    | [_, _], h => simp at h
    | [_, _, _], h => simp at h
    | [_, _, _, _], h => simp at h
    | [_, _, _, _, _], h => simp at h
    | [_, _, _, _, _, _], h => simp at h
    | [_, _, _, _, _, _, _], h => simp at h
  have hc1 := hwf c1 (by simp); have hc2 := hwf c2 (by simp); have hs1 := hwf s1 (by simp); have hs2 := hwf s2 (by simp)
  have hd1 := hwf d1 (by simp); have hd2 := hwf d2 (by simp); have ht0 := hwf t0 (by simp)
  obtain ⟨ec, ec1, ec2, ecl⟩ := pair_split c1 c2 hc1 hc2
  obtain ⟨es, es1, es2, esl⟩ := pair_split s1 s2 hs1 hs2
  obtain ⟨ed, ed1, ed2, edl⟩ := pair_split d1 d2 hd1 hd2
  simp only [List.getD_cons_succ, List.getD_cons_zero] at hn
  -- unfold the parse
  unfold LData.fromKnx pre apduOf at h
  simp only [List.length_cons, Bytes.slice, List.take, List.drop, List.getD_cons_succ, List.getD_cons_zero,
    List.headD_cons, ec, es, ed] at h
  have : ¬ (ts.length + 1 + 1 + 1 + 1 + 1 + 1 + 1 + 1 < 8) := by omega
  simp only [this, ↓reduceIte] at h
  generalize hg : ((c1 * 256 + c2) >>> 7 &&& 1 == 1) = grp at h
  generalize hz : (d1 * 256 + d2 == 0) = z at h
  cases hfk : Flags.fromKnx (c1 * 256 + c2) with
  | error e => rw [hfk] at h; cases h
  | ok flags =>
    rw [hfk] at h
    simp only at h
    by_cases hff : (flags.frameFormat != Cemi.frameFormatStandard) = true
    · rw [if_pos hff] at h; cases h
    · rw [if_neg hff] at h
      have hff0 : flags.frameFormat = 0 := by simpa [Cemi.frameFormatStandard] using hff
      by_cases hl : (ts.length + 1 != n + 1) = true
      · rw [if_pos hl] at h; cases h
      · rw [if_neg hl] at h
        have hnl : ts.length = n := by simpa using hl
        cases hres : TPCI.resolve t0 grp z with
        | error e => rw [hres] at h; cases h
        | ok tpci =>
          rw [hres] at h
          simp only at h
          have hex := tpci_exact t0 ht0 _ _ tpci hres
          obtain ⟨fl, hfl, hctlv⟩ := ctl_back _ ecl flags hfk hff0 (derivedFT n) (by unfold derivedFT; split <;> omega)
          rw [hg] at hctlv
          simp only at hctlv
          obtain ⟨hl16, hlo, hhi, _⟩ := hctlv
          by_cases hctl : tpci.isControl = true
          · -- control PDU
            rw [if_pos hctl] at h
            by_cases hn0 : (n != 0) = true
            · rw [if_pos hn0] at h; cases h
            · rw [if_neg hn0] at h
              simp only [stage] at h
              have hn0' : n = 0 := by simpa using hn0
              cases h
              have hts : ts = [] := List.eq_nil_of_length_eq_zero (by omega)
              subst hts
              subst hn0'
              refine ⟨Bytes.ofNatBE 2 (fl ||| derivedFT 0 <<< 15 ||| (if grp = true then 1 else 0) <<< 7)
                  ++ Bytes.ofNatBE 2 (s1 * 256 + s2) ++ Bytes.ofNatBE 2 (d1 * 256 + d2) ++ [0] ++ [TPCI.encode tpci], ?_, ?_⟩
              · unfold LData.toKnx
                simp only [hctl, ↓reduceIte, hfl]
                have : ¬ (0 > Cemi.maxNpduLength) := by decide
                simp only [this, ↓reduceIte]
                rfl
              · simp only [ofNatBE_two, hex, hctl, ↓reduceIte]
                simp only [List.cons_append, List.nil_append, List.length_cons, List.length_nil, List.getD_cons_zero,
                  List.drop_succ_cons, List.drop_zero, List.take_succ_cons, List.take_zero, List.getD_cons_succ]
                refine ⟨trivial, ?_, ?_, trivial⟩
                · rw [hhi, ec1]
                · rw [hlo, ec2, es1, es2, ed1, ed2]
          · -- data PDU
            rw [if_neg hctl] at h
            simp only [stage] at h
            cases hdec : C.decode ((t0 &&& 3) :: ts) with
            | error e => rw [hdec] at h; cases e <;> cases h
            | ok a =>
              rw [hdec] at h
              cases h
              obtain ⟨bs, hbs⟩ := henc a rfl
              obtain ⟨hbl, hbn, hbh⟩ := hD.dec_enc _ a bs hdec hbs
              simp only [List.length_cons] at hbl
              obtain ⟨b0, rest, rfl⟩ : ∃ b0 rest, bs = b0 :: rest := by
                cases bs with
                | nil => simp at hbl
                | cons b r => exact ⟨b, r, rfl⟩
              simp only [List.length_cons] at hbl hbn
              have hca : C.len a = n := by omega
              have hctl' : tpci.isControl = false := by simpa using hctl
              refine ⟨Bytes.ofNatBE 2 (fl ||| derivedFT n <<< 15 ||| (if grp = true then 1 else 0) <<< 7)
                  ++ Bytes.ofNatBE 2 (s1 * 256 + s2) ++ Bytes.ofNatBE 2 (d1 * 256 + d2) ++ [n]
                  ++ ((b0 ||| TPCI.encode tpci) :: rest), ?_, ?_⟩
              · unfold LData.toKnx
                simp only [hctl', Bool.false_eq_true, ↓reduceIte, hbs, List.headD_cons, List.drop_succ_cons,
                  List.drop_zero, hca, hfl]
                have : ¬ (n > Cemi.maxNpduLength) := by simp [Cemi.maxNpduLength]; omega
                simp only [this, ↓reduceIte]
                rfl
              · simp only [ofNatBE_two, hex, hctl', Bool.false_eq_true, ↓reduceIte]
                simp only [List.cons_append, List.nil_append, List.length_cons, List.getD_cons_zero,
                  List.drop_succ_cons, List.drop_zero, List.take_succ_cons, List.take_zero, List.getD_cons_succ,
                  List.headD_cons]
                refine ⟨by omega, ?_, ?_, ⟨b0 :: rest, hbs, rfl, rfl⟩⟩
                · rw [hhi, ec1]
                · rw [hlo, ec2, es1, es2, ed1, ed2]

/-- the frame type bit is "standard" (1) exactly when the NPDU is at most 15 octets -/
theorem derivedFT_iff (n : Nat) : derivedFT n = 1 ↔ n ≤ 15 := by
  unfold derivedFT; split <;> simp_all

/-- (c) An APDU longer than 254 octets is rejected. -/
theorem toKnx_too_long {α} (C : Codec α) (d : LData α) (a : α) (hp : d.payload = some a)
    (hd : d.tpci.isControl = false) (hl : C.len a > 254) : LData.toKnx C d = .error .conv := by
  unfold LData.toKnx
  simp only [hd, Bool.false_eq_true, ↓reduceIte, hp]
  cases C.encode a with
  | none => rfl
  | some bs =>
    have : C.len a > Cemi.maxNpduLength := by simpa [Cemi.maxNpduLength] using hl
    simp [this]

/-- (c') A frame with a hop count beyond 7 never serialises. -/
theorem toKnx_bad_hop {α} (C : Codec α) (d : LData α) (hh : d.flags.hop > 7) (raw : Bytes) :
    LData.toKnx C d ≠ .ok raw := by
  have hf : d.flags.toKnx = .error .conv := by
    unfold Flags.toKnx
    have : d.flags.hop > Cemi.maxHopCount := hh
    simp [this]
  intro h
  unfold LData.toKnx at h
  rw [hf] at h
  split_all h
  all_goals (first | (cases h; done) | (rename_i heq _ _ _; cases heq) | (rename_i heq _ _; cases heq) | (rename_i heq; cases heq) | simp_all)

/-! Non-vacuity: a concrete codec satisfying the laws and a concrete well-formed frame. -/
def idCodec : Codec Bytes :=
  { decode := fun b => .ok b, encode := fun b => if b.length ≥ 1 ∧ b.headD 0 < 4 then some b else none,
    len := fun b => b.length - 1 }

example : CodecLaws idCodec where
  enc_dec := by intro a bs h; simp only [idCodec] at h ⊢; split at h <;> simp_all
  enc_len := by intro a bs h; simp only [idCodec] at h ⊢; split at h <;> simp_all <;> omega
  enc_head := by intro a bs h; simp only [idCodec] at h ⊢; split at h <;> simp_all

example : WFL idCodec ⟨⟨3, false, false, false, false, 6, 1, 0⟩, 0x1101, true, 0x0901, .dataGroup, some [0, 0x81]⟩ := by
  refine ⟨by decide, by decide, rfl, by decide, by decide, trivial, by decide, ?_⟩
  exact ⟨rfl, by decide, by decide⟩

end XknxVerif.Props.C13
