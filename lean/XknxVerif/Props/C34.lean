import XknxVerif.Model.Callbacks
namespace XknxVerif.Props.C34
open XknxVerif.Callbacks
theorem placeholder_devices_once_incoming (fmt) (regs : List Reg) (t : Telegram) (h : t.outgoing = false) :
    (process fmt regs t).2.getLast? = some .devices := by
  simp [process, h]
end XknxVerif.Props.C34
