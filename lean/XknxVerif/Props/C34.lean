/-
C34  Telegram callbacks see exactly the telegrams they subscribed to.
Property theorems only; the filter semantics come from C02 (`denotes`).
-/
import XknxVerif.Model.Callbacks
import XknxVerif.Props.C02

namespace XknxVerif.Props.C34
open XknxVerif XknxVerif.Callbacks XknxVerif.Address XknxVerif.AddressFilter

/-- (1) Decision logic stated outright: a registration is called for a telegram exactly when the
telegram is incoming or the registration asked for outgoing ones, and it gave neither filters nor
addresses (match-all) or the destination is a group / internal address that one of its filters
matches or that is in its address list. -/
theorem called_iff (fmt : Fmt) (r : Reg) (t : Telegram) :
    called fmt r t = true ↔
      (t.outgoing = false ∨ r.matchOutgoing = true) ∧
      (r.matchAll = true ∨ ∃ a, t.dst = .dev a ∧
        ((∃ f ∈ r.filters, filterHit fmt f a = true) ∨ a ∈ r.addrs)) := by
  unfold called
  rcases r with ⟨id, ma, mo, fs, as, beh⟩
  rcases t with ⟨out, dst⟩
  cases out <;> cases mo <;> cases ma <;> cases dst <;>
    simp [List.any_eq_true, List.contains_iff_mem]

/-- (1') The filter part is C02's denotation: for a pattern of the documented grammar in the
matching notation, the registration's filter hits a group address exactly when the pattern
denotes it. -/
theorem filterHit_denotes (p : PatternP) (hp : p.WF) (fmt : Fmt) (hf : fmt.levels = p.length) :
    ∃ f, parseFilter p.render = .ok f ∧ ∀ raw, filterHit fmt f (.ga raw) = denotes p fmt raw := by
  obtain ⟨f, h1, h2⟩ := C02.filter_matches_what_pattern_denotes p hp fmt hf
  refine ⟨f, h1, fun raw => ?_⟩
  have := h2 raw
  simp only [matchFilter, toDev] at this
  simp [filterHit, this]

/-- (2) Dispatch: the callbacks called for a telegram are exactly the registrations (as of the start
of the dispatch) whose filter admits it, each once, in registration order — whatever any callback
does (raise, unregister itself or others). -/
theorem runCbs_calls (fmt : Fmt) (t : Telegram) (snapshot regs : List Reg) :
    (runCbs fmt t snapshot regs).1 = (snapshot.filter (called fmt · t)).map (fun r => Ev.call r.id) := by
  induction snapshot generalizing regs with
  | nil => rfl
  | cons r rs ih =>
    unfold runCbs
    by_cases h : called fmt r t = true
    · simp only [h, ↓reduceIte, List.filter_cons, List.map_cons]
      rw [← ih]
    · simp only [h, Bool.false_eq_true, ↓reduceIte, List.filter_cons]
      rw [ih]

/-- (2') Exactly once: with distinct registration ids, a registration is called once if `called`
holds and not at all otherwise. -/
theorem call_count (fmt : Fmt) (t : Telegram) (regs : List Reg) (hnd : (regs.map (·.id)).Nodup)
    (r : Reg) (hr : r ∈ regs) :
    ((runCbs fmt t regs regs).1.count (.call r.id)) = if called fmt r t then 1 else 0 := by
  rw [runCbs_calls]
  induction regs with
  | nil => simp at hr
  | cons x xs ih =>
    simp only [List.map_cons, List.nodup_cons] at hnd
    obtain ⟨hx, hxs⟩ := hnd
    rcases List.mem_cons.mp hr with rfl | hmem
    · have hnot : ∀ y ∈ xs, Ev.call y.id ≠ Ev.call r.id := by
        intro y hy h; injection h with h; exact hx (h ▸ List.mem_map_of_mem hy)
      have hz : ((xs.filter (called fmt · t)).map (fun r => Ev.call r.id)).count (.call r.id) = 0 := by
        rw [List.count_eq_zero]
        intro hm
        obtain ⟨y, hy, he⟩ := List.mem_map.mp hm
        exact hnot y (List.mem_filter.mp hy).1 he
      by_cases hc : called fmt r t = true
      · simp [List.filter_cons, hc, hz]
      · simp [List.filter_cons, hc, hz]
    · have hne : Ev.call x.id ≠ Ev.call r.id := by
        intro h; injection h with h; exact hx (h ▸ List.mem_map_of_mem hmem)
      by_cases hc : called fmt x t = true
      · simp only [List.filter_cons, hc, ↓reduceIte, List.map_cons]
        rw [List.count_cons_of_ne hne]
        exact ih hxs hmem
      · simp only [List.filter_cons, hc, Bool.false_eq_true, ↓reduceIte]
        exact ih hxs hmem

/-- (3) A raising callback changes nothing observable: the events of a dispatch do not depend on
which callbacks raise. -/
def setRaises (f : Nat → Bool) (r : Reg) : Reg := { r with beh := { r.beh with raises := f r.id } }

theorem called_setRaises (fmt : Fmt) (f : Nat → Bool) (r : Reg) (t : Telegram) :
    called fmt (setRaises f r) t = called fmt r t := rfl

theorem raising_callbacks_change_nothing (fmt : Fmt) (f : Nat → Bool) (regs : List Reg) (t : Telegram) :
    (process fmt (regs.map (setRaises f)) t).2 = (process fmt regs t).2 := by
  simp only [process, runCbs_calls]
  have : ((regs.map (setRaises f)).filter (called fmt · t)).map (fun r => Ev.call r.id)
      = (regs.filter (called fmt · t)).map (fun r => Ev.call r.id) := by
    induction regs with
    | nil => rfl
    | cons r rs ih =>
      simp only [List.map_cons]
      by_cases hc : called fmt r t = true
      · simp only [List.filter_cons, called_setRaises, hc, ↓reduceIte, List.map_cons, ih]
        simp [setRaises]
      · simp only [List.filter_cons, called_setRaises, hc, Bool.false_eq_true, ↓reduceIte, ih]
  rw [this]

/-- (4) Device processing runs exactly once per processed telegram, whatever the callbacks do;
for an incoming telegram after the callbacks, for an outgoing one before them. -/
theorem devices_once (fmt : Fmt) (regs : List Reg) (t : Telegram) :
    (process fmt regs t).2.count .devices = 1 := by
  simp only [process, runCbs_calls]
  have hz : ((regs.filter (called fmt · t)).map (fun r => Ev.call r.id)).count .devices = 0 := by
    rw [List.count_eq_zero]
    intro hm
    obtain ⟨y, _, he⟩ := List.mem_map.mp hm
    cases he
  cases t.outgoing <;> simp [List.count_append, hz]

/-- (5) Over any telegram stream: each telegram's calls are the filter of the registrations current
at that telegram (`runAll` threads the registration list through `process`). -/
theorem stream_calls (fmt : Fmt) (t : Telegram) (ts : List Telegram) (regs : List Reg) :
    runAll fmt regs (t :: ts) = renderEvs (process fmt regs t).2 :: runAll fmt (process fmt regs t).1 ts := rfl

/-- (5') The same over histories in which registrations are edited in place between telegrams: a telegram's calls are
decided by the lists as they are at that telegram - nothing remembered from earlier telegrams (no per-callback cache of
filter verdicts) can enter, because `runItems` carries nothing but the registration list. -/
theorem history_calls_tg (fmt : Fmt) (t : Telegram) (is : List Item) (regs : List Reg) :
    runItems fmt regs (.tg t :: is) = renderEvs (process fmt regs t).2 :: runItems fmt (process fmt regs t).1 is := rfl

theorem history_calls_edit (fmt : Fmt) (id : Nat) (fs : List Filter) (as : List DevAddr) (is : List Item) (regs : List Reg) :
    runItems fmt regs (.edit id fs as :: is) = "E" :: runItems fmt (regs.map (editReg id fs as)) is := rfl

/-- after an edit the edited registration is called exactly when the NEW lists say so -/
theorem called_after_edit (fmt : Fmt) (r : Reg) (fs : List Filter) (as : List DevAddr) (t : Telegram) :
    called fmt (editReg r.id fs as r) t =
      (if !r.matchOutgoing && t.outgoing then false
       else if r.matchAll then true
       else match t.dst with
         | .dev a => fs.any (fun f => filterHit fmt f a) || as.any (fun g => a == g)
         | .individual _ => false) := by
  unfold called editReg
  simp only [beq_self_eq_true, ↓reduceIte]
  cases hd : t.dst <;> rfl

/-- a telegram stream is the special case without edits -/
theorem runItems_tgs (fmt : Fmt) (ts : List Telegram) (regs : List Reg) :
    runItems fmt regs (ts.map .tg) = runAll fmt regs ts := by
  induction ts generalizing regs with
  | nil => rfl
  | cons t ts ih => simp [runItems, runAll, ih]

/-! Non-vacuity -/
example : called .long ⟨0, false, false, [], [.ga 2305], ⟨false, []⟩⟩ ⟨false, .dev (.ga 2305)⟩ = true := by decide
example : (process .long [⟨0, true, false, [], [], ⟨true, [0]⟩⟩, ⟨1, true, true, [], [], ⟨false, []⟩⟩] ⟨false, .dev (.ga 1)⟩)
    = ([⟨1, true, true, [], [], ⟨false, []⟩⟩], [.call 0, .call 1, .devices]) := by decide

end XknxVerif.Props.C34
