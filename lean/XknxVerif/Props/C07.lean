/-
C07  Datapoint decoding is total with declared errors only.

For every row of the regenerated DPT table (one per concrete DPT class) and every
payload that can arrive in a group telegram (a 6 bit value or an octet string of
any length), the model of `T.from_knx` returns a value, `CouldNotParseTelegram`
or `ConversionError`; hence `GroupAddressDPT.set_decoded_data`, whose `except`
clause catches exactly these two, never lets an exception escape into the
telegram consumer.  The proof gives termination and the error *classification*
of the model; that CPython raises nothing else in the modelled code is
established by the exhaustive-small + structured correspondence run.
-/
import XknxVerif.Lemmas.DPTDecode
import XknxVerif.Generated.DPTTable

namespace XknxVerif.Props.C07
open XknxVerif.DPT

/-- the rows other codecs delegate to (DPTSceneNumber, DPTActiveEnergy, DPTTariff), taken from the table -/
def ctx : Ctx := Ctx.ofTable Generated.table

/-- every generated row satisfies the decoder-side well-formedness (enum tables complete where the code
indexes them, payload length fits the codec, DPTScaling rows checked on all 256 octets, no unmodelled class) -/
theorem table_wf : Generated.table.all (wfDec ctx) = true := by decide +kernel

theorem row_wf (r : Row) (hr : r ∈ Generated.table) : wfDec ctx r = true :=
  List.all_eq_true.mp table_wf r hr

/-- no class of the table is outside the modelled families (fails closed when a new family appears) -/
theorem all_modelled (r : Row) (hr : r ∈ Generated.table) : r.family ≠ .unmodelled := by
  intro h
  have := row_wf r hr
  simp [wfDec, h] at this

/-- (a) `from_knx` is total with declared errors only: all classes × all payloads. -/
theorem decode_total (r : Row) (hr : r ∈ Generated.table) (p : Payload) (hp : p.WF) :
    Declared (decode ctx r p) :=
  decode_declared ctx r (row_wf r hr) p hp

/-- (a') spelled out: the outcome is a value, CouldNotParseTelegram or ConversionError. -/
theorem decode_outcomes (r : Row) (hr : r ∈ Generated.table) (p : Payload) (hp : p.WF) :
    (∃ v, decode ctx r p = .ok v) ∨ decode ctx r p = .error .parse ∨ decode ctx r p = .error .conv := by
  have h := decode_total r hr p hp
  cases hd : decode ctx r p with
  | ok v => exact .inl ⟨v, rfl⟩
  | error e =>
    rw [hd] at h
    cases e with
    | parse => exact .inr (.inl rfl)
    | conv => exact .inr (.inr rfl)
    | other c => exact absurd h (by simp [Declared])

/-- (b) a payload of the wrong kind or length is refused with CouldNotParseTelegram by every class
(`validate_payload`), for any row whatsoever. -/
theorem wrong_shape_is_parse (c : Ctx) (r : Row) (p : Payload)
    (h : match r.kind, p with
         | .array, .array bs => bs.length ≠ r.length
         | .binary, .binary v => v ≥ 2 ^ r.length
         | _, _ => True) :
    decode c r p = .error .parse := by
  unfold decode validate
  cases hk : r.kind <;> cases p <;> simp [hk] at h ⊢
  · simp [h, Except.bind]
  · simp [Except.bind]
  · simp [Except.bind]
  · rename_i bs
    have : ¬ r.length = bs.length := fun e => h e.symm
    simp [this, Except.bind]

/-- (c) the catch clause of `set_decoded_data`: whenever decoding ends in a declared outcome,
nothing escapes (for any row, any flags). -/
theorem set_decoded_data_catches (c : Ctx) (already isValue : Bool) (t : Option Row) (p : Payload)
    (h : ∀ r, t = some r → Declared (decode c r p)) :
    ∃ s, setDecodedData c already isValue t p = .ok s := by
  unfold setDecodedData
  cases already <;> cases isValue <;> simp
  cases t with
  | none => simp
  | some r =>
    have hd := h r rfl
    simp only []
    cases hdec : decode c r p with
    | ok v => simp
    | error e =>
      rw [hdec] at hd
      cases e with
      | parse => simp
      | conv => simp
      | other x => exact absurd hd (by simp [Declared])

/-- (c') `set_decoded_data` never raises for any configured class and any payload — this is what keeps
`TelegramQueue._telegram_consumer` alive, which calls it outside its try block. -/
theorem set_decoded_data_total (already isValue : Bool) (t : Option Row)
    (ht : ∀ r, t = some r → r ∈ Generated.table) (p : Payload) (hp : p.WF) :
    ∃ s, setDecodedData ctx already isValue t p = .ok s :=
  set_decoded_data_catches ctx already isValue t p (fun r hr => decode_total r (ht r hr) p hp)

/-- (c'') and it attaches decoded data exactly when the transcoder returned a value. -/
theorem set_decoded_data_sets (r : Row) (p : Payload) (v : Val) :
    setDecodedData ctx false true (some r) p = .ok (.set v) ↔ decode ctx r p = .ok v := by
  unfold setDecodedData
  simp only [Bool.false_eq_true, if_false, Bool.not_true]
  cases hd : decode ctx r p with
  | ok w => simp
  | error e => cases e <;> simp

/-! Non-vacuity: concrete rows and payloads. -/
example : (lookup Generated.table "DPTTemperature").isSome = true := by decide +kernel
example : ∃ r ∈ Generated.table, r.name = "DPTSwitch" ∧ decode ctx r (.binary 1) = .ok (.atom (.enum "ON")) := by
  refine ⟨(lookup Generated.table "DPTSwitch").get (by decide +kernel), ?_, ?_, ?_⟩
  · exact List.mem_of_find?_eq_some (Option.some_get _).symm
  · decide +kernel
  · decide +kernel
/-- a payload of the right shape whose content is refused: conversion error, not a crash -/
example : ∃ r ∈ Generated.table, decode ctx r (.array [255]) = .error .conv := by
  refine ⟨(lookup Generated.table "DPTTariff").get (by decide +kernel), ?_, ?_⟩
  · exact List.mem_of_find?_eq_some (Option.some_get _).symm
  · decide +kernel
example : Payload.WF (.array [0x0c, 0x1a]) := by simp [Payload.WF]

end XknxVerif.Props.C07
