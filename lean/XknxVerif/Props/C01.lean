/-
C01  Addresses survive text and wire round trips in every notation.

Property theorems only; the model is `XknxVerif.Model.Address` (strings are
code-point lists, the notation is a parameter), helper lemmas are in
`Lemmas/Str.lean` and `Lemmas/Address.lean`.  All quantifiers are proved
structurally (decimal print / parse lemma, split / join lemma); nothing here is
a sweep, so the statements hold for every raw value and for every string of
any length over all code points.
-/
import XknxVerif.Lemmas.Address

namespace XknxVerif.Props.C01
open XknxVerif XknxVerif.Address XknxVerif.Py XknxVerif.Py.Str
open XknxVerif.Generated.AddressConst XknxVerif.Generated.Unicode

/-! ### what the hand-written model assumes about the code's declarations (regenerated each run) -/

/-- The regular expressions the model mirrors by hand are still the ones the code compiles. -/
theorem regex_pinned :
    gaRegex = "^(?P<main>\\d{1,2})(/(?P<middle>\\d{1,2}))?/(?P<sub>\\d{1,4})$" ∧
    iaRegex = "^(?P<area>\\d{1,2})\\.(?P<main>\\d{1,2})\\.(?P<line>\\d{1,3})$" := by decide

/-- The field maxima are the masks the bit packing `main<<11 | middle<<8 | sub`, `area<<12 | main<<8 | line` needs. -/
theorem field_maxima :
    gaMaxMain = 2 ^ 5 - 1 ∧ gaMaxMiddle = 2 ^ 3 - 1 ∧ gaMaxSubLong = 2 ^ 8 - 1 ∧ gaMaxSubShort = 2 ^ 11 - 1 ∧
    gaMaxFree = 2 ^ 16 - 1 ∧ iaMaxArea = 2 ^ 4 - 1 ∧ iaMaxMain = 2 ^ 4 - 1 ∧ iaMaxLine = 2 ^ 8 - 1 := by decide

/-- The three notations of the model are the members of `GroupAddressType`. -/
theorem formats_pinned : formats = [("FREE", 0), ("SHORT", 2), ("LONG", 3)] := by decide

/-- Python facts the proofs rest on, re-checked against the regenerated Unicode tables: `re`'s `\d` is exactly
the set of digits `int()` converts (so `int(match.group(..))` cannot raise), `0`..`9` are digits with their
usual values, and no digit is whitespace / sign / underscore for `int()`. -/
theorem python_digit_tables :
    reDigitRanges = intDigitRanges ∧
    (∀ d : Fin 10, intDigit? (48 + d.val) = some d.val ∧ isdigitChar (48 + d.val) = true) ∧
    disj intDigitRanges (intSpaceRanges ++ [(43, 43), (45, 45), (95, 95)]) = true ∧
    5 ≤ intMaxStrDigits :=
  ⟨reDigit_eq_intDigit, ascii_digit_tables, intDigit_disj, limit_ok⟩

/-! ### (a) text round trip, all 65 536 raw values, every notation -/

theorem gaParse_str_of_not_isdigit {s : Str} (h : isdigit s = false) :
    gaParse (.str s) = gaStringToInt s >>= rangeCheck := by
  simp [gaParse, gaRaw, h]

theorem iaParse_str_of_not_isdigit {s : Str} (h : isdigit s = false) :
    iaParse (.str s) = iaStringToInt s >>= rangeCheck := by
  simp [iaParse, iaRaw, h]

/-- (a, group) Every 16-bit group address, written in any of the three notations, parses back to itself. -/
theorem ga_text_roundtrip (raw : Nat) (h : raw < 65536) (fmt : Fmt) :
    gaParse (.str (gaRender fmt raw)) = .ok raw := by
  cases fmt with
  | long =>
    have hm := gaMain_eq raw; have hmid := gaMiddle_eq raw; have hs := gaSub_long_eq raw
    unfold gaRender
    rw [gaParse_str_of_not_isdigit, gaStringToInt_long _ _ _ (by omega) (by omega) (by omega)]
    · have : gaMain raw * 2048 + gaMiddle raw * 256 + gaSub Fmt.long raw = raw := by omega
      rw [this]
      exact rangeCheck_nat raw h
    · exact isdigit_false_of_mem (c := 47) (by simp) sep_not_digit.1
  | short =>
    have hm := gaMain_eq raw; have hs := gaSub_short_eq raw
    unfold gaRender
    rw [gaParse_str_of_not_isdigit, gaStringToInt_short _ _ (by omega) (by omega)]
    · have : gaMain raw * 2048 + gaSub Fmt.short raw = raw := by omega
      rw [this]
      exact rangeCheck_nat raw h
    · exact isdigit_false_of_mem (c := 47) (by simp) sep_not_digit.1
  | free =>
    have hl : (dec raw).length ≤ intMaxStrDigits :=
      Nat.le_trans (dec_length_le 5 raw (by omega) (by omega)) limit_ok
    simp only [gaRender, gaSub, gaParse, gaRaw, isdigit_dec, if_true, digitString, pyInt_dec raw hl, bind, Except.bind]
    exact rangeCheck_nat raw h

/-- (a, individual) Every 16-bit individual address parses back from its dotted text. -/
theorem ia_text_roundtrip (raw : Nat) (h : raw < 65536) :
    iaParse (.str (iaRender raw)) = .ok raw := by
  have ha := iaArea_eq raw; have hm := iaMain_eq raw; have hl := iaLine_eq raw
  unfold iaRender
  rw [iaParse_str_of_not_isdigit, iaStringToInt_canon _ _ _ (by omega) (by omega) (by omega)]
  · have : iaArea raw * 4096 + iaMain raw * 256 + iaLine raw = raw := by omega
    rw [this]
    exact rangeCheck_nat raw h
  · exact isdigit_false_of_mem (c := 46) (by simp) sep_not_digit.2.1

/-- The free-notation digits of a group address are also accepted by `IndividualAddress` and vice versa
(both constructors share the `isdigit` branch). -/
theorem digits_roundtrip_both (raw : Nat) (h : raw < 65536) :
    gaParse (.str (dec raw)) = .ok raw ∧ iaParse (.str (dec raw)) = .ok raw := by
  have hl : (dec raw).length ≤ intMaxStrDigits :=
    Nat.le_trans (dec_length_le 5 raw (by omega) (by omega)) limit_ok
  constructor
  · simp only [gaParse, gaRaw, isdigit_dec, if_true, digitString, pyInt_dec raw hl, bind, Except.bind]; exact rangeCheck_nat raw h
  · simp only [iaParse, iaRaw, isdigit_dec, if_true, digitString, pyInt_dec raw hl, bind, Except.bind]; exact rangeCheck_nat raw h

/-! ### (b) wire round trip -/

/-- (b) Every address serialises to exactly two octets which parse back to the same address (both classes). -/
theorem wire_roundtrip (raw : Nat) (h : raw < 65536) :
    (toKnx raw).length = 2 ∧ Bytes.WF (toKnx raw) ∧
    gaFromKnx (toKnx raw) = .ok raw ∧ iaFromKnx (toKnx raw) = .ok raw := by
  have hb : Bytes.toNatBE (toKnx raw) = raw := Bytes.toNatBE_ofNatBE 2 raw (by omega)
  refine ⟨Bytes.ofNatBE_length 2 raw, Bytes.ofNatBE_wf 2 raw, ?_, ?_⟩
  · simp only [gaFromKnx, hb, gaParse, gaRaw, bind, Except.bind]; exact rangeCheck_nat raw h
  · simp only [iaFromKnx, hb, iaParse, iaRaw, bind, Except.bind]; exact rangeCheck_nat raw h

/-! ### (c)/(d) classification of every constructor argument -/

theorem gaRaw_err (v : Val) (e : Err) (h : gaRaw v = .error e) : e = .parse := by
  unfold gaRaw at h
  split at h
  · cases h
  · cases h
  · split at h
    · exact digitString_err h
    · exact gaStringToInt_err h
  · injection h with h; exact h.symm

theorem iaRaw_err (v : Val) (e : Err) (h : iaRaw v = .error e) : e = .parse := by
  unfold iaRaw at h
  split at h
  · cases h
  · cases h
  · split at h
    · exact digitString_err h
    · exact iaStringToInt_err h
  · injection h with h; exact h.symm

/-- (d, group) Whatever is handed to `GroupAddress(...)` — any int, any string of any length over any code
points, any object — a rejection is `CouldNotParseAddress`, never `ValueError`. -/
theorem ga_error_is_parse_error (v : Val) (e : Err) (h : gaParse v = .error e) : e = .parse := by
  rcases bind_rangeCheck_err h with h | h
  · exact gaRaw_err v e h
  · exact h

/-- (d, individual) -/
theorem ia_error_is_parse_error (v : Val) (e : Err) (h : iaParse v = .error e) : e = .parse := by
  rcases bind_rangeCheck_err h with h | h
  · exact iaRaw_err v e h
  · exact h

theorem gaParse_ok_lt (v : Val) (a : Nat) (h : gaParse v = .ok a) : a < 65536 := by
  obtain ⟨r, _, hr⟩ := bind_rangeCheck_ok h
  exact (rangeCheck_ok hr).1

theorem iaParse_ok_lt (v : Val) (a : Nat) (h : iaParse v = .ok a) : a < 65536 := by
  obtain ⟨r, _, hr⟩ := bind_rangeCheck_ok h
  exact (rangeCheck_ok hr).1

/-- (c, group) Parsing ANY constructor argument either is rejected with the address parse error, or yields a
16-bit address that, in each of the three notations, renders to text that parses back to itself, and whose two
octets parse back to itself. -/
theorem ga_parse_classification (v : Val) :
    gaParse v = .error .parse ∨
    ∃ a, gaParse v = .ok a ∧ a < 65536 ∧
      (∀ fmt, gaParse (.str (gaRender fmt a)) = .ok a) ∧
      (toKnx a).length = 2 ∧ gaFromKnx (toKnx a) = .ok a := by
  cases hv : gaParse v with
  | error e => left; rw [ga_error_is_parse_error v e hv]
  | ok a =>
    right
    have ha := gaParse_ok_lt v a hv
    exact ⟨a, rfl, ha, fun fmt => ga_text_roundtrip a ha fmt, (wire_roundtrip a ha).1, (wire_roundtrip a ha).2.2.1⟩

/-- (c, individual) -/
theorem ia_parse_classification (v : Val) :
    iaParse v = .error .parse ∨
    ∃ a, iaParse v = .ok a ∧ a < 65536 ∧
      iaParse (.str (iaRender a)) = .ok a ∧
      (toKnx a).length = 2 ∧ iaFromKnx (toKnx a) = .ok a := by
  cases hv : iaParse v with
  | error e => left; rw [ia_error_is_parse_error v e hv]
  | ok a =>
    right
    have ha := iaParse_ok_lt v a hv
    exact ⟨a, rfl, ha, ia_text_roundtrip a ha, (wire_roundtrip a ha).1, (wire_roundtrip a ha).2.2.2⟩

/-- In particular for text: any string, of any length. -/
theorem ga_any_string (s : Str) :
    gaParse (.str s) = .error .parse ∨
    ∃ a, gaParse (.str s) = .ok a ∧ a < 65536 ∧ ∀ fmt, gaParse (.str (gaRender fmt a)) = .ok a := by
  rcases ga_parse_classification (.str s) with h | ⟨a, h1, h2, h3, _⟩
  · exact .inl h
  · exact .inr ⟨a, h1, h2, h3⟩

/-- Integers: accepted exactly when in 0..65535, and then unchanged. -/
theorem ga_int (n : Int) :
    (0 ≤ n ∧ n ≤ 65535 → gaParse (.int n) = .ok n.toNat) ∧
    (¬(0 ≤ n ∧ n ≤ 65535) → gaParse (.int n) = .error .parse) := by
  constructor <;> intro h <;> simp [gaParse, gaRaw, bind, Except.bind, rangeCheck, h]

/-! ### (e) parse_device_group_address -/

/-- (e) `parse_device_group_address` rejects only with the address parse error; a group address it returns is
what `GroupAddress` makes of the argument and is never the broadcast address 0. -/
theorem device_classification (v : Val) :
    parseDevice v = .error .parse ∨
    (∃ raw, parseDevice v = .ok (.ga raw) ∧ gaParse v = .ok raw ∧ 0 < raw ∧ raw < 65536) ∨
    (∃ r, parseDevice v = .ok (.iga r) ∧ igaParse v = .ok r ∧ gaParse v = .error .parse) := by
  unfold parseDevice
  cases hv : gaParse v with
  | ok raw =>
    by_cases h0 : raw = 0
    · left; simp [h0]
    · right; left
      refine ⟨raw, by simp [h0], rfl, by omega, gaParse_ok_lt v raw hv⟩
  | error e =>
    have he := ga_error_is_parse_error v e hv
    subst he
    simp only []
    cases hs : isStrOrIga v with
    | false => left; simp
    | true =>
      cases hi : igaParse v with
      | ok r => right; right; exact ⟨r, by simp, rfl, trivial⟩
      | error e => left; simp

/-- (e) An internal address built from ANY text renders (`str()` is its `raw`) to text that parses back to the
same internal address: `raw` is `"i-"` + a non-empty stripped rest, and stripping is idempotent. -/
theorem iga_reparses (s r : Str) (h : igaParse (.str s) = .ok r) : igaParse (.str r) = .ok r :=
  igaParse_of_raw r (igaParse_str_raw s r h)

/-- … in particular the internal addresses `parse_device_group_address` returns for text. -/
theorem device_internal_reparses (s r : Str) (h : parseDevice (.str s) = .ok (.iga r)) :
    igaParse (.str r) = .ok r := by
  rcases device_classification (.str s) with h' | ⟨raw, h', _⟩ | ⟨r', h', hi, _⟩
  · rw [h] at h'; cases h'
  · rw [h] at h'; cases h'
  · rw [h] at h'
    injection h' with h'; injection h' with h'
    subst h'
    exact iga_reparses s r hi

/-! ### non-vacuity: concrete, non-trivial instances -/

example : gaParse (.str (gaRender .long 2563)) = .ok 2563 := by decide
example : gaRender .long 2563 = [49, 47, 50, 47, 51] := by decide          -- "1/2/3"
example : gaRender .short 65535 = [51, 49, 47, 50, 48, 52, 55] := by decide  -- "31/2047"
example : iaRender 4353 = [49, 46, 49, 46, 49] := by decide                 -- "1.1.1"
/-- "²" is `isdigit()` but not an `int()` digit: the (fixed) constructor rejects it with the parse error -/
example : isdigit [178] = true ∧ pyInt [178] = none ∧ gaParse (.str [178]) = .error .parse := by decide
/-- Arabic-Indic "١/٢/٣" is accepted as 1/2/3; "1/2/3\n" too (`$` matches before a trailing newline) -/
example : gaParse (.str [1633, 47, 1634, 47, 1635]) = .ok 2563 := by decide
example : gaParse (.str [49, 47, 50, 47, 51, 10]) = .ok 2563 := by decide
example : gaParse (.str [51, 50, 47, 48, 47, 48]) = .error .parse := by decide  -- "32/0/0"
example : gaParse (.int 65536) = .error .parse ∧ gaParse (.int (-1)) = .error .parse := by decide
example : parseDevice (.str [48]) = .error .parse := by decide                -- "0": broadcast
example : parseDevice (.str [105, 45, 120]) = .ok (.iga [105, 45, 120]) := by decide
example : igaParse (.str [73, 95, 32, 120, 32]) = .ok [105, 45, 120] := by decide   -- "I_ x " -> "i-x"

end XknxVerif.Props.C01
