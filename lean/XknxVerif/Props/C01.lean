import XknxVerif.Model.Address
namespace XknxVerif.Props.C01
open XknxVerif.Address
theorem placeholder : gaParse (.int 5) = .ok 5 := by decide
end XknxVerif.Props.C01
