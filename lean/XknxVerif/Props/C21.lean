/-
C21  KNX/IP bodies round-trip exactly.

"Every KNX/IP body with field values the specification allows on the wire
serializes to exactly its announced length inside a frame whose header length
is correct.  Parsing that frame yields an equal body and leaves no bytes over."

"Field values the specification allows on the wire" is the decidable predicate
`Body.wf` (Model/KNXIP/WF.lean).  The theorems hold for ALL bodies of ALL 29
classes satisfying it — DIB lists, SRP lists and cEMI payloads of any length
(induction), every enum-valued field ranging over the regenerated member
tables.  The `example`s at the end exhibit, for the conjuncts of `Body.wf`, a
body outside the conjunct that does not round-trip.
-/
import XknxVerif.Lemmas.KNXIPRoundtrip5

namespace XknxVerif.Props.C21
open XknxVerif.KNXIP
open XknxVerif.Generated.KNXIP

/-- (1) Every body whose fields are wire values serialises to exactly `calculated_length()` octets,
and the body parser of its service type reads those octets back as the same body. -/
theorem body_roundtrip (b : Body) (hw : b.fieldsWf = true) :
    ∃ bs, b.serialize = .ok bs ∧ bs.length = b.calcLength ∧ parseBody b.serviceType bs = .ok b := by
  cases b with
  | searchRequest ep => exact rt_searchRequest ep hw
  | searchRequestExtended ep srps =>
    simp only [Body.fieldsWf, Bool.and_eq_true, List.all_eq_true] at hw
    exact rt_searchRequestExtended ep srps hw.1 hw.2
  | searchResponse x ep dibs =>
    simp only [Body.fieldsWf, Bool.and_eq_true, List.all_eq_true] at hw
    exact rt_searchResponse x ep dibs hw.1 hw.2
  | descriptionRequest ep => exact rt_descriptionRequest ep hw
  | descriptionResponse dibs =>
    simp only [Body.fieldsWf, List.all_eq_true] at hw
    exact rt_descriptionResponse dibs hw
  | connectRequest c d cri =>
    simp only [Body.fieldsWf, Bool.and_eq_true] at hw
    exact rt_connectRequest c d cri hw.1.1 hw.1.2 hw.2
  | connectResponse ch st ep crd =>
    simp only [Body.fieldsWf, Bool.and_eq_true, decide_eq_true_eq] at hw
    exact rt_connectResponse ch st ep crd hw.1.1.1 hw.1.1.2 hw.1.2 hw.2
  | connRequest k ch ep =>
    simp only [Body.fieldsWf, Bool.and_eq_true, decide_eq_true_eq] at hw
    exact rt_connRequest k ch ep hw.1 hw.2
  | connResponse k ch st =>
    simp only [Body.fieldsWf, Bool.and_eq_true, decide_eq_true_eq] at hw
    exact rt_connResponse k ch st hw.1 hw.2
  | cemiRequest k ch seq cemi =>
    simp only [Body.fieldsWf, Bool.and_eq_true, decide_eq_true_eq] at hw
    exact rt_cemiRequest k ch seq cemi hw.1.1 hw.1.2
  | cemiAck k ch seq st =>
    simp only [Body.fieldsWf, Bool.and_eq_true, decide_eq_true_eq] at hw
    exact rt_cemiAck k ch seq st hw.1.1 hw.1.2 hw.2
  | feature k ch seq st ft data =>
    simp only [Body.fieldsWf, Bool.and_eq_true, decide_eq_true_eq] at hw
    refine rt_feature k ch seq st ft data hw.1.1.1.1.1 hw.1.1.1.1.2 hw.1.1.1.2 hw.1.1.2 ?_
    have h := hw.2
    cases hk : k.hasData
    · rw [hk] at h; simpa using h
    · rw [hk] at h; simpa using h
  | featureResponse ch seq st ft rc data =>
    simp only [Body.fieldsWf, Bool.and_eq_true, decide_eq_true_eq, Bool.or_eq_true, bne_iff_ne, ne_eq,
      beq_iff_eq, Bool.not_eq_true'] at hw
    exact rt_featureResponse ch seq st ft rc data hw.1.1.1.1.1.1.1 hw.1.1.1.1.1.1.2 hw.1.1.1.1.1.2 hw.1.1.1.1.2
      hw.1.1.1.2 hw.1.2 hw.2
  | routingIndication cemi => exact rt_routingIndication cemi
  | routingLostMessage st lost =>
    simp only [Body.fieldsWf, Bool.and_eq_true, decide_eq_true_eq] at hw
    exact rt_routingLostMessage st lost hw.1 hw.2
  | routingBusy st w c =>
    simp only [Body.fieldsWf, Bool.and_eq_true, decide_eq_true_eq] at hw
    exact rt_routingBusy st w c hw.1.1 hw.1.2 hw.2
  | secureWrapper sid si ser tag enc mac =>
    simp only [Body.fieldsWf, Bool.and_eq_true, decide_eq_true_eq, beq_iff_eq] at hw
    obtain ⟨⟨⟨⟨⟨⟨⟨⟨⟨⟨h1, h2⟩, h3⟩, h4⟩, h5⟩, h6⟩, _⟩, _⟩, _⟩, _⟩, _⟩ := hw
    exact rt_secureWrapper sid si ser tag enc mac h1 h2 h3 h4 h5 h6
  | sessionRequest ep key =>
    simp only [Body.fieldsWf, Bool.and_eq_true, beq_iff_eq] at hw
    exact rt_sessionRequest ep key hw.1.1 hw.1.2
  | sessionResponse sid key mac =>
    simp only [Body.fieldsWf, Bool.and_eq_true, decide_eq_true_eq, beq_iff_eq] at hw
    exact rt_sessionResponse sid key mac hw.1.1.1.1 hw.1.1.1.2 hw.1.1.2
  | sessionAuthenticate uid mac =>
    simp only [Body.fieldsWf, Bool.and_eq_true, decide_eq_true_eq, beq_iff_eq] at hw
    exact rt_sessionAuthenticate uid mac hw.1.1 hw.1.2
  | sessionStatus st =>
    simp only [Body.fieldsWf, decide_eq_true_eq] at hw
    exact rt_sessionStatus st hw
  | timerNotify t ser tag mac =>
    simp only [Body.fieldsWf, Bool.and_eq_true, decide_eq_true_eq, beq_iff_eq] at hw
    obtain ⟨⟨⟨⟨⟨⟨h1, h2⟩, h3⟩, h4⟩, _⟩, _⟩, _⟩ := hw
    exact rt_timerNotify t ser tag mac h1 h2 h3 h4

/-- every body class has a service type of the regenerated `KNXIPServiceType` table -/
theorem serviceType_mem (b : Body) : b.serviceType ∈ ServiceType.codes := by
  cases b with
  | searchResponse x _ _ => cases x <;> (simp only [Body.serviceType]; decide)
  | connRequest k _ _ => cases k <;> (simp only [Body.serviceType]; decide)
  | connResponse k _ _ => cases k <;> (simp only [Body.serviceType]; decide)
  | cemiRequest k _ _ _ => cases k <;> (simp only [Body.serviceType]; decide)
  | cemiAck k _ _ _ => cases k <;> (simp only [Body.serviceType]; decide)
  | feature k _ _ _ _ _ => cases k <;> (simp only [Body.serviceType]; decide)
  | _ => simp only [Body.serviceType]; decide

/-- (2) The property: a well-formed body, put into a frame by `KNXIPFrame.init_from_body`, serialises to
exactly `calculated_length() + 6` octets, the header's total-length field (octets 4–5) says exactly
that, and `KNXIPFrame.from_knx` of those octets yields the same header and an equal body with no
bytes left over. -/
theorem frame_roundtrip (b : Body) (hw : b.wf = true) :
    ∃ bs, (Frame.ofBody b).serialize = .ok bs ∧
      bs.length = b.calcLength + 6 ∧
      bs[4]? = some ((b.calcLength + 6) / 256) ∧ bs[5]? = some ((b.calcLength + 6) % 256) ∧
      parseFrame bs = .ok (Frame.ofBody b, []) := by
  simp only [Body.wf, Bool.and_eq_true] at hw
  obtain ⟨hf, htot⟩ := hw
  have htot := of_decide_eq_true htot
  simp only [Const.headerLength] at htot
  obtain ⟨bb, hs, hl, hp⟩ := body_roundtrip b hf
  have hst := serviceType_mem b
  have hst16 := serviceType_lt _ hst
  have htl : 6 + b.calcLength = b.calcLength + 6 := by omega
  refine ⟨[6, 0x10, b.serviceType / 256, b.serviceType % 256, (b.calcLength + 6) / 256, (b.calcLength + 6) % 256] ++ bb,
    ?_, ?_, ?_, ?_, ?_⟩
  · unfold Frame.serialize Header.serialize Frame.ofBody
    simp only [Const.headerLength, Const.protocolVersion]
    rw [bytesOf_ok (by intro x hx; simp at hx; rcases hx with rfl | rfl <;> omega), ok_bind, toBytes_two hst16,
      ok_bind, htl, toBytes_two (by omega), ok_bind, hs]
    rfl
  · simp [hl]
  · rfl
  · rfl
  · unfold parseFrame Header.parse
    simp only [List.cons_append, List.nil_append, List.length_cons, idx_cons_zero, idx_cons_succ, ok_bind,
      Const.headerLength, Const.protocolVersion, Nat.div_add_mod', enumOf_ok hst, exceptValue_ok]
    rw [if_neg (by omega), if_neg (by omega), if_neg (by omega), if_neg (by omega)]
    simp only [ok_bind]
    rw [if_neg (by omega)]
    have hslice : Bytes.slice (6 :: 16 :: (b.serviceType / 256) :: (b.serviceType % 256) ::
        ((b.calcLength + 6) / 256) :: ((b.calcLength + 6) % 256) :: bb) 6 (b.calcLength + 6) = bb := by
      simp only [Bytes.slice, List.take_succ_cons, List.drop_succ_cons, List.drop_zero]
      rw [← hl]; simp
    have hdrop : List.drop (b.calcLength + 6) (6 :: 16 :: (b.serviceType / 256) :: (b.serviceType % 256) ::
        ((b.calcLength + 6) / 256) :: ((b.calcLength + 6) % 256) :: bb) = [] := by
      simp only [List.drop_succ_cons]
      rw [← hl]; simp
    rw [hslice, hp, ok_bind, hdrop]
    unfold Frame.ofBody
    simp only [Const.headerLength, htl]

/-- (2') The serialised length is the announced one and fits the 16-bit field. -/
theorem serialized_length (b : Body) (hw : b.wf = true) (bs : Bytes) (h : (Frame.ofBody b).serialize = .ok bs) :
    bs.length = (Frame.ofBody b).header.totalLength ∧ bs.length < 65536 := by
  obtain ⟨bs', hs, hl, _⟩ := frame_roundtrip b hw
  rw [hs] at h
  cases h
  simp only [Body.wf, Bool.and_eq_true] at hw
  have htot := of_decide_eq_true hw.2
  simp only [Const.headerLength] at htot
  simp only [Frame.ofBody, Const.headerLength]
  omega

/-! ### The hypothesis is satisfiable by non-trivial bodies -/

example : (Body.connectResponse 7 ErrorCode.e_no_more_connections ⟨1, [10, 1, 0, 41], 3671⟩
    ⟨ConnectRequestType.tunnel_connection, some 0x1102⟩).wf = true := by decide
example : (Body.searchResponse true ⟨1, [192, 168, 1, 1], 3671⟩
    [.deviceInfo KNXMedium.tp1 true 0x1101 291 4 [0, 1, 2, 3, 4, 5] [224, 0, 23, 12] [1, 2, 3, 4, 5, 6] [75, 78, 88],
     .families false [(2, 1), (4, 2)], .families true [(4, 1)],
     .tunnelingInfo 248 [(0x1102, ⟨true, false, true⟩), (0x1103, ⟨true, true, false⟩)],
     .generic DIBTypeCode.mfr_data [1, 2]]).wf = true := by decide
example : (Body.searchRequestExtended ⟨1, [0, 0, 0, 0], 0⟩
    [⟨SRPType.select_by_programming_mode, true, [], 2⟩, ⟨SRPType.select_by_service, true, [4, 2], 4⟩,
     ⟨SRPType.request_dibs, false, [1, 2, 8, 0], 6⟩]).wf = true := by decide

/-! ### Each guard is needed: bodies outside `Body.wf` that do not round-trip -/

/-- port outside 16 bit: `to_knx` raises ConversionError -/
example : (HPAI.mk 1 [1, 2, 3, 4] 65536).serialize = .error .conversion := by decide
/-- host protocol code outside the enum: serialises, but is rejected on the way back -/
example : (HPAI.mk 3 [1, 2, 3, 4] 5).serialize = .ok [8, 3, 1, 2, 3, 4, 0, 5] ∧
    HPAI.parse [8, 3, 1, 2, 3, 4, 0, 5] = .error .parse := by decide
/-- tunnel CRD without individual address (`ConnectResponseData()`, the default of `ConnectResponse()`):
`to_knx` raises AssertionError — `None` is not a wire value -/
example : (Body.connectResponse 1 ErrorCode.e_connection_type HPAI.default CRD.default).serialize = .error .assertion := by
  decide
/-- a non-tunnel CRI carrying an address: the address is not on the wire -/
example : (CRI.mk 3 2 (some 5)).serialize = .ok [2, 3] ∧ CRI.parse [2, 3] = .ok (⟨3, 2, none⟩, 2) := by decide
/-- DIBGeneric with an odd number of data octets comes back padded -/
example : (DIB.generic 3 [7]).serialize = .ok [4, 3, 7, 0] ∧ DIB.parse [4, 3, 7, 0] = .ok (.generic 3 [7, 0], 4) := by
  decide
/-- DIBGeneric carrying a type code that has a dedicated class comes back as (or is rejected by) that class -/
example : (DIB.generic 2 [4, 1]).serialize = .ok [4, 2, 4, 1] ∧
    DIB.parse [4, 2, 4, 1] = .ok (.families false [(4, 1)], 4) := by decide
/-- a device name ending in NUL loses it; a name longer than 30 characters is cut -/
example : rstripZeros (ljustZeros [75, 0] 30) = [75] := by decide
example : (List.replicate 31 65).take 30 ≠ List.replicate 31 65 := by decide
set_option maxRecDepth 8000 in
/-- 127 service families do not fit the one-octet structure length -/
example : (DIB.families false (List.replicate 127 (2, 1))).serialize = .error .valueError := by decide
/-- two tunnelling slots with the same address collapse into one dict entry -/
example : ((DIB.tunnelingInfo 248 [(5, ⟨true, true, true⟩), (5, ⟨false, false, false⟩)]).serialize).toOption.map
    (fun bs => DIB.parse bs) = some (.ok (.tunnelingInfo 248 [(5, ⟨false, false, false⟩)], 12)) := by decide
/-- an SRP without payload type that nevertheless carries data: the data is not read back -/
example : (SRP.mk 1 true [9, 9] 2).serialize = .ok [2, 0x81, 9, 9] ∧ SRP.parse [2, 0x81, 9, 9] = .ok ⟨1, true, [], 2⟩ := by
  decide
/-- odd feature data is padded; a successful feature response without data is refused by the parser -/
example : (Body.feature .set 1 0 0 1 [5]).serialize = .ok [4, 1, 0, 0, 1, 0, 5, 0] := by decide
example : (Body.featureResponse 1 0 0 1 0 []).serialize = .ok [4, 1, 0, 0, 1, 0] ∧
    parseFeatureResponse [4, 1, 0, 0, 1, 0] = .error .parse := by decide
/-- a TunnellingFeatureGet carrying data does not put it on the wire -/
example : (Body.feature .get 1 0 0 1 [5, 6]).serialize = .ok [4, 1, 0, 0, 1, 0] := by decide
/-- a channel id outside one octet cannot be serialised -/
example : (Body.connResponse .disconnect 256 0).serialize = .error .valueError := by decide
/-- a body too long for the 16-bit total length: the header cannot be written -/
example (cemi : Bytes) (h : 65530 ≤ cemi.length) :
    (Frame.ofBody (.routingIndication cemi)).serialize = .error .overflow := by
  unfold Frame.serialize Header.serialize Frame.ofBody
  simp only [Body.calcLength, Body.serviceType, Const.headerLength, Const.protocolVersion]
  have : ¬ (6 + cemi.length < 256 ^ 2) := by omega
  simp [bytesOf, toBytes, ServiceType.routing_indication, this]
  rfl

end XknxVerif.Props.C21
