/-
C23  Server-sent tunnel and management frames are delivered once, in order.
Property theorems about `Model/SeqRecv.lean`, for every handler kind and every
(unbounded) history of requests and reconnects.
-/
import XknxVerif.Model.SeqRecv

namespace XknxVerif.Props.C23
open XknxVerif.SeqRecv XknxVerif.Automata

/-- the frames passed up, as (counter, payload id), in order -/
def delivered : List Out → List (Nat × Nat)
  | [] => []
  | .deliver seq id :: os => (seq, id) :: delivered os
  | .ack _ _ :: os => delivered os

/-- the acknowledgements sent, as (channel, counter), in order -/
def acked : List Out → List (Nat × Nat)
  | [] => []
  | .ack ch seq :: os => (ch, seq) :: acked os
  | .deliver _ _ :: os => acked os

theorem delivered_append (a b : List Out) : delivered (a ++ b) = delivered a ++ delivered b := by
  induction a with
  | nil => rfl
  | cons o os ih => cases o <;> simp [delivered, ih]

/-- a history within one connection: requests only -/
def OnlyReqs (es : List Ev) : Prop := ∀ e ∈ es, ∃ ch seq id, e = .req ch seq id

/-- payload ids of the requests of a history, in arrival order -/
def reqIds : List Ev → List Nat
  | [] => []
  | .req _ _ id :: es => id :: reqIds es
  | .connect _ :: es => reqIds es

/-! ### one step, any state -/

private theorem eval_cases (s : St) (a seq id : Nat) :
    (match evaluate s.expected seq with
      | (.expected, e') => (({ s with expected := e' } : St), [Out.ack a seq, Out.deliver seq id])
      | (.repeated, _) => (s, [Out.ack a seq])
      | (.outOfOrder, _) => (s, [])) =
      if seq = s.expected then
        ({ s with expected := (s.expected + 1) % 256 }, [.ack a seq, .deliver seq id])
      else if seq = (s.expected + 255) % 256 then (s, [.ack a seq])
      else (s, []) := by
  unfold evaluate
  by_cases h1 : seq = s.expected
  · rw [if_pos h1, if_pos h1]
  · rw [if_neg h1, if_neg h1]
    by_cases h2 : seq = (s.expected + 255) % 256
    · rw [if_pos h2, if_pos h2]
    · rw [if_neg h2, if_neg h2]

/-- What one request does, in terms of the state's expected counter: exactly
the three cases of the property text (plus DeviceManagement's channel filter).
The ACK carries the request's own channel and counter. -/
theorem step_req (k : Kind) (s : St) (ch seq id : Nat) :
    step k s (.req ch seq id) =
      if k = .mgmt ∧ ch ≠ s.channel then (s, [])
      else if seq = s.expected then
        ({ s with expected := (s.expected + 1) % 256 }, [.ack ch seq, .deliver seq id])
      else if seq = (s.expected + 255) % 256 then (s, [.ack ch seq])
      else (s, []) := by
  cases k with
  | tunnel =>
    simp only [step, reduceCtorEq, false_and, if_false]
    exact eval_cases s ch seq id
  | mgmt =>
    simp only [step, true_and]
    by_cases h : ch ≠ s.channel
    · rw [if_pos h, if_pos h]
    · rw [if_neg h, if_neg h]
      have hc : s.channel = ch := by
        by_cases h' : ch = s.channel
        · exact h'.symm
        · exact absurd h' h
      rw [hc]
      have := eval_cases s ch seq id
      rw [hc] at this
      exact this

/-- Every acknowledgement answers the request just received: same channel,
same counter. -/
theorem ack_own_counter (k : Kind) (s : St) (ch seq id : Nat) (c q : Nat)
    (h : (c, q) ∈ acked (step k s (.req ch seq id)).2) : c = ch ∧ q = seq := by
  rw [step_req] at h
  split at h
  · simp [acked] at h
  · split at h
    · simp [acked] at h; exact h
    · split at h
      · simp [acked] at h; exact h
      · simp [acked] at h

/-- A frame is passed up only together with its acknowledgement. -/
theorem deliver_implies_ack (k : Kind) (s : St) (ch seq id : Nat) (q i : Nat)
    (h : (q, i) ∈ delivered (step k s (.req ch seq id)).2) :
    q = seq ∧ i = id ∧ (ch, seq) ∈ acked (step k s (.req ch seq id)).2 := by
  rw [step_req] at h ⊢
  split at h
  · simp [delivered] at h
  · split at h
    · rename_i h1 h2
      simp [delivered] at h
      simp [h1, h2, acked, h.1, h.2]
    · split at h <;> simp [delivered] at h

/-- DeviceManagement ignores requests for another communication channel. -/
theorem mgmt_channel_filter (s : St) (ch seq id : Nat) (h : ch ≠ s.channel) :
    step .mgmt s (.req ch seq id) = (s, []) := by
  rw [step_req]; simp [h]

/-! ### invariants over any history -/

theorem expected_lt (k : Kind) (es : List Ev) (s : St) (h : s.expected < 256) :
    (run (step k) s es).1.expected < 256 := by
  refine inv_run (step k) (fun s => s.expected < 256) ?_ es s h
  intro s e hs
  cases e with
  | connect ch => simp [step, init]
  | req ch seq id =>
    rw [step_req]
    split
    · exact hs
    · split
      · exact Nat.mod_lt _ (by decide)
      · split <;> exact hs

/-- The channel only changes by a (re)connect. -/
theorem channel_const (k : Kind) (es : List Ev) (hes : OnlyReqs es) (s : St) :
    (run (step k) s es).1.channel = s.channel := by
  induction es generalizing s with
  | nil => rfl
  | cons e es ih =>
    obtain ⟨ch, seq, id, rfl⟩ := hes _ (List.mem_cons_self ..)
    rw [run_cons, ih (fun e he => hes e (List.mem_cons_of_mem _ he))]
    rw [step_req]
    split
    · rfl
    · split
      · rfl
      · split <;> rfl

/-- **Expected counter = number of frames passed up on this connection, mod 256.**
So "carrying the expected counter" is a statement about the observable history
only, not about hidden state. -/
theorem expected_counts_deliveries (k : Kind) (es : List Ev) (hes : OnlyReqs es) (s : St)
    (hs : s.expected < 256) :
    (run (step k) s es).1.expected
      = (s.expected + (delivered (run (step k) s es).2).length) % 256 := by
  induction es generalizing s with
  | nil => simp [run_nil, delivered, Nat.mod_eq_of_lt hs]
  | cons e es ih =>
    obtain ⟨ch, seq, id, rfl⟩ := hes _ (List.mem_cons_self ..)
    have hes' : OnlyReqs es := fun e he => hes e (List.mem_cons_of_mem _ he)
    rw [run_cons]
    simp only [delivered_append, List.length_append]
    rw [step_req]
    split
    · rw [ih hes' s hs]; simp [delivered]
    · split
      · rw [ih hes' _ (Nat.mod_lt _ (by decide))]
        simp only [delivered, List.length_cons, List.length_nil]
        omega
      · split
        · rw [ih hes' s hs]; simp [delivered]
        · rw [ih hes' s hs]; simp [delivered]

/-- **The frames passed up carry consecutive counters** starting at the expected
one: `e, e+1, e+2, … (mod 256)` — counter order, wrap 255 → 0 included, none
skipped, none twice. -/
theorem delivered_in_counter_order (k : Kind) (es : List Ev) (hes : OnlyReqs es) (s : St)
    (hs : s.expected < 256) :
    (delivered (run (step k) s es).2).map Prod.fst
      = (List.range (delivered (run (step k) s es).2).length).map
          (fun i => (s.expected + i) % 256) := by
  induction es generalizing s with
  | nil => simp [run_nil, delivered]
  | cons e es ih =>
    obtain ⟨ch, seq, id, rfl⟩ := hes _ (List.mem_cons_self ..)
    have hes' : OnlyReqs es := fun e he => hes e (List.mem_cons_of_mem _ he)
    rw [run_cons]
    simp only [delivered_append]
    rw [step_req]
    split
    · simpa [delivered] using ih hes' s hs
    · split
      · rename_i _ h1
        have := ih hes' { s with expected := (s.expected + 1) % 256 } (Nat.mod_lt _ (by decide))
        simp only [delivered, List.nil_append, List.cons_append, List.map_cons,
          List.length_cons, List.range_succ_eq_map, List.map_map]
        rw [this]
        simp only [Nat.add_zero, Nat.mod_eq_of_lt hs, h1]
        congr 1
        apply List.map_congr_left
        intro i _
        simp only [Function.comp]
        omega
      · split
        · simpa [delivered] using ih hes' s hs
        · simpa [delivered] using ih hes' s hs

/-- **Per-request characterisation in terms of the history alone.** After any
request history `pre` on a fresh connection on channel `c0`, with `d` frames
passed up so far, a request with counter `seq`
* `= d mod 256` is acknowledged with its own counter and passed up;
* `= d − 1 mod 256` is acknowledged again and not passed up;
* anything else is neither;
and DeviceManagement ignores other channels altogether. -/
theorem request_outcome (k : Kind) (c0 : Nat) (pre : List Ev) (hpre : OnlyReqs pre)
    (ch seq id : Nat) :
    let r := run (step k) (init c0) pre
    let d := (delivered r.2).length
    (step k r.1 (.req ch seq id)).2 =
      if k = .mgmt ∧ ch ≠ c0 then []
      else if seq = d % 256 then [.ack ch seq, .deliver seq id]
      else if seq = (d + 255) % 256 then [.ack ch seq]
      else [] := by
  intro r d
  have he : r.1.expected = d % 256 := by
    have := expected_counts_deliveries k pre hpre (init c0) (by simp [init])
    simpa [init, r, d] using this
  have hc : r.1.channel = c0 := channel_const k pre hpre (init c0)
  rw [step_req, he, hc]
  have hd : (d % 256 + 255) % 256 = (d + 255) % 256 := by omega
  rw [hd]
  split
  · rfl
  · split
    · rfl
    · split <;> rfl

/-- **Each once**: the payloads passed up are a subsequence of the payloads
received — one request yields at most one delivery, of its own payload, and
order of arrival is kept. -/
theorem delivered_sublist (k : Kind) (es : List Ev) (s : St) :
    ((delivered (run (step k) s es).2).map Prod.snd).Sublist (reqIds es) := by
  induction es generalizing s with
  | nil => simp [run_nil, delivered, reqIds]
  | cons e es ih =>
    rw [run_cons]
    simp only [delivered_append, List.map_append]
    cases e with
    | connect ch => simpa [step, delivered, reqIds] using ih _
    | req ch seq id =>
      rw [step_req]
      simp only [reqIds]
      split
      · simpa [delivered] using (ih s).cons id
      · split
        · simpa [delivered] using (ih _).cons_cons id
        · split
          · simpa [delivered] using (ih s).cons id
          · simpa [delivered] using (ih s).cons id

/-- **Reset on (re)connect**: whatever happened before, after a connect on
channel `ch` the handler behaves exactly like a fresh one — the counter starts
at 0 again — and the connect itself acknowledges and delivers nothing. -/
theorem connect_resets (k : Kind) (s : St) (es fs : List Ev) (ch : Nat) :
    run (step k) s (es ++ .connect ch :: fs) =
      ((run (step k) (init ch) fs).1,
       (run (step k) s es).2 ++ (run (step k) (init ch) fs).2) := by
  rw [run_append, run_cons]
  simp [step]

/-! ### non-vacuity -/

/-- wrap 255 → 0: 255 expected, then 0, a repeated 0, a stray 7. -/
example : (run (step .tunnel) { expected := 255, channel := 3 }
      [.req 3 255 10, .req 3 0 11, .req 3 0 12, .req 3 7 13]).2
    = [.ack 3 255, .deliver 255 10, .ack 3 0, .deliver 0 11, .ack 3 0] := by decide
/-- on a fresh connection counter 255 is "the one before": acknowledged, not delivered -/
example : (step .mgmt (init 5) (.req 5 255 1)).2 = [.ack 5 255] := by decide
example : (step .mgmt (init 5) (.req 6 0 1)).2 = [] := by decide
example : OnlyReqs [.req 3 255 10, .req 3 0 11] := by
  intro e he; simp at he; rcases he with rfl | rfl <;> exact ⟨_, _, _, rfl⟩

end XknxVerif.Props.C23
