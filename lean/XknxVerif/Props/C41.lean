/-
C41  Exposed values respect cooldown and always end up on the bus.

Every theorem is about EVERY trace the monitor `Expose.step?` accepts (any length, any cooldown /
periodic configuration, any time stamps, any interleaving of updates, reads, bus writes, initialisations
and connection changes); the implementation's traces are checked for acceptance on every run.

Vocabulary (functions of the observed trace, `Expose.track`):
  `lastSet`  payload set most recently (`set` of any kind or `initialize_value`),
  `tSet`     time of the last update that had to be taken (a `set` that is not `skip_unchanged` with the
             value set last; `initialize_value` clears it — that value "counts as sent"),
  `connOk`   the connection was up at `tSet` and has not been lost since,
  `outsOf`   the frames observed on the bus.
Ghost fields of the monitor state: `uw` = times of the writes caused by updates (immediate `set` or
cooldown task — not the periodic task, not read responses); `onBus` = first moment since `tSet` at which
the bus value equalled the value set, and why (`sent` by us / `other` device wrote it / `already` there).
-/
import XknxVerif.Lemmas.Expose

namespace XknxVerif.Props.C41
open XknxVerif.Expose XknxVerif.TraceRun

/-- Accepted trace (device initially connected or not: `k`) ending in state `s`. -/
def Accepts (c : Cfg) (k : Bool) (tr : List Obs) (s : St) : Prop := run? (step? c) (init c k) tr = some s

/-- (A) Value telegrams caused by updates are pairwise at least the cooldown apart, and each of them is a
GroupValueWrite that was observed (or is the expected next observation). -/
theorem update_writes_spaced {c : Cfg} {k : Bool} {tr : List Obs} {s : St} (h : Accepts c k tr s) :
    s.uw.Pairwise (fun later earlier => earlier + c.cool ≤ later) ∧
    ∀ t ∈ s.uw, ∃ p, Out.w p t ∈ s.expect ++ (outsOf tr).reverse := by
  have hg := (GInv_run c k tr s h).1
  have hh := HInv_run c k tr s h
  refine ⟨hg.uwPair, fun t ht => ?_⟩
  obtain ⟨p, hp⟩ := hg.uwOut t ht
  exact ⟨p, by rw [← hh.log]; exact hp⟩

/-- (A') … in particular any two of them, at positions `i < j` of the (most-recent-first) list. -/
theorem update_writes_gap {c : Cfg} {k : Bool} {tr : List Obs} {s : St} (h : Accepts c k tr s)
    {i j : Nat} (hij : i < j) (hj : j < s.uw.length) :
    s.uw[j] + c.cool ≤ s.uw[i]'(Nat.lt_trans hij hj) :=
  List.pairwise_iff_getElem.1 (update_writes_spaced h).1 i j (Nat.lt_trans hij hj) hj hij

/-- (B) Bounded liveness as a safety statement.  If the last update was taken at `ts`, the connection has been
up since, and the clock of the accepted trace has passed `ts + cooldown`, then at some moment `τ` in
`[ts, ts + cooldown]` the value on the bus was the value set — and if that is because the device sent it, the
frame (write or read response) with that payload at `τ` is in the trace (or is the expected next observation). -/
theorem last_update_reaches_bus {c : Cfg} {k : Bool} {tr : List Obs} {s : St} (h : Accepts c k tr s) {ts : Nat}
    (hts : (track k tr).tSet = some ts) (hok : (track k tr).connOk = true) (hlate : ts + c.cool < s.now) :
    ∃ τ why, s.onBus = some (τ, why) ∧ ts ≤ τ ∧ τ ≤ ts + c.cool ∧
      (why = .sent → ∃ p, (track k tr).lastSet = some p ∧
        (Out.w p τ ∈ s.expect ++ (outsOf tr).reverse ∨ Out.r p τ ∈ s.expect ++ (outsOf tr).reverse)) := by
  have hg := (GInv_run c k tr s h).1
  have hh := HInv_run c k tr s h
  have hts' : s.tSet = some ts := (congrArg Track.tSet hh.trk).trans hts
  have hok' : s.connOk = true := (congrArg Track.connOk hh.trk).trans hok
  have hpac : s.pac = (track k tr).lastSet := congrArg Track.lastSet hh.trk
  cases hob : s.onBus with
  | none =>
    obtain ⟨_, d, hd, hdl⟩ := hg.pending ts hts' hok' hob
    have := hg.cdNow d hd
    omega
  | some x =>
    obtain ⟨τ, why⟩ := x
    obtain ⟨ts', h1, h2, _, h4⟩ := hg.onBusT τ why hob
    rw [hts'] at h1; cases h1
    refine ⟨τ, why, rfl, h2, h4 hok', ?_⟩
    intro hw
    subst hw
    obtain ⟨p, hp, hm⟩ := hg.onBusSent τ hob
    exact ⟨p, by rw [← hpac]; exact hp, by rw [← hh.log]; exact hm⟩

/-- (B') The same at a quiescent end of the observation at or after `ts + cooldown`: nothing is expected any
more, so a frame sent by the device is in the trace. -/
theorem last_update_reaches_bus_by_end {c : Cfg} {k : Bool} {tr : List Obs} {s : St} {t ts : Nat}
    (h : Accepts c k (tr ++ [.fin t]) s)
    (hts : (track k tr).tSet = some ts) (hok : (track k tr).connOk = true) (hlate : ts + c.cool ≤ t) :
    ∃ τ why, s.onBus = some (τ, why) ∧ ts ≤ τ ∧ τ ≤ ts + c.cool ∧
      (why = .sent → ∃ p, (track k tr).lastSet = some p ∧
        (Out.w p τ ∈ outsOf tr ∨ Out.r p τ ∈ outsOf tr)) := by
  have hg := (GInv_run c k _ s h).1
  have hh := HInv_run c k _ s h
  have htrk : track k (tr ++ [.fin t]) = track k tr := by rw [track_snoc]; rfl
  have houts : outsOf (tr ++ [.fin t]) = outsOf tr := by rw [outsOf_snoc]; simp
  have hts' : s.tSet = some ts := ((congrArg Track.tSet hh.trk).trans (by rw [htrk])).trans hts
  have hok' : s.connOk = true := ((congrArg Track.connOk hh.trk).trans (by rw [htrk])).trans hok
  have hpac : s.pac = (track k tr).lastSet := (congrArg Track.lastSet hh.trk).trans (by rw [htrk])
  obtain ⟨s0, h0, hstep⟩ := run?_snoc_some (step? c) h
  have hg0 := (GInv_run c k tr s0 h0).1
  obtain ⟨hnow, hc⟩ := step_cases hstep
  cases hc with
  | consume x ho _ _ _ _ => cases ho
  | consumeOpt x ho _ _ _ _ => cases ho
  | fire x s1 ho _ _ _ => cases ho
  | input s1 r _ _ hr _ => simp [inputReaction] at hr
  | sample s1 he ha hq hs =>
    rw [he] at hg0
    obtain ⟨_, _, hcd, _⟩ := advance_Inv hg0 hnow ha
    have hexp : s.expect = [] := by
      subst hs
      show (tick s1 (Obs.fin t).time).expect = []
      exact advance_expect he ha
    cases hob : s.onBus with
    | none =>
      obtain ⟨_, d, hd, hdl⟩ := hg.pending ts hts' hok' hob
      subst hs
      have := (due_false (hcd d hd)).2 rfl
      simp only [Obs.time] at this
      omega
    | some x =>
      obtain ⟨τ, why⟩ := x
      obtain ⟨ts', h1, h2, _, h4⟩ := hg.onBusT τ why hob
      rw [hts'] at h1; cases h1
      refine ⟨τ, why, rfl, h2, h4 hok', ?_⟩
      intro hw
      subst hw
      obtain ⟨p, hp, hm⟩ := hg.onBusSent τ hob
      refine ⟨p, by rw [← hpac]; exact hp, ?_⟩
      rw [hexp, hh.log, houts] at hm
      simpa using hm

theorem send_outs_conn {c : Cfg} {s : St} (p : Nat) (resp upd : Bool) (t : Nat) (h : s.conn = true) :
    (send c s p resp upd t).2 = [if resp then .r p t else .w p t] := by
  unfold send; rw [if_pos h]

/-- (C) A read request (device responding, connection up, nothing else pending) is answered at once with the
value set most recently, whatever the bus value is … -/
theorem read_answered_with_value_set {c : Cfg} {k : Bool} {pre : List Obs} {s0 s : St} {t p : Nat}
    (hpre : Accepts c k pre s0) (hstep : step? c s0 (.read t) = some s) (hresp : c.respond = true)
    (hconn : (track k pre).conn = true) (hset : (track k pre).lastSet = some p) :
    s.expect = [.r p t] := by
  have hh := HInv_run c k pre s0 hpre
  obtain ⟨_, hc⟩ := step_cases hstep
  cases hc with
  | consume x ho _ _ _ _ => cases ho
  | consumeOpt x ho _ _ _ _ => cases ho
  | fire x s1 ho _ _ _ => cases ho
  | sample s1 _ _ hq _ => simp [sampleOk] at hq
  | input s1 r he ha hr hs =>
    subst hs
    have h1 : HInv k pre (tick s1 t) := (hh.same (advance_SameIn ha)).same ⟨rfl, rfl⟩
    have hpac : (tick s1 t).pac = some p := (congrArg Track.lastSet h1.trk).trans hset
    have hcn : (tick s1 t).conn = true := (congrArg Track.conn h1.trk).trans hconn
    simp only [inputReaction, Obs.time, Option.some.injEq] at hr
    subst hr
    unfold doRead
    simp only [hresp, Bool.not_true, Bool.false_eq_true, ↓reduceIte, hpac, react]
    exact send_outs_conn p true false t hcn

/-- (C') … and with the value last seen on the bus when no value has been set (nothing, if there is none). -/
theorem read_answered_with_bus_value {c : Cfg} {k : Bool} {pre : List Obs} {s0 s : St} {t : Nat}
    (hpre : Accepts c k pre s0) (hstep : step? c s0 (.read t) = some s) (hresp : c.respond = true)
    (hconn : (track k pre).conn = true) (hset : (track k pre).lastSet = none) :
    (s.last = none ∧ s.expect = []) ∨ (∃ l, s.last = some l ∧ s.expect = [.r l t]) := by
  have hh := HInv_run c k pre s0 hpre
  obtain ⟨_, hc⟩ := step_cases hstep
  cases hc with
  | consume x ho _ _ _ _ => cases ho
  | consumeOpt x ho _ _ _ _ => cases ho
  | fire x s1 ho _ _ _ => cases ho
  | sample s1 _ _ hq _ => simp [sampleOk] at hq
  | input s1 r he ha hr hs =>
    subst hs
    have h1 : HInv k pre (tick s1 t) := (hh.same (advance_SameIn ha)).same ⟨rfl, rfl⟩
    have hpac : (tick s1 t).pac = none := (congrArg Track.lastSet h1.trk).trans hset
    have hcn : (tick s1 t).conn = true := (congrArg Track.conn h1.trk).trans hconn
    simp only [inputReaction, Obs.time, Option.some.injEq] at hr
    subst hr
    unfold doRead
    simp only [hresp, Bool.not_true, Bool.false_eq_true, ↓reduceIte, hpac, react]
    cases hl : (tick s1 t).last with
    | none => left; exact ⟨hl, rfl⟩
    | some l =>
      right
      refine ⟨l, ?_, send_outs_conn l true false t hcn⟩
      simp only
      unfold send
      rw [if_pos hcn]
      simp only [noteOnBus]
      split <;> rfl

/-- (D) `skip_unchanged` never suppresses a value that differs from the one set last — whatever the (possibly
older, possibly different) value on the bus is: unless `skip_unchanged` is given AND the payload equals the
value set last, the update is taken (it becomes the value set last and the obligation of (B) starts at `t`). -/
theorem update_taken_unless_equal_to_last_set {c : Cfg} {k : Bool} {pre : List Obs} {s : St} {p t : Nat}
    {skip : Bool} (h : Accepts c k (pre ++ [.set p skip t]) s)
    (hne : skip = false ∨ (track k pre).lastSet ≠ some p) :
    s.pac = some p ∧ s.tSet = some t ∧ (track k (pre ++ [.set p skip t])).tSet = some t := by
  have hh := HInv_run c k _ s h
  have hcond : ¬ (skip && (track k pre).lastSet == some p) = true := by
    rcases hne with h1 | h1
    · simp [h1]
    · simp only [Bool.and_eq_true, beq_iff_eq, not_and]
      exact fun _ => h1
  have htrk : track k (pre ++ [.set p skip t]) =
      { track k pre with lastSet := some p, tSet := some t, connOk := (track k pre).conn } := by
    rw [track_snoc]
    simp only [track1]
    rw [if_neg hcond]
  refine ⟨?_, ?_, ?_⟩
  · exact (congrArg Track.lastSet hh.trk).trans (by rw [htrk])
  · exact (congrArg Track.tSet hh.trk).trans (by rw [htrk])
  · rw [htrk]

/-- (D') Conversely a `set` is suppressed only with `skip_unchanged` and a payload equal to the value set last;
then nothing is sent and nothing changes. -/
theorem skip_suppresses_only_equal {c : Cfg} {k : Bool} {pre : List Obs} {s0 s : St} {p t : Nat}
    (hpre : Accepts c k pre s0) (hstep : step? c s0 (.set p true t) = some s)
    (heq : (track k pre).lastSet = some p) :
    s.expect = [] ∧ s.pac = some p ∧ s.tSet = s0.tSet := by
  have hh := HInv_run c k pre s0 hpre
  obtain ⟨_, hc⟩ := step_cases hstep
  cases hc with
  | consume x ho _ _ _ _ => cases ho
  | consumeOpt x ho _ _ _ _ => cases ho
  | fire x s1 ho _ _ _ => cases ho
  | sample s1 _ _ hq _ => simp [sampleOk] at hq
  | input s1 r he ha hr hs =>
    subst hs
    have hsame := advance_SameIn ha
    have h1 : HInv k pre (tick s1 t) := (hh.same hsame).same ⟨rfl, rfl⟩
    have hpac : (tick s1 t).pac = some p := (congrArg Track.lastSet h1.trk).trans heq
    simp only [inputReaction, Obs.time, Option.some.injEq] at hr
    subst hr
    unfold doSet
    have hc : (true && (tick s1 t).pac == some p) = true := by simp [hpac]
    rw [if_pos hc]
    exact ⟨rfl, hpac, congrArg Track.tSet hsame.1⟩

/-! ### Non-vacuity: concrete traces -/

/-- cooldown 1 s: set 1000 → written at once; set 3098, then 3148 during the cooldown → only 3148 goes out, at
exactly 1 s; the task ends silently at 2 s; a read at 3 s is answered with 3148. -/
example : accepts ⟨1000000, 0, true⟩ true
    [.set 1000 false 0, .out (.w 1000 0), .set 3098 false 250000, .set 3148 false 500000,
     .out (.w 3148 1000000), .q (some 3148) 1500000, .read 3000000, .out (.r 3148 3000000), .fin 5000000] = true := by
  decide
/-- … a trace in which the pending value goes out early (0.75 s) is rejected … -/
example : accepts ⟨1000000, 0, true⟩ true
    [.set 1000 false 0, .out (.w 1000 0), .set 3098 false 250000, .out (.w 3098 750000)] = false := by decide
/-- … and so is one in which it never goes out (lost update). -/
example : accepts ⟨1000000, 0, true⟩ true
    [.set 1000 false 0, .out (.w 1000 0), .set 3098 false 250000, .fin 5000000] = false := by decide
/-- skip_unchanged compares with the value set last, not with the bus: after a foreign bus write of 3148, setting
1000 again with skip_unchanged is suppressed, setting 3148 is not. -/
example : accepts ⟨0, 0, true⟩ true
    [.set 1000 true 0, .out (.w 1000 0), .bus 3148 100000, .set 1000 true 200000, .q (some 3148) 200000,
     .set 3148 true 300000, .out (.w 3148 300000), .fin 400000] = true := by decide


/-- Cooldown 5 s, periodic 4 s, started disconnected: `set` at 0 starts the cooldown task (due at 5 s, the write fails),
the connection comes up at 1 s and restarts the periodic task (due at 5 s): both tasks are due at the same instant.
Whichever runs first, the value reaches the bus at 5 s — with one write (periodic task first: it restarts the cooldown
task) or two identical ones (cooldown task first); the monitor accepts both and nothing else. -/
example : accepts ⟨5000000, 4000000, true⟩ false
    [.set 1000 false 0, .conn true 1000000, .out (.w 1000 5000000), .out (.w 1000 5000000), .q (some 1000) 5000000,
     .out (.w 1000 9000000), .fin 9500000] = true := by decide
example : accepts ⟨5000000, 4000000, true⟩ false
    [.set 1000 false 0, .conn true 1000000, .out (.w 1000 5000000), .q (some 1000) 5000000,
     .out (.w 1000 9000000), .fin 9500000] = true := by decide
example : accepts ⟨5000000, 4000000, true⟩ false
    [.set 1000 false 0, .conn true 1000000, .out (.w 1000 5000000), .out (.w 1000 5000000), .out (.w 1000 5000000)]
    = false := by decide
/-- Periodic shorter than the cooldown (10 s / 4 s): 1000 at 0, 3148 at 1 s is deferred; the periodic task at 4 s sends
the DEFERRED value (not the stale bus value) and restarts the cooldown; a trace that re-sends 1000 instead is rejected. -/
example : accepts ⟨10000000, 4000000, true⟩ true
    [.set 1000 false 0, .out (.w 1000 0), .set 3148 false 1000000, .out (.w 3148 4000000), .q (some 3148) 4000000,
     .out (.w 3148 8000000), .fin 11000000] = true := by decide
example : accepts ⟨10000000, 4000000, true⟩ true
    [.set 1000 false 0, .out (.w 1000 0), .set 3148 false 1000000, .out (.w 1000 4000000)] = false := by decide

/-- The hypotheses of (A) and (B) are met by the first trace above: the last update (3148 at 0.5 s) was taken, the
connection stayed up, the clock passed 1.5 s; the value reached the bus at 1.0 s because the device sent it, and the two
update-caused writes are at 0 s and 1.0 s. -/
def exCfg : Cfg := ⟨1000000, 0, true⟩
def exTrace : List Obs :=
  [.set 1000 false 0, .out (.w 1000 0), .set 3098 false 250000, .set 3148 false 500000,
   .out (.w 3148 1000000), .q (some 3148) 1500000, .read 3000000, .out (.r 3148 3000000), .fin 5000000]
example : ∃ s, Accepts exCfg true exTrace s ∧ (track true exTrace).tSet = some 500000 ∧
    (track true exTrace).connOk = true ∧ 500000 + exCfg.cool < s.now ∧
    s.onBus = some (1000000, .sent) ∧ s.uw = [1000000, 0] :=
  ⟨_, rfl, by decide, by decide, by decide, by decide, by decide⟩

end XknxVerif.Props.C41
