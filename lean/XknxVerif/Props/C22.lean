/-
C22  Transports deliver stream frames once, in order, without crashing.

"For any sequence of datagrams, and for any split of a TCP byte stream into
chunks, the transport never lets an exception escape into the event loop.  On
TCP, every well-formed frame in the stream is handed to the callbacks exactly
once and in stream order, however the stream is chunked.  A malformed frame
whose header length is readable is skipped without losing the frames that
follow it."

Model: `XknxVerif.Stream` (`TCPTransport.data_received_callback` after the
fixes: iterative, skips a malformed frame by its header's total length,
resynchronises octet-wise when no length is readable; `UDPTransport.
data_received_callback`), on top of the complete frame parser of C20.
Raising user callbacks are outside the statement.
-/
import XknxVerif.Lemmas.Stream

namespace XknxVerif.Props.C22
open XknxVerif.KNXIP XknxVerif.Stream
open XknxVerif.Generated.KNXIP

/-- Feeding chunk after chunk from any waiting buffer state equals one pass over everything. -/
theorem run_from (buf : Bytes) (hbuf : drain buf = (buf, [])) (chunks : List Bytes) :
    Automata.run feed buf chunks = drain (buf ++ chunks.flatten) := by
  induction chunks generalizing buf with
  | nil => simp [Automata.run_nil, hbuf]
  | cons c cs ih =>
    rw [Automata.run_cons]
    simp only [feed, List.flatten_cons]
    rw [ih _ (drain_residue (buf ++ c)), ← List.append_assoc, drain_append (buf ++ c) cs.flatten]

/-- (1) Chunking independence, for ALL chunkings of ALL byte streams: the frames handed to the
callbacks (in order) and the bytes left in the buffer are those of a single pass over the
concatenated stream. -/
theorem chunking_independent (chunks : List Bytes) : run chunks = drain chunks.flatten := by
  unfold run
  rw [run_from [] drain_nil chunks]
  rfl

/-- (1') Two chunkings of the same stream deliver the same frames in the same order and leave the
same partial frame buffered. -/
theorem same_stream_same_frames (cs₁ cs₂ : List Bytes) (h : cs₁.flatten = cs₂.flatten) : run cs₁ = run cs₂ := by
  rw [chunking_independent, chunking_independent, h]

/-- (2) TCP: no exception escapes into the event loop, whatever is received and however it is chunked. -/
theorem tcp_no_exception_escapes (chunks : List Bytes) : ∀ ev ∈ (run chunks).2, ∃ f, ev = .frame f := by
  rw [chunking_independent]
  exact drain_no_escape _

/-- (2') UDP: no exception escapes for any datagram (hence for any sequence of datagrams), and a
datagram is delivered at most once. -/
theorem udp_no_exception_escapes (d : Bytes) : udp d = [] ∨ ∃ f, udp d = [.frame f] := by
  unfold udp
  split
  · exact Or.inl rfl
  · split
    · exact Or.inr ⟨_, rfl⟩
    · rename_i e he
      rcases parseFrame_raises d e he with rfl | rfl <;> exact Or.inl rfl

theorem udp_sequence_no_exception (ds : List Bytes) : ∀ ev ∈ ds.flatMap udp, ∃ f, ev = .frame f := by
  intro ev hev
  obtain ⟨d, _, hd⟩ := List.mem_flatMap.mp hev
  rcases udp_no_exception_escapes d with h | ⟨f, h⟩
  · rw [h] at hd; cases hd
  · rw [h] at hd
    exact ⟨f, by simpa using hd⟩

/-! ### What a stream of frames delivers -/

/-- A segment of a stream: a well-formed frame (its octets and what they parse to), or a malformed
frame whose header length is readable (the frame parser rejects it, and its header announces
exactly its length). -/
inductive Seg where
  | good (bytes : Bytes) (f : Frame)
  | bad (bytes : Bytes)

def Seg.bytes : Seg → Bytes
  | .good b _ => b
  | .bad b => b

def Seg.frame? : Seg → Option Ev
  | .good _ f => some (.frame f)
  | .bad _ => none

def Seg.Valid : Seg → Prop
  | .good b f => parseFrame b = .ok (f, [])
  | .bad b => parseFrame b = .error .parse ∧ Const.headerLength ≤ Header.lengthAfter b ∧
      Header.lengthAfter b = b.length

theorem step_good {b : Bytes} {f : Frame} (h : parseFrame b = .ok (f, [])) (c : Bytes) :
    step (b ++ c) = .deliver f c := by
  have : step b = .deliver f [] := by unfold step; rw [h]
  simpa using step_append_deliver c this

theorem step_bad {b : Bytes} (h : parseFrame b = .error .parse) (h6 : Const.headerLength ≤ Header.lengthAfter b)
    (hl : Header.lengthAfter b = b.length) (c : Bytes) : step (b ++ c) = .skip c := by
  have : step b = .skip [] := by
    unfold step
    rw [h]
    simp only
    rw [if_neg (by omega), if_neg (by omega), hl, List.drop_length]
  simpa using step_append_skip c this

theorem seg_nonempty {s : Seg} (h : s.Valid) : s.bytes.isEmpty = false := by
  cases s with
  | good b f =>
    have := (parseFrame_ok h).2.1
    have := (parseFrame_ok h).1
    cases b with
    | nil => simp [Const.headerLength] at *; omega
    | cons x xs => rfl
  | bad b =>
    obtain ⟨_, h6, hl⟩ := h
    cases b with
    | nil => simp [Const.headerLength, Seg.bytes] at *; omega
    | cons x xs => rfl

/-- (3) A stream made of well-formed frames and malformed frames with a readable length, followed by
any tail the loop would wait on (nothing, or the beginning of a further frame): exactly the
well-formed frames are handed over, each once, in stream order — no frame after a malformed one
is lost — and the tail stays buffered. -/
theorem stream_delivers (segs : List Seg) (hv : ∀ s ∈ segs, s.Valid) (tail : Bytes)
    (ht : drain tail = (tail, [])) :
    drain ((segs.map Seg.bytes).flatten ++ tail) = (tail, segs.filterMap Seg.frame?) := by
  induction segs with
  | nil => simpa using ht
  | cons s ss ih =>
    have hs := hv s (List.mem_cons_self)
    have ih' := ih (fun s' hs' => hv s' (List.mem_cons_of_mem _ hs'))
    have hne := seg_nonempty hs
    simp only [List.map_cons, List.flatten_cons, List.append_assoc]
    cases s with
    | good b f =>
      rw [drain_deliver (isEmpty_append_false _ hne) (step_good hs _), ih']
      rfl
    | bad b =>
      obtain ⟨hp, h6, hl⟩ := hs
      rw [drain_skip (isEmpty_append_false _ hne) (step_bad hp h6 hl _), ih']
      rfl

/-- (3') … however that stream is split into chunks. -/
theorem stream_delivers_any_chunking (segs : List Seg) (hv : ∀ s ∈ segs, s.Valid) (tail : Bytes)
    (ht : drain tail = (tail, [])) (chunks : List Bytes)
    (hc : chunks.flatten = (segs.map Seg.bytes).flatten ++ tail) :
    run chunks = (tail, segs.filterMap Seg.frame?) := by
  rw [chunking_independent, hc, stream_delivers segs hv tail ht]

/-- A partial frame (an acceptable header whose announced length has not arrived) is a tail the loop waits on. -/
theorem partial_frame_waits (t : Bytes) (h : parseFrame t = .error .incomplete) : drain t = (t, []) := by
  apply drain_wait
  unfold step
  rw [h]

/-! ### Non-vacuity -/

/-- the minimal frame (ROUTING_INDICATION with empty cEMI) is a valid `good` segment … -/
example : (Seg.good [6, 0x10, 5, 0x30, 0, 6] ⟨⟨0x0530, 6⟩, .routingIndication []⟩).Valid := by
  unfold Seg.Valid; decide
/-- … a TUNNELLING_ACK with an unknown status code is a valid `bad` segment (readable length 10) … -/
example : (Seg.bad [6, 0x10, 4, 0x21, 0, 10, 4, 1, 0, 0x77]).Valid := by
  unfold Seg.Valid; decide
/-- … so is a frame with an unknown service type … -/
example : (Seg.bad [6, 0x10, 0xFF, 0xFF, 0, 7, 0]).Valid := by
  unfold Seg.Valid; decide
/-- … and a half-received frame is a tail. -/
example : parseFrame [6, 0x10, 5, 0x30, 0, 9, 1] = .error .incomplete := by decide

end XknxVerif.Props.C22
