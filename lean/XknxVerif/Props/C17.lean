/-
C17  Data Secure enforces sequence-number freshness in both directions.

Pure invariants by induction over *every* event history (`Automata.run step`):
received frames (each with the outcome of the cryptographic verification as an
uninterpreted input `verify`, and `innerOk` for the inner APDU parse) and send
requests, in any order, from any number of senders.
-/
import XknxVerif.Lemmas.DataSecureHist

namespace XknxVerif.Props.C17
open XknxVerif XknxVerif.DataSecure XknxVerif.Automata
open XknxVerif.Generated.DataSecure (sequenceNumberMax)

/-- The observable trace of a history started in `s`. -/
abbrev trace (s : St) (evs : List Ev) : List Obs := (run step s evs).2
abbrev final (s : St) (evs : List Ev) : St := (run step s evs).1

/-! ### one step -/

/-- A frame that fails verification (MAC failure, unknown algorithm, any
exception in `get_plain_apdu`) leaves the whole state unchanged and is not delivered. -/
theorem failed_verification_no_change (s : St) (ev : RecvEv) (e : Err) (h : ev.verify = .error e) :
    (step s (.recv ev)).1 = s ∧ ∀ src q, Obs.delivered src q ∉ (step s (.recv ev)).2 := by
  rcases recvStep_spec s.senders ev with ⟨h1, h2, _⟩ | ⟨_, p, _, _, _, _, _, _, _, hv, _⟩
  · simp only [step]
    cases hr : recvStep s.senders ev with
    | mk t o =>
      rw [hr] at h1 h2
      simp only at h1 h2
      subst h1
      cases o with
      | pass => simp
      | deliver p => exact absurd rfl (h2 p)
      | dsError w => simp
      | escape x => simp
  · rw [h] at hv; cases hv

/-- A received frame is delivered only if its sender is in the table with a
strictly smaller last-valid number, and then exactly that entry becomes the frame's number. -/
theorem delivered_step (s : St) (ev : RecvEv) (src q : Nat)
    (h : Obs.delivered src q ∈ (step s (.recv ev)).2) :
    src = ev.src ∧ q = ev.seq ∧ ∃ last, s.senders.lookup src = some last ∧ last < q
      ∧ (step s (.recv ev)).1 = { s with senders := setVal s.senders src q } := by
  simp only [step] at h ⊢
  rcases recvStep_spec s.senders ev with ⟨_, h2, _⟩ | ⟨last, p, _, _, _, _, _, hl, hlt, _, ht, hd⟩
  · cases hr : recvStep s.senders ev with
    | mk t o =>
      rw [hr] at h h2
      cases o with
      | deliver p => exact absurd rfl (h2 p)
      | pass => simp at h
      | dsError w => simp at h
      | escape x => simp at h
  · cases hr : recvStep s.senders ev with
    | mk t o =>
      rw [hr] at h ht hd
      simp only at ht hd
      rcases hd with ⟨_, ho⟩ | ⟨_, ho⟩
      · subst ho
        simp only [List.mem_singleton, Obs.delivered.injEq] at h
        obtain ⟨rfl, rfl⟩ := h
        exact ⟨rfl, rfl, last, hl, hlt, by rw [ht]⟩
      · subst ho; simp at h

/-- The table only ever changes by raising the entry of a *known* sender. -/
theorem step_table (s : St) (e : Ev) (k : Nat) :
    ((step s e).1.senders.lookup k).isSome = (s.senders.lookup k).isSome ∧
    ∀ v, s.senders.lookup k = some v → ∃ v', (step s e).1.senders.lookup k = some v' ∧ v ≤ v' := by
  cases e with
  | send g kd =>
    simp only [step]
    split
    · split <;> exact ⟨rfl, fun v hv => ⟨v, hv, Nat.le_refl _⟩⟩
    · exact ⟨rfl, fun v hv => ⟨v, hv, Nat.le_refl _⟩⟩
  | recv ev =>
    have hs : (step s (.recv ev)).1.senders = (recvStep s.senders ev).1 := by
      simp only [step]; cases hr : recvStep s.senders ev with | mk t o => cases o <;> rfl
    rw [hs]
    rcases recvStep_spec s.senders ev with ⟨h1, _, _⟩ | ⟨last, p, _, _, _, _, _, hl, hlt, _, ht, _⟩
    · rw [h1]; exact ⟨rfl, fun v hv => ⟨v, hv, Nat.le_refl _⟩⟩
    · rw [ht]
      refine ⟨lookup_setVal_isSome _ _ _ _, fun v hv => ?_⟩
      by_cases hk : k = ev.src
      · subst hk
        rw [hl] at hv; cases hv
        exact ⟨ev.seq, lookup_setVal_same _ _ _ _ hl, Nat.le_of_lt hlt⟩
      · exact ⟨v, by rw [lookup_setVal_other _ _ _ _ hk]; exact hv, Nat.le_refl _⟩

/-! ### every history: receiving -/

/-- Invariant: everything delivered so far is bounded by the table, and the
delivered numbers of each sender are strictly increasing. -/
def RecvInv (s : St) (h : List Obs) : Prop :=
  (∀ src q, Obs.delivered src q ∈ h → ∃ v, s.senders.lookup src = some v ∧ q ≤ v) ∧
  h.Pairwise fun x y => ∀ src a b, x = Obs.delivered src a → y = Obs.delivered src b → a < b

theorem recvInv_step (s : St) (h : List Obs) (e : Ev) (hi : RecvInv s h) :
    RecvInv (step s e).1 (h ++ (step s e).2) := by
  obtain ⟨hA, hB⟩ := hi
  constructor
  · intro src q hm
    rcases List.mem_append.mp hm with hm | hm
    · obtain ⟨v, hv, hq⟩ := hA src q hm
      obtain ⟨v', hv', hle⟩ := (step_table s e src).2 v hv
      exact ⟨v', hv', Nat.le_trans hq hle⟩
    · cases e with
      | send g kd =>
        simp only [step] at hm
        split at hm
        · split at hm <;> simp at hm
        · simp at hm
      | recv ev =>
        obtain ⟨rfl, rfl, last, hl, _, hst⟩ := delivered_step s ev src q hm
        rw [hst]
        exact ⟨ev.seq, lookup_setVal_same _ _ _ _ hl, Nat.le_refl _⟩
  · rw [List.pairwise_append]
    refine ⟨hB, ?_, ?_⟩
    · cases e with
      | send g kd =>
        simp only [step]
        split
        · split <;> simp
        · simp
      | recv ev =>
        simp only [step]
        cases recvStep s.senders ev with | mk t o => cases o <;> simp
    · intro x hx y hy src a b hxa hyb
      subst hxa hyb
      cases e with
      | send g kd =>
        simp only [step] at hy
        split at hy
        · split at hy <;> simp at hy
        · simp at hy
      | recv ev =>
        obtain ⟨rfl, rfl, last, hl, hlt, _⟩ := delivered_step s ev src b hy
        obtain ⟨v, hv, hq⟩ := hA ev.src a hx
        rw [hl] at hv; cases hv
        omega

/-- **Receiving, all histories.**  For every initial state and every event list:
the sequence numbers of the frames delivered from one sender are strictly
increasing in delivery order, and each is bounded by the final table entry. -/
theorem delivered_strictly_increasing (s : St) (evs : List Ev) :
    (trace s evs).Pairwise fun x y => ∀ src a b, x = Obs.delivered src a → y = Obs.delivered src b → a < b := by
  have := inv_run_hist step RecvInv recvInv_step evs s [] ⟨by simp, List.Pairwise.nil⟩
  simpa using this.2

/-- … and strictly greater than the sender's initial (keyring) value. -/
theorem delivered_above_initial (s : St) (evs : List Ev) (src q : Nat)
    (h : Obs.delivered src q ∈ trace s evs) : ∃ v0, s.senders.lookup src = some v0 ∧ v0 < q := by
  induction evs generalizing s with
  | nil => simp [trace, run_nil] at h
  | cons e es ih =>
    simp only [trace, run_cons] at h
    rcases List.mem_append.mp h with h | h
    · cases e with
      | send g kd =>
        simp only [step] at h
        split at h
        · split at h <;> simp at h
        · simp at h
      | recv ev =>
        obtain ⟨rfl, rfl, last, hl, hlt, _⟩ := delivered_step s ev src q h
        exact ⟨last, hl, hlt⟩
    · obtain ⟨v1, hv1, hlt⟩ := ih (step s e).1 h
      have hsome : (s.senders.lookup src).isSome := by
        rw [← (step_table s e src).1, hv1]; rfl
      obtain ⟨v0, hv0⟩ := Option.isSome_iff_exists.mp hsome
      obtain ⟨v', hv', hle⟩ := (step_table s e src).2 v0 hv0
      rw [hv1] at hv'; cases hv'
      exact ⟨v0, hv0, by omega⟩

/-- **Frames from unknown senders are never delivered**, in any history. -/
theorem unknown_sender_never_delivered (s : St) (evs : List Ev) (src : Nat)
    (hunk : s.senders.lookup src = none) : ∀ q, Obs.delivered src q ∉ trace s evs := by
  intro q h
  obtain ⟨v0, hv0, _⟩ := delivered_above_initial s evs src q h
  rw [hunk] at hv0; cases hv0

/-- The last-valid numbers never decrease and no sender is ever added or removed. -/
theorem table_monotone (s : St) (evs : List Ev) (k : Nat) :
    ((final s evs).senders.lookup k).isSome = (s.senders.lookup k).isSome ∧
    ∀ v, s.senders.lookup k = some v → ∃ v', (final s evs).senders.lookup k = some v' ∧ v ≤ v' := by
  induction evs generalizing s with
  | nil => exact ⟨rfl, fun v hv => ⟨v, hv, Nat.le_refl _⟩⟩
  | cons e es ih =>
    simp only [final, run_cons]
    obtain ⟨h1, h2⟩ := step_table s e k
    obtain ⟨i1, i2⟩ := ih (step s e).1
    refine ⟨by rw [← h1]; exact i1, fun v hv => ?_⟩
    obtain ⟨v', hv', hle⟩ := h2 v hv
    obtain ⟨v'', hv'', hle'⟩ := i2 v' hv'
    exact ⟨v'', hv'', Nat.le_trans hle hle'⟩

/-! ### every history: sending -/

/-- Invariant: every number sent so far is below the counter and within 48 bit;
sent numbers are strictly increasing; after an exhaustion error the counter is past the maximum. -/
def SendInv (s : St) (h : List Obs) : Prop :=
  (∀ q, Obs.sent q ∈ h → q < s.sendSeq ∧ q ≤ sequenceNumberMax) ∧
  (h.Pairwise fun x y => ∀ a b, x = Obs.sent a → y = Obs.sent b → a < b) ∧
  (Obs.sendError ∈ h → s.sendSeq > sequenceNumberMax)

theorem step_sendSeq (s : St) (e : Ev) :
    ((step s e).1.sendSeq = s.sendSeq ∧ ∀ q, Obs.sent q ∉ (step s e).2) ∨
    (s.sendSeq ≤ sequenceNumberMax ∧ (step s e).1.sendSeq = s.sendSeq + 1 ∧ (step s e).2 = [.sent s.sendSeq]) := by
  cases e with
  | recv ev =>
    left
    simp only [step]
    cases recvStep s.senders ev with | mk t o => cases o <;> simp
  | send g kd =>
    by_cases hgk : (g && kd) = true
    · by_cases hgt : s.sendSeq > sequenceNumberMax
      · left; simp [step, hgk, getSeq, hgt]
      · right; simp only [step, hgk, getSeq, hgt, ↓reduceIte]; exact ⟨by omega, trivial, trivial⟩
    · left; simp [step, hgk]

theorem step_sendError (s : St) (e : Ev) (h : Obs.sendError ∈ (step s e).2) :
    s.sendSeq > sequenceNumberMax ∧ (step s e).1 = s := by
  cases e with
  | recv ev =>
    simp only [step] at h
    cases hr : recvStep s.senders ev with | mk t o => rw [hr] at h; cases o <;> simp at h
  | send g kd =>
    by_cases hgk : (g && kd) = true
    · by_cases hgt : s.sendSeq > sequenceNumberMax
      · simp [step, hgk, getSeq, hgt]
      · simp [step, hgk, getSeq, hgt] at h
    · simp [step, hgk] at h

theorem sendInv_step (s : St) (h : List Obs) (e : Ev) (hi : SendInv s h) :
    SendInv (step s e).1 (h ++ (step s e).2) := by
  obtain ⟨hC, hD, hE⟩ := hi
  rcases step_sendSeq s e with ⟨hs, hn⟩ | ⟨hle, hs, ho⟩
  · refine ⟨?_, ?_, ?_⟩
    · intro q hm
      rcases List.mem_append.mp hm with hm | hm
      · rw [hs]; exact hC q hm
      · exact absurd hm (hn q)
    · rw [List.pairwise_append]
      refine ⟨hD, ?_, ?_⟩
      · cases e with
        | send g kd =>
          simp only [step]
          split
          · split <;> simp
          · simp
        | recv ev =>
          simp only [step]
          cases recvStep s.senders ev with | mk t o => cases o <;> simp
      · intro x _ y hy a b _ hyb
        subst hyb
        exact absurd hy (hn b)
    · intro hm
      rw [hs]
      rcases List.mem_append.mp hm with hm | hm
      · exact hE hm
      · exact (step_sendError s e hm).1
  · rw [ho]
    unfold SendInv
    rw [hs]
    refine ⟨?_, ?_, ?_⟩
    · intro q hm
      rcases List.mem_append.mp hm with hm | hm
      · have := hC q hm; omega
      · simp only [List.mem_singleton, Obs.sent.injEq] at hm; subst hm; omega
    · rw [List.pairwise_append]
      refine ⟨hD, by simp, ?_⟩
      intro x hx y hy a b hxa hyb
      subst hxa
      simp only [List.mem_singleton] at hy
      subst hy
      simp only [Obs.sent.injEq] at hyb
      subst hyb
      exact (hC a hx).1
    · intro hm
      rcases List.mem_append.mp hm with hm | hm
      · have := hE hm; omega
      · simp at hm

/-- **Sending, all histories.**  Outgoing sequence numbers are strictly increasing
and never exceed 48 bits. -/
theorem sent_strictly_increasing (s : St) (evs : List Ev) :
    (trace s evs).Pairwise fun x y => ∀ a b, x = Obs.sent a → y = Obs.sent b → a < b := by
  have := inv_run_hist step SendInv sendInv_step evs s [] ⟨by simp, List.Pairwise.nil, by simp⟩
  simpa using this.2.1

theorem sent_within_48_bit (s : St) (evs : List Ev) (q : Nat) (h : Obs.sent q ∈ trace s evs) :
    q < 2 ^ 48 ∧ s.sendSeq ≤ q := by
  have hinv := inv_run_hist step SendInv sendInv_step evs s [] ⟨by simp, List.Pairwise.nil, by simp⟩
  have h1 := hinv.1 q (by simpa using h)
  have hmax : sequenceNumberMax = 2 ^ 48 - 1 := by decide
  refine ⟨by omega, ?_⟩
  -- the first number ever sent is the initial counter
  clear hinv h1
  induction evs generalizing s with
  | nil => simp [trace, run_nil] at h
  | cons e es ih =>
    simp only [trace, run_cons] at h
    rcases step_sendSeq s e with ⟨hs, hn⟩ | ⟨_, hs, ho⟩
    · rcases List.mem_append.mp h with h | h
      · exact absurd h (hn q)
      · have := ih (step s e).1 h; omega
    · rcases List.mem_append.mp h with h | h
      · rw [ho] at h; simp at h; omega
      · have := ih (step s e).1 h; omega

/-- **Exhaustion errors instead of wrapping.**  With the counter past `2^48-1`
every request to send secured data yields the error, changes nothing, and –
for every continuation – no secured frame is ever sent again. -/
theorem exhausted_stays_exhausted (s : St) (hx : s.sendSeq > sequenceNumberMax) (evs : List Ev) :
    (final s evs).sendSeq = s.sendSeq ∧ ∀ q, Obs.sent q ∉ trace s evs := by
  induction evs generalizing s with
  | nil => simp [final, trace, run_nil]
  | cons e es ih =>
    simp only [final, trace, run_cons]
    rcases step_sendSeq s e with ⟨hs, hn⟩ | ⟨hle, _, _⟩
    · obtain ⟨i1, i2⟩ := ih (step s e).1 (by rw [hs]; exact hx)
      refine ⟨by rw [i1, hs], fun q hm => ?_⟩
      rcases List.mem_append.mp hm with hm | hm
      · exact hn q hm
      · exact i2 q hm
    · omega

theorem send_when_exhausted (s : St) (hx : s.sendSeq > sequenceNumberMax) :
    step s (.send true true) = (s, [.sendError]) := by
  simp only [step, getSeq, hx, Bool.and_self, ↓reduceIte]

/-- The last usable number is `2^48-1`: it is sent, and the next request errors. -/
theorem last_number_then_error (t : List (Nat × Nat)) :
    trace ⟨t, sequenceNumberMax⟩ [.send true true, .send true true]
      = [.sent (2 ^ 48 - 1), .sendError] := by
  have h3 : sequenceNumberMax = 2 ^ 48 - 1 := by decide
  simp [trace, run_cons, run_nil, step, getSeq, h3]

/-- The counter never decreases (no wrap), in any history. -/
theorem sendSeq_monotone (s : St) (evs : List Ev) : s.sendSeq ≤ (final s evs).sendSeq := by
  induction evs generalizing s with
  | nil => simp [final, run_nil]
  | cons e es ih =>
    simp only [final, run_cons]
    have := ih (step s e).1
    rcases step_sendSeq s e with ⟨hs, _⟩ | ⟨_, hs, _⟩ <;> simp only [final] at this <;> omega

/-- Non-vacuity: a concrete history with two senders, a replay, a forged frame,
an unknown sender and an inner-APDU failure. -/
example :
    trace ⟨[(0x1101, 5), (0x1102, 9)], 100⟩
      [ .recv ⟨true, true, true, true, false, 0x1101, 7, .ok [], true⟩,     -- fresh: delivered
        .recv ⟨true, true, true, true, false, 0x1101, 7, .ok [], true⟩,     -- replay: rejected
        .recv ⟨true, true, true, true, false, 0x1102, 50, .error .mac, true⟩, -- forged: rejected, no change
        .recv ⟨true, true, true, true, false, 0x1103, 60, .ok [], true⟩,    -- unknown sender
        .recv ⟨true, true, true, true, false, 0x1102, 10, .ok [], false⟩,   -- authentic but malformed inside
        .recv ⟨true, true, true, true, false, 0x1102, 10, .ok [], true⟩,    -- its number is used up
        .send true true ]
    = [.delivered 0x1101 7, .rejected .seqTooLow, .rejected .mac, .rejected .unknownSender,
       .rejected .inner, .rejected .seqTooLow, .sent 100] := by decide

/-! ### Round 2: through `CEMIHandler.send_telegram`, with the interface's verdict

Histories of `TEv`: received frames, direct `outgoing_cemi` calls and
`send_telegram` calls whose hand-over to `knxip_interface.send_cemi` ends in
success, `CommunicationError`, `ConversionError` or a missing confirmation. -/

abbrev ttrace (s : St) (evs : List TEv) : List TObs := (run tstep s evs).2
abbrev tfinal (s : St) (evs : List TEv) : St := (run tstep s evs).1

theorem erase_append (a b : List TObs) : TObs.erase (a ++ b) = TObs.erase a ++ TObs.erase b := by
  induction a with
  | nil => rfl
  | cons x t ih => cases x <;> simp [TObs.erase, ih]

theorem erase_map_base (l : List Obs) : TObs.erase (l.map .base) = l := by
  induction l with
  | nil => rfl
  | cons x t ih => simp [TObs.erase, ih]

/-- One `send_telegram` layer step is the `DataSecure` step of its projection; the verdict
adds an observation and nothing else. -/
theorem tstep_proj (s : St) (e : TEv) :
    (tstep s e).1 = (step s e.proj).1 ∧ TObs.erase (tstep s e).2 = (step s e.proj).2 := by
  cases e with
  | base e => exact ⟨rfl, erase_map_base _⟩
  | transmit g k res =>
    refine ⟨rfl, ?_⟩
    simp only [tstep, TEv.proj, erase_append, erase_map_base]
    split <;> simp [TObs.erase]

/-- **Simulation.** Every history through `send_telegram` is, for the Data Secure state
and for everything handed over / delivered, the history of its projection. -/
theorem trun_proj (evs : List TEv) (s : St) :
    tfinal s evs = final s (evs.map TEv.proj) ∧ TObs.erase (ttrace s evs) = trace s (evs.map TEv.proj) := by
  induction evs generalizing s with
  | nil => exact ⟨rfl, rfl⟩
  | cons e es ih =>
    obtain ⟨h1, h2⟩ := tstep_proj s e
    obtain ⟨i1, i2⟩ := ih (step s e.proj).1
    simp only [tfinal, ttrace, final, trace, List.map_cons, run_cons, erase_append] at i1 i2 ⊢
    rw [h1, h2]
    exact ⟨i1, by rw [i2]⟩

/-- **The interface's verdict never touches the counter**: whatever `send_cemi` did with the
frame, the state after `send_telegram` is the state after `outgoing_cemi`. -/
theorem verdict_irrelevant (s : St) (g k : Bool) (res res' : IfRes) :
    (tstep s (.transmit g k res)).1 = (tstep s (.transmit g k res')).1
      ∧ (tstep s (.transmit g k res)).1 = (step s (.send g k)).1 := ⟨rfl, rfl⟩

/-- A secured frame handed to the interface uses its number up, also when the hand-over fails. -/
theorem failed_send_burns_number (s : St) (res : IfRes) (h : s.sendSeq ≤ sequenceNumberMax) :
    (tstep s (.transmit true true res)).1.sendSeq = s.sendSeq + 1
      ∧ TObs.erase (tstep s (.transmit true true res)).2 = [.sent s.sendSeq] := by
  obtain ⟨h1, h2⟩ := tstep_proj s (.transmit true true res)
  rw [h1, h2]
  have hgt : ¬ s.sendSeq > sequenceNumberMax := by omega
  simp [TEv.proj, step, getSeq, hgt]

/-- **Handed-over sequence numbers are strictly increasing over every history**, including
failed sends, interleaved receptions and direct `outgoing_cemi` calls. -/
theorem handed_strictly_increasing (s : St) (evs : List TEv) :
    (TObs.erase (ttrace s evs)).Pairwise fun x y => ∀ a b, x = Obs.sent a → y = Obs.sent b → a < b := by
  rw [(trun_proj evs s).2]
  exact sent_strictly_increasing s _

theorem handed_within_48_bit (s : St) (evs : List TEv) (q : Nat)
    (h : Obs.sent q ∈ TObs.erase (ttrace s evs)) : q < 2 ^ 48 ∧ s.sendSeq ≤ q := by
  rw [(trun_proj evs s).2] at h
  exact sent_within_48_bit s _ q h

/-- **The sending counter never decreases over any history, failed sends included.** -/
theorem counter_never_decreases (s : St) (evs : List TEv) : s.sendSeq ≤ (tfinal s evs).sendSeq := by
  rw [(trun_proj evs s).1]
  exact sendSeq_monotone s _

/-- … in particular not between any two points of a history. -/
theorem counter_monotone_along (s : St) (evs evs' : List TEv) :
    (tfinal s evs).sendSeq ≤ (tfinal s (evs ++ evs')).sendSeq := by
  simp only [tfinal, run_append]
  exact counter_never_decreases _ evs'

/-- Receiving side unchanged by the layer: deliveries per sender stay strictly increasing. -/
theorem delivered_strictly_increasing_t (s : St) (evs : List TEv) :
    (TObs.erase (ttrace s evs)).Pairwise
      fun x y => ∀ src a b, x = Obs.delivered src a → y = Obs.delivered src b → a < b := by
  rw [(trun_proj evs s).2]
  exact delivered_strictly_increasing s _

/-- Non-vacuity: a CommunicationError, a ConversionError and a missing confirmation in a row,
then a success – four different numbers; a plain destination in between draws none. -/
example :
    ttrace ⟨[], 1000⟩ [.transmit true true .comm, .transmit true true .conv, .transmit true false .comm,
                        .transmit true true .noconf, .transmit true true .ok]
    = [.base (.sent 1000), .outcome .comm, .base (.sent 1001), .outcome .conv, .base .sentPlain, .outcome .comm,
       .base (.sent 1002), .outcome .noconf, .base (.sent 1003), .outcome .ok] := by decide

end XknxVerif.Props.C17
