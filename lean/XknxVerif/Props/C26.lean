/-
C26  Heartbeat gives up exactly after four consecutive failures.
Property theorems about `Model/Heartbeat.lean`:
 * for EVERY list of request outcomes (the automaton `step`), and
 * for EVERY trace the monitor `mstep?` accepts (timing, `on_failure`, end).
-/
import XknxVerif.Model.Heartbeat

namespace XknxVerif.Props.C26
open XknxVerif.Heartbeat XknxVerif.Automata XknxVerif.Monitor
open XknxVerif.Generated.TunnelConst

/-! ### specification vocabulary (independent of `step`) -/

def isFail : Outcome → Bool
  | .fail _ => true
  | _ => false

/-- number of consecutive failed outcomes at the end of a history -/
def trailingFails (os : List Outcome) : Nat := (os.reverse.takeWhile isFail).length

/-- A history that does not end the heartbeat: only successes and failures,
and never more than three failures in a row. -/
def Alive (os : List Outcome) : Prop :=
  (∀ o ∈ os, o = .ok ∨ isFail o = true) ∧ ∀ pre, pre <+: os → trailingFails pre ≤ 3

/-- `o`, arriving after the live history `pre`, makes the heartbeat give up:
it raises, or it is the fourth failure in a row. -/
def GivesUp (pre : List Outcome) (o : Outcome) : Prop :=
  o = .raise ∨ (isFail o = true ∧ trailingFails pre = 3)

def nFailure (out : List Out) : Nat := out.count .failure
def nRequests (out : List Out) : Nat := out.countP fun | .request _ => true | _ => false

abbrev runO (os : List Outcome) := run step (.run 0) os

theorem trailingFails_snoc (os : List Outcome) (o : Outcome) :
    trailingFails (os ++ [o]) = if isFail o then trailingFails os + 1 else 0 := by
  unfold trailingFails
  rw [List.reverse_append]
  simp only [List.reverse_cons, List.reverse_nil, List.nil_append, List.cons_append,
    List.takeWhile_cons]
  split <;> simp

theorem trailingFails_nil : trailingFails [] = 0 := rfl

theorem alive_nil : Alive [] := by
  refine ⟨by simp, ?_⟩
  intro pre h
  rw [List.prefix_nil] at h
  subst h; simp [trailingFails_nil]

theorem alive_of_snoc {os : List Outcome} {o : Outcome} (h : Alive (os ++ [o])) : Alive os :=
  ⟨fun x hx => h.1 x (List.mem_append_left _ hx),
   fun pre hp => h.2 pre (hp.trans (List.prefix_append _ _))⟩

theorem alive_snoc {os : List Outcome} {o : Outcome} (h : Alive os)
    (ho : o = .ok ∨ (isFail o = true ∧ trailingFails os < 3)) : Alive (os ++ [o]) := by
  refine ⟨?_, ?_⟩
  · intro x hx
    rcases List.mem_append.mp hx with hx | hx
    · exact h.1 x hx
    · simp only [List.mem_singleton] at hx; subst hx
      rcases ho with rfl | ⟨hf, _⟩
      · exact .inl rfl
      · exact .inr hf
  · intro pre hp
    rcases List.prefix_concat_iff.mp hp with rfl | hp
    · rw [trailingFails_snoc]
      rcases ho with rfl | ⟨hf, hlt⟩
      · simp [isFail]
      · simp only [hf, if_true]; omega
    · exact h.2 pre hp

/-! ### the automaton over outcome lists -/

theorem run_lost (os : List Outcome) : run step .lost os = (.lost, []) := by
  induction os with
  | nil => rfl
  | cons o os ih => rw [run_cons]; simp [step, ih]

theorem run_gone (os : List Outcome) : run step .gone os = (.gone, []) := by
  induction os with
  | nil => rfl
  | cons o os ih => rw [run_cons]; simp [step, ih]

theorem run_snoc (p : Phase) (os : List Outcome) (o : Outcome) :
    run step p (os ++ [o]) =
      ((step (run step p os).1 o).1, (run step p os).2 ++ (step (run step p os).1 o).2) := by
  rw [run_append, run_cons, run_nil]; simp

/-- **While the history is live** the heartbeat is running, has sent exactly one
request per outcome and nothing else, and its retry count is the number of
trailing failures — so *a success resets the count*. -/
theorem alive_run (os : List Outcome) (h : Alive os) :
    (runO os).1 = .run (trailingFails os) ∧ nFailure (runO os).2 = 0 ∧
      (runO os).2.count .stop = 0 ∧ nRequests (runO os).2 = os.length := by
  induction os using snoc_induction with
  | nil => simp [runO, run_nil, trailingFails_nil, nFailure, nRequests]
  | snoc os o ih =>
    obtain ⟨hp, hf, hs, hr⟩ := ih (alive_of_snoc h)
    have hk : trailingFails (os ++ [o]) ≤ 3 := h.2 _ (List.prefix_refl _)
    have ho : o = .ok ∨ isFail o = true := h.1 o (by simp)
    simp only [runO] at hp hf hs hr ⊢
    rw [run_snoc, hp]
    rw [trailingFails_snoc] at hk ⊢
    rcases ho with rfl | hfail
    · simp [step, isFail, nFailure, nRequests, List.count_append, List.countP_append] at *
      exact ⟨hf, hs, hr⟩
    · cases o with
      | fail st =>
        simp only [isFail, if_true] at hk ⊢
        have : trailingFails os < retries := by simp [retries]; omega
        simp [step, this, nFailure, nRequests, List.count_append, List.countP_append] at *
        exact ⟨hf, hs, hr⟩
      | _ => simp [isFail] at hfail

/-- **Exactly when**: after a live history `pre`, an outcome that gives up
(a raise, or the fourth consecutive failure) is requested once more, then
`on_failure` is awaited — once — and whatever would follow is never requested. -/
theorem gives_up (pre post : List Outcome) (o : Outcome) (h : Alive pre) (hg : GivesUp pre o) :
    (runO (pre ++ o :: post)).1 = .lost ∧
      (runO (pre ++ o :: post)).2
        = (runO pre).2 ++ [.request (trailingFails pre == 0), .failure] := by
  obtain ⟨hp, -⟩ := alive_run pre h
  simp only [runO] at hp ⊢
  rw [run_append, run_cons, hp]
  rcases hg with rfl | ⟨hf, h3⟩
  · simp [step, run_lost]
  · cases o with
    | fail st => simp [step, h3, retries, run_lost]
    | _ => simp [isFail] at hf

/-- **`none` stops silently**: after a live history, a `None` outcome ends the
heartbeat without `on_failure`; nothing that follows is requested. -/
theorem gone_stops (pre post : List Outcome) (h : Alive pre) :
    (runO (pre ++ .gone :: post)).1 = .gone ∧
      (runO (pre ++ .gone :: post)).2
        = (runO pre).2 ++ [.request (trailingFails pre == 0), .stop] := by
  obtain ⟨hp, -⟩ := alive_run pre h
  simp only [runO] at hp ⊢
  rw [run_append, run_cons, hp]
  simp [step, run_gone]

/-- Every outcome list is live, or has a first outcome that ends the heartbeat. -/
theorem alive_or_ends (os : List Outcome) :
    Alive os ∨ ∃ pre o post, os = pre ++ o :: post ∧ Alive pre ∧ (o = .gone ∨ GivesUp pre o) := by
  induction os using snoc_induction with
  | nil => exact .inl alive_nil
  | snoc os a ih =>
    rcases ih with h | ⟨pre, o, post, rfl, hpre, ho⟩
    · have hk : trailingFails os ≤ 3 := h.2 _ (List.prefix_refl _)
      cases a with
      | ok => exact .inl (alive_snoc h (.inl rfl))
      | gone => exact .inr ⟨os, .gone, [], rfl, h, .inl rfl⟩
      | raise => exact .inr ⟨os, .raise, [], rfl, h, .inr (.inl rfl)⟩
      | fail st =>
        by_cases h3 : trailingFails os = 3
        · exact .inr ⟨os, .fail st, [], rfl, h, .inr (.inr ⟨rfl, h3⟩)⟩
        · exact .inl (alive_snoc h (.inr ⟨rfl, by omega⟩))
    · exact .inr ⟨pre, o, post ++ [a], by simp, hpre, ho⟩

/-- **At most once**, for every outcome list. -/
theorem failure_at_most_once (os : List Outcome) : nFailure (runO os).2 ≤ 1 := by
  rcases alive_or_ends os with h | ⟨pre, o, post, rfl, hpre, rfl | hg⟩
  · rw [(alive_run os h).2.1]; exact Nat.zero_le _
  · rw [(gone_stops pre post hpre).2]
    have := (alive_run pre hpre).2.1
    simp [nFailure, List.count_append] at this ⊢
    omega
  · rw [(gives_up pre post o hpre hg).2]
    have := (alive_run pre hpre).2.1
    simp [nFailure, List.count_append] at this ⊢
    omega

/-- **Exactly when**, for every outcome list: `on_failure` is awaited iff the
list contains, after a live prefix, a raise or a fourth consecutive failure. -/
theorem failure_iff (os : List Outcome) :
    nFailure (runO os).2 = 1 ↔
      ∃ pre o post, os = pre ++ o :: post ∧ Alive pre ∧ GivesUp pre o := by
  constructor
  · intro hf
    rcases alive_or_ends os with h | ⟨pre, o, post, rfl, hpre, rfl | hg⟩
    · rw [(alive_run os h).2.1] at hf; exact absurd hf (by decide)
    · rw [(gone_stops pre post hpre).2] at hf
      have := (alive_run pre hpre).2.1
      simp [nFailure, List.count_append] at this hf
      omega
    · exact ⟨pre, o, post, rfl, hpre, hg⟩
  · rintro ⟨pre, o, post, rfl, hpre, hg⟩
    rw [(gives_up pre post o hpre hg).2]
    have := (alive_run pre hpre).2.1
    simp [nFailure, List.count_append] at this ⊢
    omega

/-- The final phase says the same: lost iff it gave up. -/
theorem lost_iff (os : List Outcome) :
    (runO os).1 = .lost ↔ ∃ pre o post, os = pre ++ o :: post ∧ Alive pre ∧ GivesUp pre o := by
  constructor
  · intro hl
    rcases alive_or_ends os with h | ⟨pre, o, post, rfl, hpre, rfl | hg⟩
    · rw [(alive_run os h).1] at hl; exact absurd hl (by simp)
    · rw [(gone_stops pre post hpre).1] at hl; exact absurd hl (by simp)
    · exact ⟨pre, o, post, rfl, hpre, hg⟩
  · rintro ⟨pre, o, post, rfl, hpre, hg⟩
    exact (gives_up pre post o hpre hg).1

/-! ### every trace the monitor accepts -/

/-- the outcomes returned to the heartbeat, in order -/
def outcomes : List Obs → List Outcome
  | [] => []
  | .resp o _ :: tr => o :: outcomes tr
  | .start _ :: tr | .req _ :: tr | .failure _ :: tr | .ended _ :: tr | .crashed _ :: tr | .cut _ :: tr => outcomes tr

def isFailureObs : Obs → Bool
  | .failure _ => true
  | _ => false

/-- how often `on_failure` was awaited -/
def nFailureObs (tr : List Obs) : Nat := tr.countP isFailureObs

def mark (acc : Nat) : Obs → Nat
  | .start t | .req t | .resp _ t => t
  | _ => acc

/-- time of the last start / request / response (0 if none) -/
def lastMark (tr : List Obs) : Nat := tr.foldl mark 0

/-- `tr` is accepted from the initial monitor state, ending in `m` -/
abbrev Accepted (tr : List Obs) (m : M) : Prop := runM mstep? {} tr = some m

theorem outcomes_append (a b : List Obs) : outcomes (a ++ b) = outcomes a ++ outcomes b := by
  induction a with
  | nil => rfl
  | cons o a ih => cases o <;> simp [outcomes, ih]

theorem lastMark_snoc (tr : List Obs) (o : Obs) : lastMark (tr ++ [o]) = mark (lastMark tr) o := by
  simp [lastMark, List.foldl_append]

theorem nFailureObs_snoc (tr : List Obs) (o : Obs) :
    nFailureObs (tr ++ [o]) = nFailureObs tr + if isFailureObs o then 1 else 0 := by
  simp [nFailureObs, List.countP_append, List.countP_cons]

/-- What the monitor state knows about the trace so far. -/
def Inv (m : M) (h : List Obs) : Prop :=
  m.ph = (runO (outcomes h)).1 ∧ m.last = lastMark h ∧
    nFailureObs h = (if m.failed then 1 else 0) ∧ (m.failed = true → m.ph = .lost)

theorem inv_init : Inv {} [] := by
  simp [Inv, outcomes, runO, run_nil, lastMark, nFailureObs]

theorem inv_step (s : M) (h : List Obs) (e : Obs) (s' : M) (hi : Inv s h)
    (hs : mstep? s e = some s') : Inv s' (h ++ [e]) := by
  obtain ⟨hph, hlast, hcnt, hfl⟩ := hi
  unfold Inv
  rw [outcomes_append, lastMark_snoc, nFailureObs_snoc]
  cases e with
  | start t =>
    simp only [mstep?, Option.ite_none_right_eq_some, Option.some.injEq] at hs
    obtain ⟨-, rfl⟩ := hs
    exact ⟨by simpa [outcomes] using hph, rfl, by simpa [isFailureObs] using hcnt, hfl⟩
  | req t =>
    simp only [mstep?] at hs
    split at hs
    · simp only [Option.ite_none_right_eq_some, Option.some.injEq] at hs
      obtain ⟨-, rfl⟩ := hs
      exact ⟨by simpa [outcomes] using hph, rfl, by simpa [isFailureObs] using hcnt, hfl⟩
    · simp at hs
  | resp o t =>
    simp only [mstep?, Option.ite_none_right_eq_some, Option.some.injEq] at hs
    obtain ⟨-, rfl⟩ := hs
    refine ⟨?_, rfl, by simpa [isFailureObs] using hcnt, ?_⟩
    · simp only [outcomes, runO, run_snoc]; rw [← hph]
    · intro hf
      simp [hfl hf, step]
  | failure t =>
    simp only [mstep?, Option.ite_none_right_eq_some, Option.some.injEq] at hs
    obtain ⟨hc, rfl⟩ := hs
    simp only [Bool.and_eq_true, decide_eq_true_eq, Bool.not_eq_true'] at hc
    refine ⟨by simpa [outcomes] using hph, by simpa [mark] using hlast, ?_, fun _ => hc.1.1.1⟩
    simp [isFailureObs, hcnt, hc.1.1.2]
  | ended t =>
    simp only [mstep?, Option.ite_none_right_eq_some, Option.some.injEq] at hs
    obtain ⟨-, rfl⟩ := hs
    exact ⟨by simpa [outcomes] using hph, by simpa [mark] using hlast,
      by simpa [isFailureObs] using hcnt, hfl⟩
  | crashed t =>
    simp only [mstep?, Option.ite_none_right_eq_some, Option.some.injEq] at hs
    obtain ⟨-, rfl⟩ := hs
    exact ⟨by simpa [outcomes] using hph, by simpa [mark] using hlast,
      by simpa [isFailureObs] using hcnt, hfl⟩
  | cut t =>
    simp only [mstep?] at hs
    split at hs
    · simp only [Option.ite_none_right_eq_some, Option.some.injEq] at hs
      obtain ⟨-, rfl⟩ := hs
      exact ⟨by simpa [outcomes] using hph, by simpa [mark] using hlast,
        by simpa [isFailureObs] using hcnt, hfl⟩
    · simp at hs

theorem accepted_inv (tr : List Obs) (m : M) (h : Accepted tr m) : Inv m tr := by
  have := inv_runM_hist mstep? Inv inv_step tr {} m [] inv_init h
  simpa using this

/-- **Once**: in every accepted trace `on_failure` is awaited at most once. -/
theorem mon_failure_at_most_once (tr : List Obs) (m : M) (h : Accepted tr m) :
    nFailureObs tr ≤ 1 := by
  obtain ⟨-, -, hc, -⟩ := accepted_inv tr m h
  rw [hc]; split <;> omega

/-- **Only when**: if `on_failure` was awaited, the outcomes returned so far
contain, after a live prefix, a raise or a fourth consecutive failure. -/
theorem mon_failure_only_after_giving_up (tr : List Obs) (m : M) (h : Accepted tr m)
    (hf : 0 < nFailureObs tr) :
    ∃ pre o post, outcomes tr = pre ++ o :: post ∧ Alive pre ∧ GivesUp pre o := by
  obtain ⟨hph, -, hc, hfl⟩ := accepted_inv tr m h
  have : m.failed = true := by
    cases hm : m.failed with
    | true => rfl
    | false => rw [hm] at hc; simp at hc; omega
  exact (lost_iff _).mp (hph ▸ hfl this)

/-- **Always when**: a heartbeat task that has ended by itself awaited
`on_failure` exactly if the outcomes gave up — and not at all otherwise
(in particular not after a `None`: it stops silently). -/
theorem mon_ended_failure_iff (tr : List Obs) (t : Nat) (m : M)
    (h : Accepted (tr ++ [.ended t]) m) :
    nFailureObs tr = 1 ↔
      ∃ pre o post, outcomes tr = pre ++ o :: post ∧ Alive pre ∧ GivesUp pre o := by
  obtain ⟨m', h1, h2⟩ := runM_snoc mstep? {} m tr (.ended t) h
  obtain ⟨hph, -, hc, hfl⟩ := accepted_inv tr m' h1
  constructor
  · intro hf
    exact mon_failure_only_after_giving_up tr m' h1 (by omega)
  · intro hg
    have hl : m'.ph = .lost := hph ▸ (lost_iff _).mpr hg
    simp only [mstep?] at h2
    split at h2
    · rename_i hcnd
      simp only [hl, Bool.and_eq_true, Bool.or_eq_true, decide_eq_true_eq, reduceCtorEq,
        false_or, true_and] at hcnd
      rw [hc, hcnd.2]; rfl
    · simp at h2

/-- **An exception of `on_failure` never leads to a second declaration**: a task
that ended with the exception its `on_failure` raised had started `on_failure`
exactly once, after outcomes that gave up; and nothing is accepted afterwards. -/
theorem mon_crashed_after_one_failure (tr : List Obs) (t : Nat) (m : M)
    (h : Accepted (tr ++ [.crashed t]) m) :
    nFailureObs tr = 1 ∧ nFailureObs (tr ++ [.crashed t]) = 1 ∧
      ∃ pre o post, outcomes tr = pre ++ o :: post ∧ Alive pre ∧ GivesUp pre o := by
  obtain ⟨m', h1, h2⟩ := runM_snoc mstep? {} m tr (.crashed t) h
  obtain ⟨hph, -, hc, hfl⟩ := accepted_inv tr m' h1
  simp only [mstep?, Option.ite_none_right_eq_some, Option.some.injEq, Bool.and_eq_true,
    decide_eq_true_eq] at h2
  have hf : m'.failed = true := h2.1.2
  have h1' : nFailureObs tr = 1 := by rw [hc, hf]; rfl
  refine ⟨h1', by rw [nFailureObs_snoc, h1']; rfl, ?_⟩
  exact mon_failure_only_after_giving_up tr m' h1 (by omega)

/-- Once the task has ended (by itself or with `on_failure`'s exception) nothing
more is accepted: no request, no further `on_failure`. -/
theorem mon_nothing_after_end (m : M) (hc : m.closed = true) (e : Obs) : mstep? m e = none ∨ ∃ t, e = .start t := by
  cases e with
  | start t => exact .inr ⟨t, rfl⟩
  | req t => left; simp only [mstep?]; split <;> simp [hc]
  | resp o t => left; simp [mstep?, hc]
  | failure t => left; simp [mstep?, hc]
  | ended t => left; simp [mstep?, hc]
  | crashed t => left; simp [mstep?, hc]
  | cut t => left; simp only [mstep?]; split <;> simp [hc]

/-- `None` ends the heartbeat silently. -/
theorem mon_gone_silent (tr : List Obs) (m : M) (h : Accepted tr m)
    (hg : (runO (outcomes tr)).1 = .gone) : nFailureObs tr = 0 := by
  obtain ⟨hph, -, hc, hfl⟩ := accepted_inv tr m h
  cases hm : m.failed with
  | false => rw [hc, hm]; rfl
  | true => have := hfl hm; rw [hph, hg] at this; exact absurd this (by simp)

/-- **Every heartbeat period**: whenever a request is observed, the heartbeat is
still running (no request after giving up or after `None`); if the last outcome
was a success (or there is none yet) the request comes exactly HEARTBEAT_RATE
after the start / that response; a repetition comes no earlier than the failed
response. -/
theorem mon_request_timing (pre : List Obs) (t : Nat) (m : M)
    (h : Accepted (pre ++ [.req t]) m) :
    Alive (outcomes pre) ∧
      (trailingFails (outcomes pre) = 0 → t = lastMark pre + heartbeatRate) ∧
      (trailingFails (outcomes pre) ≠ 0 → lastMark pre ≤ t) := by
  obtain ⟨m', h1, h2⟩ := runM_snoc mstep? {} m pre (.req t) h
  obtain ⟨hph, hlast, -, -⟩ := accepted_inv pre m' h1
  simp only [mstep?] at h2
  split at h2
  · rename_i k hk
    have halive : Alive (outcomes pre) := by
      rcases alive_or_ends (outcomes pre) with ha | ⟨p, o, q, he, hp, rfl | hg⟩
      · exact ha
      · rw [hph, he, (gone_stops p q hp).1] at hk; exact absurd hk (by simp)
      · rw [hph, he, (gives_up p q o hp hg).1] at hk; exact absurd hk (by simp)
    have hk' : k = trailingFails (outcomes pre) := by
      rw [hph, (alive_run _ halive).1] at hk
      exact (Phase.run.inj hk).symm
    simp only [Option.ite_none_right_eq_some, Option.some.injEq, Bool.and_eq_true,
      Bool.not_eq_true', decide_eq_true_eq] at h2
    obtain ⟨hc, -⟩ := h2
    refine ⟨halive, ?_, ?_⟩
    · intro h0
      have := hc.2
      rw [if_pos (by omega)] at this
      rw [← hlast]; simpa using this
    · intro h0
      have := hc.2
      rw [if_neg (by omega)] at this
      rw [← hlast]; simpa using this
  · simp at h2

/-! ### the declared constants -/

/-- With the declared period and request timeout, even a cycle of four timed-out
requests completes before the server's CONNECTION_ALIVE_TIME runs out. -/
theorem period_fits_alive_time :
    heartbeatRate + (retries + 1) * connectionstateRequestTimeout < connectionAliveTime := by
  decide

theorem period_positive : 0 < heartbeatRate := by decide

/-! ### non-vacuity -/

example : Alive [.ok, .fail 0, .fail 1, .fail 0, .ok, .fail 0] := by
  have h1 := alive_snoc alive_nil (o := .ok) (.inl rfl)
  have h2 := alive_snoc h1 (o := .fail 0) (.inr ⟨rfl, by decide⟩)
  have h3 := alive_snoc h2 (o := .fail 1) (.inr ⟨rfl, by decide⟩)
  have h4 := alive_snoc h3 (o := .fail 0) (.inr ⟨rfl, by decide⟩)
  have h5 := alive_snoc h4 (o := .ok) (.inl rfl)
  exact alive_snoc h5 (o := .fail 0) (.inr ⟨rfl, by decide⟩)
example : GivesUp [.ok, .fail 0, .fail 1, .fail 0] (.fail 2) := .inr (by decide)
example : runO [.fail 0, .fail 0, .fail 0, .ok, .fail 0, .fail 0, .fail 0, .fail 0, .ok]
    = (.lost, [.request true, .request false, .request false, .request false,
               .request true, .request false, .request false, .request false, .failure]) := by
  decide

end XknxVerif.Props.C26
