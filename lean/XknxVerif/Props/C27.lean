/-
C27  Routing honours busy flow control and the indication spacing.
Property theorems only; all are about EVERY trace the monitor `RoutingFlow.step?` accepts
(any number of busy frames, senders and schedules; unbounded length).
-/
import XknxVerif.Lemmas.RoutingFlow

namespace XknxVerif.Props.C27
open XknxVerif.RoutingFlow
open XknxVerif.Generated.RoutingConsts

/-! ### trace projections -/

def sendTimes : List Obs → List Nat
  | [] => []
  | .send t _ :: os => t :: sendTimes os
  | _ :: os => sendTimes os

def reqIds : List Obs → List Nat
  | [] => []
  | .req _ i :: os => i :: reqIds os
  | _ :: os => reqIds os

def sendIds : List Obs → List Nat
  | [] => []
  | .send _ i :: os => i :: sendIds os
  | _ :: os => sendIds os

def conIds : List Obs → List Nat
  | [] => []
  | .con _ i :: os => i :: conIds os
  | _ :: os => conIds os

/-- the observation is a busy frame that (re)started the pause timer -/
def isAppliedBusy : Obs → Bool
  | .busy _ _ _ _ true => true
  | _ => false

/-! ### (0) the constants the code declares are the ones of the KNX flow-control rules -/

/-- 20 ms spacing, 10 ms cooldown, 50 ms random factor, 100 ms slow-duration factor, 5 ms decrement
(regenerated from `xknx.io.routing` on every run). -/
theorem constants_match_spec :
    indWaitUs = 20000 ∧ coolUs = 10000 ∧ randUs = 50000 ∧ slowUs = 100000 ∧ decUs = 5000 := by
  decide

/-! ### (1) consecutive routing indications are at least 20 ms apart -/

theorem sends_spaced_from (tr : List Obs) (s s' : State) (h : runFrom s tr = some s') :
    (∀ t ∈ sendTimes tr, ∀ l, s.lastSent = some l → l + indWaitUs ≤ t) ∧
    List.Pairwise (fun a b => a + indWaitUs ≤ b) (sendTimes tr) := by
  induction tr generalizing s with
  | nil => simp [sendTimes]
  | cons o os ih =>
    obtain ⟨s1, h1, h2⟩ := runFrom_cons h
    obtain ⟨ih1, ih2⟩ := ih s1 h2
    obtain ⟨sa, hadv, hm⟩ := step_inv h1
    have hls := (advance_fields hadv).2.2.2.2.1
    cases o with
    | send t id =>
      obtain ⟨rt, -, -, hdue, rfl⟩ := hm
      simp only [sendTimes, List.mem_cons, forall_eq_or_imp, List.pairwise_cons]
      have hfirst : ∀ l, s.lastSent = some l → l + indWaitUs ≤ t := by
        intro l hl
        unfold due at hdue
        rw [hls, hl] at hdue
        simp only at hdue
        omega
      refine ⟨⟨hfirst, ?_⟩, ?_, ih2⟩
      · intro b hb l hl
        have := ih1 b hb t rfl
        have := hfirst l hl
        omega
      · intro b hb
        exact ih1 b hb t rfl
    | busy t w k nObs applied =>
      have : s1.lastSent = s.lastSent := by
        rcases hm with ⟨-, rfl⟩ | ⟨-, -, rfl⟩ <;> simp [startPause, hls]
      simp only [sendTimes]; rw [this] at ih1; exact ⟨ih1, ih2⟩
    | ready t =>
      obtain ⟨-, -, rfl⟩ := hm
      simp only [sendTimes]; simp only [hls] at ih1; exact ⟨ih1, ih2⟩
    | req t id =>
      obtain ⟨-, -, -, rfl⟩ := hm
      simp only [sendTimes]; simp only [hls] at ih1; exact ⟨ih1, ih2⟩
    | con t id =>
      obtain ⟨-, rfl⟩ := hm
      simp only [sendTimes]; simp only [hls] at ih1; exact ⟨ih1, ih2⟩
    | rx t => subst hm; simp only [sendTimes]; simp only [hls] at ih1; exact ⟨ih1, ih2⟩
    | fin t u =>
      obtain ⟨-, -, -, -, rfl⟩ := hm
      simp only [sendTimes]; simp only [hls] at ih1; exact ⟨ih1, ih2⟩

/-- (1) In every accepted trace any two routing indications (hence consecutive ones) are at least
`ROUTING_INDICATION_WAIT_TIME` = 20 ms apart — whatever the number of concurrent senders. -/
theorem sends_spaced (tr : List Obs) (h : accepts tr) :
    List.Pairwise (fun a b => a + 20000 ≤ b) (sendTimes tr) := by
  unfold accepts at h
  obtain ⟨s', hs'⟩ := Option.isSome_iff_exists.mp h
  have := (sends_spaced_from tr init s' hs').2
  rwa [constants_match_spec.1] at this

/-! ### (2) no routing indication during the pause set by a busy frame -/

/-- Ghost invariant while the pause set by a busy frame with end `E` is the current one. -/
def PauseInv (E : Nat) (s : State) : Prop :=
  (s.ready = false ∧ s.resumeAt = some E) ∨ (s.ready = true ∧ s.readySince = E)

theorem pauseInv_step (E : Nat) (s : State) (o : Obs) (s1 : State) (hc : Coherent s)
    (hp : PauseInv E s) (ho : isAppliedBusy o = false) (h : step? s o = some s1) : PauseInv E s1 := by
  obtain ⟨sa, hadv, hm⟩ := step_inv h
  obtain ⟨hnow, hr, hw, hres, -, -, -, -, hrs⟩ := advance_fields hadv
  have hpa : PauseInv E sa := by unfold PauseInv at hp ⊢; rw [hr, hres, hrs]; exact hp
  have hca : Coherent sa := coherent_advance hc hadv
  cases o with
  | busy t w k nObs applied =>
    rcases hm with ⟨ha, -⟩ | ⟨-, hws, rfl⟩
    · subst ha; simp [isAppliedBusy] at ho
    · -- a discarded busy frame can only arrive while the flag is already clear
      have hnr : sa.ready = false := by
        cases hr' : sa.ready with
        | false => rfl
        | true => have := hca.1.mp hr'; rw [this] at hws; cases hws
      rcases hpa with ⟨-, h2⟩ | ⟨h1, -⟩
      · exact Or.inl ⟨rfl, h2⟩
      · rw [hnr] at h1; cases h1
  | ready t =>
    obtain ⟨hres', hnr, rfl⟩ := hm
    rcases hpa with ⟨-, h2⟩ | ⟨h1, -⟩
    · rw [hres'] at h2; cases h2; exact Or.inr ⟨rfl, rfl⟩
    · rw [hnr] at h1; cases h1
  | req t id => obtain ⟨-, -, -, rfl⟩ := hm; exact hpa
  | send t id => obtain ⟨rt, -, -, -, rfl⟩ := hm; exact hpa
  | con t id => obtain ⟨-, rfl⟩ := hm; exact hpa
  | rx t => subst hm; exact hpa
  | fin t u => obtain ⟨-, -, -, -, rfl⟩ := hm; exact hpa

theorem pauseInv_run (E : Nat) (tr : List Obs) (s s' : State) (hc : Coherent s) (hp : PauseInv E s)
    (htr : ∀ o ∈ tr, isAppliedBusy o = false) (h : runFrom s tr = some s') : PauseInv E s' := by
  induction tr generalizing s with
  | nil => simp only [runFrom, Option.some.injEq] at h; exact h ▸ hp
  | cons o os ih =>
    obtain ⟨s1, h1, h2⟩ := runFrom_cons h
    exact ih s1 (coherent_step s o s1 hc h1)
      (pauseInv_step E s o s1 hc hp (htr o (by simp)) h1)
      (fun o' ho' => htr o' (by simp [ho'])) h2

/-- State right after an accepted busy frame that (re)started the pause timer. -/
theorem after_applied_busy (s s1 : State) (t w k n : Nat) (h : step? s (.busy t w k n true) = some s1) :
    PauseInv (pauseEnd t w k n) s1 := by
  obtain ⟨sa, -, hm⟩ := step_inv h
  rcases hm with ⟨-, rfl⟩ | ⟨hf, -⟩
  · exact Or.inl ⟨rfl, rfl⟩
  · cases hf

/-- (2) For every accepted trace: a routing indication sent after a busy frame `(t, w, r = k/1000)` that
set the current pause (no later busy frame restarted the timer; `n` = the busy counter) is not sent before
`t + w ms + r·n·50 ms`. -/
theorem no_send_in_pause (pre mid : List Obs) (t w k n ts id : Nat)
    (hacc : accepts (pre ++ [.busy t w k n true] ++ mid ++ [.send ts id]))
    (hmid : ∀ o ∈ mid, isAppliedBusy o = false) :
    t * 1000 + w * 1000000 + k * n * 50000 ≤ ts * 1000 + 999 ∧ pauseEnd t w k n ≤ ts := by
  unfold accepts at hacc
  obtain ⟨sf, hsf⟩ := Option.isSome_iff_exists.mp hacc
  obtain ⟨s3, h3, hsend⟩ := runFrom_append hsf
  obtain ⟨s2, h2, hmidrun⟩ := runFrom_append h3
  obtain ⟨s0, h0, hbusy⟩ := runFrom_append h2
  obtain ⟨s1, hb, hnil⟩ := runFrom_cons hbusy
  simp only [runFrom, Option.some.injEq] at hnil
  subst hnil
  have hc0 : Coherent s0 := coherent_run h0 coherent_init
  have hc1 : Coherent s1 := coherent_step _ _ _ hc0 hb
  have hp3 : PauseInv (pauseEnd t w k n) s3 :=
    pauseInv_run _ mid s1 s3 hc1 (after_applied_busy s0 s1 t w k n hb) hmid hmidrun
  have hc3 : Coherent s3 := coherent_run hmidrun hc1
  obtain ⟨s4, hs4, -⟩ := runFrom_cons hsend
  obtain ⟨sa, hadv, rt, -, hready, -, -⟩ := step_inv hs4
  obtain ⟨hnow, hr, -, -, -, -, -, -, -⟩ := advance_fields hadv
  have hle := (advance_spec hadv).1
  simp only [Obs.time] at hnow hle
  have hE : pauseEnd t w k n ≤ ts := by
    rcases hp3 with ⟨h1, -⟩ | ⟨-, h2⟩
    · rw [hr, h1] at hready; cases hready
    · have := hc3.2.2; omega
  refine ⟨?_, hE⟩
  unfold pauseEnd at hE
  rw [constants_match_spec.2.2.1] at hE
  omega

/-! ### (3) sending resumes exactly when the pause is over -/

/-- Callers queue in the order of their calls, none from the future. -/
def QueueOrdered (s : State) : Prop :=
  List.Pairwise (fun a b => a.2 ≤ b.2) s.queue ∧ ∀ x ∈ s.queue, x.2 ≤ s.now

/-- While the flag is set, the oldest caller is not overdue. -/
def Prompt (s : State) : Prop :=
  s.ready = true → ∀ hd, s.queue.head? = some hd → s.now ≤ max (due s hd.2) s.readySince

theorem due_mono (s : State) {a b : Nat} (h : a ≤ b) : due s a ≤ due s b := by
  unfold due; split <;> omega

theorem le_due (s : State) (a : Nat) : a ≤ due s a := by
  unfold due; split <;> omega

theorem queueOrdered_step (s : State) (o : Obs) (s1 : State) (hq : QueueOrdered s)
    (h : step? s o = some s1) : QueueOrdered s1 := by
  obtain ⟨sa, hadv, hm⟩ := step_inv h
  obtain ⟨hnow, -, -, -, -, hqu, -, -, -⟩ := advance_fields hadv
  have hle := (advance_spec hadv).1
  have hqa : QueueOrdered sa := by
    unfold QueueOrdered at hq ⊢; rw [hqu, hnow]
    exact ⟨hq.1, fun x hx => Nat.le_trans (hq.2 x hx) hle⟩
  cases o with
  | busy t w k nObs applied =>
    rcases hm with ⟨-, rfl⟩ | ⟨-, -, rfl⟩ <;> exact hqa
  | ready t => obtain ⟨-, -, rfl⟩ := hm; exact hqa
  | req t id =>
    obtain ⟨-, -, -, rfl⟩ := hm
    simp only [Obs.time] at hnow
    refine ⟨?_, ?_⟩
    · simp only [List.pairwise_append, List.pairwise_cons, List.not_mem_nil, false_imp_iff,
        implies_true, List.Pairwise.nil, and_self, List.mem_cons, or_false, forall_eq, true_and]
      exact ⟨hqa.1, fun a ha => by have := hqa.2 a ha; omega⟩
    · intro x hx
      simp only [List.mem_append, List.mem_cons, List.not_mem_nil, or_false] at hx
      rcases hx with hx | rfl
      · exact hqa.2 x hx
      · simp only; omega
  | send t id =>
    obtain ⟨rt, -, -, -, rfl⟩ := hm
    exact ⟨hqa.1.filter _, fun x hx => hqa.2 x (List.mem_filter.mp hx).1⟩
  | con t id => obtain ⟨-, rfl⟩ := hm; exact hqa
  | rx t => subst hm; exact hqa
  | fin t u => obtain ⟨-, -, -, -, rfl⟩ := hm; exact hqa

theorem prompt_step (s : State) (o : Obs) (s1 : State) (hp : Prompt s) (h : step? s o = some s1) :
    Prompt s1 := by
  obtain ⟨sa, hadv, hm⟩ := step_inv h
  obtain ⟨hnow, hr, -, -, hls, hqu, -, -, hrs⟩ := advance_fields hadv
  obtain ⟨hle, -, hover, -⟩ := advance_spec hadv
  have hpa : Prompt sa := by
    intro hra hd hhd
    rw [hr] at hra; rw [hqu] at hhd
    have h1 := hover hd hhd hra
    have h2 := hp hra hd hhd
    rw [hnow, due_advance hadv, hrs]
    omega
  cases o with
  | busy t w k nObs applied =>
    rcases hm with ⟨-, rfl⟩ | ⟨-, -, rfl⟩ <;> (intro hra; cases hra)
  | ready t =>
    obtain ⟨-, -, rfl⟩ := hm
    simp only [Obs.time] at hnow
    intro _ hd _
    simp only [hnow]; omega
  | req t id =>
    obtain ⟨-, -, -, rfl⟩ := hm
    simp only [Obs.time] at hnow
    intro hra hd hhd
    cases hq : sa.queue with
    | nil =>
      simp only [hq, List.nil_append, List.head?_cons, Option.some.injEq] at hhd
      subst hhd
      have := le_due sa t
      simp only [due] at this ⊢
      simp only [hnow]; omega
    | cons x xs =>
      simp only [hq, List.cons_append, List.head?_cons, Option.some.injEq] at hhd
      exact hpa hra hd (by rw [hq]; simpa using hhd)
  | send t id =>
    obtain ⟨rt, -, -, -, rfl⟩ := hm
    simp only [Obs.time] at hnow
    intro _ hd _
    simp only [due, hnow]; omega
  | con t id => obtain ⟨-, rfl⟩ := hm; exact hpa
  | rx t => subst hm; exact hpa
  | fin t u => obtain ⟨-, -, -, -, rfl⟩ := hm; exact hpa

theorem lookup_mem {q : List (Nat × Nat)} {id rt : Nat} (h : q.lookup id = some rt) : (id, rt) ∈ q := by
  induction q with
  | nil => simp [List.lookup] at h
  | cons x xs ih =>
    obtain ⟨a, b⟩ := x
    simp only [List.lookup] at h
    split at h
    · rename_i heq
      simp only [beq_iff_eq] at heq
      simp only [Option.some.injEq] at h
      subst heq; subst h; simp
    · exact List.mem_cons_of_mem _ (ih h)

/-- (3) Every routing indication of an accepted trace leaves at exactly
`max (spacing target of the oldest waiting caller, end of the last pause)`:
it is neither early (spacing, pause) nor late. -/
theorem send_time_exact (pre : List Obs) (ts id : Nat) (s : State)
    (hpre : runFrom init pre = some s) (hs : (step? s (.send ts id)).isSome) :
    ∃ hd, s.queue.head? = some hd ∧ ts = max (due s hd.2) s.readySince := by
  obtain ⟨s1, hs1⟩ := Option.isSome_iff_exists.mp hs
  have hq : QueueOrdered s := runFrom_inv QueueOrdered
    (fun s o s1 hP h => queueOrdered_step s o s1 hP h) hpre
    (by simp [QueueOrdered, init])
  have hp : Prompt s := runFrom_inv Prompt (fun s o s1 hP h => prompt_step s o s1 hP h) hpre
    (by intro _ hd hhd; simp [init] at hhd)
  have hc : Coherent s := coherent_run hpre coherent_init
  obtain ⟨sa, hadv, rt, hl, hready, hdue, -⟩ := step_inv hs1
  obtain ⟨hnow, hr, -, -, -, hqu, -, -, -⟩ := advance_fields hadv
  obtain ⟨hle, -, hover, -⟩ := advance_spec hadv
  simp only [Obs.time] at hnow hle hover
  rw [hqu] at hl
  have hmem := lookup_mem hl
  cases hqq : s.queue with
  | nil => rw [hqq] at hmem; cases hmem
  | cons hd tl =>
    refine ⟨hd, rfl, ?_⟩
    rw [hr] at hready
    have h1 := hover hd (by rw [hqq]; rfl) hready
    have h2 := hp hready hd (by rw [hqq]; rfl)
    have h3 : hd.2 ≤ rt := by
      have hq1 := hq.1
      rw [hqq] at hmem hq1
      rcases List.mem_cons.mp hmem with h | h
      · rw [← h]; exact Nat.le_refl _
      · have := (List.pairwise_cons.mp hq1).1 _ h; exact this
    have h4 := due_mono s h3
    rw [due_advance hadv] at hdue
    have h5 := hc.2.2
    omega

/-- (3') A send requested during the pause is emitted at its end: if the oldest waiting caller's spacing
target is not later than the end of the pause set by the busy frame `(t, w, k, n)`, the next routing
indication leaves exactly at `t + w ms + r·n·50 ms`. -/
theorem send_after_pause_at_its_end (pre mid : List Obs) (t w k n ts id : Nat) (s : State)
    (hrun : runFrom init (pre ++ [.busy t w k n true] ++ mid) = some s)
    (hmid : ∀ o ∈ mid, isAppliedBusy o = false)
    (hs : (step? s (.send ts id)).isSome)
    (hwait : ∀ hd, s.queue.head? = some hd → due s hd.2 ≤ pauseEnd t w k n) :
    ts = pauseEnd t w k n := by
  obtain ⟨hd, hhd, hts⟩ := send_time_exact _ ts id s hrun hs
  obtain ⟨s2, h2, hmidrun⟩ := runFrom_append hrun
  obtain ⟨s0, h0, hbusy⟩ := runFrom_append h2
  obtain ⟨s1, hb, hnil⟩ := runFrom_cons hbusy
  simp only [runFrom, Option.some.injEq] at hnil
  subst hnil
  have hc1 : Coherent s1 := coherent_step _ _ _ (coherent_run h0 coherent_init) hb
  have hp : PauseInv (pauseEnd t w k n) s :=
    pauseInv_run _ mid s1 s hc1 (after_applied_busy s0 s1 t w k n hb) hmid hmidrun
  obtain ⟨s4, hs4⟩ := Option.isSome_iff_exists.mp hs
  obtain ⟨sa, hadv, rt, -, hready, -, -⟩ := step_inv hs4
  rw [(advance_fields hadv).2.1] at hready
  rcases hp with ⟨h1, -⟩ | ⟨-, h2⟩
  · rw [h1] at hready; cases hready
  · have := hwait hd hhd
    omega

/-! ### (4) every routed send produces exactly one local confirmation -/

def inFlight (s : State) (i : Nat) : Nat := (s.queue.map (·.1)).count i + s.unconf.count i + s.conf.count i
def sentCnt (s : State) (i : Nat) : Nat := s.unconf.count i + s.conf.count i

/-- No id is in two places or twice in one place. -/
def Uniq (s : State) : Prop := ∀ i, inFlight s i ≤ 1

theorem count_map_filter_ne (q : List (Nat × Nat)) (id i : Nat) :
    ((q.filter (·.1 != id)).map (·.1)).count i = if i = id then 0 else (q.map (·.1)).count i := by
  induction q with
  | nil => simp
  | cons x xs ih =>
    by_cases hx : x.1 = id
    · have : (x.1 != id) = false := by simp [hx]
      simp only [List.filter_cons, this, Bool.false_eq_true, ↓reduceIte, ih, List.map_cons, List.count_cons]
      split
      · rfl
      · rename_i hne
        have : (x.1 == i) = false := by simp only [beq_eq_false_iff_ne, ne_eq]; rw [hx]; exact fun h => hne h.symm
        simp [this]
    · have : (x.1 != id) = true := by simp [hx]
      simp only [List.filter_cons, this, ↓reduceIte, List.map_cons, List.count_cons, ih]
      split
      · rename_i he
        have : (x.1 == i) = false := by simp only [beq_eq_false_iff_ne, ne_eq]; rw [he]; exact hx
        simp [this]
      · rfl

theorem lookup_count_pos {q : List (Nat × Nat)} {id rt : Nat} (h : q.lookup id = some rt) :
    1 ≤ (q.map (·.1)).count id := by
  have := lookup_mem h
  exact List.count_pos_iff.mpr (List.mem_map.mpr ⟨(id, rt), this, rfl⟩)

/-- Book-keeping of one accepted observation. -/
theorem counts_step (s : State) (o : Obs) (s1 : State) (hu : Uniq s) (h : step? s o = some s1) (i : Nat) :
    Uniq s1 ∧
    inFlight s1 i = inFlight s i + (reqIds [o]).count i ∧
    sentCnt s1 i = sentCnt s i + (sendIds [o]).count i ∧
    s1.conf.count i = s.conf.count i + (conIds [o]).count i := by
  obtain ⟨sa, hadv, hm⟩ := step_inv h
  obtain ⟨-, -, -, -, -, hqu, hun, hco, -⟩ := advance_fields hadv
  have hua : Uniq sa := by intro j; have := hu j; simpa [inFlight, hqu, hun, hco] using this
  have e1 : ∀ j, inFlight sa j = inFlight s j := by intro j; simp [inFlight, hqu, hun, hco]
  have e2 : sentCnt sa i = sentCnt s i := by simp [sentCnt, hun, hco]
  rw [← e1 i, ← e2, ← hco]
  cases o with
  | busy t w k nObs applied =>
    rcases hm with ⟨-, rfl⟩ | ⟨-, -, rfl⟩ <;>
      exact ⟨hua, by simp [inFlight, startPause, reqIds], by simp [sentCnt, startPause, sendIds],
        by simp [startPause, conIds]⟩
  | ready t =>
    obtain ⟨-, -, rfl⟩ := hm
    exact ⟨hua, by simp [inFlight, reqIds], by simp [sentCnt, sendIds], by simp [conIds]⟩
  | req t id =>
    obtain ⟨hn1, hn2, hn3, rfl⟩ := hm
    have hz : inFlight sa id = 0 := by
      simp only [inFlight, List.count_eq_zero.mpr hn1, List.count_eq_zero.mpr hn2,
        List.count_eq_zero.mpr hn3]
    refine ⟨?_, ?_, by simp [sentCnt, sendIds], by simp [conIds]⟩
    · intro j
      have := hua j
      simp only [inFlight, List.map_append, List.map_cons, List.map_nil, List.count_append,
        List.count_cons, List.count_nil] at this hz ⊢
      by_cases hj : id = j
      · subst hj; simp only [beq_self_eq_true, ↓reduceIte]; omega
      · have : (id == j) = false := by simpa using hj
        simp only [this, Bool.false_eq_true, ↓reduceIte]; omega
    · simp only [inFlight, List.map_append, List.map_cons, List.map_nil, List.count_append,
        List.count_cons, List.count_nil, reqIds]
      omega
  | send t id =>
    obtain ⟨rt, hl, -, -, rfl⟩ := hm
    have hpos := lookup_count_pos hl
    have hone := hua id
    simp only [inFlight] at hone
    refine ⟨?_, ?_, ?_, by simp [conIds]⟩
    · intro j
      have := hua j
      simp only [inFlight, count_map_filter_ne, List.count_cons] at this ⊢
      by_cases hj : j = id
      · subst hj; simp only [↓reduceIte, beq_self_eq_true]; omega
      · have h2 : (id == j) = false := by simp only [beq_eq_false_iff_ne, ne_eq]; exact fun h => hj h.symm
        simp only [hj, ↓reduceIte, h2, Bool.false_eq_true]; omega
    · simp only [inFlight, count_map_filter_ne, List.count_cons, reqIds, List.count_nil]
      by_cases hj : i = id
      · subst hj; simp only [↓reduceIte, beq_self_eq_true]; omega
      · have h2 : (id == i) = false := by simp only [beq_eq_false_iff_ne, ne_eq]; exact fun h => hj h.symm
        simp only [hj, ↓reduceIte, h2, Bool.false_eq_true]; omega
    · simp only [sentCnt, List.count_cons, sendIds, List.count_nil]; omega
  | con t id =>
    obtain ⟨hmem, rfl⟩ := hm
    have hpos : 1 ≤ sa.unconf.count id := List.count_pos_iff.mpr hmem
    have hcnt : ∀ j, (sa.unconf.erase id).count j + (if j = id then 1 else 0) = sa.unconf.count j := by
      intro j
      rw [List.count_erase]
      by_cases hj : j = id
      · subst hj; simp only [beq_self_eq_true, ↓reduceIte]; omega
      · have : (id == j) = false := by simp only [beq_eq_false_iff_ne, ne_eq]; exact fun h => hj h.symm
        simp [hj, this]
    refine ⟨?_, ?_, ?_, ?_⟩
    · intro j
      have := hua j
      have hc := hcnt j
      simp only [inFlight, List.count_cons] at this ⊢
      by_cases hj : j = id
      · subst hj; simp only [↓reduceIte, beq_self_eq_true] at hc ⊢; omega
      · have h2 : (id == j) = false := by simp only [beq_eq_false_iff_ne, ne_eq]; exact fun h => hj h.symm
        simp only [hj, ↓reduceIte, h2, Bool.false_eq_true] at hc ⊢; omega
    · have hc := hcnt i
      simp only [inFlight, List.count_cons, reqIds, List.count_nil]
      by_cases hj : i = id
      · subst hj; simp only [↓reduceIte, beq_self_eq_true] at hc ⊢; omega
      · have h2 : (id == i) = false := by simp only [beq_eq_false_iff_ne, ne_eq]; exact fun h => hj h.symm
        simp only [hj, ↓reduceIte, h2, Bool.false_eq_true] at hc ⊢; omega
    · have hc := hcnt i
      simp only [sentCnt, List.count_cons, sendIds, List.count_nil]
      by_cases hj : i = id
      · subst hj; simp only [↓reduceIte, beq_self_eq_true] at hc ⊢; omega
      · have h2 : (id == i) = false := by simp only [beq_eq_false_iff_ne, ne_eq]; exact fun h => hj h.symm
        simp only [hj, ↓reduceIte, h2, Bool.false_eq_true] at hc ⊢; omega
    · simp only [List.count_cons, conIds, List.count_nil]; omega
  | rx t =>
    subst hm
    exact ⟨hua, by simp [reqIds], by simp [sendIds], by simp [conIds]⟩
  | fin t u =>
    obtain ⟨-, -, -, -, rfl⟩ := hm
    exact ⟨hua, by simp [reqIds], by simp [sendIds], by simp [conIds]⟩

theorem reqIds_cons (o : Obs) (os : List Obs) : reqIds (o :: os) = reqIds [o] ++ reqIds os := by
  cases o <;> simp [reqIds]
theorem sendIds_cons (o : Obs) (os : List Obs) : sendIds (o :: os) = sendIds [o] ++ sendIds os := by
  cases o <;> simp [sendIds]
theorem conIds_cons (o : Obs) (os : List Obs) : conIds (o :: os) = conIds [o] ++ conIds os := by
  cases o <;> simp [conIds]

theorem counts_run (tr : List Obs) (s s' : State) (hu : Uniq s) (h : runFrom s tr = some s') (i : Nat) :
    Uniq s' ∧
    inFlight s' i = inFlight s i + (reqIds tr).count i ∧
    sentCnt s' i = sentCnt s i + (sendIds tr).count i ∧
    s'.conf.count i = s.conf.count i + (conIds tr).count i := by
  induction tr generalizing s with
  | nil =>
    simp only [runFrom, Option.some.injEq] at h; subst h
    exact ⟨hu, by simp [reqIds], by simp [sendIds], by simp [conIds]⟩
  | cons o os ih =>
    obtain ⟨s1, h1, h2⟩ := runFrom_cons h
    obtain ⟨hu1, a1, a2, a3⟩ := counts_step s o s1 hu h1 i
    obtain ⟨hu', b1, b2, b3⟩ := ih s1 hu1 h2
    rw [reqIds_cons, sendIds_cons, conIds_cons]
    simp only [List.count_append]
    exact ⟨hu', by omega, by omega, by omega⟩

/-- (4) In every accepted complete run (it ends with `fin`: all sender tasks finished) each `send_cemi`
call produced exactly one routing indication and exactly one L_Data.con; none was produced for anything else. -/
theorem one_confirmation_per_send (tr : List Obs) (t : Nat) (h : accepts (tr ++ [.fin t 0])) (i : Nat) :
    (sendIds tr).count i = (reqIds tr).count i ∧ (conIds tr).count i = (sendIds tr).count i ∧
    (reqIds tr).count i ≤ 1 := by
  unfold accepts at h
  obtain ⟨sf, hsf⟩ := Option.isSome_iff_exists.mp h
  obtain ⟨s, hs, hfin⟩ := runFrom_append hsf
  obtain ⟨s1, hf, -⟩ := runFrom_cons hfin
  obtain ⟨sa, hadv, -, hq, hun, -, -⟩ := step_inv hf
  obtain ⟨-, -, -, -, -, hqu, hun', -, -⟩ := advance_fields hadv
  rw [hqu] at hq; rw [hun'] at hun
  have hu0 : Uniq init := by intro j; simp [inFlight, init]
  obtain ⟨hu, a1, a2, a3⟩ := counts_run tr init s hu0 hs i
  have := hu i
  simp only [inFlight, sentCnt, hq, hun, init, List.map_nil, List.count_nil] at a1 a2 a3 this
  omega

/-- (4') At any point of any accepted trace: never more confirmations than routing indications, never more
routing indications than calls, and no call id is served twice. -/
theorem confirmations_bounded (tr : List Obs) (h : accepts tr) (i : Nat) :
    (conIds tr).count i ≤ (sendIds tr).count i ∧ (sendIds tr).count i ≤ (reqIds tr).count i ∧
    (reqIds tr).count i ≤ 1 := by
  unfold accepts at h
  obtain ⟨s, hs⟩ := Option.isSome_iff_exists.mp h
  have hu0 : Uniq init := by intro j; simp [inFlight, init]
  obtain ⟨hu, a1, a2, a3⟩ := counts_run tr init s hu0 hs i
  have := hu i
  simp only [inFlight, sentCnt, init, List.map_nil, List.count_nil] at a1 a2 a3 this
  omega

/-! ### Non-vacuity: concrete accepted traces -/

/-- three concurrent senders: 0 ms, 20 ms, 40 ms -/
example : accepts [.req 0 0, .req 0 1, .req 0 2, .send 0 0, .con 0 0, .send 20000 1, .con 20000 1,
    .send 40000 2, .con 40000 2, .fin 40000 0] := by decide
/-- the pre-fix trace (20 ms, 20 ms) is rejected -/
example : ¬ accepts [.req 0 0, .req 0 1, .req 0 2, .send 0 0, .con 0 0, .send 20000 1, .con 20000 1,
    .send 20000 2] := by decide
/-- busy 100 ms, second busy inside the pause discarded but counted, third restarts the timer with N = 2,
r = 0.2: resume at 50 + 100 + 0.2·2·50 = 170 ms; the waiting senders go at 170 ms and 190 ms -/
example : accepts [.busy 0 100 500 0 true, .req 5000 1, .req 5000 0, .busy 30000 50 500 1 false,
    .busy 50000 100 200 2 true, .ready 170000, .send 170000 1, .con 170000 1, .send 190000 0, .con 190000 0,
    .fin 380000 0] := by decide
/-- a send inside the pause is rejected -/
example : ¬ accepts [.busy 0 100 500 0 true, .req 5000 1, .send 5000 1] := by decide
/-- a send right after a busy frame that arrived at the instant the previous pause ended is rejected -/
example : ¬ accepts [.busy 0 10 0 0 true, .req 1 4, .ready 10000, .busy 10000 19 500 0 true, .send 10000 4] := by
  decide

end XknxVerif.Props.C27
