/-
C30  Secure routing accepts only authenticated, timely frames.
Property theorems only.  The MAC verdicts are uninterpreted inputs; the uniform random delays are inputs
constrained to their `[min, max]` interval.  Trace statements hold for EVERY trace the monitor
`SecureTimer.step?` accepts.
-/
import XknxVerif.Lemmas.SecureTimer

namespace XknxVerif.Props.C30
open XknxVerif.SecureTimer
open XknxVerif.Generated.IPSecure

/-! ### (0) what the code declares -/

/-- `PLAIN_MULTICAST_SERVICES` is exactly the discovery and self-description services (search request /
response, their extended forms, description request / response), under the codes of `KNXIPServiceType`. -/
theorem plain_services_declared :
    (∀ v ∈ plainMulticast, v ∈ [0x0201, 0x0202, 0x0203, 0x0204, 0x020B, 0x020C]) ∧
    (∀ v ∈ [0x0201, 0x0202, 0x0203, 0x0204, 0x020B, 0x020C], v ∈ plainMulticast) ∧
    services.lookup "SEARCH_REQUEST" = some 0x0201 ∧ services.lookup "SEARCH_RESPONSE" = some 0x0202 ∧
    services.lookup "DESCRIPTION_REQUEST" = some 0x0203 ∧ services.lookup "DESCRIPTION_RESPONSE" = some 0x0204 ∧
    services.lookup "SEARCH_REQUEST_EXTENDED" = some 0x020B ∧ services.lookup "SEARCH_RESPONSE_EXTENDED" = some 0x020C ∧
    services.lookup "SECURE_WRAPPER" = some secureWrapper ∧ services.lookup "TIMER_NOTIFY" = some timerNotify ∧
    secureWrapper ∈ forbiddenWrapped := by
  decide

/-- the `SecureSequenceTimer` class constants are the ones of KNX 03.08.09 §2.2.2.3: 10 s periodic notify,
0.1 s update notify, synchronisation tolerance = 10 % of the latency tolerance -/
theorem timer_constants_match_spec :
    minDelayKeeperPeriodicMs = 10000 ∧ minDelayKeeperUpdateMs = 100 ∧ syncLatencyFraction = 10 := by
  decide

/-! ### (1) plain frames -/

/-- A plain frame is forwarded iff its service is a discovery / self-description service. -/
theorem plain_forward_iff (s : State) (svc : Nat) :
    rxPlain s svc = .fwd ↔ svc ∈ [0x0201, 0x0202, 0x0203, 0x0204, 0x020B, 0x020C] := by
  unfold rxPlain
  by_cases h : svc ∈ plainMulticast
  · simp only [List.contains_eq_mem, h, decide_true, ↓reduceIte, true_iff]
    exact plain_services_declared.1 svc h
  · simp only [List.contains_eq_mem, h, decide_false, Bool.false_eq_true, ↓reduceIte, reduceCtorEq, false_iff]
    exact fun hm => h (plain_services_declared.2.1 svc hm)

/-! ### (2) timer notifications are processed only when their MAC verifies -/

/-- A TimerNotify whose MAC does not verify changes nothing and reschedules nothing. -/
theorem notify_bad_mac_ignored (s : State) (timer : Nat) (own tagm : Bool) :
    rxNotify s timer own tagm false = (s, none) :=
  (rxNotify_spec s timer own tagm false).1 rfl

/-- The value `synchronize` adopts is taken from a TimerNotify only if that frame's MAC verifies (and it is
addressed to our request: our serial number, the request's tag). -/
theorem sync_reply_authenticated (s : State) (timer : Nat) (own tagm macOk : Bool)
    (h : (rxNotify s timer own tagm macOk).1.expected ≠ s.expected) :
    macOk = true ∧ own = true ∧ tagm = true :=
  let ⟨a, b, c, _, _⟩ := (rxNotify_spec s timer own tagm macOk).2.2.2 h
  ⟨a, b, c⟩

/-! ### (3) wrapped frames: authenticated and timely -/

/-- A wrapped frame is forwarded iff the timer is synchronised, the session id is 0, the MAC verifies, the inner
frame parses to a service outside `FORBIDDEN_WRAPPED_SERVICES`, and its timer value is within the latency
tolerance: `timer > local − latency`. -/
theorem wrapped_forward_iff (s : State) (hc : CfgOk s) (sid timer : Nat) (macOk : Bool) (inner : Inner) :
    (rxWrapped s sid timer macOk inner).1 = .fwd ↔
      s.authenticated = true ∧ sid = 0 ∧ macOk = true ∧ (∃ v, inner = .svc v ∧ v ∉ forbiddenWrapped) ∧
      local_ s - (s.latency : Int) < (timer : Int) := by
  rw [(rxWrapped_spec s sid timer macOk inner).1, wrapperOk_iff]
  have hto := @classify_tooOld s timer
  unfold CfgOk at hc
  constructor
  · rintro ⟨⟨a, b, c, d⟩, e⟩
    refine ⟨a, b, c, d, ?_⟩
    by_cases hl : local_ s - (s.latency : Int) < (timer : Int)
    · exact hl
    · exact absurd (hto.mpr ⟨hl, by omega, by omega⟩) e
  · rintro ⟨a, b, c, d, e⟩
    exact ⟨⟨a, b, c, d⟩, fun h => (hto.mp h).1 e⟩

/-- In particular a forwarded wrapper is authenticated and not older than the latency tolerance — also for a
configuration in which the tolerances were not ordered. -/
theorem wrapped_forward_sound (s : State) (sid timer : Nat) (macOk : Bool) (inner : Inner)
    (h : (rxWrapped s sid timer macOk inner).1 = .fwd) :
    s.authenticated = true ∧ sid = 0 ∧ macOk = true ∧ (∃ v, inner = .svc v ∧ v ∉ forbiddenWrapped ∧ v ≠ secureWrapper) ∧
    (local_ s - (s.latency : Int) < (timer : Int) ∨ local_ s - (s.syncTol : Int) < (timer : Int)) := by
  obtain ⟨hw, hcl⟩ := (rxWrapped_spec s sid timer macOk inner).1.mp h
  obtain ⟨a, b, c, v, hv, hf⟩ := (wrapperOk_iff s sid macOk inner).mp hw
  refine ⟨a, b, c, ⟨v, hv, hf, fun e => hf (e ▸ plain_services_declared.2.2.2.2.2.2.2.2.2.2)⟩, ?_⟩
  have hto := @classify_tooOld s timer
  by_cases h1 : local_ s - (s.latency : Int) < (timer : Int)
  · exact Or.inl h1
  · by_cases h2 : local_ s - (s.syncTol : Int) < (timer : Int)
    · exact Or.inr h2
    · exact absurd (hto.mpr ⟨h1, by omega, h2⟩) hcl

/-- A wrapper that fails authentication (timer not synchronised, wrong session id, MAC, unparsable / forbidden
inner frame) is dropped without touching the timer state. -/
theorem wrapped_unauthentic_ignored (s : State) (sid timer : Nat) (macOk : Bool) (inner : Inner)
    (h : ¬ (s.authenticated = true ∧ sid = 0 ∧ macOk = true ∧ ∃ v, inner = .svc v ∧ v ∉ forbiddenWrapped)) :
    rxWrapped s sid timer macOk inner = (.drop, s, none) := by
  apply (rxWrapped_spec s sid timer macOk inner).2.2.2.2.2.2
  cases hw : wrapperOk s sid macOk inner with
  | false => rfl
  | true => exact absurd ((wrapperOk_iff s sid macOk inner).mp hw) h

/-! ### (4) only authenticated frames move the timer forward; it never moves back between synchronisations -/

def isSres : Obs → Bool
  | .sres _ _ _ => true
  | _ => false

/-- the observation is a received TimerNotify / SecureWrapper whose MAC verifies -/
def isAuthenticRx : Obs → Bool
  | .rxn _ _ _ _ macOk _ _ => macOk
  | .rxw _ _ _ macOk _ _ _ => macOk
  | _ => false

/-- One accepted observation other than the completion of `synchronize`: the clock difference does not
decrease, the local timer value does not decrease, and if the clock difference changed the observation is a
received frame whose MAC verifies (a forwarded wrapper, or a TimerNotify) carrying a timer value ahead of ours. -/
theorem clock_step (s s' : State) (o : Obs) (h : step? s o = some s') (hs : isSres o = false) :
    s.clockDiff ≤ s'.clockDiff ∧ local_ s ≤ local_ s' ∧ s'.now = o.time ∧
    (s'.clockDiff ≠ s.clockDiff → isAuthenticRx o = true) := by
  obtain ⟨sa, hle, hsa, hm⟩ := step_cases h
  have hcd : sa.clockDiff = s.clockDiff := by rw [hsa]
  have hnow : sa.now = o.time := by rw [hsa]
  have key : ∀ x : State, x.now = sa.now → sa.clockDiff ≤ x.clockDiff →
      s.clockDiff ≤ x.clockDiff ∧ local_ s ≤ local_ x ∧ x.now = o.time := by
    intro x h1 h2
    refine ⟨by omega, ?_, by omega⟩
    unfold local_
    have : (s.now : Int) ≤ (x.now : Int) := by rw [h1, hnow]; exact Int.ofNat_le.mpr hle
    omega
  cases o with
  | new t latency syncTol =>
    obtain ⟨-, -, -, -, rfl⟩ := hm
    obtain ⟨a, b, c⟩ := key _ rfl (Int.le_refl _)
    exact ⟨a, b, c, fun hne => absurd hcd hne⟩
  | conn t timer =>
    obtain ⟨-, -, rfl⟩ := hm
    obtain ⟨a, b, c⟩ := key _ rfl (Int.le_refl _)
    exact ⟨a, b, c, fun hne => absurd hcd hne⟩
  | rxn t timer own tagm macOk draw out =>
    obtain ⟨-, hd⟩ := hm
    obtain ⟨n, rfl⟩ := applyDraw_fields hd
    obtain ⟨p1, p2, p3, -⟩ := rxNotify_spec sa timer own tagm macOk
    obtain ⟨a, b, c⟩ := key { (rxNotify sa timer own tagm macOk).1 with notifyAt := n } p3 p2
    refine ⟨a, b, c, fun hne => ?_⟩
    cases macOk with
    | true => rfl
    | false => rw [p1 rfl] at hne; exact absurd hcd hne
  | rxw t sid timer macOk inner draw out =>
    obtain ⟨-, hd⟩ := hm
    obtain ⟨n, rfl⟩ := applyDraw_fields hd
    obtain ⟨q1, -, q3, q4, -, q6, -⟩ := rxWrapped_spec sa sid timer macOk inner
    obtain ⟨a, b, c⟩ := key { (rxWrapped sa sid timer macOk inner).2.1 with notifyAt := n } q4 q3
    refine ⟨a, b, c, fun hne => ?_⟩
    have hfw := (q6 (by simpa [hcd] using hne)).1
    exact ((wrapperOk_iff sa sid macOk inner).mp (q1.mp hfw).1).2.2.1
  | rxp t svc out =>
    obtain ⟨-, -, -, rfl⟩ := hm
    obtain ⟨a, b, c⟩ := key _ rfl (Int.le_refl _)
    exact ⟨a, b, c, fun hne => absurd hcd hne⟩
  | snd t draw out =>
    obtain ⟨-, hd⟩ := hm
    obtain ⟨n, rfl⟩ := applyDraw_fields hd
    obtain ⟨r1, r2, -, -⟩ := send_spec sa
    obtain ⟨a, b, c⟩ := key { (send sa).2.1 with notifyAt := n } r2 (by simp only; omega)
    exact ⟨a, b, c, fun hne => absurd (by simp only; omega) hne⟩
  | ntf t timer draw =>
    obtain ⟨-, -, hd⟩ := hm
    obtain ⟨n, rfl⟩ := applyDraw_fields hd
    obtain ⟨a, b, c⟩ := key _ rfl (Int.le_refl _)
    exact ⟨a, b, c, fun hne => absurd hcd hne⟩
  | sres t ok draw => simp [isSres] at hs
  | stop t =>
    subst hm
    obtain ⟨a, b, c⟩ := key _ rfl (Int.le_refl _)
    exact ⟨a, b, c, fun hne => absurd hcd hne⟩
  | st t cd tk su au =>
    obtain ⟨-, -, -, -, rfl⟩ := hm
    obtain ⟨a, b, c⟩ := key _ rfl (Int.le_refl _)
    exact ⟨a, b, c, fun hne => absurd hcd hne⟩

/-- The completion of `synchronize` adopts exactly the timer value of the authenticated reply it holds
(or, on time-out, leaves the clock alone), and only then is the timer marked authenticated. -/
theorem sync_completion (s s' : State) (t : Nat) (ok : Bool) (draw : Option Draw)
    (h : step? s (.sres t ok draw) = some s') :
    s'.authenticated = true ∧ s'.expected = none ∧
    ((ok = true ∧ ∃ v, s.expected = some (some v) ∧ local_ s' = (v : Int)) ∨
     (ok = false ∧ s.expected = some none ∧ s'.clockDiff = s.clockDiff ∧ s'.timekeeper = true)) := by
  obtain ⟨sa, hle, hsa, hm⟩ := step_cases h
  rcases hm with ⟨v, hv, hok, hd⟩ | ⟨hv, hok, hd⟩
  · obtain ⟨n, rfl⟩ := applyDraw_fields hd
    refine ⟨rfl, rfl, Or.inl ⟨hok, v, by rw [hsa] at hv; exact hv, ?_⟩⟩
    simp only [local_, resched_fields, hsa, Obs.time]
    omega
  · obtain ⟨n, rfl⟩ := applyDraw_fields hd
    exact ⟨rfl, rfl, Or.inr ⟨hok, by rw [hsa] at hv; exact hv, by simp [resched_fields, hsa], rfl⟩⟩

/-! ### (5) the timer value carried by outgoing wrappers never decreases -/

/-- the timer value an observation sent in a SecureWrapper -/
def sentTimer : Obs → Option Nat
  | .snd _ _ (.wrapped q) => some q
  | _ => none

theorem sent_is_local (s s' : State) (o : Obs) (q : Nat) (h : step? s o = some s') (hq : sentTimer o = some q) :
    (q : Int) = (o.time : Int) + s.clockDiff ∧ local_ s ≤ (q : Int) ∧ (q : Int) ≤ local_ s' := by
  obtain ⟨sa, hle, hsa, hm⟩ := step_cases h
  cases o with
  | snd t draw out =>
    cases out with
    | wrapped q' =>
      simp only [sentTimer, Option.some.injEq] at hq
      subst hq
      obtain ⟨hout, hd⟩ := hm
      obtain ⟨n, rfl⟩ := applyDraw_fields hd
      obtain ⟨r1, r2, -, r4⟩ := send_spec sa
      have := r4 q' hout.symm
      simp only [local_, hsa, Obs.time] at this r1 r2 ⊢
      refine ⟨this, ?_, ?_⟩
      · have : (s.now : Int) ≤ (t : Int) := Int.ofNat_le.mpr hle
        omega
      · rw [r1, r2]; omega
    | errIpsec => simp [sentTimer] at hq
    | errComm => simp [sentTimer] at hq
  | new _ _ _ | conn _ _ | rxn _ _ _ _ _ _ _ | rxw _ _ _ _ _ _ _ | rxp _ _ _ | ntf _ _ _ | sres _ _ _ | stop _
  | st _ _ _ _ _ => simp [sentTimer] at hq

/-- Between two completions of `synchronize` (i.e. within one synchronised connection; a re-synchronisation may
set the clock back, see notes), over ANY accepted trace: the timer values carried by outgoing SecureWrappers are
non-decreasing, whatever frames arrive in between. -/
theorem outgoing_timer_monotone (tr : List Obs) (s s' : State) (h : runFrom s tr = some s')
    (hs : ∀ o ∈ tr, isSres o = false) :
    List.Pairwise (· ≤ ·) (tr.filterMap sentTimer) ∧
    (∀ q ∈ tr.filterMap sentTimer, local_ s ≤ (q : Int)) ∧ local_ s ≤ local_ s' := by
  induction tr generalizing s with
  | nil =>
    simp only [runFrom, Option.some.injEq] at h; subst h
    simp
  | cons o os ih =>
    obtain ⟨s1, h1, h2⟩ := runFrom_cons h
    obtain ⟨ihp, ihq, ihl⟩ := ih s1 h2 (fun o' ho' => hs o' (by simp [ho']))
    obtain ⟨-, cl, -, -⟩ := clock_step s s1 o h1 (hs o (by simp))
    cases hq : sentTimer o with
    | none =>
      simp only [List.filterMap_cons, hq]
      exact ⟨ihp, fun q hq' => Int.le_trans cl (ihq q hq'), Int.le_trans cl ihl⟩
    | some q =>
      obtain ⟨-, b, c⟩ := sent_is_local s s1 o q h1 hq
      simp only [List.filterMap_cons, hq, List.pairwise_cons, List.mem_cons, forall_eq_or_imp]
      refine ⟨⟨fun q' hq' => ?_, ihp⟩, ⟨b, fun q' hq' => Int.le_trans cl (ihq q' hq')⟩, Int.le_trans cl ihl⟩
      have := ihq q' hq'
      exact Int.ofNat_le.mp (Int.le_trans c this)

/-! ### (6) no received frame makes the receive path raise -/

/-- In an accepted trace no received frame — plain, TimerNotify, SecureWrapper, whatever its content or MAC, and
in particular a duplicated synchronisation reply — ends in an exception. -/
theorem receive_never_raises (s s' : State) :
    (∀ t timer own tagm macOk draw out, step? s (.rxn t timer own tagm macOk draw out) = some s' → out ≠ .exc) ∧
    (∀ t sid timer macOk inner draw out, step? s (.rxw t sid timer macOk inner draw out) = some s' → out ≠ .exc) ∧
    (∀ t svc out, step? s (.rxp t svc out) = some s' → out ≠ .exc) := by
  refine ⟨fun t timer own tagm macOk draw out h => ?_, fun t sid timer macOk inner draw out h => ?_,
    fun t svc out h => ?_⟩
  · obtain ⟨sa, -, -, hm⟩ := step_cases h
    rw [hm.1]; simp
  · obtain ⟨sa, -, -, hm⟩ := step_cases h
    rw [hm.1]; exact (rxWrapped_spec sa sid timer macOk inner).2.1
  · obtain ⟨sa, -, -, hm⟩ := step_cases h
    rw [hm.2.2.1]; unfold rxPlain; split <;> simp

/-- A second reply to the synchronisation request, arriving before `synchronize` has resumed, is ignored: the
reply already held stays. -/
theorem duplicate_sync_reply_ignored (s : State) (v timer : Nat) (own tagm macOk : Bool)
    (h : s.expected = some (some v)) : (rxNotify s timer own tagm macOk).1.expected = some (some v) := by
  by_cases hne : (rxNotify s timer own tagm macOk).1.expected = s.expected
  · rw [hne, h]
  · have := ((rxNotify_spec s timer own tagm macOk).2.2.2 hne).2.2.2.1
    rw [h] at this; cases this

/-! ### (7) the notify timer is armed inside the interval the specification gives -/

/-- Every reschedule uses the `[min, max]` interval of its kind, computed from the generated constants
(keeper periodic 10 s … +3·sync, follower periodic +4·sync … +14·sync, keeper update 0.1 s … +sync, follower
update +2·sync … +12·sync), the drawn delay lies inside it, and the notify timer is armed for now + delay. -/
theorem reschedule_interval (s s' : State) (k : Option Sched) (dr : Draw) (h : applyDraw s k (some dr) = some s') :
    ∃ kk, k = some kk ∧ (dr.lo, dr.hi) = interval s kk ∧ dr.lo ≤ dr.d ∧ dr.d ≤ dr.hi ∧
      s'.notifyAt = some (s.now + dr.d) :=
  applyDraw_draw h

/-! ### Non-vacuity -/

/-- synchronisation answered (duplicate reply ignored), clock follows a wrapper that is ahead, one inside the
latency window forwarded, one too old dropped and an update notify scheduled, forged MAC dropped, plain
search request forwarded, plain routing indication dropped; outgoing timers 5000000 ≤ 5000060 -/
example : accepts [.new 1000000 1000 100, .conn 1000000 1000000,
    .rxn 1000000 5000000 true true true none .drop, .rxn 1000000 5000001 true true true none .drop,
    .sres 1000000 true (some ⟨10400, 11400, 10900⟩), .st 1000000 4000000 false false true,
    .snd 1000010 (some ⟨10400, 11400, 10400⟩) (.wrapped 5000010),
    .rxw 1000020 0 5000050 true (.svc 0x0530) (some ⟨10400, 11400, 11400⟩) .fwd, .st 1000020 4000030 false false true,
    .rxw 1000030 0 4999100 true (.svc 0x0530) none .fwd,
    .rxw 1000030 0 4999060 true (.svc 0x0530) (some ⟨300, 1300, 300⟩) .drop,
    .rxw 1000030 0 5000060 false (.svc 0x0530) none .drop,
    .rxp 1000030 0x0201 .fwd, .rxp 1000030 0x0530 .drop,
    .snd 1000030 none (.wrapped 5000060)] := by decide
/-- an exception on the duplicated reply is not an accepted trace -/
example : ¬ accepts [.new 1000000 1000 100, .conn 1000000 1000000,
    .rxn 1000000 5000000 true true true none .drop, .rxn 1000000 5000001 true true true none .exc] := by decide
example : CfgOk init := by simp [CfgOk, init]

end XknxVerif.Props.C30
