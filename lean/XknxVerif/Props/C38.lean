/-
C38  Eager group-address decoding never changes what devices see.

The datapoint decoders are an uninterpreted function `decode : DPT → Pay → DRes Val`;
every theorem is for ALL decoders, tables, telegrams, remote values and prior states.
The one structural fact about the code that is used is `RV.Faithful`: a remote value
whose `dpt_class` is set decodes with that class (it does not override `from_knx`) —
the correspondence run checks this by introspection of every RemoteValue subclass.
-/
import XknxVerif.Model.EagerDecode

namespace XknxVerif.Props.C38
open XknxVerif.EagerDecode

set_option linter.unusedSectionVars false
set_option linter.unusedSimpArgs false
variable {GA DPT Pay Val : Type} [DecidableEq GA] [DecidableEq DPT] [DecidableEq Val]

/-- The decoded data a telegram carries is what its transcoder decodes from its payload. -/
def Consistent (decode : DPT → Pay → DRes Val) (t : Telegram GA DPT Pay Val) : Prop :=
  ∀ d, t.decoded = some d → decode d.transcoder t.payload = .ok d.value

/-- A remote value with a `dpt_class` decodes with exactly that class. -/
def Faithful (decode : DPT → Pay → DRes Val) (rv : RV GA DPT Pay Val) : Prop :=
  ∀ c, rv.dptClass = some c → rv.fromKnx = decode c

/-! ### What set_decoded_data does -/

@[simp] theorem withDecoded_dst (t : Telegram GA DPT Pay Val) (c : DPT) (v : Val) : (t.withDecoded c v).dst = t.dst := rfl
@[simp] theorem withDecoded_kind (t : Telegram GA DPT Pay Val) (c : DPT) (v : Val) : (t.withDecoded c v).kind = t.kind := rfl
@[simp] theorem withDecoded_payload (t : Telegram GA DPT Pay Val) (c : DPT) (v : Val) :
    (t.withDecoded c v).payload = t.payload := rfl
@[simp] theorem withDecoded_decoded (t : Telegram GA DPT Pay Val) (c : DPT) (v : Val) :
    (t.withDecoded c v).decoded = some ⟨c, v⟩ := rfl

/-- Closed form for a fresh value telegram to a group address: look the address up, decode, attach. -/
theorem setDecodedData_fresh (decode : DPT → Pay → DRes Val) (tbl : Table GA DPT)
    (t : Telegram GA DPT Pay Val) (ga : GA)
    (hfresh : t.decoded = none) (hk : t.kind.isValue = true) (hd : t.dst = some ga) :
    setDecodedData decode tbl t = lookupAndDecode decode tbl ga t := by
  unfold setDecodedData
  rw [hfresh, hk, hd]
  rfl

/-- What the decoder step yields. -/
theorem applyDecoder_ok (decode : DPT → Pay → DRes Val) (c : DPT) (t t' : Telegram GA DPT Pay Val)
    (h : applyDecoder decode c t = .ok t') :
    (∃ v, decode c t.payload = .ok v ∧ t' = t.withDecoded c v) ∨ (decode c t.payload = .declared ∧ t' = t) := by
  unfold applyDecoder at h
  cases hdec : decode c t.payload with
  | ok v => rw [hdec] at h; injection h with h; exact Or.inl ⟨v, rfl, h.symm⟩
  | declared => rw [hdec] at h; injection h with h; exact Or.inr ⟨rfl, h.symm⟩
  | other => rw [hdec] at h; exact absurd h (by simp)

/-- **Telegrams carry the value the configured type decodes.** For a fresh GroupValueWrite/Response to a group
address: afterwards the telegram carries `(c, v)` iff the table maps the address to `c` and `c` decodes the payload
to `v`; destination, kind and payload are never touched. -/
theorem decoded_iff (decode : DPT → Pay → DRes Val) (tbl : Table GA DPT)
    (t t' : Telegram GA DPT Pay Val) (ga : GA)
    (hfresh : t.decoded = none) (hk : t.kind.isValue = true) (hd : t.dst = some ga)
    (h : setDecodedData decode tbl t = .ok t') :
    (∀ c v, t'.decoded = some ⟨c, v⟩ ↔ (tbl.get ga = some c ∧ decode c t.payload = .ok v)) ∧
    t'.dst = t.dst ∧ t'.kind = t.kind ∧ t'.payload = t.payload := by
  rw [setDecodedData_fresh decode tbl t ga hfresh hk hd] at h
  unfold lookupAndDecode at h
  cases hg : tbl.get ga with
  | none =>
    rw [hg] at h; injection h with h; subst h
    refine ⟨?_, rfl, rfl, rfl⟩
    intro c v; simp [hfresh]
  | some c0 =>
    rw [hg] at h
    rcases applyDecoder_ok decode c0 t t' h with ⟨v0, hdec, rfl⟩ | ⟨hdec, rfl⟩
    · refine ⟨?_, rfl, rfl, rfl⟩
      intro c v
      simp only [withDecoded_decoded, Option.some.injEq, Decoded.mk.injEq]
      constructor
      · rintro ⟨rfl, rfl⟩; exact ⟨rfl, hdec⟩
      · rintro ⟨rfl, hv⟩
        rw [hdec] at hv; injection hv with hv
        exact ⟨rfl, hv⟩
    · refine ⟨?_, rfl, rfl, rfl⟩
      intro c v
      simp only [hfresh, reduceCtorEq, false_iff]
      rintro ⟨hc, hv⟩
      simp only [Option.some.injEq] at hc; subst hc
      rw [hdec] at hv; exact absurd hv (by simp)

/-- Only value telegrams are decoded; anything else (reads, other services, already decoded) passes unchanged. -/
theorem setDecodedData_passes (decode : DPT → Pay → DRes Val) (tbl : Table GA DPT)
    (t : Telegram GA DPT Pay Val) (h : t.decoded.isSome = true ∨ t.kind.isValue = false) :
    setDecodedData decode tbl t = .ok t := by
  rcases h with h | h <;> simp [setDecodedData, h]

/-- The result of set_decoded_data is always consistent, and differs from the input at most in `decoded`. -/
theorem setDecodedData_consistent (decode : DPT → Pay → DRes Val) (tbl : Table GA DPT)
    (t t' : Telegram GA DPT Pay Val) (hc : Consistent decode t)
    (h : setDecodedData decode tbl t = .ok t') :
    Consistent decode t' ∧ t'.dst = t.dst ∧ t'.kind = t.kind ∧ t'.payload = t.payload := by
  unfold setDecodedData at h
  by_cases h1 : t.decoded.isSome = true
  · rw [if_pos h1] at h; injection h with h; subst h; exact ⟨hc, rfl, rfl, rfl⟩
  · rw [if_neg h1] at h
    by_cases h2 : (!t.kind.isValue) = true
    · rw [if_pos h2] at h; injection h with h; subst h; exact ⟨hc, rfl, rfl, rfl⟩
    · rw [if_neg h2] at h
      cases hd : t.dst with
      | none => rw [hd] at h; injection h with h; subst h; exact ⟨hc, hd, rfl, rfl⟩
      | some ga =>
        rw [hd] at h
        dsimp only at h
        unfold lookupAndDecode at h
        cases hg : tbl.get ga with
        | none => rw [hg] at h; injection h with h; subst h; exact ⟨hc, hd, rfl, rfl⟩
        | some c =>
          rw [hg] at h
          rcases applyDecoder_ok decode c t t' h with ⟨v, hdec, rfl⟩ | ⟨hdec, rfl⟩
          · refine ⟨?_, hd, rfl, rfl⟩
            intro d hdd
            simp only [withDecoded_decoded, Option.some.injEq] at hdd
            subst hdd
            exact hdec
          · exact ⟨hc, hd, rfl, rfl⟩

/-- The only way a table entry can keep a telegram from the devices: set_decoded_data raises exactly when the
configured type raises an UNDECLARED exception on the payload (C07 says no datapoint type does). A value
telegram addressed to an individual address is left alone (it raised AssertionError before fix d5f8117). -/
theorem setDecodedData_raises_iff (decode : DPT → Pay → DRes Val) (tbl : Table GA DPT)
    (t : Telegram GA DPT Pay Val) (hfresh : t.decoded = none) (hk : t.kind.isValue = true) (e : Exc) :
    setDecodedData decode tbl t = .error e ↔
      (∃ ga c, t.dst = some ga ∧ tbl.get ga = some c ∧ decode c t.payload = .other ∧ e = .other) := by
  cases hd : t.dst with
  | none =>
    have : setDecodedData decode tbl t = .ok t := by
      unfold setDecodedData; rw [hfresh, hk, hd]; rfl
    rw [this]
    constructor
    · intro h; exact absurd h (by simp)
    · rintro ⟨ga, c, h, _⟩
      exact absurd h (by simp)
  | some ga =>
    rw [setDecodedData_fresh decode tbl t ga hfresh hk hd]
    unfold lookupAndDecode
    cases hg : tbl.get ga with
    | none =>
      constructor
      · intro h; exact absurd h (by simp)
      · rintro ⟨ga', c, h1, h2, _⟩
        simp only [Option.some.injEq] at h1; subst h1; rw [hg] at h2; exact absurd h2 (by simp)
    | some c =>
      simp only
      unfold applyDecoder
      constructor
      · intro h
        cases hdec : decode c t.payload with
        | ok v => rw [hdec] at h; exact absurd h (by simp)
        | declared => rw [hdec] at h; exact absurd h (by simp)
        | other =>
          rw [hdec] at h; injection h with h
          exact ⟨ga, c, rfl, hg, hdec, h.symm⟩
      · rintro ⟨ga', c', h1, h2, h3, rfl⟩
        simp only [Option.some.injEq] at h1; subst h1
        rw [hg] at h2; simp only [Option.some.injEq] at h2; subst h2
        rw [h3]

/-- With decoders that raise declared errors only, set_decoded_data never raises on a group telegram. -/
theorem setDecodedData_total (decode : DPT → Pay → DRes Val) (hdecl : ∀ c p, decode c p ≠ .other)
    (tbl : Table GA DPT) (t : Telegram GA DPT Pay Val) (hdst : t.dst ≠ none) :
    ∃ t', setDecodedData decode tbl t = .ok t' := by
  cases hres : setDecodedData decode tbl t with
  | ok t' => exact ⟨t', rfl⟩
  | error e =>
    exfalso
    unfold setDecodedData at hres
    by_cases h1 : t.decoded.isSome = true
    · rw [if_pos h1] at hres; exact absurd hres (by simp)
    · rw [if_neg h1] at hres
      by_cases h2 : (!t.kind.isValue) = true
      · rw [if_pos h2] at hres; exact absurd hres (by simp)
      · rw [if_neg h2] at hres
        cases hd : t.dst with
        | none => exact hdst hd
        | some ga =>
          rw [hd] at hres
          dsimp only at hres
          unfold lookupAndDecode at hres
          cases hg : tbl.get ga with
          | none => rw [hg] at hres; exact absurd hres (by simp)
          | some c =>
            rw [hg] at hres
            dsimp only at hres
            unfold applyDecoder at hres
            cases hdec : decode c t.payload with
            | ok v => rw [hdec] at hres; exact absurd hres (by simp)
            | declared => rw [hdec] at hres; exact absurd hres (by simp)
            | other => exact hdecl c t.payload hdec

/-! ### RemoteValue.process does not depend on the decoded data -/

/-- A faithful remote value processes a consistent telegram exactly as it processes the same telegram without
decoded data: the shortcut is taken only when it returns the remote value's own decode. -/
theorem process_ignores_decoded (decode : DPT → Pay → DRes Val) (rv : RV GA DPT Pay Val)
    (hrv : Faithful decode rv) (st : RVState GA Pay Val) (t : Telegram GA DPT Pay Val)
    (hc : Consistent decode t) (a : Bool) :
    rv.process st t a = rv.process st { t with decoded := none } a := by
  unfold RV.process
  cases hd : t.dst with
  | none => rfl
  | some ga =>
    simp only
    by_cases hin : ga ∈ rv.gas
    · simp only [hin, not_true_eq_false, if_false]
      by_cases hk : t.kind.isValue
      · simp only [hk, Bool.not_true, Bool.false_eq_true, if_false]
        cases hdd : t.decoded with
        | none => rfl
        | some d =>
          simp only
          by_cases hcl : rv.dptClass = some d.transcoder
          · have h1 := hrv _ hcl
            have h2 := hc d hdd
            simp only [hcl, if_true, h1, h2]
          · simp only [hcl, if_false]
      · simp [hk]
    · simp [hin]

/-- **Main theorem.** For every decoder family, every remote value that decodes with its own `dpt_class`, every
prior state, every fresh telegram and ANY two group-address tables `tbl`, `tbl'` (matching, mismatching, empty, …):
processing the telegram after eager decoding with `tbl` gives exactly the same result, value, payload, stored
telegram and callback as after eager decoding with `tbl'` — and as with no eager decoding at all. -/
theorem process_independent_of_table (decode : DPT → Pay → DRes Val) (rv : RV GA DPT Pay Val)
    (hrv : Faithful decode rv) (st : RVState GA Pay Val) (t t₁ t₂ : Telegram GA DPT Pay Val)
    (hfresh : t.decoded = none) (tbl tbl' : Table GA DPT) (a : Bool)
    (h₁ : setDecodedData decode tbl t = .ok t₁) (h₂ : setDecodedData decode tbl' t = .ok t₂) :
    rv.process st t₁ a = rv.process st t₂ a ∧ rv.process st t₁ a = rv.process st t a := by
  have hc : Consistent decode t := by intro d hd; rw [hfresh] at hd; exact absurd hd (by simp)
  obtain ⟨c1, e1, e2, e3⟩ := setDecodedData_consistent decode tbl t t₁ hc h₁
  obtain ⟨c2, f1, f2, f3⟩ := setDecodedData_consistent decode tbl' t t₂ hc h₂
  have key : ∀ (u : Telegram GA DPT Pay Val), Consistent decode u → u.dst = t.dst → u.kind = t.kind →
      u.payload = t.payload → rv.process st u a = rv.process st t a := by
    intro u hu g1 g2 g3
    rw [process_ignores_decoded decode rv hrv st u hu a]
    congr 1
    cases u; cases t; simp_all
  rw [key t₁ c1 e1 e2 e3, key t₂ c2 f1 f2 f3]
  exact ⟨rfl, rfl⟩

/-- Device level: a device feeding the telegram to all of its (faithful) remote values sees the same results,
states and callbacks whatever the table. -/
theorem processAll_independent_of_table (decode : DPT → Pay → DRes Val)
    (rvs : List (RV GA DPT Pay Val × RVState GA Pay Val)) (hrv : ∀ x ∈ rvs, Faithful decode x.1)
    (t t₁ t₂ : Telegram GA DPT Pay Val) (hfresh : t.decoded = none) (tbl tbl' : Table GA DPT) (a : Bool)
    (h₁ : setDecodedData decode tbl t = .ok t₁) (h₂ : setDecodedData decode tbl' t = .ok t₂) :
    processAll a t₁ rvs = processAll a t₂ rvs := by
  induction rvs with
  | nil => rfl
  | cons x r ih =>
    obtain ⟨rv, st⟩ := x
    have hx := (process_independent_of_table decode rv (hrv (rv, st) (List.mem_cons_self ..)) st t t₁ t₂
      hfresh tbl tbl' a h₁ h₂).1
    have ihr := ih (fun y hy => hrv y (List.mem_cons_of_mem _ hy))
    simp only [processAll, hx, ihr]

/-- Why faithfulness is needed (and what the introspection scan guards): a remote value that sets `dpt_class`
but decodes differently IS affected by the table. -/
theorem unfaithful_witness :
    let decode : Nat → Unit → DRes Nat := fun _ _ => .ok 1
    let rv : RV Nat Nat Unit Nat := { gas := [0], dptClass := some 7, fromKnx := fun _ => .ok 2 }
    let t : Telegram Nat Nat Unit Nat := { dst := some 0, kind := .write, payload := () }
    ∃ t₁, setDecodedData decode [(0, 7)] t = .ok t₁ ∧ rv.process {} t₁ false ≠ rv.process {} t false := by
  refine ⟨{ dst := some 0, kind := .write, payload := (), decoded := some ⟨7, 1⟩ }, by decide, by decide⟩

/-! ### The table itself -/

theorem get_put_self (tbl : Table GA DPT) (ga : GA) (c : DPT) : (tbl.put ga c).get ga = some c := by
  induction tbl with
  | nil => simp [Table.put, Table.get, List.lookup]
  | cons e r ih =>
    obtain ⟨k, w⟩ := e
    by_cases h : k = ga
    · subst h; simp [Table.put, Table.get, List.lookup]
    · have h' : (ga == k) = false := by simp; exact fun e => h e.symm
      simp only [Table.put, h, if_false, Table.get, List.lookup, h']
      exact ih

theorem get_put_other (tbl : Table GA DPT) (ga ga' : GA) (c : DPT) (hne : ga' ≠ ga) :
    (tbl.put ga c).get ga' = tbl.get ga' := by
  induction tbl with
  | nil =>
    have : (ga' == ga) = false := by simp [hne]
    simp [Table.put, Table.get, List.lookup, this]
  | cons e r ih =>
    obtain ⟨k, w⟩ := e
    by_cases h : k = ga
    · subst h
      have : (ga' == k) = false := by simp [hne]
      simp [Table.put, Table.get, List.lookup, this]
    · simp only [Table.put, h, if_false, Table.get, List.lookup]
      by_cases h2 : ga' = k
      · subst h2; simp
      · have : (ga' == k) = false := by simp [h2]
        simp only [this]
        exact ih

/-- The transcoder configured for `ga` by a mapping: the LAST entry whose address parses to `ga` and whose DPT is
known; `acc` (what was configured before) if there is none. -/
def lastFor (ga : GA) : List (Option GA × Option DPT) → Option DPT → Option DPT
  | [], acc => acc
  | (some g, some c) :: r, acc => lastFor ga r (if g = ga then some c else acc)
  | (some _, none) :: r, acc => lastFor ga r acc
  | (none, _) :: r, acc => lastFor ga r acc

/-- `GroupAddressDPT.set` + `get`: invalid addresses and unknown DPTs are skipped, the same address configured
several times keeps the last valid type, other addresses are untouched. -/
theorem get_setAll (tbl : Table GA DPT) (es : List (Option GA × Option DPT)) (ga : GA) :
    (tbl.setAll es).get ga = lastFor ga es (tbl.get ga) := by
  induction es generalizing tbl with
  | nil => rfl
  | cons e r ih =>
    obtain ⟨a, d⟩ := e
    cases a with
    | none => simp only [Table.setAll, lastFor]; exact ih tbl
    | some g =>
      cases d with
      | none => simp only [Table.setAll, lastFor]; exact ih tbl
      | some c =>
        simp only [Table.setAll, lastFor]
        rw [ih]
        by_cases h : g = ga
        · subst h; simp [get_put_self]
        · have : ga ≠ g := fun e => h e.symm
          simp [h, get_put_other _ _ _ _ this]

/-! ### Non-vacuity -/

example :
    let decode : Nat → Nat → DRes Nat := fun c p => if c = 9 then (if p < 100 then .ok (p * 2) else .declared) else .ok p
    let rv : RV Nat Nat Nat Nat := { gas := [3, 4], dptClass := some 9, fromKnx := decode 9 }
    let t : Telegram Nat Nat Nat Nat := { dst := some 3, kind := .response, payload := 21 }
    Faithful decode rv ∧
    setDecodedData decode [(3, 9)] t = .ok { t with decoded := some ⟨9, 42⟩ } ∧
    setDecodedData decode [(3, 5)] t = .ok { t with decoded := some ⟨5, 21⟩ } ∧
    rv.process {} { t with decoded := some ⟨5, 21⟩ } false
      = .ok ({ value := some 42, payload := some 21, telegram := some (some 3, .response, 21) }, ⟨true, some 42⟩) := by
  refine ⟨?_, by decide, by decide, by decide⟩
  intro c hc
  simp only [Option.some.injEq] at hc
  subst hc; rfl

example : lastFor (1 : Nat) [(some 1, some (5 : Nat)), (none, some 6), (some 1, none), (some 2, some 7), (some 1, some 8)] none
    = some 8 := by decide

end XknxVerif.Props.C38
