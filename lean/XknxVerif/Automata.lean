/-
Generic machinery for state-machine models: running a step function over an
event list, and lifting a one-step invariant to every reachable state.
Core Lean only.
-/
namespace XknxVerif.Automata

/-- Run `step` over the events, collecting outputs in order. -/
def run {σ ε ω : Type} (step : σ → ε → σ × List ω) : σ → List ε → σ × List ω
  | s, [] => (s, [])
  | s, e :: es =>
    let (s', o) := step s e
    let (s'', os) := run step s' es
    (s'', o ++ os)

theorem run_nil {σ ε ω} (step : σ → ε → σ × List ω) (s : σ) : run step s [] = (s, []) := rfl

theorem run_cons {σ ε ω} (step : σ → ε → σ × List ω) (s : σ) (e : ε) (es : List ε) :
    run step s (e :: es) =
      ((run step (step s e).1 es).1, (step s e).2 ++ (run step (step s e).1 es).2) := rfl

theorem run_append {σ ε ω} (step : σ → ε → σ × List ω) (s : σ) (es fs : List ε) :
    run step s (es ++ fs) =
      ((run step (run step s es).1 fs).1, (run step s es).2 ++ (run step (run step s es).1 fs).2) := by
  induction es generalizing s with
  | nil => simp [run_nil]
  | cons e es ih => simp [run_cons, ih, List.append_assoc]

/-- Invariant lifting: `Inv` holds initially and is preserved by each step ⇒ it
holds after any event list. -/
theorem inv_run {σ ε ω} (step : σ → ε → σ × List ω) (Inv : σ → Prop)
    (hstep : ∀ s e, Inv s → Inv (step s e).1) :
    ∀ (es : List ε) (s : σ), Inv s → Inv (run step s es).1 := by
  intro es
  induction es with
  | nil => intro s h; simpa [run_nil] using h
  | cons e es ih => intro s h; rw [run_cons]; exact ih _ (hstep s e h)

/-- Invariant over state *and* the output history so far (monotone history). -/
theorem inv_run_hist {σ ε ω} (step : σ → ε → σ × List ω) (Inv : σ → List ω → Prop)
    (hstep : ∀ s h e, Inv s h → Inv (step s e).1 (h ++ (step s e).2)) :
    ∀ (es : List ε) (s : σ) (h : List ω), Inv s h →
      Inv (run step s es).1 (h ++ (run step s es).2) := by
  intro es
  induction es with
  | nil => intro s h hi; simpa [run_nil] using hi
  | cons e es ih =>
    intro s h hi
    rw [run_cons]
    have := ih _ _ (hstep s h e hi)
    simpa [List.append_assoc] using this

end XknxVerif.Automata
