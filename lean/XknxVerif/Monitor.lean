/-
Trace monitors for mode-R correspondence (DESIGN §1.1a): a partial step
function over observations; a trace is accepted when every observation is.
Invariant lifting for accepted traces, with and without the trace so far.
Core Lean only.
-/
namespace XknxVerif.Monitor

/-- Replay `es` through `step?`; `none` as soon as one observation is refused. -/
def runM {σ ε : Type} (step? : σ → ε → Option σ) : σ → List ε → Option σ
  | s, [] => some s
  | s, e :: es => (step? s e).bind fun s' => runM step? s' es

theorem runM_nil {σ ε} (step? : σ → ε → Option σ) (s : σ) : runM step? s [] = some s := rfl

theorem runM_cons {σ ε} (step? : σ → ε → Option σ) (s : σ) (e : ε) (es : List ε) :
    runM step? s (e :: es) = (step? s e).bind fun s' => runM step? s' es := rfl

theorem runM_append {σ ε} (step? : σ → ε → Option σ) (s : σ) (es fs : List ε) :
    runM step? s (es ++ fs) = (runM step? s es).bind fun s' => runM step? s' fs := by
  induction es generalizing s with
  | nil => simp [runM_nil]
  | cons e es ih =>
    simp only [List.cons_append, runM_cons]
    cases h : step? s e with
    | none => simp
    | some s' => simp [ih]

/-- An accepted trace splits: the prefix is accepted too. -/
theorem runM_append_some {σ ε} (step? : σ → ε → Option σ) (s s'' : σ) (es fs : List ε)
    (h : runM step? s (es ++ fs) = some s'') :
    ∃ s', runM step? s es = some s' ∧ runM step? s' fs = some s'' := by
  rw [runM_append] at h
  cases h' : runM step? s es with
  | none => simp [h'] at h
  | some s' => exact ⟨s', rfl, by simpa [h'] using h⟩

theorem runM_snoc {σ ε} (step? : σ → ε → Option σ) (s s'' : σ) (es : List ε) (e : ε)
    (h : runM step? s (es ++ [e]) = some s'') :
    ∃ s', runM step? s es = some s' ∧ step? s' e = some s'' := by
  obtain ⟨s', h1, h2⟩ := runM_append_some step? s s'' es [e] h
  refine ⟨s', h1, ?_⟩
  simp only [runM_cons, runM_nil] at h2
  cases h3 : step? s' e with
  | none => simp [h3] at h2
  | some t => simpa [h3] using h2

/-- Invariant lifting over accepted traces. -/
theorem inv_runM {σ ε} (step? : σ → ε → Option σ) (Inv : σ → Prop)
    (hstep : ∀ s e s', Inv s → step? s e = some s' → Inv s') :
    ∀ (es : List ε) (s s' : σ), Inv s → runM step? s es = some s' → Inv s' := by
  intro es
  induction es with
  | nil => intro s s' hi h; simp only [runM_nil, Option.some.injEq] at h; exact h ▸ hi
  | cons e es ih =>
    intro s s' hi h
    rw [runM_cons] at h
    cases h1 : step? s e with
    | none => simp [h1] at h
    | some t =>
      simp only [h1, Option.bind_some] at h
      exact ih t s' (hstep s e t hi h1) h

/-- Invariant relating the state to the trace accepted so far. -/
theorem inv_runM_hist {σ ε} (step? : σ → ε → Option σ) (Inv : σ → List ε → Prop)
    (hstep : ∀ s h e s', Inv s h → step? s e = some s' → Inv s' (h ++ [e])) :
    ∀ (es : List ε) (s s' : σ) (h : List ε), Inv s h → runM step? s es = some s' →
      Inv s' (h ++ es) := by
  intro es
  induction es with
  | nil => intro s s' h hi hr; simp only [runM_nil, Option.some.injEq] at hr; simpa [← hr] using hi
  | cons e es ih =>
    intro s s' h hi hr
    rw [runM_cons] at hr
    cases h1 : step? s e with
    | none => simp [h1] at hr
    | some t =>
      simp only [h1, Option.bind_some] at hr
      have := ih t s' (h ++ [e]) (hstep s h e t hi h1) hr
      simpa [List.append_assoc] using this

/-- Induction from the right end of a list. -/
theorem snoc_induction {α} {P : List α → Prop} (nil : P [])
    (snoc : ∀ l a, P l → P (l ++ [a])) : ∀ l, P l := by
  intro l
  have h : ∀ r : List α, P r.reverse := by
    intro r
    induction r with
    | nil => exact nil
    | cons a r ih => simpa using snoc _ a ih
  simpa using h l.reverse

end XknxVerif.Monitor
