/-
Sender side of a KNXnet/IP UDP tunnel (C24):
  xknx/io/tunnel.py : _Tunnel._send_ready (lock), UDPTunnel.send_cemi (try, repeat once,
                      re-establish, third try), _increase_sequence_number in `finally`,
                      _tunnel_established (counter := 0)
  xknx/io/request_response/tunnelling.py : which TunnellingAck confirms a request
                      (after the fix: same channel, same counter; status decides ok/error)

Mode R: a monitor over the observable trace. Inputs the harness injects
(`sendCemi`, `ack`) and outputs the tunnel produces (`request` = a
TunnellingRequest reached the socket, `connected` = a ConnectResponse was
processed, `result` = `send_cemi` returned / raised).  Times are virtual
microseconds and only have to be monotone.
Core Lean only (linked into the driver).
-/
import XknxVerif.Monitor
import XknxVerif.Py.Basic

namespace XknxVerif.TunnelSend

inductive Obs where
  /-- `send_cemi(frame id)` was called -/
  | sendCemi (id t : Nat)
  /-- TunnellingRequest(channel, counter, frame id) written to the socket -/
  | request (ch seq id t : Nat)
  /-- TunnellingAck(channel, counter, status) delivered to the tunnel; status 0 = E_NO_ERROR -/
  | ack (ch seq status t : Nat)
  /-- a tunnel connection was established on channel `ch` -/
  | connected (ch t : Nat)
  /-- `send_cemi(frame id)` returned (`ok`) or raised -/
  | result (id : Nat) (ok : Bool) (t : Nat)
  deriving DecidableEq, Repr

/-- the send that holds the lock and has transmitted at least once -/
structure Cur where
  id : Nat
  ch : Nat          -- channel and counter of its latest transmission
  seq : Nat
  tx : Nat          -- transmissions since the latest `connected`
  acked : Bool      -- a matching, error-free ACK arrived after the latest transmission
  deriving DecidableEq, Repr

structure M where
  chan : Option Nat     -- channel of the latest `connected`
  seq : Nat             -- counter the next first transmission carries
  queued : List Nat     -- `send_cemi` called; nothing transmitted yet, no result yet
  cur : Option Cur
  done : List Nat       -- ids whose `send_cemi` has finished
  now : Nat
  deriving DecidableEq, Repr

/-- a tunnel already connected on channel `c0` whose outgoing counter is `s0` -/
def init (c0 s0 : Nat) : M :=
  { chan := some c0, seq := s0, queued := [], cur := none, done := [], now := 0 }

def fresh (m : M) (id : Nat) : Bool :=
  !m.queued.contains id && !m.done.contains id &&
    (match m.cur with | some c => c.id != id | none => true)

/-- Deliberately open: when a repetition happens (after a timeout, after an
error ACK, …), how a failed send is reported, any order of ACKs, connects and
results that the clauses below do not exclude, stale/foreign ACKs (accepted as
inputs, they just do not confirm anything). -/
def mstep? (m : M) : Obs → Option M
  | .sendCemi id t =>
    if m.now ≤ t && fresh m id then some { m with queued := m.queued ++ [id], now := t } else none
  | .request ch seq id t =>
    if m.now ≤ t && m.chan == some ch then
      match m.cur with
      | none =>
        -- a new frame: next counter; only one request awaits an ACK at a time
        if m.queued.contains id && seq == m.seq then
          some { m with queued := m.queued.erase id, now := t,
                        cur := some { id, ch, seq, tx := 1, acked := false } }
        else none
      | some c =>
        if c.id == id then
          if c.tx == 0 then
            -- first transmission on a re-established tunnel
            if seq == m.seq then some { m with now := t, cur := some { c with ch, seq, tx := 1, acked := false } }
            else none
          else if c.tx == 1 && seq == c.seq && ch == c.ch then
            -- repeated once, same counter
            some { m with now := t, cur := some { c with tx := 2, acked := false } }
          else none
        else none
    else none
  | .ack ch seq st t =>
    if m.now ≤ t then
      match m.cur with
      | some c =>
        if ch == c.ch && seq == c.seq && st == 0 then some { m with now := t, cur := some { c with acked := true } }
        else some { m with now := t }
      | none => some { m with now := t }
    else none
  | .connected ch t =>
    if m.now ≤ t then
      some { m with now := t, chan := some ch, seq := 0, cur := m.cur.map fun c => { c with tx := 0 } }
    else none
  | .result id ok t =>
    if m.now ≤ t then
      match m.cur with
      | some c =>
        if c.id == id && (!ok || c.acked) then
          some { m with now := t, cur := none, seq := (m.seq + 1) % 256, done := id :: m.done }
        else none
      | none =>
        -- a send that failed before anything was transmitted (no channel)
        if !ok && m.queued.contains id then
          some { m with now := t, queued := m.queued.erase id, seq := (m.seq + 1) % 256, done := id :: m.done }
        else none
    else none

/-! ### line protocol -/

def parseNats (s : String) (sep : String) : Option (List Nat) :=
  (s.splitOn sep).mapM String.toNat?

/-- `C<id>@t`, `Q<ch>:<seq>:<id>@t`, `A<ch>:<seq>:<st>@t`, `N<ch>@t`, `K<id>:<0|1>@t` -/
def parseObs (s : String) : Option Obs :=
  match s.toList with
  | k :: r =>
    match (String.ofList r).splitOn "@" with
    | [body, t] => do
      let t ← t.toNat?
      let xs ← parseNats body ":"
      match k, xs with
      | 'C', [id] => pure (.sendCemi id t)
      | 'Q', [ch, seq, id] => pure (.request ch seq id t)
      | 'A', [ch, seq, st] => pure (.ack ch seq st t)
      | 'N', [ch] => pure (.connected ch t)
      | 'K', [id, ok] => pure (.result id (ok == 1) t)
      | _, _ => none
    | _ => none
  | [] => none

def firstReject (m : M) (i : Nat) : List Obs → Option Nat × M
  | [] => (none, m)
  | o :: os => match mstep? m o with
    | some m' => firstReject m' (i + 1) os
    | none => (some i, m)

/-! ### one request/acknowledgement exchange (mode F)

`RequestResponse.request()` of `Tunnelling` / `DeviceConfiguration` for a request
carrying `(ch, seq)`, sent at time 0 with `timeout`; `acks` are the
acknowledgements of the awaited class delivered afterwards, in order of
(distinct) arrival times. After the fix only an ACK repeating channel and
counter ends the wait; its status decides between success and error. -/

structure AckIn where
  ch : Nat
  seq : Nat
  st : Nat
  t : Nat
  deriving DecidableEq, Repr

inductive RROut where
  | ok | error (st : Nat) | timeout
  deriving DecidableEq, Repr

def rrOutcome (ch seq timeout : Nat) : List AckIn → RROut
  | [] => .timeout
  | a :: as =>
    if a.t < timeout ∧ a.ch = ch ∧ a.seq = seq then (if a.st = 0 then .ok else .error a.st)
    else rrOutcome ch seq timeout as

def parseAck (s : String) : Option AckIn :=
  match parseNats s ":" with
  | some [ch, seq, st, t] => some { ch, seq, st, t }
  | _ => none

-- DRIVER: tsend => XknxVerif.TunnelSend.handle
/-- `monitor <c0> <s0> <obs,obs,…>` → `accept` | `reject@<i>`;
`rr <ch> <seq> <timeout> <ch:seq:st:t,…|->` → `ok` | `error:<st>` | `timeout` -/
def handle : List String → String
  | ["rr", ch, seq, timeout, acks] =>
    let as? := if acks == "-" then some [] else (acks.splitOn ",").mapM parseAck
    match ch.toNat?, seq.toNat?, timeout.toNat?, as? with
    | some ch, some seq, some to, some as =>
      match rrOutcome ch seq to as with
      | .ok => "ok" | .error st => s!"error:{st}" | .timeout => "timeout"
    | _, _, _, _ => "bad-op"
  | ["monitor", c0, s0, tr] =>
    match c0.toNat?, s0.toNat?, (tr.splitOn ",").mapM parseObs with
    | some c0, some s0, some os =>
      match firstReject (init c0 s0) 0 os with
      | (some i, _) => s!"reject@{i}"
      | (none, _) => "accept"
    | _, _, _ => "bad-op"
  | _ => "bad-op"

end XknxVerif.TunnelSend
