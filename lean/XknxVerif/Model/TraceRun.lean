/-
Replay of an observed trace through a partial monitor `step? : σ → ε → Option σ`
(DESIGN §1.1a, mode R) and invariant lifting over every accepted trace.
Core Lean only (linked into the driver).
-/
namespace XknxVerif.TraceRun

/-- Replay a trace; `none` = the monitor rejects at some observation. -/
def run? {σ ε : Type} (step? : σ → ε → Option σ) : σ → List ε → Option σ
  | s, [] => some s
  | s, e :: es =>
    match step? s e with
    | none => none
    | some s' => run? step? s' es

/-- Position of the first rejected observation (diagnostics for the driver). -/
def firstReject {σ ε : Type} (step? : σ → ε → Option σ) : σ → List ε → Nat → Option Nat
  | _, [], _ => none
  | s, e :: es, k =>
    match step? s e with
    | none => some k
    | some s' => firstReject step? s' es (k + 1)

variable {σ ε : Type} (step? : σ → ε → Option σ)

@[simp] theorem run?_nil (s : σ) : run? step? s [] = some s := rfl

theorem run?_cons (s : σ) (e : ε) (es : List ε) :
    run? step? s (e :: es) = (step? s e).bind (fun s' => run? step? s' es) := by
  simp only [run?]
  cases step? s e <;> rfl

theorem run?_append (s : σ) (a b : List ε) :
    run? step? s (a ++ b) = (run? step? s a).bind (fun s' => run? step? s' b) := by
  induction a generalizing s with
  | nil => simp
  | cons e es ih =>
    simp only [List.cons_append, run?_cons]
    cases step? s e with
    | none => rfl
    | some s' => simpa using ih s'

theorem run?_append_some {s s'' : σ} {a b : List ε} (h : run? step? s (a ++ b) = some s'') :
    ∃ s', run? step? s a = some s' ∧ run? step? s' b = some s'' := by
  rw [run?_append] at h
  cases h1 : run? step? s a with
  | none => simp [h1] at h
  | some s' => exact ⟨s', rfl, by simpa [h1] using h⟩

theorem run?_snoc_some {s s'' : σ} {a : List ε} {e : ε} (h : run? step? s (a ++ [e]) = some s'') :
    ∃ s', run? step? s a = some s' ∧ step? s' e = some s'' := by
  obtain ⟨s', h1, h2⟩ := run?_append_some step? h
  refine ⟨s', h1, ?_⟩
  rw [run?_cons] at h2
  cases he : step? s' e with
  | none => simp [he] at h2
  | some s1 => simpa [he] using h2

/-- Invariant lifting: preserved by every accepted step ⇒ holds after every accepted trace. -/
theorem inv_run? (Inv : σ → Prop)
    (hstep : ∀ s e s', Inv s → step? s e = some s' → Inv s') :
    ∀ (es : List ε) (s s' : σ), Inv s → run? step? s es = some s' → Inv s' := by
  intro es
  induction es with
  | nil => intro s s' h hr; simp at hr; exact hr ▸ h
  | cons e es ih =>
    intro s s' h hr
    rw [run?_cons] at hr
    cases he : step? s e with
    | none => simp [he] at hr
    | some s1 =>
      simp only [he, Option.bind_some] at hr
      exact ih s1 s' (hstep s e s1 h he) hr

/-- Invariant relating the state to the trace consumed so far (history-indexed invariant). -/
theorem inv_hist_run? (Inv : List ε → σ → Prop)
    (hstep : ∀ h s e s', Inv h s → step? s e = some s' → Inv (h ++ [e]) s') :
    ∀ (es h : List ε) (s s' : σ), Inv h s → run? step? s es = some s' → Inv (h ++ es) s' := by
  intro es
  induction es with
  | nil => intro h s s' hi hr; simp at hr; simpa [hr] using (hr ▸ hi)
  | cons e es ih =>
    intro h s s' hi hr
    rw [run?_cons] at hr
    cases he : step? s e with
    | none => simp [he] at hr
    | some s1 =>
      simp only [he, Option.bind_some] at hr
      have := ih (h ++ [e]) s1 s' (hstep h s e s1 hi he) hr
      simpa [List.append_assoc] using this

/-- "Until": `P` is preserved by every accepted step whose observation satisfies `ok`
(an invariant `Inv` being available); then `P` survives any accepted trace of such observations. -/
theorem until_run? (Inv P : σ → Prop) (ok : ε → Prop)
    (hinv : ∀ s e s', Inv s → step? s e = some s' → Inv s')
    (hstep : ∀ s e s', Inv s → P s → ok e → step? s e = some s' → P s') :
    ∀ (es : List ε) (s s' : σ), Inv s → P s → (∀ e ∈ es, ok e) → run? step? s es = some s' →
      P s' := by
  intro es
  induction es with
  | nil => intro s s' _ h _ hr; simp at hr; exact hr ▸ h
  | cons e es ih =>
    intro s s' hi h hok hr
    rw [run?_cons] at hr
    cases he : step? s e with
    | none => simp [he] at hr
    | some s1 =>
      simp only [he, Option.bind_some] at hr
      exact ih s1 s' (hinv s e s1 hi he) (hstep s e s1 hi h (hok e (by simp)) he)
        (fun e' he' => hok e' (by simp [he'])) hr

end XknxVerif.TraceRun
